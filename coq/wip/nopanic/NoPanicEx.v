(* No-panic, part 6: the hypotheses are met by concrete, non-trivial states; the stack hypothesis is
   sharp (a full repetition stack makes the very first node panic). *)
From Coq Require Import NArith ZArith List Bool FMapPositive Lia String.
From Clemens Require Import Base.Res Base.Word Pos.Types Att.Attacks Pos.Position Pos.Inv
     Eval.Eval Search.TT Search.Ordering Search.Negamax Search.SearchStruct
     Search.SearchLines Search.SearchIter Search.SearchGo Search.GoInst.
From Clemens Require Pos.CapturesProofs Search.OrderingProofs.
From Clemens.C10Inv Require InvGen.
From Clemens.C10Inv Require Import InvReach.
From Clemens.C13Mate Require Import MateDefs MateExamples.
From Clemens.C13Bridge Require Import Bridge.
From Clemens.C05Term Require Import NoFuel Rank GoTerm KK.
From WipNopanic Require Import Leaves SeeCaps NoPanicQ NoPanicN NoPanicS.
Import ListNotations.
Open Scope Z_scope.

(* ------------------------------------------------------------------ the stack hypothesis is necessary *)
(* a root node (ply 0: no repetition shortcut) that is not cancelled and does not drop into the
   quiescence search panics when the repetition stack is full: [searchHistory[searchHistoryPly]] *)
Theorem negamax_overflow_panics : forall HS f s p a b depth cn pm rh ic,
  is_in_check p (side p) = Ok ic -> ext_depth ic depth <> 0%N -> ~ cancelled s ->
  (HS <= N.of_nat (List.length (s_hist s)))%N ->
  fst (negamax go_keys go_econsts go_oconsts (go_sconsts_h HS) (S f) s p a b depth 0 cn pm rh) = RPanic.
Proof.
  intros HS f s p a b depth cn pm rh ic Eic Ed Hnc Hfull.
  rewrite negamax_eq. cbv zeta.
  pose proof (poll_A s) as Hp. destruct (poll s) as [[|] s0]; cbn [fst snd] in Hp.
  - destruct Hp as (_ & _ & Hc & _). destruct (Hc eq_refl) as [_ Hc']. contradiction.
  - destruct Hp as ([Hh0 _ _ _ _] & _).
    rewrite Eic. fold (ext_depth ic depth).
    destruct (ext_depth ic depth =? 0)%N eqn:E0; [apply N.eqb_eq in E0; contradiction|].
    cbn [N.eqb negb andb].
    unfold push_history. projs. rewrite Hh0. change (sc_hist_size (go_sconsts_h HS)) with HS.
    assert (El : (N.of_nat (List.length (s_hist s)) <? HS)%N = false) by (apply N.ltb_ge; exact Hfull).
    rewrite El. reflexivity.
Qed.

(* the start position with 1024 entries on the stack: panic; with 1023: an answer *)
Definition full_stack (n : nat) : sst := go_init_sst go_tt_init [] (repeat 0%N n) None.

Example start_full_stack_panics : fst (go_search 4 300 true (full_stack 1024) p_start 1) = RPanic.
Proof. vm_compute. reflexivity. Qed.

Example start_1023_answers :
  match fst (go_search 4 300 true (full_stack 1023) p_start 1) with ROk m => negb (m =? NULL_MOVE)%N | _ => false end = true.
Proof. vm_compute. reflexivity. Qed.

(* ------------------------------------------------------------------ the hypotheses are satisfiable *)
Example p_start_legal : legal_pos p_start.
Proof. apply start_legal. exact p_start_ok. Qed.

(* the start position, a freshly started engine, any cancellation point, any depth, fuel up to 1024 *)
Example start_no_panic : forall iters f c req, (f <= 1024)%nat ->
  fst (go_search iters f true (go_empty_sst c) p_start req) <> RPanic.
Proof. intros. apply go_search_no_panic; [exact p_start_legal|cbn; lia]. Qed.

(* a middle-game-like root (C13's example 2, all 32 men) with an ARBITRARY table / cache / heuristic
   state and 600 earlier positions on the stack *)
Example root2_no_panic : forall iters f s req, List.length (s_hist s) = 600%nat -> (f <= 424)%nat ->
  fst (go_search iters f true s (root_of fen2) req) <> RPanic.
Proof. intros iters f s req Hh Hf. apply go_search_no_panic; [exact root2_legal|lia]. Qed.

(* all hypotheses of [go_search_answers] at once: kings only (C05Term/KK.v), depth 3 *)
Example kk_root_legal : legal_pos (root_of kk_fen).
Proof. apply legal_pos_b_sound. vm_compute. reflexivity. Qed.

Example kk_answers : forall s, (List.length (s_hist s) <= 763)%nat ->
  exists m s', go_search 510 261 true s (root_of kk_fen) 3 = (ROk m, s').
Proof.
  intros s Hs. destruct (kings_only_ranking go_keys) as [Hm Hn].
  apply (go_search_answers kings_only_pos (fun _ => 0%nat) Hm Hn).
  - exact kk_root_legal.
  - exact kk_root_in_universe.
  - reflexivity.
  - lia.
  - vm_compute. lia.
  - lia.
Qed.

(* and with the natural bound: any sufficient fuel, up to 1020 earlier positions on the stack *)
Example kk_answers_any_fuel : forall s f, (List.length (s_hist s) <= 1020)%nat -> (261 <= f)%nat ->
  exists m s', go_search 510 f true s (root_of kk_fen) 3 = (ROk m, s').
Proof.
  intros s f Hs Hf. destruct (kings_only_ranking go_keys) as [Hm Hn].
  apply (go_search_answers_ranked kings_only_pos (fun _ => 0%nat) Hm Hn).
  - exact kk_root_legal.
  - exact kk_root_in_universe.
  - reflexivity.
  - lia.
  - change (N.to_nat (N.max 1 (req_to_depth go_sconsts 3))) with 3%nat. lia.
  - change (N.to_nat (N.max 1 (req_to_depth go_sconsts 3))) with 3%nat. lia.
Qed.

(* ------------------------------------------------------------------ Go array accesses the model does not represent *)
(* KillerMoves[1024][2] is indexed by the uint8 ply, history/counter[2][64][64] by side and the squares of a
   move word: always in range on a legal position, so leaving them out of the model hides no panic *)
Lemma go_table_indices_in_range : forall p m ply, legal_pos p ->
  (side p < 2)%N /\ (mv_src m < 64)%N /\ (mv_dst m < 64)%N /\ (w8 ply < 1024)%N.
Proof.
  intros p m ply [HI _]. split; [exact (InvGen.inv_side_lt p HI)|].
  split; [apply OrderingProofs.mv_src_lt|]. split; [apply CapturesProofs.mv_dst_lt|].
  unfold w8. pose proof (N.mod_upper_bound ply 256 ltac:(discriminate)). lia.
Qed.

Print Assumptions negamax_overflow_panics.
Print Assumptions start_full_stack_panics.
Print Assumptions start_1023_answers.
Print Assumptions start_no_panic.
Print Assumptions root2_no_panic.
Print Assumptions kk_answers.
Print Assumptions kk_answers_any_fuel.
