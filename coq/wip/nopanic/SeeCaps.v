(* No-panic, part 2: the quiescence search calls SEE and the delta-pruning arithmetic on every
   GENERATED capture, before the legality test.  Both return a value on a legal position:
   - C15's material predicate implies the "at most 32 men" premise of the SEE development;
   - the SEE totality proof ([see_gain_bound]) needs the capture to be generated, not legal. *)
From Coq Require Import NArith ZArith List Bool FMapPositive Lia.
From Clemens Require Import Base.Res Base.Word Pos.Types Att.Attacks Pos.Position Pos.Inv
     Pos.ZobristProofs Pos.CapturesProofs Eval.Eval
     Search.TT Search.Ordering Search.OrderingProofs Search.OrderingInst Search.Negamax Search.SearchStruct
     Search.SearchLines Search.GoInst.
From Clemens.C10Inv Require Import InvGen InvTotal.
From Clemens.C15Bound Require Import Material Counts Play Bound.
From Clemens.C13Mate Require Import MateDefs.
From Clemens.C13Bridge Require Import Bridge.
From Clemens Require Eval.SeeBits Eval.SeeProofs Eval.SeeFinal.
From WipNopanic Require Import Leaves.
Import ListNotations.
Open Scope Z_scope.

(* ------------------------------------------------------------------ at most 32 men *)
Definition nz (x : N) : bool := negb (x =? 0)%N.

Definition sum12 (l : list N) : Z :=
  count_pc l 1 + count_pc l 2 + count_pc l 3 + count_pc l 4 + count_pc l 5 + count_pc l 6 +
  count_pc l 9 + count_pc l 10 + count_pc l 11 + count_pc l 12 + count_pc l 13 + count_pc l 14.

Lemma pc_ok_cases13 : forall x, pc_ok x = true ->
  In x [0; 1; 2; 3; 4; 5; 6; 9; 10; 11; 12; 13; 14]%N.
Proof. intros x H. unfold pc_ok, valid_piece in H. cbn [In]. lia. Qed.

Lemma nz_split : forall x, pc_ok x = true ->
  (if nz x then 1 else 0) =
  b2z (x =? 1)%N + b2z (x =? 2)%N + b2z (x =? 3)%N + b2z (x =? 4)%N + b2z (x =? 5)%N + b2z (x =? 6)%N +
  b2z (x =? 9)%N + b2z (x =? 10)%N + b2z (x =? 11)%N + b2z (x =? 12)%N + b2z (x =? 13)%N + b2z (x =? 14)%N.
Proof.
  intros x H. apply pc_ok_cases13 in H. cbn [In] in H.
  destruct H as [<-|[<-|[<-|[<-|[<-|[<-|[<-|[<-|[<-|[<-|[<-|[<-|[<-|[]]]]]]]]]]]]]]; reflexivity.
Qed.

Lemma nz_count : forall l, Forall (fun x => pc_ok x = true) l ->
  Z.of_nat (length (filter nz l)) = sum12 l.
Proof.
  induction l as [|a l IH]; intros H; [reflexivity|].
  inversion H as [|? ? Ha Hl]; subst. specialize (IH Hl).
  unfold sum12 in *. rewrite !count_pc_cons. cbn [filter].
  pose proof (nz_split a Ha) as Hs.
  assert (Hlen : Z.of_nat (length (if nz a then a :: filter nz l else filter nz l)) =
                 (if nz a then 1 else 0) + Z.of_nat (length (filter nz l))).
  { destruct (nz a); cbn [length]; lia. }
  rewrite Hlen, Hs, IH. ring.
Qed.

Lemma men_le_32 : forall p, legal_pos p -> SeeProofs.material_ok p.
Proof.
  intros p [HI HM]. unfold SeeProofs.material_ok, SeeProofs.men, SeeBits.card.
  pose proof (inv_facts p HI) as F.
  change (fun x : N => negb (piece_at p x =? 0)%N) with (fun x : N => nz (piece_at p x)).
  rewrite (filter_map_length nz (piece_at p) squares64), (board_as_map p (F_len p F)).
  assert (Hall : Forall (fun x => pc_ok x = true) (board p)).
  { rewrite <- (board_as_map p (F_len p F)). apply Forall_forall. intros x Hx.
    apply in_map_iff in Hx. destruct Hx as (sq & <- & Hsq). apply (F_valid p F).
    apply SeeBits.squares64_in. exact Hsq. }
  pose proof (nz_count (board p) Hall) as E.
  unfold material_ok in HM. apply andb_true_iff in HM. destruct HM as [M0 M1].
  unfold side_material_ok, men in M0, M1.
  change (new_piece WHITE PAWN) with 1%N in M0. change (new_piece WHITE KNIGHT) with 2%N in M0.
  change (new_piece WHITE BISHOP) with 3%N in M0. change (new_piece WHITE ROOK) with 4%N in M0.
  change (new_piece WHITE QUEEN) with 5%N in M0. change (new_piece WHITE KING) with 6%N in M0.
  change (new_piece BLACK PAWN) with 9%N in M1. change (new_piece BLACK KNIGHT) with 10%N in M1.
  change (new_piece BLACK BISHOP) with 11%N in M1. change (new_piece BLACK ROOK) with 12%N in M1.
  change (new_piece BLACK QUEEN) with 13%N in M1. change (new_piece BLACK KING) with 14%N in M1.
  unfold sum12 in E.
  pose proof (count_pc_nonneg (board p) 1). pose proof (count_pc_nonneg (board p) 2).
  pose proof (count_pc_nonneg (board p) 3). pose proof (count_pc_nonneg (board p) 4).
  pose proof (count_pc_nonneg (board p) 5). pose proof (count_pc_nonneg (board p) 9).
  pose proof (count_pc_nonneg (board p) 10). pose proof (count_pc_nonneg (board p) 11).
  pose proof (count_pc_nonneg (board p) 12). pose proof (count_pc_nonneg (board p) 13).
  unfold counts_ok in M0, M1. lia.
Qed.

(* ------------------------------------------------------------------ scored captures *)
(* [m] is, up to its score bits, one of the captures generated for [p] *)
Definition capturable (p : position) (m : N) : Prop :=
  exists g m0, gen_captures p = Ok g /\ In m0 g /\ mv_low m = mv_low m0.

Lemma capturable_movable : forall p m, capturable p m -> movable p m.
Proof. intros p m (g & m0 & Hg & Hin & E). exists g, m0. auto. Qed.

Lemma capturable_scored : forall OC p h g ms,
  gen_captures p = Ok g -> score_moves OC p h g = Ok ms -> forall x, In x ms -> capturable p x.
Proof.
  intros OC p h g ms Hg Hs x Hx. destruct (score_moves_in _ _ _ _ _ _ Hs Hx) as (m0 & Hin & E).
  exists g, m0. auto.
Qed.

Lemma capturable_sorted : forall p ms i,
  (forall x, In x ms -> capturable p x) -> forall x, In x (sort_index ms i) -> capturable p x.
Proof. intros p ms i H x Hx. apply H. eapply sort_index_in; eauto. Qed.

Lemma low_fields : forall m m0, mv_low m = mv_low m0 ->
  mv_src m = mv_src m0 /\ mv_dst m = mv_dst m0 /\ mv_kind m = mv_kind m0 /\ mv_promo m = mv_promo m0.
Proof.
  intros m m0 E.
  rewrite <- (SearchLines.mv_src_low m), <- (SearchLines.mv_dst_low m), <- (SearchLines.mv_kind_low m),
          <- (SearchLines.mv_promo_low m), E,
          SearchLines.mv_src_low, SearchLines.mv_dst_low, SearchLines.mv_kind_low, SearchLines.mv_promo_low.
  auto.
Qed.

Lemma capturable_capture_ok : forall p m, Inv p -> capturable p m -> mv_kind m <> EN_PASSANT ->
  SeeProofs.capture_ok p m.
Proof.
  intros p m HI (g & m0 & Hg & Hin & E) Hk.
  destruct (low_fields m m0 E) as (Es & Ed & Ek & _).
  assert (CAP : SeeProofs.capture_ok p m0).
  { apply (SeeProofs.gen_capture_ok SeeFinal.slider_exact_holds p (inv_facts p HI) g m0 Hg Hin). congruence. }
  unfold SeeProofs.capture_ok in *. rewrite Es, Ed. exact CAP.
Qed.

Lemma go_pv_ok : SeeProofs.pv_ok go_econsts.
Proof. repeat split; try (vm_compute; reflexivity). repeat constructor; vm_compute; discriminate. Qed.

(* SEE on a generated (not necessarily legal) capture *)
Theorem see_np : forall p m, legal_pos p -> capturable p m -> mv_kind m <> EN_PASSANT ->
  exists v, see go_econsts p m = Ok v.
Proof.
  intros p m HL Hc Hk. pose proof HL as [HI _].
  destruct (SeeProofs.see_gain_bound SeeFinal.slider_exact_holds go_econsts go_pv_ok p (inv_facts p HI)
              (men_le_32 p HL) m (capturable_capture_ok p m HI Hc Hk)) as (tys & _ & _ & E).
  eauto.
Qed.

Lemma see_skip_np : forall p m, legal_pos p -> capturable p m ->
  exists b, (if negb (mv_kind m =? EN_PASSANT)%N then (v <- see go_econsts p m ;; Ok (v <? 0)) else Ok false) = Ok b.
Proof.
  intros p m HL Hc. destruct (mv_kind m =? EN_PASSANT)%N eqn:Ek; cbn [negb]; [eauto|].
  apply N.eqb_neq in Ek. destruct (see_np p m HL Hc Ek) as (v & ->). cbn [bind]. eauto.
Qed.

(* the delta-pruning test *)
Lemma piece_value_np : forall ty, (ty < 6)%N -> exists v, nthz (ec_piece_value go_econsts) ty = Ok v.
Proof.
  intros ty H. destruct (SeeProofs.nthz_val go_econsts ty go_pv_ok H) as [E _]. eauto.
Qed.

Lemma mv_promo_lt6 : forall m, (mv_promo m < 6)%N.
Proof. intro m. pose proof (promo_range m). lia. Qed.

Lemma delta_skip_np : forall p m stand_pat alpha, legal_pos p -> capturable p m ->
  exists b,
    (if negb (mv_kind m =? EN_PASSANT)%N then
       pv <- nthz (ec_piece_value go_econsts) PAWN ;;
       let margin := mul16 2 pv in
       margin <- (if (mv_kind m =? PROMOTION)%N then
                    (pp <- nthz (ec_piece_value go_econsts) (mv_promo m) ;; Ok (add16 (sub16 margin pv) pp))
                  else Ok margin) ;;
       tp <- get_piece p (mv_dst m) ;;
       tv <- nthz (ec_piece_value go_econsts) (piece_type tp) ;;
       if add16 (add16 stand_pat tv) margin <? alpha then
         (e <- is_endgame go_econsts p ;; Ok (negb e))
       else Ok false
     else Ok false) = Ok b.
Proof.
  intros p m sp alpha HL Hc. pose proof HL as [HI _].
  destruct (mv_kind m =? EN_PASSANT)%N eqn:Ek; cbn [negb]; [eauto|].
  apply N.eqb_neq in Ek.
  destruct (piece_value_np PAWN eq_refl) as (pv & ->). cbn [bind]. cbv zeta.
  assert (Hm : exists mg, (if (mv_kind m =? PROMOTION)%N then
                    (pp <- nthz (ec_piece_value go_econsts) (mv_promo m) ;; Ok (add16 (sub16 (mul16 2 pv) pv) pp))
                  else Ok (mul16 2 pv)) = Ok mg).
  { destruct (mv_kind m =? PROMOTION)%N; [|eauto].
    destruct (piece_value_np (mv_promo m) (mv_promo_lt6 m)) as (pp & ->). cbn [bind]. eauto. }
  destruct Hm as (mg & ->). cbn [bind].
  rewrite (get_piece_np p _ HI (mv_dst_lt m)). cbn [bind].
  destruct (capturable_capture_ok p m HI Hc Ek) as (_ & Hocc & _).
  pose proof (piece_type_valid _ (F_valid p (inv_facts p HI) _ (mv_dst_lt m)) Hocc) as Hty.
  destruct (piece_value_np _ Hty) as (tv & ->). cbn [bind].
  destruct (add16 (add16 sp tv) mg <? alpha); [|eauto].
  destruct (is_endgame_np p HL) as (e & ->). cbn [bind]. eauto.
Qed.

Print Assumptions see_np.
Print Assumptions delta_skip_np.
