(* No-panic, part 1: the position / evaluation / ordering layer on a legal position.
   Every call the search makes into these layers returns a value when the position satisfies
   [legal_pos] (C10's invariant and C15's material predicate).  Go constants throughout. *)
From Coq Require Import NArith ZArith List Bool FMapPositive Lia.
From Clemens Require Import Base.Res Base.Word Pos.Types Att.Attacks Pos.Position Pos.Inv
     Pos.ZobristProofs Pos.ZobristInst Pos.CapturesProofs Eval.Eval
     Search.TT Search.Ordering Search.OrderingProofs Search.OrderingInst Search.Negamax Search.SearchStruct
     Search.SearchLines Search.GoInst.
From Clemens.C10Inv Require Import InvGen InvMoves InvStep InvTotal InvKing.
From Clemens.C15Bound Require Import Material Counts Play Bound.
From Clemens.C13Mate Require Import MateDefs.
From Clemens.C13Bridge Require Import Bridge.
From Clemens Require Eval.SeeBits Eval.SeeProofs Eval.SeeFinal.
Import ListNotations.
Open Scope Z_scope.

(* the two copies of the Go records *)
Lemma go_keys_same : ZobristInst.go_keys = go_keys.
Proof. reflexivity. Qed.
Lemma go_oconsts_same : gen_oconsts = go_oconsts.
Proof. reflexivity. Qed.
Lemma go_keys_wf' : keys_wf go_keys = true.
Proof. rewrite <- go_keys_same. exact go_keys_wf. Qed.

(* ------------------------------------------------------------------ check test, generators *)
Lemma in_check_np : forall p, Inv p -> exists b, is_in_check p (side p) = Ok b.
Proof.
  intros p HI. destruct (in_check_total p HI (side p) (inv_side_lt p HI)) as (b & _ & _ & E & _). eauto.
Qed.

Lemma gen_moves_np : forall p, Inv p -> exists g, gen_moves p = Ok g.
Proof. exact gen_moves_total. Qed.

Lemma gen_captures_np : forall p, Inv p -> exists g, gen_captures p = Ok g.
Proof. exact gen_captures_total. Qed.

(* ------------------------------------------------------------------ no generated move lands on a king *)
Lemma castle_dst_empty : forall p m, castle_case p m -> piece_at p (mv_dst m) = 0%N.
Proof.
  intros p m [(_ & -> & _ & _ & Z)|[(_ & -> & _ & _ & Z & _)|[(_ & -> & _ & _ & Z)|(_ & -> & _ & _ & Z & _)]]];
    exact Z.
Qed.

Lemma desc_no_king : forall p m, Inv p -> move_desc p m ->
  piece_at p (mv_dst m) <> 6%N /\ piece_at p (mv_dst m) <> 14%N.
Proof.
  intros p m HI [s t T Ls Lt -> HT Hpc Ho Ha | s t Ls Lt Hm Hpc Hg | s t Ls Lt Hm Hpc He Hg | s Ls Le -> Hpc Hg | CC].
  - pose proof (sm_piece p HI s t T Ls Lt HT Hpc Ho Ha) as SM.
    rewrite (SM_dst _ _ _ _ _ _ SM). exact (SM_noking _ _ _ _ _ _ SM).
  - destruct (sm_push p HI s t m Ls Lt Hm Hpc Hg) as [fp SM].
    rewrite (SM_dst _ _ _ _ _ _ SM). exact (SM_noking _ _ _ _ _ _ SM).
  - destruct (sm_pcap p HI s t m Ls Lt Hm Hpc He Hg) as [fp SM].
    rewrite (SM_dst _ _ _ _ _ _ SM). exact (SM_noking _ _ _ _ _ _ SM).
  - pose proof (sm_ep p HI s Ls Le Hpc Hg) as SM.
    rewrite (SM_dst _ _ _ _ _ _ SM). exact (SM_noking _ _ _ _ _ _ SM).
  - rewrite (castle_dst_empty p m CC). split; discriminate.
Qed.

Lemma king_type_codes : forall pc, pc_ok pc = true -> piece_type pc = KING -> pc = 6%N \/ pc = 14%N.
Proof.
  intros pc H Hk.
  assert (Hlt : (pc < 15)%N) by (unfold pc_ok, valid_piece in H; lia).
  assert (Hall : forallb (fun pc => negb (pc_ok pc) || negb (piece_type pc =? KING)%N || (pc =? 6)%N || (pc =? 14)%N)
                         (map N.of_nat (seq 0 15)) = true) by (vm_compute; reflexivity).
  rewrite forallb_forall in Hall. specialize (Hall pc (in_Nrange 15 pc Hlt)).
  rewrite H, Hk in Hall. cbn [negb orb] in Hall. rewrite N.eqb_refl in Hall. cbn [negb orb] in Hall.
  apply orb_true_iff in Hall. destruct Hall as [E|E]; apply N.eqb_eq in E; auto.
Qed.

Theorem gen_moves_no_king_target : forall p g, Inv p -> gen_moves p = Ok g -> no_king_target p g.
Proof.
  intros p g HI Hg m Hin Hk.
  pose proof (inv_facts p HI) as F.
  destruct (desc_no_king p m HI (gen_moves_desc p HI g m Hg Hin)) as [H6 H14].
  destruct (king_type_codes _ (F_valid p F _ (mv_dst_lt m)) Hk); contradiction.
Qed.

Theorem gen_captures_no_king_target : forall p g, Inv p -> gen_captures p = Ok g -> no_king_target p g.
Proof.
  intros p g HI Hc m Hin.
  destruct (gen_moves_total p HI) as (ms & Hms).
  pose proof (captures_same_order p ms g HI Hms Hc) as E. subst g.
  apply filter_In in Hin. destruct Hin as [Hin _].
  exact (gen_moves_no_king_target p ms HI Hms m Hin).
Qed.

Lemma score_moves_np : forall p h g, Inv p -> gen_moves p = Ok g \/ gen_captures p = Ok g ->
  exists ms, score_moves go_oconsts p h g = Ok ms.
Proof.
  intros p h g HI Hg. rewrite <- go_oconsts_same. apply ordering_total_go; [exact HI|exact Hg|].
  destruct Hg as [Hg|Hg]; [eapply gen_moves_no_king_target|eapply gen_captures_no_king_target]; eauto.
Qed.

(* ------------------------------------------------------------------ the moves the search makes *)
Lemma movable_make_np : forall p m, Inv p -> movable p m -> exists q, make_move go_keys p m = Ok q.
Proof.
  intros p m HI Hmv. destruct (movable_generated go_keys p m HI Hmv) as (g & m0 & Hg & Hin & E).
  rewrite E. exact (make_move_total go_keys go_keys_wf' p g m0 HI Hg Hin).
Qed.

Lemma movable_legal_np : forall p m q, Inv p -> movable p m -> make_move go_keys p m = Ok q ->
  exists b, is_legal q = Ok b.
Proof.
  intros p m q HI Hmv Hmk. destruct (movable_generated go_keys p m HI Hmv) as (g & m0 & Hg & Hin & E).
  rewrite E in Hmk. exact (is_legal_total go_keys p g m0 q HI Hg Hin Hmk).
Qed.

Lemma get_piece_np : forall p sq, Inv p -> (sq < 64)%N -> get_piece p sq = Ok (piece_at p sq).
Proof. intros p sq HI H. exact (get_piece_at p (inv_facts p HI) sq H). Qed.

Lemma quiet_np : forall p m, Inv p ->
  exists qt, (tp <- get_piece p (mv_dst m) ;; Ok ((tp =? NO_PIECE)%N && negb (mv_kind m =? EN_PASSANT)%N)) = Ok qt.
Proof. intros p m HI. rewrite (get_piece_np p _ HI (mv_dst_lt m)). cbn [bind]. eauto. Qed.

Lemma null_np : forall p, exists q x, make_null_move go_keys p = Ok (q, x).
Proof.
  intro p. unfold make_null_move. destruct (negb (ep p =? SQ_NONE)%N).
  - destruct (key_ep_total go_keys go_keys_wf' (ep p)) as [k ->]. cbn [bind]. eauto.
  - cbn [bind]. eauto.
Qed.

(* ------------------------------------------------------------------ evaluation *)
Lemma contempt_np : forall p, legal_pos p -> exists v, contempt go_econsts p = Ok v.
Proof.
  intros p [HI HM]. destruct (contempt_sim p HI HM) as (E & v & Ev & _).
  rewrite go_econsts_same in E, Ev. exists v. rewrite E. exact Ev.
Qed.

Lemma is_endgame_np : forall p, legal_pos p -> exists e, is_endgame go_econsts p = Ok e.
Proof.
  intros p HL. destruct (contempt_np p HL) as (v & E). unfold contempt in E.
  destruct (is_endgame go_econsts p) as [e| |]; cbn [bind] in E; try discriminate. eauto.
Qed.

Lemma evaluate_np : forall s p, legal_pos p -> exists v s1, evaluate go_econsts s p = ROk (v, s1).
Proof.
  intros s p HL. unfold evaluate, eval_cached.
  destruct (100 <=? hmc p)%N.
  - destruct (contempt_np p HL) as (v & ->). cbn [bind]. eauto.
  - destruct (cache_get go_econsts (s_cache s) (hash p)) as [sc found]. destruct found; [eauto|].
    destruct HL as [HI HM]. destruct (eval_safe p HI HM) as (v & E & _). rewrite go_econsts_same in E.
    rewrite E. cbn [bind]. eauto.
Qed.

(* the futility margin table is indexed below its length *)
Lemma fut_margin_np : forall depth, (depth <? sc_fut_depth go_sconsts)%N = true ->
  exists mg, nthz (sc_fut_margin go_sconsts) depth = Ok mg.
Proof.
  intros depth H. apply N.ltb_lt in H.
  assert (Hall : forallb (fun d => match nthz (sc_fut_margin go_sconsts) d with Ok _ => true | _ => false end)
                         (map N.of_nat (seq 0 (N.to_nat (sc_fut_depth go_sconsts)))) = true)
    by (vm_compute; reflexivity).
  rewrite forallb_forall in Hall.
  assert (Hin : In depth (map N.of_nat (seq 0 (N.to_nat (sc_fut_depth go_sconsts))))).
  { apply in_Nrange. lia. }
  specialize (Hall depth Hin). destruct (nthz (sc_fut_margin go_sconsts) depth); try discriminate. eauto.
Qed.

Print Assumptions score_moves_np.
Print Assumptions evaluate_np.
Print Assumptions movable_make_np.
