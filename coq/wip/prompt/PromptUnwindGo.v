(* C05, whole-call form, goal 3 per frame, for the Go build instance. *)
From Coq Require Import NArith ZArith List Bool FMapPositive Lia.
From Clemens Require Import Base.Res Base.Word Pos.Types Att.Attacks Pos.Position Eval.Eval
     Search.TT Search.Ordering Search.Negamax Search.SearchStruct Search.GoInst.
From WipPrompt Require Import PromptUnwind.
Import ListNotations.
Open Scope Z_scope.

Definition go_nm_body := nm_body go_keys go_econsts go_oconsts go_sconsts.
Definition go_q_body := q_body go_keys go_econsts go_oconsts go_sconsts.

(* the Go search is these bodies applied to itself *)
Theorem go_negamax_is_body : forall f s p alpha beta depth ply cn pm rh,
  go_negamax (S f) s p alpha beta depth ply cn pm rh =
  go_nm_body (go_negamax f) (go_quiescence f) s p alpha beta depth ply cn pm rh.
Proof. reflexivity. Qed.

Theorem go_quiescence_is_body : forall f s p alpha beta ply,
  go_quiescence (S f) s p alpha beta ply = go_q_body (go_quiescence f) s p alpha beta ply.
Proof. reflexivity. Qed.

(* a frame of negamax, whatever its callees are: if it returns the error, it returns - untouched - the state
   in which its own first poll reported done, or in which its quiescence callee returned the error, or, with
   its own entry popped off the repetition stack, the state in which a negamax callee returned the error or
   its own second poll (before the table store) reported done *)
Theorem go_negamax_frame_unwinds : forall rec qrec s p alpha beta depth ply cn pm rh s',
  go_nm_body rec qrec s p alpha beta depth ply cn pm rh = (RCancel, s') ->
  poll_out s' \/ qrec_out qrec s' \/
  exists s1, (rec_out rec s1 \/ poll_out s1) /\ s' = pop_history s1.
Proof. exact (nm_body_unwinds go_keys go_econsts go_oconsts go_sconsts). Qed.

Theorem go_quiescence_frame_unwinds : forall qrec s p alpha beta ply s',
  go_q_body qrec s p alpha beta ply = (RCancel, s') -> poll_out s' \/ qrec_out qrec s'.
Proof. exact (q_body_unwinds go_keys go_econsts go_oconsts go_sconsts). Qed.

(* [poll_out]: the polled state with nothing but the poll counted *)
Theorem poll_out_is_the_polled_state : forall s', poll_out s' <->
  exists s0, cancelled s0 /\ s' = set_polls s0 (s_polls s0 + 1).
Proof. exact poll_out_spec. Qed.

Print Assumptions go_negamax_frame_unwinds.
Print Assumptions go_quiescence_frame_unwinds.
Print Assumptions go_negamax_is_body.
