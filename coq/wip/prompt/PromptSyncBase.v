(* C05, whole-call form, goal 4 (determinism of the prefix): vocabulary and the commutation of every
   state operation of the search with a change of the cancellation oracle.  Nothing but [poll] reads
   [s_cancel]. *)
From Coq Require Import NArith ZArith List Bool FMapPositive Lia.
From Clemens Require Import Base.Res Base.Word Pos.Types Att.Attacks Pos.Position Eval.Eval
     Search.TT Search.Ordering Search.Negamax Search.SearchStruct.
From WipPrompt Require Import PromptBase.
Import ListNotations.
Open Scope Z_scope.

(* oracle [c1] reports done no later than oracle [c2] *)
Definition earlier (c1 c2 : option N) : Prop :=
  match c2 with
  | None => True
  | Some k2 => match c1 with Some k1 => (k1 <= k2)%N | None => False end
  end.

Lemma earlier_refl : forall c, earlier c c.
Proof. intros [k|]; cbn; [lia|exact I]. Qed.
Lemma earlier_none : forall c, earlier c None.
Proof. intro c; exact I. Qed.
Lemma earlier_some : forall k1 k2, (k1 <= k2)%N -> earlier (Some k1) (Some k2).
Proof. intros; assumption. Qed.

(* the transport of a result to the other oracle *)
Definition tr {A} (c : option N) (x : sresult A * sst) : sresult A * sst := (fst x, set_cancel (snd x) c).

Definition lift1 {A} (c : option N) (r : sresult (A * sst)) : sresult (A * sst) :=
  match r with ROk (v, s1) => ROk (v, set_cancel s1 c) | RCancel => RCancel | RPanic => RPanic | ROutOfFuel => ROutOfFuel end.
Definition lift0 (c : option N) (r : sresult sst) : sresult sst :=
  match r with ROk s1 => ROk (set_cancel s1 c) | RCancel => RCancel | RPanic => RPanic | ROutOfFuel => ROutOfFuel end.

(* projections *)
Lemma sc_tt : forall s c, s_tt (set_cancel s c) = s_tt s. Proof. reflexivity. Qed.
Lemma sc_cache : forall s c, s_cache (set_cancel s c) = s_cache s. Proof. reflexivity. Qed.
Lemma sc_nodes : forall s c, s_nodes (set_cancel s c) = s_nodes s. Proof. reflexivity. Qed.
Lemma sc_killers : forall s c, s_killers (set_cancel s c) = s_killers s. Proof. reflexivity. Qed.
Lemma sc_history : forall s c, s_history (set_cancel s c) = s_history s. Proof. reflexivity. Qed.
Lemma sc_counter : forall s c, s_counter (set_cancel s c) = s_counter s. Proof. reflexivity. Qed.
Lemma sc_hist : forall s c, s_hist (set_cancel s c) = s_hist s. Proof. reflexivity. Qed.
Lemma sc_pv : forall s c, s_pv (set_cancel s c) = s_pv s. Proof. reflexivity. Qed.
Lemma sc_out : forall s c, s_out (set_cancel s c) = s_out s. Proof. reflexivity. Qed.
Lemma sc_polls : forall s c, s_polls (set_cancel s c) = s_polls s. Proof. reflexivity. Qed.
Lemma sc_cancel : forall s c, s_cancel (set_cancel s c) = c. Proof. reflexivity. Qed.

(* updates *)
Lemma sc_upd_tt : forall s c v, upd_tt (set_cancel s c) v = set_cancel (upd_tt s v) c. Proof. reflexivity. Qed.
Lemma sc_upd_cache : forall s c v, upd_cache (set_cancel s c) v = set_cancel (upd_cache s v) c. Proof. reflexivity. Qed.
Lemma sc_upd_nodes : forall s c v, upd_nodes (set_cancel s c) v = set_cancel (upd_nodes s v) c. Proof. reflexivity. Qed.
Lemma sc_upd_killers : forall s c v, upd_killers (set_cancel s c) v = set_cancel (upd_killers s v) c. Proof. reflexivity. Qed.
Lemma sc_upd_history : forall s c v, upd_history (set_cancel s c) v = set_cancel (upd_history s v) c. Proof. reflexivity. Qed.
Lemma sc_upd_counter : forall s c v, upd_counter (set_cancel s c) v = set_cancel (upd_counter s v) c. Proof. reflexivity. Qed.
Lemma sc_upd_hist : forall s c v, upd_hist (set_cancel s c) v = set_cancel (upd_hist s v) c. Proof. reflexivity. Qed.
Lemma sc_upd_pv : forall s c v, upd_pv (set_cancel s c) v = set_cancel (upd_pv s v) c. Proof. reflexivity. Qed.
Lemma sc_emit : forall s c v, emit (set_cancel s c) v = set_cancel (emit s v) c. Proof. reflexivity. Qed.
Lemma sc_set_polls : forall s c v, set_polls (set_cancel s c) v = set_cancel (set_polls s v) c. Proof. reflexivity. Qed.
Lemma sc_sc : forall s c c', set_cancel (set_cancel s c) c' = set_cancel s c'. Proof. reflexivity. Qed.

Section SyncBase.
Variable K : zkeys.
Variable EC : econsts.
Variable OC : oconsts.
Variable SC : sconsts.

Lemma sc_pop_history : forall s c, pop_history (set_cancel s c) = set_cancel (pop_history s) c.
Proof. reflexivity. Qed.
Lemma sc_halve_history : forall s c sd, halve_history (set_cancel s c) sd = set_cancel (halve_history s sd) c.
Proof. reflexivity. Qed.
Lemma sc_is_repetition : forall s c p, is_repetition (set_cancel s c) p = is_repetition s p.
Proof. reflexivity. Qed.
Lemma sc_hctx_of : forall s c p pv t ply, hctx_of (set_cancel s c) p pv t ply = hctx_of s p pv t ply.
Proof. reflexivity. Qed.
Lemma sc_killers_at : forall s c ply, killers_at (set_cancel s c) ply = killers_at s ply.
Proof. reflexivity. Qed.
Lemma sc_history_at : forall s c sd a b, history_at (set_cancel s c) sd a b = history_at s sd a b.
Proof. reflexivity. Qed.

Lemma sc_evaluate : forall s c p, evaluate EC (set_cancel s c) p = lift1 c (evaluate EC s p).
Proof.
  intros. unfold evaluate. rewrite sc_cache.
  destruct (eval_cached EC (s_cache s) p) as [[v c0]| |]; reflexivity.
Qed.

Lemma sc_push_history : forall s c p, push_history SC (set_cancel s c) p = lift0 c (push_history SC s p).
Proof. intros. unfold push_history. rewrite sc_hist. destruct (_ <? _)%N; reflexivity. Qed.

Lemma sc_cut_state : forall s c p depth ply pm bm m qt,
  nm_cut_state OC (set_cancel s c) p depth ply pm bm m qt = set_cancel (nm_cut_state OC s p depth ply pm bm m qt) c.
Proof.
  intros. unfold nm_cut_state. destruct qt; [|reflexivity].
  change (killers_at (set_cancel s c) ply) with (killers_at s ply). destruct (killers_at s ply) as [k0 k1].
  cbv zeta. unfold history_at, halve_history, upd_counter, upd_history, upd_killers, set_cancel.
  cbn [s_tt s_cache s_nodes s_killers s_history s_counter s_hist s_pv s_out s_polls s_cancel].
  repeat match goal with |- context [if ?b then _ else _] => destruct b eqn:? end; reflexivity.
Qed.

Lemma sc_snm : forall s c p beta depth ic pv,
  nm_snm EC SC (set_cancel s c) p beta depth ic pv = lift1 c (nm_snm EC SC s p beta depth ic pv).
Proof.
  intros. unfold nm_snm.
  destruct (negb ic && negb pv && negb (is_checkmate_value EC beta)); [|reflexivity].
  rewrite sc_evaluate. destruct (evaluate EC s p) as [[v s1]| | |]; reflexivity.
Qed.

Lemma sc_fpr : forall s c p alpha beta depth ic pv,
  nm_fpr EC SC (set_cancel s c) p alpha beta depth ic pv = lift1 c (nm_fpr EC SC s p alpha beta depth ic pv).
Proof.
  intros. unfold nm_fpr.
  match goal with |- context [if ?b then _ else _] => destruct b end; [|reflexivity].
  rewrite sc_evaluate. destruct (evaluate EC s p) as [[v s1]| | |]; try reflexivity.
  cbn [lift1]. destruct (nthz (sc_fut_margin SC) depth); reflexivity.
Qed.

(* the one operation that reads the oracle *)
Lemma poll_sync : forall s c2,
  earlier (s_cancel s) c2 -> fst (poll s) = false ->
  poll (set_cancel s c2) = (false, set_cancel (snd (poll s)) c2).
Proof.
  intros s c2 He Hf. unfold poll in *. cbn [fst snd] in *. rewrite sc_cancel, sc_polls.
  unfold earlier in He.
  destruct c2 as [k2|].
  - destruct (s_cancel s) as [k1|]; [|contradiction].
    apply N.leb_gt in Hf. assert (E : (k2 <=? s_polls s)%N = false) by (apply N.leb_gt; lia).
    rewrite E. reflexivity.
  - reflexivity.
Qed.

Lemma poll_cancel : forall s, s_cancel (snd (poll s)) = s_cancel s.
Proof. reflexivity. Qed.

End SyncBase.

#[export] Hint Rewrite sc_tt sc_cache sc_nodes sc_killers sc_history sc_counter sc_hist sc_pv sc_out sc_polls sc_cancel
  sc_upd_tt sc_upd_cache sc_upd_nodes sc_upd_killers sc_upd_history sc_upd_counter sc_upd_hist sc_upd_pv sc_emit
  sc_set_polls sc_sc sc_pop_history sc_halve_history sc_is_repetition sc_hctx_of sc_killers_at sc_history_at
  sc_evaluate sc_push_history sc_cut_state sc_snm sc_fpr : scp.
