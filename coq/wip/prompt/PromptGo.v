(* C05, whole-call form, for the Go build instances; non-vacuity examples. *)
From Coq Require Import NArith ZArith List Bool FMapPositive Lia.
From Clemens Require Import Base.Res Base.Word Pos.Types Att.Attacks Pos.Position Eval.Eval
     Search.TT Search.Ordering Search.Negamax Search.SearchStruct Search.SearchLines Search.SearchIter
     Search.GoInst Search.SearchGo.
From WipPrompt Require Import PromptBase PromptWalk PromptCalls.
Import ListNotations.
Open Scope Z_scope.

(* ------------------------------------------------------------------ 1. exactly one firing poll *)
(* [armed s k]: the oracle of [s] is [Some k] and no poll has reported done yet ([s_polls s <= k]) *)
Theorem go_negamax_one_firing_poll : forall f s p alpha beta depth ply cn pm rh r s' k,
  s_cancel s = Some k -> ~ fired s ->
  go_negamax f s p alpha beta depth ply cn pm rh = (r, s') ->
  (s_polls s' <= k + 1)%N /\ (r = RCancel -> s_polls s' = (k + 1)%N) /\ (r <> RCancel -> (s_polls s' <= k)%N).
Proof.
  intros f s p alpha beta depth ply cn pm rh r s' k Ek Hnf H.
  exact (negamax_one_firing_poll go_keys go_econsts go_oconsts go_sconsts _ _ _ _ _ _ _ _ _ _ _ _ H k
           (not_fired_armed s k Ek Hnf)).
Qed.

Theorem go_quiescence_one_firing_poll : forall f s p alpha beta ply r s' k,
  s_cancel s = Some k -> ~ fired s ->
  go_quiescence f s p alpha beta ply = (r, s') ->
  (s_polls s' <= k + 1)%N /\ (r = RCancel -> s_polls s' = (k + 1)%N) /\ (r <> RCancel -> (s_polls s' <= k)%N).
Proof.
  intros f s p alpha beta ply r s' k Ek Hnf H.
  exact (quiescence_one_firing_poll go_keys go_econsts go_oconsts go_sconsts _ _ _ _ _ _ _ _ H k
           (not_fired_armed s k Ek Hnf)).
Qed.

Theorem go_search_root_one_firing_poll : forall fuel s root d a b r s' k,
  s_cancel s = Some k -> ~ fired s ->
  go_search_root fuel s root d a b = (r, s') ->
  (s_polls s' <= k + 1)%N /\ (r = RCancel -> s_polls s' = (k + 1)%N) /\ (r <> RCancel -> (s_polls s' <= k)%N).
Proof.
  intros fuel s root d a b r s' k Ek Hnf H.
  exact (search_root_one_firing_poll go_keys go_econsts go_oconsts go_sconsts _ _ _ _ _ _ _ _ H k
           (not_fired_armed s k Ek Hnf)).
Qed.

(* the loop swallows the error: the poll counter tells whether the stop landed inside *)
Theorem go_search_iterative_one_firing_poll : forall iters fuel rep s root md d a b r s' k,
  s_cancel s = Some k -> ~ fired s ->
  go_search_iterative iters fuel rep s root md d a b = (r, s') ->
  s_cancel s' = Some k /\ (s_polls s <= s_polls s' <= k + 1)%N /\
  ((k < s_polls s')%N -> s_polls s' = (k + 1)%N /\ r = ROk tt).
Proof.
  intros iters fuel rep s root md d a b r s' k Ek Hnf H.
  exact (search_iterative_one_firing_poll go_keys go_econsts go_oconsts go_sconsts _ _ _ _ _ _ _ _ _ _ _ _
           (not_fired_armed s k Ek Hnf) H).
Qed.

(* ------------------------------------------------------------------ 2. every node polls *)
(* [addw a n]: the uint64 counter [a] after [n] increments; the count [n] is the unwrapped one.
   In a call that returns the error the firing poll pays for no node (negamax, search_root);
   quiescence called directly counts its own node before its first poll. *)
Theorem go_negamax_every_node_polls : forall f s p alpha beta depth ply cn pm rh r s',
  go_negamax f s p alpha beta depth ply cn pm rh = (r, s') ->
  exists n, s_nodes s' = addw (s_nodes s) n /\
    (n <= s_polls s' - s_polls s)%N /\ (r = RCancel -> (n + 1 <= s_polls s' - s_polls s)%N).
Proof. exact (negamax_node_account go_keys go_econsts go_oconsts go_sconsts). Qed.

Theorem go_quiescence_every_node_polls : forall f s p alpha beta ply r s',
  go_quiescence f s p alpha beta ply = (r, s') ->
  exists n, s_nodes s' = addw (s_nodes s) n /\ (n <= s_polls s' - s_polls s)%N.
Proof.
  intros f s p alpha beta ply r s' H.
  destruct (quiescence_node_account go_keys go_econsts go_oconsts go_sconsts _ _ _ _ _ _ _ _ H) as (n & H1 & H2 & _).
  exists n. auto.
Qed.

Theorem go_search_root_every_node_polls : forall fuel s root d a b r s',
  go_search_root fuel s root d a b = (r, s') ->
  exists n, s_nodes s' = addw (s_nodes s) n /\
    (n <= s_polls s' - s_polls s)%N /\ (r = RCancel -> (n + 1 <= s_polls s' - s_polls s)%N).
Proof. exact (search_root_node_account go_keys go_econsts go_oconsts go_sconsts). Qed.

Theorem go_search_iterative_every_node_polls : forall iters fuel rep s root md d a b r s',
  go_search_iterative iters fuel rep s root md d a b = (r, s') ->
  exists n, s_nodes s' = addw (s_nodes s) n /\
    (n <= s_polls s' - s_polls s)%N /\
    (forall k, s_cancel s = Some k -> ~ fired s -> (k < s_polls s')%N -> (n <= k - s_polls s)%N).
Proof.
  intros iters fuel rep s root md d a b r s' H.
  destruct (search_iterative_node_account go_keys go_econsts go_oconsts go_sconsts _ _ _ _ _ _ _ _ _ _ _ H)
    as (n & H1 & H2 & H3).
  exists n. split; [exact H1|]. split; [exact H2|]. intros k Ek Hnf. apply H3. apply not_fired_armed; assumption.
Qed.

(* the same without [addw]: when the uint64 counter does not wrap during the call *)
Theorem go_negamax_every_node_polls_nowrap : forall f s p alpha beta depth ply cn pm rh r s',
  go_negamax f s p alpha beta depth ply cn pm rh = (r, s') ->
  (s_nodes s + (s_polls s' - s_polls s) < two64)%N ->
  (s_nodes s <= s_nodes s')%N /\ (s_nodes s' - s_nodes s <= s_polls s' - s_polls s)%N /\
  (r = RCancel -> (s_nodes s' - s_nodes s + 1 <= s_polls s' - s_polls s)%N).
Proof.
  intros f s p alpha beta depth ply cn pm rh r s' H.
  apply node_account_nowrap. exact (negamax_node_account go_keys go_econsts go_oconsts go_sconsts _ _ _ _ _ _ _ _ _ _ _ _ H).
Qed.

Theorem go_quiescence_every_node_polls_nowrap : forall f s p alpha beta ply r s',
  go_quiescence f s p alpha beta ply = (r, s') ->
  (s_nodes s + (s_polls s' - s_polls s) < two64)%N ->
  (s_nodes s <= s_nodes s')%N /\ (s_nodes s' - s_nodes s <= s_polls s' - s_polls s)%N.
Proof.
  intros f s p alpha beta ply r s' H Hw.
  destruct (node_account_nowrap 0 _ s r s'
              (quiescence_node_account go_keys go_econsts go_oconsts go_sconsts _ _ _ _ _ _ _ _ H) Hw) as (H1 & H2 & _).
  auto.
Qed.

(* the inequality exactly as asked, [s_nodes s' - s_nodes s <= s_polls s' - s_polls s], holds unconditionally when
   [-] is the truncated subtraction of [N] - but says nothing when the counter wraps (the left side is then 0);
   the informative forms are the two above *)
Lemma addw_sub_le : forall a n, (addw a n - a <= n)%N.
Proof.
  intros a n. unfold addw. destruct (N.eqb_spec n 0) as [->|Hn]; [lia|].
  rewrite w64_mod. pose proof (N.div_mod (a + n) two64 two64_nz) as E.
  remember ((a + n) mod two64)%N as m. remember ((a + n) / two64)%N as q. nia.
Qed.

Theorem go_negamax_every_node_polls_truncated : forall f s p alpha beta depth ply cn pm rh r s',
  go_negamax f s p alpha beta depth ply cn pm rh = (r, s') ->
  (s_nodes s' - s_nodes s <= s_polls s' - s_polls s)%N.
Proof.
  intros f s p alpha beta depth ply cn pm rh r s' H.
  destruct (negamax_node_account go_keys go_econsts go_oconsts go_sconsts _ _ _ _ _ _ _ _ _ _ _ _ H) as (n & H1 & H2 & _).
  rewrite H1. pose proof (addw_sub_le (s_nodes s) n). lia.
Qed.

Theorem go_quiescence_every_node_polls_truncated : forall f s p alpha beta ply r s',
  go_quiescence f s p alpha beta ply = (r, s') ->
  (s_nodes s' - s_nodes s <= s_polls s' - s_polls s)%N.
Proof.
  intros f s p alpha beta ply r s' H.
  destruct (quiescence_node_account go_keys go_econsts go_oconsts go_sconsts _ _ _ _ _ _ _ _ H) as (n & H1 & H2 & _).
  rewrite H1. pose proof (addw_sub_le (s_nodes s) n). lia.
Qed.

(* ------------------------------------------------------------------ 3. no node after the stop *)
(* a negamax call cancelled at poll k that was entered with [s_polls s] polls made has counted at most
   k - s_polls s nodes: one per poll that reported "go on", none for the firing poll and none after it *)
Theorem go_negamax_no_node_after_stop : forall f s p alpha beta depth ply cn pm rh s' k,
  s_cancel s = Some k -> ~ fired s ->
  go_negamax f s p alpha beta depth ply cn pm rh = (RCancel, s') ->
  s_polls s' = (k + 1)%N /\
  exists n, s_nodes s' = addw (s_nodes s) n /\ (n <= k - s_polls s)%N.
Proof.
  intros f s p alpha beta depth ply cn pm rh s' k Ek Hnf H.
  pose proof (not_fired_armed s k Ek Hnf) as Ha.
  pose proof (negamax_one_firing_poll go_keys go_econsts go_oconsts go_sconsts _ _ _ _ _ _ _ _ _ _ _ _ H) as H1.
  pose proof (negamax_node_account go_keys go_econsts go_oconsts go_sconsts _ _ _ _ _ _ _ _ _ _ _ _ H) as H2.
  split; [apply (H1 k Ha); reflexivity|].
  destruct (cancelled_node_bound 1 _ s RCancel s' k H1 H2 Ha eq_refl) as (n & N1 & N2).
  exists n. split; [exact N1|]. destruct Ha. lia.
Qed.

(* quiescence: at most the one pre-increment of the firing node more *)
Theorem go_quiescence_no_node_after_stop : forall f s p alpha beta ply s' k,
  s_cancel s = Some k -> ~ fired s ->
  go_quiescence f s p alpha beta ply = (RCancel, s') ->
  s_polls s' = (k + 1)%N /\
  exists n, s_nodes s' = addw (s_nodes s) n /\ (n <= k + 1 - s_polls s)%N.
Proof.
  intros f s p alpha beta ply s' k Ek Hnf H.
  pose proof (not_fired_armed s k Ek Hnf) as Ha.
  pose proof (quiescence_one_firing_poll go_keys go_econsts go_oconsts go_sconsts _ _ _ _ _ _ _ _ H) as H1.
  pose proof (quiescence_node_account go_keys go_econsts go_oconsts go_sconsts _ _ _ _ _ _ _ _ H) as H2.
  split; [apply (H1 k Ha); reflexivity|].
  destruct (cancelled_node_bound 0 _ s RCancel s' k H1 H2 Ha eq_refl) as (n & N1 & N2).
  exists n. split; [exact N1|]. lia.
Qed.

Theorem go_search_root_no_node_after_stop : forall fuel s root d a b s' k,
  s_cancel s = Some k -> ~ fired s ->
  go_search_root fuel s root d a b = (RCancel, s') ->
  s_polls s' = (k + 1)%N /\
  exists n, s_nodes s' = addw (s_nodes s) n /\ (n <= k - s_polls s)%N.
Proof.
  intros fuel s root d a b s' k Ek Hnf H.
  pose proof (not_fired_armed s k Ek Hnf) as Ha.
  pose proof (search_root_one_firing_poll go_keys go_econsts go_oconsts go_sconsts _ _ _ _ _ _ _ _ H) as H1.
  pose proof (search_root_node_account go_keys go_econsts go_oconsts go_sconsts _ _ _ _ _ _ _ _ H) as H2.
  split; [apply (H1 k Ha); reflexivity|].
  destruct (cancelled_node_bound 1 _ s RCancel s' k H1 H2 Ha eq_refl) as (n & N1 & N2).
  exists n. split; [exact N1|]. destruct Ha. lia.
Qed.

(* Search: the first loop makes no poll after the firing one and counts no node after it; afterwards
   exactly the fallback loop runs, iff no move is known, with the oracle off; nothing else *)
Theorem go_search_stop : forall iters fuel rep s root req r s' k,
  s_cancel s = Some k -> ~ fired s ->
  go_search iters fuel rep s root req = (r, s') ->
  exists r1 s1 n1,
    go_search_iterative iters fuel rep s root (req_to_depth go_sconsts req) 1
                        (- INF go_econsts) (INF go_econsts) = (r1, s1) /\
    s_cancel s1 = Some k /\ (s_polls s <= s_polls s1 <= k + 1)%N /\
    s_nodes s1 = addw (s_nodes s) n1 /\ (n1 <= s_polls s1 - s_polls s)%N /\
    ((k < s_polls s1)%N -> s_polls s1 = (k + 1)%N /\ r1 = ROk tt /\ (n1 <= k - s_polls s)%N) /\
    ( (r1 = ROk tt /\ best_move s1 <> NULL_MOVE /\ r = ROk (best_move s1) /\ s' = s1)
      \/
      (r1 = ROk tt /\ best_move s1 = NULL_MOVE /\
       exists r2 s2 n2,
         go_search_iterative iters fuel rep (set_cancel s1 None) root 1 1
                             (- INF go_econsts) (INF go_econsts) = (r2, s2) /\
         s_cancel s2 = None /\ s_nodes s2 = addw (s_nodes s1) n2 /\ (n2 <= s_polls s2 - s_polls s1)%N /\
         match r2 with
         | ROk _ => r = ROk (best_move s2) /\ s' = set_polls s2 (s_polls s1)
         | RCancel => False
         | RPanic => r = RPanic /\ s' = s2
         | ROutOfFuel => r = ROutOfFuel /\ s' = s2
         end)
      \/
      ((r1 = RPanic /\ r = RPanic \/ r1 = ROutOfFuel /\ r = ROutOfFuel) /\ s' = s1) ).
Proof.
  intros iters fuel rep s root req r s' k Ek Hnf H.
  exact (search_stop go_keys go_econsts go_oconsts go_sconsts _ _ _ _ _ _ _ _ _ (not_fired_armed s k Ek Hnf) H).
Qed.

(* "iff no iteration had completed": if the first loop printed no info line (and Search started with an empty
   line, as the engine does) no move is known, so the fallback runs.  (The converse fails only in the C04 (g)
   corner: an iteration that completes with an empty line or a null head also leaves no move.) *)
Theorem go_first_loop_nothing_adopted : forall iters fuel rep s root req r1 s1,
  (req < 255)%N -> s_pv s = [] ->
  go_search_iterative iters fuel rep s root (req_to_depth go_sconsts req) 1
                      (- INF go_econsts) (INF go_econsts) = (r1, s1) ->
  exists new1, s_out s1 = new1 ++ s_out s /\
    (has_info new1 = false -> best_move s1 = NULL_MOVE) /\
    (best_move s1 <> NULL_MOVE -> has_info new1 = true).
Proof.
  intros iters fuel rep s root req r1 s1 Hreq Hpv H.
  destruct (iter_spec go_keys go_econsts go_oconsts go_sconsts go_inf_ok iters fuel rep root
              (req_to_depth go_sconsts req) (go_req_depth req Hreq) _ _ _ _ _ _ H)
    as (new1 & O1 & _ & O3 & _).
  exists new1. split; [exact O1|].
  assert (Hn : has_info new1 = false -> best_move s1 = NULL_MOVE).
  { intro Hi. unfold best_move. rewrite O3, Hpv, (last_pv_no_info new1 [] Hi). reflexivity. }
  split; [exact Hn|]. intro Hb. destruct (has_info new1); [reflexivity|]. exfalso. apply Hb. apply Hn. reflexivity.
Qed.

(* an answering Search has polled the caller's context at most k + 1 times *)
Theorem go_search_polls : forall iters fuel rep s root req m s' k,
  s_cancel s = Some k -> ~ fired s ->
  go_search iters fuel rep s root req = (ROk m, s') ->
  (s_polls s <= s_polls s' <= k + 1)%N.
Proof.
  intros iters fuel rep s root req m s' k Ek Hnf H.
  exact (search_polls go_keys go_econsts go_oconsts go_sconsts _ _ _ _ _ _ _ _ _ (not_fired_armed s k Ek Hnf) H).
Qed.

(* ------------------------------------------------------------------ non-vacuity *)
(* start position, freshly started engine, full window, depth 2, recursion bound 50 *)
Definition ex_root (c : option N) (d : N) : option (sresult unit * N * N) :=
  match go_new_position with
  | Ok root =>
      let '(r, s) := go_search_root 50 (go_empty_sst c) root d (- INF go_econsts) (INF go_econsts) in
      Some (match r with ROk _ => ROk tt | RCancel => RCancel | RPanic => RPanic | ROutOfFuel => ROutOfFuel end,
            s_nodes s, s_polls s)
  | _ => None
  end.

(* oracle Some 7: cancelled, 8 polls (0..7), 5 nodes <= 7 = polls that reported "go on" *)
Example ex_root_stop_7 : ex_root (Some 7%N) 2 = Some (RCancel, 5%N, 8%N).
Proof. vm_compute. reflexivity. Qed.
(* the stop one poll later costs no further node here, two polls later one *)
Example ex_root_stop_8 : ex_root (Some 8%N) 2 = Some (RCancel, 5%N, 9%N).
Proof. vm_compute. reflexivity. Qed.
Example ex_root_stop_9 : ex_root (Some 9%N) 2 = Some (RCancel, 6%N, 10%N).
Proof. vm_compute. reflexivity. Qed.
(* oracle due at once: one poll, no node *)
Example ex_root_stop_0 : ex_root (Some 0%N) 2 = Some (RCancel, 0%N, 1%N).
Proof. vm_compute. reflexivity. Qed.
(* never: 104 nodes, 208 polls *)
Example ex_root_no_stop : ex_root None 2 = Some (ROk tt, 104%N, 208%N).
Proof. vm_compute. reflexivity. Qed.
(* the oracle due later than the search runs: a value, fewer than k + 1 polls *)
Example ex_root_stop_late : ex_root (Some 1000%N) 2 = Some (ROk tt, 104%N, 208%N).
Proof. vm_compute. reflexivity. Qed.

(* the hypotheses of the theorems are met by that state *)
Example ex_armed : armed (go_empty_sst (Some 7%N)) 7.
Proof. split; [reflexivity|vm_compute; discriminate]. Qed.

(* quiescence called directly with the oracle due: its node is counted, then the poll fires *)
Example ex_quiescence_stop_0 :
  match go_new_position with
  | Ok root => let '(r, s) := go_quiescence 50 (go_empty_sst (Some 0%N)) root (- INF go_econsts) (INF go_econsts) 0 in
               Some (r, s_nodes s, s_polls s)
  | _ => None
  end = Some (RCancel, 1%N, 1%N).
Proof. vm_compute. reflexivity. Qed.

(* Search, depth 2, oracle Some 7: the first loop stops after poll 7 (8 polls of the caller's context), nothing
   adopted, the fallback runs with the oracle off (s_cancel = None afterwards) and answers *)
Example ex_search_stop_7 :
  match go_new_position with
  | Ok root => let '(r, s) := go_search 50 400 true (go_empty_sst (Some 7%N)) root 2 in
               Some (r, s_nodes s, s_polls s, s_cancel s)
  | _ => None
  end = Some (ROk 1153%N, 26%N, 8%N, None).
Proof. vm_compute. reflexivity. Qed.

(* the node counter is a uint64 that wraps: from 2^64 - 1 the first counted node gives 0, so
   "s_nodes s' - s_nodes s <= polls made" needs the no-wrap hypothesis (or the unwrapped count [addw]) *)
Example ex_wrap :
  match go_new_position with
  | Ok root =>
      let s0 := upd_nodes (go_empty_sst (Some 3%N)) (two64 - 1) in
      let '(r, s) := go_search_root 50 s0 root 2 (- INF go_econsts) (INF go_econsts) in
      Some (s_nodes s, s_polls s)
  | _ => None
  end = Some (2%N, 4%N).
Proof. vm_compute. reflexivity. Qed.

(* FALSE without the no-wrap hypothesis: "the node counter never decreases" (and so the inequality of goal 2 read
   in Z).  Witness: counter 2^64 - 1, start position, depth 2, stop at poll 3: three nodes counted, counter 2. *)
Theorem go_nodes_monotone_refuted :
  exists s root r s', go_search_root 50 s root 2 (- INF go_econsts) (INF go_econsts) = (r, s') /\
    (s_nodes s' < s_nodes s)%N /\
    ~ (Z.of_N (s_nodes s') - Z.of_N (s_nodes s) >= 0).
Proof.
  destruct go_new_position as [root| |] eqn:E; [|vm_compute in E; discriminate|vm_compute in E; discriminate].
  exists (upd_nodes (go_empty_sst (Some 3%N)) (two64 - 1)), root.
  destruct (go_search_root 50 (upd_nodes (go_empty_sst (Some 3%N)) (two64 - 1)) root 2 (- INF go_econsts) (INF go_econsts))
    as [r s'] eqn:H.
  exists r, s'. split; [reflexivity|].
  pose proof ex_wrap as W. rewrite E in W. cbv zeta in W. rewrite H in W. inversion W as [[W1 W2]].
  cbn [s_nodes upd_nodes]. rewrite W1. vm_compute. split; [reflexivity|]. intro Hc; apply Hc; reflexivity.
Qed.

(* FALSE for quiescence: "the firing poll pays for no node" (the bound  n <= k - s_polls s  of the negamax form).
   Witness: quiescence entered with the oracle due at its first poll (k = 0 = s_polls s): one node counted. *)
Theorem go_quiescence_firing_poll_pays_refuted :
  exists s root s', go_quiescence 50 s root (- INF go_econsts) (INF go_econsts) 0 = (RCancel, s') /\
    s_cancel s = Some 0%N /\ s_polls s = 0%N /\ s_nodes s = 0%N /\ s_nodes s' = 1%N.
Proof.
  destruct go_new_position as [root| |] eqn:E; [|vm_compute in E; discriminate|vm_compute in E; discriminate].
  exists (go_empty_sst (Some 0%N)), root.
  pose proof ex_quiescence_stop_0 as W. rewrite E in W.
  destruct (go_quiescence 50 (go_empty_sst (Some 0%N)) root (- INF go_econsts) (INF go_econsts) 0) as [r s'] eqn:H.
  injection W as W1 W2 W3. subst r. exists s'. repeat split; try reflexivity. exact W2.
Qed.

Print Assumptions go_negamax_one_firing_poll.
Print Assumptions go_quiescence_one_firing_poll.
Print Assumptions go_search_root_one_firing_poll.
Print Assumptions go_search_iterative_one_firing_poll.
Print Assumptions go_negamax_every_node_polls.
Print Assumptions go_quiescence_every_node_polls.
Print Assumptions go_search_root_every_node_polls.
Print Assumptions go_search_iterative_every_node_polls.
Print Assumptions go_negamax_every_node_polls_nowrap.
Print Assumptions go_quiescence_every_node_polls_nowrap.
Print Assumptions go_negamax_no_node_after_stop.
Print Assumptions go_quiescence_no_node_after_stop.
Print Assumptions go_search_root_no_node_after_stop.
Print Assumptions go_search_stop.
Print Assumptions go_search_polls.
Print Assumptions go_first_loop_nothing_adopted.
Print Assumptions go_negamax_every_node_polls_truncated.
Print Assumptions go_nodes_monotone_refuted.
Print Assumptions go_quiescence_firing_poll_pays_refuted.
