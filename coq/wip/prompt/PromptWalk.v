(* C05, whole-call form: the walk over the bodies of [quiescence] and [negamax] (same shape as part A
   of Search/SearchStruct.v) for the poll / node accounting [specW]. *)
From Coq Require Import NArith ZArith List Bool FMapPositive Lia.
From Clemens Require Import Base.Res Base.Word Pos.Types Att.Attacks Pos.Position Eval.Eval
     Search.TT Search.Ordering Search.Negamax Search.SearchStruct.
From WipPrompt Require Import PromptBase.
Import ListNotations.
Open Scope Z_scope.

Section Walk.
Variable K : zkeys.
Variable EC : econsts.
Variable OC : oconsts.
Variable SC : sconsts.

Lemma poll_W : forall s,
  frame s (snd (poll s)) /\ s_polls (snd (poll s)) = (s_polls s + 1)%N /\
  s_nodes (snd (poll s)) = s_nodes s /\
  (fst (poll s) = true -> fired (snd (poll s)) /\ (~ fired s -> jfired (snd (poll s)))) /\
  (fst (poll s) = false -> ~ fired (snd (poll s))).
Proof.
  intro s; unfold poll, fired, jfired; projs.
  split; [constructor; projs; (reflexivity || lia)|].
  split; [reflexivity|]. split; [reflexivity|].
  destruct (s_cancel s) as [k|]; split; intros H; try discriminate; try tauto.
  - apply N.leb_le in H. split; lia.
  - apply N.leb_gt in H. lia.
Qed.

Lemma evaluate_W : forall s p,
  match evaluate EC s p with ROk (_, s1) => sameN s s1 | RCancel => False | _ => True end.
Proof.
  intros; unfold evaluate. destruct (eval_cached EC (s_cache s) p) as [[v c]| |]; auto.
  unfold sameN, same; projs; auto 10.
Qed.

Lemma cut_W : forall s p depth ply pm bm m qt, sameN s (nm_cut_state OC s p depth ply pm bm m qt).
Proof.
  intros; unfold nm_cut_state, sameN, same.
  destruct qt; [|auto 10]. destruct (killers_at s ply) as [k0 k1].
  repeat match goal with |- context [if ?b then _ else _] => destruct b end; projs; auto 10.
Qed.

Ltac leaf_hookW ::=
  repeat match goal with
  | |- context [nm_cut_state OC ?s ?p ?d ?pl ?pm ?bm ?m ?qt] =>
      let H := fresh "Hcut" in let sc := fresh "sc" in
      pose proof (cut_W s p d pl pm bm m qt) as H;
      set (sc := nm_cut_state OC s p d pl pm bm m qt) in *; clearbody sc
  end.

Lemma snm_W : forall s p beta depth ic pv,
  match nm_snm EC SC s p beta depth ic pv with ROk (_, s1) => sameN s s1 | RCancel => False | _ => True end.
Proof.
  intros; unfold nm_snm.
  destruct (negb ic && negb pv && negb (is_checkmate_value EC beta)).
  - pose proof (evaluate_W s p) as H. destruct (evaluate EC s p) as [[v s1]| | |]; auto.
  - unfold sameN, same; auto 10.
Qed.

Lemma fpr_W : forall s p alpha beta depth ic pv,
  match nm_fpr EC SC s p alpha beta depth ic pv with ROk (_, s1) => sameN s s1 | RCancel => False | _ => True end.
Proof.
  intros; unfold nm_fpr.
  match goal with |- context [if ?b then _ else _] => destruct b end.
  - pose proof (evaluate_W s p) as H. destruct (evaluate EC s p) as [[v s1]| | |]; auto;
    destruct (nthz (sc_fut_margin SC) depth); auto.
  - unfold sameN, same; auto 10.
Qed.

Ltac basicW x :=
  lazymatch x with
  | poll ?s =>
      let H := fresh "Hp" in pose proof (poll_W s) as H; destruct (poll s) as [[|] ?]
  | evaluate EC ?s ?p =>
      let H := fresh "He" in pose proof (evaluate_W s p) as H; destruct (evaluate EC s p) as [[? ?]| | |]
  | nm_snm EC SC ?s ?p ?b ?d ?ic ?pv =>
      let H := fresh "He" in pose proof (snm_W s p b d ic pv) as H;
      destruct (nm_snm EC SC s p b d ic pv) as [[[?|] ?]| | |]
  | nm_fpr EC SC ?s ?p ?a ?b ?d ?ic ?pv =>
      let H := fresh "He" in pose proof (fpr_W s p a b d ic pv) as H;
      destruct (nm_fpr EC SC s p a b d ic pv) as [[? ?]| | |]
  end.
Ltac stepW calls :=
  lazymatch goal with
  | |- specW _ _ (match ?x with _ => _ end) => first [ basicW x | calls x | destruct x ]
  end.
Ltac walkW calls := cbv zeta; repeat (stepW calls); try (leafW; fail).

Section WithRec.
Variable rec : nm_rec.
Hypothesis Hrec : forall s q a b d pl cn pm rh, specW 1 s (rec s q a b d pl cn pm rh).

Ltac recW x :=
  lazymatch x with
  | rec ?s ?q ?a ?b ?d ?pl ?cn ?pm ?rh =>
      let H := fresh "Hc" in pose proof (Hrec s q a b d pl cn pm rh) as H;
      destruct (rec s q a b d pl cn pm rh) as [[[? ?]| | |] ?]
  end.

Lemma pvs_W : forall s q alpha beta d1 pl1 pm rh lg, specW 1 s (nm_pvs rec s q alpha beta d1 pl1 pm rh lg).
Proof. intros; unfold nm_pvs. walkW recW. Qed.

Lemma nmp_W : forall s p beta depth ply cn ic pv rh, specW 1 s (nm_nmp K EC rec s p beta depth ply cn ic pv rh).
Proof. intros; unfold nm_nmp. walkW recW. Qed.

Ltac recW2 x :=
  lazymatch x with
  | nm_pvs rec ?s ?q ?a ?b ?d ?pl ?pm ?rh ?lg =>
      let H := fresh "Hc" in pose proof (pvs_W s q a b d pl pm rh lg) as H;
      destruct (nm_pvs rec s q a b d pl pm rh lg) as [[[? ?]| | |] ?]
  end.

Lemma loop_W : forall p beta depth ply pm rh fp k i ms s L,
  specW 1 s (nm_loop K OC rec p beta depth ply pm rh fp k i ms s L).
Proof.
  intros p beta depth ply pm rh fp k; induction k as [|k IH]; intros.
  - cbn. leafW.
  - unfold nm_loop; fold (nm_loop K OC rec p beta depth ply pm rh fp).
    cbv zeta.
    repeat first [ lazymatch goal with
                   | |- specW _ _ (nm_loop K OC rec p beta depth ply pm rh fp k ?i ?ms ?s ?L) =>
                       let H := fresh "Hl" in pose proof (IH i ms s L) as H;
                       destruct (nm_loop K OC rec p beta depth ply pm rh fp k i ms s L) as [[?| | |] ?]
                   end
                 | stepW recW2 ].
    all: leafW.
Qed.

Ltac recW3 x :=
  lazymatch x with
  | nm_nmp K EC rec ?s ?p ?b ?d ?pl ?cn ?ic ?pv ?rh =>
      let H := fresh "Hc" in pose proof (nmp_W s p b d pl cn ic pv rh) as H;
      destruct (nm_nmp K EC rec s p b d pl cn ic pv rh) as [[[?|]| | |] ?]
  | nm_loop K OC rec ?p ?b ?d ?pl ?pm ?rh ?fp ?k ?i ?ms ?s ?L =>
      let H := fresh "Hc" in pose proof (loop_W p b d pl pm rh fp k i ms s L) as H;
      destruct (nm_loop K OC rec p b d pl pm rh fp k i ms s L) as [[[? ?]| | |] ?]
  end.

Lemma inner_W : forall s p alpha beta depth ply cn pm rh ic,
  specW 1 s (nm_inner K EC OC SC rec s p alpha beta depth ply cn pm rh ic).
Proof. intros; unfold nm_inner. walkW recW3. Qed.
End WithRec.

Section WithQRec.
Variable qrec : q_rec.
Hypothesis Hq : forall s q a b pl, specW 0 s (qrec s q a b pl).

Ltac qrecW x :=
  lazymatch x with
  | qrec ?s ?q ?a ?b ?pl =>
      let H := fresh "Hc" in pose proof (Hq s q a b pl) as H;
      destruct (qrec s q a b pl) as [[?| | |] ?]
  end.

Lemma qloop_W : forall p sp beta ply k i ms s alpha,
  specW 0 s (q_loop K EC qrec p sp beta ply k i ms s alpha).
Proof.
  intros p sp beta ply k; induction k as [|k IH]; intros.
  - cbn. leafW.
  - unfold q_loop; fold (q_loop K EC qrec p sp beta ply).
    cbv zeta.
    repeat first [ lazymatch goal with
                   | |- specW _ _ (q_loop K EC qrec p sp beta ply k ?i ?ms ?s ?a) =>
                       let H := fresh "Hl" in pose proof (IH i ms s a) as H;
                       destruct (q_loop K EC qrec p sp beta ply k i ms s a) as [[?| | |] ?]
                   end
                 | stepW qrecW ].
    all: leafW.
Qed.
End WithQRec.

Theorem quiescence_W : forall f s p alpha beta ply, specW 0 s (quiescence K EC OC SC f s p alpha beta ply).
Proof.
  induction f as [|f IH]; intros.
  - cbn. leafW.
  - rewrite quiescence_eq. cbv zeta.
    repeat first [ lazymatch goal with
                   | |- specW _ _ (q_loop K EC ?r ?p ?sp ?b ?pl ?k ?i ?ms ?s ?a) =>
                       let H := fresh "Hl" in pose proof (qloop_W r IH p sp b pl k i ms s a) as H;
                       destruct (q_loop K EC r p sp b pl k i ms s a) as [[?| | |] ?]
                   end
                 | stepW ltac:(fun x => fail) ].
    all: leafW.
Qed.

Theorem negamax_W : forall f s p alpha beta depth ply cn pm rh,
  specW 1 s (negamax K EC OC SC f s p alpha beta depth ply cn pm rh).
Proof.
  induction f as [|f IH]; intros.
  - cbn. leafW.
  - rewrite negamax_eq. cbv zeta.
    repeat stepW ltac:(fun x =>
      lazymatch x with
      | quiescence K EC OC SC ?f ?s ?p ?a ?b ?pl =>
          let H := fresh "Hc" in pose proof (quiescence_W f s p a b pl) as H;
          destruct (quiescence K EC OC SC f s p a b pl) as [[?| | |] ?]
      | push_history SC ?s ?p =>
          let H := fresh "Hh" in pose proof (push_A SC s p) as H;
          destruct (push_history SC s p) as [?| | |]; [subst| | |]
      end).
    all: try (leafW; fail).
    match goal with
    | |- context [nm_inner K EC OC SC ?r ?s ?p ?a ?b ?d ?pl ?cn ?pm ?rh ?ic] =>
        pose proof (inner_W r IH s p a b d pl cn pm rh ic) as Hin;
        destruct (nm_inner K EC OC SC r s p a b d pl cn pm rh ic) as [[?| | |] s1]
    end.
    all: prepW; unfold specW; projs;
      (split; [constructor; projs; try first [congruence | arithW]|]).
    all: try (match goal with H : s_hist _ = _ :: _ |- tl _ = _ => rewrite H end; cbn [tl]; congruence).
    all: (split; [intros; try discriminate; arithW |]);
         (split; [intros; try discriminate; arithW |]);
         (split; [intros; try congruence; arithW |]);
         eexists; (split; [nodesW | split; [arithW | intros; try discriminate; arithW]]).
Qed.

End Walk.
