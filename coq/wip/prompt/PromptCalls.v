(* C05, whole-call form.  Consequences of the walk (PromptWalk.v) for whole calls of [quiescence],
   [negamax], [search_root], [search_iterative] and [search], for ARBITRARY state, position, window,
   depth and fuel:
   1. exactly one firing poll: the poll that reports done is the last poll of the call;
   2. every node polls: (unwrapped) nodes counted <= polls made;
   3. no node is paid for by the firing poll: in a cancelled negamax call nodes counted <= polls that
      reported "go on" (for quiescence: <= polls made, its node being counted just before its poll). *)
From Coq Require Import NArith ZArith List Bool FMapPositive Lia.
From Clemens Require Import Base.Res Base.Word Pos.Types Att.Attacks Pos.Position Eval.Eval
     Search.TT Search.Ordering Search.Negamax Search.SearchStruct Search.SearchLines Search.SearchIter.
From WipPrompt Require Import PromptBase PromptWalk.
Import ListNotations.
Open Scope Z_scope.

(* the oracle has not reported done yet, and will at poll k *)
Definition armed (s : sst) (k : N) : Prop := s_cancel s = Some k /\ (s_polls s <= k)%N.

Lemma armed_not_fired : forall s k, armed s k -> ~ fired s.
Proof. intros s k [E H]. unfold fired. rewrite E. lia. Qed.

Lemma not_fired_armed : forall s k, s_cancel s = Some k -> ~ fired s -> armed s k.
Proof. intros s k E H. unfold fired in H. rewrite E in H. split; [exact E|lia]. Qed.

(* goal 1 *)
Definition one_firing_poll {A} (s : sst) (r : sresult A) (s' : sst) : Prop :=
  forall k, armed s k ->
    (s_polls s' <= k + 1)%N /\
    (r = RCancel -> s_polls s' = (k + 1)%N) /\
    (r <> RCancel -> (s_polls s' <= k)%N).

(* goals 2 and 3; [d] = 1: negamax-like (no node on the firing poll); [d] = 0: quiescence *)
Definition node_account (d : N) {A} (s : sst) (r : sresult A) (s' : sst) : Prop :=
  exists n, s_nodes s' = addw (s_nodes s) n /\
    (n <= s_polls s' - s_polls s)%N /\
    (r = RCancel -> (n + d <= s_polls s' - s_polls s)%N).

Lemma specW_one_firing_poll : forall d A s (r : sresult A) s',
  specW d s (r, s') -> one_firing_poll s r s'.
Proof.
  intros d A s r s' H k [Ek Hk].
  destruct H as ([_ Hc Hp _ _] & _ & HJ & HN & _). cbn [fst snd] in *.
  assert (Hnf : ~ (k < s_polls s)%N) by lia.
  unfold jfired, fired in HJ, HN. rewrite Hc, Ek in HJ, HN.
  destruct r as [a| | |].
  - assert (Hle : ~ (k < s_polls s')%N) by (apply HN; [discriminate|exact Hnf]).
    repeat split; try lia; try (intro; discriminate).
  - specialize (HJ eq_refl Hnf). repeat split; try lia; try (intro Hne; exfalso; apply Hne; reflexivity).
  - assert (Hle : ~ (k < s_polls s')%N) by (apply HN; [discriminate|exact Hnf]).
    repeat split; try lia; try (intro; discriminate).
  - assert (Hle : ~ (k < s_polls s')%N) by (apply HN; [discriminate|exact Hnf]).
    repeat split; try lia; try (intro; discriminate).
Qed.

Lemma specW_node_account : forall d A s (r : sresult A) s',
  specW d s (r, s') -> node_account d s r s'.
Proof. intros d A s r s' H. destruct H as (_ & _ & _ & _ & n & H1 & H2 & H3). exists n. auto. Qed.

(* goal 2 in the form "s_nodes s' - s_nodes s <= s_polls s' - s_polls s": true when the uint64
   counter does not wrap, i.e. under  s_nodes s + (polls made) < 2^64 *)
Lemma node_account_nowrap : forall d A s (r : sresult A) s',
  node_account d s r s' ->
  (s_nodes s + (s_polls s' - s_polls s) < two64)%N ->
  (s_nodes s <= s_nodes s')%N /\
  (s_nodes s' - s_nodes s <= s_polls s' - s_polls s)%N /\
  (r = RCancel -> (s_nodes s' - s_nodes s + d <= s_polls s' - s_polls s)%N).
Proof.
  intros d A s r s' (n & H1 & H2 & H3) Hw.
  rewrite addw_small in H1 by lia. rewrite H1. repeat split; try lia; intro Hr; specialize (H3 Hr); lia.
Qed.

(* goal 3, accounting form: a call cancelled at poll k, entered with [s_polls s] polls made, has counted
   at most  k - s_polls s  nodes: one per poll that reported "go on", none for the firing poll
   ([d] = 1); quiescence called directly: one more, the pre-increment of its own node ([d] = 0) *)
Lemma cancelled_node_bound : forall d A s (r : sresult A) s' k,
  one_firing_poll s r s' -> node_account d s r s' -> armed s k -> r = RCancel ->
  exists n, s_nodes s' = addw (s_nodes s) n /\ (n + d <= k + 1 - s_polls s)%N.
Proof.
  intros d A s r s' k H1 (n & N1 & N2 & N3) Ha Hr.
  destruct (H1 k Ha) as (_ & P & _). exists n. split; [exact N1|].
  specialize (N3 Hr). rewrite (P Hr) in N3. exact N3.
Qed.

Section Calls.
Variable K : zkeys.
Variable EC : econsts.
Variable OC : oconsts.
Variable SC : sconsts.

(* ------------------------------------------------------------------ negamax *)
Theorem negamax_one_firing_poll : forall f s p alpha beta depth ply cn pm rh r s',
  negamax K EC OC SC f s p alpha beta depth ply cn pm rh = (r, s') -> one_firing_poll s r s'.
Proof.
  intros f s p alpha beta depth ply cn pm rh r s' H.
  pose proof (negamax_W K EC OC SC f s p alpha beta depth ply cn pm rh) as HW. rewrite H in HW.
  eapply specW_one_firing_poll; exact HW.
Qed.

Theorem negamax_node_account : forall f s p alpha beta depth ply cn pm rh r s',
  negamax K EC OC SC f s p alpha beta depth ply cn pm rh = (r, s') -> node_account 1 s r s'.
Proof.
  intros f s p alpha beta depth ply cn pm rh r s' H.
  pose proof (negamax_W K EC OC SC f s p alpha beta depth ply cn pm rh) as HW. rewrite H in HW.
  eapply specW_node_account; exact HW.
Qed.

(* ------------------------------------------------------------------ quiescence *)
Theorem quiescence_one_firing_poll : forall f s p alpha beta ply r s',
  quiescence K EC OC SC f s p alpha beta ply = (r, s') -> one_firing_poll s r s'.
Proof.
  intros f s p alpha beta ply r s' H.
  pose proof (quiescence_W K EC OC SC f s p alpha beta ply) as HW. rewrite H in HW.
  eapply specW_one_firing_poll; exact HW.
Qed.

Theorem quiescence_node_account : forall f s p alpha beta ply r s',
  quiescence K EC OC SC f s p alpha beta ply = (r, s') -> node_account 0 s r s'.
Proof.
  intros f s p alpha beta ply r s' H.
  pose proof (quiescence_W K EC OC SC f s p alpha beta ply) as HW. rewrite H in HW.
  eapply specW_node_account; exact HW.
Qed.

(* ------------------------------------------------------------------ search_root *)
Lemma search_root_W : forall fuel s root d a b, specW 1 s (search_root K EC OC SC fuel s root d a b).
Proof.
  intros. unfold search_root.
  pose proof (negamax_W K EC OC SC fuel (upd_killers s (PositiveMap.empty _)) root a b d 0%N true NULL_MOVE (hmc root)) as H.
  destruct (negamax K EC OC SC fuel (upd_killers s (PositiveMap.empty _)) root a b d 0%N true NULL_MOVE (hmc root)) as [r s'].
  destruct r; leafW.
Qed.

Theorem search_root_one_firing_poll : forall fuel s root d a b r s',
  search_root K EC OC SC fuel s root d a b = (r, s') -> one_firing_poll s r s'.
Proof.
  intros fuel s root d a b r s' H. pose proof (search_root_W fuel s root d a b) as HW. rewrite H in HW.
  eapply specW_one_firing_poll; exact HW.
Qed.

Theorem search_root_node_account : forall fuel s root d a b r s',
  search_root K EC OC SC fuel s root d a b = (r, s') -> node_account 1 s r s'.
Proof.
  intros fuel s root d a b r s' H. pose proof (search_root_W fuel s root d a b) as HW. rewrite H in HW.
  eapply specW_node_account; exact HW.
Qed.

(* ------------------------------------------------------------------ search_iterative *)
(* The loop turns the error of a root search into a normal return, so the result does not tell whether
   the stop landed inside; the poll counter does: [fired s'].  *)
Definition specI (s : sst) (x : sresult unit * sst) : Prop :=
  s_hist (snd x) = s_hist s /\ s_cancel (snd x) = s_cancel s /\ (s_polls s <= s_polls (snd x))%N /\
  (~ fired s -> fired (snd x) -> jfired (snd x) /\ fst x = ROk tt) /\
  exists n, s_nodes (snd x) = addw (s_nodes s) n /\
     (n <= s_polls (snd x) - s_polls s)%N /\
     (~ fired s -> fired (snd x) -> (n + 1 <= s_polls (snd x) - s_polls s)%N).

Lemma specI_step : forall A s s0 s0' (v : A) x,
  specW 1 s (ROk v, s0) ->
  s_hist s0' = s_hist s0 -> s_cancel s0' = s_cancel s0 -> s_polls s0' = s_polls s0 -> s_nodes s0' = s_nodes s0 ->
  specI s0' x -> specI s x.
Proof.
  intros A s s0 s0' v [r1 s1] HW E1 E2 E3 E4 HI.
  unfold specI in HI; cbn [fst snd] in HI. destruct HI as (I1 & I2 & I3 & I4 & n1 & I5 & I6 & I7).
  unfold specI; cbn [fst snd]. prepW.
  assert (F0 : ~ fired s -> ~ fired s0') by (intro Hs; unfold fired in *; arithW).
  split; [congruence|]. split; [congruence|]. split; [lia|].
  split; [intros Hs Hf; exact (I4 (F0 Hs) Hf)|].
  eexists. split; [nodesW|]. split; [lia|]. intros Hs Hf. specialize (I7 (F0 Hs) Hf). lia.
Qed.

Lemma specI_stop : forall s, specI s (ROk tt, s).
Proof.
  intro s. unfold specI; cbn [fst snd].
  split; [reflexivity|]. split; [reflexivity|]. split; [lia|].
  split; [intros Hs Hf; contradiction|].
  exists 0%N. rewrite addw_0. split; [reflexivity|]. split; [lia|]. intros Hs Hf; contradiction.
Qed.

Lemma search_iterative_I : forall iters fuel rep root md s d a b,
  specI s (search_iterative K EC OC SC iters fuel rep s root md d a b).
Proof.
  induction iters as [|it IH]; intros fuel rep root md s d a b.
  - cbn. unfold specI; cbn [fst snd].
    split; [reflexivity|]. split; [reflexivity|]. split; [lia|].
    split; [intros Hs Hf; contradiction|].
    exists 0%N. rewrite addw_0. split; [reflexivity|]. split; [lia|]. intros Hs Hf; contradiction.
  - cbn [search_iterative].
    destruct (md <? d)%N; [apply specI_stop|].
    pose proof (search_root_W fuel s root d a b) as HW.
    destruct (search_root K EC OC SC fuel s root d a b) as [[[score line]| | |] s0].
    + match goal with |- specI _ (if ?c then _ else _) => destruct c end.
      * eapply specI_step; [exact HW| | | | |apply IH]; reflexivity.
      * eapply specI_step; [exact HW| | | | |apply IH]; reflexivity.
    + unfold specI; cbn [fst snd]. prepW.
      split; [congruence|]. split; [congruence|]. split; [lia|].
      split; [intros Hs Hf; split; [auto|reflexivity]|].
      eexists. split; [nodesW|]. split; [lia|]. intros; lia.
    + unfold specI; cbn [fst snd]. prepW.
      split; [congruence|]. split; [congruence|]. split; [lia|].
      split; [intros Hs Hf; exfalso; tauto|].
      eexists. split; [nodesW|]. split; [lia|]. intros; exfalso; tauto.
    + unfold specI; cbn [fst snd]. prepW.
      split; [congruence|]. split; [congruence|]. split; [lia|].
      split; [intros Hs Hf; exfalso; tauto|].
      eexists. split; [nodesW|]. split; [lia|]. intros; exfalso; tauto.
Qed.

(* goal 1 for the loop: at most k + 1 polls; if the stop landed inside (some poll reported done) the
   loop returned normally right after that poll *)
Theorem search_iterative_one_firing_poll : forall iters fuel rep s root md d a b r s' k,
  armed s k ->
  search_iterative K EC OC SC iters fuel rep s root md d a b = (r, s') ->
  s_cancel s' = Some k /\ (s_polls s <= s_polls s' <= k + 1)%N /\
  ((k < s_polls s')%N -> s_polls s' = (k + 1)%N /\ r = ROk tt).
Proof.
  intros iters fuel rep s root md d a b r s' k Ha H.
  pose proof (search_iterative_I iters fuel rep root md s d a b) as HI. rewrite H in HI.
  unfold specI in HI; cbn [fst snd] in HI. destruct HI as (_ & I2 & I3 & I4 & _).
  pose proof (armed_not_fired s k Ha) as Hnf. destruct Ha as [Ek Hk].
  specialize (I4 Hnf). unfold fired, jfired in I4. rewrite I2, Ek in I4.
  split; [congruence|].
  destruct (N.lt_ge_cases k (s_polls s')) as [Hlt|Hge].
  - destruct (I4 Hlt) as [J1 J2]. split; [lia|]. intros _. auto.
  - split; [lia|]. intro; lia.
Qed.

(* goals 2 and 3 for the loop *)
Theorem search_iterative_node_account : forall iters fuel rep s root md d a b r s',
  search_iterative K EC OC SC iters fuel rep s root md d a b = (r, s') ->
  exists n, s_nodes s' = addw (s_nodes s) n /\
    (n <= s_polls s' - s_polls s)%N /\
    (forall k, armed s k -> (k < s_polls s')%N -> (n <= k - s_polls s)%N).
Proof.
  intros iters fuel rep s root md d a b r s' H.
  pose proof (search_iterative_I iters fuel rep root md s d a b) as HI. rewrite H in HI.
  unfold specI in HI; cbn [fst snd] in HI. destruct HI as (_ & I2 & I3 & I4 & n & I5 & I6 & I7).
  exists n. split; [exact I5|]. split; [exact I6|]. intros k Ha Hlt.
  pose proof (armed_not_fired s k Ha) as Hnf. destruct Ha as [Ek Hk].
  assert (Hf : fired s') by (unfold fired; rewrite I2, Ek; exact Hlt).
  specialize (I7 Hnf Hf). destruct (I4 Hnf Hf) as [J _]. unfold jfired in J. rewrite I2, Ek in J. lia.
Qed.

(* ------------------------------------------------------------------ search *)
(* The first loop makes no poll after the firing one; then nothing runs but, iff no move is known, the
   one fallback loop (depth 1 to 1, full window, oracle off), whose polls are not polls of the caller's
   context ([set_polls] puts the counter back). *)
Theorem search_stop : forall iters fuel rep s root req r s' k,
  armed s k ->
  search K EC OC SC iters fuel rep s root req = (r, s') ->
  exists r1 s1 n1,
    search_iterative K EC OC SC iters fuel rep s root (req_to_depth SC req) 1 (- INF EC) (INF EC) = (r1, s1) /\
    s_cancel s1 = Some k /\ (s_polls s <= s_polls s1 <= k + 1)%N /\
    s_nodes s1 = addw (s_nodes s) n1 /\ (n1 <= s_polls s1 - s_polls s)%N /\
    ((k < s_polls s1)%N -> s_polls s1 = (k + 1)%N /\ r1 = ROk tt /\ (n1 <= k - s_polls s)%N) /\
    ( (r1 = ROk tt /\ best_move s1 <> NULL_MOVE /\ r = ROk (best_move s1) /\ s' = s1)
      \/
      (r1 = ROk tt /\ best_move s1 = NULL_MOVE /\
       exists r2 s2 n2,
         search_iterative K EC OC SC iters fuel rep (set_cancel s1 None) root 1 1 (- INF EC) (INF EC) = (r2, s2) /\
         s_cancel s2 = None /\ s_nodes s2 = addw (s_nodes s1) n2 /\ (n2 <= s_polls s2 - s_polls s1)%N /\
         match r2 with
         | ROk _ => r = ROk (best_move s2) /\ s' = set_polls s2 (s_polls s1)
         | RCancel => False
         | RPanic => r = RPanic /\ s' = s2
         | ROutOfFuel => r = ROutOfFuel /\ s' = s2
         end)
      \/
      ((r1 = RPanic /\ r = RPanic \/ r1 = ROutOfFuel /\ r = ROutOfFuel) /\ s' = s1) ).
Proof.
  intros iters fuel rep s root req r s' k Ha H. unfold search in H. fold (req_to_depth SC req) in H.
  destruct (search_iterative K EC OC SC iters fuel rep s root (req_to_depth SC req) 1 (- INF EC) (INF EC))
    as [r1 s1] eqn:H1.
  destruct (search_iterative_one_firing_poll _ _ _ _ _ _ _ _ _ _ _ _ Ha H1) as (P1 & P2 & P3).
  destruct (search_iterative_node_account _ _ _ _ _ _ _ _ _ _ _ H1) as (n1 & Q1 & Q2 & Q3).
  exists r1, s1, n1. split; [reflexivity|]. split; [exact P1|]. split; [exact P2|].
  split; [exact Q1|]. split; [exact Q2|].
  split; [intro Hlt; destruct (P3 Hlt); repeat split; auto|].
  destruct r1 as [[]| | |].
  - destruct (best_move s1 =? NULL_MOVE)%N eqn:Hbm.
    + right; left. apply N.eqb_eq in Hbm. split; [reflexivity|]. split; [exact Hbm|].
      destruct (search_iterative K EC OC SC iters fuel rep (set_cancel s1 None) root 1 1 (- INF EC) (INF EC))
        as [r2 s2] eqn:H2.
      pose proof (search_iterative_I iters fuel rep root 1%N (set_cancel s1 None) 1%N (- INF EC) (INF EC)) as HI.
      rewrite H2 in HI. unfold specI in HI; cbn [fst snd] in HI. destruct HI as (_ & I2 & I3 & _ & n2 & I5 & I6 & _).
      projs.
      exists r2, s2, n2. split; [reflexivity|]. split; [exact I2|]. split; [exact I5|]. split; [exact I6|].
      destruct r2 as [[]| | |]; inversion H; subst; auto.
      eapply iter_not_cancel; eauto.
    + left. apply N.eqb_neq in Hbm. inversion H; subst. auto.
  - exfalso. eapply iter_not_cancel; eauto.
  - right; right. inversion H; subst. auto.
  - right; right. inversion H; subst. auto.
Qed.

(* the polls of the caller's context over a whole Search that answers: at most k + 1 *)
Corollary search_polls : forall iters fuel rep s root req m s' k,
  armed s k ->
  search K EC OC SC iters fuel rep s root req = (ROk m, s') ->
  (s_polls s <= s_polls s' <= k + 1)%N.
Proof.
  intros iters fuel rep s root req m s' k Ha H.
  destruct (search_stop _ _ _ _ _ _ _ _ _ Ha H) as (r1 & s1 & n1 & _ & _ & P & _ & _ & _ & [C|[C|C]]).
  - destruct C as (_ & _ & _ & ->). exact P.
  - destruct C as (_ & _ & r2 & s2 & n2 & _ & _ & _ & _ & C).
    destruct r2 as [[]| | |]; try contradiction; try (destruct C; discriminate).
    destruct C as (_ & ->). projs. exact P.
  - destruct C as ([[_ C]|[_ C]] & _); discriminate.
Qed.

End Calls.
