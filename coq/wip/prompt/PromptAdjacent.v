(* C05, whole-call form, goal 3 by comparison with the stop one poll later.
   Two runs of the same call from the same state, the first under the oracle [Some k], the second
   under [Some (k + 1)].  If the first is not cancelled they are the same run (PromptSync.v).  If the
   first is cancelled (at poll k), the second - which goes on from the very state in which the first
   stopped - counts AT MOST ONE more node: its node counter is that of the first run or one more.
   Two-sided walk as in PromptSync.v; after the point where the first run stops the walk follows
   the second run alone ([restB]), with the poll / node accounting of PromptWalk.v. *)
From Coq Require Import NArith ZArith List Bool FMapPositive Lia.
From Clemens Require Import Base.Res Base.Word Pos.Types Att.Attacks Pos.Position Eval.Eval
     Search.TT Search.Ordering Search.Negamax Search.SearchStruct.
From WipPrompt Require Import PromptBase PromptWalk PromptSyncBase PromptSync.
Import ListNotations.
Open Scope Z_scope.

(* the second run after the first has stopped in state [sx]; [k1] = k + 1 *)
Definition restB (k1 : N) (d : N) (sx : sst) {A} (y : sresult A * sst) : Prop :=
  s_cancel (snd y) = Some k1 /\
  exists e, s_nodes (snd y) = addw (s_nodes sx) e /\ (e <= 1)%N /\
    (fst y <> RCancel -> s_polls (snd y) = k1 /\ (e <= d)%N).

Definition lockB (k1 : N) (d : N) {A} (s : sst) (x y : sresult A * sst) : Prop :=
  s_cancel (snd x) = s_cancel s /\
  (fst x <> RCancel -> y = tr (Some k1) x) /\
  (fst x = RCancel -> restB k1 d (snd x) y).

Lemma lockB_stop : forall k1 d A s sx (y : sresult A * sst),
  s_cancel sx = s_cancel s -> restB k1 d sx y -> lockB k1 d s (RCancel, sx) y.
Proof.
  intros k1 d A s sx y Hc Hr. unfold lockB; cbn [fst snd].
  split; [exact Hc|]. split; [intro Hne; exfalso; apply Hne; reflexivity|]. intros _. exact Hr.
Qed.

Lemma lockB_start : forall k1 d A s s0 (x y : sresult A * sst),
  s_cancel s = s_cancel s0 -> lockB k1 d s x y -> lockB k1 d s0 x y.
Proof. intros k1 d A s s0 x y Hc (H1 & H2 & H3). unfold lockB. split; [congruence|]. split; assumption. Qed.

Lemma lockB_weaken : forall k1 d d' A s (x y : sresult A * sst),
  (d <= d')%N -> lockB k1 d s x y -> lockB k1 d' s x y.
Proof.
  intros k1 d d' A s x y Hd (H1 & H2 & H3). unfold lockB. split; [exact H1|]. split; [exact H2|].
  intro Hx. destruct (H3 Hx) as (R1 & e & R2 & R3 & R4). split; [exact R1|]. exists e.
  split; [exact R2|]. split; [exact R3|]. intro Hy. destruct (R4 Hy). split; [assumption|lia].
Qed.

Ltac projR := cbn [fst snd is_rok s_tt s_cache s_nodes s_killers s_history s_counter s_hist s_pv s_out s_polls s_cancel
                   upd_tt upd_cache upd_nodes upd_killers upd_history upd_counter upd_hist upd_pv emit set_polls
                   pop_history halve_history] in *.

(* arithmetic on the two oracles *)
Ltac arithR :=
  projR; unfold fired, jfired, cancelled in *; projR;
  repeat match goal with
  | H : s_cancel ?a = s_cancel ?b |- _ => rewrite H in *; clear H
  end;
  repeat match goal with
  | H : s_cancel ?a = Some _ |- _ => rewrite H in *; clear H
  end;
  cbv beta iota in *;
  first [ lia | tauto | congruence ].

Ltac prepR1 :=
  match goal with
  | H : specW _ _ _ |- _ => destruct H as ([? ? ? ? ?] & ? & ? & ? & (? & ? & ? & ?))
  | H : sameN _ _ |- _ => destruct H as ((? & ? & ? & ? & ?) & ?)
  | H : same _ _ |- _ => destruct H as (? & ? & ? & ? & ?)
  | H : frame _ _ |- _ => destruct H as [? ? ? ? ?]
  | H : restB _ _ _ _ |- _ => destruct H as (? & ? & ? & ? & ?)
  | H : _ /\ _ |- _ => destruct H
  | H : ?a = ?a -> _ |- _ => specialize (H eq_refl)
  | H : false = true -> _ |- _ => clear H
  | H : true = false -> _ |- _ => clear H
  | H : ROk _ = RCancel -> _ |- _ => clear H
  | H : RPanic = RCancel -> _ |- _ => clear H
  | H : ROutOfFuel = RCancel -> _ |- _ => clear H
  | H : RCancel <> RCancel -> _ |- _ => clear H
  | H : ROk _ <> RCancel -> _ |- _ => specialize (H ltac:(discriminate))
  | H : RPanic <> RCancel -> _ |- _ => specialize (H ltac:(discriminate))
  | H : ROutOfFuel <> RCancel -> _ |- _ => specialize (H ltac:(discriminate))
  end.
Ltac prepR := projR; repeat (prepR1; projR).

(* the node counter of the second run as [addw (s_nodes sx) ?e]: no equation may rewrite [s_nodes sx] *)
Ltac nodesR :=
  projR;
  repeat match goal with
  | H : s_nodes ?a = _ |- context [s_nodes ?a] => rewrite H
  end;
  rewrite <- ?addw_1, ?addw_addw;
  first [ reflexivity | symmetry; apply addw_0 ].

Ltac leafR_hook := idtac.
(* a leaf of the second run alone *)
Ltac leafR :=
  leafR_hook;
  try match goal with |- context [contempt ?e ?p] => destruct (contempt e p) end; cbn [of_res bind];
  prepR; unfold restB; projR;
  (split; [ first [ congruence | arithR ] |]);
  eexists; (split; [ nodesR | split; [ arithR | intros; (split; [ try congruence; arithR | try congruence; arithR ]) ] ]).

(* a leaf where both runs are still in step *)
Ltac leafS :=
  autorewrite with scp; leafL_hook;
  try match goal with |- context [contempt ?e ?p] => destruct (contempt e p) end; cbn [of_res bind];
  unfold lockB, tr; cbn [fst snd];
  (split; [ projL; congruence
          | split; [ first [ intros _; reflexivity | let Hne := fresh "Hne" in intro Hne; exfalso; apply Hne; reflexivity ]
                   | intro; discriminate ] ]).

Section Adjacent.
Variable K : zkeys.
Variable EC : econsts.
Variable OC : oconsts.
Variable SC : sconsts.
Variable k : N.
Notation k1 := (k + 1)%N.
Notation c2 := (Some (k + 1)%N).

Lemma earlier_k : forall s, s_cancel s = Some k -> earlier (s_cancel s) c2.
Proof. intros s E. rewrite E. cbn. lia. Qed.

(* [s_cancel s = Some k] for the current state of the first run *)
Ltac oracleB s :=
  lazymatch goal with
  | H : s_cancel s = Some k |- _ => idtac
  | _ => let Hk := fresh "Hk" in assert (Hk : s_cancel s = Some k) by (projL; congruence)
  end.

Ltac leafL_hook ::=
  repeat match goal with
  | |- context [nm_cut_state OC ?s ?p ?d ?pl ?pm ?bm ?m ?qt] =>
      let H := fresh "Hcut" in let sc := fresh "sc" in
      pose proof (cut_same OC s p d pl pm bm m qt) as H; destruct H as (_ & H & _);
      set (sc := nm_cut_state OC s p d pl pm bm m qt) in *; clearbody sc
  end.
Ltac leafR_hook ::=
  repeat match goal with
  | |- context [nm_cut_state OC ?s ?p ?d ?pl ?pm ?bm ?m ?qt] =>
      let H := fresh "Hcut" in let sc := fresh "sc" in
      pose proof (cut_W OC s p d pl pm bm m qt) as H;
      set (sc := nm_cut_state OC s p d pl pm bm m qt) in *; clearbody sc
  end.

(* ---- the second run alone: one step *)
Ltac basicR x :=
  lazymatch x with
  | poll ?s =>
      let H := fresh "Hp" in pose proof (poll_W s) as H; destruct (poll s) as [[|] ?]
  | evaluate EC ?s ?p =>
      let H := fresh "He" in pose proof (evaluate_W EC s p) as H; destruct (evaluate EC s p) as [[? ?]| | |]
  | nm_snm EC SC ?s ?p ?b ?d ?ic ?pv =>
      let H := fresh "He" in pose proof (snm_W EC SC s p b d ic pv) as H;
      destruct (nm_snm EC SC s p b d ic pv) as [[[?|] ?]| | |]
  | nm_fpr EC SC ?s ?p ?a ?b ?d ?ic ?pv =>
      let H := fresh "He" in pose proof (fpr_W EC SC s p a b d ic pv) as H;
      destruct (nm_fpr EC SC s p a b d ic pv) as [[? ?]| | |]
  | push_history SC ?s ?p =>
      let H := fresh "Hh" in pose proof (push_A SC s p) as H;
      destruct (push_history SC s p) as [?| | |]; [subst| | |]
  end.
Ltac stepR calls :=
  lazymatch goal with
  | |- restB _ _ _ (match ?x with _ => _ end) => first [ basicR x | calls x | destruct x ]
  end.

(* ---- both runs in step: one step; on a poll that stops the first run only, go on with the second alone *)
Ltac pollB :=
  lazymatch goal with
  | |- lockB _ _ _ (match poll ?s with _ => _ end) (match poll (set_cancel ?s c2) with _ => _ end) =>
      oracleB s;
      let Hp := fresh "Hp" in let Hc := fresh "Hc" in let Hw := fresh "Hw" in let Ha := fresh "Ha" in
      let sx := fresh "sx" in
      pose proof (poll_sync s c2) as Hp; pose proof (poll_cancel s) as Hc;
      pose proof (poll_W s) as Hw; pose proof (poll_A s) as Ha;
      destruct (poll s) as [[|] sx]; cbn [fst snd] in Hp, Hc;
      [ clear Hp;
        (* the first run stops here, in state [sx]; the second goes on from [sy] *)
        destruct Hw as (_ & _ & Hw & _); cbn [snd] in Hw;
        let sy := fresh "sy" in
        set (sy := set_cancel s c2) in *;
        assert (s_cancel sy = c2) by reflexivity;
        assert (s_polls sy = s_polls s) by reflexivity;
        assert (s_nodes sy = s_nodes sx) by (rewrite Hw; reflexivity);
        clear Hw; clearbody sy;
        apply lockB_stop; [ projL; congruence |]
      | match goal with Hk : s_cancel s = Some k |- _ => rewrite (Hp (earlier_k s Hk) eq_refl) end;
        clear Hp Hw Ha ]
  end.

Ltac basicB :=
  lazymatch goal with
  | |- lockB _ _ _ (match poll _ with _ => _ end) _ => pollB
  | |- lockB _ _ _ (match ?sx with _ => _ end) (match lift1 c2 ?sx with _ => _ end) =>
      let H := fresh "He" in
      lazymatch sx with
      | evaluate EC ?s ?p => pose proof (evaluate_A EC s p) as H
      | nm_snm EC SC ?s ?p ?b ?d ?ic ?pv => pose proof (snm_A EC SC s p b d ic pv) as H
      | nm_fpr EC SC ?s ?p ?a ?b ?d ?ic ?pv => pose proof (fpr_A EC SC s p a b d ic pv) as H
      end;
      destruct sx as [[? ?]| | |]; cbn [lift1];
      try (destruct H as (_ & H & _))
  | |- lockB _ _ _ (match ?sx with _ => _ end) (match lift0 c2 ?sx with _ => _ end) =>
      lazymatch sx with
      | push_history SC ?s ?p =>
          let H := fresh "Hh" in pose proof (push_A SC s p) as H;
          destruct (push_history SC s p) as [?| | |]; cbn [lift0]; [subst| | |]
      end
  | |- lockB _ _ _ (match ?sx with _ => _ end) (match ?sx with _ => _ end) => destruct sx
  end.

(* [callsB]: sub-calls while in step; [callsR]: sub-calls of the second run alone *)
Ltac stepB callsB callsR :=
  lazymatch goal with
  | |- restB _ _ _ _ => stepR callsR
  | |- lockB _ _ _ (RCancel, _) _ => apply lockB_stop; [ projL; congruence |]
  | |- lockB _ _ _ _ _ => autorewrite with scp; cbv beta iota; first [ callsB tt | basicB ]
  end.

Ltac leafB :=
  lazymatch goal with
  | |- restB _ _ _ _ => leafR
  | |- lockB _ _ _ _ _ => leafS
  end.

(* a sub-call [cx] of the first run and [cy] of the second, with their [lockB d] fact [H] *)
Ltac callB cx cy H :=
  destruct H as (? & H & ?); cbn [fst snd] in *;
  destruct cx as [[?| | |] ?]; cbn [fst snd] in *;
  [ rewrite (H ltac:(discriminate)); unfold tr; cbn [fst snd]
  | clear H;
    match goal with Hb : RCancel = RCancel -> restB _ _ _ _ |- _ => specialize (Hb eq_refl) end;
    destruct cy as [[?| | |] ?]
  | rewrite (H ltac:(discriminate)); unfold tr; cbn [fst snd]
  | rewrite (H ltac:(discriminate)); unfold tr; cbn [fst snd] ];
  cbv beta iota.

Section WithRec.
Variable rec : nm_rec.
Hypothesis Hrec_W : forall s q a b d pl cn pm rh, specW 1 s (rec s q a b d pl cn pm rh).
Hypothesis Hrec_B : forall s q a b d pl cn pm rh,
  s_cancel s = Some k ->
  lockB k1 1 s (rec s q a b d pl cn pm rh) (rec (set_cancel s c2) q a b d pl cn pm rh).

Ltac recR x :=
  lazymatch x with
  | rec ?s ?q ?a ?b ?d ?pl ?cn ?pm ?rh =>
      let H := fresh "Hc" in pose proof (Hrec_W s q a b d pl cn pm rh) as H;
      destruct (rec s q a b d pl cn pm rh) as [[[? ?]| | |] ?]
  end.
Ltac recB u :=
  lazymatch goal with
  | |- lockB _ _ _ (match rec ?s ?q ?a ?b ?d ?pl ?cn ?pm ?rh with _ => _ end) _ =>
      oracleB s;
      let H := fresh "Hc" in
      match goal with Hk : s_cancel s = Some k |- _ => pose proof (Hrec_B s q a b d pl cn pm rh Hk) as H end;
      callB (rec s q a b d pl cn pm rh) (rec (set_cancel s c2) q a b d pl cn pm rh) H
  end.

Lemma pvs_B : forall s q alpha beta d1 pl1 pm rh lg,
  s_cancel s = Some k ->
  lockB k1 1 s (nm_pvs rec s q alpha beta d1 pl1 pm rh lg) (nm_pvs rec (set_cancel s c2) q alpha beta d1 pl1 pm rh lg).
Proof.
  intros until lg. intro Hk0. unfold nm_pvs. cbv zeta. repeat stepB recB recR.
  all: leafB.
Qed.

Lemma nmp_B : forall s p beta depth ply cn ic pv rh,
  s_cancel s = Some k ->
  lockB k1 1 s (nm_nmp K EC rec s p beta depth ply cn ic pv rh) (nm_nmp K EC rec (set_cancel s c2) p beta depth ply cn ic pv rh).
Proof.
  intros until rh. intro Hk0. unfold nm_nmp. cbv zeta. repeat stepB recB recR.
  all: leafB.
Qed.

Ltac recR2 x :=
  lazymatch x with
  | nm_pvs rec ?s ?q ?a ?b ?d ?pl ?pm ?rh ?lg =>
      let H := fresh "Hc" in pose proof (pvs_W rec Hrec_W s q a b d pl pm rh lg) as H;
      destruct (nm_pvs rec s q a b d pl pm rh lg) as [[[? ?]| | |] ?]
  end.
Ltac recB2 u :=
  lazymatch goal with
  | |- lockB _ _ _ (match nm_pvs rec ?s ?q ?a ?b ?d ?pl ?pm ?rh ?lg with _ => _ end) _ =>
      oracleB s;
      let H := fresh "Hc" in
      match goal with Hk : s_cancel s = Some k |- _ => pose proof (pvs_B s q a b d pl pm rh lg Hk) as H end;
      callB (nm_pvs rec s q a b d pl pm rh lg) (nm_pvs rec (set_cancel s c2) q a b d pl pm rh lg) H
  end.

Lemma loop_B : forall p beta depth ply pm rh fp n i ms s L,
  s_cancel s = Some k ->
  lockB k1 1 s (nm_loop K OC rec p beta depth ply pm rh fp n i ms s L)
               (nm_loop K OC rec p beta depth ply pm rh fp n i ms (set_cancel s c2) L).
Proof.
  intros p beta depth ply pm rh fp n; induction n as [|n IH]; intros i ms s L Hk0.
  - cbn. leafB.
  - unfold nm_loop; fold (nm_loop K OC rec p beta depth ply pm rh fp).
    cbv zeta.
    repeat first [ lazymatch goal with
                   | |- lockB _ _ _ (nm_loop K OC rec p beta depth ply pm rh fp n ?i ?ms ?s1 ?L) _ =>
                       oracleB s1;
                       match goal with Hk : s_cancel s1 = Some k |- _ =>
                         apply (lockB_start k1 1 _ s1); [projL; congruence | exact (IH i ms s1 L Hk)] end
                   | |- restB _ _ _ (nm_loop K OC rec p beta depth ply pm rh fp n ?i ?ms ?s1 ?L) =>
                       let H := fresh "Hl" in
                       pose proof (loop_W K OC rec Hrec_W p beta depth ply pm rh fp n i ms s1 L) as H;
                       destruct (nm_loop K OC rec p beta depth ply pm rh fp n i ms s1 L) as [[?| | |] ?]
                   end
                 | stepB recB2 recR2 ].
    all: leafB.
Qed.

Ltac recR3 x :=
  lazymatch x with
  | nm_nmp K EC rec ?s ?p ?b ?d ?pl ?cn ?ic ?pv ?rh =>
      let H := fresh "Hc" in pose proof (nmp_W K EC rec Hrec_W s p b d pl cn ic pv rh) as H;
      destruct (nm_nmp K EC rec s p b d pl cn ic pv rh) as [[[?|]| | |] ?]
  | nm_loop K OC rec ?p ?b ?d ?pl ?pm ?rh ?fp ?n ?i ?ms ?s ?L =>
      let H := fresh "Hc" in pose proof (loop_W K OC rec Hrec_W p b d pl pm rh fp n i ms s L) as H;
      destruct (nm_loop K OC rec p b d pl pm rh fp n i ms s L) as [[[? ?]| | |] ?]
  end.
Ltac recB3 u :=
  lazymatch goal with
  | |- lockB _ _ _ (match nm_nmp K EC rec ?s ?p ?b ?d ?pl ?cn ?ic ?pv ?rh with _ => _ end) _ =>
      oracleB s;
      let H := fresh "Hc" in
      match goal with Hk : s_cancel s = Some k |- _ => pose proof (nmp_B s p b d pl cn ic pv rh Hk) as H end;
      callB (nm_nmp K EC rec s p b d pl cn ic pv rh) (nm_nmp K EC rec (set_cancel s c2) p b d pl cn ic pv rh) H
  | |- lockB _ _ _ (match nm_loop K OC rec ?p ?b ?d ?pl ?pm ?rh ?fp ?n ?i ?ms ?s ?L with _ => _ end) _ =>
      oracleB s;
      let H := fresh "Hc" in
      match goal with Hk : s_cancel s = Some k |- _ => pose proof (loop_B p b d pl pm rh fp n i ms s L Hk) as H end;
      callB (nm_loop K OC rec p b d pl pm rh fp n i ms s L) (nm_loop K OC rec p b d pl pm rh fp n i ms (set_cancel s c2) L) H
  end.

Lemma inner_B : forall s p alpha beta depth ply cn pm rh ic,
  s_cancel s = Some k ->
  lockB k1 1 s (nm_inner K EC OC SC rec s p alpha beta depth ply cn pm rh ic)
               (nm_inner K EC OC SC rec (set_cancel s c2) p alpha beta depth ply cn pm rh ic).
Proof.
  intros until ic. intro Hk0. unfold nm_inner. cbv zeta. repeat stepB recB3 recR3.
  all: leafB.
Qed.

End WithRec.
Section WithQRec.
Variable qrec : q_rec.
Hypothesis Hq_W : forall s q a b pl, specW 0 s (qrec s q a b pl).
Hypothesis Hq_B : forall s q a b pl,
  s_cancel s = Some k ->
  lockB k1 0 s (qrec s q a b pl) (qrec (set_cancel s c2) q a b pl).

Ltac qrecR x :=
  lazymatch x with
  | qrec ?s ?q ?a ?b ?pl =>
      let H := fresh "Hc" in pose proof (Hq_W s q a b pl) as H;
      destruct (qrec s q a b pl) as [[?| | |] ?]
  end.
Ltac qrecB u :=
  lazymatch goal with
  | |- lockB _ _ _ (match qrec ?s ?q ?a ?b ?pl with _ => _ end) _ =>
      oracleB s;
      let H := fresh "Hc" in
      match goal with Hk : s_cancel s = Some k |- _ => pose proof (Hq_B s q a b pl Hk) as H end;
      callB (qrec s q a b pl) (qrec (set_cancel s c2) q a b pl) H
  end.

Lemma qloop_B : forall p sp beta ply n i ms s alpha,
  s_cancel s = Some k ->
  lockB k1 0 s (q_loop K EC qrec p sp beta ply n i ms s alpha) (q_loop K EC qrec p sp beta ply n i ms (set_cancel s c2) alpha).
Proof.
  intros p sp beta ply n; induction n as [|n IH]; intros i ms s alpha Hk0.
  - cbn. leafB.
  - unfold q_loop; fold (q_loop K EC qrec p sp beta ply).
    cbv zeta.
    repeat first [ lazymatch goal with
                   | |- lockB _ _ _ (q_loop K EC qrec p sp beta ply n ?i ?ms ?s1 ?a) _ =>
                       oracleB s1;
                       match goal with Hk : s_cancel s1 = Some k |- _ =>
                         apply (lockB_start k1 0 _ s1); [projL; congruence | exact (IH i ms s1 a Hk)] end
                   | |- restB _ _ _ (q_loop K EC qrec p sp beta ply n ?i ?ms ?s1 ?a) =>
                       let H := fresh "Hl" in
                       pose proof (qloop_W K EC qrec Hq_W p sp beta ply n i ms s1 a) as H;
                       destruct (q_loop K EC qrec p sp beta ply n i ms s1 a) as [[?| | |] ?]
                   end
                 | stepB qrecB qrecR ].
    all: leafB.
Qed.
End WithQRec.

Theorem quiescence_B : forall f s p alpha beta ply,
  s_cancel s = Some k ->
  lockB k1 0 s (quiescence K EC OC SC f s p alpha beta ply) (quiescence K EC OC SC f (set_cancel s c2) p alpha beta ply).
Proof.
  induction f as [|f IH]; intros s p alpha beta ply Hk0.
  - cbn. leafB.
  - rewrite !quiescence_eq. cbv zeta.
    repeat first [ lazymatch goal with
                   | |- lockB _ _ _ (q_loop K EC ?r ?p ?sp ?b ?pl ?n ?i ?ms ?s1 ?a) _ =>
                       oracleB s1;
                       match goal with Hk : s_cancel s1 = Some k |- _ =>
                         apply (lockB_start k1 0 _ s1);
                         [projL; congruence | exact (qloop_B r (quiescence_W K EC OC SC f) IH p sp b pl n i ms s1 a Hk)] end
                   | |- restB _ _ _ (q_loop K EC ?r ?p ?sp ?b ?pl ?n ?i ?ms ?s1 ?a) =>
                       let H := fresh "Hl" in
                       pose proof (qloop_W K EC r (quiescence_W K EC OC SC f) p sp b pl n i ms s1 a) as H;
                       destruct (q_loop K EC r p sp b pl n i ms s1 a) as [[?| | |] ?]
                   end
                 | stepB ltac:(fun u => fail) ltac:(fun x => fail) ].
    all: leafB.
Qed.

Theorem negamax_B : forall f s p alpha beta depth ply cn pm rh,
  s_cancel s = Some k ->
  lockB k1 1 s (negamax K EC OC SC f s p alpha beta depth ply cn pm rh)
               (negamax K EC OC SC f (set_cancel s c2) p alpha beta depth ply cn pm rh).
Proof.
  induction f as [|f IH]; intros s p alpha beta depth ply cn pm rh Hk0.
  - cbn. leafB.
  - rewrite !negamax_eq. cbv zeta.
    repeat first
      [ lazymatch goal with
        | |- lockB _ _ _ (fst ?rx, pop_history (snd ?rx)) (fst ?ry, pop_history (snd ?ry)) =>
            lazymatch rx with
            | nm_inner K EC OC SC ?r ?s1 ?p ?a ?b ?d ?pl ?cn ?pm ?rh ?ic =>
                oracleB s1;
                let H := fresh "Hin" in
                match goal with Hk : s_cancel s1 = Some k |- _ =>
                  pose proof (inner_B r (negamax_W K EC OC SC f) IH s1 p a b d pl cn pm rh ic Hk) as H end;
                callB rx ry H
            end
        | |- restB _ _ _ (fst ?ry, pop_history (snd ?ry)) =>
            lazymatch ry with
            | nm_inner K EC OC SC ?r ?s1 ?p ?a ?b ?d ?pl ?cn ?pm ?rh ?ic =>
                let H := fresh "Hin" in
                pose proof (inner_W K EC OC SC r (negamax_W K EC OC SC f) s1 p a b d pl cn pm rh ic) as H;
                destruct ry as [[?| | |] ?]; cbn [fst snd]
            end
        end
      | stepB
          ltac:(fun u =>
            lazymatch goal with
            | |- lockB _ _ _ (match quiescence K EC OC SC ?f ?s1 ?p ?a ?b ?pl with _ => _ end) _ =>
                oracleB s1;
                let H := fresh "Hc" in
                match goal with Hk : s_cancel s1 = Some k |- _ => pose proof (quiescence_B f s1 p a b pl Hk) as H end;
                callB (quiescence K EC OC SC f s1 p a b pl) (quiescence K EC OC SC f (set_cancel s1 c2) p a b pl) H
            end)
          ltac:(fun x =>
            lazymatch x with
            | quiescence K EC OC SC ?f ?s1 ?p ?a ?b ?pl =>
                let H := fresh "Hc" in pose proof (quiescence_W K EC OC SC f s1 p a b pl) as H;
                destruct (quiescence K EC OC SC f s1 p a b pl) as [[?| | |] ?]
            end) ].
    all: leafB.
Qed.

End Adjacent.

(* ------------------------------------------------------------------ whole calls *)
Section AdjacentCalls.
Variable K : zkeys.
Variable EC : econsts.
Variable OC : oconsts.
Variable SC : sconsts.

Lemma restB_nodes : forall k1 d A sx (y : sresult A * sst),
  restB k1 d sx y -> s_nodes (snd y) = s_nodes sx \/ s_nodes (snd y) = w64 (s_nodes sx + 1).
Proof.
  intros k1 d A sx y (_ & e & He & Hle & _).
  assert (E : e = 0%N \/ e = 1%N) by lia. destruct E as [->| ->].
  - left. rewrite He. apply addw_0.
  - right. rewrite He. apply addw_1.
Qed.

(* The stop one poll later costs at most one more node.  [s] arbitrary with oracle [Some k]; the first run
   is cancelled; the second run, under [Some (k + 1)], ends with the node counter of the first or one more;
   if it still returns a value it has made no further poll. *)
Theorem negamax_stop_one_poll_later : forall f s p alpha beta depth ply cn pm rh k sx r2 sy,
  s_cancel s = Some k ->
  negamax K EC OC SC f s p alpha beta depth ply cn pm rh = (RCancel, sx) ->
  negamax K EC OC SC f (set_cancel s (Some (k + 1)%N)) p alpha beta depth ply cn pm rh = (r2, sy) ->
  (s_nodes sy = s_nodes sx \/ s_nodes sy = w64 (s_nodes sx + 1)) /\
  (r2 <> RCancel -> s_polls sy = (k + 1)%N).
Proof.
  intros f s p alpha beta depth ply cn pm rh k sx r2 sy Hk Hx Hy.
  destruct (negamax_B K EC OC SC k f s p alpha beta depth ply cn pm rh Hk) as (_ & _ & HB).
  rewrite Hx, Hy in HB. specialize (HB eq_refl). cbn [fst snd] in HB.
  split; [exact (restB_nodes _ _ _ _ _ HB)|].
  destruct HB as (_ & e & _ & _ & HB). cbn [fst snd] in HB. intro Hr. apply HB; exact Hr.
Qed.

(* quiescence: and if the second run still returns a value it has counted no further node *)
Theorem quiescence_stop_one_poll_later : forall f s p alpha beta ply k sx r2 sy,
  s_cancel s = Some k ->
  quiescence K EC OC SC f s p alpha beta ply = (RCancel, sx) ->
  quiescence K EC OC SC f (set_cancel s (Some (k + 1)%N)) p alpha beta ply = (r2, sy) ->
  (s_nodes sy = s_nodes sx \/ s_nodes sy = w64 (s_nodes sx + 1)) /\
  (r2 <> RCancel -> s_polls sy = (k + 1)%N /\ s_nodes sy = s_nodes sx).
Proof.
  intros f s p alpha beta ply k sx r2 sy Hk Hx Hy.
  destruct (quiescence_B K EC OC SC k f s p alpha beta ply Hk) as (_ & _ & HB).
  rewrite Hx, Hy in HB. specialize (HB eq_refl). cbn [fst snd] in HB.
  split; [exact (restB_nodes _ _ _ _ _ HB)|].
  destruct HB as (_ & e & He & _ & HB). cbn [fst snd] in HB, He. intro Hr. destruct (HB Hr) as [H1 H2].
  split; [exact H1|]. assert (e = 0%N) by lia. subst e. rewrite He. apply addw_0.
Qed.

Theorem search_root_stop_one_poll_later : forall fuel s root d a b k sx r2 sy,
  s_cancel s = Some k ->
  search_root K EC OC SC fuel s root d a b = (RCancel, sx) ->
  search_root K EC OC SC fuel (set_cancel s (Some (k + 1)%N)) root d a b = (r2, sy) ->
  (s_nodes sy = s_nodes sx \/ s_nodes sy = w64 (s_nodes sx + 1)) /\
  (r2 <> RCancel -> s_polls sy = (k + 1)%N).
Proof.
  intros fuel s root d a b k sx r2 sy Hk Hx Hy. unfold search_root in *.
  rewrite sc_upd_killers in Hy.
  eapply negamax_stop_one_poll_later; [|exact Hx|exact Hy]. exact Hk.
Qed.

End AdjacentCalls.
