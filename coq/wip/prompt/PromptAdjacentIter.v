(* C05, whole-call form: the comparison with the stop one poll later for the iterative-deepening loop. *)
From Coq Require Import NArith ZArith List Bool FMapPositive Lia.
From Clemens Require Import Base.Res Base.Word Pos.Types Att.Attacks Pos.Position Eval.Eval
     Search.TT Search.Ordering Search.Negamax Search.SearchStruct Search.SearchLines Search.SearchIter Search.GoInst.
From WipPrompt Require Import PromptBase PromptWalk PromptCalls PromptSyncBase PromptSync PromptAdjacent.
Import ListNotations.
Open Scope Z_scope.

Section AdjacentIter.
Variable K : zkeys.
Variable EC : econsts.
Variable OC : oconsts.
Variable SC : sconsts.

(* the iterative-deepening loop: it swallows the error, so "the first run is stopped" reads [fired sx] *)
Lemma search_root_B : forall k fuel s root d a b,
  s_cancel s = Some k ->
  lockB (k + 1) 1 s (search_root K EC OC SC fuel s root d a b)
                    (search_root K EC OC SC fuel (set_cancel s (Some (k + 1)%N)) root d a b).
Proof.
  intros k fuel s root d a b Hk. unfold search_root. rewrite sc_upd_killers.
  apply (lockB_start (k + 1) 1 _ (upd_killers s (PositiveMap.empty _))); [reflexivity|].
  apply negamax_B. exact Hk.
Qed.

Theorem search_iterative_stop_one_poll_later : forall k iters fuel rep root md s d a b rx sx ry sy,
  s_cancel s = Some k ->
  search_iterative K EC OC SC iters fuel rep s root md d a b = (rx, sx) ->
  search_iterative K EC OC SC iters fuel rep (set_cancel s (Some (k + 1)%N)) root md d a b = (ry, sy) ->
  (~ fired sx -> ry = rx /\ sy = set_cancel sx (Some (k + 1)%N)) /\
  (fired sx -> s_nodes sy = s_nodes sx \/ s_nodes sy = w64 (s_nodes sx + 1)).
Proof.
  intros k. induction iters as [|it IH]; intros fuel rep root md s d a b rx sx ry sy Hk Hx Hy.
  - cbn in Hx, Hy. inversion Hx; inversion Hy; subst. split; [auto|]. intros _. left. reflexivity.
  - cbn [search_iterative] in Hx, Hy.
    destruct (md <? d)%N.
    { inversion Hx; inversion Hy; subst. split; [auto|]. intros _. left. reflexivity. }
    pose proof (search_root_B k fuel s root d a b Hk) as HB.
    pose proof (search_root_A K EC OC SC fuel s root d a b) as HA.
    destruct (search_root K EC OC SC fuel s root d a b) as [[[score line]| | |] s0].
    + destruct HB as (_ & HB & _). cbn [fst snd] in HB. rewrite (HB ltac:(discriminate)) in Hy.
      unfold tr in Hy; cbn [fst snd] in Hy.
      destruct HA as ([_ Fc _ _ _] & _ & _). cbn [fst snd] in Fc.
      match type of Hx with (if ?c then _ else _) = _ => destruct c end.
      * rewrite sc_emit in Hy.
        eapply IH; [|exact Hx|exact Hy]. cbn [s_cancel emit]. congruence.
      * autorewrite with scp in Hy.
        eapply IH; [|exact Hx|exact Hy]. cbn [s_cancel emit upd_pv]. congruence.
    + (* the first run stops in this root search *)
      inversion Hx; subst rx sx. clear Hx.
      destruct HA as (_ & _ & HA). cbn [fst snd] in HA. specialize (HA eq_refl).
      split; [intro Hn; contradiction|]. intros _.
      destruct HB as (_ & _ & HB). cbn [fst snd] in HB. specialize (HB eq_refl).
      destruct (search_root K EC OC SC fuel (set_cancel s (Some (k + 1)%N)) root d a b) as [[[score line]| | |] s1].
      * (* the second run completes the root search without a further poll and goes on: its next root search stops *)
        destruct HB as (Hc1 & e & Hn1 & He & HB). cbn [fst snd] in *. destruct (HB ltac:(discriminate)) as [Hp1 _].
        assert (Hrest : forall s1' r' s',
                  s_cancel s1' = s_cancel s1 -> s_polls s1' = s_polls s1 -> s_nodes s1' = s_nodes s1 ->
                  forall d' a' b',
                  search_iterative K EC OC SC it fuel rep s1' root md d' a' b' = (r', s') ->
                  s_nodes s' = s_nodes s1).
        { intros s1' r' s' E1 E2 E3 d' a' b' Hi.
          pose proof (search_iterative_I K EC OC SC it fuel rep root md s1' d' a' b') as HI. rewrite Hi in HI.
          unfold specI in HI; cbn [fst snd] in HI. destruct HI as (_ & I2 & I3 & I4 & n & I5 & I6 & I7).
          assert (Hnf : ~ fired s1') by (unfold fired; rewrite E1, Hc1, E2, Hp1; lia).
          assert (n = 0%N).
          { destruct (fired_dec s') as [Hf|Hf].
            - specialize (I7 Hnf Hf). destruct (I4 Hnf Hf) as [J _]. unfold jfired in J. rewrite I2, E1, Hc1 in J. lia.
            - unfold fired in Hf. rewrite I2, E1, Hc1 in Hf. lia. }
          subst n. rewrite I5, addw_0. exact E3. }
        assert (Hfin : s_nodes sy = s_nodes s1).
        { match type of Hy with (if ?c then _ else _) = _ => destruct c end.
          - eapply Hrest; [ .. | exact Hy ]; reflexivity.
          - eapply Hrest; [ .. | exact Hy ]; reflexivity. }
        rewrite Hfin. assert (E : e = 0%N \/ e = 1%N) by lia. destruct E as [->| ->].
        -- left. rewrite Hn1. apply addw_0.
        -- right. rewrite Hn1. apply addw_1.
      * inversion Hy; subst. exact (restB_nodes _ _ _ _ _ HB).
      * inversion Hy; subst. exact (restB_nodes _ _ _ _ _ HB).
      * inversion Hy; subst. exact (restB_nodes _ _ _ _ _ HB).
    + destruct HB as (_ & HB & _). cbn [fst snd] in HB. rewrite (HB ltac:(discriminate)) in Hy.
      inversion Hx; inversion Hy; subst. unfold tr; cbn [fst snd]. split; [auto|]. intros _. left. reflexivity.
    + destruct HB as (_ & HB & _). cbn [fst snd] in HB. rewrite (HB ltac:(discriminate)) in Hy.
      inversion Hx; inversion Hy; subst. unfold tr; cbn [fst snd]. split; [auto|]. intros _. left. reflexivity.
Qed.

End AdjacentIter.

(* Go build: had the stop come one poll later, the first loop of Search would have counted at most one more node
   (it may then have completed one more iteration: the output and the adopted line can differ) *)
Theorem go_search_iterative_stop_one_poll_later : forall k iters fuel rep root md s d a b rx sx ry sy,
  s_cancel s = Some k ->
  go_search_iterative iters fuel rep s root md d a b = (rx, sx) ->
  go_search_iterative iters fuel rep (set_cancel s (Some (k + 1)%N)) root md d a b = (ry, sy) ->
  (~ fired sx -> ry = rx /\ sy = set_cancel sx (Some (k + 1)%N)) /\
  (fired sx -> s_nodes sy = s_nodes sx \/ s_nodes sy = w64 (s_nodes sx + 1)).
Proof. exact (search_iterative_stop_one_poll_later go_keys go_econsts go_oconsts go_sconsts). Qed.
Print Assumptions go_search_iterative_stop_one_poll_later.
