#!/bin/sh
# usage: wip/engine/cc.sh File   (from anywhere)
cd /verif/coq && /usr/bin/time -f "%es" timeout ${2:-600} coqc -Q theories Clemens -Q gen ClemensGen -Q wip/engine WipEngine -Q wip/nullmove WipNull -w -notation-overridden,-deprecated-hint-without-locality,-deprecated-instance-without-locality wip/engine/$1.v 2>&1
