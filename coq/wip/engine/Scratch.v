From Coq Require Import NArith ZArith List Bool Lia String Ascii.
From Clemens Require Import Base.Res Base.Bytes Pos.Types Pos.Position Search.Negamax Search.GoInst
     Uci.ParseGo Uci.Input Uci.GoLineSpec Uci.Game Uci.Engine Uci.EngineInst.
From WipEngine Require Import EngBase.
Import ListNotations.
Open Scope string_scope.
Definition b := bytes_of_string.
Definition sess := [(b "position startpos moves e2e4 e7e5", None); (b "go depth 1", @None N)].
Time Eval vm_compute in snd (go_run 10 60 go_engine_init sess).
Time Eval vm_compute in match fst (go_run 510 60 go_engine_init sess) with SEof e => (en_state e, 0%N) | SStuck => (7%N,7%N) | _ => (9%N,9%N) end.
Definition str (l : bytes) : string := string_of_list_ascii (map ascii_of_N l).
Time Eval vm_compute in map (fun o => map str (fst (go_render o))) (snd (go_run 10 60 go_engine_init sess)).
Definition fm : string := "rnb1kbnr/pppp1ppp/8/4p3/6Pq/5P2/PPPPP2P/RNBQKBNR w KQkq - 1 3".
Definition sess2 := [(b ("position fen " ++ fm), None); (b "go depth 255", @None N)].
Time Eval vm_compute in (go_run 510 1282 go_engine_init sess2).
