(* C15 (second half), summary: the statements to re-export. Everything is for the constants of the current
   Go build ([go_econsts], Eval/SeeInst.v). *)
From Coq Require Import NArith ZArith List Bool.
From Clemens Require Import Base.Res Base.Word Pos.Types Att.Attacks Pos.Position Pos.Inv
  Pos.ZobristProofs Eval.Eval Eval.SeeInst.
From WipBound Require Import Material EvalZ EvalW Bound Play Game Examples.
Import ListNotations.
Open Scope Z_scope.

(* 1. The static score of a position satisfying the C10 invariant and the material predicate: it is
      computed without panic, it equals the value of the same formula over the unbounded integers,
      |v| <= 14193, and it is not in the mate range (|v| > INF - maxPlies = 32667). *)
Theorem C15_eval_safe : forall p, Inv p -> material_ok p = true ->
  exists v, eval_raw go_econsts p = Ok v /\ eval_raw_Z go_econsts p = Ok v /\
            Z.abs v <= 14193 /\ is_checkmate_value go_econsts v = false.
Proof. exact eval_safe. Qed.

Theorem C15_eval_bound : forall p, Inv p -> material_ok p = true ->
  exists v, eval_raw go_econsts p = Ok v /\ is_checkmate_value go_econsts v = false.
Proof. exact eval_bound. Qed.

(* 2. No int16 operation wraps.  [eval_raw_Z] is Eval/Eval.v with +, -, * in place of add16, sub16, mul16
      and without wrap16 (EvalZ.v); that this is the ONLY difference is checked in EvalW.v: both are instances
      of one text with the wrap as a parameter. *)
Theorem C15_eval_no_wrap : forall p, Inv p -> material_ok p = true ->
  eval_raw go_econsts p = eval_raw_Z go_econsts p.
Proof. exact eval_no_wrap. Qed.

Theorem C15_eval_no_wrap_param : forall p, Inv p -> material_ok p = true ->
  eval_raw_W wrap16 go_econsts p = eval_raw_W (fun x => x) go_econsts p.
Proof. intros p I M. rewrite eval_raw_W_is_model, eval_raw_W_is_Z. now apply eval_no_wrap. Qed.

Theorem C15_eval_raw_W_model : forall C p, eval_raw_W wrap16 C p = eval_raw C p.
Proof. exact eval_raw_W_is_model. Qed.

(* the three accumulators of eval.do: no wrap; |mid|, |end| <= 1145 (calculateScore multiplies them by at
   most 24: 24 * 1145 = 27480 <= 32767), |base| <= 13048 *)
Theorem C15_eval_parts_no_wrap : forall p, Inv p -> material_ok p = true ->
  eval_parts go_econsts p = eval_parts_Z go_econsts p /\
  exists m e b, eval_parts go_econsts p = Ok (m, e, b) /\
    Z.abs m <= 1145 /\ Z.abs e <= 1145 /\ Z.abs b <= 13048.
Proof. exact eval_parts_no_wrap. Qed.

Theorem C15_eval_no_panic : forall p, Inv p -> material_ok p = true ->
  eval_raw go_econsts p <> Panic /\ eval_raw go_econsts p <> Err.
Proof. exact eval_no_panic. Qed.

(* 3. The material hypothesis is needed: with the invariant alone the score can be a mate score, an int16
      product can wrap, the evaluation can panic (witnesses in Examples.v). *)
Theorem C15_eval_bound_needs_material :
  ~ (forall p, Inv p -> exists v, eval_raw go_econsts p = Ok v /\ is_checkmate_value go_econsts v = false) /\
  ~ (forall p, Inv p -> eval_raw go_econsts p = eval_raw_Z go_econsts p) /\
  ~ (forall p, Inv p -> eval_raw go_econsts p <> Panic).
Proof. exact eval_bound_needs_material. Qed.

(* 4. [material_ok] along a game. *)
Theorem C15_material_new_position : forall (K : zkeys) p, new_position K = Ok p -> material_ok p = true.
Proof. exact material_new_position. Qed.

(* every generated move; the last premise is the conclusion of C10_gen_step_nocheck *)
Theorem C15_material_step : forall (K : zkeys) p ms m q,
  material_ok p = true -> Inv p -> gen_moves p = Ok ms -> In m ms -> make_move K p m = Ok q ->
  inv_nocheck_b q = true -> material_ok q = true.
Proof. exact material_step_nocheck. Qed.

Theorem C15_material_step_legal : forall (K : zkeys) p ls m q,
  material_ok p = true -> Inv p -> legal_moves K p = Ok ls -> In m ls -> make_move K p m = Ok q ->
  Inv q -> material_ok q = true.
Proof. exact material_step_legal. Qed.

(* the statement without a premise on the successor, from C10 *)
Theorem C15_material_step_from_C10 :
  (forall (K : zkeys) p ms m q, Inv p -> gen_moves p = Ok ms -> In m ms -> make_move K p m = Ok q ->
                                inv_nocheck_b q = true) ->
  forall (K : zkeys) p ms m q,
    material_ok p = true -> Inv p -> gen_moves p = Ok ms -> In m ms -> make_move K p m = Ok q ->
    material_ok q = true.
Proof. exact material_step_from_C10. Qed.

(* the bound for every position of a game from the start position, given C10 (legal moves keep [Inv]) *)
Theorem C15_eval_bound_game : forall (K : zkeys), inv_step_statement K -> forall p, game_pos K p ->
  exists v, eval_raw go_econsts p = Ok v /\ eval_raw_Z go_econsts p = Ok v /\
            Z.abs v <= 14193 /\ is_checkmate_value go_econsts v = false.
Proof. exact eval_bound_game. Qed.

Print Assumptions C15_eval_safe.
Print Assumptions C15_eval_bound.
Print Assumptions C15_eval_no_wrap.
Print Assumptions C15_eval_no_wrap_param.
Print Assumptions C15_eval_raw_W_model.
Print Assumptions C15_eval_parts_no_wrap.
Print Assumptions C15_eval_no_panic.
Print Assumptions C15_eval_bound_needs_material.
Print Assumptions C15_material_new_position.
Print Assumptions C15_material_step.
Print Assumptions C15_material_step_legal.
Print Assumptions C15_material_step_from_C10.
Print Assumptions C15_eval_bound_game.
