#!/bin/bash
# usage: cc.sh File.v
cd /verif/coq && time timeout 1800 coqc -Q theories Clemens -Q gen ClemensGen -Q wip/bound WipBound -w -notation-overridden,-deprecated-hint-without-locality,-deprecated-instance-without-locality wip/bound/$1 2>&1 | grep -v "conda.cli"
