#!/bin/sh
# compile the C10 development in dependency order (from /verif/coq)
cd /verif/coq || exit 1
for f in InvViews InvMake InvGen InvKing InvClauses InvMoves InvStep InvTotal InvReach C10; do
  echo "== $f"
  timeout 1800 coqc -Q theories Clemens -Q gen ClemensGen -Q wip/inv WipInv \
    -w -notation-overridden,-deprecated-hint-without-locality,-deprecated-instance-without-locality wip/inv/$f.v || exit 1
done
