From Coq Require Import NArith ZArith List Bool String.
From Clemens Require Import Base.Res Pos.Types Pos.Position Pos.Inv Search.GoInst.
From Clemens.C15Bound Require Import Material.
From Clemens.C13Mate Require Import MateExamples.
From WipBridge Require Import Bridge.
Definition info (f : string) :=
  let p := root_of f in
  (inv_b p, material_ok p, match gen_moves p with Ok g => Some (List.length g) | _ => None end,
   match legal_moves go_keys p with Ok g => Some (List.length g) | _ => None end, side p).
Eval vm_compute in info "R6R/3Q4/1Q4Q1/4Q3/2Q4Q/Q4Q2/pp1Q4/kBNN1KB1 w - - 0 1".
Eval vm_compute in info "3Q4/1Q4Q1/4Q3/2Q4R/Q4Q2/3Q4/1Q4Rp/1K1BBNNk w - - 0 1".
Eval vm_compute in info "kNNbBBKn/bpQ4R/4Q3/1Q4Q1/3Q4/Q4Q2/2Q4R/r3Q3 w - - 0 1".
Eval vm_compute in info "QQQQQQBk/Q5RB/Q6Q/Q6Q/Q6Q/Q6Q/Q6Q/KQQQQQQB w - - 0 1".
