(* C15, first half: non-vacuity examples, and the witness that the side condition of the theorem for
   arbitrary constants ([no_min16]) cannot be dropped. Everything here is decided by [vm_compute]. *)
From Coq Require Import NArith ZArith List Bool String Ascii.
From Clemens Require Import Base.Res Base.Word Base.Bytes Pos.Types Att.Attacks Pos.Position Pos.Fen Pos.Inv
  Eval.Eval.
From ClemensGen Require Import GoConsts.
From WipMirror Require Import Mirror MirrorEval MirrorGo.
Import ListNotations.
Open Scope Z_scope.

Definition mx_keys : zkeys :=
  {| zk_piece := zk_piece_tbl; zk_side := zk_side_key; zk_castling := zk_castling_tbl; zk_ep := zk_ep_tbl |}.
Definition mx_parse (s : string) : res position :=
  new_from_fen mx_keys unicode_digit_tbl (map N_of_ascii (list_ascii_of_string s)).
Definition mx_pos (s : string) : position := match mx_parse s with Ok p => p | _ => empty_position end.

(* "Kiwipete", white to move, all castling rights; a Sicilian after 1.e4 c5 with the en-passant target
   c6; an endgame with Black to move and the en-passant target d3 *)
Definition mx_fen_1 : string := "r3k2r/p1ppqpb1/bn2pnp1/3PN3/1p2P3/2N2Q1p/PPPBBPPP/R3K2R w KQkq - 0 1".
Definition mx_fen_2 : string := "rnbqkbnr/pp1ppppp/8/2p5/4P3/8/PPPP1PPP/RNBQKBNR w KQkq c6 0 2".
Definition mx_fen_3 : string := "8/8/8/2k5/2pP4/8/B7/4K3 b - d3 0 3".
Definition mx_p1 : position := Eval vm_compute in mx_pos mx_fen_1.
Definition mx_p2 : position := Eval vm_compute in mx_pos mx_fen_2.
Definition mx_p3 : position := Eval vm_compute in mx_pos mx_fen_3.

Example mx_parsed : mx_parse mx_fen_1 = Ok mx_p1 /\ mx_parse mx_fen_2 = Ok mx_p2 /\ mx_parse mx_fen_3 = Ok mx_p3.
Proof. repeat split; vm_compute; reflexivity. Qed.

(* the hypotheses of eval_mirror are met, the positions are not their own mirror images (not even up to
   the hash), and both sides of the equation are the same non-zero number *)
Example eval_mirror_hyps_met :
  (Inv mx_p1 /\ Inv (mirror mx_p1) /\ board (mirror mx_p1) <> board mx_p1 /\
   eval_raw go_econsts mx_p1 = Ok 115 /\ eval_raw go_econsts (mirror mx_p1) = Ok 115) /\
  (Inv mx_p2 /\ Inv (mirror mx_p2) /\ board (mirror mx_p2) <> board mx_p2 /\ ep (mirror mx_p2) = 18%N /\
   eval_raw go_econsts mx_p2 = Ok 58 /\ eval_raw go_econsts (mirror mx_p2) = Ok 58) /\
  (Inv mx_p3 /\ Inv (mirror mx_p3) /\ side (mirror mx_p3) = WHITE /\ ep (mirror mx_p3) = 43%N /\
   eval_raw go_econsts mx_p3 = Ok (-257) /\ eval_raw go_econsts (mirror mx_p3) = Ok (-257)).
Proof.
  unfold Inv. repeat split; try (vm_compute; reflexivity); vm_compute; discriminate.
Qed.

(* the accumulators negate: (mid, end, base) of the mirror image = minus those of the position *)
Example eval_parts_negate :
  eval_parts go_econsts mx_p1 = Ok (105, 105, 10) /\ eval_parts go_econsts (mirror mx_p1) = Ok (-105, -105, -10).
Proof. split; vm_compute; reflexivity. Qed.

(* ---- the side condition of eval_mirror_any_consts is needed ----
   Constants as in the Go build, except that the midgame pawn tables hold 4096 on every square and the
   endgame tables are zero (mirror-symmetric). In the start position without the pawn h7 the game phase
   is 24 and the midgame sum is 4096, so the tapered sum is 24 * 4096 = 98304 = -32768 in int16; dividing
   by 24 gives -1365 for the position AND for its mirror image (where the sum is -98304 = -32768 as well). *)
Definition flat (v : Z) : list Z := repeat v 64.
Definition mx_bad_mid : list (list (list Z)) :=
  [[flat 4096; flat 0; flat 0; flat 0; flat 0; flat 0]; [flat 4096; flat 0; flat 0; flat 0; flat 0; flat 0]].
Definition mx_zero_pst : list (list (list Z)) :=
  [[flat 0; flat 0; flat 0; flat 0; flat 0; flat 0]; [flat 0; flat 0; flat 0; flat 0; flat 0; flat 0]].
Definition mx_bad_consts : econsts :=
  {| ec_piece_value := ev_piece_value; ec_mid_pst := mx_bad_mid; ec_end_pst := mx_zero_pst;
     ec_isolani := ev_isolani; ec_passed_scalar := ev_passed_scalar; ec_supported_scalar := ev_supported_scalar;
     ec_rook_pair := ev_rook_pair; ec_knight_pair := ev_knight_pair; ec_bishop_pair := ev_bishop_pair;
     ec_knight_pawn_adj := ev_knight_pawn_adj; ec_rook_pawn_adj := ev_rook_pawn_adj; ec_king_att := ev_king_att;
     ec_phase_knight := ev_phase_knight; ec_phase_bishop := ev_phase_bishop; ec_phase_rook := ev_phase_rook;
     ec_phase_queen := ev_phase_queen; ec_max_phase := ev_max_phase; ec_endgame_border := ev_endgame_border;
     ec_contempt := ev_contempt; ec_inf := ev_inf; ec_max_plies := ev_max_plies; ec_cache_size := ev_cache_size |}.
Definition mx_fen_bad : string := "rnbqkbnr/ppppppp1/8/8/8/8/PPPPPPPP/RNBQKBNR w KQkq - 0 1".
Definition mx_pbad : position := Eval vm_compute in mx_pos mx_fen_bad.

Theorem eval_mirror_without_side_condition_refuted :
  exists C p, econsts_wf C = true /\ pst_symmetric C = true /\ Inv p /\
              tapered C p = Ok (-32768) /\ tapered C (mirror p) = Ok (-32768) /\
              eval_raw C p = Ok (-1266) /\ eval_raw C (mirror p) = Ok 1464 /\
              eval_raw C (mirror p) <> eval_raw C p.
Proof.
  exists mx_bad_consts, mx_pbad. unfold Inv.
  repeat split; try (vm_compute; reflexivity). vm_compute. discriminate.
Qed.

Print Assumptions eval_mirror_hyps_met.
Print Assumptions eval_mirror_without_side_condition_refuted.
