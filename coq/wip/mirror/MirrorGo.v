(* C15, first half, for the constants of the Go build: the tables are mirror images of each other,
   and the exceptional value of the general theorem cannot occur - every piece-square entry and
   both isolani values are multiples of 5, so the tapered sum S is a multiple of 5; S = -32768
   modulo 2^16 would need |S| >= 5 * 32768 = 163840, but |S| <= 24 * 6285 = 150840.
   Hence  eval_raw (mirror p) = eval_raw p  for every position satisfying the invariant. *)
From Coq Require Import NArith ZArith List Bool Lia ZifyBool ZifyN ZifyNat.
From Clemens Require Import Base.Res Base.Word Pos.Types Att.Attacks Att.ShiftsProofs
  Pos.Position Pos.Inv Att.AttackersProofs Eval.Eval Eval.SeeBits.
From ClemensGen Require Import GoConsts.
From WipMirror Require Import Mirror FlipBits Arith16 EvalView MirrorTerms MirrorEval.
Import ListNotations.
Open Scope Z_scope.
Ltac Zify.zify_post_hook ::= Z.to_euclidean_division_equations.

(* the constants of the current Go build, as in coq/extract/Extract.v *)
Definition go_econsts : econsts :=
  {| ec_piece_value := ev_piece_value; ec_mid_pst := ev_mid_pst; ec_end_pst := ev_end_pst;
     ec_isolani := ev_isolani; ec_passed_scalar := ev_passed_scalar; ec_supported_scalar := ev_supported_scalar;
     ec_rook_pair := ev_rook_pair; ec_knight_pair := ev_knight_pair; ec_bishop_pair := ev_bishop_pair;
     ec_knight_pawn_adj := ev_knight_pawn_adj; ec_rook_pawn_adj := ev_rook_pawn_adj; ec_king_att := ev_king_att;
     ec_phase_knight := ev_phase_knight; ec_phase_bishop := ev_phase_bishop; ec_phase_rook := ev_phase_rook;
     ec_phase_queen := ev_phase_queen; ec_max_phase := ev_max_phase; ec_endgame_border := ev_endgame_border;
     ec_contempt := ev_contempt; ec_inf := ev_inf; ec_max_plies := ev_max_plies; ec_cache_size := ev_cache_size |}.

Lemma go_econsts_wf : econsts_wf go_econsts = true.
Proof. vm_compute. reflexivity. Qed.

(* 768 comparisons: white table at s = black table at s xor 56, midgame and endgame *)
Lemma go_pst_symmetric : pst_symmetric go_econsts = true.
Proof. vm_compute. reflexivity. Qed.

Lemma Ok_inj : forall {A} (a b : A), Ok a = Ok b -> a = b.
Proof. intros A a b H. injection H as H. exact H. Qed.

(* ------------------------------------------------------------------ sums over subsets of the board *)
Lemma sumz_le : forall {A} (f g : A -> Z) l, (forall x, In x l -> f x <= g x) -> sumz f l <= sumz g l.
Proof.
  intros A f g l. induction l as [|x r IH]; intros H; cbn [sumz]; [lia|].
  pose proof (H x (or_introl eq_refl)). assert (sumz f r <= sumz g r) by (apply IH; intros y Hy; apply H; right; exact Hy).
  lia.
Qed.

Lemma sumz_filter_bounds : forall {A} (f : A -> Z) (P : A -> bool) l,
  - sumz (fun s => Z.max (- f s) 0) l <= sumz f (filter P l) <= sumz (fun s => Z.max (f s) 0) l.
Proof.
  intros A f P l. induction l as [|x r IH]; cbn [sumz filter]; [lia|].
  destruct (P x); cbn [sumz]; lia.
Qed.

Definition sq_hi (f : N -> Z) : Z := sumz (fun s => Z.max (f s) 0) squares64.
Definition sq_lo (f : N -> Z) : Z := sumz (fun s => Z.max (- f s) 0) squares64.

Lemma sumz_bits_bounds : forall f b, (b < two64)%N -> - sq_lo f <= sumz f (bits b) <= sq_hi f.
Proof. intros f b Hb. rewrite (bits_filter_squares b Hb). apply sumz_filter_bounds. Qed.

Lemma filter_length : forall {A} (P : A -> bool) l, (length (filter P l) <= length l)%nat.
Proof. intros A P l. induction l as [|x r IH]; cbn [filter length]; [lia|]. destruct (P x); cbn [length]; lia. Qed.

Lemma pc_range : forall x, (x < two64)%N -> 0 <= pc x <= 64.
Proof.
  intros x Hx. unfold pc. rewrite popcount_length, (bits_filter_squares x Hx).
  pose proof (filter_length (N.testbit x) squares64) as H. change (length squares64) with 64%nat in H. lia.
Qed.

Lemma sumz_mod5 : forall {A} (f : A -> Z) l, (forall x, In x l -> f x mod 5 = 0) -> sumz f l mod 5 = 0.
Proof.
  intros A f l. induction l as [|x r IH]; intros H; cbn [sumz]; [reflexivity|].
  pose proof (H x (or_introl eq_refl)). assert (sumz f r mod 5 = 0) by (apply IH; intros y Hy; apply H; right; exact Hy).
  lia.
Qed.

(* ------------------------------------------------------------------ piece-square sums: size and divisibility *)
Definition pst_up (tbl : list (list (list Z))) : Z :=
  sumz (fun t => sq_hi (pstv tbl 0 t) + sq_lo (pstv tbl 1 t)) types6.
Definition pst_dn (tbl : list (list (list Z))) : Z :=
  sumz (fun t => sq_lo (pstv tbl 0 t) + sq_hi (pstv tbl 1 t)) types6.
Definition tbl_div5 (tbl : list (list (list Z))) : bool :=
  forallb (fun c => forallb (fun t => forallb (fun s => pstv tbl c t s mod 5 =? 0) squares64) types6) [0; 1]%N.

Section Bounds.
Variable V : view.
Hypothesis Hwf : view_wf V.

Lemma pst_sum_bounds : forall tbl, - pst_dn tbl <= pst_sum V tbl <= pst_up tbl.
Proof.
  intros tbl. unfold pst_sum, pst_up, pst_dn. rewrite <- sumz_opp. split; apply sumz_le; intros t Hin;
    pose proof (types6_lt t Hin) as Ht;
    pose proof (sumz_bits_bounds (pstv tbl 0 t) _ (proj1 Hwf 0%N t eq_refl Ht));
    pose proof (sumz_bits_bounds (pstv tbl 1 t) _ (proj1 Hwf 1%N t eq_refl Ht)); lia.
Qed.

Lemma pst_sum_div5 : forall tbl, tbl_div5 tbl = true -> pst_sum V tbl mod 5 = 0.
Proof.
  intros tbl Hd. unfold tbl_div5 in Hd. rewrite forallb_forall in Hd.
  assert (Hent : forall c t s, (c < 2)%N -> In t types6 -> (s < 64)%N -> pstv tbl c t s mod 5 = 0).
  { intros c t s Hc Ht Hs. assert (Hin : In c [0; 1]%N) by (cbn [In]; lia).
    specialize (Hd c Hin). rewrite forallb_forall in Hd. specialize (Hd t Ht).
    rewrite squares64_eq in Hd. apply Z.eqb_eq. exact (forall_squares _ Hd s Hs). }
  unfold pst_sum. apply sumz_mod5. intros t Hin. pose proof (types6_lt t Hin) as Ht.
  assert (H0 : sumz (pstv tbl 0 t) (bits (v_bb V 0 t)) mod 5 = 0).
  { apply sumz_mod5. intros s Hs. apply Hent; [reflexivity | exact Hin|].
    apply (bits_lt _ s (proj1 Hwf 0%N t eq_refl Ht) Hs). }
  assert (H1 : sumz (pstv tbl 1 t) (bits (v_bb V 1 t)) mod 5 = 0).
  { apply sumz_mod5. intros s Hs. apply Hent; [reflexivity | exact Hin|].
    apply (bits_lt _ s (proj1 Hwf 1%N t eq_refl Ht) Hs). }
  lia.
Qed.

Lemma iso_diff_range : -64 <= iso_diff V <= 64.
Proof.
  unfold iso_diff.
  assert (H : forall b, (b < two64)%N -> (isolanis b < two64)%N).
  { intros b Hb. unfold isolanis. cbv zeta. apply land_lt_l, land_lt_l, Hb. }
  pose proof (pc_range _ (H _ (proj1 Hwf 0%N 0%N eq_refl eq_refl))).
  pose proof (pc_range _ (H _ (proj1 Hwf 1%N 0%N eq_refl eq_refl))). lia.
Qed.

Lemma go_phase_range : 0 <= phase_v go_econsts V <= 24.
Proof.
  unfold phase_v, phase_sum, phase_side. cbv zeta.
  change (ec_phase_bishop go_econsts) with 1. change (ec_phase_knight go_econsts) with 1.
  change (ec_phase_rook go_econsts) with 2. change (ec_phase_queen go_econsts) with 4.
  change (ec_max_phase go_econsts) with 24.
  pose proof (pc_range _ (proj1 Hwf 0%N 1%N eq_refl eq_refl)). pose proof (pc_range _ (proj1 Hwf 0%N 2%N eq_refl eq_refl)).
  pose proof (pc_range _ (proj1 Hwf 0%N 3%N eq_refl eq_refl)). pose proof (pc_range _ (proj1 Hwf 0%N 4%N eq_refl eq_refl)).
  pose proof (pc_range _ (proj1 Hwf 1%N 1%N eq_refl eq_refl)). pose proof (pc_range _ (proj1 Hwf 1%N 2%N eq_refl eq_refl)).
  pose proof (pc_range _ (proj1 Hwf 1%N 3%N eq_refl eq_refl)). pose proof (pc_range _ (proj1 Hwf 1%N 4%N eq_refl eq_refl)).
  match goal with |- context [wrap16 ?s] => set (S := s); assert (Hs : 0 <= S <= 1024) by (unfold S; lia) end.
  assert (Hw : wrap16 S = S) by (apply in16_range; lia). rewrite Hw.
  destruct (Z.ltb_spec 24 S); lia.
Qed.

Lemma go_mid_up : pst_up (ec_mid_pst go_econsts) = 5005. Proof. vm_compute. reflexivity. Qed.
Lemma go_mid_dn : pst_dn (ec_mid_pst go_econsts) = 5005. Proof. vm_compute. reflexivity. Qed.
Lemma go_end_up : pst_up (ec_end_pst go_econsts) = 4745. Proof. vm_compute. reflexivity. Qed.
Lemma go_end_dn : pst_dn (ec_end_pst go_econsts) = 4745. Proof. vm_compute. reflexivity. Qed.
Lemma go_mid_div5 : tbl_div5 (ec_mid_pst go_econsts) = true. Proof. vm_compute. reflexivity. Qed.
Lemma go_end_div5 : tbl_div5 (ec_end_pst go_econsts) = true. Proof. vm_compute. reflexivity. Qed.

(* the tapered sum of the Go build never has the int16 image -32768 *)
Lemma go_tapered_v : tapered_v go_econsts V <> Ok (-32768).
Proof.
  unfold tapered_v, parts_z. destruct (padj_v go_econsts V) as [a | |]; cbn [bind]; [|discriminate|discriminate].
  intros H. apply Ok_inj in H. unfold taper_z in H.
  change (ec_max_phase go_econsts) with 24 in H.
  change (nth 0 (ec_isolani go_econsts) 0) with (-20) in H.
  change (nth 1 (ec_isolani go_econsts) 0) with (-5) in H.
  pose proof (pst_sum_bounds (ec_mid_pst go_econsts)) as Bm. rewrite go_mid_up, go_mid_dn in Bm.
  pose proof (pst_sum_bounds (ec_end_pst go_econsts)) as Be. rewrite go_end_up, go_end_dn in Be.
  pose proof (pst_sum_div5 _ go_mid_div5) as Dm. pose proof (pst_sum_div5 _ go_end_div5) as De.
  pose proof iso_diff_range as Bi. pose proof go_phase_range as Bg.
  set (g := phase_v go_econsts V) in *. set (pm := pst_sum V (ec_mid_pst go_econsts)) in *.
  set (pe := pst_sum V (ec_end_pst go_econsts)) in *. set (d := iso_diff V) in *.
  assert (Hm : exists m', pm + -20 * d = 5 * m' /\ -1257 <= m' <= 1257) by (exists ((pm + -20 * d) / 5); lia).
  assert (He : exists e', pe + -5 * d = 5 * e' /\ -1013 <= e' <= 1013) by (exists ((pe + -5 * d) / 5); lia).
  destruct Hm as [m' [Hm Bm']]. destruct He as [e' [He Be']]. rewrite Hm, He in H.
  assert (Hs : exists s, 5 * m' * g + 5 * e' * (24 - g) = 5 * s /\ -30168 <= s <= 30168).
  { exists (m' * g + e' * (24 - g)). split; [ring|]. nia. }
  destruct Hs as [s [Hs Bs]]. rewrite Hs in H. unfold wrap16 in H. lia.
Qed.
End Bounds.

(* ------------------------------------------------------------------ the theorems for the Go build *)
Theorem go_no_min16 : forall p, shape_ok p = true -> no_min16 go_econsts p.
Proof.
  intros p Hs. unfold no_min16. rewrite (tapered_view go_econsts go_econsts_wf p Hs).
  apply go_tapered_v, view_of_wf, Hs.
Qed.

(* weakest premises: only the shape of the sets the evaluation reads *)
Theorem eval_mirror_go_shape : forall p, shape_ok p = true ->
  eval_raw go_econsts (mirror p) = eval_raw go_econsts p.
Proof.
  intros p Hs. apply (eval_mirror_shape go_econsts go_econsts_wf go_pst_symmetric p Hs), go_no_min16, Hs.
Qed.

Theorem eval_mirror : forall p, Inv p -> eval_raw go_econsts (mirror p) = eval_raw go_econsts p.
Proof. intros p HI. apply eval_mirror_go_shape, Inv_shape, HI. Qed.

(* any constants with mirror-image tables, with the explicit side condition *)
Theorem eval_mirror_any_consts : forall C p,
  econsts_wf C = true -> pst_symmetric C = true -> Inv p -> no_min16 C p ->
  eval_raw C (mirror p) = eval_raw C p.
Proof. intros C p HC Hsym HI Hmin. apply eval_mirror_shape; try assumption. apply Inv_shape, HI. Qed.

Print Assumptions eval_mirror.
Print Assumptions eval_mirror_any_consts.
