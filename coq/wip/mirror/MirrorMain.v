(* C15, first half - the static evaluation is colour-symmetric: the main results, each closed by
   [exact] of a lemma proved in the files before, with its assumptions printed.
   "Evaluating a position and evaluating its mirror image (board flipped top to bottom, colours and
   side to move swapped) give the same score from the mover's point of view."
   [mirror], [flip_sq], [flip_bb], [shape_ok], [econsts_wf], [pst_symmetric], [no_min16] are defined in
   Mirror.v (executable); [go_econsts] are the constants of the Go build (MirrorGo.v). *)
From Coq Require Import NArith ZArith List Bool.
From Clemens Require Import Base.Res Base.Word Pos.Types Att.Attacks Pos.Position Pos.Inv Eval.Eval.
From WipMirror Require Import Mirror MirrorEval MirrorGo MirrorExamples MirrorInv.
Open Scope Z_scope.

(* the Go build: no side condition *)
Theorem C15_eval_mirror : forall p, Inv p -> eval_raw go_econsts (mirror p) = eval_raw go_econsts p.
Proof. exact eval_mirror. Qed.
Print Assumptions C15_eval_mirror.

(* the same from the weakest premise: twelve 64-bit piece sets, two 64-bit colour sets, a 64-bit occupancy
   and one king per colour; the square array, the rights, the clocks and the hash do not matter *)
Theorem C15_eval_mirror_shape : forall p, shape_ok p = true ->
  eval_raw go_econsts (mirror p) = eval_raw go_econsts p.
Proof. exact eval_mirror_go_shape. Qed.
Print Assumptions C15_eval_mirror_shape.

(* the tables of the Go build are mirror images of each other (768 comparisons) and have the array shapes *)
Theorem C15_go_tables_symmetric : pst_symmetric go_econsts = true /\ econsts_wf go_econsts = true.
Proof. exact (conj go_pst_symmetric go_econsts_wf). Qed.
Print Assumptions C15_go_tables_symmetric.

(* any constants with mirror-image piece-square tables: the score is symmetric unless the tapered int16 sum
   mid*phase + end*(max-phase) is exactly -32768 *)
Theorem C15_eval_mirror_any_consts : forall C p,
  econsts_wf C = true -> pst_symmetric C = true -> Inv p -> no_min16 C p ->
  eval_raw C (mirror p) = eval_raw C p.
Proof. exact eval_mirror_any_consts. Qed.
Print Assumptions C15_eval_mirror_any_consts.

(* ... and that exception is real (for other constants than those of the Go build) *)
Theorem C15_side_condition_needed :
  exists C p, econsts_wf C = true /\ pst_symmetric C = true /\ Inv p /\
              tapered C p = Ok (-32768) /\ tapered C (mirror p) = Ok (-32768) /\
              eval_raw C p = Ok (-1266) /\ eval_raw C (mirror p) = Ok 1464 /\
              eval_raw C (mirror p) <> eval_raw C p.
Proof. exact eval_mirror_without_side_condition_refuted. Qed.
Print Assumptions C15_side_condition_needed.

(* for the Go build it cannot occur, and in general it holds of both images or of neither *)
Theorem C15_go_no_min16 : forall p, shape_ok p = true -> no_min16 go_econsts p.
Proof. exact go_no_min16. Qed.
Print Assumptions C15_go_no_min16.

Theorem C15_no_min16_mirror : forall C p,
  econsts_wf C = true -> pst_symmetric C = true -> shape_ok p = true ->
  (no_min16 C (mirror p) <-> no_min16 C p).
Proof. intros C p HC Hsym. exact (no_min16_mirror C HC Hsym p). Qed.
Print Assumptions C15_no_min16_mirror.

(* term by term: the three accumulators are negated (int16 negation), phase, draw test and contempt stay *)
Theorem C15_eval_parts_mirror : forall C p,
  econsts_wf C = true -> pst_symmetric C = true -> shape_ok p = true ->
  eval_parts C (mirror p) = neg16_parts (eval_parts C p).
Proof. intros C p HC Hsym. exact (eval_parts_mirror C HC Hsym p). Qed.
Print Assumptions C15_eval_parts_mirror.

Theorem C15_phase_draw_contempt_mirror : forall C p,
  econsts_wf C = true -> shape_ok p = true ->
  game_phase C (mirror p) = game_phase C p /\ is_draw (mirror p) = is_draw p /\
  contempt C (mirror p) = contempt C p.
Proof. intros C p HC. exact (phase_draw_contempt_mirror C HC p). Qed.
Print Assumptions C15_phase_draw_contempt_mirror.

(* the hypothesis is closed under mirroring, and mirroring is an involution on it *)
Theorem C15_Inv_mirror : forall p, Inv p -> Inv (mirror p).
Proof. exact Inv_mirror. Qed.
Print Assumptions C15_Inv_mirror.

Theorem C15_mirror_involutive : forall p, Inv p -> mirror (mirror p) = p.
Proof. exact mirror_involutive. Qed.
Print Assumptions C15_mirror_involutive.

Theorem C15_Inv_shape : forall p, Inv p -> shape_ok p = true.
Proof. exact Inv_shape. Qed.
Print Assumptions C15_Inv_shape.
