(* C15 (mirror): the attack sets, the pawn pushes and the pawn-structure sets commute with the
   vertical flip (north and south, and with them the pawn colours, exchanged). *)
From Coq Require Import NArith ZArith List Bool Lia ZifyBool ZifyN ZifyNat.
From Clemens Require Import Base.Res Base.Word Pos.Types Att.Attacks Att.ShiftsProofs Att.SlidingProofs
  Att.AttackersProofs.
From WipMirror Require Import Mirror FlipBits.
Import ListNotations.
Open Scope N_scope.

(* ------------------------------------------------------------------ the ray walker *)
Lemma walk_acc : forall n dir b occ acc, walk n dir b occ acc = N.lor acc (walk n dir b occ 0).
Proof.
  induction n as [|n IH]; intros dir b occ acc; cbn [walk].
  - rewrite N.lor_0_r. reflexivity.
  - destruct ((dir b =? 0) || negb (N.land b occ =? 0)).
    + rewrite N.lor_0_r. reflexivity.
    + rewrite (IH dir (dir b) occ (N.lor acc (dir b))), (IH dir (dir b) occ (N.lor 0 (dir b))).
      rewrite N.lor_0_l, N.lor_assoc. reflexivity.
Qed.

Lemma flip_walk : forall dir dir',
  (forall x, x < two64 -> dir x < two64) ->
  (forall x, x < two64 -> flip_bb (dir x) = dir' (flip_bb x)) ->
  forall n b occ acc, b < two64 ->
  flip_bb (walk n dir b occ acc) = walk n dir' (flip_bb b) (flip_bb occ) (flip_bb acc).
Proof.
  intros dir dir' Hlt Hflip. induction n as [|n IH]; intros b occ acc Hb; cbn [walk]; [reflexivity|].
  rewrite <- (Hflip b Hb), <- flip_land.
  rewrite (flip_bb_eq0 (dir b) (Hlt b Hb)), (flip_bb_eq0 (N.land b occ) (land_lt_l b occ Hb)).
  destruct ((dir b =? 0) || negb (N.land b occ =? 0)); [reflexivity|].
  rewrite (IH (dir b) occ (N.lor acc (dir b)) (Hlt b Hb)), flip_lor. reflexivity.
Qed.

Definition W8 (dir : N -> N) (sq occ : N) : N := walk 8 dir (bit sq) occ 0.

Lemma sliding4 : forall sq occ d1 d2 d3 d4,
  sliding_attacks sq [d1; d2; d3; d4] occ =
  N.lor (N.lor (N.lor (W8 d1 sq occ) (W8 d2 sq occ)) (W8 d3 sq occ)) (W8 d4 sq occ).
Proof.
  intros sq occ d1 d2 d3 d4. unfold sliding_attacks, W8. cbn [fold_left].
  rewrite (walk_acc 8 d4), (walk_acc 8 d3), (walk_acc 8 d2). reflexivity.
Qed.

Lemma flip_W8 : forall dir dir' sq occ, sq < 64 ->
  (forall x, x < two64 -> dir x < two64) ->
  (forall x, x < two64 -> flip_bb (dir x) = dir' (flip_bb x)) ->
  flip_bb (W8 dir sq occ) = W8 dir' (flip_sq sq) (flip_bb occ).
Proof.
  intros dir dir' sq occ Hsq Hlt Hflip. unfold W8.
  rewrite (flip_walk dir dir' Hlt Hflip 8 (bit sq) occ 0 (bit_lt sq)), (flip_bit sq Hsq). reflexivity.
Qed.

Lemma flip_W8_north : forall sq occ, sq < 64 -> flip_bb (W8 north_one sq occ) = W8 south_one (flip_sq sq) (flip_bb occ).
Proof. intros. apply flip_W8; [assumption | intros; apply north_one_lt | intros; apply flip_north_one]. Qed.
Lemma flip_W8_south : forall sq occ, sq < 64 -> flip_bb (W8 south_one sq occ) = W8 north_one (flip_sq sq) (flip_bb occ).
Proof. intros. apply flip_W8; [assumption | intros; apply south_one_lt; assumption | intros; apply flip_south_one; assumption]. Qed.
Lemma flip_W8_east : forall sq occ, sq < 64 -> flip_bb (W8 east_one sq occ) = W8 east_one (flip_sq sq) (flip_bb occ).
Proof. intros. apply flip_W8; [assumption | intros; apply east_one_lt | intros; apply flip_east_one]. Qed.
Lemma flip_W8_west : forall sq occ, sq < 64 -> flip_bb (W8 west_one sq occ) = W8 west_one (flip_sq sq) (flip_bb occ).
Proof. intros. apply flip_W8; [assumption | intros; apply west_one_lt | intros; apply flip_west_one]. Qed.
Lemma flip_W8_ne : forall sq occ, sq < 64 -> flip_bb (W8 north_east_one sq occ) = W8 south_east_one (flip_sq sq) (flip_bb occ).
Proof. intros. apply flip_W8; [assumption | intros; apply north_east_one_lt | intros; apply flip_north_east_one]. Qed.
Lemma flip_W8_nw : forall sq occ, sq < 64 -> flip_bb (W8 north_west_one sq occ) = W8 south_west_one (flip_sq sq) (flip_bb occ).
Proof. intros. apply flip_W8; [assumption | intros; apply north_west_one_lt | intros; apply flip_north_west_one]. Qed.
Lemma flip_W8_se : forall sq occ, sq < 64 -> flip_bb (W8 south_east_one sq occ) = W8 north_east_one (flip_sq sq) (flip_bb occ).
Proof. intros. apply flip_W8; [assumption | intros; apply south_east_one_lt | intros; apply flip_south_east_one; assumption]. Qed.
Lemma flip_W8_sw : forall sq occ, sq < 64 -> flip_bb (W8 south_west_one sq occ) = W8 north_west_one (flip_sq sq) (flip_bb occ).
Proof. intros. apply flip_W8; [assumption | intros; apply south_west_one_lt | intros; apply flip_south_west_one; assumption]. Qed.

Lemma flip_rook_walk : forall sq occ, sq < 64 ->
  flip_bb (rook_walk sq occ) = rook_walk (flip_sq sq) (flip_bb occ).
Proof.
  intros sq occ Hsq. unfold rook_walk, rook_dirs. rewrite !sliding4, !flip_lor.
  rewrite flip_W8_north, flip_W8_south, flip_W8_east, flip_W8_west by exact Hsq.
  f_equal. f_equal. apply N.lor_comm.
Qed.

Lemma flip_bishop_walk : forall sq occ, sq < 64 ->
  flip_bb (bishop_walk sq occ) = bishop_walk (flip_sq sq) (flip_bb occ).
Proof.
  intros sq occ Hsq. unfold bishop_walk, bishop_dirs. rewrite !sliding4, !flip_lor.
  rewrite flip_W8_ne, flip_W8_nw, flip_W8_se, flip_W8_sw by exact Hsq.
  set (a := W8 south_east_one _ _). set (b := W8 south_west_one _ _).
  set (c := W8 north_east_one _ _). set (d := W8 north_west_one _ _).
  apply N.bits_inj. intros i. rewrite !N.lor_spec.
  destruct (N.testbit a i), (N.testbit b i), (N.testbit c i), (N.testbit d i); reflexivity.
Qed.

(* ------------------------------------------------------------------ finite facts, per square *)
Definition sq_equivariant (f g : N -> N) : bool :=
  forallb (fun s => flip_bb (f s) =? g (flip_sq s)) squares.
Lemma sq_equivariant_spec : forall f g, sq_equivariant f g = true ->
  forall s, s < 64 -> flip_bb (f s) = g (flip_sq s).
Proof.
  intros f g H s Hs. apply N.eqb_eq. exact (forall_squares _ H s Hs).
Qed.

Lemma rook_mask_eqv : sq_equivariant rook_mask rook_mask = true. Proof. vm_compute. reflexivity. Qed.
Lemma bishop_mask_eqv : sq_equivariant bishop_mask bishop_mask = true. Proof. vm_compute. reflexivity. Qed.
Lemma knight_eqv : sq_equivariant knight_attacks knight_attacks = true. Proof. vm_compute. reflexivity. Qed.
Lemma king_eqv : sq_equivariant king_attacks king_attacks = true. Proof. vm_compute. reflexivity. Qed.
Lemma pawn_wb_eqv : sq_equivariant (pawn_attacks WHITE) (pawn_attacks BLACK) = true. Proof. vm_compute. reflexivity. Qed.
Lemma pawn_bw_eqv : sq_equivariant (pawn_attacks BLACK) (pawn_attacks WHITE) = true. Proof. vm_compute. reflexivity. Qed.

Lemma flip_rook_attacks : forall sq occ, sq < 64 ->
  flip_bb (rook_attacks sq occ) = rook_attacks (flip_sq sq) (flip_bb occ).
Proof.
  intros sq occ Hsq. unfold rook_attacks.
  rewrite (flip_rook_walk sq _ Hsq), flip_land, (sq_equivariant_spec _ _ rook_mask_eqv sq Hsq). reflexivity.
Qed.

Lemma flip_bishop_attacks : forall sq occ, sq < 64 ->
  flip_bb (bishop_attacks sq occ) = bishop_attacks (flip_sq sq) (flip_bb occ).
Proof.
  intros sq occ Hsq. unfold bishop_attacks.
  rewrite (flip_bishop_walk sq _ Hsq), flip_land, (sq_equivariant_spec _ _ bishop_mask_eqv sq Hsq). reflexivity.
Qed.

Lemma flip_queen_attacks : forall sq occ, sq < 64 ->
  flip_bb (queen_attacks sq occ) = queen_attacks (flip_sq sq) (flip_bb occ).
Proof.
  intros sq occ Hsq. unfold queen_attacks.
  rewrite flip_lor, flip_rook_attacks, flip_bishop_attacks by exact Hsq. reflexivity.
Qed.

Lemma flip_knight_attacks : forall sq, sq < 64 -> flip_bb (knight_attacks sq) = knight_attacks (flip_sq sq).
Proof. exact (sq_equivariant_spec _ _ knight_eqv). Qed.
Lemma flip_king_attacks : forall sq, sq < 64 -> flip_bb (king_attacks sq) = king_attacks (flip_sq sq).
Proof. exact (sq_equivariant_spec _ _ king_eqv). Qed.
Lemma flip_pawn_attacks_w : forall sq, sq < 64 -> flip_bb (pawn_attacks WHITE sq) = pawn_attacks BLACK (flip_sq sq).
Proof. exact (sq_equivariant_spec _ _ pawn_wb_eqv). Qed.
Lemma flip_pawn_attacks_b : forall sq, sq < 64 -> flip_bb (pawn_attacks BLACK sq) = pawn_attacks WHITE (flip_sq sq).
Proof. exact (sq_equivariant_spec _ _ pawn_bw_eqv). Qed.

(* ------------------------------------------------------------------ set-wise pawn functions *)
Lemma flip_pawn_set_w : forall b, flip_bb (pawn_set WHITE b) = pawn_set BLACK (flip_bb b).
Proof.
  intros b. unfold pawn_set. cbn [N.eqb WHITE BLACK].
  rewrite flip_lor, flip_north_east_one, flip_north_west_one. reflexivity.
Qed.
Lemma flip_pawn_set_b : forall b, b < two64 -> flip_bb (pawn_set BLACK b) = pawn_set WHITE (flip_bb b).
Proof.
  intros b Hb. unfold pawn_set. cbn [N.eqb WHITE BLACK].
  rewrite flip_lor, flip_south_east_one, flip_south_west_one by exact Hb. reflexivity.
Qed.

Lemma flip_supported_w : forall b, flip_bb (supported WHITE b) = supported BLACK (flip_bb b).
Proof. intros b. unfold supported. rewrite flip_land, flip_pawn_set_w. reflexivity. Qed.
Lemma flip_supported_b : forall b, b < two64 -> flip_bb (supported BLACK b) = supported WHITE (flip_bb b).
Proof. intros b Hb. unfold supported. rewrite flip_land, flip_pawn_set_b by exact Hb. reflexivity. Qed.

Lemma flip_pawn_pushes_w : forall b occ,
  flip_bb (pawn_pushes WHITE b occ) = pawn_pushes BLACK (flip_bb b) (flip_bb occ).
Proof.
  intros b occ. unfold pawn_pushes, double_push, single_push. cbn [N.eqb WHITE BLACK]. cbv zeta.
  rewrite !flip_lor, !flip_land, !flip_north_one, !flip_land, !flip_north_one, !flip_not64, flip_RankMask4.
  reflexivity.
Qed.
Lemma flip_pawn_pushes_b : forall b occ, b < two64 ->
  flip_bb (pawn_pushes BLACK b occ) = pawn_pushes WHITE (flip_bb b) (flip_bb occ).
Proof.
  intros b occ Hb. unfold pawn_pushes, double_push, single_push. cbn [N.eqb WHITE BLACK]. cbv zeta.
  assert (H1 : N.land (south_one b) (not64 occ) < two64) by (apply land_lt_l, south_one_lt, Hb).
  rewrite !flip_lor, !flip_land, (flip_south_one _ H1), !flip_land, (flip_south_one b Hb), !flip_not64,
    flip_RankMask5.
  reflexivity.
Qed.

Lemma flip_isolanis : forall b, b < two64 -> flip_bb (isolanis b) = isolanis (flip_bb b).
Proof.
  intros b Hb. unfold isolanis. cbv zeta.
  rewrite !flip_land, !flip_not64, flip_west_one, flip_east_one, flip_file_fill by exact Hb. reflexivity.
Qed.

Lemma flip_passed_w : forall wp bp, wp < two64 -> bp < two64 ->
  flip_bb (passed WHITE wp bp) = passed BLACK (flip_bb bp) (flip_bb wp).
Proof.
  intros wp bp Hw Hb. unfold passed. cbn [N.eqb WHITE BLACK]. cbv zeta.
  rewrite flip_land, flip_not64, !flip_lor, flip_east_one, flip_west_one.
  rewrite (flip_south_one _ (south_fill_lt wp Hw)), !flip_south_fill by assumption. reflexivity.
Qed.
Lemma flip_passed_b : forall wp bp, wp < two64 -> bp < two64 ->
  flip_bb (passed BLACK wp bp) = passed WHITE (flip_bb bp) (flip_bb wp).
Proof.
  intros wp bp Hw Hb. unfold passed. cbn [N.eqb WHITE BLACK]. cbv zeta.
  rewrite flip_land, flip_not64, !flip_lor, flip_east_one, flip_west_one.
  rewrite flip_north_one, !flip_north_fill. reflexivity.
Qed.
