(* C15 (mirror): the static evaluation as a function of a "view" - the twelve piece sets, the two
   colour sets and the occupancy - with the int16 wrap pulled to the outside: every accumulator
   is the int16 image of a plain integer sum. Proved once for an arbitrary position [q] whose reads
   deliver the view; used for a position and for its mirror image. *)
From Coq Require Import NArith ZArith List Bool Lia ZifyBool ZifyN ZifyNat.
From Clemens Require Import Base.Res Base.Word Pos.Types Att.Attacks Att.ShiftsProofs Pos.Position Pos.Inv
  Att.AttackersProofs Eval.Eval.
From WipMirror Require Import Mirror FlipBits Arith16.
Import ListNotations.
Open Scope Z_scope.

Ltac wn := unfold WHITE, BLACK, PAWN, KNIGHT, BISHOP, ROOK, QUEEN, KING; w16.

Record view := { v_bb : N -> N -> N; v_own : N -> N; v_occ : N }.

Definition view_of (p : position) : view :=
  {| v_bb := bb_at p; v_own := fun c => nth (N.to_nat c) (by_color p) 0%N; v_occ := all_pieces p |}.
Definition flip_view (V : view) : view :=
  {| v_bb := fun c t => flip_bb (v_bb V (1 - c)%N t);
     v_own := fun c => flip_bb (v_own V (1 - c)%N);
     v_occ := flip_bb (v_occ V) |}.

Definition view_ok (q : position) (V : view) : Prop :=
  (forall c t, (c < 2)%N -> (t < 6)%N -> get_bb q c t = Ok (v_bb V c t)) /\
  (forall c, (c < 2)%N -> color_bb q c = Ok (v_own V c)) /\
  all_pieces q = v_occ V.
Definition view_wf (V : view) : Prop :=
  (forall c t, (c < 2)%N -> (t < 6)%N -> (v_bb V c t < two64)%N) /\
  (forall c, (c < 2)%N -> (v_own V c < two64)%N) /\
  (v_occ V < two64)%N /\
  (forall c, (c < 2)%N -> exists k, (k < 64)%N /\ v_bb V c 5%N = bit k).

Definition types6 : list N := [0; 1; 2; 3; 4; 5]%N.
Lemma types6_eq : [PAWN; KNIGHT; BISHOP; ROOK; QUEEN; KING] = types6. Proof. reflexivity. Qed.
Lemma types6_lt : forall t, In t types6 -> (t < 6)%N.
Proof. intros t H. unfold types6 in H. cbn [In] in H. lia. Qed.

(* ------------------------------------------------------------------ the integer sums *)
Section Sums.
Variable C : econsts.
Variable V : view.
Let P (c t : N) : Z := pc (v_bb V c t).

Definition phase_side (c : N) : Z :=
  ec_phase_bishop C * P c 2 + ec_phase_knight C * P c 1 + ec_phase_rook C * P c 3 + ec_phase_queen C * P c 4.
Definition phase_sum : Z := phase_side 0 + phase_side 1.
Definition phase_v : Z :=
  let g := wrap16 phase_sum in if ec_max_phase C <? g then ec_max_phase C else g.
Definition contempt_v : Z := if phase_v <? ec_endgame_border C then 0 else ec_contempt C.

Definition draw_v (h : N) : bool :=
  if (100 <=? h)%N then true else
  if (popcount (v_occ V) =? 2)%N then true else
  if (0 <? popcount (N.lor (N.lor (N.lor (v_bb V 0 0) (v_bb V 1 0)) (N.lor (v_bb V 0 3) (v_bb V 1 3)))
                           (N.lor (v_bb V 0 4) (v_bb V 1 4))))%N then false else
  let nw := popcount (v_own V 0) in let nb := popcount (v_own V 1) in
  if ((nw =? 2) && (nb =? 2))%N then true else
  if ((2 <? nw) && (2 <? nb))%N then false else
  if ((3 <? nw) || (3 <? nb))%N then false else
  if (popcount (v_bb V 0 2) =? 2)%N then (popcount (v_bb V 1 2) =? 1)%N
  else if (popcount (v_bb V 1 2) =? 2)%N then (popcount (v_bb V 0 2) =? 1)%N
  else true.

Definition pst_sum (tbl : list (list (list Z))) : Z :=
  sumz (fun t => sumz (pstv tbl 0 t) (bits (v_bb V 0 t)) - sumz (pstv tbl 1 t) (bits (v_bb V 1 t))) types6.

Definition iso_diff : Z := pc (isolanis (v_bb V 0 0)) - pc (isolanis (v_bb V 1 0)).

Definition pairs_sum : Z :=
  ind (1 <? popcount (v_bb V 0 2))%N (ec_bishop_pair C) - ind (1 <? popcount (v_bb V 1 2))%N (ec_bishop_pair C)
  + ind (1 <? popcount (v_bb V 0 1))%N (ec_knight_pair C) - ind (1 <? popcount (v_bb V 1 1))%N (ec_knight_pair C)
  + ind (1 <? popcount (v_bb V 0 3))%N (ec_rook_pair C) - ind (1 <? popcount (v_bb V 1 3))%N (ec_rook_pair C).

Definition material_sum : Z :=
  sumz (fun t => nth (N.to_nat t) (ec_piece_value C) 0 * (P 0 t - P 1 t)) types6.

Definition adjz (l : list Z) (b : N) : Z := nth (N.to_nat (popcount b)) l 0.
Definition padj_v : res Z :=
  if ((popcount (v_bb V 0 0) <=? 8) && (popcount (v_bb V 1 0) <=? 8))%N then
    Ok (adjz (ec_knight_pawn_adj C) (v_bb V 0 0) * P 0 1 - adjz (ec_knight_pawn_adj C) (v_bb V 1 0) * P 1 1
        + adjz (ec_rook_pawn_adj C) (v_bb V 0 0) * P 0 3 - adjz (ec_rook_pawn_adj C) (v_bb V 1 0) * P 1 3)
  else Panic.

Definition ksq_of (b : N) : N := match lsb b with Ok k => k | _ => 0%N end.
Definition mob_of (occ we t sq : N) : N :=
  if (t =? PAWN)%N then pawn_attacks we sq
  else if (t =? BISHOP)%N then bishop_attacks sq occ
  else if (t =? KNIGHT)%N then knight_attacks sq
  else if (t =? ROOK)%N then rook_attacks sq occ
  else if (t =? QUEEN)%N then queen_attacks sq occ
  else king_attacks sq.
Definition mob_term (we ks dest t sq : N) : Z :=
  let mob := N.land (mob_of (v_occ V) we t sq) dest in
  pc mob + nth (N.to_nat t) (ec_king_att C) 0 * pc (N.land mob ks).
Definition mob_sum (we : N) : Z :=
  let dest := not64 (v_own V we) in
  let ks := king_attacks (ksq_of (v_bb V (switch_color we) 5)) in
  pc (N.land (pawn_pushes we (v_bb V we 0) (v_occ V)) dest)
  + sumz (fun t => sumz (mob_term we ks dest t) (bits (v_bb V we t))) types6.
End Sums.

Definition rank_term (r : N) (w b : N) : Z :=
  Z.of_N r * pc (N.land w (rank_mask r)) - (7 - Z.of_N r) * pc (N.land b (rank_mask r)).
Definition rank_sum (w b : N) : Z :=
  rank_term 1 w b + rank_term 2 w b + rank_term 3 w b + rank_term 4 w b + rank_term 5 w b + rank_term 6 w b.

Definition structure_sum (C : econsts) (V : view) : Z :=
  ec_supported_scalar C * rank_sum (supported WHITE (v_bb V 0 0)) (supported BLACK (v_bb V 1 0))
  + ec_passed_scalar C * rank_sum (passed WHITE (v_bb V 0 0) (v_bb V 1 0)) (passed BLACK (v_bb V 0 0) (v_bb V 1 0)).

(* the three accumulators as integers (mid, end, base); the only failure left is the table index
   of the pawn adjustment (more than eight pawns of a colour) *)
Definition parts_z (C : econsts) (V : view) : res (Z * Z * Z) :=
  a <- padj_v C V ;;
  Ok (pst_sum V (ec_mid_pst C) + nth 0 (ec_isolani C) 0 * iso_diff V,
      pst_sum V (ec_end_pst C) + nth 1 (ec_isolani C) 0 * iso_diff V,
      structure_sum C V + pairs_sum C V + material_sum C V + a + (mob_sum C V 0 - mob_sum C V 1)).

Definition taper_z (C : econsts) (V : view) (m e : Z) : Z :=
  m * phase_v C V + e * (ec_max_phase C - phase_v C V).
Definition score_v (C : econsts) (V : view) (sd : N) (m e b : Z) : Z :=
  let s := wrap16 (Z.quot (wrap16 (taper_z C V m e)) (ec_max_phase C)) in
  let t := wrap16 (s + b) in
  if (sd =? BLACK)%N then wrap16 (- t) else t.

Definition eval_v (C : econsts) (V : view) (h sd : N) : res Z :=
  if draw_v V h then Ok (contempt_v C V) else
  r <- parts_z C V ;;
  let '(m, e, b) := r in Ok (score_v C V sd m e b).

(* ------------------------------------------------------------------ table reads *)
Lemma nth_res_ok : forall {A} (l : list A) i d, (i < length l)%nat -> nth_res l i = Ok (nth i l d).
Proof. intros A l i d H. unfold nth_res. rewrite (nth_error_nth' l d H). reflexivity. Qed.

Lemma nthz_ok : forall l i, (N.to_nat i < length l)%nat -> nthz l i = Ok (nth (N.to_nat i) l 0).
Proof. intros l i H. unfold nthz. apply nth_res_ok, H. Qed.

Lemma pst_at_ok : forall tbl c t sq, pst_shape tbl = true -> (c < 2)%N -> (t < 6)%N -> (sq < 64)%N ->
  pst_at tbl c t sq = Ok (pstv tbl c t sq).
Proof.
  intros tbl c t sq Hs Hc Ht Hsq. unfold pst_shape in Hs. apply andb_true_iff in Hs.
  destruct Hs as [Hlen Hall]. apply Nat.eqb_eq in Hlen. rewrite forallb_forall in Hall.
  unfold pst_at, pstv.
  rewrite (nth_res_ok tbl (N.to_nat c) []) by lia. cbn [bind].
  assert (Hin1 : In (nth (N.to_nat c) tbl []) tbl) by (apply nth_In; lia).
  specialize (Hall _ Hin1). apply andb_true_iff in Hall. destruct Hall as [Hlen1 Hall1].
  apply Nat.eqb_eq in Hlen1. rewrite forallb_forall in Hall1.
  rewrite (nth_res_ok (nth (N.to_nat c) tbl []) (N.to_nat t) []) by lia. cbn [bind].
  assert (Hin2 : In (nth (N.to_nat t) (nth (N.to_nat c) tbl []) []) (nth (N.to_nat c) tbl [])) by (apply nth_In; lia).
  specialize (Hall1 _ Hin2). apply Nat.eqb_eq in Hall1.
  apply nth_res_ok. lia.
Qed.

Record econsts_shape (C : econsts) : Prop := {
  sh_mid : pst_shape (ec_mid_pst C) = true;
  sh_end : pst_shape (ec_end_pst C) = true;
  sh_val : length (ec_piece_value C) = 6%nat;
  sh_iso : length (ec_isolani C) = 2%nat;
  sh_kn : length (ec_knight_pawn_adj C) = 9%nat;
  sh_rk : length (ec_rook_pawn_adj C) = 9%nat;
  sh_ka : length (ec_king_att C) = 6%nat }.

Lemma econsts_wf_shape : forall C, econsts_wf C = true -> econsts_shape C.
Proof.
  intros C H. unfold econsts_wf in H. do 6 (apply andb_true_iff in H; destruct H as [H ?]).
  split; try assumption; apply Nat.eqb_eq; assumption.
Qed.

(* ------------------------------------------------------------------ the ranked pawn sums *)
Lemma ranked_pawn_eval_nf : forall s w b, ranked_pawn_eval s w b = wrap16 (s * rank_sum w b).
Proof.
  intros s w b. unfold ranked_pawn_eval. cbn [fold_left]. cbv beta iota zeta. cbn [fst].
  change (shl64 (shl64 (shl64 (shl64 (shl64 RankMask2 8) 8) 8) 8) 8) with (rank_mask 6).
  change (shl64 (shl64 (shl64 (shl64 RankMask2 8) 8) 8) 8) with (rank_mask 5).
  change (shl64 (shl64 (shl64 RankMask2 8) 8) 8) with (rank_mask 4).
  change (shl64 (shl64 RankMask2 8) 8) with (rank_mask 3).
  change (shl64 RankMask2 8) with (rank_mask 2).
  change RankMask2 with (rank_mask 1).
  unfold rank_sum, rank_term.
  change (Z.of_N 1) with 1. change (Z.of_N 2) with 2. change (Z.of_N 3) with 3.
  change (Z.of_N 4) with 4. change (Z.of_N 5) with 5. change (Z.of_N 6) with 6.
  wn.
Qed.

(* ------------------------------------------------------------------ the terms, for any position with a view *)
Section Terms.
Variable C : econsts.
Variable q : position.
Variable V : view.
Hypothesis HC : econsts_shape C.
Hypothesis Hok : view_ok q V.
Hypothesis Hwf : view_wf V.

Let Hbb := proj1 Hok.
Let Hown := proj1 (proj2 Hok).
Let Hocc := proj2 (proj2 Hok).

Lemma bbr_ok : forall c t, (c < 2)%N -> (t < 6)%N -> bbr q c t = Ok (v_bb V c t).
Proof. exact Hbb. Qed.

Lemma game_phase_nf : game_phase C q = Ok (phase_v C V).
Proof.
  unfold game_phase. cbn [fold_left]. rewrite !bbr_ok by reflexivity. cbn [bind].
  unfold phase_v, phase_sum, phase_side. cbv zeta.
  match goal with |- Ok (if _ <? ?a then _ else _) = Ok (if _ <? ?b then _ else _) =>
    replace a with b; [reflexivity|] end.
  wn.
Qed.

Lemma contempt_nf : contempt C q = Ok (contempt_v C V).
Proof. unfold contempt, is_endgame. rewrite game_phase_nf. reflexivity. Qed.

Lemma is_draw_nf : is_draw q = Ok (draw_v V (hmc q)).
Proof.
  unfold is_draw, draw_v. rewrite !bbr_ok by reflexivity. rewrite !Hown by reflexivity. rewrite Hocc.
  cbn [bind]. cbv zeta. unfold WHITE, BLACK, PAWN, KNIGHT, BISHOP, ROOK, QUEEN, KING.
  repeat match goal with |- context [if ?c then _ else _] => destruct c; try reflexivity end.
Qed.

(* ---- piece-square tables ---- *)
Lemma pst_fold_add : forall c t l, (c < 2)%N -> (t < 6)%N -> (forall sq, In sq l -> (sq < 64)%N) ->
  forall m e, in16 m -> in16 e ->
  fold_left (fun acc sq =>
      me <- acc ;; let '(m, e) := me in
      dm <- pst_at (ec_mid_pst C) c t sq ;; de <- pst_at (ec_end_pst C) c t sq ;;
      Ok (add16 m dm, add16 e de)) l (Ok (m, e))
  = Ok (wrap16 (m + sumz (pstv (ec_mid_pst C) c t) l), wrap16 (e + sumz (pstv (ec_end_pst C) c t) l)).
Proof.
  intros c t l Hc Ht. induction l as [|sq r IH]; intros Hl m e Hm He; cbn [fold_left sumz].
  - rewrite !Z.add_0_r, Hm, He. reflexivity.
  - cbn [bind]. rewrite !pst_at_ok; try assumption; try apply HC; try (apply Hl; left; reflexivity).
    cbn [bind]. rewrite IH; try apply in16_wrap; [|intros s Hs; apply Hl; right; exact Hs].
    f_equal. f_equal; wn.
Qed.

Lemma pst_fold_sub : forall c t l, (c < 2)%N -> (t < 6)%N -> (forall sq, In sq l -> (sq < 64)%N) ->
  forall m e, in16 m -> in16 e ->
  fold_left (fun acc sq =>
      me <- acc ;; let '(m, e) := me in
      dm <- pst_at (ec_mid_pst C) c t sq ;; de <- pst_at (ec_end_pst C) c t sq ;;
      Ok (sub16 m dm, sub16 e de)) l (Ok (m, e))
  = Ok (wrap16 (m - sumz (pstv (ec_mid_pst C) c t) l), wrap16 (e - sumz (pstv (ec_end_pst C) c t) l)).
Proof.
  intros c t l Hc Ht. induction l as [|sq r IH]; intros Hl m e Hm He; cbn [fold_left sumz].
  - rewrite !Z.sub_0_r, Hm, He. reflexivity.
  - cbn [bind]. rewrite !pst_at_ok; try assumption; try apply HC; try (apply Hl; left; reflexivity).
    cbn [bind]. rewrite IH; try apply in16_wrap; [|intros s Hs; apply Hl; right; exact Hs].
    f_equal. f_equal; wn.
Qed.

Lemma view_bits_lt : forall c t sq, (c < 2)%N -> (t < 6)%N -> In sq (bits (v_bb V c t)) -> (sq < 64)%N.
Proof. intros c t sq Hc Ht. apply bits_lt. apply (proj1 Hwf); assumption. Qed.

Definition pst_term (tbl : list (list (list Z))) (t : N) : Z :=
  sumz (pstv tbl 0 t) (bits (v_bb V 0 t)) - sumz (pstv tbl 1 t) (bits (v_bb V 1 t)).

Lemma eval_pst_fold : forall l, (forall t, In t l -> (t < 6)%N) -> forall m e, in16 m -> in16 e ->
  fold_left (fun acc t =>
    me <- acc ;;
    wb <- bbr q WHITE t ;;
    me <- fold_left (fun acc sq =>
            me <- acc ;; let '(m, e) := me in
            dm <- pst_at (ec_mid_pst C) WHITE t sq ;; de <- pst_at (ec_end_pst C) WHITE t sq ;;
            Ok (add16 m dm, add16 e de)) (bits wb) (Ok me) ;;
    bb <- bbr q BLACK t ;;
    fold_left (fun acc sq =>
      me <- acc ;; let '(m, e) := me in
      dm <- pst_at (ec_mid_pst C) BLACK t sq ;; de <- pst_at (ec_end_pst C) BLACK t sq ;;
      Ok (sub16 m dm, sub16 e de)) (bits bb) (Ok me)) l (Ok (m, e))
  = Ok (wrap16 (m + sumz (pst_term (ec_mid_pst C)) l), wrap16 (e + sumz (pst_term (ec_end_pst C)) l)).
Proof.
  induction l as [|t r IH]; intros Hl m e Hm He; cbn [fold_left sumz].
  - rewrite !Z.add_0_r, Hm, He. reflexivity.
  - assert (Ht : (t < 6)%N) by (apply Hl; left; reflexivity).
    cbn [bind]. rewrite !bbr_ok by (try exact Ht; reflexivity). cbn [bind].
    rewrite (pst_fold_add WHITE t _ eq_refl Ht (fun sq => view_bits_lt WHITE t sq eq_refl Ht) m e Hm He).
    cbn [bind].
    rewrite (pst_fold_sub BLACK t _ eq_refl Ht (fun sq => view_bits_lt BLACK t sq eq_refl Ht) _ _
               (in16_wrap _) (in16_wrap _)).
    rewrite IH; try apply in16_wrap; [|intros s Hs; apply Hl; right; exact Hs].
    unfold pst_term, WHITE, BLACK. f_equal. f_equal; wn.
Qed.

Lemma eval_pst_nf : forall m e, in16 m -> in16 e ->
  eval_pst C q (m, e) = Ok (wrap16 (m + pst_sum V (ec_mid_pst C)), wrap16 (e + pst_sum V (ec_end_pst C))).
Proof.
  intros m e Hm He. unfold eval_pst. rewrite types6_eq.
  exact (eval_pst_fold types6 types6_lt m e Hm He).
Qed.

(* ---- pawn structure ---- *)
Lemma eval_pawns_nf : forall m e b,
  eval_pawns C q (m, e, b) =
  Ok (wrap16 (m + nth 0 (ec_isolani C) 0 * iso_diff V),
      wrap16 (e + nth 1 (ec_isolani C) 0 * iso_diff V),
      wrap16 (b + structure_sum C V)).
Proof.
  intros m e b. unfold eval_pawns. rewrite !bbr_ok by reflexivity. cbn [bind].
  rewrite (nthz_ok (ec_isolani C) 0), (nthz_ok (ec_isolani C) 1) by (rewrite (sh_iso C HC); cbn; lia).
  cbn [bind]. rewrite !ranked_pawn_eval_nf. unfold structure_sum, iso_diff.
  change (N.to_nat 0) with 0%nat. change (N.to_nat 1) with 1%nat.
  f_equal. f_equal; [f_equal|]; wn.
Qed.

(* ---- pairs ---- *)
Lemma eval_pairs_nf : forall b, in16 b -> eval_pairs C q b = Ok (wrap16 (b + pairs_sum C V)).
Proof.
  intros b Hb. unfold eval_pairs. rewrite !bbr_ok by reflexivity. cbn [bind]. cbv zeta.
  unfold pairs_sum, WHITE, BLACK, BISHOP, KNIGHT, ROOK.
  assert (Hb' : b = wrap16 b) by (symmetry; exact Hb).
  destruct (1 <? popcount (v_bb V 0 2))%N, (1 <? popcount (v_bb V 1 2))%N,
           (1 <? popcount (v_bb V 0 1))%N, (1 <? popcount (v_bb V 1 1))%N,
           (1 <? popcount (v_bb V 0 3))%N, (1 <? popcount (v_bb V 1 3))%N;
    unfold ind; f_equal; first [ wn | rewrite Hb' at 1; wn ].
Qed.

(* ---- material ---- *)
Lemma eval_material_fold : forall l, (forall t, In t l -> (t < 6)%N) -> forall b, in16 b ->
  fold_left (fun acc t =>
    b <- acc ;;
    w <- bbr q WHITE t ;; bl <- bbr q BLACK t ;; v <- nthz (ec_piece_value C) t ;;
    Ok (add16 b (mul16 v (wrap16 (pc w - pc bl))))) l (Ok b)
  = Ok (wrap16 (b + sumz (fun t => nth (N.to_nat t) (ec_piece_value C) 0
                                   * (pc (v_bb V 0 t) - pc (v_bb V 1 t))) l)).
Proof.
  induction l as [|t r IH]; intros Hl b Hb; cbn [fold_left sumz].
  - rewrite Z.add_0_r, Hb. reflexivity.
  - assert (Ht : (t < 6)%N) by (apply Hl; left; reflexivity).
    cbn [bind]. rewrite !bbr_ok by (try exact Ht; reflexivity). cbn [bind].
    rewrite nthz_ok by (rewrite (sh_val C HC); lia). cbn [bind].
    rewrite IH; try apply in16_wrap; [|intros s Hs; apply Hl; right; exact Hs].
    unfold WHITE, BLACK. f_equal. wn.
Qed.

Lemma eval_material_nf : forall b, in16 b -> eval_material C q b = Ok (wrap16 (b + material_sum C V)).
Proof.
  intros b Hb. unfold eval_material. rewrite types6_eq.
  exact (eval_material_fold types6 types6_lt b Hb).
Qed.

(* ---- pawn adjustment ---- *)
Lemma nthz_adj : forall l b, length l = 9%nat ->
  nthz l (popcount b) = if (popcount b <=? 8)%N then Ok (adjz l b) else Panic.
Proof.
  intros l b Hl. destruct (N.leb_spec (popcount b) 8) as [Hle | Hgt].
  - apply nthz_ok. lia.
  - unfold nthz, nth_res. replace (nth_error l (N.to_nat (popcount b))) with (@None Z); [reflexivity|].
    symmetry. apply nth_error_None. lia.
Qed.

Lemma eval_pawn_adjustment_nf : forall b,
  eval_pawn_adjustment C q b = (a <- padj_v C V ;; Ok (wrap16 (b + a))).
Proof.
  intros b. unfold eval_pawn_adjustment, padj_v. rewrite !bbr_ok by reflexivity. cbn [bind].
  rewrite !nthz_adj by apply HC. unfold WHITE, BLACK, PAWN, KNIGHT, ROOK.
  destruct (popcount (v_bb V 0 0) <=? 8)%N; [|reflexivity].
  destruct (popcount (v_bb V 1 0) <=? 8)%N; [|reflexivity].
  cbn [bind andb]. f_equal. wn.
Qed.

(* ---- mobility and king attacks ---- *)
Lemma mobility_of_eq : forall we t sq, mobility_of q we t sq = mob_of (v_occ V) we t sq.
Proof. intros we t sq. unfold mobility_of, mob_of. rewrite Hocc. reflexivity. Qed.

Lemma mobility_fold : forall we ks dest l, (we < 2)%N -> (forall t, In t l -> (t < 6)%N) -> forall v, in16 v ->
  fold_left (fun acc t =>
    v <- acc ;;
    pieces <- bbr q we t ;;
    ka <- nthz (ec_king_att C) t ;;
    Ok (fold_left (fun v sq =>
          let mob := N.land (mobility_of q we t sq) dest in
          let v := add16 v (wrap16 (pc mob)) in
          add16 v (wrap16 (ka * pc (N.land mob ks))))
        (bits pieces) v)) l (Ok v)
  = Ok (wrap16 (v + sumz (fun t => sumz (mob_term C V we ks dest t) (bits (v_bb V we t))) l)).
Proof.
  intros we ks dest l Hwe. induction l as [|t r IH]; intros Hl v Hv; cbn [fold_left sumz].
  - rewrite Z.add_0_r, Hv. reflexivity.
  - assert (Ht : (t < 6)%N) by (apply Hl; left; reflexivity).
    cbn [bind]. rewrite bbr_ok by assumption. cbn [bind].
    rewrite nthz_ok by (rewrite (sh_ka C HC); lia). cbn [bind].
    rewrite (fold_wrap_sum (mob_term C V we ks dest t)); [|
      intros v0 x; cbv zeta; unfold mob_term; rewrite mobility_of_eq; cbv zeta; wn | exact Hv].
    rewrite IH; try apply in16_wrap; [|intros s Hs; apply Hl; right; exact Hs].
    f_equal. wn.
Qed.

Lemma mobility_nf : forall we, (we < 2)%N -> mobility_by_color C q we = Ok (wrap16 (mob_sum C V we)).
Proof.
  intros we Hwe. unfold mobility_by_color. cbv zeta.
  assert (Hthem : (switch_color we < 2)%N) by (unfold switch_color, BLACK, WHITE; destruct (we =? 1)%N; lia).
  rewrite (Hown we Hwe). cbn [bind]. rewrite (bbr_ok _ KING Hthem eq_refl). cbn [bind].
  destruct (proj2 (proj2 (proj2 Hwf)) _ Hthem) as [k [Hk Hbit]].
  assert (Hlsb : lsb (v_bb V (switch_color we) KING) = Ok (ksq_of (v_bb V (switch_color we) 5))).
  { unfold ksq_of, KING. rewrite Hbit, (lsb_bit k Hk). reflexivity. }
  rewrite Hlsb. cbn [bind]. rewrite (bbr_ok we PAWN Hwe eq_refl). cbn [bind]. rewrite types6_eq.
  rewrite (mobility_fold we _ _ types6 Hwe types6_lt _ (in16_wrap _)).
  unfold mob_sum. cbv zeta. rewrite Hocc. unfold PAWN. f_equal. wn.
Qed.

Lemma eval_mobility_nf : forall b,
  eval_mobility C q b = Ok (wrap16 (b + (mob_sum C V 0 - mob_sum C V 1))).
Proof.
  intros b. unfold eval_mobility. rewrite !mobility_nf by reflexivity. cbn [bind]. f_equal. wn.
Qed.

(* ---- the three accumulators ---- *)
Lemma eval_parts_nf :
  eval_parts C q = (r <- parts_z C V ;; let '(m, e, b) := r in Ok (wrap16 m, wrap16 e, wrap16 b)).
Proof.
  unfold eval_parts, parts_z.
  rewrite (eval_pst_nf 0 0 in16_0 in16_0). cbn [bind fst snd]. rewrite eval_pawns_nf. cbn [bind].
  rewrite eval_pairs_nf by apply in16_wrap. cbn [bind].
  rewrite eval_material_nf by apply in16_wrap. cbn [bind].
  rewrite eval_pawn_adjustment_nf. destruct (padj_v C V) as [a | |]; [|reflexivity|reflexivity].
  cbn [bind]. rewrite eval_mobility_nf. cbn [bind]. f_equal. f_equal; [f_equal|]; wn.
Qed.

Lemma calculate_score_nf : forall m e b,
  calculate_score C q (wrap16 m) (wrap16 e) (wrap16 b) = Ok (score_v C V (side q) m e b).
Proof.
  intros m e b. unfold calculate_score. rewrite game_phase_nf. cbn [bind]. cbv zeta.
  unfold score_v, taper_z. cbv zeta.
  assert (H1 : add16 (mul16 (wrap16 m) (phase_v C V)) (mul16 (wrap16 e) (sub16 (ec_max_phase C) (phase_v C V)))
               = wrap16 (m * phase_v C V + e * (ec_max_phase C - phase_v C V))) by wn.
  rewrite H1.
  set (s := wrap16 (Z.quot _ _)).
  assert (H2 : add16 s (wrap16 b) = wrap16 (s + b)) by wn. rewrite H2.
  destruct (side q =? BLACK)%N; [|reflexivity]. f_equal. wn.
Qed.

Theorem eval_raw_nf : eval_raw C q = eval_v C V (hmc q) (side q).
Proof.
  unfold eval_raw, eval_v. rewrite is_draw_nf. cbn [bind].
  destruct (draw_v V (hmc q)); [apply contempt_nf|].
  rewrite eval_parts_nf. destruct (parts_z C V) as [[[m e] b] | |]; [|reflexivity|reflexivity].
  cbn [bind]. apply calculate_score_nf.
Qed.

Lemma tapered_nf :
  tapered C q = (r <- parts_z C V ;; let '(m, e, _) := r in Ok (wrap16 (taper_z C V m e))).
Proof.
  unfold tapered. rewrite eval_parts_nf. destruct (parts_z C V) as [[[m e] b] | |]; [|reflexivity|reflexivity].
  cbn [bind]. rewrite game_phase_nf. cbn [bind]. f_equal. unfold taper_z. wn.
Qed.

End Terms.
