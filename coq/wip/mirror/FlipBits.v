(* C15 (mirror): what the vertical flip does to squares, to bitboards bit by bit, to the word
   operations, the one-step shifts, the fills, the bit scan and the population count. *)
From Coq Require Import NArith ZArith List Bool Lia ZifyBool ZifyN ZifyNat Permutation.
From Clemens Require Import Base.Res Base.Word Pos.Types Att.Attacks Att.ShiftsProofs Pos.Inv
  Pos.CapturesProofs Att.AttackersProofs.
From WipMirror Require Import Mirror.
Import ListNotations.
Open Scope N_scope.
Ltac Zify.zify_post_hook ::= Z.to_euclidean_division_equations.

(* ------------------------------------------------------------------ squares *)
Lemma flip_sq_invol : forall s, flip_sq (flip_sq s) = s.
Proof.
  intros s. unfold flip_sq. rewrite N.lxor_assoc. change (N.lxor 56 56) with 0. apply N.lxor_0_r.
Qed.

Lemma flip_sq_facts_b :
  forallb (fun s => (flip_sq s <? 64) && (flip_sq s + s =? 56 + 2 * (s mod 8))) squares = true.
Proof. vm_compute. reflexivity. Qed.

Lemma flip_sq_lt : forall s, s < 64 -> flip_sq s < 64.
Proof.
  intros s Hs. pose proof (forall_squares _ flip_sq_facts_b s Hs) as H. cbv beta in H. lia.
Qed.

Lemma flip_sq_eq : forall s, s < 64 -> flip_sq s = 56 + 2 * (s mod 8) - s.
Proof.
  intros s Hs. pose proof (forall_squares _ flip_sq_facts_b s Hs) as H. cbv beta in H. lia.
Qed.

Lemma flip_sq_ge : forall s, 64 <= s -> 64 <= flip_sq s.
Proof.
  intros s Hs. destruct (N.lt_ge_cases (flip_sq s) 64) as [Hlt | Hge]; [|exact Hge].
  apply flip_sq_lt in Hlt. rewrite flip_sq_invol in Hlt. lia.
Qed.

Lemma flip_sq_inj : forall s t, flip_sq s = flip_sq t -> s = t.
Proof. intros s t H. rewrite <- (flip_sq_invol s), H. apply flip_sq_invol. Qed.

(* every flip_sq of a square in the goal/hypotheses gets its arithmetic value *)
Ltac flip_arith_at x :=
  let H := fresh "Hfl" in
  assert (H : flip_sq x = 56 + 2 * (x mod 8) - x) by (apply flip_sq_eq; lia);
  rewrite ?H in *.

(* ------------------------------------------------------------------ bits of a flipped board *)
Lemma testbit_255 : forall j, N.testbit 255 j = (j <? 8).
Proof.
  intros j. change 255 with (N.ones 8). destruct (N.ltb_spec j 8) as [Hlt | Hge].
  - apply N.ones_spec_low, Hlt.
  - apply N.ones_spec_high, Hge.
Qed.

Lemma flip_byte_spec : forall b r i,
  N.testbit (flip_byte b r) i =
  (8 * (7 - r) <=? i) && (i - 8 * (7 - r) <? 8) && N.testbit b (i - 8 * (7 - r) + 8 * r).
Proof.
  intros b r i. unfold flip_byte. destruct (N.leb_spec (8 * (7 - r)) i) as [Hle | Hlt].
  - rewrite N.shiftl_spec_high' by exact Hle. rewrite N.land_spec, N.shiftr_spec', testbit_255.
    cbn [andb]. apply andb_comm.
  - rewrite N.shiftl_spec_low by exact Hlt. reflexivity.
Qed.

Ltac dec_cmp :=
  repeat match goal with
  | |- context [(?a <=? ?b)] =>
      first [ replace (a <=? b) with true by (symmetry; apply N.leb_le; lia)
            | replace (a <=? b) with false by (symmetry; apply N.leb_gt; lia) ]
  | |- context [(?a <? ?b)] =>
      first [ replace (a <? b) with true by (symmetry; apply N.ltb_lt; lia)
            | replace (a <? b) with false by (symmetry; apply N.ltb_ge; lia) ]
  end.

Lemma flip_bb_spec : forall b i, N.testbit (flip_bb b) i = (i <? 64) && N.testbit b (flip_sq i).
Proof.
  intros b i. unfold flip_bb. rewrite !N.lor_spec, !flip_byte_spec.
  assert (Hc : i < 8 \/ (8 <= i < 16) \/ (16 <= i < 24) \/ (24 <= i < 32) \/ (32 <= i < 40)
               \/ (40 <= i < 48) \/ (48 <= i < 56) \/ (56 <= i < 64) \/ 64 <= i) by lia.
  destruct Hc as [Hc | [Hc | [Hc | [Hc | [Hc | [Hc | [Hc | [Hc | Hc]]]]]]]];
    try (flip_arith_at i); dec_cmp;
    rewrite ?andb_false_l, ?andb_true_l, ?orb_false_l, ?orb_false_r; try reflexivity;
    f_equal; lia.
Qed.

Lemma flip_bb_lt : forall b, flip_bb b < two64.
Proof.
  intros b. apply lt_two64_of_bits. intros i Hi. rewrite flip_bb_spec.
  destruct (N.ltb_spec i 64); [lia | reflexivity].
Qed.

Lemma flip_bb_invol : forall b, b < two64 -> flip_bb (flip_bb b) = b.
Proof.
  intros b Hb. apply N.bits_inj. intros i. rewrite !flip_bb_spec, flip_sq_invol.
  destruct (N.ltb_spec i 64) as [Hlt | Hge].
  - destruct (N.ltb_spec (flip_sq i) 64) as [_ | Hge]; [reflexivity|].
    pose proof (flip_sq_lt i Hlt). lia.
  - cbn [andb]. symmetry. apply testbit_high; assumption.
Qed.

Lemma flip_bb_0 : flip_bb 0 = 0.
Proof. reflexivity. Qed.

Lemma flip_bb_eq0 : forall b, b < two64 -> (flip_bb b =? 0) = (b =? 0).
Proof.
  intros b Hb. destruct (N.eqb_spec b 0) as [-> | Hne]; [reflexivity|].
  apply N.eqb_neq. intros H0. apply Hne. rewrite <- (flip_bb_invol b Hb), H0. reflexivity.
Qed.

Lemma flip_land : forall a b, flip_bb (N.land a b) = N.land (flip_bb a) (flip_bb b).
Proof.
  intros a b. apply N.bits_inj. intros i. rewrite !N.land_spec, !flip_bb_spec, N.land_spec.
  destruct (i <? 64), (N.testbit a (flip_sq i)), (N.testbit b (flip_sq i)); reflexivity.
Qed.

Lemma flip_lor : forall a b, flip_bb (N.lor a b) = N.lor (flip_bb a) (flip_bb b).
Proof.
  intros a b. apply N.bits_inj. intros i. rewrite !N.lor_spec, !flip_bb_spec, N.lor_spec.
  destruct (i <? 64), (N.testbit a (flip_sq i)), (N.testbit b (flip_sq i)); reflexivity.
Qed.

Lemma flip_not64 : forall a, flip_bb (not64 a) = not64 (flip_bb a).
Proof.
  intros a. apply N.bits_inj. intros i. rewrite flip_bb_spec, !not64_spec, flip_bb_spec.
  destruct (N.ltb_spec i 64) as [Hlt | Hge]; [|reflexivity].
  pose proof (flip_sq_lt i Hlt) as Hf. destruct (N.ltb_spec (flip_sq i) 64); [|lia]. reflexivity.
Qed.

Lemma flip_bit : forall s, s < 64 -> flip_bb (bit s) = bit (flip_sq s).
Proof.
  intros s Hs. apply N.bits_inj. intros i. rewrite flip_bb_spec.
  rewrite (bit_spec (flip_sq s)) by (apply flip_sq_lt, Hs). rewrite (bit_spec s) by exact Hs.
  destruct (N.ltb_spec i 64) as [Hlt | Hge].
  - cbn [andb]. destruct (N.eqb_spec s (flip_sq i)) as [-> | Hne].
    + rewrite flip_sq_invol. symmetry. apply N.eqb_refl.
    + symmetry. apply N.eqb_neq. intros H. apply Hne. rewrite <- H. symmetry. apply flip_sq_invol.
  - cbn [andb]. symmetry. apply N.eqb_neq. pose proof (flip_sq_lt s Hs). lia.
Qed.

(* ------------------------------------------------------------------ shifts *)
(* bitwise equality of two boards: compare bit i, distinguishing i on / off the board *)
Ltac bits_eq i Hi :=
  apply N.bits_inj; intros i; destruct (N.lt_ge_cases i 64) as [Hi | Hi].

Lemma flip_shl8 : forall b s, s mod 8 = 0 -> flip_bb (shl64 b s) = shr64 (flip_bb b) s.
Proof.
  intros b s Hs. bits_eq i Hi; rewrite flip_bb_spec, shr64_spec, shl64_spec, flip_bb_spec.
  - flip_arith_at i. destruct (N.ltb_spec (i + s) 64) as [Hlt | Hge].
    + flip_arith_at (i + s). dec_cmp. cbn [andb]. f_equal. lia.
    + dec_cmp. destruct (N.leb_spec s (56 + 2 * (i mod 8) - i)) as [Hle | Hgt]; [lia|]. reflexivity.
  - dec_cmp. reflexivity.
Qed.

Lemma flip_shr8 : forall b s, b < two64 -> s mod 8 = 0 -> flip_bb (shr64 b s) = shl64 (flip_bb b) s.
Proof.
  intros b s Hb Hs. bits_eq i Hi; rewrite flip_bb_spec, shr64_spec, shl64_spec, flip_bb_spec.
  - flip_arith_at i. dec_cmp. cbn [andb]. destruct (N.leb_spec s i) as [Hle | Hgt].
    + flip_arith_at (i - s). dec_cmp. cbn [andb]. f_equal. lia.
    + cbn [andb]. apply testbit_high; [exact Hb | lia].
  - dec_cmp. reflexivity.
Qed.

Lemma flip_north_one : forall b, flip_bb (north_one b) = south_one (flip_bb b).
Proof. intros b. unfold north_one, south_one. apply flip_shl8. reflexivity. Qed.

Lemma flip_south_one : forall b, b < two64 -> flip_bb (south_one b) = north_one (flip_bb b).
Proof. intros b Hb. unfold north_one, south_one. apply flip_shr8; [exact Hb | reflexivity]. Qed.

Lemma flip_east_one : forall b, flip_bb (east_one b) = east_one (flip_bb b).
Proof.
  intros b. bits_eq i Hi; rewrite flip_bb_spec, !east_one_spec, flip_bb_spec.
  - flip_arith_at i. dec_cmp. cbn [andb].
    destruct (N.eqb_spec (i mod 8) 0) as [H0 | H0].
    + replace ((56 + 2 * (i mod 8) - i) mod 8 =? 0) with true by (symmetry; apply N.eqb_eq; lia).
      reflexivity.
    + replace ((56 + 2 * (i mod 8) - i) mod 8 =? 0) with false by (symmetry; apply N.eqb_neq; lia).
      flip_arith_at (i - 1). dec_cmp. cbn [andb negb]. f_equal. lia.
  - dec_cmp. reflexivity.
Qed.

Lemma flip_west_one : forall b, flip_bb (west_one b) = west_one (flip_bb b).
Proof.
  intros b. bits_eq i Hi; rewrite flip_bb_spec, !west_one_spec, flip_bb_spec.
  - flip_arith_at i. dec_cmp. cbn [andb].
    destruct (N.eqb_spec (i mod 8) 7) as [H0 | H0].
    + replace ((56 + 2 * (i mod 8) - i) mod 8 =? 7) with true by (symmetry; apply N.eqb_eq; lia).
      reflexivity.
    + replace ((56 + 2 * (i mod 8) - i) mod 8 =? 7) with false by (symmetry; apply N.eqb_neq; lia).
      flip_arith_at (i + 1). dec_cmp. cbn [andb negb]. f_equal. lia.
  - dec_cmp. reflexivity.
Qed.

(* the diagonal steps are compositions, bit for bit *)
Lemma north_east_compose : forall b, north_east_one b = east_one (north_one b).
Proof.
  intros b. apply N.bits_inj. intros i. rewrite north_east_one_spec, east_one_spec, north_one_spec.
  destruct (N.ltb_spec i 64) as [Hi | Hi]; [|reflexivity]. cbn [andb].
  destruct (N.eqb_spec (i mod 8) 0) as [H0 | H0]; [reflexivity|]. cbn [andb negb].
  destruct (N.leb_spec 9 i) as [H9 | H9].
  - dec_cmp. cbn [andb]. f_equal. lia.
  - destruct (N.leb_spec 1 i); [|reflexivity]. dec_cmp. reflexivity.
Qed.

Lemma north_west_compose : forall b, north_west_one b = west_one (north_one b).
Proof.
  intros b. apply N.bits_inj. intros i. rewrite north_west_one_spec, west_one_spec, north_one_spec.
  destruct (N.ltb_spec i 64) as [Hi | Hi]; [|reflexivity]. cbn [andb].
  destruct (N.eqb_spec (i mod 8) 7) as [H0 | H0]; [reflexivity|]. cbn [andb negb].
  destruct (N.leb_spec 7 i) as [H9 | H9].
  - dec_cmp. cbn [andb]. f_equal. lia.
  - dec_cmp. reflexivity.
Qed.

Lemma south_east_compose : forall b, south_east_one b = east_one (south_one b).
Proof.
  intros b. apply N.bits_inj. intros i. rewrite south_east_one_spec, east_one_spec, south_one_spec.
  destruct (N.ltb_spec i 64) as [Hi | Hi]; [|reflexivity]. cbn [andb].
  destruct (N.eqb_spec (i mod 8) 0) as [H0 | H0]; [reflexivity|]. cbn [andb negb].
  dec_cmp. cbn [andb]. f_equal. lia.
Qed.

Lemma south_west_compose : forall b, south_west_one b = west_one (south_one b).
Proof.
  intros b. apply N.bits_inj. intros i. rewrite south_west_one_spec, west_one_spec, south_one_spec.
  destruct (N.ltb_spec i 64) as [Hi | Hi]; [|reflexivity]. cbn [andb].
  destruct (N.eqb_spec (i mod 8) 7) as [H0 | H0]; [reflexivity|]. cbn [andb negb].
  f_equal. lia.
Qed.

Lemma flip_north_east_one : forall b, flip_bb (north_east_one b) = south_east_one (flip_bb b).
Proof. intros b. rewrite north_east_compose, south_east_compose, flip_east_one, flip_north_one. reflexivity. Qed.
Lemma flip_north_west_one : forall b, flip_bb (north_west_one b) = south_west_one (flip_bb b).
Proof. intros b. rewrite north_west_compose, south_west_compose, flip_west_one, flip_north_one. reflexivity. Qed.
Lemma flip_south_east_one : forall b, b < two64 -> flip_bb (south_east_one b) = north_east_one (flip_bb b).
Proof. intros b Hb. rewrite north_east_compose, south_east_compose, flip_east_one, flip_south_one by exact Hb. reflexivity. Qed.
Lemma flip_south_west_one : forall b, b < two64 -> flip_bb (south_west_one b) = north_west_one (flip_bb b).
Proof. intros b Hb. rewrite north_west_compose, south_west_compose, flip_west_one, flip_south_one by exact Hb. reflexivity. Qed.

(* ------------------------------------------------------------------ fills *)
Lemma flip_north_fill : forall b, flip_bb (north_fill b) = south_fill (flip_bb b).
Proof.
  intros b. unfold north_fill, south_fill. cbv zeta.
  rewrite !flip_lor, !flip_shl8 by reflexivity. rewrite !flip_lor, !flip_shl8 by reflexivity.
  rewrite !flip_lor, !flip_shl8 by reflexivity. reflexivity.
Qed.

Lemma flip_south_fill : forall b, b < two64 -> flip_bb (south_fill b) = north_fill (flip_bb b).
Proof.
  intros b Hb. unfold north_fill, south_fill. cbv zeta.
  assert (H1 : N.lor b (shr64 b 8) < two64) by (apply lor_lt; [exact Hb | apply shr64_lt, Hb]).
  assert (H2 : N.lor (N.lor b (shr64 b 8)) (shr64 (N.lor b (shr64 b 8)) 16) < two64)
    by (apply lor_lt; [exact H1 | apply shr64_lt, H1]).
  rewrite flip_lor, (flip_shr8 _ 32 H2) by reflexivity.
  rewrite flip_lor, (flip_shr8 _ 16 H1) by reflexivity.
  rewrite flip_lor, (flip_shr8 _ 8 Hb) by reflexivity. reflexivity.
Qed.

Lemma flip_file_fill : forall b, b < two64 -> flip_bb (file_fill b) = file_fill (flip_bb b).
Proof.
  intros b Hb. unfold file_fill. rewrite flip_lor, flip_north_fill, flip_south_fill by exact Hb.
  apply N.lor_comm.
Qed.

(* ------------------------------------------------------------------ bit scan, population count *)
Lemma pop_pos_length : forall q i, pop_pos q = N.of_nat (length (bits_pos q i)).
Proof.
  induction q as [q IH | q IH |]; intros i; cbn [pop_pos bits_pos length].
  - rewrite (IH (i + 1)). lia.
  - apply IH.
  - reflexivity.
Qed.

Lemma popcount_length : forall b, popcount b = N.of_nat (length (bits b)).
Proof. intros [|q]; [reflexivity|]. apply pop_pos_length. Qed.

Lemma bits_lt : forall b s, b < two64 -> In s (bits b) -> s < 64.
Proof.
  intros b s Hb Hin. apply bits_in in Hin. destruct (N.lt_ge_cases s 64) as [Hlt | Hge]; [exact Hlt|].
  rewrite (testbit_high b s Hb Hge) in Hin. discriminate.
Qed.

Lemma bits_flip_perm : forall b, b < two64 -> Permutation (bits (flip_bb b)) (map flip_sq (bits b)).
Proof.
  intros b Hb. apply NoDup_Permutation.
  - apply bits_NoDup.
  - apply FinFun.Injective_map_NoDup; [|apply bits_NoDup]. intros x y. apply flip_sq_inj.
  - intros x. rewrite bits_in, flip_bb_spec, in_map_iff. split.
    + intros H. apply andb_true_iff in H. destruct H as [_ H]. exists (flip_sq x).
      split; [apply flip_sq_invol | apply bits_in, H].
    + intros [y [Hy Hin]]. subst x. pose proof (bits_lt b y Hb Hin) as Hlt. apply bits_in in Hin.
      rewrite flip_sq_invol, Hin. pose proof (flip_sq_lt y Hlt). dec_cmp. reflexivity.
Qed.

Lemma popcount_flip : forall b, b < two64 -> popcount (flip_bb b) = popcount b.
Proof.
  intros b Hb. rewrite !popcount_length.
  rewrite (Permutation_length (bits_flip_perm b Hb)), map_length. reflexivity.
Qed.

Lemma lsb_bit_b : forallb (fun k => match lsb (bit k) with Ok j => j =? k | _ => false end) squares = true.
Proof. vm_compute. reflexivity. Qed.

Lemma lsb_bit : forall k, k < 64 -> lsb (bit k) = Ok k.
Proof.
  intros k Hk. pose proof (forall_squares _ lsb_bit_b k Hk) as H. cbv beta in H.
  destruct (lsb (bit k)) as [j | |]; try discriminate. apply N.eqb_eq in H. subst j. reflexivity.
Qed.

(* a board with one bit set below 2^64 is that square's bit *)
Lemma single_bit : forall b, b < two64 -> popcount b = 1 -> exists k, k < 64 /\ b = bit k.
Proof.
  intros b Hb Hpop. destruct b as [|q]; [discriminate Hpop|]. cbn [popcount] in Hpop.
  pose proof (pop_one_unique q Hpop) as Huniq. pose proof (ctz_pos_bit q) as Hset.
  assert (Hk : ctz_pos q < 64).
  { destruct (N.lt_ge_cases (ctz_pos q) 64) as [Hlt | Hge]; [exact Hlt|].
    rewrite (testbit_high _ _ Hb Hge) in Hset. discriminate. }
  exists (ctz_pos q). split; [exact Hk|]. apply N.bits_inj. intros j. rewrite bit_spec by exact Hk.
  destruct (N.eqb_spec (ctz_pos q) j) as [<- | Hne]; [exact Hset|].
  destruct (N.testbit (N.pos q) j) eqn:Ej; [|reflexivity]. apply Huniq in Ej. congruence.
Qed.

(* ------------------------------------------------------------------ constants *)
Lemma flip_RankMask4 : flip_bb RankMask4 = RankMask5. Proof. reflexivity. Qed.
Lemma flip_RankMask5 : flip_bb RankMask5 = RankMask4. Proof. reflexivity. Qed.
