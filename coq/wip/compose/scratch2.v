From WipCompose Require Import TTGrow.
Check search_G.
Check inner_G.
Check negamax_G.
Print Assumptions search_G.
