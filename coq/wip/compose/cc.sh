#!/bin/sh
# usage: cc.sh File.v
cd /verif/coq && /usr/bin/time -f "%es" timeout 1800 coqc -Q theories Clemens -Q gen ClemensGen -Q wip/compose WipCompose -w -notation-overridden,-deprecated-hint-without-locality,-deprecated-instance-without-locality wip/compose/$1
