From Coq Require Import NArith ZArith List Bool FMapPositive Lia String.
From Clemens Require Import Base.Res Base.Word Pos.Types Att.Attacks Pos.Position Eval.Eval
     Search.TT Search.Ordering Search.Negamax Search.GoInst.
From ClemensGen Require Import GoConsts.
From Clemens.C13Mate Require Import MateExamples.
Import ListNotations.
Open Scope Z_scope.
Definition start_fen : string := "rnbqkbnr/pppppppp/8/8/8/8/PPPPPPPP/RNBQKBNR w KQkq - 0 1".
Definition start := root_of start_fen.
Definition s1 := snd (go_search 20 200 true (go_empty_sst None) start 3).
Definition kids := match legal_moves go_keys start with Ok l => l | _ => [] end.
Definition kid (m : N) := match make_move go_keys start m with Ok q => q | _ => start end.
Time Eval vm_compute in (hash start, tt_get tt_numberOfBuckets eval_INF (s_tt s1) (hash start) (-32767) 32767 3 0).
Time Eval vm_compute in map (fun m => (m, hash (kid m), tt_get tt_numberOfBuckets eval_INF (s_tt s1) (hash (kid m)) 0 1 2 1)) kids.
Definition s2 := go_init_sst (s_tt s1) (s_cache s1) [] None.
Definition run2 := go_search 20 200 true s2 start 3.
Time Eval vm_compute in (fst run2, s_out (snd run2), s_nodes (snd run2), st_he (s_tt (snd run2))).
