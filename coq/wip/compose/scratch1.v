From Coq Require Import NArith ZArith List Bool FMapPositive Lia String.
From Clemens Require Import Base.Res Base.Word Pos.Types Att.Attacks Pos.Position Eval.Eval
     Search.TT Search.Ordering Search.Negamax Search.GoInst.
From Clemens.C13Mate Require Import MateExamples.
Import ListNotations.
Open Scope Z_scope.
Definition start_fen : string := "rnbqkbnr/pppppppp/8/8/8/8/PPPPPPPP/RNBQKBNR w KQkq - 0 1".
Definition start := root_of start_fen.
Definition obs {A} (x : sresult A * sst) := (fst x, s_out (snd x), s_nodes (snd x), s_polls (snd x), st_he (s_tt (snd x)), s_pv (snd x), List.length (s_cache (snd x))).
Definition run1 := go_search 20 200 true (go_empty_sst None) start 3.
Time Eval vm_compute in obs run1.
Definition run2 := go_search 20 200 true (go_init_sst go_tt_init (s_cache (snd run1)) [] None) start 3.
Time Eval vm_compute in obs run2.
Definition junk (c : ecache) : ecache := map (fun e => (fst e, (fst (snd e), 900))) c.
Definition run3 := go_search 20 200 true (go_init_sst go_tt_init (junk (s_cache (snd run1))) [] None) start 3.
Time Eval vm_compute in obs run3.
Definition run4 := go_search 20 200 true (go_init_sst go_tt_init [hd (0%N,(0%N,0)) (junk (s_cache (snd run1)))] [] None) start 3.
Time Eval vm_compute in obs run4.
