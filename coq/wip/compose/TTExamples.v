(* C14 lifted to whole searches, part 3: executable examples.  A depth-3 search of the start position on a
   fresh engine; the table it leaves is a session table with 79 occupied slots; a new search object on it.
   * the root hash is not 0 and a probe for it is usable: [session_probe_justified] applies, not vacuously;
   * a node below the root (after 1.b2b3, null window (0,1), depth 2, ply 1) meets every hypothesis of
     [session_cutoff_justified]: it takes the table cutoff, and the record that justifies it was stored by a
     node of the first search;
   * the second search of the session visits 237 nodes instead of 538 (the cutoffs are taken) and prints a
     different line: unlike the evaluation cache, the transposition table is not transparent. *)
From Coq Require Import NArith ZArith List Bool FMapPositive Lia String.
From Clemens Require Import Base.Res Base.Word Pos.Types Att.Attacks Pos.Position Eval.Eval
     Search.TT Search.TTProofs Search.Ordering Search.Negamax Search.SearchStruct Search.SearchLines Search.GoInst.
From ClemensGen Require Import GoConsts.
From Clemens.C13Mate Require Import MateDefs MateExamples.
From Clemens.C13Bridge Require Import Bridge Seq.
From WipCompose Require Import TTGrow TTSession.
Import ListNotations.
Open Scope Z_scope.

Definition start_fen : string := "rnbqkbnr/pppppppp/8/8/8/8/PPPPPPPP/RNBQKBNR w KQkq - 0 1".
Definition start : position := root_of start_fen.

Definition first_search := go_search 20 200 true (go_empty_sst None) start 3.
Definition after_first : sst := snd first_search.
(* the caller builds a new search object on the shared tables *)
Definition second_state : sst := go_init_sst (s_tt after_first) (s_cache after_first) [] None.
Definition second_search := go_search 20 200 true second_state start 3.

Example start_legal_pos : legal_pos start.
Proof. apply legal_pos_b_sound. vm_compute. reflexivity. Qed.

Example second_state_session : session [start] second_state.
Proof.
  apply (session_caller [start] after_first); [|reflexivity|reflexivity].
  apply (session_search [] (go_empty_sst None) start 20 200 true 3 (fst first_search) after_first).
  - constructor.
  - exact start_legal_pos.
  - apply surjective_pairing.
Qed.

Example second_state_table : session_table [start] (s_tt second_state).
Proof. apply session_table_log. exact second_state_session. Qed.

Example first_search_observed :
  fst first_search = ROk 58983553%N /\ s_nodes after_first = 538%N /\ st_he (s_tt after_first) = 79%N.
Proof. vm_compute. repeat (split; [reflexivity|]). reflexivity. Qed.

(* a usable probe at the root hash *)
Example root_probe :
  hash start <> 0%N /\
  tt_get go_nb go_INF (s_tt second_state) (hash start) (-32767) 32767 3 0 = (50, true, 58983553%N).
Proof. split; [vm_compute; discriminate|vm_compute; reflexivity]. Qed.

Example root_probe_justified :
  exists sv, stored_in [start] sv /\ sv_hash sv = hash start /\
             explains go_INF sv (-32767) 32767 3 0 50 58983553%N.
Proof.
  destruct root_probe as [Hnz Hg].
  exact (session_probe_justified [start] _ _ _ _ _ _ _ _ second_state_table Hnz Hg).
Qed.

(* a node that takes the cutoff: the position after b2b3, searched with the null window (0,1) at depth 2, ply 1 *)
Definition b2b3 : N := 1544%N.
Definition child : position := match make_move go_keys start b2b3 with Ok q => q | _ => start end.

Example child_cutoff_hypotheses :
  hash child <> 0%N /\
  fst (poll second_state) = false /\
  is_in_check child (side child) = Ok false /\
  (node_depth false 2 =? 0)%N = false /\
  negb (1 =? 0)%N && negb false &&
    is_repetition (upd_nodes (snd (poll second_state)) (w64 (s_nodes (snd (poll second_state)) + 1))) child = false /\
  (exists s2, push_history go_sconsts
                (upd_nodes (snd (poll second_state)) (w64 (s_nodes (snd (poll second_state)) + 1))) child = ROk s2) /\
  (sub16 1 0 =? 1) = true /\
  tt_get go_nb go_INF (s_tt second_state) (hash child) 0 1 (node_depth false 2) 1 = (1, true, 2099897%N).
Proof.
  split; [vm_compute; discriminate|].
  split; [reflexivity|].
  split; [vm_compute; reflexivity|].
  split; [reflexivity|].
  split; [reflexivity|].
  split; [eexists; reflexivity|].
  split; [reflexivity|].
  vm_compute. reflexivity.
Qed.

Example child_cutoff_justified : forall f cn pm rh,
  (exists s', go_negamax (S f) second_state child 0 1 2 1 cn pm rh = (ROk (1, []), s')) /\
  exists sv, stored_in [start] sv /\ sv_hash sv = hash child /\ explains go_INF sv 0 1 2 1 1 2099897%N.
Proof.
  intros f cn pm rh.
  destruct child_cutoff_hypotheses as (Hnz & Hp & Hic & Hd & Hrep & (s2 & Hpush) & Hpv & Hg).
  destruct (session_cutoff_justified [start] f second_state child 0 1 2 1 cn pm rh false 1 2099897%N
              (snd (poll second_state)) s2 second_state_table Hnz) as [E J]; try assumption.
  - reflexivity.
  - reflexivity.
  - split; [eexists; exact E|exact J].
Qed.

(* the table is not transparent: the second search differs from the first *)
Example second_search_observed :
  fst second_search = ROk 58983553%N /\ s_nodes (snd second_search) = 237%N /\
  s_out (snd second_search) <> s_out after_first.
Proof.
  split; [vm_compute; reflexivity|]. split; [vm_compute; reflexivity|].
  vm_compute. discriminate.
Qed.

Print Assumptions second_state_table.
Print Assumptions root_probe_justified.
Print Assumptions child_cutoff_justified.
Print Assumptions second_search_observed.
