(* C04 (g): executable examples and the witnesses for the hypotheses of C04Null.NullGo.
   - a stalemated and a checkmated root are answered with the null move (immediate timeout);
   - a root with exactly one legal move is answered with it (immediate timeout);
   - the hypotheses of [null_only_without_moves_legal] are met by non-trivial states;
   - [cache_sane] cannot be dropped: one junk cache entry makes the engine answer the null move at a
     root that has a legal move;
   - [few_gen] is NOT needed: at a root with exactly 256 legal moves the uint8 counter wraps to 0, the
     root takes the "no legal move" exit and reports the contempt score - but with the line collected
     so far, so the answer is still a move. *)
From Coq Require Import NArith ZArith List Bool FMapPositive Lia String.
From Clemens Require Import Base.Res Base.Word Pos.Types Att.Attacks Pos.Position Pos.Inv Eval.Eval
     Search.TT Search.Ordering Search.Negamax Search.SearchStruct Search.SearchLines
     Search.SearchIter Search.GoInst Search.SearchGo.
From Clemens.C13Mate Require Import MateDefs MateRange MateExamples.
From Clemens.C13Bridge Require Import Bridge Seq Few.
From Clemens.C04Null Require Import NullRoot NullGo.
Import ListNotations.
Open Scope Z_scope.

(* split conjunctions only ([split] on an equation would try to convert its two sides lazily) *)
Ltac conj_vm := repeat match goal with |- _ /\ _ => split end; vm_compute; reflexivity.

From Clemens.C04Null Require Import NullExamples.
(* ------------------------------------------------------------------ 256 legal moves *)
(* [Inv] holds (not [material_ok]: 41 queens), 256 generated moves, all legal.  The uint8 counter is 0
   after the loop: the root takes the stalemate exit and reports the contempt value 400 instead of
   its real score - but with the line of the best move found, so a move is answered. *)
Example wrap256 :
  Inv (root_of fen256) /\
  gen_count (root_of fen256) = Some 256%nat /\ legal_count (root_of fen256) = Some 256%nat /\
  ~ few_gen (root_of fen256) /\
  contempt go_econsts (root_of fen256) = Ok 400 /\
  run fen256 true None 1 = (ROk 695%N, [EInfo 1 400 264 0 [695%N]]) /\
  run fen256 false (Some 0%N) 0 = (ROk 695%N, [EInfo 1 400 264 0 [695%N]]) /\
  existsb (N.eqb 695) (match legal_moves go_keys (root_of fen256) with Ok l => l | _ => [] end) = true.
Proof.
  assert (G : gen_count (root_of fen256) = Some 256%nat) by (vm_compute; reflexivity).
  split; [vm_compute; reflexivity|]. split; [exact G|]. split; [vm_compute; reflexivity|].
  split; [intros F; apply (gen_count_few _ _ G) in F; lia|].
  conj_vm.
Qed.

Print Assumptions wrap256.
