From Coq Require Import NArith ZArith List Bool String.
From Clemens Require Import Base.Res Base.Word Pos.Types Pos.Position Pos.Inv Eval.Eval Search.TT Search.Negamax Search.GoInst Search.SearchGo.
From Clemens.C13Mate Require Import MateDefs MateRange MateExamples.
From Clemens.C13Bridge Require Import Bridge Few.
Import ListNotations. Open Scope string_scope.
Definition stalemate_fen := "7k/5Q2/6K1/8/8/8/8/8 b - - 0 1".
Definition one_fen := "8/8/8/8/8/8/2k5/K7 w - - 0 1".
Definition fen256 := "RNQQQQBk/Q5RB/Q6Q/Q6Q/Q6Q/Q6Q/Q6Q/KQQQQQQB w - - 0 1".
Definition run (fen : string) (rep : bool) (c : option N) (req : N) :=
  let '(r, s) := go_search 10 200 rep (go_empty_sst c) (root_of fen) req in (r, s_out s).
Time Eval vm_compute in (legal_moves go_keys (root_of stalemate_fen), is_in_check (root_of stalemate_fen) 1%N, legal_pos_b (root_of stalemate_fen), run stalemate_fen true (Some 0%N) 0, run stalemate_fen false (Some 0%N) 0).
Time Eval vm_compute in (legal_moves go_keys (root_of fools_mate_fen), legal_pos_b (root_of fools_mate_fen), run fools_mate_fen true (Some 0%N) 0, run fools_mate_fen false (Some 0%N) 0).
Time Eval vm_compute in (legal_moves go_keys (root_of one_fen), legal_pos_b (root_of one_fen),  is_in_check (root_of one_fen) 0%N, run one_fen true (Some 0%N) 0, run one_fen false (Some 0%N) 0).
Time Eval vm_compute in (legal_count (root_of fen256), inv_b (root_of fen256), run fen256 true None 1, run fen256 true (Some 0%N) 0).
