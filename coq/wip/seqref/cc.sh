#!/bin/sh
# usage: wip/seqref/cc.sh File [timeout]
cd /verif/coq && /usr/bin/time -f "%es" timeout ${2:-900} coqc -Q theories Clemens -Q gen ClemensGen -Q wip/seqref WipSeqref -w -notation-overridden,-deprecated-hint-without-locality,-deprecated-instance-without-locality wip/seqref/$1.v 2>&1
