(* C03, text side, part 4: the `position` command replays the game.
   Reference: [game_line K p ms qs] - the moves ms are played from p, each one in the [legal_moves]
   list of the position it is played from; qs are the successive positions.
   [play] (Search.MakeMoveFromString in a loop) on the printed texts of ms ends in the last of qs and
   pushes exactly the hashes of qs on the repetition stack, as long as the stack (1024 entries in the
   Go build, [se_history_size]) does not overflow; beyond that the engine panics.
   The C10 preservation statement [inv_step_statement K] is a PREMISE here (proved elsewhere). *)
From Coq Require Import NArith ZArith List Bool Lia ZifyBool ZifyN ZifyNat.
From Clemens Require Import Base.Res Base.Word Base.Bytes Pos.Types Att.Attacks Pos.Position Pos.Fen Pos.Inv
  Pos.ZobristProofs Uci.Game.
From WipText Require Import SquareText GenClass MoveText.
Import ListNotations.
Open Scope N_scope.

Section Replay.
Variable K : zkeys.
Variable tbl : list (N * N * N).
Variable hist_size : N.

(* the reference game: fold MakeMove over moves that are legal where they are played *)
Inductive game_line : position -> list N -> list position -> Prop :=
| GL_nil (p : position) : game_line p [] []
| GL_cons (p : position) (ls : list N) (m : N) (q : position) (ms : list N) (qs : list position) :
    legal_moves K p = Ok ls -> In m ls -> make_move K p m = Ok q -> game_line q ms qs ->
    game_line p (m :: ms) (q :: qs).

(* the same as a function: [Err] when a move is not legal where it is played *)
Fixpoint play_moves (p : position) (ms : list N) : res (list position) :=
  match ms with
  | [] => Ok []
  | m :: r =>
    ls <- legal_moves K p ;;
    if existsb (N.eqb m) ls then
      q <- make_move K p m ;;
      qs <- play_moves q r ;;
      Ok (q :: qs)
    else Err
  end.

Lemma play_moves_line (ms : list N) : forall p qs, play_moves p ms = Ok qs <-> game_line p ms qs.
Proof.
  induction ms as [|m r IH]; intros p qs; cbn [play_moves].
  - split; [intros [= <-]; constructor | intros H; inversion H; reflexivity].
  - split.
    + intros H. bind_inv H. destruct (existsb (N.eqb m) a) eqn:Ex; [|discriminate].
      bind_inv H. bind_inv H. injection H as <-.
      apply existsb_exists in Ex. destruct Ex as (x & Hx & Ex). apply N.eqb_eq in Ex. subst x.
      econstructor; eauto. now apply IH.
    + intros H. inversion H as [|p' ls m' q ms' qs' L Hin M G]; subst. rewrite L. cbn [bind].
      replace (existsb (N.eqb m) ls) with true
        by (symmetry; apply existsb_exists; exists m; split; [auto|apply N.eqb_refl]).
      rewrite M. cbn [bind]. apply IH in G. rewrite G. reflexivity.
Qed.

(* a legal move can always be made: the legality filter made it on a copy *)
Lemma legal_move_makes (p : position) (ls : list N) (m : N) :
  legal_moves K p = Ok ls -> In m ls -> exists q, make_move K p m = Ok q /\ is_legal q = Ok true.
Proof.
  unfold legal_moves. intros H Hin. bind_inv H. clear E.
  revert ls H Hin. induction a as [|x ms IH]; cbn [fold_right]; intros ls H Hin.
  - injection H as <-. destruct Hin.
  - bind_inv H. bind_inv H. bind_inv H. injection H as <-. destruct a1.
    + destruct Hin as [<-|Hin]; [eauto|eauto].
    + eauto.
Qed.

Definition printed (ms : list N) (toks : list bytes) : Prop := Forall2 (fun m t => move_to_string m = Ok t) ms toks.

(* every move list has printed texts: Move.String is total *)
Lemma printed_exists (ms : list N) : exists toks, printed ms toks.
Proof.
  induction ms as [|m r (toks & IH)]; [exists []; constructor|].
  destruct (move_to_string_total m) as (t & Ht). exists (t :: toks). now constructor.
Qed.

Lemma last_cons {A} (q : A) (qs : list A) (d : A) : last (q :: qs) d = last qs q.
Proof. revert q. induction qs as [|x qs IH]; intros q; [reflexivity|]. cbn [last] in *. destruct qs; auto. Qed.

Lemma game_line_length (p : position) (ms : list N) (qs : list position) :
  game_line p ms qs -> length qs = length ms.
Proof. induction 1; cbn [length]; auto. Qed.

Section WithInvStep.
Hypothesis inv_step : inv_step_statement K.

Lemma game_line_inv (p : position) (ms : list N) (qs : list position) :
  Inv p -> game_line p ms qs -> Forall Inv qs.
Proof.
  intros I G. induction G as [p|p ls m q ms qs L Hin M G IH]; constructor.
  - eapply inv_step; eauto.
  - apply IH. eapply inv_step; eauto.
Qed.

(* C03: Search.MakeMoveFromString in a loop replays the game and records its hashes *)
Theorem play_replays (p : position) (ms : list N) (qs : list position) (hist : list N) (toks : list bytes) :
  Inv p -> game_line p ms qs -> printed ms toks ->
  N.of_nat (length hist) + N.of_nat (length ms) <= hist_size ->
  play K tbl hist_size p hist toks = NPSet {| g_pos := last qs p; g_hist := hist ++ map hash qs |}.
Proof.
  intros I G. revert hist toks I.
  induction G as [p|p ls m q ms qs L Hin M G IH]; intros hist toks I P B.
  - inversion P; subst. cbn [play last map]. now rewrite app_nil_r.
  - inversion P as [|m' t ms' toks' Ht P']; subst. cbn [play].
    destruct (legal_move_text_roundtrip K tbl p ls m t I L Hin Ht) as [_ ->]. rewrite M.
    cbn [length] in B. replace (N.of_nat (length hist) <? hist_size) with true by lia.
    rewrite (IH (hist ++ [hash q]) toks').
    + rewrite last_cons. cbn [map]. now rewrite <- app_assoc.
    + eapply inv_step; eauto.
    + exact P'.
    + rewrite app_length. cbn [length]. lia.
Qed.

(* the bound is sharp: one move more than the stack holds and the engine dies (index out of range) *)
Theorem play_overflows (p : position) (ms : list N) (qs : list position) (hist : list N) (toks : list bytes) :
  Inv p -> game_line p ms qs -> printed ms toks ->
  N.of_nat (length hist) <= hist_size ->
  hist_size < N.of_nat (length hist) + N.of_nat (length ms) ->
  play K tbl hist_size p hist toks = NPPanic.
Proof.
  intros I G. revert hist toks I.
  induction G as [p|p ls m q ms qs L Hin M G IH]; intros hist toks I P B0 B.
  - cbn [length] in B. lia.
  - inversion P as [|m' t ms' toks' Ht P']; subst. cbn [play].
    destruct (legal_move_text_roundtrip K tbl p ls m t I L Hin Ht) as [_ ->]. rewrite M.
    cbn [length] in B. destruct (N.of_nat (length hist) <? hist_size) eqn:E; [|reflexivity].
    apply IH; auto.
    + eapply inv_step; eauto.
    + rewrite app_length. cbn [length]. lia.
    + rewrite app_length. cbn [length]. lia.
Qed.

(* -- `position startpos moves m1 ... mn` -- *)
Theorem position_startpos_replays (p0 : position) (ms : list N) (qs : list position) (toks : list bytes) :
  new_position K = Ok p0 -> game_line p0 ms qs -> printed ms toks ->
  N.of_nat (length ms) <= hist_size ->
  new_position_cmd K tbl hist_size (w_startpos :: w_moves :: toks) =
    NPSet {| g_pos := last qs p0; g_hist := map hash qs |}.
Proof.
  intros N0 G P B. unfold new_position_cmd. change (bytes_eqb w_startpos w_startpos) with true. cbv iota.
  rewrite N0. destruct toks as [|t toks].
  - inversion P; subst. inversion G; subst. reflexivity.
  - change (bytes_eqb w_moves w_moves) with true. cbv iota.
    apply (play_replays p0 ms qs [] (t :: toks)); auto.
    eapply new_position_inv; eauto.
Qed.

(* -- `position fen F1 .. F6 moves m1 ... mn` -- *)
Theorem position_fen_replays (six : list bytes) (p0 : position) (ms : list N) (qs : list position) (toks : list bytes) :
  length six = 6%nat -> new_from_fen K tbl (join_sp six) = Ok p0 -> Inv p0 ->
  game_line p0 ms qs -> printed ms toks ->
  N.of_nat (length ms) <= hist_size ->
  new_position_cmd K tbl hist_size (w_fen :: six ++ w_moves :: toks) =
    NPSet {| g_pos := last qs p0; g_hist := map hash qs |}.
Proof.
  intros L6 Fen I G P B.
  destruct six as [|f1 [|f2 [|f3 [|f4 [|f5 [|f6 [|]]]]]]]; try discriminate L6.
  unfold new_position_cmd. change (bytes_eqb w_fen w_startpos) with false.
  change (bytes_eqb w_fen w_fen) with true. cbv iota.
  cbn [app length firstn skipn].
  replace (N.of_nat (S (S (S (S (S (S (S (S (length toks))))))))) <? 7) with false by lia.
  rewrite Fen. destruct toks as [|t toks].
  - inversion P; subst. inversion G; subst. reflexivity.
  - change (bytes_eqb w_moves w_moves) with true. cbv iota.
    apply (play_replays p0 ms qs [] (t :: toks)); auto.
Qed.

End WithInvStep.

(* ------------------------------------------------------------------------------------------ *)
(* Quirks of NewPosition the model reproduces (no invariant needed)                              *)

(* `position startpos` and `position startpos moves` (no move token) are the same command *)
Lemma position_startpos_only (p0 : position) :
  new_position K = Ok p0 ->
  new_position_cmd K tbl hist_size [w_startpos] = NPSet {| g_pos := p0; g_hist := [] |} /\
  new_position_cmd K tbl hist_size [w_startpos; w_moves] = NPSet {| g_pos := p0; g_hist := [] |}.
Proof. intros H. unfold new_position_cmd. cbn. rewrite H. auto. Qed.

(* whatever follows the position and does not start with the word `moves` is ignored without a message;
   so is a single trailing token, whatever it is *)
Lemma position_startpos_junk (p0 : position) (w : bytes) (rest : list bytes) :
  new_position K = Ok p0 -> bytes_eqb w w_moves = false ->
  new_position_cmd K tbl hist_size (w_startpos :: w :: rest) = NPSet {| g_pos := p0; g_hist := [] |}.
Proof.
  intros H W. unfold new_position_cmd. change (bytes_eqb w_startpos w_startpos) with true. cbv iota.
  rewrite H. destruct rest; [reflexivity|]. now rewrite W.
Qed.

(* `position fen` with fewer than six fields: message, nothing set (the previous search object stays) *)
Lemma position_fen_short (rest : list bytes) :
  (length rest < 6)%nat -> new_position_cmd K tbl hist_size (w_fen :: rest) = NPNone false.
Proof.
  intros H. unfold new_position_cmd. change (bytes_eqb w_fen w_startpos) with false.
  change (bytes_eqb w_fen w_fen) with true. cbv iota.
  replace (N.of_nat (length (w_fen :: rest)) <? 7) with true by (cbn [length]; lia). reflexivity.
Qed.

(* a FEN the parser rejects: message, nothing set *)
Lemma position_fen_rejected (rest : list bytes) :
  (6 <= length rest)%nat -> new_from_fen K tbl (join_sp (firstn 6 rest)) = Err ->
  new_position_cmd K tbl hist_size (w_fen :: rest) = NPNone false.
Proof.
  intros H E. unfold new_position_cmd. change (bytes_eqb w_fen w_startpos) with false.
  change (bytes_eqb w_fen w_fen) with true. cbv iota.
  replace (N.of_nat (length (w_fen :: rest)) <? 7) with false by (cbn [length]; lia). now rewrite E.
Qed.

(* any other first word: `pos` stays nil and NewSearch dereferences it *)
Lemma position_unknown_word (w : bytes) (rest : list bytes) :
  bytes_eqb w w_startpos = false -> bytes_eqb w w_fen = false ->
  new_position_cmd K tbl hist_size (w :: rest) = NPPanic.
Proof. intros H1 H2. unfold new_position_cmd. now rewrite H1, H2. Qed.

(* a rejected move text stops the loop; the moves before it stay applied *)
Lemma play_stops_at_error (p : position) (hist : list N) (t : bytes) (rest : list bytes) :
  make_move_from_string K tbl p t = Err ->
  play K tbl hist_size p hist (t :: rest) = NPMoveError {| g_pos := p; g_hist := hist |}.
Proof. intros H. cbn [play]. now rewrite H. Qed.

End Replay.
