(* C03, text side, part 3: every move the engine generates is printed by Move.String as a text that
   MakeMoveFromString reads back as THE SAME 32-bit word - so the engine plays the move the GUI means.
   The move kind is not in the text: it is inferred from the board (king moving two squares = castling,
   pawn changing file onto an empty square = en passant, fifth character = promotion); on generated
   moves of a position satisfying the C10 invariant the inference coincides with the generated kind. *)
From Coq Require Import NArith ZArith List Bool Lia ZifyBool ZifyN ZifyNat.
From Clemens Require Import Base.Res Base.Word Base.Bytes Pos.Types Att.Attacks Pos.Position Pos.Fen Pos.Inv
  Pos.CapturesProofs Pos.ZobristProofs.
From WipText Require Import SquareText GenClass.
Import ListNotations.
Open Scope N_scope.

Local Notation cmv := CapturesProofs.castle_mv.

Lemma promo_suffix (pt : N) : In pt promo_types ->
  exists c, promo_char pt = [c] /\ piece_type_from_char c = Ok pt /\ In c [110; 98; 114; 113].
Proof.
  intros [<-|[<-|[<-|[<-|[]]]]]; [exists 110|exists 98|exists 114|exists 113]; cbn; repeat split; tauto.
Qed.

Section RoundTrip.
Variable p : position.
Hypothesis I : Inv p.

Let F : facts p := CapturesProofs.inv_facts p I.

Lemma get_own (s T : N) : s < 64 -> T < 6 -> piece_at p s = new_piece (side p) T ->
  exists pc, get_piece p s = Ok pc /\ piece_type pc = T.
Proof.
  intros Hs HT P. exists (piece_at p s). split; [apply (get_piece_at p F); auto|].
  rewrite P. apply piece_type_new; auto. apply (side_lt p F).
Qed.

(* a pawn move that is not the en-passant capture is not mistaken for one *)
Lemma pawn_not_ep (s t : N) (k : N -> res N) : t < 64 -> pawn_target p s t ->
  (dpc <- (if negb (file_of s =? file_of t) then get_piece p t else Ok 1) ;;
   if negb (file_of s =? file_of t) && (dpc =? NO_PIECE) then Ok (mv_set_kind (mk_move s t) EN_PASSANT) else k dpc)
  = k (if negb (file_of s =? file_of t) then piece_at p t else 1).
Proof.
  intros Ht [[Hf Hp] | [Hf Hp]].
  - replace (file_of s =? file_of t) with true by lia. cbn [negb bind andb]. reflexivity.
  - replace (file_of s =? file_of t) with false by lia. cbn [negb]. rewrite (get_piece_at p F t Ht). cbn [bind andb].
    replace (piece_at p t =? NO_PIECE) with false by lia. reflexivity.
Qed.

(* the heart: per class, the printed text and the inference *)
Lemma class_roundtrip (m : N) : gen_class p m ->
  exists s t suf, s < 64 /\ t < 64 /\
    move_to_string m = Ok (sq_text s ++ sq_text t ++ suf_bytes suf) /\ infer_move p s t suf = Ok m.
Proof.
  intros C. rewrite move_to_string_text. unfold uci_text.
  destruct C as [s t T Hs Ht HT HP Ps HK -> | s t Hs Ht Ps PT R -> | s t pt Hs Ht Ps PT R Hpt ->
                | s t Hs Ht Ps He Hf Pe Pv -> | s t Hs Ps Hst ->].
  - (* piece *)
    exists s, t, None. unfold uci_promo.
    rewrite mv_src_mk_move, mv_dst_mk_move, mv_kind_mk_move by assumption.
    repeat split; auto. unfold infer_move.
    destruct (get_own s T Hs HT Ps) as (pc & Gp & Tp). rewrite Gp. cbn [bind]. cbv zeta. rewrite Tp.
    replace (T =? PAWN) with false by lia.
    destruct (T =? KING) eqn:EK; [|reflexivity].
    apply N.eqb_eq in EK. specialize (HK EK). replace (abs_diff s t =? 2) with false by lia. reflexivity.
  - (* pawn, no promotion *)
    exists s, t, None. unfold uci_promo.
    rewrite mv_src_mk_move, mv_dst_mk_move, mv_kind_mk_move by assumption.
    repeat split; auto. unfold infer_move.
    destruct (get_own s PAWN Hs eq_refl Ps) as (pc & Gp & Tp). rewrite Gp. cbn [bind]. cbv zeta. rewrite Tp.
    change (PAWN =? KING) with false. change (PAWN =? PAWN) with true. cbn [andb].
    rewrite (pawn_not_ep s t (fun _ => Ok (mk_move s t)) Ht PT). reflexivity.
  - (* promotion *)
    destruct (promo_suffix pt Hpt) as (c & Hc & Hpc & _).
    destruct (mk_promo_fields s t Hs Ht pt Hpt) as (D & Kd & Pr & Sr).
    exists s, t, (Some c). unfold uci_promo. rewrite Sr, D, Kd, Pr. change (PROMOTION =? PROMOTION) with true.
    cbn [uci_suffix suf_bytes]. rewrite Hc.
    repeat split; auto. unfold infer_move.
    destruct (get_own s PAWN Hs eq_refl Ps) as (pc & Gp & Tp). rewrite Gp. cbn [bind]. cbv zeta. rewrite Tp.
    change (PAWN =? KING) with false. change (PAWN =? PAWN) with true. cbn [andb].
    rewrite (pawn_not_ep s t (fun _ => pt0 <- piece_type_from_char c ;;
                                        Ok (mv_set_promo (mv_set_kind (mk_move s t) PROMOTION) pt0)) Ht PT).
    rewrite Hpc. reflexivity.
  - (* en passant *)
    destruct (decode_simple (mk_move_kind s t EN_PASSANT) s t Hs Ht (or_intror (or_intror eq_refl))) as (Sr & D & _).
    exists s, t, None. unfold uci_promo. rewrite Sr, D, mv_kind_ep by assumption.
    change (EN_PASSANT =? PROMOTION) with false.
    repeat split; auto. unfold infer_move.
    destruct (get_own s PAWN Hs eq_refl Ps) as (pc & Gp & Tp). rewrite Gp. cbn [bind]. cbv zeta. rewrite Tp.
    change (PAWN =? KING) with false. change (PAWN =? PAWN) with true. cbn [andb].
    replace (file_of s =? file_of t) with false by lia. cbn [negb].
    rewrite (get_piece_at p F t Ht). cbn [bind andb]. rewrite Pe. reflexivity.
  - (* castling *)
    assert (Ls : s < 64) by (rewrite Hs; destruct (side_cases p I) as [-> | ->]; reflexivity).
    assert (Lt : t < 64) by (rewrite Hs in Hst; destruct (side_cases p I) as [E | E]; rewrite E in Hst;
                             cbv [king_home WHITE BLACK N.eqb Pos.eqb E1 E8] in Hst; lia).
    exists s, t, None.
    assert (W : mv_src (cmv s t) = s /\ mv_dst (cmv s t) = t /\ mv_kind (cmv s t) = CASTLING /\
                mv_set_kind (mk_move s t) CASTLING = cmv s t /\ abs_diff s t = 2).
    { rewrite Hs in Hst |- *. destruct (side_cases p I) as [E | E]; rewrite E in Hst |- *;
        cbv [king_home WHITE BLACK N.eqb Pos.eqb E1 E8] in Hst |- *;
        destruct Hst as [-> | Hst]; try (assert (t = 2) as -> by lia); try (assert (t = 58) as -> by lia);
        vm_compute; repeat split; reflexivity. }
    destruct W as (Sr & D & Kd & Wd & Ad). unfold uci_promo. rewrite Sr, D, Kd.
    change (CASTLING =? PROMOTION) with false.
    repeat split; auto. unfold infer_move.
    destruct (get_own s KING Ls eq_refl Ps) as (pc & Gp & Tp). rewrite Gp. cbn [bind]. cbv zeta. rewrite Tp.
    change (KING =? KING) with true. rewrite Ad. change (2 =? 2) with true. cbn [andb]. now rewrite Wd.
Qed.

End RoundTrip.

(* ------------------------------------------------------------------------------------------ *)
(* C03: the move text round trip                                                               *)

(* Every generated move of a position satisfying the invariant: Move.String prints a text, and
   MakeMoveFromString decodes that text to the very same move word (squares, kind, promotion piece,
   score bits 0), whatever the digit table. *)
Theorem move_text_roundtrip (tbl : list (N * N * N)) (p : position) (ms : list N) (m : N) (s : bytes) :
  Inv p -> gen_moves p = Ok ms -> In m ms ->
  move_to_string m = Ok s -> move_from_string tbl p s = Ok m.
Proof.
  intros I G Hin Hs. destruct (class_roundtrip p I m (gen_moves_class p I ms m G Hin)) as (a & b & suf & La & Lb & T & R).
  assert (E : s = sq_text a ++ sq_text b ++ suf_bytes suf) by congruence. subst s.
  rewrite move_from_string_text by assumption. exact R.
Qed.

Theorem generated_move_prints (m : N) : exists s, move_to_string m = Ok s.
Proof. apply move_to_string_total. Qed.

(* ... hence MakeMoveFromString of the printed text IS MakeMove of the move *)
Theorem make_move_from_string_printed (K : zkeys) (tbl : list (N * N * N)) (p : position) (ms : list N) (m : N) (s : bytes) :
  Inv p -> gen_moves p = Ok ms -> In m ms -> move_to_string m = Ok s ->
  make_move_from_string K tbl p s = make_move K p m.
Proof.
  intros I G Hin Hs. unfold make_move_from_string. now rewrite (move_text_roundtrip tbl p ms m s I G Hin Hs).
Qed.

(* the same for the moves search and perft actually play *)
Corollary legal_move_text_roundtrip (K : zkeys) (tbl : list (N * N * N)) (p : position) (ls : list N) (m : N) (s : bytes) :
  Inv p -> legal_moves K p = Ok ls -> In m ls -> move_to_string m = Ok s ->
  move_from_string tbl p s = Ok m /\ make_move_from_string K tbl p s = make_move K p m.
Proof.
  intros I L Hin Hs. destruct (legal_moves_in K p ls m L Hin) as (ms & G & Hin').
  split; [eapply move_text_roundtrip | eapply make_move_from_string_printed]; eauto.
Qed.

(* two different generated moves never print the same text: the GUI's text identifies the move *)
Corollary move_text_injective (p : position) (ms : list N) (m1 m2 : N) (s : bytes) :
  Inv p -> gen_moves p = Ok ms -> In m1 ms -> In m2 ms ->
  move_to_string m1 = Ok s -> move_to_string m2 = Ok s -> m1 = m2.
Proof.
  intros I G H1 H2 S1 S2.
  pose proof (move_text_roundtrip [] p ms m1 s I G H1 S1) as R1.
  pose proof (move_text_roundtrip [] p ms m2 s I G H2 S2) as R2. congruence.
Qed.

(* ------------------------------------------------------------------------------------------ *)
(* The same read from the GUI's side: UCI notation                                              *)

(* A GUI names a move by source square, target square and, for a promotion, the piece letter:
   castling is the king's two-file move, the en-passant capture a plain pawn move.  For every
   generated move that text is what Move.String prints ([move_to_string_text], any word), and it is
   decoded to the generated move. *)
Theorem uci_text_accepted (tbl : list (N * N * N)) (p : position) (ms : list N) (m : N) :
  Inv p -> gen_moves p = Ok ms -> In m ms ->
  move_from_string tbl p (uci_text (mv_src m) (mv_dst m) (uci_promo m)) = Ok m.
Proof. intros I G Hin. eapply move_text_roundtrip; eauto. apply move_to_string_text. Qed.

(* a generated move is determined by its squares and promotion piece *)
Corollary generated_move_determined (p : position) (ms : list N) (m1 m2 : N) :
  Inv p -> gen_moves p = Ok ms -> In m1 ms -> In m2 ms ->
  mv_src m1 = mv_src m2 -> mv_dst m1 = mv_dst m2 -> uci_promo m1 = uci_promo m2 -> m1 = m2.
Proof.
  intros I G H1 H2 E1 E2 E3. eapply move_text_injective; eauto using move_to_string_text.
  rewrite E1, E2, E3. apply move_to_string_text.
Qed.

(* what the three special kinds are on the board (the UCI reading of each kind), and what is printed *)
Definition is_own (p : position) (sq T : N) : Prop := piece_at p sq = new_piece (side p) T.

Theorem generated_kind_spec (p : position) (ms : list N) (m : N) :
  Inv p -> gen_moves p = Ok ms -> In m ms ->
  let s := mv_src m in let t := mv_dst m in
  (* castling: the king leaves its home square by two files along the rank *)
  (mv_kind m = CASTLING <-> is_own p s KING /\ abs_diff s t = 2) /\
  (mv_kind m = CASTLING -> s = king_home (side p) /\ rank_of t = rank_of s /\ abs_diff (file_of s) (file_of t) = 2) /\
  (* en passant: a pawn changes file onto an empty square - the en-passant square *)
  (mv_kind m = EN_PASSANT <-> is_own p s PAWN /\ file_of s <> file_of t /\ piece_at p t = NO_PIECE) /\
  (mv_kind m = EN_PASSANT -> t = ep p) /\
  (* promotion: a pawn reaches the last rank; the printed text then has a fifth character n, b, r or q *)
  (mv_kind m = PROMOTION <-> is_own p s PAWN /\ rank_of t = promo_rank (side p)) /\
  (mv_kind m = PROMOTION -> exists c, uci_suffix (uci_promo m) = [c] /\ In c [110; 98; 114; 113] /\
                                      piece_type_from_char c = Ok (mv_promo m)) /\
  (mv_kind m <> PROMOTION -> uci_suffix (uci_promo m) = []).
Proof.
  intros I G Hin. pose proof (gen_moves_class p I ms m G Hin) as C. pose proof (side_lt p (CapturesProofs.inv_facts p I)) as Lc.
  assert (NP : forall T T', T < 6 -> T' < 6 -> new_piece (side p) T = new_piece (side p) T' -> T = T').
  { intros T T' HT HT' E. unfold new_piece in E. lia. }
  cbv zeta. unfold is_own, uci_promo.
  destruct C as [s t T Hs Ht HT HP Ps HK -> | s t Hs Ht Ps PT R -> | s t pt Hs Ht Ps PT R Hpt ->
                | s t Hs Ht Ps He Hf Pe Pv -> | s t Hs Ps Hst ->].
  - rewrite mv_src_mk_move, mv_dst_mk_move, mv_kind_mk_move by assumption. rewrite Ps.
    change (NORMAL =? PROMOTION) with false. cbn [uci_suffix].
    repeat split; try discriminate; try tauto.
    + intros [E A]. apply NP in E; auto; [|reflexivity]. specialize (HK E). contradiction.
    + intros (E & _). apply NP in E; auto; [|reflexivity]. contradiction.
    + intros (E & _). apply NP in E; auto; [|reflexivity]. contradiction.
  - rewrite mv_src_mk_move, mv_dst_mk_move, mv_kind_mk_move by assumption. rewrite Ps.
    change (NORMAL =? PROMOTION) with false. cbn [uci_suffix].
    repeat split; try discriminate; try tauto.
    + intros [E A]. apply NP in E; [discriminate|reflexivity|reflexivity].
    + intros (_ & Hf & Pe). destruct PT as [[? ?]|[? ?]]; contradiction.
  - destruct (mk_promo_fields s t Hs Ht pt Hpt) as (D & Kd & Pr & Sr). rewrite Sr, D, Kd, Pr, Ps.
    change (PROMOTION =? PROMOTION) with true. cbn [uci_suffix].
    repeat split; try discriminate; try tauto.
    + intros [E A]. apply NP in E; [discriminate|reflexivity|reflexivity].
    + intros (_ & Hf & Pe). destruct PT as [[? ?]|[? ?]]; contradiction.
    + intros _. destruct (promo_suffix pt Hpt) as (c & Hc & Hpc & Hin'). exists c. auto.
  - destruct (decode_simple (mk_move_kind s t EN_PASSANT) s t Hs Ht (or_intror (or_intror eq_refl))) as (Sr & D & _).
    rewrite Sr, D, mv_kind_ep by assumption. rewrite Ps.
    change (EN_PASSANT =? PROMOTION) with false. cbn [uci_suffix].
    repeat split; try discriminate; try tauto.
    + intros [E A]. apply NP in E; [discriminate|reflexivity|reflexivity].
    + intros (_ & Rk). exfalso.
      (* the en-passant square is on the sixth (third) rank, not the last *)
      destruct (ep_facts p I) as (Le & _ & _); [rewrite <- He; unfold SQ_NONE; lia|].
      destruct (inv_parts _ I) as (_ & _ & _ & _ & _ & _ & EC & _).
      unfold ep_consistent in EC. rewrite <- He in EC. unfold SQ_NONE in EC.
      replace (t =? 64) with false in EC by lia. cbn [orb] in EC. unfold promo_rank in Rk.
      destruct (side p =? WHITE); rewrite !andb_true_iff, !N.eqb_eq in EC; lia.
  - assert (W : mv_src (cmv s t) = s /\ mv_dst (cmv s t) = t /\ mv_kind (cmv s t) = CASTLING /\
                abs_diff s t = 2 /\ rank_of t = rank_of s /\ abs_diff (file_of s) (file_of t) = 2).
    { rewrite Hs in Hst |- *. destruct (side_cases p I) as [E | E]; rewrite E in Hst |- *;
        cbv [king_home WHITE BLACK N.eqb Pos.eqb E1 E8] in Hst |- *;
        destruct Hst as [-> | Hst]; try (assert (t = 2) as -> by lia); try (assert (t = 58) as -> by lia);
        vm_compute; repeat split; reflexivity. }
    destruct W as (Sr & D & Kd & Ad & Rk & Fd). rewrite Sr, D, Kd, Ps.
    change (CASTLING =? PROMOTION) with false. cbn [uci_suffix].
    repeat split; try discriminate; try tauto.
    + intros (E & _). apply NP in E; [discriminate|reflexivity|reflexivity].
    + intros (E & _). apply NP in E; [discriminate|reflexivity|reflexivity].
Qed.
