(* C03, text side, part 5: the theorems instantiated with the Go build's key table and digit table;
   executable examples (vm_compute) - the premises of the theorems are met by concrete games, a castling,
   an en-passant and a promotion move each round-trip, and inputs OUTSIDE the domain of the theorems
   (texts that are not printed legal moves) show what MakeMoveFromString accepts without checking. *)
From Coq Require Import NArith ZArith List Bool String Ascii.
From Clemens Require Import Base.Res Base.Word Base.Bytes Pos.Types Att.Attacks Pos.Position Pos.Fen Pos.Inv
  Pos.ZobristProofs Pos.ZobristInst Uci.Game.
From ClemensGen Require Import GoConsts.
From WipText Require Import SquareText GenClass MoveText GameReplay.
Import ListNotations.
Open Scope N_scope.

Definition toks (s : string) : list bytes := split_on 32 (bytes_of_string s).
Definition go_position_cmd (s : string) : np_result := new_position_cmd go_keys unicode_digit_tbl se_history_size (toks s).

Definition res_fen (r : np_result) : res bytes :=
  match r with NPSet g => to_fen (g_pos g) | NPMoveError g => to_fen (g_pos g) | _ => Err end.
Definition res_hist (r : np_result) : list N :=
  match r with NPSet g => g_hist g | NPMoveError g => g_hist g | _ => [] end.

(* ------------------------------------------------------------------------------------------ *)
(* the stack of the Go build holds 1024 hashes: a game of 600 plies (C03's bound) fits            *)
Lemma history_holds_600 : 600 <= se_history_size.
Proof. vm_compute. discriminate. Qed.

Lemma go_new_position : new_position go_keys = Ok hm_p0.
Proof. vm_compute. reflexivity. Qed.

(* ------------------------------------------------------------------------------------------ *)
(* position startpos moves e2e4 e7e5 g1f3                                                        *)

Definition g1f3 : N := mk_move 6 21.

Example startpos_three_moves_board :
  res_fen (go_position_cmd "startpos moves e2e4 e7e5 g1f3") =
  Ok (bytes_of_string "rnbqkbnr/pppp1ppp/8/4p3/4P3/5N2/PPPP1PPP/RNBQKB1R b KQkq - 1 2").
Proof. vm_compute. reflexivity. Qed.

(* the reference game exists (the premise [game_line] of the theorems is met) ... *)
Example startpos_three_moves_line :
  exists qs, game_line go_keys hm_p0 [e2e4; e7e5; g1f3] qs /\ printed [e2e4; e7e5; g1f3] (toks "e2e4 e7e5 g1f3").
Proof.
  eexists. split.
  - apply play_moves_line. vm_compute. reflexivity.
  - repeat constructor.
Qed.

(* ... and the command computes it: same final position, the three hashes on the stack *)
Example startpos_three_moves_is_reference :
  match play_moves go_keys hm_p0 [e2e4; e7e5; g1f3] with
  | Ok qs => go_position_cmd "startpos moves e2e4 e7e5 g1f3" = NPSet {| g_pos := last qs hm_p0; g_hist := map hash qs |}
  | _ => False
  end.
Proof. vm_compute. reflexivity. Qed.

(* ------------------------------------------------------------------------------------------ *)
(* every legal move of a position round-trips (boolean check used on the examples)               *)

Definition roundtrip_b (p : position) (m : N) : bool :=
  match move_to_string m with
  | Ok s => match move_from_string unicode_digit_tbl p s with Ok m' => m' =? m | _ => false end
  | _ => false
  end.
Definition all_roundtrip (r : res position) : bool :=
  match r with
  | Ok p => inv_b p && match legal_moves go_keys p with Ok ls => negb (List.length ls =? 0)%nat && forallb (roundtrip_b p) ls | _ => false end
  | _ => false
  end.
Definition has_kind (r : res position) (k : N) : bool :=
  match r with
  | Ok p => match legal_moves go_keys p with Ok ls => existsb (fun m => mv_kind m =? k) ls | _ => false end
  | _ => false
  end.

(* castling: both sides available *)
Definition fen_castle : string := "r3k2r/8/8/8/8/8/8/R3K2R w KQkq - 0 1".
Example castle_all_roundtrip : all_roundtrip (go_fen fen_castle) = true /\ has_kind (go_fen fen_castle) CASTLING = true.
Proof. vm_compute. auto. Qed.
Example castle_text :
  move_to_string (CapturesProofs.castle_mv E1 G1) = Ok (bytes_of_string "e1g1") /\
  (p <- go_fen fen_castle ;; move_from_string unicode_digit_tbl p (bytes_of_string "e1g1"))
    = Ok (CapturesProofs.castle_mv E1 G1) /\
  res_fen (go_position_cmd "fen r3k2r/8/8/8/8/8/8/R3K2R w KQkq - 0 1 moves e1g1 e8c8") =
    Ok (bytes_of_string "2kr3r/8/8/8/8/8/8/R4RK1 w - - 2 2").
Proof. vm_compute. auto. Qed.

(* en passant *)
Definition fen_ep : string := "4k3/8/8/3pP3/8/8/8/4K3 w - d6 0 1".
Example ep_all_roundtrip : all_roundtrip (go_fen fen_ep) = true /\ has_kind (go_fen fen_ep) EN_PASSANT = true.
Proof. vm_compute. auto. Qed.
Example ep_text :
  move_to_string (mk_move_kind 36 43 EN_PASSANT) = Ok (bytes_of_string "e5d6") /\
  (p <- go_fen fen_ep ;; move_from_string unicode_digit_tbl p (bytes_of_string "e5d6"))
    = Ok (mk_move_kind 36 43 EN_PASSANT) /\
  res_fen (go_position_cmd "fen 4k3/8/8/3pP3/8/8/8/4K3 w - d6 0 1 moves e5d6") =
    Ok (bytes_of_string "4k3/8/3P4/8/8/8/8/4K3 b - - 0 1").
Proof. vm_compute. auto. Qed.

(* the double step that creates the en-passant square, then the capture, through the command *)
Example ep_game :
  res_fen (go_position_cmd "startpos moves e2e4 a7a6 e4e5 d7d5 e5d6") =
    Ok (bytes_of_string "rnbqkbnr/1pp1pppp/p2P4/8/8/8/PPPP1PPP/RNBQKBNR b KQkq - 0 3").
Proof. vm_compute. reflexivity. Qed.

(* promotion, with and without capture, all four pieces *)
Definition fen_promo : string := "1n2k3/P7/8/8/8/8/8/4K3 w - - 0 1".
Example promo_all_roundtrip : all_roundtrip (go_fen fen_promo) = true /\ has_kind (go_fen fen_promo) PROMOTION = true.
Proof. vm_compute. auto. Qed.
Example promo_text :
  move_to_string (mk_promo 48 57 KNIGHT) = Ok (bytes_of_string "a7b8n") /\
  (p <- go_fen fen_promo ;; move_from_string unicode_digit_tbl p (bytes_of_string "a7b8n"))
    = Ok (mk_promo 48 57 KNIGHT) /\
  res_fen (go_position_cmd "fen 1n2k3/P7/8/8/8/8/8/4K3 w - - 0 1 moves a7a8q") =
    Ok (bytes_of_string "Qn2k3/8/8/8/8/8/8/4K3 b - - 0 1").
Proof. vm_compute. auto. Qed.

(* kiwipete: 48 legal moves, all kinds but en passant *)
Example kiwipete_all_roundtrip :
  all_roundtrip (go_fen "r3k2r/p1ppqpb1/bn2pnp1/3PN3/1p2P3/2N2Q1p/PPPBBPPP/R3K2R w KQkq - 0 1") = true.
Proof. vm_compute. reflexivity. Qed.

(* ------------------------------------------------------------------------------------------ *)
(* Outside the theorems' domain: texts that are NOT printed legal moves.  MakeMoveFromString does *)
(* not consult the move generator; the model reproduces what the Go code then does.               *)

(* an illegal move is simply executed *)
Example illegal_move_executed :
  res_fen (go_position_cmd "startpos moves e2e5") =
    Ok (bytes_of_string "rnbqkbnr/pppppppp/8/4P3/8/8/PPPP1PPP/RNBQKBNR b KQkq - 0 1").
Proof. vm_compute. reflexivity. Qed.

(* a pawn move to the last rank without the promotion letter leaves a pawn there: the result violates the
   invariant; with more than five characters the letter is ignored as well; the letter `p` (PAWN = 0, and
   (Move(pt) - 1) << 14 wraps on uint32) promotes to a QUEEN *)
Example promotion_letter_missing :
  match go_position_cmd "fen 1n2k3/P7/8/8/8/8/8/4K3 w - - 0 1 moves a7a8" with
  | NPSet g => inv_b (g_pos g) = false /\ to_fen (g_pos g) = Ok (bytes_of_string "Pn2k3/8/8/8/8/8/8/4K3 b - - 0 1")
  | _ => False
  end /\
  res_fen (go_position_cmd "fen 1n2k3/P7/8/8/8/8/8/4K3 w - - 0 1 moves a7a8queen") =
    Ok (bytes_of_string "Pn2k3/8/8/8/8/8/8/4K3 b - - 0 1") /\
  res_fen (go_position_cmd "fen 1n2k3/P7/8/8/8/8/8/4K3 w - - 0 1 moves a7a8p") =
    Ok (bytes_of_string "Qn2k3/8/8/8/8/8/8/4K3 b - - 0 1").
Proof. vm_compute. repeat split. Qed.

(* SquareFromString takes any digit as a rank: `a9` is square 64, and GetPiece(64) is an index panic *)
Example rank_nine_panics :
  square_from_string unicode_digit_tbl (bytes_of_string "a9") = Ok 64 /\
  go_position_cmd "startpos moves a9a1" = NPPanic.
Proof. vm_compute. auto. Qed.

(* a rejected text keeps the moves before it *)
Example error_keeps_prefix :
  match go_position_cmd "startpos moves e2e4 zz e7e5" with
  | NPMoveError g => to_fen (g_pos g) = Ok (bytes_of_string "rnbqkbnr/pppppppp/8/8/4P3/8/PPPP1PPP/RNBQKBNR b KQkq e3 0 1")
                     /\ List.length (g_hist g) = 1%nat
  | _ => False
  end.
Proof. vm_compute. auto. Qed.

(* quirks of the command word handling *)
Example cmd_quirks :
  go_position_cmd "fen 8/8/8/8/8/8/8/8 w - -" = NPNone false /\          (* fewer than six fields *)
  go_position_cmd "banana" = NPPanic /\                                  (* nil position dereferenced *)
  go_position_cmd "startpos moves" = go_position_cmd "startpos" /\       (* no move token *)
  go_position_cmd "startpos e2e4 e7e5" = go_position_cmd "startpos".     (* `moves` forgotten: ignored silently *)
Proof. vm_compute. auto. Qed.

(* ------------------------------------------------------------------------------------------ *)
(* the general theorems at the Go constants                                                     *)

Theorem move_text_roundtrip_go (p : position) (ls : list N) (m : N) (s : bytes) :
  Inv p -> legal_moves go_keys p = Ok ls -> In m ls -> move_to_string m = Ok s ->
  make_move_from_string go_keys unicode_digit_tbl p s = make_move go_keys p m.
Proof. intros I L Hin Hs. eapply legal_move_text_roundtrip; eauto. Qed.

Theorem position_startpos_replays_go (ms : list N) (qs : list position) (ts : list bytes) :
  inv_step_statement go_keys ->
  game_line go_keys hm_p0 ms qs -> printed ms ts -> N.of_nat (List.length ms) <= 1024 ->
  new_position_cmd go_keys unicode_digit_tbl se_history_size (w_startpos :: w_moves :: ts) =
    NPSet {| g_pos := last qs hm_p0; g_hist := map hash qs |}.
Proof.
  intros IS G P B. apply (position_startpos_replays go_keys unicode_digit_tbl se_history_size IS hm_p0 ms qs ts go_new_position G P B).
Qed.

Print Assumptions square_text_roundtrip.
Print Assumptions move_text_roundtrip.
Print Assumptions make_move_from_string_printed.
Print Assumptions legal_move_text_roundtrip.
Print Assumptions move_text_injective.
Print Assumptions uci_text_accepted.
Print Assumptions generated_move_determined.
Print Assumptions generated_kind_spec.
Print Assumptions gen_moves_class.
Print Assumptions play_replays.
Print Assumptions play_overflows.
Print Assumptions position_startpos_replays.
Print Assumptions position_fen_replays.
Print Assumptions position_startpos_replays_go.
