(* Whole-game theorems, part 5: non-vacuity.  Concrete sessions and games evaluated by the kernel, and instances of
   the main theorems with every hypothesis discharged. *)
From Coq Require Import NArith ZArith List Bool Lia String Ascii.
From Clemens Require Import Base.Res Base.Word Base.Bytes Pos.Types Pos.Position Pos.Fen Pos.Inv
     Pos.ZobristInst Eval.Eval Search.TT Search.Negamax Search.SearchStruct Search.SearchLines Search.GoInst
     Uci.ParseGo Uci.ParseGoProofs Uci.Input Uci.InputProofs Uci.GoLineSpec Uci.Game Uci.Engine Uci.EngineInst.
From Clemens.C13Mate Require Import MateDefs MateRange MateExamples.
From Clemens.C13Bridge Require Import Bridge Seq.
From Clemens Require Import Rules.Abs Rules.Fide.
From Clemens.C01Att Require Import FideFacts.
From Clemens.C03Recon Require Import FideText Recon.
From ClemensGen Require Import GoConsts.
From Clemens.EngineE2E Require Import EngBase EngDispatch EngState EngSearch EngE2E EngText EngExamples EngFinal.
From WipGame Require Import GameInv GameAfter GameWhole GameMate.
Import ListNotations.
Open Scope list_scope.
Open Scope string_scope.

(* ================================================================== goal 1: a session and the invariant *)
Definition mate_fen : string := "6k1/5ppp/8/8/8/8/8/R3K3 w Q - 0 1".
Definition session2 : list (bytes * option N) :=
  [(bs "uci", None); (bs "isready", None);
   (bs "position startpos moves e2e4 e7e5", None); (bs "go depth 1", None);
   (bs "go depth 1", None);                                        (* refused: IDLE *)
   (bs "position", None);                                          (* rejected: no tokens *)
   (bs "position fen 8/8/8 w", None);                              (* rejected: FEN too short *)
   (bs "ucinewgame", None);
   (bs ("position fen " ++ mate_fen ++ " moves"), None); (bs "go depth 2", Some 3%N)].

Definition mate_six : list bytes := [bs "6k1/5ppp/8/8/8/8/8/R3K3"; bs "w"; bs "Q"; bs "-"; bs "0"; bs "1"].
Definition mate_p0 : position := root_of mate_fen.

Lemma mate_p0_fen : new_from_fen go_keys unicode_digit_tbl (join_sp mate_six) = Ok mate_p0.
Proof. vm_compute. reflexivity. Qed.
Lemma mate_p0_legal : legal_pos mate_p0.
Proof. apply legal_pos_b_sound. vm_compute. reflexivity. Qed.

Lemma not_position : forall line,
  match handle_line V line with CPosition _ => false | _ => true end = true -> in_domain_text line.
Proof. intros line H. left. intros ts E. rewrite E in H. discriminate. Qed.

Lemma session2_in_domain : forall iters fuel e, in_domain_session iters fuel e session2.
Proof.
  intros iters fuel e. apply in_domain_text_session. unfold session2.
  repeat (apply Forall_cons || apply Forall_nil); cbn [fst];
    try (apply not_position; vm_compute; reflexivity).
  - (* position startpos moves e2e4 e7e5 *)
    right. left. exists ex_fms, ex_s. split; [exact ex_game|]. split; [cbn; lia|].
    exists []. split; [vm_compute; reflexivity|constructor].
  - (* position *)
    right. right. right. exists []. split; [vm_compute; reflexivity|left; reflexivity].
  - (* position fen 8/8/8 w *)
    right. right. right. eexists. split; [vm_compute; reflexivity|]. right. eexists. vm_compute. reflexivity.
  - (* position fen 6k1/5ppp/8/8/8/8/8/R3K3 w Q - 0 1 moves *)
    right. right. left. exists mate_six, mate_p0, [], (abs mate_p0).
    split; [reflexivity|]. split; [exact mate_p0_fen|]. split; [exact mate_p0_legal|].
    split; [constructor|]. split; [cbn; lia|].
    exists []. split; [vm_compute; reflexivity|constructor].
Qed.

(* the session runs to the end of its input (kernel evaluation); hence the engine it leaves meets the invariant, with
   the two searched roots on record *)
Definition run_ends (iters fuel : nat) (e : engine) (ls : list (bytes * option N)) : bool :=
  match fst (go_run iters fuel e ls) with SEof _ => true | _ => false end.
Definition run_end (iters fuel : nat) (e : engine) (ls : list (bytes * option N)) : engine :=
  match fst (go_run iters fuel e ls) with SEof e' => e' | _ => e end.

Lemma run_ends_spec : forall iters fuel e ls, run_ends iters fuel e ls = true ->
  go_run iters fuel e ls = (SEof (run_end iters fuel e ls), snd (go_run iters fuel e ls)).
Proof.
  intros iters fuel e ls. unfold run_ends, run_end.
  destruct (go_run iters fuel e ls) as [[e'| | |] out]; cbn [fst snd]; intro H; try discriminate. reflexivity.
Qed.

Definition session2_end : engine := run_end 10 60 go_engine_init session2.

Example session2_reached :
  reached (searched_in 10 60 go_engine_init session2) session2_end /\
  map (fun p => to_fen p) (searched_in 10 60 go_engine_init session2) =
    [Ok (bs mate_fen); Ok (bs "rnbqkbnr/pppp1ppp/8/4p3/4P3/8/PPPP1PPP/RNBQKBNR w KQkq e6 0 2")] /\
  en_state session2_end = ST_IDLE /\ cache_sane go_econsts (en_cache session2_end) /\
  st_he (en_tt session2_end) <> 0%N.
Proof.
  assert (E : run_ends 10 60 go_engine_init session2 = true) by (vm_compute; reflexivity).
  pose proof (session_from_start 10 60 session2 _ _ (session2_in_domain 10 60 _) (run_ends_spec _ _ _ _ E)) as R.
  fold session2_end in R.
  split; [exact R|]. split; [vm_compute; reflexivity|]. split; [vm_compute; reflexivity|].
  split; [exact (proj1 (proj2 (proj2 (reached_facts _ _ R))))|]. vm_compute. discriminate.
Qed.
