(* Whole-game theorems, part 5: non-vacuity.  Concrete sessions and games evaluated by the kernel, and instances of
   the main theorems with every hypothesis discharged. *)
From Coq Require Import NArith ZArith List Bool Lia String Ascii.
From Clemens Require Import Base.Res Base.Word Base.Bytes Pos.Types Pos.Position Pos.Fen Pos.Inv
     Pos.ZobristInst Eval.Eval Search.TT Search.Negamax Search.SearchStruct Search.SearchLines Search.GoInst
     Uci.ParseGo Uci.ParseGoProofs Uci.Input Uci.InputProofs Uci.GoLineSpec Uci.Game Uci.Engine Uci.EngineInst.
From Clemens.C13Mate Require Import MateDefs MateRange MateExamples.
From Clemens.C13Bridge Require Import Bridge Seq.
From Clemens Require Import Rules.Abs Rules.Fide.
From Clemens.C01Att Require Import FideFacts.
From Clemens.C03Recon Require Import FideText Recon.
From ClemensGen Require Import GoConsts.
From Clemens.EngineE2E Require Import EngBase EngDispatch EngState EngSearch EngE2E EngText EngExamples EngFinal.
From WipGame Require Import GameInv GameAfter GameWhole GameMate.
Import ListNotations.
Open Scope list_scope.
Open Scope string_scope.

(* ================================================================== goal 1: a session and the invariant *)
Definition mate_fen : string := "6k1/5ppp/8/8/8/8/8/R3K3 w Q - 0 1".
Definition session2 : list (bytes * option N) :=
  [(bs "uci", None); (bs "isready", None);
   (bs "position startpos moves e2e4 e7e5", None); (bs "go depth 1", None);
   (bs "go depth 1", None);                                        (* refused: IDLE *)
   (bs "position", None);                                          (* rejected: no tokens *)
   (bs "position fen 8/8/8 w", None);                              (* rejected: FEN too short *)
   (bs "ucinewgame", None);
   (bs ("position fen " ++ mate_fen ++ " moves"), None); (bs "go depth 2", Some 3%N)].

Definition mate_six : list bytes := [bs "6k1/5ppp/8/8/8/8/8/R3K3"; bs "w"; bs "Q"; bs "-"; bs "0"; bs "1"].
Definition mate_p0 : position := root_of mate_fen.

Lemma mate_p0_fen : new_from_fen go_keys unicode_digit_tbl (join_sp mate_six) = Ok mate_p0.
Proof. vm_compute. reflexivity. Qed.
Lemma mate_p0_legal : legal_pos mate_p0.
Proof. apply legal_pos_b_sound. vm_compute. reflexivity. Qed.

Lemma not_position : forall line,
  match handle_line V line with CPosition _ => false | _ => true end = true -> in_domain_text line.
Proof. intros line H. left. intros ts E. rewrite E in H. discriminate. Qed.

Lemma session2_in_domain : forall iters fuel e, in_domain_session iters fuel e session2.
Proof.
  intros iters fuel e. apply in_domain_text_session. unfold session2.
  repeat (apply Forall_cons || apply Forall_nil); cbn [fst];
    try (apply not_position; vm_compute; reflexivity).
  - (* position startpos moves e2e4 e7e5 *)
    right. left. exists ex_fms, ex_s. split; [exact ex_game|]. split; [cbn; lia|].
    exists []. split; [vm_compute; reflexivity|constructor].
  - (* position *)
    right. right. right. exists []. split; [vm_compute; reflexivity|left; reflexivity].
  - (* position fen 8/8/8 w *)
    right. right. right. eexists. split; [vm_compute; reflexivity|]. right. eexists. vm_compute. reflexivity.
  - (* position fen 6k1/5ppp/8/8/8/8/8/R3K3 w Q - 0 1 moves *)
    right. right. left. exists mate_six, mate_p0, [], (abs mate_p0).
    split; [reflexivity|]. split; [exact mate_p0_fen|]. split; [exact mate_p0_legal|].
    split; [constructor|]. split; [cbn; lia|].
    exists []. split; [vm_compute; reflexivity|constructor].
Qed.

(* the session runs to the end of its input (kernel evaluation); hence the engine it leaves meets the invariant, with
   the two searched roots on record *)
Definition session2_end : engine :=
  match go_run 10 60 go_engine_init session2 with (SEof e, _) => e | _ => go_engine_init end.

Lemma session2_runs : exists out, go_run 10 60 go_engine_init session2 = (SEof session2_end, out).
Proof.
  unfold session2_end. destruct (go_run 10 60 go_engine_init session2) as [fin out] eqn:E.
  assert (X : match fin with SEof _ => true | _ => false end = true).
  { replace fin with (fst (go_run 10 60 go_engine_init session2)) by (rewrite E; reflexivity).
    vm_compute. reflexivity. }
  destruct fin; try discriminate. exists out. reflexivity.
Qed.

