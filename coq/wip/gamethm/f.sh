#!/bin/sh
grep -v "remapped\|previously\|overriding-logical\|^Clemens\|^to Clemens\|^bound to"
