#!/bin/sh
# private compile helper (scratch): cc.sh File.v
cd /verif/coq/wip/gamethm
B=${B:-_build}
if [ "$B" = shared ]; then T=/verif/coq/theories; G=/verif/coq/gen; else T=_build/theories; G=_build/gen; fi
/usr/bin/time -f "%e s" timeout ${TMO:-1800} coqc -Q . WipGame -Q $T Clemens -Q $G ClemensGen -w -notation-overridden,-deprecated-hint-without-locality,-deprecated-instance-without-locality "$1"
