(* C01 glue, sliders: the specification's [slides] (alignment + [path_clear] over the mailbox) is the
   geometric ray attack of Att/Geometry.v over the same occupancy. *)
From Coq Require Import NArith ZArith List Bool Lia ZifyBool ZifyN ZifyNat.
From Clemens Require Import Base.Res Base.Word Pos.Types Att.Attacks Att.Geometry Att.ShiftsProofs
  Att.SlidingProofs Att.AttackersProofs Pos.Position Pos.Inv Pos.CapturesProofs.
From Clemens Require Import Rules.Fide Rules.Abs.
From WipC01gen Require Import Glue.
Import ListNotations.
Open Scope Z_scope.

Lemma nxt_stepc (cur d : Z * Z) : (fst cur + fst d, snd cur + snd d) = stepc cur d 1.
Proof. unfold stepc. f_equal; lia. Qed.

Lemma stepc_between d : unit_dir d -> forall c k j, Geometry.on_board c = true ->
  Geometry.on_board (stepc c d k) = true -> (j <= k)%nat -> Geometry.on_board (stepc c d j) = true.
Proof.
  destruct d as [df dr]. intros [Hf [Hr _]] [f r] k j Hc Hk Hj. cbn [fst snd] in Hf, Hr.
  rewrite on_board_iff in *. unfold stepc in *. cbn [fst snd] in *.
  destruct Hf as [-> | [-> | ->]], Hr as [-> | [-> | ->]]; lia.
Qed.

Lemma stepc_inj_k d : unit_dir d -> forall c k j, stepc c d k = stepc c d j -> k = j.
Proof.
  destruct d as [df dr]. intros [Hf [Hr Hne]] [f r] k j H. cbn [fst snd] in Hf, Hr.
  unfold stepc in H. cbn [fst snd] in H. injection H as H1 H2.
  destruct Hf as [-> | [-> | ->]], Hr as [-> | [-> | ->]]; try lia. congruence.
Qed.

Section Slide.
Variable s : bstate.
Variable occupied : N -> bool.
Hypothesis Hocc : forall c, Geometry.on_board c = true -> empty s c = negb (occupied (fr_sq c)).

Lemma path_clear_spec : forall fuel k cur d, unit_dir d -> (1 <= k <= fuel)%nat ->
  Geometry.on_board cur = true -> Geometry.on_board (stepc cur d k) = true ->
  (path_clear fuel s cur d (stepc cur d k) = true <->
   forall j, (1 <= j < k)%nat -> occupied (fr_sq (stepc cur d j)) = false).
Proof.
  induction fuel as [|f IH]; intros k cur d Hu Hk Hc Ht; [lia|].
  cbn [path_clear]. rewrite nxt_stepc.
  destruct (Nat.eq_dec k 1) as [-> | Hk1].
  - replace (sq_eqb (stepc cur d 1) (stepc cur d 1)) with true by (symmetry; apply sq_eqb_true; reflexivity).
    split; [intros _ j Hj; lia | reflexivity].
  - destruct (sq_eqb (stepc cur d 1) (stepc cur d k)) eqn:E.
    { apply sq_eqb_true in E. apply (stepc_inj_k d Hu) in E. lia. }
    assert (Hn : Geometry.on_board (stepc cur d 1) = true) by (apply (stepc_between d Hu cur k); [assumption..|lia]).
    pose proof (Hocc _ Hn) as He. unfold empty in He.
    destruct k as [|k']; [lia|]. rewrite <- (stepc_S cur d k') in Ht |- *.
    destruct (at_sq s (stepc cur d 1)) as [pc|].
    + split; [discriminate|]. intros H. specialize (H 1%nat ltac:(lia)). rewrite H in He. discriminate.
    + rewrite fide_on_board_geo, Hn. cbn [andb].
      rewrite (IH k' (stepc cur d 1) d Hu ltac:(lia) Hn Ht). symmetry in He. apply negb_true_iff in He.
      split.
      * intros H j Hj. destruct (Nat.eq_dec j 1) as [-> | Hj1]; [exact He|].
        destruct j as [|j']; [lia|]. rewrite <- stepc_S. apply H. lia.
      * intros H j Hj. rewrite stepc_S. apply H. lia.
Qed.

Definition slide_dirs (r b : bool) : list coord :=
  (if r then rook_dirs_geo else []) ++ (if b then bishop_dirs_geo else []).

Lemma in_slide_dirs r b d : In d (slide_dirs r b) <->
  (r = true /\ In d rook_dirs_geo) \/ (b = true /\ In d bishop_dirs_geo).
Proof. unfold slide_dirs. rewrite in_app_iff. destruct r, b; cbn [In]; intuition congruence. Qed.

(* aligned and at distance k >= 1 in direction d *)
Lemma aligned_to_dir (A B : Z * Z) r b :
  (r && aligned_rook A B) || (b && aligned_bishop A B) = true ->
  exists k, (1 <= k)%nat /\ In (step_to A B) (slide_dirs r b) /\ B = stepc A (step_to A B) k.
Proof.
  destruct A as [fa ra], B as [fb rb]. unfold aligned_rook, aligned_bishop, step_to, sq_eqb, stepc, sgn.
  cbn [fst snd]. intros H.
  exists (Z.to_nat (Z.max (Z.abs (fb - fa)) (Z.abs (rb - ra)))).
  rewrite in_slide_dirs. unfold rook_dirs_geo, bishop_dirs_geo. cbn [In].
  destruct (Z.ltb_spec (fb - fa) 0), (Z.ltb_spec 0 (fb - fa)), (Z.ltb_spec (rb - ra) 0), (Z.ltb_spec 0 (rb - ra));
    try lia.
  all: split; [lia|].
  all: split; [|f_equal; lia].
  all: destruct r, b; cbn [andb orb] in H; try discriminate H.
  all: try (exfalso; lia).
  all: try (left; split; [reflexivity|]; solve [auto 8]).
  all: try (right; split; [reflexivity|]; solve [auto 8]).
Qed.

Lemma dir_to_aligned (A : Z * Z) d k r b : In d (slide_dirs r b) -> (1 <= k)%nat ->
  step_to A (stepc A d k) = d /\
  (r && aligned_rook A (stepc A d k)) || (b && aligned_bishop A (stepc A d k)) = true.
Proof.
  destruct A as [fa ra]. rewrite in_slide_dirs. unfold rook_dirs_geo, bishop_dirs_geo. cbn [In].
  unfold aligned_rook, aligned_bishop, step_to, sq_eqb, stepc, sgn. cbn [fst snd].
  intros [[-> [<- | [<- | [<- | [<- | []]]]]] | [-> [<- | [<- | [<- | [<- | []]]]]]] Hk; cbn [fst snd].
  all: split; [repeat match goal with |- context [Z.ltb ?x ?y] => destruct (Z.ltb_spec x y) end; try lia; reflexivity|].
  all: try destruct r; try destruct b; cbn [andb orb]; lia.
Qed.

Lemma slide_dirs_unit r b d : In d (slide_dirs r b) -> unit_dir d.
Proof.
  rewrite in_slide_dirs. intros [[_ H] | [_ H]]; [apply rook_dirs_unit | apply bishop_dirs_unit]; exact H.
Qed.

Theorem slides_geo : forall a b r bi, (a < 64)%N -> (b < 64)%N ->
  slides s (abs_sq a) (abs_sq b) r bi = geo_ray_attacks_on occupied (slide_dirs r bi) a b.
Proof.
  intros a b r bi Ha Hb. rewrite !abs_sq_fr. apply eq_true_iff_eq. rewrite geo_ray_attacks_on_iff.
  unfold slides. rewrite andb_true_iff.
  pose proof (sq_fr_on_board a Ha) as HA. pose proof (sq_fr_on_board b Hb) as HB.
  split.
  - intros [Hal Hpc]. destruct (aligned_to_dir _ _ _ _ Hal) as (k & Hk & Hd & HBk).
    set (d := step_to (sq_fr a) (sq_fr b)) in *.
    pose proof (slide_dirs_unit _ _ _ Hd) as Hu.
    assert (Hk7 : (k <= 7)%nat) by (apply (ray_short d Hu (sq_fr a) k HA); rewrite <- HBk; exact HB).
    exists d, k. split; [exact Hd|]. split; [lia|]. unfold ray_hit_P. split; [|split].
    + intros j Hj. apply (stepc_between d Hu (sq_fr a) k); [exact HA | rewrite <- HBk; exact HB | lia].
    + symmetry. exact HBk.
    + rewrite HBk in Hpc. apply (path_clear_spec 8 k (sq_fr a) d Hu ltac:(lia) HA); [rewrite <- HBk; exact HB|exact Hpc].
  - intros (d & k & Hd & Hk & Hon & Hkt & Hcl).
    pose proof (slide_dirs_unit _ _ _ Hd) as Hu.
    destruct (dir_to_aligned (sq_fr a) d k r bi Hd ltac:(lia)) as [Hst Hal].
    rewrite Hkt in Hst, Hal. split; [exact Hal|]. rewrite Hst, <- Hkt.
    apply (path_clear_spec 8 k (sq_fr a) d Hu ltac:(lia) HA); [rewrite Hkt; exact HB|exact Hcl].
Qed.

End Slide.

(* instantiated with the abstraction of a position *)
Lemma abs_occ p : length (board p) = 64%nat -> (forall t, (t < 64)%N -> pc_ok (piece_at p t) = true) ->
  forall c, Geometry.on_board c = true -> empty (abs p) c = negb (occupied_in p (fr_sq c)).
Proof.
  intros L V c Hc. pose proof (on_board_lt c Hc) as Hlt.
  rewrite <- (sq_fr_fr_sq c Hc) at 1. rewrite <- abs_sq_fr. apply empty_abs; auto.
Qed.

Theorem slides_abs p a b r bi : length (board p) = 64%nat ->
  (forall t, (t < 64)%N -> pc_ok (piece_at p t) = true) -> (a < 64)%N -> (b < 64)%N ->
  slides (abs p) (abs_sq a) (abs_sq b) r bi = geo_ray_attacks_on (occupied_in p) (slide_dirs r bi) a b.
Proof. intros L V. apply slides_geo. apply abs_occ; assumption. Qed.

Lemma slide_dirs_rook : slide_dirs true false = rook_dirs_geo. Proof. reflexivity. Qed.
Lemma slide_dirs_bishop : slide_dirs false true = bishop_dirs_geo. Proof. reflexivity. Qed.
Lemma slide_dirs_queen : slide_dirs true true = queen_dirs_geo. Proof. reflexivity. Qed.
