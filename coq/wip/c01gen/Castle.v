(* C01, generator part: castling. [castling_moves] / [can_castle_now] / [castle_walk] computed
   under the invariant and matched with the specification's [castling_ok]. *)
From Coq Require Import NArith ZArith List Bool Lia ZifyBool ZifyN ZifyNat.
From Clemens Require Import Base.Res Base.Word Pos.Types Att.Attacks Att.Geometry Att.ShiftsProofs
  Att.SlidingProofs Att.LeaperInst Att.AttackersProofs Pos.Position Pos.Inv Pos.CapturesProofs.
From Clemens Require Import Rules.Fide Rules.Abs.
From WipC01gen Require Import Glue Slides AttGlue ListFacts Master Pieces.
Import ListNotations.
Open Scope N_scope.

Definition cstep (queen : bool) (x : N) : N := if queen then sub8 x 1 else add8 x 1.

Section Pos.
Variable p : position.
Hypothesis HI : Inv p.

Let F := inv_facts p HI.
Let L := F_len p F.
Let V := F_valid p F.
Let Hwf := proj1 (Inv_views p HI).
Let Hagree := proj1 (proj2 (Inv_views p HI)).
Let Hhelp := proj1 (proj2 (proj2 (Inv_views p HI))).
Let Hone := proj2 (proj2 (proj2 (Inv_views p HI))).

Lemma inv_side_lt : side p < 2. Proof. apply (stm_lt p F). Qed.
Lemma inv_opp_lt : switch_color (side p) < 2. Proof. apply (switch_lt p F). Qed.

Definition occ_b (s : N) : bool := occupied_in p s.
Definition att_b (s : N) : bool := attacked_by_color p (switch_color (side p)) s.

(* ---- the attack test of the walk ---- *)
Lemma att_test sq : sq < 64 ->
  (a <- square_attacked_by p sq ;; them <- color_bb p (switch_color (side p)) ;;
   Ok (negb (N.land a them =? 0))) = Ok (att_b sq).
Proof.
  intros Hsq. rewrite (square_attacked_by_ok p Hagree sq Hsq). cbn [bind].
  rewrite (AttackersProofs.color_bb_ok p Hhelp _ inv_opp_lt). cbn [bind]. f_equal.
  rewrite nonzero_bits by (apply land_lt_l, attackers_bb_lt, Hsq).
  unfold att_b, attacked_by_color. apply existsb_ext_in. intros s Hs. apply squares_lt in Hs.
  rewrite N.land_spec, (attackers_bb_spec p Hwf Hagree Hhelp sq s Hsq Hs), (union6_spec p Hwf Hagree _ s inv_opp_lt Hs).
  apply andb_comm.
Qed.

(* ---- the king ---- *)
Lemma king_sq_ex : exists ksq, ksq < 64 /\ piece_at p ksq = new_piece (side p) KING /\
  (forall s, s < 64 -> piece_at p s = new_piece (side p) KING -> s = ksq) /\
  get_bb p (side p) KING = Ok (bb_at p (side p) KING) /\
  lsb (bb_at p (side p) KING) = Ok ksq /\
  is_in_check p (side p) = Ok (att_b ksq).
Proof.
  destruct (in_check_exact p (side p) Hwf Hagree Hhelp Hone inv_side_lt) as (ksq & Hk & Hpc & Huniq & Hchk).
  exists ksq. split; [exact Hk|]. split; [exact Hpc|]. split; [exact Huniq|].
  split; [apply (AttackersProofs.get_bb_ok p Hagree); [apply inv_side_lt|reflexivity]|]. split; [|exact Hchk].
  assert (Hb : forall s, s < 64 -> N.testbit (bb_at p (side p) KING) s = (piece_at p s =? new_piece (side p) KING)).
  { intros s Hs. apply (bb_bit p Hagree); [apply inv_side_lt|reflexivity|exact Hs]. }
  assert (Hne : bb_at p (side p) KING <> 0).
  { intros Hz. pose proof (Hb ksq Hk) as H. rewrite Hz, N.bits_0, Hpc, N.eqb_refl in H. discriminate. }
  destruct (lsb_spec _ Hne) as (k & Hl & Hbit). rewrite Hl. f_equal.
  assert (Hk64 : k < 64).
  { eapply testbit_lt64; [|exact Hbit]. apply (bb_lt p Hagree); [apply inv_side_lt|reflexivity]. }
  apply Huniq; [exact Hk64|]. rewrite (Hb k Hk64) in Hbit. apply N.eqb_eq, Hbit.
Qed.

(* ---- one round of the walk ---- *)
Lemma walk_unroll f queen sq att free : cstep queen sq < 64 ->
  castle_walk (S f) p queen sq att free =
  if ((0 <? att)%Z || (0 <? free)%Z) then
    if (0 <? free)%Z && occ_b (cstep queen sq) then Ok false
    else if (0 <? att)%Z && att_b (cstep queen sq) then Ok false
    else castle_walk f p queen (cstep queen sq) (att - 1)%Z (free - 1)%Z
  else Ok true.
Proof.
  intros Hsq. cbn [castle_walk]. fold (cstep queen sq).
  destruct ((0 <? att)%Z || (0 <? free)%Z); [|reflexivity].
  destruct (0 <? free)%Z.
  - rewrite (get_piece_at p F _ Hsq). cbn [bind andb]. unfold occ_b, occupied_in.
    destruct (negb (piece_at p (cstep queen sq) =? NO_PIECE)); [reflexivity|].
    destruct (0 <? att)%Z.
    + rewrite (att_test _ Hsq). cbn [bind andb]. destruct (att_b (cstep queen sq)); reflexivity.
    + cbn [bind andb]. reflexivity.
  - cbn [bind andb]. destruct (0 <? att)%Z.
    + rewrite (att_test _ Hsq). cbn [bind andb]. destruct (att_b (cstep queen sq)); reflexivity.
    + cbn [bind andb]. reflexivity.
Qed.

Definition walk_b (queen : bool) (k : N) : bool :=
  let s1 := cstep queen k in let s2 := cstep queen s1 in let s3 := cstep queen s2 in
  negb (occ_b s1) && negb (att_b s1) && negb (occ_b s2) && negb (att_b s2)
  && (if queen then negb (occ_b s3) else true).

Lemma walk_all queen k :
  cstep queen k < 64 -> cstep queen (cstep queen k) < 64 -> cstep queen (cstep queen (cstep queen k)) < 64 ->
  castle_walk 4 p queen k 2%Z (if queen then 3%Z else 2%Z) = Ok (walk_b queen k).
Proof.
  intros H1 H2 H3. unfold walk_b. cbv zeta.
  rewrite (walk_unroll 3 queen k _ _ H1).
  rewrite (walk_unroll 2 queen _ _ _ H2).
  rewrite (walk_unroll 1 queen _ _ _ H3).
  destruct queen; cbn [Z.ltb Z.compare Z.sub Z.add Z.opp Z.pos_sub Pos.pred_double Pos.compare Pos.compare_cont orb andb castle_walk];
    destruct (occ_b _), (att_b _); cbn [negb andb]; try reflexivity;
    destruct (occ_b _), (att_b _); cbn [negb andb]; try reflexivity;
    destruct (occ_b _); reflexivity.
Qed.

(* ---- CanCastleNow ---- *)
Definition ccn_b (c ksq : N) : bool :=
  can_castle p c && negb (att_b ksq) && walk_b (castling_is_queen_side c) ksq.

Definition three_ok (queen : bool) (k : N) : Prop :=
  cstep queen k < 64 /\ cstep queen (cstep queen k) < 64 /\ cstep queen (cstep queen (cstep queen k)) < 64.

Section King.
Variable ksq : N.
Hypothesis Hget : get_bb p (side p) KING = Ok (bb_at p (side p) KING).
Hypothesis Hlsb : lsb (bb_at p (side p) KING) = Ok ksq.
Hypothesis Hchk : is_in_check p (side p) = Ok (att_b ksq).

Lemma ccn_eq c : castling_color c = side p ->
  (can_castle p c = true -> three_ok (castling_is_queen_side c) ksq) ->
  can_castle_now p c = Ok (ccn_b c ksq).
Proof.
  intros Hc H3. unfold can_castle_now, ccn_b. destruct (can_castle p c) eqn:Ecc; cbn [negb andb]; [|reflexivity].
  rewrite Hc, N.eqb_refl. cbn [negb]. rewrite Hchk. cbn [bind].
  destruct (att_b ksq); cbn [negb andb]; [reflexivity|].
  rewrite Hget. cbn [bind]. rewrite Hlsb. cbn [bind].
  destruct (H3 eq_refl) as (H1 & H2 & H3'). apply walk_all; assumption.
Qed.

Definition cm_dst (c : N) : N := if castling_is_queen_side c then sub8 ksq 2 else add8 ksq 2.
Definition cm_ext (c : N) : list N :=
  if (castling_color c =? side p) && ccn_b c ksq then [castle_mv ksq (cm_dst c)] else [].

Definition cm_body (acc : res (list N)) (c : N) : res (list N) :=
  l <- acc ;;
  if negb (castling_color c =? side p) then Ok l else
  ok <- can_castle_now p c ;;
  if negb ok then Ok l else
  kb <- get_bb p (side p) KING ;;
  src <- lsb kb ;;
  let dst := if castling_is_queen_side c then sub8 src 2 else add8 src 2 in
  Ok (l ++ [mv_set_dst (mv_set_src (mv_set_kind 0 CASTLING) src) dst]).

Lemma cm_body_eq l c :
  (castling_color c = side p -> can_castle p c = true -> three_ok (castling_is_queen_side c) ksq) ->
  cm_body (Ok l) c = Ok (l ++ cm_ext c).
Proof.
  intros H3. unfold cm_body, cm_ext. cbn [bind].
  destruct (N.eqb_spec (castling_color c) (side p)) as [Hc | Hc]; cbn [negb andb]; [|rewrite app_nil_r; reflexivity].
  rewrite (ccn_eq c Hc (H3 Hc)). cbn [bind].
  destruct (ccn_b c ksq); cbn [negb]; [|rewrite app_nil_r; reflexivity].
  rewrite Hget. cbn [bind]. rewrite Hlsb. cbn [bind]. reflexivity.
Qed.

Lemma castling_moves_eq :
  (forall c, In c [WK; WQ; BK; BQ] -> castling_color c = side p -> can_castle p c = true ->
             three_ok (castling_is_queen_side c) ksq) ->
  castling_moves p = Ok (cm_ext WK ++ cm_ext WQ ++ cm_ext BK ++ cm_ext BQ).
Proof.
  intros H3. change (castling_moves p) with (fold_left cm_body [WK; WQ; BK; BQ] (Ok [])).
  cbn [fold_left].
  rewrite (cm_body_eq [] WK) by (apply H3; cbn; tauto).
  rewrite (cm_body_eq _ WQ) by (apply H3; cbn; tauto).
  rewrite (cm_body_eq _ BK) by (apply H3; cbn; tauto).
  rewrite (cm_body_eq _ BQ) by (apply H3; cbn; tauto).
  cbn [app]. rewrite <- !app_assoc. reflexivity.
Qed.

End King.

End Pos.
