#!/bin/sh
# usage: wip/c01gen/cc.sh File   (without .v)
cd /verif/coq && time timeout 1800 coqc -Q theories Clemens -Q gen ClemensGen -Q wip/c01gen WipC01gen -w -notation-overridden,-deprecated-hint-without-locality,-deprecated-instance-without-locality wip/c01gen/$1.v 2>&1 | grep -v "conda.cli" 
