(* C01, generator part: pawn moves - single and double pushes, captures, promotions (exactly the
   four pieces on the last rank, none elsewhere), en passant. *)
From Coq Require Import NArith ZArith List Bool Lia ZifyBool ZifyN ZifyNat.
From Clemens Require Import Base.Res Base.Word Pos.Types Att.Attacks Att.Geometry Att.ShiftsProofs
  Att.SlidingProofs Att.LeaperInst Att.AttackersProofs Pos.Position Pos.Inv Pos.CapturesProofs.
From Clemens Require Import Rules.Fide Rules.Abs.
From WipC01gen Require Import Glue Slides AttGlue ListFacts Master Pieces.
Import ListNotations.
Open Scope N_scope.

(* ------------------------------------------------------------------------------------------ *)
(* promotion                                                                                    *)

Definition last_rank_b (c t : N) : bool := if c =? WHITE then rank_of t =? 7 else rank_of t =? 0.

Lemma pmwp_eq c s t : c < 2 ->
  pawn_move_with_promotion c s t =
  if last_rank_b c t then map (fun pt => mk_promo s t pt) promo_types else [mk_move s t].
Proof.
  intros Hc. unfold pawn_move_with_promotion, last_rank_b.
  assert (c = 0 \/ c = 1) as [-> | ->] by lia.
  - change (0 =? WHITE) with true. change (0 =? BLACK) with false. cbn [andb].
    destruct (rank_of t =? 7); reflexivity.
  - change (1 =? WHITE) with false. change (1 =? BLACK) with true. cbn [andb].
    destruct (rank_of t =? 0); reflexivity.
Qed.

Lemma last_rank_abs c t : c < 2 -> t < 64 ->
  (snd (abs_sq t) =? last_rank (abs_color c))%Z = last_rank_b c t.
Proof.
  intros Hc Ht. unfold abs_sq, last_rank_b. cbn [snd].
  assert (c = 0 \/ c = 1) as [-> | ->] by lia; cbn [abs_color last_rank N.eqb WHITE]; lia.
Qed.

Lemma promo_decodes s t : s < 64 -> t < 64 ->
  map decode (map (fun pt => mk_promo s t pt) promo_types) =
  [mkf s t (Some Knight); mkf s t (Some Bishop); mkf s t (Some Rook); mkf s t (Some Queen)].
Proof.
  intros Hs Ht. unfold promo_types. cbn [map].
  rewrite !(decode_promo s t _ Hs Ht) by (cbn; tauto). reflexivity.
Qed.

Lemma pmwp_decode c s t fm : c < 2 -> s < 64 -> t < 64 ->
  (In fm (map decode (pawn_move_with_promotion c s t)) <->
   exists pr, fm = mkf s t pr /\ promo_rule (abs_color c) (abs_sq t) pr = true).
Proof.
  intros Hc Hs Ht. rewrite (pmwp_eq c s t Hc). unfold promo_rule. rewrite (last_rank_abs c t Hc Ht).
  destruct (last_rank_b c t).
  - rewrite (promo_decodes s t Hs Ht). cbn [In]. split.
    + intros [<- | [<- | [<- | [<- | []]]]]; eexists; (split; [reflexivity|reflexivity]).
    + intros (pr & -> & H). destruct pr as [[| | | | |]|]; try discriminate H; tauto.
  - cbn [map In]. rewrite (decode_mk_move s t Hs Ht). split.
    + intros [<- | []]. exists None. split; reflexivity.
    + intros (pr & -> & H). destruct pr; [discriminate H|]. left. reflexivity.
Qed.

Lemma pmwp_decode_nodup c s t : c < 2 -> s < 64 -> t < 64 ->
  NoDup (map decode (pawn_move_with_promotion c s t)).
Proof.
  intros Hc Hs Ht. rewrite (pmwp_eq c s t Hc). destruct (last_rank_b c t).
  - rewrite (promo_decodes s t Hs Ht).
    repeat constructor; cbn [In]; intros H;
      repeat (destruct H as [H|H]; [apply mkf_inj in H; destruct H as (_ & _ & H); discriminate H|]); exact H.
  - cbn [map]. repeat constructor. intros [].
Qed.

Lemma pmwp_decode_keys c s t fm : c < 2 -> s < 64 -> t < 64 ->
  In fm (map decode (pawn_move_with_promotion c s t)) -> m_from fm = abs_sq s /\ m_to fm = abs_sq t.
Proof.
  intros Hc Hs Ht H. apply (pmwp_decode c s t fm Hc Hs Ht) in H. destruct H as (pr & -> & _). split; reflexivity.
Qed.

(* ------------------------------------------------------------------------------------------ *)
(* membership in [pawn_moves]                                                                   *)

Lemma in_pawn_moves_iff p pawns them m :
  In m (pawn_moves p false pawns them) <->
  exists s, N.testbit pawns s = true /\
    ((exists t, N.testbit (pushes_by_square (side p) s (all_pieces p)) t = true /\
                In m (pawn_move_with_promotion (side p) s t)) \/
     (exists t, N.testbit (N.land (pawn_attacks (side p) s) them) t = true /\
                In m (pawn_move_with_promotion (side p) s t)) \/
     (ep p <> SQ_NONE /\ exists t, N.testbit (N.land (pawn_attacks (side p) s) (bit (ep p))) t = true /\
                m = mk_move_kind s t EN_PASSANT)).
Proof.
  unfold pawn_moves. rewrite in_flat_map. split.
  - intros (s & Hs & H). apply bits_in in Hs. exists s. split; [exact Hs|].
    apply in_app_or in H. destruct H as [H|H].
    { left. apply in_flat_map in H. destruct H as (t & Ht & H). apply bits_in in Ht. eauto. }
    apply in_app_or in H. destruct H as [H|H].
    { right. left. apply in_flat_map in H. destruct H as (t & Ht & H). apply bits_in in Ht. eauto. }
    right. right. destruct (N.eqb_spec (ep p) SQ_NONE) as [E|E]; cbn [negb] in H; [destruct H|].
    split; [exact E|]. apply in_map_iff in H. destruct H as (t & <- & Ht). apply bits_in in Ht. eauto.
  - intros (s & Hs & H). exists s. split; [apply bits_in, Hs|].
    destruct H as [(t & Ht & H) | [(t & Ht & H) | (E & t & Ht & ->)]].
    + apply in_or_app. left. apply in_flat_map. exists t. split; [apply bits_in, Ht|exact H].
    + apply in_or_app. right. apply in_or_app. left. apply in_flat_map. exists t. split; [apply bits_in, Ht|exact H].
    + apply in_or_app. right. apply in_or_app. right.
      destruct (N.eqb_spec (ep p) SQ_NONE) as [E'|_]; [contradiction|]. cbn [negb].
      apply (in_map (fun dst => mk_move_kind s dst EN_PASSANT)). apply bits_in, Ht.
Qed.

(* ------------------------------------------------------------------------------------------ *)
(* geometry                                                                                     *)

Lemma forward_dir k : k < 2 ->
  forward (abs_color k) = pawn_dir k /\ pawn_start (abs_color k) = pawn_start_rank k.
Proof. intros H. assert (k = 0 \/ k = 1) as [-> | ->] by lia; split; reflexivity. Qed.

Section Pos.
Variable p : position.
Hypothesis HI : Inv p.

Let F := inv_facts p HI.
Let L := F_len p F.
Let V := F_valid p F.
Let stm := side p.
Let Hstm : stm < 2 := stm_lt p F.
Let Hwf := proj1 (Inv_views p HI).
Let Hagree := proj1 (proj2 (Inv_views p HI)).
Let Hhelp := proj1 (proj2 (proj2 (Inv_views p HI))).
Let c := abs_color stm.

Lemma push_glue s t : s < 64 -> t < 64 ->
  N.testbit (pushes_by_square stm s (all_pieces p)) t =
  let a := abs_sq s in let b := abs_sq t in
  let df := (fst b - fst a)%Z in let dr := (snd b - snd a)%Z in
  ((df =? 0)%Z && (dr =? forward c)%Z && empty (abs p) b)
  || ((df =? 0)%Z && (dr =? 2 * forward c)%Z && (snd a =? pawn_start c)%Z
      && empty (abs p) (fst a, (snd a + forward c)%Z) && empty (abs p) b).
Proof.
  intros Hs Ht. rewrite (pushes_exact stm s _ Hs t). unfold geo_pawn_push.
  rewrite (proj2 (is_square_lt t) Ht). cbv zeta. rewrite !abs_sq_fr. unfold sq_fr. cbn [fst snd].
  change (sq_file t, sq_rank t) with (sq_fr t). rewrite <- (abs_sq_fr t).
  rewrite (empty_abs p t L Ht (V t Ht)), (occ_spec p Hwf Hagree Hhelp t Ht).
  pose proof (sq_fr_on_board s Hs) as Bs. pose proof (sq_fr_on_board t Ht) as Bt.
  apply on_board_iff in Bs, Bt. unfold sq_fr in Bs, Bt. cbn [fst snd] in Bs, Bt.
  set (M := (sq_file s, (sq_rank s + pawn_dir stm)%Z)).
  destruct (forward_dir stm Hstm) as [Ef Est]. fold c in Ef, Est. rewrite Ef, Est. fold M.
  destruct (Geometry.on_board M) eqn:BM.
  - rewrite (abs_occ p L V M BM), (occ_spec p Hwf Hagree Hhelp _ (on_board_lt M BM)).
    generalize (occupied_in p (fr_sq M)) (occupied_in p t). intros o1 o2.
    unfold pawn_dir, pawn_start_rank. destruct (stm =? 0); destruct o1, o2; lia.
  - apply not_true_iff_false in BM. rewrite on_board_iff in BM. unfold M in BM. cbn [fst snd] in BM.
    generalize (N.testbit (all_pieces p) (fr_sq M)) (empty (abs p) M) (occupied_in p t). intros o1 o2 o3.
    unfold pawn_dir, pawn_start_rank in *. destruct (stm =? 0); destruct o1, o2, o3; lia.
Qed.

(* ---- en passant: what the invariant says about the target square ---- *)
Lemma ep_facts : ep p <> SQ_NONE ->
  ep p < 64 /\ piece_at p (ep p) = 0 /\ last_rank_b stm (ep p) = false.
Proof.
  intros Hne. destruct (inv_clauses p HI) as (_ & _ & _ & _ & _ & _ & Hep & _).
  unfold ep_consistent in Hep. cbv zeta in Hep. apply orb_true_iff in Hep.
  destruct Hep as [Hep|Hep]; [apply N.eqb_eq in Hep; contradiction|].
  unfold last_rank_b. fold stm in Hep. rewrite rank_of_div in *.
  destruct (stm =? WHITE); rewrite !andb_true_iff, !N.eqb_eq in Hep; rewrite ?N.ltb_lt in Hep;
    (split; [lia|]); (split; [tauto|]); lia.
Qed.

Lemma patt_lt64 s t : s < 64 -> N.testbit (pawn_attacks stm s) t = true -> t < 64.
Proof.
  intros Hs. assert (stm = 0 \/ stm = 1) as [E | E] by lia; rewrite E; apply testbit_lt64;
    [apply pawn_attacks_white_lt | apply pawn_attacks_black_lt]; exact Hs.
Qed.

Lemma push_lt64 s occ t : s < 64 -> N.testbit (pushes_by_square stm s occ) t = true -> t < 64.
Proof.
  intros Hs. rewrite (pushes_exact stm s occ Hs t). unfold geo_pawn_push.
  rewrite !andb_true_iff. intros [[[H _] _] _]. apply is_square_lt, H.
Qed.

Let them := union6 p (switch_color stm).
Let Hsw : switch_color stm < 2 := switch_lt p F.

Lemma them_testbit t : t < 64 -> N.testbit them t = is_piece_of (switch_color stm) (piece_at p t).
Proof. intros Ht. apply (union6_spec p Hwf Hagree); assumption. Qed.

(* own / enemy / occupied on a square *)
Lemma own_opp_occ t : t < 64 ->
  occupied_in p t = is_piece_of stm (piece_at p t) || is_piece_of (switch_color stm) (piece_at p t) /\
  is_piece_of stm (piece_at p t) && is_piece_of (switch_color stm) (piece_at p t) = false.
Proof.
  intros Ht. pose proof (V t Ht) as Hv. unfold occupied_in, NO_PIECE.
  assert (stm = 0 \/ stm = 1) as [E | E] by lia; rewrite E; pc_split Hv; rewrite E0; split; reflexivity.
Qed.

Lemma pawn_target_iff s t : s < 64 -> t < 64 ->
  (negb (is_piece_of stm (piece_at p t)) && pawn_geo (abs p) c (abs_sq s) (abs_sq t) = true <->
   N.testbit (pushes_by_square stm s (all_pieces p)) t = true \/
   N.testbit (N.land (pawn_attacks stm s) them) t = true \/
   (ep p <> SQ_NONE /\ N.testbit (N.land (pawn_attacks stm s) (bit (ep p))) t = true)).
Proof.
  intros Hs Ht. unfold pawn_geo. cbv zeta.
  pose proof (push_glue s t Hs Ht) as Hp. cbv zeta in Hp. rewrite <- Hp.
  change ((Z.abs (fst (abs_sq t) - fst (abs_sq s)) =? 1)%Z && (snd (abs_sq t) - snd (abs_sq s) =? forward c)%Z)
    with (pawn_cap_geo c (abs_sq s) (abs_sq t)).
  unfold c. rewrite <- (pawn_glue stm s t Hstm Hs Ht).
  rewrite (empty_abs p t L Ht (V t Ht)), !N.land_spec, (them_testbit t Ht).
  destruct (own_opp_occ t Ht) as [Hocc Hdisj].
  assert (Hpush : N.testbit (pushes_by_square stm s (all_pieces p)) t = true -> occupied_in p t = false).
  { intros H. apply pushes_empty in H. apply (empty_bit p F) in H. destruct H as [_ H].
    unfold occb in H. exact H. }
  assert (Hepb : match b_ep (abs p) with Some e => sq_eqb e (abs_sq t) | None => false end
                 = negb (ep p =? SQ_NONE) && (ep p =? t)).
  { unfold abs. cbn [b_ep]. destruct (ep p =? SQ_NONE); [reflexivity|]. apply sq_eqb_abs. }
  rewrite Hepb.
  clear Hp.
  destruct (N.eqb_spec (ep p) SQ_NONE) as [Ee | Ee]; cbn [negb andb].
  - rewrite ?andb_false_r, ?orb_false_r.
    set (P := N.testbit (pushes_by_square stm s (all_pieces p)) t) in *.
    set (G := N.testbit (pawn_attacks stm s) t) in *. set (o := occupied_in p t) in *.
    set (own := is_piece_of stm (piece_at p t)) in *.
    set (opp := is_piece_of (switch_color stm) (piece_at p t)) in *.
    clearbody P G o own opp.
    destruct P, G, o, own, opp; cbn [negb andb orb] in *; intuition congruence.
  - destruct (ep_facts Ee) as (He64 & Hpe & _). rewrite (bit_spec (ep p) t He64).
    assert (Het : (ep p =? t) = true -> occupied_in p t = false).
    { intros H. apply N.eqb_eq in H. subst t. unfold occupied_in. rewrite Hpe. reflexivity. }
    set (P := N.testbit (pushes_by_square stm s (all_pieces p)) t) in *.
    set (G := N.testbit (pawn_attacks stm s) t) in *. set (o := occupied_in p t) in *.
    set (own := is_piece_of stm (piece_at p t)) in *.
    set (opp := is_piece_of (switch_color stm) (piece_at p t)) in *.
    set (e := ep p =? t) in *.
    clearbody P G o own opp e.
    destruct P, G, o, own, opp, e; cbn [negb andb orb] in *; intuition congruence.
Qed.

Definition pawn_list : list N := pawn_moves p false (bb_at p stm PAWN) them.

Lemma pawn_src s : N.testbit (bb_at p stm PAWN) s = true <-> s < 64 /\ piece_at p s = new_piece stm PAWN.
Proof. apply (bb_testbit p HI PAWN s). reflexivity. Qed.

Theorem pawn_class fm : In fm (map decode pawn_list) <-> class_spec p PAWN fm.
Proof.
  unfold pawn_list, class_spec. fold stm. rewrite in_map_iff. split.
  - intros (m & <- & Hm). apply in_pawn_moves_iff in Hm. fold stm in Hm.
    destruct Hm as (s & Hsrc & H). apply pawn_src in Hsrc. destruct Hsrc as [Hs Hpc].
    destruct H as [(t & Ht & H) | [(t & Ht & H) | (Ee & t & Ht & ->)]].
    + assert (Ht64 : t < 64) by (eapply push_lt64; eauto).
      assert (Hd : In (decode m) (map decode (pawn_move_with_promotion stm s t))) by (apply in_map, H).
      apply (pmwp_decode stm s t _ Hstm Hs Ht64) in Hd. destruct Hd as (pr & -> & Hpr).
      exists s, t, pr. repeat split; try assumption. unfold piece_rule. cbn [abs_ptype PAWN].
      rewrite andb_assoc, Hpr, andb_true_r. apply (pawn_target_iff s t Hs Ht64). left. exact Ht.
    + assert (Ht64 : t < 64).
      { rewrite N.land_spec, andb_true_iff in Ht. eapply patt_lt64; [exact Hs|apply Ht]. }
      assert (Hd : In (decode m) (map decode (pawn_move_with_promotion stm s t))) by (apply in_map, H).
      apply (pmwp_decode stm s t _ Hstm Hs Ht64) in Hd. destruct Hd as (pr & -> & Hpr).
      exists s, t, pr. repeat split; try assumption. unfold piece_rule. cbn [abs_ptype PAWN].
      rewrite andb_assoc, Hpr, andb_true_r. apply (pawn_target_iff s t Hs Ht64). right. left. exact Ht.
    + assert (Ht64 : t < 64).
      { rewrite N.land_spec, andb_true_iff in Ht. eapply patt_lt64; [exact Hs|apply Ht]. }
      destruct (ep_facts Ee) as (He64 & Hpe & Hlr).
      assert (Et : t = ep p).
      { rewrite N.land_spec, andb_true_iff, (bit_spec (ep p) t He64) in Ht. symmetry. apply N.eqb_eq, Ht. }
      exists s, t, None. repeat split; try assumption; [apply decode_ep; assumption|].
      unfold piece_rule. cbn [abs_ptype PAWN]. rewrite andb_assoc.
      replace (promo_rule (abs_color stm) (abs_sq t) None) with true.
      2:{ unfold promo_rule. rewrite (last_rank_abs stm t Hstm Ht64), Et, Hlr. reflexivity. }
      rewrite andb_true_r. apply (pawn_target_iff s t Hs Ht64). right. right. split; assumption.
  - intros (s & t & pr & Hs & Ht & -> & Hpc & H). unfold piece_rule in H. cbn [abs_ptype PAWN] in H.
    rewrite andb_assoc in H. apply andb_true_iff in H. destruct H as [H Hpr].
    apply (pawn_target_iff s t Hs Ht) in H.
    assert (Hsrc : N.testbit (bb_at p stm PAWN) s = true) by (apply pawn_src; tauto).
    destruct H as [H | [H | [Ee H]]].
    + assert (Hd : In (mkf s t pr) (map decode (pawn_move_with_promotion stm s t))).
      { apply (pmwp_decode stm s t _ Hstm Hs Ht). exists pr. split; [reflexivity|exact Hpr]. }
      apply in_map_iff in Hd. destruct Hd as (m & Em & Hm). exists m. split; [exact Em|].
      apply in_pawn_moves_iff. fold stm. exists s. split; [exact Hsrc|]. left. exists t. tauto.
    + assert (Hd : In (mkf s t pr) (map decode (pawn_move_with_promotion stm s t))).
      { apply (pmwp_decode stm s t _ Hstm Hs Ht). exists pr. split; [reflexivity|exact Hpr]. }
      apply in_map_iff in Hd. destruct Hd as (m & Em & Hm). exists m. split; [exact Em|].
      apply in_pawn_moves_iff. fold stm. exists s. split; [exact Hsrc|]. right. left. exists t. tauto.
    + destruct (ep_facts Ee) as (He64 & Hpe & Hlr).
      assert (Et : t = ep p).
      { rewrite N.land_spec, andb_true_iff, (bit_spec (ep p) t He64) in H. symmetry. apply N.eqb_eq, H. }
      assert (Epr : pr = None).
      { unfold promo_rule in Hpr. rewrite (last_rank_abs stm t Hstm Ht), Et, Hlr in Hpr.
        destruct pr; [discriminate Hpr|reflexivity]. }
      subst pr. exists (mk_move_kind s t EN_PASSANT). split; [apply decode_ep; assumption|].
      apply in_pawn_moves_iff. fold stm. exists s. split; [exact Hsrc|]. right. right. split; [exact Ee|].
      exists t. tauto.
Qed.

(* ---- no repetition among the pawn moves ---- *)
Lemma in_promo_block s X fm : s < 64 -> (forall t, N.testbit X t = true -> t < 64) ->
  In fm (map decode (flat_map (fun dst => pawn_move_with_promotion stm s dst) (bits X))) ->
  exists t, N.testbit X t = true /\ m_from fm = abs_sq s /\ m_to fm = abs_sq t.
Proof.
  intros Hs HX H. rewrite map_flat_map in H. apply in_flat_map in H. destruct H as (t & Ht & H).
  apply bits_in in Ht. exists t. split; [exact Ht|]. apply (pmwp_decode_keys stm s t fm Hstm Hs (HX t Ht) H).
Qed.

Lemma promo_block_nodup s X : s < 64 -> (forall t, N.testbit X t = true -> t < 64) ->
  NoDup (map decode (flat_map (fun dst => pawn_move_with_promotion stm s dst) (bits X))).
Proof.
  intros Hs HX. rewrite map_flat_map. apply (NoDup_flat_map_key m_to abs_sq).
  - apply bits_NoDup.
  - intros t Ht. apply bits_in in Ht. apply pmwp_decode_nodup; auto.
  - intros t fm Ht H. apply bits_in in Ht. apply (pmwp_decode_keys stm s t fm Hstm Hs (HX t Ht) H).
  - intros t t' _ _. apply abs_sq_inj.
Qed.

Lemma in_ep_block s X fm : s < 64 -> (forall t, N.testbit X t = true -> t < 64) ->
  In fm (map decode (map (fun dst => mk_move_kind s dst EN_PASSANT) (bits X))) ->
  exists t, N.testbit X t = true /\ m_from fm = abs_sq s /\ m_to fm = abs_sq t.
Proof.
  intros Hs HX H. rewrite map_map in H. apply in_map_iff in H. destruct H as (t & <- & Ht).
  apply bits_in in Ht. exists t. split; [exact Ht|]. rewrite (decode_ep s t Hs (HX t Ht)). split; reflexivity.
Qed.

Lemma ep_block_nodup s X : s < 64 -> (forall t, N.testbit X t = true -> t < 64) ->
  NoDup (map decode (map (fun dst => mk_move_kind s dst EN_PASSANT) (bits X))).
Proof.
  intros Hs HX. rewrite map_map. apply NoDup_map_inj_in; [apply bits_NoDup|].
  intros t t' Ht Ht' E. apply bits_in in Ht, Ht'.
  rewrite (decode_ep s t Hs (HX t Ht)), (decode_ep s t' Hs (HX t' Ht')) in E. apply mkf_inj in E. tauto.
Qed.

Lemma push_patt_disj s occ t : s < 64 ->
  N.testbit (pushes_by_square stm s occ) t = true -> N.testbit (pawn_attacks stm s) t = true -> False.
Proof.
  intros Hs. rewrite (pushes_exact stm s occ Hs t), (pawn_attacks_exact stm s Hs t).
  unfold geo_pawn_push, geo_pawn_attack. rewrite !andb_true_iff. lia.
Qed.

Lemma land_l_lt64 s Y t : s < 64 -> N.testbit (N.land (pawn_attacks stm s) Y) t = true -> t < 64.
Proof. intros Hs H. rewrite N.land_spec, andb_true_iff in H. eapply patt_lt64; [exact Hs|apply H]. Qed.

Theorem pawn_nodup : NoDup (map decode pawn_list).
Proof.
  unfold pawn_list, pawn_moves. fold stm. rewrite map_flat_map.
  apply (NoDup_flat_map_key m_from abs_sq).
  - apply bits_NoDup.
  - intros s Hsrc. apply bits_in, pawn_src in Hsrc. destruct Hsrc as [Hs Hpc]. cbv beta.
    rewrite !map_app. apply (NoDup_app_key m_to); [|apply (NoDup_app_key m_to)|].
    + apply promo_block_nodup; [exact Hs|]. intros t. apply push_lt64, Hs.
    + apply promo_block_nodup; [exact Hs|]. intros t. apply land_l_lt64, Hs.
    + destruct (negb (ep p =? SQ_NONE)); [|constructor].
      apply ep_block_nodup; [exact Hs|]. intros t. apply land_l_lt64, Hs.
    + (* captures against en passant: the target of the one is occupied, of the other empty *)
      intros x y Hx Hy E. destruct (N.eqb_spec (ep p) SQ_NONE) as [Ee | Ee]; cbn [negb] in Hy; [destruct Hy|].
      apply (in_promo_block s _ x Hs) in Hx; [|intros t; apply land_l_lt64, Hs].
      apply (in_ep_block s _ y Hs) in Hy; [|intros t; apply land_l_lt64, Hs].
      destruct Hx as (t & Ht & _ & Etx). destruct Hy as (t' & Ht' & _ & Ety).
      rewrite Etx, Ety in E. apply abs_sq_inj in E. subst t'.
      destruct (ep_facts Ee) as (He64 & Hpe & _).
      assert (Ht64 : t < 64) by exact (land_l_lt64 s _ t Hs Ht).
      rewrite N.land_spec, andb_true_iff in Ht, Ht'. destruct Ht as [_ Ht]. destruct Ht' as [_ Ht'].
      rewrite (bit_spec (ep p) t He64) in Ht'. apply N.eqb_eq in Ht'. subst t.
      rewrite (them_testbit _ Ht64), Hpe in Ht. discriminate Ht.
    + (* pushes against captures and en passant: same file against neighbouring file *)
      intros x y Hx Hy E.
      apply (in_promo_block s _ x Hs) in Hx; [|intros t; apply push_lt64, Hs].
      destruct Hx as (t & Ht & _ & Etx).
      assert (Hy' : exists t', N.testbit (pawn_attacks stm s) t' = true /\ m_to y = abs_sq t').
      { apply in_app_or in Hy. destruct Hy as [Hy|Hy].
        - apply (in_promo_block s _ y Hs) in Hy; [|intros t0; apply land_l_lt64, Hs].
          destruct Hy as (t' & Ht' & _ & Ety). rewrite N.land_spec, andb_true_iff in Ht'. exists t'. tauto.
        - destruct (negb (ep p =? SQ_NONE)); [|destruct Hy].
          apply (in_ep_block s _ y Hs) in Hy; [|intros t0; apply land_l_lt64, Hs].
          destruct Hy as (t' & Ht' & _ & Ety). rewrite N.land_spec, andb_true_iff in Ht'. exists t'. tauto. }
      destruct Hy' as (t' & Ht' & Ety). rewrite Etx, Ety in E. apply abs_sq_inj in E. subst t'.
      exact (push_patt_disj s _ t Hs Ht Ht').
  - intros s fm Hsrc H. apply bits_in, pawn_src in Hsrc. destruct Hsrc as [Hs Hpc]. cbv beta in H.
    rewrite !map_app in H. apply in_app_or in H. destruct H as [H|H].
    { apply (in_promo_block s _ fm Hs) in H; [|intros t; apply push_lt64, Hs]. destruct H as (t & _ & H & _). exact H. }
    apply in_app_or in H. destruct H as [H|H].
    { apply (in_promo_block s _ fm Hs) in H; [|intros t; apply land_l_lt64, Hs]. destruct H as (t & _ & H & _). exact H. }
    destruct (negb (ep p =? SQ_NONE)); [|destruct H].
    apply (in_ep_block s _ fm Hs) in H; [|intros t; apply land_l_lt64, Hs]. destruct H as (t & _ & H & _). exact H.
  - intros s s' _ _. apply abs_sq_inj.
Qed.

End Pos.
