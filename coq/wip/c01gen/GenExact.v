(* C01, generator part: the pseudo-legal move generator is exact.
   Under the C10 invariant GenerateMoves does not panic, and the moves it returns, read through
   [decode], are exactly the moves the FIDE specification (Rules/Fide.v) calls pseudo-legal in the
   abstracted position: none missing, none extra, none twice. *)
From Coq Require Import NArith ZArith List Bool Lia ZifyBool ZifyN ZifyNat.
From Clemens Require Import Base.Res Base.Word Pos.Types Att.Attacks Att.Geometry Att.ShiftsProofs
  Att.SlidingProofs Att.LeaperInst Att.AttackersProofs Pos.Position Pos.Inv Pos.CapturesProofs.
From Clemens Require Import Rules.Fide Rules.Abs.
From WipC01gen Require Import Glue Slides AttGlue ListFacts Master Pieces Pawns Castle Castle2 KingClass.
Import ListNotations.
Open Scope N_scope.

Section Pos.
Variable p : position.
Hypothesis HI : Inv p.

Let F := inv_facts p HI.

(* the generator's result, class by class *)
Definition gen_parts (cs : list N) : list (N * list N) :=
  [ (ROOK, helper_list p ROOK (all_pieces p) rook_attacks);
    (BISHOP, helper_list p BISHOP (all_pieces p) bishop_attacks);
    (QUEEN, helper_list p QUEEN (all_pieces p) queen_attacks);
    (KNIGHT, helper_list p KNIGHT 0 (fun s _ => knight_attacks s));
    (PAWN, pawn_list p);
    (KING, king_list p cs) ].

Lemma gen_moves_shape :
  exists cs, castling_moves p = Ok cs /\ gen_moves p = Ok (concat (map snd (gen_parts cs))).
Proof.
  destruct (castling_moves_spec p HI) as (cs & Hcs & _). exists cs. split; [exact Hcs|].
  unfold gen_moves. cbv zeta.
  rewrite (CapturesProofs.color_bb_ok p F _ (side_lt p F)), (CapturesProofs.color_bb_ok p F _ (switch_lt p F)).
  cbn [bind].
  rewrite !(CapturesProofs.get_bb_ok p F (side p)) by (first [apply (side_lt p F) | reflexivity]).
  cbn [bind]. rewrite Hcs. cbn [bind]. f_equal.
  unfold gen_parts, helper_list, pawn_list, king_list, helper_list. cbn [map snd concat].
  rewrite app_nil_r. reflexivity.
Qed.

Theorem gen_moves_total : exists ms, gen_moves p = Ok ms.
Proof. destruct gen_moves_shape as (cs & _ & H). eexists. exact H. Qed.

Lemma parts_class cs T l fm : castling_moves p = Ok cs -> In (T, l) (gen_parts cs) ->
  T < 6 /\ NoDup (map decode l) /\ (In fm (map decode l) <-> class_spec p T fm).
Proof.
  intros Hcs Hin. unfold gen_parts in Hin. cbn [In] in Hin.
  destruct Hin as [E | [E | [E | [E | [E | [E | []]]]]]]; injection E as <- <-; (split; [reflexivity|]).
  - split; [apply (helper_list_nodup p HI); reflexivity | apply (rook_class p HI)].
  - split; [apply (helper_list_nodup p HI); reflexivity | apply (bishop_class p HI)].
  - split; [apply (helper_list_nodup p HI); reflexivity | apply (queen_class p HI)].
  - split; [apply (helper_list_nodup p HI); reflexivity | apply (knight_class p HI)].
  - split; [apply (pawn_nodup p HI) | apply (pawn_class p HI)].
  - split; [apply (king_nodup p HI cs Hcs) | apply (king_class p HI cs Hcs)].
Qed.

Lemma parts_types cs : map fst (gen_parts cs) = [ROOK; BISHOP; QUEEN; KNIGHT; PAWN; KING].
Proof. reflexivity. Qed.

(* concatenation of class lists *)
Lemma concat_classes (parts : list (N * list N)) :
  (forall T l, In (T, l) parts ->
     T < 6 /\ NoDup (map decode l) /\ forall fm, In fm (map decode l) -> class_spec p T fm) ->
  NoDup (map fst parts) ->
  NoDup (map decode (concat (map snd parts))) /\
  forall fm, In fm (map decode (concat (map snd parts))) -> exists T l, In (T, l) parts /\ In fm (map decode l).
Proof.
  induction parts as [|[T l] parts IH]; intros Hp Hnd; [split; [constructor|intros fm []]|].
  cbn [map snd fst concat] in *. inversion Hnd as [|? ? Hn Hnd']; subst.
  destruct IH as [IH1 IH2]; [intros T' l' H; apply Hp; right; exact H|exact Hnd'|].
  destruct (Hp T l (or_introl eq_refl)) as (HT & Hl & Hc). rewrite map_app. split.
  - apply NoDup_app_disj; [exact Hl|exact IH1|].
    intros fm H1 H2. apply IH2 in H2. destruct H2 as (T' & l' & Hin & H2).
    destruct (Hp T' l' (or_intror Hin)) as (HT' & _ & Hc').
    assert (E : T = T') by exact (class_spec_disj p F T T' fm HT HT' (Hc fm H1) (Hc' fm H2)).
    subst T'. apply Hn. change T with (fst (T, l')). apply in_map. exact Hin.
  - intros fm H. apply in_app_or in H. destruct H as [H | H].
    + exists T, l. split; [left; reflexivity|exact H].
    + apply IH2 in H. destruct H as (T' & l' & Hin & H). exists T', l'. split; [right; exact Hin|exact H].
Qed.

Lemma in_concat_parts (parts : list (N * list N)) T l fm :
  In (T, l) parts -> In fm (map decode l) -> In fm (map decode (concat (map snd parts))).
Proof.
  induction parts as [|[T' l'] parts IH]; intros Hl Hc; [destruct Hl|].
  cbn [map snd concat]. rewrite map_app. apply in_or_app. destruct Hl as [E | Hl].
  - injection E as -> ->. left. exact Hc.
  - right. apply IH; assumption.
Qed.

Theorem gen_moves_exact_here ms : gen_moves p = Ok ms ->
  (forall fm, pseudo_legal (abs p) fm = true <-> In fm (map decode ms)) /\ NoDup (map decode ms).
Proof.
  intros Hms. destruct gen_moves_shape as (cs & Hcs & Hg).
  assert (E : ms = concat (map snd (gen_parts cs))) by congruence. rewrite E. clear E Hms Hg.
  destruct (concat_classes (gen_parts cs)) as [Hnd Hin].
  { intros T l H. destruct (parts_class cs T l (mkf 0 0 None) Hcs H) as (HT & Hl & _).
    split; [exact HT|]. split; [exact Hl|]. intros fm. apply (parts_class cs T l fm Hcs H). }
  { rewrite parts_types. repeat constructor; cbn [In]; intros H;
      repeat (destruct H as [H|H]; [discriminate H|]); exact H. }
  split; [|exact Hnd]. intros fm. rewrite (pl_iff_class p F). split.
  - intros (T & HT & Hc).
    assert (Hex : exists l, In (T, l) (gen_parts cs)).
    { unfold gen_parts.
      assert (T = PAWN \/ T = KNIGHT \/ T = BISHOP \/ T = ROOK \/ T = QUEEN \/ T = KING) as
        [-> | [-> | [-> | [-> | [-> | ->]]]]] by (unfold PAWN, KNIGHT, BISHOP, ROOK, QUEEN, KING; lia);
        eexists; cbn [In]; eauto 10. }
    destruct Hex as (l & Hl). apply (parts_class cs T l fm Hcs Hl) in Hc.
    exact (in_concat_parts _ T l fm Hl Hc).
  - intros H. apply Hin in H. destruct H as (T & l & Hl & H).
    exists T. destruct (parts_class cs T l fm Hcs Hl) as (HT & _ & Hc). split; [exact HT|apply Hc, H].
Qed.

(* a class, in the specification's own words: the pseudo-legal moves of the pieces of one type *)
Definition moved_type (s : bstate) (fm : fmove) (ty : ptype) : Prop :=
  exists q, at_sq s (m_from fm) = Some q /\ p_type q = ty.

Lemma abs_ptype_inj T T' : T < 6 -> T' < 6 -> abs_ptype T = abs_ptype T' -> T = T'.
Proof.
  intros H H'.
  assert (T = 0 \/ T = 1 \/ T = 2 \/ T = 3 \/ T = 4 \/ T = 5) as [-> | [-> | [-> | [-> | [-> | ->]]]]] by lia;
  assert (T' = 0 \/ T' = 1 \/ T' = 2 \/ T' = 3 \/ T' = 4 \/ T' = 5) as [-> | [-> | [-> | [-> | [-> | ->]]]]] by lia;
  intros E; try discriminate E; reflexivity.
Qed.

Lemma class_spec_moved T fm : T < 6 -> class_spec p T fm -> moved_type (abs p) fm (abs_ptype T).
Proof.
  intros HT (s & t & pr & Hs & Ht & -> & Hpc & _). unfold moved_type, mkf. cbn [m_from].
  rewrite (at_sq_abs p s (F_len p F) Hs), Hpc, (abs_piece_new _ T (side_lt p F) HT).
  eexists. split; reflexivity.
Qed.

Lemma class_spec_pl T fm : T < 6 ->
  (class_spec p T fm <-> pseudo_legal (abs p) fm = true /\ moved_type (abs p) fm (abs_ptype T)).
Proof.
  intros HT. split.
  - intros H. split; [apply (pl_iff_class p F); exists T; tauto|apply class_spec_moved; assumption].
  - intros [Hpl (q & Hq & Hty)]. apply (pl_iff_class p F) in Hpl. destruct Hpl as (T' & HT' & Hc).
    destruct (class_spec_moved T' fm HT' Hc) as (q' & Hq' & Hty'). rewrite Hq in Hq'. injection Hq' as <-.
    rewrite Hty in Hty'. apply (abs_ptype_inj T T' HT HT') in Hty'. subst T'. exact Hc.
Qed.

Theorem gen_class_exact_here cs T l fm : castling_moves p = Ok cs -> In (T, l) (gen_parts cs) ->
  (In fm (map decode l) <-> pseudo_legal (abs p) fm = true /\ moved_type (abs p) fm (abs_ptype T)).
Proof.
  intros Hcs Hin. destruct (parts_class cs T l fm Hcs Hin) as (HT & _ & Hc).
  rewrite Hc. apply class_spec_pl, HT.
Qed.

End Pos.

(* ------------------------------------------------------------------------------------------ *)
(* the statements                                                                               *)

Theorem gen_moves_exact : forall p ms, Inv p -> gen_moves p = Ok ms ->
  (forall fm, pseudo_legal (abs p) fm = true <-> In fm (map decode ms)) /\ NoDup (map decode ms).
Proof. intros p ms HI. apply gen_moves_exact_here, HI. Qed.

Theorem gen_moves_no_panic : forall p, Inv p -> exists ms, gen_moves p = Ok ms.
Proof. intros p HI. apply gen_moves_total, HI. Qed.

(* no move word twice, and [decode] (which forgets only the kind bits) separates generated words *)
Theorem gen_moves_NoDup : forall p ms, Inv p -> gen_moves p = Ok ms -> NoDup ms.
Proof. intros p ms HI H. apply (NoDup_map_inv' decode). apply (gen_moves_exact p ms HI H). Qed.

Theorem decode_injective_on_generated : forall p ms, Inv p -> gen_moves p = Ok ms ->
  forall m1 m2, In m1 ms -> In m2 ms -> decode m1 = decode m2 -> m1 = m2.
Proof. intros p ms HI H. apply NoDup_map_injective. apply (gen_moves_exact p ms HI H). Qed.

(* castling alone: the generator's castling moves are the specification's, in order *)
Theorem castling_moves_exact : forall p, Inv p ->
  exists cs, castling_moves p = Ok cs /\ map decode cs = castle_spec_list (abs p).
Proof. exact castling_moves_spec. Qed.

(* class by class: the generator's result is the concatenation of six lists (rook, bishop, queen,
   knight, pawn moves, king moves = castling followed by steps); the list of the pieces of type T
   holds exactly the pseudo-legal moves whose moving piece has type T *)
Theorem gen_moves_by_class : forall p, Inv p ->
  exists cs, castling_moves p = Ok cs /\
    gen_moves p = Ok (concat (map snd (gen_parts p cs))) /\
    map fst (gen_parts p cs) = [ROOK; BISHOP; QUEEN; KNIGHT; PAWN; KING] /\
    forall T l, In (T, l) (gen_parts p cs) ->
      NoDup (map decode l) /\
      forall fm, In fm (map decode l) <->
                 pseudo_legal (abs p) fm = true /\ moved_type (abs p) fm (abs_ptype T).
Proof.
  intros p HI. destruct (gen_moves_shape p HI) as (cs & Hcs & Hg). exists cs.
  split; [exact Hcs|]. split; [exact Hg|]. split; [reflexivity|].
  intros T l Hin. split.
  - apply (parts_class p HI cs T l (mkf 0 0 None) Hcs Hin).
  - intros fm. apply (gen_class_exact_here p HI cs T l fm Hcs Hin).
Qed.

Print Assumptions gen_moves_exact.
Print Assumptions gen_moves_by_class.
Print Assumptions gen_moves_no_panic.
Print Assumptions gen_moves_NoDup.
Print Assumptions decode_injective_on_generated.
Print Assumptions castling_moves_exact.
