(* C01, generator part: the specification's [pseudo_legal] over the abstraction of a position,
   brought to the form "own piece of type T on s, no own piece on t, the rule of T holds", and the
   decoding of the move words the generator builds. *)
From Coq Require Import NArith ZArith List Bool Lia ZifyBool ZifyN ZifyNat.
From Clemens Require Import Base.Res Base.Word Pos.Types Att.Attacks Att.Geometry Att.ShiftsProofs
  Att.SlidingProofs Att.LeaperInst Att.AttackersProofs Pos.Position Pos.Inv Pos.CapturesProofs.
From Clemens Require Import Rules.Fide Rules.Abs.
From WipC01gen Require Import Glue Slides AttGlue ListFacts.
Import ListNotations.
Open Scope N_scope.

(* the way a piece of type [ty] and colour [c] moves from a to b: the inner match of [pseudo_legal] *)
Definition is_none {A} (o : option A) : bool := match o with None => true | Some _ => false end.

Definition promo_rule (c : color) (b : square) (pr : option ptype) : bool :=
  if (snd b =? last_rank c)%Z
  then match pr with Some t => is_promo_piece t | None => false end
  else match pr with None => true | Some _ => false end.

Definition pawn_geo (s : bstate) (c : color) (a b : square) : bool :=
  let df := (fst b - fst a)%Z in let dr := (snd b - snd a)%Z in
  ((df =? 0)%Z && (dr =? forward c)%Z && empty s b)
  || ((df =? 0)%Z && (dr =? 2 * forward c)%Z && (snd a =? pawn_start c)%Z
      && empty s (fst a, (snd a + forward c)%Z) && empty s b)
  || ((Z.abs df =? 1)%Z && (dr =? forward c)%Z && negb (empty s b))
  || ((Z.abs df =? 1)%Z && (dr =? forward c)%Z && empty s b
      && match b_ep s with Some e => sq_eqb e b | None => false end).

Definition castle_geo (s : bstate) (c : color) (a b : square) : bool :=
  (sq_eqb a (4, home_rank c)%Z && sq_eqb b (6, home_rank c)%Z && castling_ok s c true)
  || (sq_eqb a (4, home_rank c)%Z && sq_eqb b (2, home_rank c)%Z && castling_ok s c false).

Definition piece_rule (s : bstate) (c : color) (ty : ptype) (a b : square) (pr : option ptype) : bool :=
  match ty with
  | Pawn => pawn_geo s c a b && promo_rule c b pr
  | Knight => knight_jump a b && is_none pr
  | Bishop => slides s a b false true && is_none pr
  | Rook => slides s a b true false && is_none pr
  | Queen => slides s a b true true && is_none pr
  | King => is_none pr && (king_step a b || castle_geo s c a b)
  end.

Lemma pseudo_legal_unfold (s : bstate) (m : fmove) :
  pseudo_legal s m =
  let a := m_from m in let b := m_to m in
  Fide.on_board a && Fide.on_board b && negb (sq_eqb a b) &&
  match at_sq s a with
  | None => false
  | Some p =>
    color_eqb (p_color p) (b_turn s) &&
    match at_sq s b with Some q => negb (color_eqb (p_color q) (b_turn s)) | None => true end &&
    piece_rule s (p_color p) (p_type p) a b (m_promo m)
  end.
Proof.
  unfold pseudo_legal. cbv zeta. destruct (at_sq s (m_from m)) as [pc|]; [|reflexivity].
  destruct (p_type pc); unfold piece_rule, pawn_geo, promo_rule, castle_geo, is_none; cbv zeta;
    try reflexivity.
  all: destruct (m_promo m); rewrite ?orb_assoc; reflexivity.
Qed.

(* every rule moves the piece *)
Lemma slides_irrefl s a r b : slides s a a r b = false.
Proof.
  unfold slides, aligned_rook, aligned_bishop.
  replace (sq_eqb a a) with true by (symmetry; apply sq_eqb_true; reflexivity).
  cbn [negb andb]. rewrite !andb_false_r. reflexivity.
Qed.

Lemma piece_rule_irrefl s c ty a pr : piece_rule s c ty a a pr = false.
Proof.
  destruct ty; unfold piece_rule; rewrite ?slides_irrefl; try reflexivity.
  - unfold pawn_geo. cbv zeta. destruct c; unfold forward; apply andb_false_iff; left;
      repeat (apply orb_false_iff; split); lia.
  - unfold knight_jump. cbv zeta. apply andb_false_iff. left. lia.
  - unfold king_step, castle_geo.
    replace (sq_eqb a a) with true by (symmetry; apply sq_eqb_true; reflexivity).
    apply andb_false_iff. right. cbn [negb andb orb].
    destruct (sq_eqb a (4, home_rank c)%Z) eqn:E; cbn [andb orb]; [|reflexivity].
    apply sq_eqb_true in E. subst a. unfold sq_eqb. cbn [fst snd]. reflexivity.
Qed.

(* ------------------------------------------------------------------------------------------ *)
(* decoding the generator's words                                                               *)

Definition mkf (s t : N) (pr : option ptype) : fmove :=
  {| m_from := abs_sq s; m_to := abs_sq t; m_promo := pr |}.

Lemma mkf_inj s t pr s' t' pr' : mkf s t pr = mkf s' t' pr' -> s = s' /\ t = t' /\ pr = pr'.
Proof.
  unfold mkf. intros H.
  assert (H1 : abs_sq s = abs_sq s') by exact (f_equal m_from H).
  assert (H2 : abs_sq t = abs_sq t') by exact (f_equal m_to H).
  assert (H3 : pr = pr') by exact (f_equal m_promo H).
  split; [apply abs_sq_inj; exact H1|]. split; [apply abs_sq_inj; exact H2|exact H3].
Qed.

Lemma decode_mk_move s t : s < 64 -> t < 64 -> decode (mk_move s t) = mkf s t None.
Proof.
  intros Hs Ht. unfold decode, mkf.
  rewrite (mv_src_mk_move s t Hs Ht), (mv_dst_mk_move s t Hs Ht), (mv_kind_mk_move s t Hs Ht). reflexivity.
Qed.

Definition src_chk (s t : N) : bool :=
  (mv_src (mk_move_kind s t EN_PASSANT) =? s) && (mv_src (castle_mv s t) =? s).
Lemma src_chk_all : forallb (fun s => forallb (src_chk s) squares) squares = true.
Proof. vm_compute. reflexivity. Qed.
Lemma mv_src_ep s t : s < 64 -> t < 64 -> mv_src (mk_move_kind s t EN_PASSANT) = s.
Proof.
  intros Hs Ht. pose proof (forall_squares2 src_chk src_chk_all s t Hs Ht) as H.
  unfold src_chk in H. apply andb_true_iff in H. apply N.eqb_eq, H.
Qed.
Lemma mv_src_castle s t : s < 64 -> t < 64 -> mv_src (castle_mv s t) = s.
Proof.
  intros Hs Ht. pose proof (forall_squares2 src_chk src_chk_all s t Hs Ht) as H.
  unfold src_chk in H. apply andb_true_iff in H. apply N.eqb_eq, H.
Qed.

Lemma decode_ep s t : s < 64 -> t < 64 -> decode (mk_move_kind s t EN_PASSANT) = mkf s t None.
Proof.
  intros Hs Ht. unfold decode, mkf.
  rewrite (mv_src_ep s t Hs Ht), (mv_dst_ep s t Hs Ht), (mv_kind_ep s t Hs Ht). reflexivity.
Qed.

Lemma decode_castle s t : s < 64 -> t < 64 -> decode (castle_mv s t) = mkf s t None.
Proof.
  intros Hs Ht. unfold decode, mkf.
  rewrite (mv_src_castle s t Hs Ht), (mv_dst_castle s t Hs Ht), (mv_kind_castle s t Hs Ht). reflexivity.
Qed.

Lemma decode_promo s t pt : s < 64 -> t < 64 -> In pt promo_types ->
  decode (mk_promo s t pt) = mkf s t (Some (abs_ptype pt)).
Proof.
  intros Hs Ht Hpt. destruct (mk_promo_fields s t Hs Ht pt Hpt) as (E1 & E2 & E3 & E4).
  unfold decode, mkf. rewrite E1, E2, E3, E4. reflexivity.
Qed.

(* ------------------------------------------------------------------------------------------ *)
(* positions                                                                                    *)

Section Pos.
Variable p : position.
Hypothesis F : facts p.

Let L := F_len p F.
Let V := F_valid p F.
Let stm := side p.

Lemma stm_lt : stm < 2. Proof. apply side_lt, F. Qed.

Lemma turn_abs : b_turn (abs p) = abs_color stm. Proof. reflexivity. Qed.

Lemma pl_master s t pr T : s < 64 -> t < 64 -> T < 6 -> piece_at p s = new_piece stm T ->
  pseudo_legal (abs p) (mkf s t pr) =
  negb (is_piece_of stm (piece_at p t)) &&
  piece_rule (abs p) (abs_color stm) (abs_ptype T) (abs_sq s) (abs_sq t) pr.
Proof.
  intros Hs Ht HT Hpc. rewrite pseudo_legal_unfold. unfold mkf. cbv zeta. cbn [m_from m_to m_promo].
  rewrite (abs_sq_on_board s Hs), (abs_sq_on_board t Ht), (at_sq_abs p s L Hs), (at_sq_abs p t L Ht).
  rewrite Hpc, (abs_piece_new stm T stm_lt HT), turn_abs. cbn [p_color p_type].
  rewrite (abs_piece_target stm _ (V t Ht) stm_lt).
  replace (color_eqb (abs_color stm) (abs_color stm)) with true by (destruct (abs_color stm); reflexivity).
  cbn [andb]. rewrite sq_eqb_abs. destruct (N.eqb_spec s t) as [<- | Hne]; [|reflexivity].
  cbn [negb andb]. rewrite piece_rule_irrefl, andb_false_r. reflexivity.
Qed.

Lemma pl_inv fm : pseudo_legal (abs p) fm = true ->
  exists s t T, s < 64 /\ t < 64 /\ T < 6 /\ piece_at p s = new_piece stm T /\ fm = mkf s t (m_promo fm).
Proof.
  rewrite pseudo_legal_unfold. cbv zeta. rewrite !andb_true_iff. intros [[[Ha Hb] _] H].
  destruct (on_board_abs_sq _ Ha) as (s & Hs & Ea). destruct (on_board_abs_sq _ Hb) as (t & Ht & Eb).
  rewrite Ea, (at_sq_abs p s L Hs) in H.
  pose proof (abs_piece_own stm _ (V s Hs) stm_lt) as Ho.
  destruct (abs_piece (piece_at p s)) as [pc|] eqn:E; [|discriminate H].
  rewrite turn_abs in H. apply andb_true_iff in H. destruct H as [H _]. apply andb_true_iff in H.
  destruct H as [H _]. rewrite H in Ho. symmetry in Ho.
  destruct (own_piece_type stm _ (V s Hs) stm_lt Ho) as (T & HT & ET).
  exists s, t, T. repeat split; try assumption. destruct fm as [a b pr]. cbn [m_from m_to m_promo] in *.
  unfold mkf. congruence.
Qed.

(* what the generator has to produce for the pieces of type T *)
Definition class_spec (T : N) (fm : fmove) : Prop :=
  exists s t pr, s < 64 /\ t < 64 /\ fm = mkf s t pr /\ piece_at p s = new_piece stm T /\
    negb (is_piece_of stm (piece_at p t)) &&
    piece_rule (abs p) (abs_color stm) (abs_ptype T) (abs_sq s) (abs_sq t) pr = true.

Lemma pl_iff_class fm : pseudo_legal (abs p) fm = true <-> exists T, T < 6 /\ class_spec T fm.
Proof.
  split.
  - intros H. destruct (pl_inv fm H) as (s & t & T & Hs & Ht & HT & Hpc & E).
    exists T. split; [exact HT|]. exists s, t, (m_promo fm). repeat split; try assumption.
    rewrite <- (pl_master s t (m_promo fm) T Hs Ht HT Hpc), <- E. exact H.
  - intros (T & HT & s & t & pr & Hs & Ht & -> & Hpc & H). rewrite (pl_master s t pr T Hs Ht HT Hpc). exact H.
Qed.

(* two classes never share a move *)
Lemma class_spec_disj T T' fm : T < 6 -> T' < 6 -> class_spec T fm -> class_spec T' fm -> T = T'.
Proof.
  intros HT HT' (s & t & pr & Hs & Ht & -> & Hpc & _) (s' & t' & pr' & Hs' & Ht' & E & Hpc' & _).
  apply mkf_inj in E. destruct E as (<- & _ & _). rewrite Hpc in Hpc'.
  exact (new_piece_inj stm T T' stm_lt HT HT' Hpc').
Qed.

End Pos.

Lemma inv_clauses p : Inv p ->
  board_wf p = true /\ bbs_agree p = true /\ helpers_agree p = true /\ one_king_each p = true /\
  no_back_rank_pawns p = true /\ castling_consistent p = true /\ ep_consistent p = true /\
  scalars_ok p = true /\ mover_not_in_check p = true.
Proof. unfold Inv, inv_b. rewrite !andb_true_iff. tauto. Qed.
