(* C01, generator part: list lemmas (NoDup of concatenations and flat_maps by a key). *)
From Coq Require Import List Bool.
Import ListNotations.

Lemma NoDup_app_disj {A} (l1 l2 : list A) :
  NoDup l1 -> NoDup l2 -> (forall x, In x l1 -> In x l2 -> False) -> NoDup (l1 ++ l2).
Proof.
  induction l1 as [|a l1 IH]; intros H1 H2 D; [exact H2|].
  cbn [app]. inversion H1 as [|? ? Hn H1']; subst. constructor.
  - rewrite in_app_iff. intros [H|H]; [exact (Hn H)|]. apply (D a); [left; reflexivity|exact H].
  - apply IH; [exact H1'|exact H2|]. intros x Hx1 Hx2. apply (D x); [right; exact Hx1|exact Hx2].
Qed.

(* concatenation of lists whose elements carry different keys *)
Lemma NoDup_app_key {A K} (key : A -> K) (l1 l2 : list A) :
  NoDup l1 -> NoDup l2 -> (forall x y, In x l1 -> In y l2 -> key x <> key y) -> NoDup (l1 ++ l2).
Proof.
  intros H1 H2 D. apply NoDup_app_disj; [exact H1|exact H2|].
  intros x Hx1 Hx2. exact (D x x Hx1 Hx2 eq_refl).
Qed.

(* every block of a flat_map has its own key *)
Lemma NoDup_flat_map_key {A B K} (key : B -> K) (k : A -> K) (f : A -> list B) (l : list A) :
  NoDup l ->
  (forall a, In a l -> NoDup (f a)) ->
  (forall a b, In a l -> In b (f a) -> key b = k a) ->
  (forall a a', In a l -> In a' l -> k a = k a' -> a = a') ->
  NoDup (flat_map f l).
Proof.
  induction l as [|a l IH]; intros Hl Hf Hk Hinj; [constructor|].
  cbn [flat_map]. inversion Hl as [|? ? Hn Hl']; subst. apply NoDup_app_disj.
  - apply Hf. left. reflexivity.
  - apply IH; [exact Hl'| | |].
    + intros a' Ha'. apply Hf. right. exact Ha'.
    + intros a' b Ha' Hb. apply Hk; [right; exact Ha'|exact Hb].
    + intros a1 a2 H1 H2. apply Hinj; right; assumption.
  - intros x Hx1 Hx2. apply in_flat_map in Hx2. destruct Hx2 as (a' & Ha' & Hx2).
    assert (E : k a = k a').
    { rewrite <- (Hk a x (or_introl eq_refl) Hx1). apply Hk; [right; exact Ha'|exact Hx2]. }
    apply Hinj in E; [|left; reflexivity|right; exact Ha']. subst a'. exact (Hn Ha').
Qed.

Lemma NoDup_map_inj_in {A B} (f : A -> B) (l : list A) :
  NoDup l -> (forall x y, In x l -> In y l -> f x = f y -> x = y) -> NoDup (map f l).
Proof.
  induction l as [|a l IH]; intros Hl Hinj; [constructor|].
  cbn [map]. inversion Hl as [|? ? Hn Hl']; subst. constructor.
  - intros H. apply in_map_iff in H. destruct H as (x & E & Hx).
    apply Hinj in E; [|right; exact Hx|left; reflexivity]. subst x. exact (Hn Hx).
  - apply IH; [exact Hl'|]. intros x y Hx Hy. apply Hinj; right; assumption.
Qed.

(* a map without repetitions comes from a list without repetitions on which the function is injective *)
Lemma NoDup_map_inv' {A B} (f : A -> B) (l : list A) : NoDup (map f l) -> NoDup l.
Proof.
  induction l as [|a l IH]; intros H; [constructor|].
  cbn [map] in H. inversion H as [|? ? Hn H']; subst. constructor; [|apply IH, H'].
  intros Ha. apply Hn. apply in_map. exact Ha.
Qed.

Lemma NoDup_map_injective {A B} (f : A -> B) (l : list A) :
  NoDup (map f l) -> forall x y, In x l -> In y l -> f x = f y -> x = y.
Proof.
  induction l as [|a l IH]; intros H x y Hx Hy E; [destruct Hx|].
  cbn [map] in H. inversion H as [|? ? Hn H']; subst.
  destruct Hx as [<-|Hx], Hy as [<-|Hy].
  - reflexivity.
  - exfalso. apply Hn. rewrite E. apply in_map. exact Hy.
  - exfalso. apply Hn. rewrite <- E. apply in_map. exact Hx.
  - apply IH; assumption.
Qed.

Lemma map_flat_map {A B C} (g : B -> C) (f : A -> list B) (l : list A) :
  map g (flat_map f l) = flat_map (fun a => map g (f a)) l.
Proof. induction l as [|a l IH]; [reflexivity|]. cbn [flat_map]. rewrite map_app, IH. reflexivity. Qed.

Lemma flat_map_singleton {A B} (f : A -> B) (l : list A) : flat_map (fun a => [f a]) l = map f l.
Proof. induction l as [|a l IH]; [reflexivity|]. cbn [flat_map map app]. rewrite IH. reflexivity. Qed.
