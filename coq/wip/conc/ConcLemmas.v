(* C06 (UCI dialogue liveness), part 1: statement-level definitions, boolean checkers, and the list
   lemmas (nth_error / upd_nth / last / app / filter-counting) used by the invariant proof. *)
From Coq Require Import List Bool Arith Lia.
From Clemens Require Import Uci.Conc.
Import ListNotations.

(* ------------------------------------------------------------------ statement-level definitions *)

Definition is_ready (e : event) : bool := match e with EReady => true | _ => false end.
Definition is_refusal (e : event) : bool := match e with ERefusePos | ERefuseGo => true | _ => false end.
Definition is_best_of (k : nat) (e : event) : bool := match e with EBest j => j =? k | _ => false end.
(* number of `readyok` lines / of `bestmove` lines of search k in an output *)
Definition count_ready (o : list event) : nat := length (filter is_ready o).
Definition best_occ (k : nat) (o : list event) : nat := length (filter (is_best_of k) o).

Definition is_cready (c : cmd) : bool := match c with CReady => true | _ => false end.
Definition is_cgo (c : cmd) : bool := match c with CGo _ => true | _ => false end.
Definition count_creadys (d : list cmd) : nat := length (filter is_cready d).
Definition count_cgos (d : list cmd) : nat := length (filter is_cgo d).

Definition is_LR (l : label) : bool := match l with LR => true | _ => false end.
Definition is_LS (k : nat) (l : label) : bool := match l with LS j => j =? k | _ => false end.
(* how often the reader / search goroutine k is scheduled in a schedule *)
Definition count_LR (sched : list label) : nat := length (filter is_LR sched).
Definition count_LS (k : nat) (sched : list label) : nat := length (filter (is_LS k) sched).

(* search-goroutine program counters *)
Definition printed (t : sthread) : bool := match s_pc t with SEnd | SDone => true | _ => false end.
Definition live (t : sthread) : bool := match s_pc t with SStart | SRunning => true | _ => false end.
Definition past (t : sthread) : bool := match s_pc t with SMid | SEnd | SDone => true | _ => false end.
Definition is_done (t : sthread) : bool := match s_pc t with SDone => true | _ => false end.

Definition last_opt {A} (l : list A) : option A := nth_error l (length l - 1).

(* number of the handler's own steps until it returns *)
Definition hmeasure (h : hpc) : nat :=
  match h with
  | HLock (CGo _) => 5
  | HStartLocked _ => 4
  | HStartSpawn _ => 3
  | HStartSpawned => 2
  | HStartEnd => 1
  | HLock _ => 1
  end.

(* number of the search goroutine's own steps until it has printed bestmove *)
Definition smeasure (p : spc) : nat :=
  match p with SStart => 3 | SRunning => 2 | SMid => 1 | SEnd => 0 | SDone => 0 end.

(* ------------------------------------------------------------------ generic list lemmas *)

Lemma length_upd_nth {A} (l : list A) i v : length (upd_nth l i v) = length l.
Proof.
  revert i; induction l as [|a l IH]; intros [|i]; simpl; auto.
Qed.

Lemma nth_error_upd_nth_eq {A} (l : list A) i v :
  i < length l -> nth_error (upd_nth l i v) i = Some v.
Proof.
  revert i; induction l as [|a l IH]; intros [|i] H; simpl in *; try lia; auto.
  apply IH; lia.
Qed.

Lemma nth_error_upd_nth_neq {A} (l : list A) i j v :
  j <> i -> nth_error (upd_nth l i v) j = nth_error l j.
Proof.
  revert i j; induction l as [|a l IH]; intros [|i] [|j] H; simpl in *; auto; try congruence.
Qed.

Lemma nth_error_Some_lt {A} (l : list A) i x : nth_error l i = Some x -> i < length l.
Proof. intros H. apply nth_error_Some. congruence. Qed.

Lemma nth_error_snoc {A} (l : list A) x : nth_error (l ++ [x]) (length l) = Some x.
Proof. rewrite nth_error_app2 by lia. now rewrite Nat.sub_diag. Qed.

Lemma nth_error_snoc_inv {A} (l : list A) x i y :
  nth_error (l ++ [x]) i = Some y -> (i < length l /\ nth_error l i = Some y) \/ (i = length l /\ y = x).
Proof.
  intros H. destruct (Nat.lt_ge_cases i (length l)) as [Hl|Hl].
  - left. split; auto. now rewrite nth_error_app1 in H.
  - right. pose proof (nth_error_Some_lt _ _ _ H) as Hlt. rewrite app_length in Hlt; simpl in Hlt.
    assert (i = length l) by lia; subst. rewrite nth_error_snoc in H. split; congruence.
Qed.

Lemma last_opt_nil {A} : @last_opt A [] = None.
Proof. reflexivity. Qed.

Lemma last_opt_snoc {A} (l : list A) x : last_opt (l ++ [x]) = Some x.
Proof.
  unfold last_opt. rewrite app_length; simpl.
  replace (length l + 1 - 1) with (length l) by lia. apply nth_error_snoc.
Qed.

Lemma last_opt_upd_nth {A} (l : list A) i v :
  i < length l ->
  last_opt (upd_nth l i v) = if i =? length l - 1 then Some v else last_opt l.
Proof.
  intros H. unfold last_opt. rewrite length_upd_nth.
  destruct (i =? length l - 1) eqn:E.
  - apply Nat.eqb_eq in E. rewrite <- E. now apply nth_error_upd_nth_eq.
  - apply Nat.eqb_neq in E. apply nth_error_upd_nth_neq. congruence.
Qed.

Lemma last_opt_None {A} (l : list A) : last_opt l = None -> l = [].
Proof.
  unfold last_opt. intros H. destruct l as [|a l]; auto.
  apply nth_error_None in H. simpl in H. lia.
Qed.

Lemma last_opt_Some_len {A} (l : list A) x : last_opt l = Some x -> 1 <= length l.
Proof. unfold last_opt. intros H. apply nth_error_Some_lt in H. lia. Qed.

(* cancel_last without rev *)
Lemma rev_cons_snoc {A} (l : list A) :
  match rev l with
  | [] => l = []
  | t :: r => l = rev r ++ [t]
  end.
Proof.
  destruct (rev l) as [|t r] eqn:E.
  - apply (f_equal (@rev A)) in E. now rewrite rev_involutive in E.
  - apply (f_equal (@rev A)) in E. rewrite rev_involutive in E. simpl in E. exact E.
Qed.

Lemma upd_nth_snoc {A} (l : list A) x v : upd_nth (l ++ [x]) (length l) v = l ++ [v].
Proof. induction l as [|a l IH]; simpl; auto. now rewrite IH. Qed.

Lemma cancel_last_eq (s : cstate) :
  cancel_last s =
  match last_opt (c_searches s) with
  | None => s
  | Some t => set_searches s (upd_nth (c_searches s) (length (c_searches s) - 1) (with_cancel t))
  end.
Proof.
  unfold cancel_last. pose proof (rev_cons_snoc (c_searches s)) as H.
  destruct (rev (c_searches s)) as [|t r].
  - rewrite H. reflexivity.
  - rewrite H. rewrite last_opt_snoc. rewrite app_length; simpl.
    replace (length (rev r) + 1 - 1) with (length (rev r)) by lia.
    rewrite upd_nth_snoc. simpl. reflexivity.
Qed.

(* ------------------------------------------------------------------ counting *)

Definition count_printed (l : list sthread) : nat := length (filter printed l).

Lemma count_printed_le l : count_printed l <= length l.
Proof.
  unfold count_printed. induction l as [|a l IH]; simpl; auto.
  destruct (printed a); simpl; lia.
Qed.

Lemma count_printed_snoc l x :
  count_printed (l ++ [x]) = count_printed l + (if printed x then 1 else 0).
Proof.
  unfold count_printed. rewrite filter_app, app_length. simpl. destruct (printed x); reflexivity.
Qed.

Lemma count_printed_upd_nth l k t v :
  nth_error l k = Some t ->
  count_printed (upd_nth l k v) + (if printed t then 1 else 0) =
  count_printed l + (if printed v then 1 else 0).
Proof.
  unfold count_printed. revert k; induction l as [|a l IH]; intros [|k] H; simpl in *; try discriminate.
  - injection H as ->. destruct (printed t), (printed v); simpl; lia.
  - specialize (IH _ H). destruct (printed a); simpl; lia.
Qed.

Lemma count_printed_full l :
  count_printed l = length l -> forall i t, nth_error l i = Some t -> printed t = true.
Proof.
  unfold count_printed. induction l as [|a l IH]; intros H i t Hn.
  - destruct i; discriminate.
  - simpl in H. pose proof (count_printed_le l) as Hle. unfold count_printed in Hle.
    destruct (printed a) eqn:Ea; simpl in H; try lia.
    destruct i as [|i]; simpl in Hn.
    + injection Hn as <-. exact Ea.
    + apply (IH ltac:(lia) i t Hn).
Qed.

Lemma all_printed_count l :
  (forall i t, nth_error l i = Some t -> printed t = true) -> count_printed l = length l.
Proof.
  unfold count_printed. induction l as [|a l IH]; intros H; simpl; auto.
  rewrite (H 0 a eq_refl). simpl. f_equal. apply IH. intros i t Hn. apply (H (S i) t Hn).
Qed.

Lemma filter_nil_forall {A} (f : A -> bool) l : filter f l = [] -> forall x, In x l -> f x = false.
Proof.
  induction l as [|a l IH]; intros H x Hin; simpl in *; [tauto|].
  destruct (f a) eqn:E; [discriminate|]. destruct Hin as [<-|Hin]; auto.
Qed.

Lemma forall_filter_nil {A} (f : A -> bool) l : (forall x, In x l -> f x = false) -> filter f l = [].
Proof.
  induction l as [|a l IH]; intros H; simpl; auto.
  rewrite (H a (or_introl eq_refl)). apply IH. intros x Hx. apply H. now right.
Qed.

Lemma best_occ_In k o : In (EBest k) o <-> 1 <= best_occ k o.
Proof.
  unfold best_occ. induction o as [|e o IH]; simpl.
  - split; [tauto|lia].
  - destruct (is_best_of k e) eqn:E; simpl.
    + destruct e; simpl in E; try discriminate. apply Nat.eqb_eq in E; subst. split; [lia|auto].
    + split.
      * intros [->|H]; [simpl in E; rewrite Nat.eqb_refl in E; discriminate|now apply IH].
      * intros H. right. now apply IH.
Qed.

Lemma count_ready_app o1 o2 : count_ready (o1 ++ o2) = count_ready o1 + count_ready o2.
Proof. unfold count_ready. now rewrite filter_app, app_length. Qed.

(* ------------------------------------------------------------------ stuck *)

Lemma stuck_spec v s :
  stuck v s = true <-> (forall l, In l (all_labels s) -> step v s l = None).
Proof.
  unfold stuck, enabled. split.
  - intros H l Hin. destruct (filter _ _) eqn:E; [|discriminate].
    pose proof (filter_nil_forall _ _ E l Hin) as Hf. simpl in Hf.
    destruct (step v s l); [discriminate|reflexivity].
  - intros H. rewrite forall_filter_nil; auto.
    intros l Hin. now rewrite (H l Hin).
Qed.

Lemma stuck_LR v s : stuck v s = true -> step v s LR = None.
Proof. intros H. apply (proj1 (stuck_spec v s) H). unfold all_labels. now left. Qed.

Lemma stuck_LS v s k : stuck v s = true -> k < length (c_searches s) -> step v s (LS k) = None.
Proof.
  intros H Hk. apply (proj1 (stuck_spec v s) H). unfold all_labels. right.
  apply in_or_app. right. apply in_map. apply in_seq. lia.
Qed.

(* ------------------------------------------------------------------ run *)

Lemma run_nil v s : run v s [] = s.
Proof. reflexivity. Qed.

Lemma run_cons v s l sched : run v s (l :: sched) = run v (step_or_stay v s l) sched.
Proof. reflexivity. Qed.

Lemma run_app v s a b : run v s (a ++ b) = run v (run v s a) b.
Proof. unfold run. apply fold_left_app. Qed.

Lemma run_snoc v s a l : run v s (a ++ [l]) = step_or_stay v (run v s a) l.
Proof. now rewrite run_app. Qed.
