(* C06, sanity tests of the statements: the conclusions of T1 (no_refusal), T2, T3 (exactly_one_when_quiescent),
   T4 and T7 as boolean checkers, evaluated on ALL maximal executions (DFS enumeration) of the repaired engine on a
   few concrete dialogues. These are tests of the statements; the theorems themselves (ConcTheorems.v) are proved
   for all dialogues and all schedules by induction. *)
From Coq Require Import List Bool Arith Lia.
From Clemens Require Import Uci.Conc.
From WipConc Require Import ConcLemmas.
Import ListNotations.

Definition chk_no_refusal (s : cstate) : bool := forallb (fun e => negb (is_refusal e)) (c_out s).

Definition chk_at_most_one (s : cstate) : bool :=
  forallb (fun k => best_occ k (c_out s) <=? 1) (seq 0 (S (c_gos s)))
  && forallb (fun e => match e with EBest k => (k <? c_gos s) && (k <? length (c_searches s)) | _ => true end) (c_out s)
  && (count_best (c_out s) <=? c_gos s).

Definition chk_quiescent (d : list cmd) (s : cstate) : bool :=
  match c_lines s with [] => true | _ => false end
  && forallb is_done (c_searches s)
  && (length (c_searches s) =? c_gos s)
  && (c_gos s =? count_cgos d)
  && forallb (fun k => best_occ k (c_out s) =? 1) (seq 0 (c_gos s))
  && (count_ready (c_out s) =? count_creadys d).

Definition chk_stops (s : cstate) : bool :=
  forallb (fun m => (m =? 0) ||
     match nth_error (c_searches s) (m - 1) with
     | Some t => s_cancelled t || past t
     | None => false
     end) (c_stops s).

Definition chk_progress (s : cstate) : bool :=
  match c_rpc s with Some _ => false | None => true end &&
  ((match c_lines s with [] => true | _ => false end && forallb is_done (c_searches s))
   || match last_opt (c_searches s) with
      | Some t => s_inf t && negb (s_cancelled t) && (match s_pc t with SRunning => true | _ => false end)
                  && match c_lines s with
                     | [] => true
                     | c :: _ => (match c with CPos | CGo _ => true | _ => false end) && negb (gui_ready s c)
                     end
      | None => false
      end).

(* all maximal executions end stuck (the fuel was sufficient) and satisfy the checks *)
Definition chk_all (fuel : nat) (d : list cmd) : bool :=
  forallb (fun e => let s := snd e in
     stuck repaired s && chk_no_refusal s && chk_at_most_one s && chk_stops s && chk_progress s
     && (negb (stopped false d) || chk_quiescent d s))
    (executions repaired fuel d).

Definition d1 := [CPos; CGo false; CPos; CGo false].
Definition d2 := [CPos; CGo true; CStop; CReady].
Definition d3 := [CReady; CPos; CReady; CGo true; CReady; CStop; CStop; CPos; CGo false].
Definition d4 := [CPos; CGo false; CStop; CReady; CPos; CPos; CGo true; CStop].
Definition d5 := [CPos; CGo true; CReady; CPos; CGo false].  (* not `stopped`: ends waiting for the GUI *)
Definition d6 := [CStop; CPos; CStop; CGo true].             (* not `stopped` *)

Example wf_d : forallb (wf false) [d1; d2; d3; d4; d5; d6] = true. Proof. vm_compute. reflexivity. Qed.
Example stopped_d : map (stopped false) [d1; d2; d3; d4; d5; d6] = [true; true; true; true; false; false].
Proof. vm_compute. reflexivity. Qed.

Example n_exec : map (fun d => length (executions repaired 80 d)) [d1; d2; d3; d4; d5; d6] = [45 * 45; 55; 95 * 99; 70 * 111; 5; 3].
Proof. vm_compute. reflexivity. Qed.

Example sanity_d1 : chk_all 80 d1 = true. Proof. vm_compute. reflexivity. Qed.
Example sanity_d2 : chk_all 80 d2 = true. Proof. vm_compute. reflexivity. Qed.
Example sanity_d3 : chk_all 80 d3 = true. Proof. vm_compute. reflexivity. Qed.
Example sanity_d4 : chk_all 80 d4 = true. Proof. vm_compute. reflexivity. Qed.
Example sanity_d5 : chk_all 80 d5 = true. Proof. vm_compute. reflexivity. Qed.
Example sanity_d6 : chk_all 80 d6 = true. Proof. vm_compute. reflexivity. Qed.

(* the checkers are not vacuous: the code as it stands fails them on the same dialogues *)
Example original_refuses_d1 :
  forallb (fun e => chk_no_refusal (snd e)) (executions original 80 d1) = false.
Proof. vm_compute. reflexivity. Qed.
Example original_not_quiescent_d2 :
  forallb (fun e => chk_quiescent d2 (snd e)) (executions original 80 d2) = false.
Proof. vm_compute. reflexivity. Qed.
