(* C06, part 3: the invariant is preserved by the steps of the search goroutines. *)
From Coq Require Import List Bool Arith Lia.
From Clemens Require Import Uci.Conc.
From WipConc Require Import ConcLemmas ConcInv.
Import ListNotations.

Lemma sstep_cases s k s' :
  sstep repaired s k = Some s' ->
  exists t, nth_error (c_searches s) k = Some t /\
    ( (s_pc t = SStart /\ s' = set_searches s (upd_nth (c_searches s) k (with_pc t SRunning)))
   \/ (s_pc t = SRunning /\ (s_inf t = false \/ s_cancelled t = true) /\
       s' = set_gst (set_searches s (upd_nth (c_searches s) k (with_pc t SMid))) IDLE)
   \/ (s_pc t = SMid /\ s' = emit (set_searches s (upd_nth (c_searches s) k (with_pc t SEnd))) (EBest k))
   \/ (s_pc t = SEnd /\ s' = set_searches s (upd_nth (c_searches s) k (with_cancel (with_pc t SDone))))).
Proof.
  unfold sstep. destruct (nth_error (c_searches s) k) as [t|] eqn:Hk; [|discriminate].
  intros H. exists t. split; [reflexivity|].
  destruct (s_pc t) eqn:Hpc.
  - left. split; [reflexivity|]. now injection H.
  - right; left. destruct (negb (s_inf t) || s_cancelled t) eqn:Hc; [|discriminate].
    split; [reflexivity|]. split; [|now injection H].
    apply orb_true_iff in Hc as [Hc|Hc]; [left; now apply negb_true_iff in Hc|now right].
  - right; right; left. split; [reflexivity|]. now injection H.
  - right; right; right. split; [reflexivity|]. now injection H.
  - discriminate.
Qed.

Lemma need_of_upd r l k t v :
  nth_error l k = Some t -> r = Some (HLock CStop) \/ uncancelled_inf v = uncancelled_inf t ->
  need_of r (upd_nth l k v) = need_of r l.
Proof.
  intros Hk [->|Hu]; [reflexivity|].
  unfold need_of. rewrite (last_prop_upd _ _ _ _ _ Hk Hu). reflexivity.
Qed.

(* a thread is replaced by one with the same printed/live status *)
Lemma inv_s_upd d s k t v :
  Inv d s -> nth_error (c_searches s) k = Some t ->
  printed v = printed t -> live v = live t ->
  (uncancelled_inf v = true -> live v = true) ->
  (s_cancelled t || past t = true -> s_cancelled v || past v = true) ->
  (c_rpc s = Some (HLock CStop) \/ uncancelled_inf v = uncancelled_inf t) ->
  Inv d (set_searches s (upd_nth (c_searches s) k v)).
Proof.
  intros [Hgs Hwf Hlock Hbl Hgos Hgst Hphpc Hpospc Hquiet Hposset Hnoref Hocc Hcb Hinf Hstops Hgo Hrdy Hneed]
         Hk Hpr Hlv Hui Hmono Hnd.
  constructor; scbn; try assumption.
  - eapply butlast_printed_upd; [exact Hbl|exact Hk|congruence].
  - now rewrite length_upd_nth.
  - unfold live_last. now rewrite (last_prop_upd _ _ _ _ _ Hk Hlv).
  - intros H. apply all_printed_upd; auto. rewrite Hpr. apply (Hquiet H _ _ Hk).
  - intros j. rewrite Hocc. symmetry. now apply occ_spec_upd_same with (t := t).
  - rewrite Hcb. symmetry. now apply count_printed_upd_same with (t := t).
  - intros i u Hn Hu. apply nth_error_upd_nth_inv in Hn as [(_ & -> & _)|(_ & Hn)]; eauto.
  - intros m Hm H1. destruct (Hstops m Hm H1) as (u & Hu & Hc).
    destruct (Nat.eq_dec (m - 1) k) as [E|E].
    + rewrite E in *. exists v. split.
      * apply nth_error_upd_nth_eq. eapply nth_error_Some_lt; eauto.
      * apply Hmono. congruence.
    + exists u. split; auto. now rewrite nth_error_upd_nth_neq.
  - intros H. rewrite (need_of_upd _ _ _ _ _ Hk Hnd). auto.
Qed.

Lemma inv_s_start d s k t :
  Inv d s -> nth_error (c_searches s) k = Some t -> s_pc t = SStart ->
  Inv d (set_searches s (upd_nth (c_searches s) k (with_pc t SRunning))).
Proof.
  intros HI Hk Hpc. apply inv_s_upd with (t := t); [exact HI|exact Hk|..].
  - unfold printed; cbn. now rewrite Hpc.
  - unfold live; cbn. now rewrite Hpc.
  - intros _. reflexivity.
  - unfold past; cbn. now rewrite Hpc.
  - right. reflexivity.
Qed.

Lemma inv_s_exit d s k t :
  Inv d s -> nth_error (c_searches s) k = Some t -> s_pc t = SEnd ->
  Inv d (set_searches s (upd_nth (c_searches s) k (with_cancel (with_pc t SDone)))).
Proof.
  intros HI Hk Hpc. apply inv_s_upd with (t := t); [exact HI|exact Hk|..].
  - unfold printed; cbn. now rewrite Hpc.
  - unfold live; cbn. now rewrite Hpc.
  - unfold uncancelled_inf; cbn. rewrite andb_false_r. discriminate.
  - intros _. reflexivity.
  - right. unfold uncancelled_inf at 1; cbn. rewrite andb_false_r.
    destruct (uncancelled_inf t) eqn:E; auto.
    pose proof (I_inf _ _ HI _ _ Hk E) as Hl. unfold live in Hl. rewrite Hpc in Hl. discriminate.
Qed.

Lemma is_spawn_pend r : is_spawn r = true -> pend r = 1.
Proof. destruct r as [[[]| | | |]|]; simpl; congruence. Qed.

Lemma pre_spawn_pend r : pre_spawn r = true -> pend r = 1.
Proof. destruct r as [[[]| | | |]|]; simpl; congruence. Qed.

Lemma inv_s_return d s k t :
  Inv d s -> nth_error (c_searches s) k = Some t -> s_pc t = SRunning ->
  s_inf t = false \/ s_cancelled t = true ->
  Inv d (set_gst (set_searches s (upd_nth (c_searches s) k (with_pc t SMid))) IDLE).
Proof.
  intros [Hgs Hwf Hlock Hbl Hgos Hgst Hphpc Hpospc Hquiet Hposset Hnoref Hocc Hcb Hinf Hstops Hgo Hrdy Hneed]
         Hk Hpc Hcan.
  set (v := with_pc t SMid).
  assert (Hpt : printed t = false) by (unfold printed; now rewrite Hpc).
  assert (Hpv : printed v = printed t) by (rewrite Hpt; reflexivity).
  assert (Hlast : k = length (c_searches s) - 1) by (eapply butlast_not_printed_last; eauto).
  assert (Hnq : ~ (c_phase s = true \/ pend (c_rpc s) = 1)).
  { intros H. rewrite (Hquiet H _ _ Hk) in Hpt. discriminate. }
  assert (Huv : uncancelled_inf v = uncancelled_inf t) by reflexivity.
  constructor; scbn; try assumption.
  - eapply butlast_printed_upd; [exact Hbl|exact Hk|congruence].
  - now rewrite length_upd_nth.
  - unfold live_last. rewrite (last_prop_upd_last _ _ _ _ _ Hk Hlast).
    destruct (is_spawn (c_rpc s)) eqn:E; [|reflexivity].
    exfalso. apply Hnq. right. now apply is_spawn_pend.
  - intros H. tauto.
  - intros [[H _]|H]; exfalso; apply Hnq; [now left|right; now apply pre_spawn_pend].
  - intros j. rewrite Hocc. symmetry. now apply occ_spec_upd_same with (t := t).
  - rewrite Hcb. symmetry. now apply count_printed_upd_same with (t := t).
  - intros i u Hn Hu. apply nth_error_upd_nth_inv in Hn as [(_ & -> & _)|(_ & Hn)]; [|eauto].
    exfalso. unfold uncancelled_inf in Hu. cbn in Hu. apply andb_true_iff in Hu as [Hu1 Hu2].
    apply negb_true_iff in Hu2. destruct Hcan; congruence.
  - intros m Hm H1. destruct (Hstops m Hm H1) as (u & Hu & Hc).
    destruct (Nat.eq_dec (m - 1) k) as [E|E].
    + rewrite E in *. exists v. split.
      * apply nth_error_upd_nth_eq. eapply nth_error_Some_lt; eauto.
      * unfold past; cbn. apply orb_true_r.
    + exists u. split; auto. now rewrite nth_error_upd_nth_neq.
  - intros H. rewrite (need_of_upd _ _ _ _ _ Hk (or_intror Huv)). auto.
Qed.

Lemma best_occ_cons_best j k o : best_occ j (EBest k :: o) = (if k =? j then 1 else 0) + best_occ j o.
Proof. unfold best_occ. simpl. destruct (k =? j); reflexivity. Qed.

Lemma count_best_cons_best k o : count_best (EBest k :: o) = S (count_best o).
Proof. reflexivity. Qed.

Lemma inv_s_print d s k t :
  Inv d s -> nth_error (c_searches s) k = Some t -> s_pc t = SMid ->
  Inv d (emit (set_searches s (upd_nth (c_searches s) k (with_pc t SEnd))) (EBest k)).
Proof.
  intros [Hgs Hwf Hlock Hbl Hgos Hgst Hphpc Hpospc Hquiet Hposset Hnoref Hocc Hcb Hinf Hstops Hgo Hrdy Hneed]
         Hk Hpc.
  set (v := with_pc t SEnd).
  assert (Hpt : printed t = false) by (unfold printed; now rewrite Hpc).
  assert (Hpv : printed v = true) by reflexivity.
  assert (Hlt : live t = false) by (unfold live; now rewrite Hpc).
  assert (Hlv : live v = live t) by (rewrite Hlt; reflexivity).
  assert (Huv : uncancelled_inf v = uncancelled_inf t) by reflexivity.
  pose proof (nth_error_Some_lt _ _ _ Hk) as Hklt.
  constructor; scbn; try assumption.
  - eapply butlast_printed_upd; [exact Hbl|exact Hk|congruence].
  - now rewrite length_upd_nth.
  - unfold live_last. now rewrite (last_prop_upd _ _ _ _ _ Hk Hlv).
  - intros H. apply all_printed_upd; auto.
  - intros e [<-|He]; [reflexivity|auto].
  - intros j. rewrite best_occ_cons_best. rewrite Hocc.
    unfold occ_spec. destruct (Nat.eq_dec j k) as [->|Hne].
    + rewrite Nat.eqb_refl. rewrite nth_error_upd_nth_eq by exact Hklt. rewrite Hk, Hpt, Hpv. reflexivity.
    + assert (k =? j = false) as -> by (apply Nat.eqb_neq; congruence).
      now rewrite nth_error_upd_nth_neq.
  - rewrite count_best_cons_best. rewrite Hcb. unfold v.
    pose proof (count_printed_upd_nth _ _ _ v Hk) as H. rewrite Hpt, Hpv in H. unfold v in H. lia.
  - intros i u Hn Hu. apply nth_error_upd_nth_inv in Hn as [(_ & -> & _)|(_ & Hn)]; [|eauto].
    rewrite Huv in Hu. rewrite (Hinf _ _ Hk Hu) in Hlt. discriminate.
  - intros m Hm H1. destruct (Hstops m Hm H1) as (u & Hu & Hc).
    destruct (Nat.eq_dec (m - 1) k) as [E|E].
    + rewrite E in *. exists v. split.
      * now apply nth_error_upd_nth_eq.
      * unfold past; cbn. apply orb_true_r.
    + exists u. split; auto. now rewrite nth_error_upd_nth_neq.
  - intros H. rewrite (need_of_upd _ _ _ _ _ Hk (or_intror Huv)). auto.
Qed.

Lemma inv_sstep d s k s' : Inv d s -> sstep repaired s k = Some s' -> Inv d s'.
Proof.
  intros HI H. apply sstep_cases in H as (t & Hk & [(Hpc & ->)|[(Hpc & Hc & ->)|[(Hpc & ->)|(Hpc & ->)]]]).
  - now apply inv_s_start.
  - now apply inv_s_return.
  - now apply inv_s_print.
  - now apply inv_s_exit.
Qed.
