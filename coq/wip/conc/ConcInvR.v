(* C06, part 4: the invariant is preserved by the steps of the reader thread (line dispatch and handlers). *)
From Coq Require Import List Bool Arith Lia.
From Clemens Require Import Uci.Conc.
From WipConc Require Import ConcLemmas ConcInv ConcInvS.
Import ListNotations.

Ltac rcbn := scbn; cbn [pend is_spawn in_start pre_spawn locked_pc pend_ready need_of].
Ltac start_case HI Hr :=
  destruct HI as [Hgs Hwf Hlock Hbl Hgos Hgst Hphpc Hpospc Hquiet Hposset Hnoref Hocc Hcb Hinf Hstops Hgo Hrdy Hneed];
  rewrite Hr in *; cbn [pend is_spawn in_start pre_spawn locked_pc pend_ready need_of] in *.
Ltac fin := try assumption; try discriminate; try tauto; try (intros; discriminate); try lia.

(* the GUI sends position/go only after the previous bestmove: then every search has printed *)
Lemma gui_ready_all_printed d s c :
  Inv d s -> c_rpc s = None -> gui_ready s c = true -> is_cgo c = true \/ c = CPos ->
  all_printed (c_searches s).
Proof.
  intros HI Hr Hg Hc. start_case HI Hr.
  assert (count_best (c_out s) = c_gos s) as E.
  { destruct Hc as [Hc| ->]; [destruct c; try discriminate|]; simpl in Hg; now apply Nat.eqb_eq in Hg. }
  unfold all_printed. apply count_printed_full. lia.
Qed.

Lemma inv_consume_pos d s rest :
  Inv d s -> c_rpc s = None -> c_lines s = CPos :: rest -> gui_ready s CPos = true ->
  Inv d (set_rpc (set_lines s rest (c_gos s) true) (Some (HLock CPos))).
Proof.
  intros HI Hr Hl Hg. pose proof (gui_ready_all_printed _ _ _ HI Hr Hg (or_intror eq_refl)) as Hap.
  start_case HI Hr. rewrite Hl in *.
  constructor; rcbn; fin.
  intros H. specialize (Hneed H). simpl in Hneed. apply andb_true_iff in Hneed as [Hn1 Hn2].
  apply negb_true_iff in Hn1. now rewrite Hn1.
Qed.

Lemma inv_consume_go d s rest inf :
  Inv d s -> c_rpc s = None -> c_lines s = CGo inf :: rest -> gui_ready s (CGo inf) = true ->
  Inv d (set_rpc (set_lines s rest (S (c_gos s)) false) (Some (HLock (CGo inf)))).
Proof.
  intros HI Hr Hl Hg. pose proof (gui_ready_all_printed _ _ _ HI Hr Hg (or_introl eq_refl)) as Hap.
  start_case HI Hr. rewrite Hl in *.
  simpl in Hwf. apply andb_true_iff in Hwf as [Hph Hwf].
  constructor; rcbn; fin.
  - intros _. apply Hposset. left. split; [exact Hph|discriminate].
  - change (count_cgos (CGo inf :: rest)) with (S (count_cgos rest)) in Hgo. lia.
  - intros H. specialize (Hneed H). simpl in Hneed. apply andb_true_iff in Hneed as [_ Hn2]. exact Hn2.
Qed.

Lemma inv_consume_stop d s rest :
  Inv d s -> c_rpc s = None -> c_lines s = CStop :: rest ->
  Inv d (set_rpc (set_lines s rest (c_gos s) (c_phase s)) (Some (HLock CStop))).
Proof.
  intros HI Hr Hl.
  start_case HI Hr. rewrite Hl in *.
  constructor; rcbn; fin.
  intros [[H _]|H]; [|discriminate]. apply Hposset. left. split; [exact H|discriminate].
Qed.

Lemma inv_consume_ready d s rest :
  Inv d s -> c_rpc s = None -> c_lines s = CReady :: rest ->
  Inv d (set_rpc (set_lines s rest (c_gos s) (c_phase s)) (Some (HLock CReady))).
Proof.
  intros HI Hr Hl.
  start_case HI Hr. rewrite Hl in *.
  constructor; rcbn; fin.
  - intros [[H _]|H]; [|discriminate]. apply Hposset. left. split; [exact H|discriminate].
  - change (count_creadys (CReady :: rest)) with (S (count_creadys rest)) in Hrdy. lia.
Qed.

Lemma inv_h_ready d s :
  Inv d s -> c_rpc s = Some (HLock CReady) ->
  Inv d (set_rpc (emit s EReady) None).
Proof.
  intros HI Hr.
  start_case HI Hr.
  constructor; rcbn; fin.
  - intros [[H _]|H]; [|discriminate]. apply Hposset. left. split; [exact H|discriminate].
  - intros e [<-|He]; [reflexivity|auto].
  - change (count_ready (EReady :: c_out s)) with (S (count_ready (c_out s))). lia.
Qed.

Lemma live_last_all_printed l : all_printed l -> live_last l = false.
Proof. intros H. apply last_prop_all_printed; auto. apply printed_not_live. Qed.

Lemma inv_h_pos d s :
  Inv d s -> c_rpc s = Some (HLock CPos) ->
  gst_eqb (c_gst s) RUNNING = false /\
  Inv d (set_rpc (set_has_search (set_gst s POSSET) true) None).
Proof.
  intros HI Hr.
  start_case HI Hr.
  pose proof (Hpospc eq_refl) as Hph.
  pose proof (Hquiet (or_introl Hph)) as Hap.
  pose proof (live_last_all_printed _ Hap) as Hll. rewrite Hll in Hgst.
  split; [exact Hgst|].
  constructor; rcbn; fin.
  rewrite Hll. reflexivity.
Qed.

Lemma stopped_true_false_or b d : stopped b d = true -> stopped false d = true.
Proof. destruct b; [apply stopped_true_false|auto]. Qed.

(* the stop handler, after the (possible) cancellation *)
Lemma inv_stop_finish d s :
  Inv d s -> c_rpc s = Some (HLock CStop) ->
  last_prop uncancelled_inf (c_searches s) = false ->
  (1 <= c_gos s -> exists t, nth_error (c_searches s) (c_gos s - 1) = Some t /\ s_cancelled t || past t = true) ->
  Inv d (set_rpc (note_stop s) None).
Proof.
  intros HI Hr Hlast Hnew.
  start_case HI Hr.
  constructor; rcbn; fin.
  - intros [[H _]|H]; [|discriminate]. apply Hposset. left. split; [exact H|discriminate].
  - intros m [<-|Hm] H1; [auto|]. now apply Hstops.
  - intros H. rewrite Hlast. eapply stopped_true_false_or. eauto.
Qed.

Lemma inv_h_stop d s :
  Inv d s -> c_rpc s = Some (HLock CStop) ->
  Inv d (set_rpc (if gst_eqb (c_gst (note_stop s)) RUNNING then cancel_last (note_stop s) else note_stop s) None).
Proof.
  intros HI Hr. change (c_gst (note_stop s)) with (c_gst s).
  pose proof (I_gos _ _ HI) as Hgos. rewrite Hr in Hgos. cbn [pend] in Hgos.
  pose proof (I_gst _ _ HI) as Hgst. rewrite Hr in Hgst. cbn [is_spawn orb] in Hgst.
  destruct (gst_eqb (c_gst s) RUNNING) eqn:Eg.
  - rewrite cancel_last_eq. change (c_searches (note_stop s)) with (c_searches s).
    destruct (last_opt (c_searches s)) as [t|] eqn:El.
    + set (k := length (c_searches s) - 1).
      assert (Hk : nth_error (c_searches s) k = Some t) by exact El.
      pose proof (nth_error_Some_lt _ _ _ Hk) as Hklt.
      assert (HI1 : Inv d (set_searches s (upd_nth (c_searches s) k (with_cancel t)))).
      { apply inv_s_upd with (t := t); auto.
        - unfold uncancelled_inf; cbn. rewrite andb_false_r. discriminate. }
      change (set_searches (note_stop s) (upd_nth (c_searches s) k (with_cancel t)))
        with (note_stop (set_searches s (upd_nth (c_searches s) k (with_cancel t)))).
      apply inv_stop_finish; auto.
      * scbn. rewrite (last_prop_upd_last _ _ _ _ _ Hk eq_refl).
        unfold uncancelled_inf; cbn. apply andb_false_r.
      * scbn. intros _. exists (with_cancel t). split; [|reflexivity].
        replace (c_gos s - 1) with k by (unfold k; lia). now apply nth_error_upd_nth_eq.
    + apply inv_stop_finish; auto.
      * unfold last_prop. now rewrite El.
      * apply last_opt_None in El. rewrite El in Hgos. simpl in Hgos. lia.
  - symmetry in Hgst. unfold live_last, last_prop in Hgst.
    apply inv_stop_finish; auto.
    + unfold last_prop. destruct (last_opt (c_searches s)) as [t|] eqn:El; auto.
      destruct (uncancelled_inf t) eqn:Eu; auto.
      rewrite (I_inf _ _ HI _ _ El Eu) in Hgst. discriminate.
    + intros H1. destruct (last_opt (c_searches s)) as [t|] eqn:El.
      * exists t. split.
        -- replace (c_gos s - 1) with (length (c_searches s) - 1) by lia. exact El.
        -- rewrite past_not_live, Hgst. apply orb_true_r.
      * apply last_opt_None in El. rewrite El in Hgos. simpl in Hgos. lia.
Qed.

Lemma inv_h_golock d s inf :
  Inv d s -> c_rpc s = Some (HLock (CGo inf)) ->
  Inv d (set_rpc (set_lock s true) (Some (HStartLocked inf))).
Proof.
  intros HI Hr.
  start_case HI Hr.
  constructor; rcbn; fin.
Qed.

Lemma inv_h_locked d s inf :
  Inv d s -> c_rpc s = Some (HStartLocked inf) ->
  negb (gst_eqb (c_gst s) POSSET) || negb (c_has_search s) = false /\
  Inv d (set_rpc (set_gst s RUNNING) (Some (HStartSpawn inf))).
Proof.
  intros HI Hr.
  start_case HI Hr.
  destruct (Hposset (or_intror eq_refl)) as [Hg Hh].
  split; [rewrite Hg, Hh; reflexivity|].
  constructor; rcbn; fin.
  intros [[H _]|H]; [|discriminate]. specialize (Hphpc H). discriminate.
Qed.

Lemma inv_h_spawn d s inf :
  Inv d s -> c_rpc s = Some (HStartSpawn inf) ->
  Inv d (set_rpc (set_searches s (c_searches s ++ [{| s_inf := inf; s_cancelled := false; s_pc := SStart |}]))
                 (Some HStartSpawned)).
Proof.
  intros HI Hr.
  start_case HI Hr.
  pose proof (Hquiet (or_intror eq_refl)) as Hap.
  set (nw := {| s_inf := inf; s_cancelled := false; s_pc := SStart |}).
  constructor; rcbn; fin.
  - now apply butlast_printed_snoc.
  - rewrite app_length. simpl. lia.
  - unfold live_last. rewrite last_prop_snoc. exact Hgst.
  - intros [H|H]; [|discriminate]. specialize (Hphpc H). discriminate.
  - intros [[H _]|H]; [|discriminate]. specialize (Hphpc H). discriminate.
  - intros k. rewrite Hocc. symmetry. now apply occ_spec_snoc.
  - rewrite count_printed_snoc. simpl. lia.
  - intros i t Hn Hu. apply nth_error_snoc_inv in Hn as [(_ & Hn)|(_ & ->)]; [eauto|reflexivity].
  - intros m Hm H1. destruct (Hstops m Hm H1) as (t & Ht & Hc). exists t. split; auto.
    rewrite nth_error_app1; auto. eapply nth_error_Some_lt; eauto.
  - intros H. rewrite last_prop_snoc. unfold uncancelled_inf, nw; cbn. rewrite andb_true_r. auto.
Qed.

Lemma inv_h_spawned d s :
  Inv d s -> c_rpc s = Some HStartSpawned ->
  Inv d (set_rpc s (Some HStartEnd)).
Proof.
  intros HI Hr.
  start_case HI Hr.
  constructor; rcbn; fin.
  intros [[H _]|H]; [|discriminate]. specialize (Hphpc H). discriminate.
Qed.

Lemma inv_h_end d s :
  Inv d s -> c_rpc s = Some HStartEnd ->
  Inv d (set_rpc (set_lock s false) None).
Proof.
  intros HI Hr.
  start_case HI Hr.
  constructor; rcbn; fin.
  intros [[H _]|H]; [|discriminate]. specialize (Hphpc H). discriminate.
Qed.

(* ------------------------------------------------------------------ all reader steps *)

Lemma inv_rstep d s s' : Inv d s -> rstep repaired s = Some s' -> Inv d s'.
Proof.
  intros HI. unfold rstep. destruct (c_rpc s) as [h|] eqn:Hr.
  - pose proof (I_lock _ _ HI) as Hlock. rewrite Hr in Hlock.
    unfold hstep. destruct h as [c|inf|inf| |]; cbn [locked_pc] in Hlock.
    + rewrite Hlock. destruct c as [|inf| |].
      * destruct (inv_h_pos _ _ HI Hr) as [Hg HI']. rewrite Hg. intros H; injection H as <-. exact HI'.
      * intros H; injection H as <-. now apply inv_h_golock.
      * pose proof (inv_h_stop _ _ HI Hr) as HI'. cbv zeta.
        destruct (gst_eqb (c_gst (note_stop s)) RUNNING); intros H; injection H as <-; exact HI'.
      * intros H; injection H as <-. now apply inv_h_ready.
    + destruct (inv_h_locked _ _ _ HI Hr) as [Hc HI']. rewrite Hc. cbn [v_running_first repaired].
      intros H; injection H as <-. exact HI'.
    + intros H; injection H as <-. now apply inv_h_spawn.
    + cbn [v_running_first repaired]. intros H; injection H as <-. now apply inv_h_spawned.
    + intros H; injection H as <-. now apply inv_h_end.
  - destruct (c_lines s) as [|c rest] eqn:Hl; [discriminate|].
    destruct (gui_ready s c) eqn:Hg; [|discriminate].
    destruct c as [|inf| |]; cbn [v_sync_go repaired]; intros H; injection H as <-.
    + now apply inv_consume_pos.
    + now apply inv_consume_go.
    + now apply inv_consume_stop.
    + now apply inv_consume_ready.
Qed.

Lemma gstep_none d s i : Inv d s -> gstep repaired s i = None.
Proof.
  intros HI. unfold gstep. rewrite (I_gs _ _ HI). destruct i; reflexivity.
Qed.

Lemma inv_step d s l s' : Inv d s -> step repaired s l = Some s' -> Inv d s'.
Proof.
  intros HI. destruct l as [|i|k]; simpl.
  - now apply inv_rstep.
  - rewrite (gstep_none _ _ _ HI). discriminate.
  - now apply inv_sstep.
Qed.

Lemma inv_step_or_stay d s l : Inv d s -> Inv d (step_or_stay repaired s l).
Proof.
  intros HI. unfold step_or_stay. destruct (step repaired s l) eqn:E; [|exact HI].
  eapply inv_step; eauto.
Qed.

Lemma inv_run_from d sched : forall s, Inv d s -> Inv d (run repaired s sched).
Proof.
  induction sched as [|l sched IH]; intros s HI; [exact HI|].
  rewrite run_cons. apply IH. now apply inv_step_or_stay.
Qed.

Theorem inv_run d sched : wf false d = true -> Inv d (run repaired (init d) sched).
Proof. intros Hwf. apply inv_run_from. now apply inv_init. Qed.

Print Assumptions inv_run.
