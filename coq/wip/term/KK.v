(* C05, termination: a NON-DEGENERATE universe that meets the ranking hypotheses of [search_ranked]:
   all positions satisfying C10's invariant in which the only men are the two kings.  It is closed under
   the moves the search makes (generated moves that pass the legality test, null moves), no position
   in it is in check (kings cannot attack each other: the side that just moved is not in check, and
   king attacks are symmetric), so the budget  cb := 0  works.  Consequence: for every such root,
   every state (whatever the repetition stack holds) and every depth < 255 the recursion never goes
   deeper than  max 1 depth + 258  levels ([go_search_kings_only]). *)
From Coq Require Import NArith ZArith List Bool Lia ZifyBool ZifyN ZifyNat String.
From Clemens Require Import Base.Res Base.Word Pos.Types Att.Attacks Att.Geometry Att.ShiftsProofs
     Att.AttackersProofs Pos.Position Pos.Inv Pos.ZobristProofs Pos.CapturesProofs Eval.Eval
     Search.TT Search.Ordering Search.Negamax Search.SearchStruct Search.SearchLines Search.SearchIter
     Search.GoInst Search.SearchGo.
From Clemens.C10Inv Require Import InvViews InvMake InvGen InvMoves InvStep.
From Clemens.C15Bound Require Import Play.
From Clemens.C13Mate Require Import MateDefs MateExamples.
From Clemens.C13Bridge Require Import Bridge.
From WipTerm Require Import Mono NoFuel Rank GoTerm.
Import ListNotations.
Open Scope N_scope.

(* every square is empty or holds a king (6: white king, 14: black king) *)
Definition only_kings (p : position) : Prop :=
  forall x, piece_at p x = 0 \/ piece_at p x = 6 \/ piece_at p x = 14.
Definition kings_only_pos (p : position) : Prop := Inv p /\ only_kings p.

(* an executable check *)
Definition only_kings_b (p : position) : bool :=
  forallb (fun pc => (pc =? 0) || (pc =? 6) || (pc =? 14)) (board p).
Lemma only_kings_b_sound : forall p, only_kings_b p = true -> only_kings p.
Proof.
  intros p H x. unfold only_kings_b in H. rewrite forallb_forall in H. unfold piece_at.
  destruct (nth_in_or_default (N.to_nat x) (board p) 0) as [Hin|Hd]; [|left; exact Hd].
  specialize (H _ Hin). rewrite !orb_true_iff, !N.eqb_eq in H. tauto.
Qed.

(* ------------------------------------------------------------------ no position of the universe is in check *)
Lemma geo_king_sym : forall s t, s < 64 -> t < 64 -> geo_king s t = geo_king t s.
Proof.
  intros s t Hs Ht. apply eqb_prop.
  apply (forall_squares2 (fun s t => Bool.eqb (geo_king s t) (geo_king t s))); [|exact Hs|exact Ht].
  vm_compute. reflexivity.
Qed.

Lemma existsb_false_at {A} (f : A -> bool) (l : list A) (x : A) : existsb f l = false -> In x l -> f x = false.
Proof.
  intros H Hin. destruct (f x) eqn:E; [|reflexivity].
  assert (X : existsb f l = true) by (apply existsb_exists; exists x; auto). congruence.
Qed.

Lemma kings_only_no_check : forall p, kings_only_pos p -> is_in_check p (side p) = Ok false.
Proof.
  intros p [HI HK].
  destruct (Inv_views p HI) as (Hwf & Hag & Hhe & Hone).
  destruct (inv_parts p HI) as (_ & _ & _ & _ & _ & _ & _ & Hsc & Hmv).
  apply scalars_ok_spec in Hsc. destruct Hsc as (Hside & _).
  unfold mover_not_in_check in Hmv.
  assert (Hgen : forall c c', (c = 0 /\ c' = 1) \/ (c = 1 /\ c' = 0) ->
            is_in_check p c' = Ok false -> is_in_check p c = Ok false).
  { intros c c' Hcc Hother.
    assert (Hc : c < 2) by lia. assert (Hc' : c' < 2) by lia.
    assert (Hsw : switch_color c = c' /\ switch_color c' = c)
      by (destruct Hcc as [[-> ->]|[-> ->]]; split; reflexivity).
    destruct Hsw as [Hsw Hsw'].
    destruct (in_check_exact p c Hwf Hag Hhe Hone Hc) as (k & Hk & Hpk & Huk & Eck).
    destruct (in_check_exact p c' Hwf Hag Hhe Hone Hc') as (k' & Hk' & Hpk' & Huk' & Eck').
    rewrite Hsw in Eck. rewrite Hsw' in Eck'.
    rewrite Eck' in Hother. injection Hother as Hother.
    rewrite Eck. f_equal.
    (* the king of c does not attack the king of c' *)
    assert (Hkk : geo_king k k' = false).
    { unfold attacked_by_color in Hother.
      pose proof (existsb_false_at _ _ k Hother (in_squares k Hk)) as X. cbv beta in X.
      unfold attacks_geo in X. rewrite Hpk in X.
      destruct Hcc as [[-> ->]|[-> ->]]; exact X. }
    destruct (attacked_by_color p c' k) eqn:EA; [exfalso|reflexivity].
    unfold attacked_by_color in EA. apply existsb_exists in EA. destruct EA as (s & Hin & Hs).
    apply andb_true_iff in Hs. destruct Hs as [Hs1 Hs2].
    pose proof (squares_lt s Hin) as Hs64.
    assert (Es : piece_at p s = new_piece c' KING).
    { destruct (HK s) as [E|[E|E]]; rewrite E in Hs1;
        destruct Hcc as [[-> ->]|[-> ->]]; try discriminate Hs1; exact E. }
    assert (s = k') by (apply Huk'; assumption). subst s.
    unfold attacks_geo in Hs2. rewrite Hpk' in Hs2.
    assert (Hs3 : geo_king k' k = true) by (destruct Hcc as [[-> ->]|[-> ->]]; exact Hs2).
    rewrite (geo_king_sym k' k Hk' Hk) in Hs3. congruence. }
  destruct (is_in_check p (switch_color (side p))) as [[|]| |] eqn:Eo; try discriminate.
  apply (Hgen (side p) (switch_color (side p))); [|exact Eo].
  destruct Hside as [-> | ->]; [left|right]; split; reflexivity.
Qed.

(* ------------------------------------------------------------------ closure *)
Section Closure.
Variable K : zkeys.

Lemma kings_only_move : forall p m q,
  kings_only_pos p -> movable p m -> make_move K p m = Ok q -> is_legal q = Ok true -> kings_only_pos q.
Proof.
  intros p m q [HI HK] Hmv Hmk Hleg.
  destruct (movable_generated K p m HI Hmv) as (g & m0 & Hg & Hin & E). rewrite E in Hmk.
  pose proof (gen_step_nocheck K p g m0 q HI Hg Hin Hmk) as NC.
  split.
  - unfold Inv, inv_b. unfold inv_nocheck_b in NC. rewrite NC. cbn [andb].
    unfold mover_not_in_check. unfold is_legal in Hleg.
    destruct (is_in_check q (switch_color (side q))) as [b| |]; cbn [bind] in Hleg; try discriminate.
    injection Hleg as Hleg. destruct b; [discriminate|reflexivity].
  - pose proof (gen_moves_desc p HI g m0 Hg Hin) as D.
    destruct (step_desc p m0 HI D) as [CH _].
    destruct (inv_parts p HI) as (Hwf & Hag & _ & _ & _ & _ & _ & Hsc & _).
    apply scalars_ok_spec in Hsc. destruct Hsc as (Hside & _).
    assert (Hs2 : side p < 2) by (destruct Hside as [-> | ->]; reflexivity).
    destruct (make_move_views K p m0 q (proj1 (board_wf_iff p) Hwf) (proj1 (bbs_agree_iff p) Hag) Hs2 CH Hmk)
      as (_ & _ & _ & _ & _ & PA & _).
    assert (Hnp : mv_kind m0 <> PROMOTION).
    { intro Ek. pose proof (gen_moves_promo p g m0 Hag Hg Hin Ek) as Hp.
      destruct (HK (mv_src m0)) as [X|[X|X]]; rewrite X in Hp; unfold new_piece, PAWN in Hp; lia. }
    intro x. rewrite PA. unfold after, base_after.
    apply N.eqb_neq in Hnp. rewrite Hnp.
    repeat match goal with |- context [if ?b then _ else _] => destruct b end;
      first [ apply HK | left; reflexivity ].
Qed.

Lemma kings_only_null : forall p q x,
  kings_only_pos p -> is_in_check p (side p) = Ok false -> make_null_move K p = Ok (q, x) -> kings_only_pos q.
Proof.
  intros p q x [HI HK] Hc M. split; [eapply null_inv; eauto|].
  destruct (null_fields K _ _ _ M) as (_ & _ & _ & Hb & _).
  intro y. unfold piece_at. rewrite Hb. apply HK.
Qed.

(* the ranking hypotheses of [search_ranked], with budget 0 *)
Theorem kings_only_ranking :
  let cb := fun _ : position => 0%nat in
  (forall p m q, kings_only_pos p -> movable p m -> make_move K p m = Ok q -> is_legal q = Ok true ->
     kings_only_pos q /\ (cb q <= cb p)%nat /\ (is_in_check p (side p) = Ok true -> (cb q < cb p)%nat)) /\
  (forall p q x, kings_only_pos p -> is_in_check p (side p) = Ok false -> make_null_move K p = Ok (q, x) ->
     kings_only_pos q /\ (cb q <= cb p)%nat).
Proof.
  cbv zeta. split.
  - intros p m q Hu Hmv Hmk Hl. split; [eapply kings_only_move; eauto|]. split; [lia|].
    intro Hc. rewrite (kings_only_no_check p Hu) in Hc. discriminate.
  - intros p q x Hu Hc M. split; [eapply kings_only_null; eauto|lia].
Qed.
End Closure.

(* ------------------------------------------------------------------ the bound for kings-only roots *)
Theorem go_search_kings_only : forall iters f s root req,
  kings_only_pos root -> (req < 255)%N -> (510 <= iters)%nat ->
  (N.to_nat (N.max 1 (req_to_depth go_sconsts req)) + 258 <= f)%nat ->
  fst (go_search iters f true s root req) <> ROutOfFuel.
Proof.
  intros iters f s root req Hu Hreq Hit Hf.
  destruct (kings_only_ranking go_keys) as [Hm Hn].
  apply (go_search_ranked kings_only_pos (fun _ => 0%nat) Hm Hn); try assumption. lia.
Qed.

(* a concrete root of the universe, and a run within the bound 3 + 258 *)
Definition kk_fen : string := "8/8/4k3/8/8/3K4/8/8 w - - 0 1".
Example kk_root_in_universe : kings_only_pos (root_of kk_fen).
Proof. split; [|apply only_kings_b_sound]; vm_compute; reflexivity. Qed.

Example kk_run :
  match fst (go_search 510 261 true (go_empty_sst None) (root_of kk_fen) 3) with
  | ROk m => negb (m =? NULL_MOVE)
  | _ => false
  end = true.
Proof. vm_compute. reflexivity. Qed.

Print Assumptions kings_only_no_check.
Print Assumptions kings_only_ranking.
Print Assumptions go_search_kings_only.
Print Assumptions kk_root_in_universe.
