(* C05, termination, quiescence by MATERIAL: every recursive call of [quiescence] is made on the
   successor of a generated capture, and a generated capture removes at least one man from the board
   ([capture_fewer_men]; exactly: the occupied squares after the move are one fewer, or fewer still).
   Hence under C10's invariant  men p + 1  units of fuel suffice ([quiescence_men]), whatever the ply
   counter does; together with the ply bound of NoFuel.v:  min (men p) 256 + 1. *)
From Coq Require Import NArith ZArith List Bool Lia ZifyBool ZifyN ZifyNat FinFun.
From Clemens Require Import Base.Res Base.Word Pos.Types Att.Attacks Att.Geometry Att.ShiftsProofs
     Pos.Position Pos.Inv Pos.ZobristProofs Pos.CapturesProofs Eval.Eval
     Search.TT Search.Ordering Search.Negamax Search.SearchStruct Search.SearchLines.
From Clemens.C10Inv Require Import InvViews InvClauses InvMake InvGen InvMoves InvStep InvTotal.
From WipTerm Require Import NoFuel.
Import ListNotations.
Open Scope N_scope.

(* ------------------------------------------------------------------ counting occupied squares *)
Definition nz (v : N) : bool := negb (v =? 0).
Definition cnt (f : N -> N) (l : list N) : nat := length (filter (fun x => nz (f x)) l).
Definition b2n (b : bool) : nat := if b then 1%nat else 0%nat.
Definition updf (f : N -> N) (a v : N) (x : N) : N := if x =? a then v else f x.

(* number of men on the square array *)
Definition men (p : position) : nat := cnt (piece_at p) squares.

Lemma filter_len_le {A} (f : A -> bool) (l : list A) : (length (filter f l) <= length l)%nat.
Proof. induction l as [|a l IH]; cbn [filter length]; [lia|]. destruct (f a); cbn [length]; lia. Qed.

Lemma men_le_64 : forall p, (men p <= 64)%nat.
Proof.
  intro p. unfold men, cnt. etransitivity; [apply filter_len_le|].
  unfold squares. rewrite map_length, seq_length. lia.
Qed.

Lemma cnt_ext : forall f g l, (forall x, In x l -> f x = g x) -> cnt f l = cnt g l.
Proof.
  intros f g l H. unfold cnt. f_equal. apply filter_ext_in. intros x Hx. rewrite (H x Hx). reflexivity.
Qed.

Lemma cnt_upd_notin : forall l f a v, ~ In a l -> cnt (updf f a v) l = cnt f l.
Proof.
  intros l f a v Hn. apply cnt_ext. intros x Hx. unfold updf.
  destruct (N.eqb_spec x a); [subst; contradiction|reflexivity].
Qed.

Lemma cnt_upd : forall l, NoDup l -> forall f a v, In a l ->
  (cnt (updf f a v) l + b2n (nz (f a)) = cnt f l + b2n (nz v))%nat.
Proof.
  induction l as [|y l IH]; intros ND f a v Hin; [destruct Hin|].
  inversion ND as [|? ? Hny ND']; subst.
  unfold cnt in *. cbn [filter].
  destruct Hin as [->|Hin].
  - pose proof (cnt_upd_notin l f a v Hny) as E. unfold cnt in E.
    unfold updf at 1. rewrite N.eqb_refl.
    destruct (nz v), (nz (f a)); cbn [length b2n]; lia.
  - assert (Hya : y <> a) by (intros ->; contradiction).
    unfold updf at 1. destruct (N.eqb_spec y a); [contradiction|].
    specialize (IH ND' f a v Hin).
    destruct (nz (f y)); cbn [length]; lia.
Qed.

Lemma squares_NoDup : NoDup squares.
Proof. unfold squares. apply Injective_map_NoDup; [intros x y; apply Nat2N.inj|apply seq_NoDup]. Qed.

(* the square array after a non-castling move that takes something: strictly fewer occupied squares *)
Lemma cnt_simple_after : forall f s t v fp,
  s < 64 -> t < 64 -> v < 64 -> s <> t -> f s <> 0 ->
  (v = s /\ f t <> 0) \/ (v <> s /\ v <> t /\ f v <> 0) ->
  (cnt (simple_after f s t v fp) squares < cnt f squares)%nat.
Proof.
  intros f s t v fp Hs Ht Hv Hst Hfs Hcase.
  assert (E : cnt (simple_after f s t v fp) squares = cnt (updf (updf (updf f v 0) s 0) t fp) squares)
    by (apply cnt_ext; intros; reflexivity).
  rewrite E.
  pose proof (cnt_upd squares squares_NoDup (updf (updf f v 0) s 0) t fp (in_squares t Ht)) as E3.
  pose proof (cnt_upd squares squares_NoDup (updf f v 0) s 0 (in_squares s Hs)) as E2.
  pose proof (cnt_upd squares squares_NoDup f v 0 (in_squares v Hv)) as E1.
  assert (Z0 : nz 0 = false) by reflexivity. rewrite Z0 in *. cbn [b2n] in *.
  assert (Hnz : forall y, y <> 0 -> nz y = true) by (intros y Hy; unfold nz; apply negb_true_iff, N.eqb_neq; exact Hy).
  destruct Hcase as [[-> Hft]|(Hvs & Hvt & Hfv)].
  - (* v = s *)
    rewrite (Hnz _ Hfs) in E1.
    assert (X2 : updf f s 0 s = 0) by (unfold updf; rewrite N.eqb_refl; reflexivity).
    rewrite X2, Z0 in E2.
    assert (X3 : updf (updf f s 0) s 0 t = f t).
    { unfold updf. destruct (N.eqb_spec t s); [congruence|reflexivity]. }
    rewrite X3, (Hnz _ Hft) in E3.
    cbn [b2n] in *. destruct (nz fp); cbn [b2n] in *; lia.
  - rewrite (Hnz _ Hfv) in E1.
    assert (X2 : updf f v 0 s = f s).
    { unfold updf. destruct (N.eqb_spec s v); [congruence|reflexivity]. }
    rewrite X2, (Hnz _ Hfs) in E2.
    cbn [b2n] in *. destruct (nz fp), (nz (updf (updf f v 0) s 0 t)); cbn [b2n] in *; lia.
Qed.

(* ------------------------------------------------------------------ a generated capture removes a man *)
Section Capture.
Variable K : zkeys.

Lemma capture_fewer_men_gen : forall p ms m q,
  Inv p -> gen_moves p = Ok ms -> In m ms -> is_capture_b p m = true -> make_move K p m = Ok q ->
  (men q < men p)%nat.
Proof.
  intros p ms m q HI Hg Hin Hcap Hmk.
  pose proof (gen_moves_desc p HI ms m Hg Hin) as D.
  destruct (step_desc p m HI D) as [CH _].
  destruct (inv_parts p HI) as (Hwf & Hag & _ & _ & _ & _ & _ & Hsc & _).
  apply scalars_ok_spec in Hsc. destruct Hsc as (Hside & _).
  assert (Hs2 : side p < 2) by (destruct Hside as [-> | ->]; reflexivity).
  destruct (make_move_views K p m q (proj1 (board_wf_iff p) Hwf) (proj1 (bbs_agree_iff p) Hag) Hs2 CH Hmk)
    as (_ & _ & _ & _ & _ & PA & _).
  unfold men. rewrite (cnt_ext (piece_at q) (after p m) squares) by (intros; apply PA).
  assert (Hsm : (exists s t v fp, simple_move p m s t v fp) \/ castle_case p m).
  { destruct D as [s t T Ls Lt -> HT Hpc Ho Ha | s t Ls Lt Hm Hpc Hgp | s t Ls Lt Hm Hpc He Hgp | s Ls Le -> Hpc Hgp | CC].
    - left. do 4 eexists. eapply sm_piece; eauto.
    - left. destruct (sm_push p HI s t m Ls Lt Hm Hpc Hgp) as [fp SM]. eauto.
    - left. destruct (sm_pcap p HI s t m Ls Lt Hm Hpc He Hgp) as [fp SM]. eauto.
    - left. do 4 eexists. eapply sm_ep; eauto.
    - right. exact CC. }
  destruct Hsm as [(s & t & v & fp & SM)|CC].
  - destruct SM as [Ls Lt Esrc Edst Hk Haft _ Hv _ _ _ Hne Hnz Hepv].
    rewrite (cnt_ext (after p m) (simple_after (piece_at p) s t v fp) squares) by (intros; apply Haft).
    assert (Lv : v < 64) by (destruct Hv as [->|(_ & ? & _)]; [exact Ls|lia]).
    apply cnt_simple_after; try assumption.
    destruct (N.eq_dec v s) as [Evs|Evs].
    + left. split; [exact Evs|].
      unfold is_capture_b in Hcap. apply orb_true_iff in Hcap. destruct Hcap as [Hep|Hocc].
      * apply N.eqb_eq in Hep. destruct (Hepv Hep) as (_ & X & _). contradiction.
      * rewrite Edst in Hocc. unfold occb in Hocc. apply negb_true_iff, N.eqb_neq in Hocc. exact Hocc.
    + right. destruct Hv as [->|(Hvt & _ & Hpv)]; [contradiction|].
      split; [exact Evs|]. split; [exact Hvt|]. destruct Hpv as [E|E]; rewrite E; discriminate.
  - (* a castling move is not a capture *)
    exfalso. unfold is_capture_b, occb in Hcap.
    destruct CC as [(_ & -> & _ & _ & Z)|[(_ & -> & _ & _ & Z & _)|[(_ & -> & _ & _ & Z)|(_ & -> & _ & _ & Z & _)]]].
    + change (mv_kind (castle_mv E1 G1)) with CASTLING in Hcap. change (mv_dst (castle_mv E1 G1)) with G1 in Hcap.
      rewrite Z in Hcap. discriminate.
    + change (mv_kind (castle_mv E1 C1)) with CASTLING in Hcap. change (mv_dst (castle_mv E1 C1)) with C1 in Hcap.
      rewrite Z in Hcap. discriminate.
    + change (mv_kind (castle_mv E8 G8)) with CASTLING in Hcap. change (mv_dst (castle_mv E8 G8)) with G8 in Hcap.
      rewrite Z in Hcap. discriminate.
    + change (mv_kind (castle_mv E8 C8)) with CASTLING in Hcap. change (mv_dst (castle_mv E8 C8)) with C8 in Hcap.
      rewrite Z in Hcap. discriminate.
Qed.

(* [m] is, up to its score bits, one of the captures generated for [p] *)
Definition capturable (p : position) (m : N) : Prop :=
  exists cs m0, gen_captures p = Ok cs /\ In m0 cs /\ mv_low m = mv_low m0.

Theorem capture_fewer_men : forall p m q,
  Inv p -> capturable p m -> make_move K p m = Ok q -> (men q < men p)%nat.
Proof.
  intros p m q HI (cs & m0 & Hc & Hin & E) Hmk.
  assert (Hmk0 : make_move K p m0 = Ok q)
    by (rewrite <- (make_move_low K p m0), <- E, make_move_low; exact Hmk).
  destruct (gen_moves_total p HI) as (ms & Hms).
  pose proof (captures_same_order p ms cs HI Hms Hc) as Ec. subst cs.
  apply filter_In in Hin. destruct Hin as [Hin Hcap].
  eapply capture_fewer_men_gen; eauto.
Qed.

Lemma capturable_inv : forall p m q,
  Inv p -> capturable p m -> make_move K p m = Ok q -> is_legal q = Ok true -> Inv q.
Proof.
  intros p m q HI (cs & m0 & Hc & Hin & E) Hmk Hleg.
  assert (Hmk0 : make_move K p m0 = Ok q)
    by (rewrite <- (make_move_low K p m0), <- E, make_move_low; exact Hmk).
  destruct (gen_moves_total p HI) as (ms & Hms).
  pose proof (captures_same_order p ms cs HI Hms Hc) as Ec. subst cs.
  apply filter_In in Hin. destruct Hin as [Hin _].
  pose proof (gen_step_nocheck K p ms m0 q HI Hms Hin Hmk0) as NC.
  unfold Inv, inv_b. unfold inv_nocheck_b in NC. rewrite NC. cbn [andb].
  unfold mover_not_in_check. unfold is_legal in Hleg.
  destruct (is_in_check q (switch_color (side q))) as [b| |]; cbn [bind] in Hleg; try discriminate.
  injection Hleg as Hleg. destruct b; [discriminate|reflexivity].
Qed.
End Capture.

Lemma capturable_scored : forall OC p h cs ms,
  gen_captures p = Ok cs -> score_moves OC p h cs = Ok ms -> forall x, In x ms -> capturable p x.
Proof.
  intros OC p h cs ms Hc Hs x Hx. destruct (score_moves_in _ _ _ _ _ _ Hs Hx) as (m0 & Hin & E).
  exists cs, m0. auto.
Qed.

Lemma capturable_sorted : forall p ms i,
  (forall x, In x ms -> capturable p x) -> forall x, In x (sort_index ms i) -> capturable p x.
Proof. intros p ms i H x Hx. apply H. eapply sort_index_in; eauto. Qed.

(* ------------------------------------------------------------------ quiescence *)
Section Quiescence.
Variable K : zkeys.
Variable EC : econsts.
Variable OC : oconsts.
Variable SC : sconsts.

Section WithQRec.
Variable qrec : q_rec.
Variable p : position.
Hypothesis Hq : forall s q a b pl m, capturable p m -> make_move K p m = Ok q -> is_legal q = Ok true ->
  okT (qrec s q a b pl).

Lemma qloop_men : forall sp beta ply k i ms s alpha, (forall x, In x ms -> capturable p x) ->
  okT (q_loop K EC qrec p sp beta ply k i ms s alpha).
Proof.
  intros sp beta ply k; induction k as [|k IH]; intros i ms s alpha Hms.
  - cbn. leafT.
  - unfold q_loop; fold (q_loop K EC qrec p sp beta ply). cbv zeta.
    repeat first
      [ lazymatch goal with
        | |- okT (q_loop K EC qrec p sp beta ply k ?i ?ms ?s ?a) => apply IH; apply capturable_sorted; exact Hms
        end
      | lazymatch goal with
        | |- okT (match qrec ?s1 ?q ?a ?b ?pl with _ => _ end) =>
            let H := fresh "Hc" in
            assert (H : okT (qrec s1 q a b pl))
              by (eapply Hq; [|eassumption|eassumption];
                  apply Hms; eapply sort_index_in; eapply nth_error_In; eassumption);
            destruct (qrec s1 q a b pl) as [[?| | |] ?]; unfold okT in H; cbn [fst] in H
        | |- okT (match ?x with _ => _ end) => destruct x eqn:?
        end ].
    all: try contradiction; leafT.
Qed.
End WithQRec.

Theorem quiescence_men : forall f s p alpha beta ply,
  Inv p -> (men p < f)%nat -> okT (quiescence K EC OC SC f s p alpha beta ply).
Proof.
  induction f as [|f IH]; intros s p alpha beta ply HI Hf; [lia|].
  rewrite quiescence_eq. cbv zeta.
  repeat lazymatch goal with
         | |- okT (match ?x with _ => _ end) => destruct x eqn:?
         end.
  all: try (leafT; fail).
  apply qloop_men.
  - intros sx qx ax bx plx mx Hm Hmk Hl. apply IH.
    + eapply capturable_inv; eauto.
    + pose proof (capture_fewer_men K p mx qx HI Hm Hmk). lia.
  - eapply capturable_scored; eassumption.
Qed.

(* both bounds *)
Corollary quiescence_men_or_ply : forall f s p alpha beta ply,
  Inv p -> (sc_q_max_depth SC < 256)%N -> (Nat.min (men p) 256 < f)%nat ->
  okT (quiescence K EC OC SC f s p alpha beta ply).
Proof.
  intros f s p alpha beta ply HI HQ Hf.
  destruct (Nat.le_gt_cases (men p) 256) as [Hle|Hgt].
  - apply quiescence_men; [exact HI|lia].
  - apply quiescence_enough; [exact HQ|lia].
Qed.
End Quiescence.

Print Assumptions capture_fewer_men.
Print Assumptions quiescence_men.
Print Assumptions quiescence_men_or_ply.
