(* C05, termination of a root search, part 1: FUEL MONOTONICITY.
   [ROutOfFuel] is the bottom of an information order on results:  x [<=] y  iff  x ran out of fuel
   or x = y (same value AND same final state).  Every function of the search model is monotone in
   its fuel (and [search_iterative], [search] also in the loop bound [iters]) for that order:
   a run that does not report [ROutOfFuel] is reproduced exactly by every run with more fuel.
   Hence "there is a fuel with which the search returns r" determines r. *)
From Coq Require Import NArith ZArith List Bool FMapPositive Lia.
From Clemens Require Import Base.Res Base.Word Pos.Types Att.Attacks Pos.Position Eval.Eval
     Search.TT Search.Ordering Search.Negamax Search.SearchStruct.
Import ListNotations.
Open Scope Z_scope.

Definition le_res {A} (x y : sresult A * sst) : Prop := fst x = ROutOfFuel \/ x = y.

Lemma le_res_refl : forall A (x : sresult A * sst), le_res x x.
Proof. intros; right; reflexivity. Qed.

Lemma le_res_trans : forall A (x y z : sresult A * sst), le_res x y -> le_res y z -> le_res x z.
Proof.
  intros A x y z [H1|H1] H2; [left; exact H1|]. subst y. exact H2.
Qed.

Lemma le_res_bot : forall A (s : sst) (y : sresult A * sst), le_res (ROutOfFuel, s) y.
Proof. intros; left; reflexivity. Qed.

(* use of a fact [H : le_res X1 X2] when X1 is the scrutinee of the head match of the left side *)
Ltac callM H X1 :=
  let Ho := fresh "Ho" in let Heq := fresh "Heq" in
  let r0 := fresh "r" in let s0 := fresh "s" in
  destruct H as [Ho|Heq];
  [ left; destruct X1 as [r0 s0]; cbn [fst] in Ho; subst r0; reflexivity
  | rewrite <- Heq; clear Heq; destruct X1 as [r0 s0] ].

Ltac stepM calls :=
  lazymatch goal with
  | |- le_res (match ?x with _ => _ end) _ => first [ calls x | destruct x ]
  end.
Ltac leafM := first [ apply le_res_refl | apply le_res_bot ].

Section Mono.
Variable K : zkeys.
Variable EC : econsts.
Variable OC : oconsts.
Variable SC : sconsts.

(* ------------------------------------------------------------------ quiescence *)
Section WithQRec.
Variables qrec1 qrec2 : q_rec.
Hypothesis Hq : forall s q a b pl, le_res (qrec1 s q a b pl) (qrec2 s q a b pl).

Ltac qrecM x :=
  lazymatch x with
  | qrec1 ?s ?q ?a ?b ?pl => let H := fresh "Hc" in pose proof (Hq s q a b pl) as H; callM H x
  end.

Lemma qloop_M : forall p sp beta ply k i ms s alpha,
  le_res (q_loop K EC qrec1 p sp beta ply k i ms s alpha) (q_loop K EC qrec2 p sp beta ply k i ms s alpha).
Proof.
  intros p sp beta ply k; induction k as [|k IH]; intros.
  - cbn. leafM.
  - unfold q_loop; fold (q_loop K EC qrec1 p sp beta ply); fold (q_loop K EC qrec2 p sp beta ply).
    cbv zeta.
    repeat first [ apply IH | stepM qrecM ].
    all: leafM.
Qed.
End WithQRec.

Theorem quiescence_step : forall f s p alpha beta ply,
  le_res (quiescence K EC OC SC f s p alpha beta ply) (quiescence K EC OC SC (S f) s p alpha beta ply).
Proof.
  induction f as [|f IH]; intros.
  - cbn [quiescence]. leafM.
  - rewrite !quiescence_eq. cbv zeta.
    repeat first [ apply (qloop_M _ _ IH) | stepM ltac:(fun x => fail) ].
    all: leafM.
Qed.

(* ------------------------------------------------------------------ negamax *)
Section WithRec.
Variables rec1 rec2 : nm_rec.
Hypothesis Hrec : forall s q a b d pl cn pm rh, le_res (rec1 s q a b d pl cn pm rh) (rec2 s q a b d pl cn pm rh).

Ltac recM x :=
  lazymatch x with
  | rec1 ?s ?q ?a ?b ?d ?pl ?cn ?pm ?rh =>
      let H := fresh "Hc" in pose proof (Hrec s q a b d pl cn pm rh) as H; callM H x
  end.

Lemma pvs_M : forall s q alpha beta d1 pl1 pm rh lg,
  le_res (nm_pvs rec1 s q alpha beta d1 pl1 pm rh lg) (nm_pvs rec2 s q alpha beta d1 pl1 pm rh lg).
Proof. intros; unfold nm_pvs. cbv zeta. repeat stepM recM. all: leafM. Qed.

Lemma nmp_M : forall s p beta depth ply cn ic pv rh,
  le_res (nm_nmp K EC rec1 s p beta depth ply cn ic pv rh) (nm_nmp K EC rec2 s p beta depth ply cn ic pv rh).
Proof. intros; unfold nm_nmp. cbv zeta. repeat stepM recM. all: leafM. Qed.

Ltac recM2 x :=
  lazymatch x with
  | nm_pvs rec1 ?s ?q ?a ?b ?d ?pl ?pm ?rh ?lg =>
      let H := fresh "Hc" in pose proof (pvs_M s q a b d pl pm rh lg) as H; callM H x
  end.

Lemma loop_M : forall p beta depth ply pm rh fp k i ms s L,
  le_res (nm_loop K OC rec1 p beta depth ply pm rh fp k i ms s L)
         (nm_loop K OC rec2 p beta depth ply pm rh fp k i ms s L).
Proof.
  intros p beta depth ply pm rh fp k; induction k as [|k IH]; intros.
  - cbn. leafM.
  - unfold nm_loop; fold (nm_loop K OC rec1 p beta depth ply pm rh fp); fold (nm_loop K OC rec2 p beta depth ply pm rh fp).
    cbv zeta.
    repeat first [ apply IH | stepM recM2 ].
    all: leafM.
Qed.

Ltac recM3 x :=
  lazymatch x with
  | nm_nmp K EC rec1 ?s ?p ?b ?d ?pl ?cn ?ic ?pv ?rh =>
      let H := fresh "Hc" in pose proof (nmp_M s p b d pl cn ic pv rh) as H; callM H x
  | nm_loop K OC rec1 ?p ?b ?d ?pl ?pm ?rh ?fp ?k ?i ?ms ?s ?L =>
      let H := fresh "Hc" in pose proof (loop_M p b d pl pm rh fp k i ms s L) as H; callM H x
  end.

Lemma inner_M : forall s p alpha beta depth ply cn pm rh ic,
  le_res (nm_inner K EC OC SC rec1 s p alpha beta depth ply cn pm rh ic)
         (nm_inner K EC OC SC rec2 s p alpha beta depth ply cn pm rh ic).
Proof. intros; unfold nm_inner. cbv zeta. repeat stepM recM3. all: leafM. Qed.
End WithRec.

Theorem negamax_step : forall f s p alpha beta depth ply cn pm rh,
  le_res (negamax K EC OC SC f s p alpha beta depth ply cn pm rh)
         (negamax K EC OC SC (S f) s p alpha beta depth ply cn pm rh).
Proof.
  induction f as [|f IH]; intros.
  - cbn [negamax]. leafM.
  - rewrite !negamax_eq. cbv zeta.
    repeat stepM ltac:(fun x =>
      lazymatch x with
      | quiescence K EC OC SC ?f ?s ?p ?a ?b ?pl =>
          let H := fresh "Hc" in pose proof (quiescence_step f s p a b pl) as H; callM H x
      end).
    all: try (leafM; fail).
    match goal with
    | |- context [nm_inner K EC OC SC (negamax K EC OC SC f) ?s ?p ?a ?b ?d ?pl ?cn ?pm ?rh ?ic] =>
        destruct (inner_M _ _ IH s p a b d pl cn pm rh ic) as [Ho|Heq]
    end.
    + left. cbn [fst]. exact Ho.
    + rewrite Heq. leafM.
Qed.

(* ------------------------------------------------------------------ any larger fuel *)
Theorem quiescence_mono : forall f f' s p alpha beta ply, (f <= f')%nat ->
  le_res (quiescence K EC OC SC f s p alpha beta ply) (quiescence K EC OC SC f' s p alpha beta ply).
Proof.
  intros f f' s p alpha beta ply H. induction H as [|f' H IH]; [leafM|].
  eapply le_res_trans; [exact IH|apply quiescence_step].
Qed.

Theorem negamax_mono : forall f f' s p alpha beta depth ply cn pm rh, (f <= f')%nat ->
  le_res (negamax K EC OC SC f s p alpha beta depth ply cn pm rh)
         (negamax K EC OC SC f' s p alpha beta depth ply cn pm rh).
Proof.
  intros f f' s p alpha beta depth ply cn pm rh H. induction H as [|f' H IH]; [leafM|].
  eapply le_res_trans; [exact IH|apply negamax_step].
Qed.

Theorem search_root_mono : forall f f' s root depth alpha beta, (f <= f')%nat ->
  le_res (search_root K EC OC SC f s root depth alpha beta) (search_root K EC OC SC f' s root depth alpha beta).
Proof. intros. unfold search_root. apply negamax_mono. assumption. Qed.

Theorem search_iterative_mono : forall it f f', (f <= f')%nat -> forall it' rep s root md d a b, (it <= it')%nat ->
  le_res (search_iterative K EC OC SC it f rep s root md d a b)
         (search_iterative K EC OC SC it' f' rep s root md d a b).
Proof.
  intros it f f' Hf. induction it as [|it IH]; intros it' rep s root md d a b Hit.
  - cbn [search_iterative]. leafM.
  - destruct it' as [|it']; [lia|].
    cbn [search_iterative]. cbv zeta.
    repeat first [ apply IH; lia
                 | stepM ltac:(fun x =>
      lazymatch x with
      | search_root K EC OC SC f ?s ?r ?d ?a ?b =>
          let H := fresh "Hc" in pose proof (search_root_mono f f' s r d a b Hf) as H; callM H x
      end) ].
    all: leafM.
Qed.

Theorem search_mono : forall it it' f f' rep s root req, (it <= it')%nat -> (f <= f')%nat ->
  le_res (search K EC OC SC it f rep s root req) (search K EC OC SC it' f' rep s root req).
Proof.
  intros it it' f f' rep s root req Hit Hf. unfold search. cbv zeta.
  repeat stepM ltac:(fun x =>
      lazymatch x with
      | search_iterative K EC OC SC it f ?rep ?s ?r ?md ?d ?a ?b =>
          let H := fresh "Hc" in pose proof (search_iterative_mono it f f' Hf it' rep s r md d a b Hit) as H; callM H x
      end).
  all: leafM.
Qed.

(* ------------------------------------------------------------------ readable forms *)
Corollary negamax_fuel_irrelevant : forall f f' s p alpha beta depth ply cn pm rh r s',
  negamax K EC OC SC f s p alpha beta depth ply cn pm rh = (r, s') -> r <> ROutOfFuel -> (f <= f')%nat ->
  negamax K EC OC SC f' s p alpha beta depth ply cn pm rh = (r, s').
Proof.
  intros f f' s p alpha beta depth ply cn pm rh r s' E Hr Hf.
  destruct (negamax_mono f f' s p alpha beta depth ply cn pm rh Hf) as [Ho|Heq].
  - rewrite E in Ho. cbn [fst] in Ho. contradiction.
  - rewrite <- Heq. exact E.
Qed.

Corollary quiescence_fuel_irrelevant : forall f f' s p alpha beta ply r s',
  quiescence K EC OC SC f s p alpha beta ply = (r, s') -> r <> ROutOfFuel -> (f <= f')%nat ->
  quiescence K EC OC SC f' s p alpha beta ply = (r, s').
Proof.
  intros f f' s p alpha beta ply r s' E Hr Hf.
  destruct (quiescence_mono f f' s p alpha beta ply Hf) as [Ho|Heq].
  - rewrite E in Ho. cbn [fst] in Ho. contradiction.
  - rewrite <- Heq. exact E.
Qed.

Corollary search_root_fuel_irrelevant : forall f f' s root depth alpha beta r s',
  search_root K EC OC SC f s root depth alpha beta = (r, s') -> r <> ROutOfFuel -> (f <= f')%nat ->
  search_root K EC OC SC f' s root depth alpha beta = (r, s').
Proof.
  intros f f' s root depth alpha beta r s' E Hr Hf.
  destruct (search_root_mono f f' s root depth alpha beta Hf) as [Ho|Heq].
  - rewrite E in Ho. cbn [fst] in Ho. contradiction.
  - rewrite <- Heq. exact E.
Qed.

Corollary search_iterative_fuel_irrelevant : forall it it' f f' rep s root md d a b r s',
  search_iterative K EC OC SC it f rep s root md d a b = (r, s') -> r <> ROutOfFuel ->
  (it <= it')%nat -> (f <= f')%nat ->
  search_iterative K EC OC SC it' f' rep s root md d a b = (r, s').
Proof.
  intros it it' f f' rep s root md d a b r s' E Hr Hit Hf.
  destruct (search_iterative_mono it f f' Hf it' rep s root md d a b Hit) as [Ho|Heq].
  - rewrite E in Ho. cbn [fst] in Ho. contradiction.
  - rewrite <- Heq. exact E.
Qed.

Corollary search_fuel_irrelevant : forall it it' f f' rep s root req r s',
  search K EC OC SC it f rep s root req = (r, s') -> r <> ROutOfFuel ->
  (it <= it')%nat -> (f <= f')%nat ->
  search K EC OC SC it' f' rep s root req = (r, s').
Proof.
  intros it it' f f' rep s root req r s' E Hr Hit Hf.
  destruct (search_mono it it' f f' rep s root req Hit Hf) as [Ho|Heq].
  - rewrite E in Ho. cbn [fst] in Ho. contradiction.
  - rewrite <- Heq. exact E.
Qed.

(* two runs that both finish agree, whatever their fuels *)
Corollary search_deterministic_in_fuel : forall it1 it2 f1 f2 rep s root req r1 s1 r2 s2,
  search K EC OC SC it1 f1 rep s root req = (r1, s1) -> r1 <> ROutOfFuel ->
  search K EC OC SC it2 f2 rep s root req = (r2, s2) -> r2 <> ROutOfFuel ->
  r1 = r2 /\ s1 = s2.
Proof.
  intros it1 it2 f1 f2 rep s root req r1 s1 r2 s2 E1 H1 E2 H2.
  pose proof (search_fuel_irrelevant it1 (Nat.max it1 it2) f1 (Nat.max f1 f2) rep s root req r1 s1 E1 H1
                ltac:(lia) ltac:(lia)) as X1.
  pose proof (search_fuel_irrelevant it2 (Nat.max it1 it2) f2 (Nat.max f1 f2) rep s root req r2 s2 E2 H2
                ltac:(lia) ltac:(lia)) as X2.
  rewrite X1 in X2. inversion X2; auto.
Qed.
End Mono.

Print Assumptions negamax_fuel_irrelevant.
Print Assumptions quiescence_fuel_irrelevant.
Print Assumptions search_root_fuel_irrelevant.
Print Assumptions search_iterative_fuel_irrelevant.
Print Assumptions search_fuel_irrelevant.
Print Assumptions search_deterministic_in_fuel.
