(* C05, termination of a root search, part 2: FUEL SUFFICIENCY, generic form.
   (a) [quiescence]: the uint8 ply counter reaches [sc_q_max_depth] after at most 256 recursive
       calls, whatever the position: 257 units of fuel always suffice ([quiescence_enough]).
   (b) [negamax]: for ANY measure [mu] (on repetition stack, position, depth) that strictly
       decreases along every recursive call the search makes ([step_move], [step_null]), fuel
       [mu + 258] suffices ([negamax_enough]).  Two instances are in Rank.v. *)
From Coq Require Import NArith ZArith List Bool FMapPositive Lia ZifyBool ZifyN ZifyNat.
From Clemens Require Import Base.Res Base.Word Pos.Types Att.Attacks Pos.Position Eval.Eval
     Search.TT Search.Ordering Search.Negamax Search.SearchStruct Search.SearchLines.
From Clemens.C13Mate Require Import MateDefs.
Import ListNotations.
Open Scope Z_scope.

(* the result is a value, the cancellation error or a panic: the recursion bound was not hit *)
Definition okT {A} (x : sresult A * sst) : Prop := fst x <> ROutOfFuel.

Lemma okT_iff : forall A (r : sresult A) s, okT (r, s) <-> ((exists a, r = ROk a) \/ r = RCancel \/ r = RPanic).
Proof.
  intros A r s; unfold okT; cbn [fst]; split.
  - destruct r; intros H; eauto. contradiction.
  - intros [(a & ->)|[->| ->]]; discriminate.
Qed.

Ltac leafT :=
  try match goal with |- context [contempt ?e ?p] => destruct (contempt e p) end; cbn [of_res bind];
  unfold okT; cbn [fst]; first [ discriminate | assumption ].

(* ------------------------------------------------------------------ (a) quiescence *)
Section Quiescence.
Variable K : zkeys.
Variable EC : econsts.
Variable OC : oconsts.
Variable SC : sconsts.

(* number of further recursive calls until the uint8 ply equals the limit *)
Definition qdist (ply : N) : nat :=
  if (ply <? 256)%N then N.to_nat ((sc_q_max_depth SC + 256 - ply) mod 256)%N else 256%nat.

Lemma qdist_le : forall ply, (qdist ply <= 256)%nat.
Proof.
  intro ply; unfold qdist. destruct (ply <? 256)%N; [|lia].
  pose proof (N.mod_upper_bound (sc_q_max_depth SC + 256 - ply) 256 ltac:(discriminate)). lia.
Qed.

Lemma qdist_next : forall ply, (sc_q_max_depth SC < 256)%N -> (ply =? sc_q_max_depth SC)%N = false ->
  (qdist (w8 (ply + 1)) < qdist ply)%nat.
Proof.
  intros ply HQ Hne. apply N.eqb_neq in Hne. unfold qdist, w8.
  assert (H1 : ((ply + 1) mod 256 <? 256)%N = true).
  { apply N.ltb_lt. apply N.mod_upper_bound. discriminate. }
  rewrite H1. destruct (ply <? 256)%N eqn:Hp.
  - apply N.ltb_lt in Hp.
    Ltac Zify.zify_post_hook ::= Z.to_euclidean_division_equations.
    lia.
  - pose proof (N.mod_upper_bound (sc_q_max_depth SC + 256 - (ply + 1) mod 256) 256 ltac:(discriminate)). lia.
Qed.

Section WithQRec.
Variable qrec : q_rec.
Variable ply : N.
Hypothesis Hq : forall s q a b, okT (qrec s q a b (w8 (ply + 1))).

Lemma qloop_T : forall p sp beta k i ms s alpha, okT (q_loop K EC qrec p sp beta ply k i ms s alpha).
Proof.
  intros p sp beta k; induction k as [|k IH]; intros.
  - cbn. leafT.
  - unfold q_loop; fold (q_loop K EC qrec p sp beta ply). cbv zeta.
    repeat first [ apply IH
                 | lazymatch goal with
                   | |- okT (match qrec ?s ?q ?a ?b ?pl with _ => _ end) =>
                       let H := fresh "Hc" in pose proof (Hq s q a b) as H;
                       destruct (qrec s q a b pl) as [[?| | |] ?]; unfold okT in H; cbn [fst] in H
                   | |- okT (match ?x with _ => _ end) => destruct x
                   end ].
    all: try contradiction; leafT.
Qed.
End WithQRec.

Theorem quiescence_T : (sc_q_max_depth SC < 256)%N ->
  forall f s p alpha beta ply, (qdist ply < f)%nat -> okT (quiescence K EC OC SC f s p alpha beta ply).
Proof.
  intros HQ. induction f as [|f IH]; intros s p alpha beta ply Hf; [lia|].
  rewrite quiescence_eq. cbv zeta.
  repeat lazymatch goal with
         | |- okT (match (?pl =? sc_q_max_depth SC)%N with _ => _ end) =>
             let E := fresh "Eq" in destruct (pl =? sc_q_max_depth SC)%N eqn:E
         | |- okT (match ?x with _ => _ end) => destruct x
         end.
  all: try (leafT; fail).
  apply qloop_T. intros. apply IH.
  pose proof (qdist_next ply HQ Eq). lia.
Qed.

Corollary quiescence_enough : (sc_q_max_depth SC < 256)%N ->
  forall f s p alpha beta ply, (257 <= f)%nat -> okT (quiescence K EC OC SC f s p alpha beta ply).
Proof. intros HQ f s p alpha beta ply Hf. apply quiescence_T; [exact HQ|]. pose proof (qdist_le ply). lia. Qed.
End Quiescence.

(* ------------------------------------------------------------------ (b) negamax, generic measure *)
Section Negamax.
Variable K : zkeys.
Variable EC : econsts.
Variable OC : oconsts.
Variable SC : sconsts.

Lemma evaluate_T : forall s p,
  match evaluate EC s p with ROk (_, s1) => same s s1 | RCancel => False | RPanic => True | ROutOfFuel => False end.
Proof.
  intros; unfold evaluate. destruct (eval_cached EC (s_cache s) p) as [[v c]| |]; auto.
  unfold same; projs; auto.
Qed.

Lemma snm_T : forall s p beta depth ic pv,
  match nm_snm EC SC s p beta depth ic pv with ROk (_, s1) => same s s1 | RCancel => False | RPanic => True | ROutOfFuel => False end.
Proof.
  intros; unfold nm_snm.
  destruct (negb ic && negb pv && negb (is_checkmate_value EC beta)).
  - pose proof (evaluate_T s p) as H. destruct (evaluate EC s p) as [[v s1]| | |]; auto.
  - unfold same; auto.
Qed.

Lemma fpr_T : forall s p alpha beta depth ic pv,
  match nm_fpr EC SC s p alpha beta depth ic pv with ROk (_, s1) => same s s1 | RCancel => False | RPanic => True | ROutOfFuel => False end.
Proof.
  intros; unfold nm_fpr.
  match goal with |- context [if ?b then _ else _] => destruct b end.
  - pose proof (evaluate_T s p) as H. destruct (evaluate EC s p) as [[v s1]| | |]; auto;
    destruct (nthz (sc_fut_margin SC) depth); auto.
  - unfold same; auto.
Qed.

(* what is needed of the inner calls: they are fine on every (stack, position, depth) in [P] *)
Section WithRec.
Variable rec : nm_rec.
Variable P : list N -> position -> N -> Prop.
Hypothesis Hrec : forall s q a b d pl cn pm rh, P (s_hist s) q d -> okT (rec s q a b d pl cn pm rh).
Hypothesis Hframe : forall s q a b d pl cn pm rh, specA s (rec s q a b d pl cn pm rh).

Ltac histT := projs; congruence.

Lemma pvs_T : forall s q alpha beta d1 pl1 pm rh lg, P (s_hist s) q d1 ->
  okT (nm_pvs rec s q alpha beta d1 pl1 pm rh lg).
Proof.
  intros s q alpha beta d1 pl1 pm rh lg HP; unfold nm_pvs. cbv zeta.
  repeat lazymatch goal with
         | |- okT (match rec ?s1 ?q ?a ?b ?d ?pl ?cn ?pm ?rh with _ => _ end) =>
             let H := fresh "Hc" in let F := fresh "Hf" in
             assert (H : okT (rec s1 q a b d pl cn pm rh))
               by (apply Hrec; match goal with |- P ?h _ _ => replace h with (s_hist s) by histT end; exact HP);
             pose proof (Hframe s1 q a b d pl cn pm rh) as F;
             destruct (rec s1 q a b d pl cn pm rh) as [[[? ?]| | |] ?]; unfold okT in H; cbn [fst] in H;
             destruct F as ([? ? ? ? ?] & _ & _); projs
         | |- okT (match ?x with _ => _ end) => destruct x
         end.
  all: try contradiction; leafT.
Qed.

Lemma nmp_T : forall s p beta depth ply cn ic pv rh,
  (ic = false -> (2 < depth)%N -> forall q x, make_null_move K p = Ok (q, x) ->
     P (s_hist s) q (w8 (depth + 256 - (if (6 <? depth)%N then 3 else 2) - 1))) ->
  okT (nm_nmp K EC rec s p beta depth ply cn ic pv rh).
Proof.
  intros s p beta depth ply cn ic pv rh HP; unfold nm_nmp. cbv zeta.
  destruct (2 <? depth)%N eqn:E2; [|cbn [andb]; leafT].
  destruct ic; [rewrite !andb_false_r; cbn [andb]; leafT|].
  apply N.ltb_lt in E2. specialize (HP eq_refl E2).
  repeat lazymatch goal with
         | |- okT (match evaluate EC ?s0 ?p0 with _ => _ end) =>
             let H := fresh "He" in pose proof (evaluate_T s0 p0) as H;
             destruct (evaluate EC s0 p0) as [[? ?]| | |]
         | |- okT (match make_null_move K p with _ => _ end) =>
             let E := fresh "En" in destruct (make_null_move K p) as [[? ?]| |] eqn:E
         | |- okT (match rec ?s1 ?q ?a ?b ?d ?pl ?cn ?pm ?rh with _ => _ end) =>
             let H := fresh "Hc" in
             assert (H : okT (rec s1 q a b d pl cn pm rh))
               by (apply Hrec; match goal with |- P ?h _ _ => replace h with (s_hist s) by (prepA; histT) end;
                   eapply HP; reflexivity);
             destruct (rec s1 q a b d pl cn pm rh) as [[[? ?]| | |] ?]; unfold okT in H; cbn [fst] in H
         | |- okT (match ?x with _ => _ end) => destruct x
         end.
  all: try contradiction; leafT.
Qed.

Section Loop.
Variable p : position.
Variable h : list N.
Variable d1 : N.
Hypothesis HPm : forall m q, movable p m -> make_move K p m = Ok q -> is_legal q = Ok true -> P h q d1.

Lemma loop_T : forall beta depth ply pm rh fp k i ms s L,
  w8 (depth + 256 - 1) = d1 -> s_hist s = h -> (forall x, In x ms -> movable p x) ->
  okT (nm_loop K OC rec p beta depth ply pm rh fp k i ms s L).
Proof.
  intros beta depth ply pm rh fp k; induction k as [|k IH]; intros i ms s L Hd Hh Hms.
  - cbn. leafT.
  - unfold nm_loop; fold (nm_loop K OC rec p beta depth ply pm rh fp). cbv zeta. rewrite Hd.
    repeat first
      [ lazymatch goal with
        | |- okT (nm_loop K OC rec p beta depth ply pm rh fp k ?i ?ms ?s ?L) =>
            apply IH; [exact Hd| |apply movable_sorted; exact Hms]
        end
      | lazymatch goal with
        | |- okT (match nm_pvs rec ?s1 ?q ?a ?b ?d ?pl ?pm ?rh ?lg with _ => _ end) =>
            let H := fresh "Hc" in let F := fresh "Hf" in
            assert (H : okT (nm_pvs rec s1 q a b d pl pm rh lg))
              by (apply pvs_T; replace (s_hist s1) with h by histT;
                  eapply HPm; [|eassumption|eassumption];
                  apply Hms; eapply sort_index_in; eapply nth_error_In; eassumption);
            pose proof (pvs_A rec Hframe s1 q a b d pl pm rh lg) as F;
            destruct (nm_pvs rec s1 q a b d pl pm rh lg) as [[[? ?]| | |] ?]; unfold okT in H; cbn [fst] in H;
            destruct F as ([? ? ? ? ?] & _ & _); projs
        | |- okT (match ?x with _ => _ end) => destruct x eqn:?
        end ].
    all: try contradiction.
    all: try (leafT; fail).
    all: try histT.
    all: match goal with
         | |- s_hist (nm_cut_state ?OC ?s ?p ?d ?pl ?pm ?bm ?m ?qt) = _ =>
             pose proof (cut_same OC s p d pl pm bm m qt) as Hcut; destruct Hcut as (? & _); histT
         end.
Qed.
End Loop.

Lemma inner_T : forall s p alpha beta depth ply cn pm rh ic,
  (forall m q, movable p m -> make_move K p m = Ok q -> is_legal q = Ok true ->
     P (s_hist s) q (w8 (depth + 256 - 1))) ->
  (ic = false -> (2 < depth)%N -> forall q x, make_null_move K p = Ok (q, x) ->
     P (s_hist s) q (w8 (depth + 256 - (if (6 <? depth)%N then 3 else 2) - 1))) ->
  okT (nm_inner K EC OC SC rec s p alpha beta depth ply cn pm rh ic).
Proof.
  intros s p alpha beta depth ply cn pm rh ic HPm HPn; unfold nm_inner. cbv zeta.
  repeat lazymatch goal with
         | |- okT (match nm_snm EC SC ?s0 ?p0 ?b ?d ?ic ?pv with _ => _ end) =>
             let H := fresh "He" in pose proof (snm_T s0 p0 b d ic pv) as H;
             destruct (nm_snm EC SC s0 p0 b d ic pv) as [[[?|] ?]| | |]
         | |- okT (match nm_fpr EC SC ?s0 ?p0 ?a ?b ?d ?ic ?pv with _ => _ end) =>
             let H := fresh "He" in pose proof (fpr_T s0 p0 a b d ic pv) as H;
             destruct (nm_fpr EC SC s0 p0 a b d ic pv) as [[? ?]| | |]
         | |- okT (match nm_nmp K EC rec ?s1 ?p ?b ?d ?pl ?cn ?ic ?pv ?rh with _ => _ end) =>
             let H := fresh "Hc" in let F := fresh "Hf" in
             assert (H : okT (nm_nmp K EC rec s1 p b d pl cn ic pv rh))
               by (apply nmp_T; replace (s_hist s1) with (s_hist s) by (prepA; histT); exact HPn);
             pose proof (nmp_A K EC rec Hframe s1 p b d pl cn ic pv rh) as F;
             destruct (nm_nmp K EC rec s1 p b d pl cn ic pv rh) as [[[?|]| | |] ?]; unfold okT in H; cbn [fst] in H;
             destruct F as ([? ? ? ? ?] & _ & _); projs
         | |- okT (match nm_loop K OC rec ?p ?b ?d ?pl ?pm ?rh ?fp ?k ?i ?ms ?s1 ?L with _ => _ end) =>
             let H := fresh "Hc" in
             assert (H : okT (nm_loop K OC rec p b d pl pm rh fp k i ms s1 L))
               by (apply (loop_T p (s_hist s) (w8 (d + 256 - 1)) HPm);
                   [reflexivity|prepA; histT|eapply movable_scored; [left; eassumption|eassumption]]);
             destruct (nm_loop K OC rec p b d pl pm rh fp k i ms s1 L) as [[[? ?]| | |] ?]; unfold okT in H; cbn [fst] in H
         | |- okT (match ?x with _ => _ end) => destruct x eqn:?
         end.
  all: try contradiction; leafT.
Qed.
End WithRec.

(* ---------------------------------------------------------------- the measure *)
Variable G : list N -> position -> N -> Prop.      (* the (stack, position, depth) the search may be at *)
Variable mu : list N -> position -> N -> nat.
(* the depth a node is searched with: check extension *)
Definition ext_depth (ic : bool) (depth : N) : N := if ic then w8 (depth + 1) else depth.

Hypothesis step_move : forall h p d ic m q,
  G h p d -> is_in_check p (side p) = Ok ic -> ext_depth ic d <> 0%N ->
  (N.of_nat (length h) < sc_hist_size SC)%N ->
  movable p m -> make_move K p m = Ok q -> is_legal q = Ok true ->
  G (hash p :: h) q (w8 (ext_depth ic d + 256 - 1)) /\
  (mu (hash p :: h) q (w8 (ext_depth ic d + 256 - 1)) < mu h p d)%nat.
Hypothesis step_null : forall h p d q x,
  G h p d -> is_in_check p (side p) = Ok false -> (2 < d)%N ->
  (N.of_nat (length h) < sc_hist_size SC)%N ->
  make_null_move K p = Ok (q, x) ->
  let d' := w8 (d + 256 - (if (6 <? d)%N then 3 else 2) - 1) in
  G (hash p :: h) q d' /\ (mu (hash p :: h) q d' < mu h p d)%nat.
Hypothesis HQ : (sc_q_max_depth SC < 256)%N.

Theorem negamax_T : forall f s p alpha beta depth ply cn pm rh,
  G (s_hist s) p depth -> (mu (s_hist s) p depth + 258 <= f)%nat ->
  okT (negamax K EC OC SC f s p alpha beta depth ply cn pm rh).
Proof.
  induction f as [|f IH]; intros s p alpha beta depth ply cn pm rh HG Hf; [lia|].
  rewrite negamax_eq. cbv zeta.
  destruct (poll s) as [[|] s0] eqn:Ep; [leafT|].
  pose proof (poll_A s) as Hp. rewrite Ep in Hp. cbn [fst snd] in Hp. destruct Hp as ([Hh0 _ _ _ _] & _).
  destruct (is_in_check p (side p)) as [ic| |] eqn:Eic; [|leafT|leafT].
  fold (ext_depth ic depth).
  destruct (ext_depth ic depth =? 0)%N eqn:Ed.
  - pose proof (quiescence_enough K EC OC SC HQ f s0 p alpha beta ply ltac:(lia)) as Hqq.
    destruct (quiescence K EC OC SC f s0 p alpha beta ply) as [[?| | |] ?]; unfold okT in *; cbn [fst] in *;
      try discriminate. contradiction.
  - apply N.eqb_neq in Ed.
    match goal with |- okT (if ?b then _ else _) => destruct b end; [leafT|].
    unfold push_history. projs.
    destruct (N.of_nat (length (s_hist s0)) <? sc_hist_size SC)%N eqn:El; [|leafT].
    apply N.ltb_lt in El. rewrite Hh0 in El.
    unfold okT. cbn [fst]. apply inner_T with (P := fun h q d => G h q d /\ (mu h q d + 258 <= f)%nat).
    + intros s1 q a b d pl cn1 pm1 rh1 [H1 H2]. apply IH; assumption.
    + intros. apply negamax_A.
    + intros m q Hmv Hmk Hl. projs. rewrite Hh0.
      destruct (step_move (s_hist s) p depth ic m q HG Eic Ed El Hmv Hmk Hl) as [X1 X2].
      split; [exact X1|lia].
    + intros -> H2 q x Hn. projs. rewrite Hh0. unfold ext_depth in *.
      destruct (step_null (s_hist s) p depth q x HG Eic H2 El Hn) as [X1 X2].
      split; [exact X1|lia].
Qed.

End Negamax.

Print Assumptions quiescence_enough.
Print Assumptions negamax_T.
