#!/bin/sh
# Reproduces the two history-stack panics of the unchanged engine (index out of range [1024] with length 1024).
# Build: cd /repo && GOFLAGS=-mod=mod GOPROXY=off GOSUMDB=off GOTOOLCHAIN=local go build -o /tmp/term-engine ./cmd/uci
E=${1:-/tmp/term-engine}
gen() { python3 -c "
mv=['g1f3','g8f6','f3g1','f6g8']
print('position startpos moves '+' '.join(mv[i%4] for i in range($1)))
print('go depth $2')"; }
echo "== 1030 plies: panic in 'position' (MakeMoveFromString -> pushHistory)"
(gen 1030 1; sleep 2; echo quit) | timeout 20 $E 2>&1 | grep -m2 "panic\|history.go"
echo "== 1020 plies + go depth 6: panic inside the search (negamax -> pushHistory)"
(gen 1020 6; sleep 3; echo quit) | timeout 20 $E 2>&1 | grep -m2 "panic\|history.go"
