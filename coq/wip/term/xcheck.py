# search for a cycle of cross-checks: positions where the side to move is in check, edges = legal
# moves after which the opponent is in check.  Pieces: K Q R B N (no pawns, no castling).
import random, sys, time
DIRS_R=[(1,0),(-1,0),(0,1),(0,-1)]; DIRS_B=[(1,1),(1,-1),(-1,1),(-1,-1)]
KN=[(1,2),(2,1),(-1,2),(-2,1),(1,-2),(2,-1),(-1,-2),(-2,-1)]
def on(x,y): return 0<=x<8 and 0<=y<8
def attacked(b,sq,by):
    x,y=sq%8,sq//8
    for dx,dy in KN:
        u,v=x+dx,y+dy
        if on(u,v) and b[v*8+u]==(by,'N'): return True
    for dx in (-1,0,1):
        for dy in (-1,0,1):
            if dx or dy:
                u,v=x+dx,y+dy
                if on(u,v) and b[v*8+u]==(by,'K'): return True
    for dirs,ts in ((DIRS_R,'RQ'),(DIRS_B,'BQ')):
        for dx,dy in dirs:
            u,v=x+dx,y+dy
            while on(u,v):
                p=b[v*8+u]
                if p is not None:
                    if p[0]==by and p[1] in ts: return True
                    break
                u+=dx; v+=dy
    return False
def kingsq(b,c):
    for i,p in enumerate(b):
        if p==(c,'K'): return i
    return -1
def moves(b,c):
    for s,p in enumerate(b):
        if p is None or p[0]!=c: continue
        x,y=s%8,s//8; t=p[1]
        if t=='N' or t=='K':
            ds=KN if t=='N' else [(dx,dy) for dx in (-1,0,1) for dy in (-1,0,1) if dx or dy]
            for dx,dy in ds:
                u,v=x+dx,y+dy
                if on(u,v):
                    q=b[v*8+u]
                    if q is None or q[0]!=c: yield (s,v*8+u)
        else:
            dirs=(DIRS_R if t in 'RQ' else [])+(DIRS_B if t in 'BQ' else [])
            for dx,dy in dirs:
                u,v=x+dx,y+dy
                while on(u,v):
                    q=b[v*8+u]
                    if q is None: yield (s,v*8+u)
                    else:
                        if q[0]!=c: yield (s,v*8+u)
                        break
                    u+=dx; v+=dy
def succ_checks(b,c):
    """legal moves of c after which the opponent (1-c) is in check"""
    out=[]
    for s,d in moves(b,c):
        if b[d] is not None and b[d][1]=='K': continue
        nb=list(b); nb[d]=nb[s]; nb[s]=None
        if attacked(nb,kingsq(nb,c),1-c): continue
        if attacked(nb,kingsq(nb,1-c),c): out.append(((s,d),tuple(nb)))
    return out
def fen(b,c):
    rows=[]
    for y in range(7,-1,-1):
        r='';e=0
        for x in range(8):
            p=b[y*8+x]
            if p is None: e+=1
            else:
                if e: r+=str(e); e=0
                r+= p[1] if p[0]==0 else p[1].lower()
        if e: r+=str(e)
        rows.append(r)
    return '/'.join(rows)+(' w' if c==0 else ' b')+' - - 0 1'
def find_cycle(b,c,cap=20000):
    color={}; stack=[]; cnt=[0]; best=[0]
    sys.setrecursionlimit(10000)
    def dfs(b,c,depth):
        key=(b,c); color[key]=1; cnt[0]+=1
        best[0]=max(best[0],depth)
        if cnt[0]>cap: return None
        for mv,nb in succ_checks(b,c):
            k2=(nb,1-c)
            if color.get(k2)==1: return [(b,c,mv),(nb,1-c,None)]
            if k2 not in color:
                r=dfs(nb,1-c,depth+1)
                if r is not None: return [(b,c,mv)]+r
        color[key]=2
        return None
    return dfs(tuple(b),c,0),best[0]
def rand_pos(rng,npieces):
    while True:
        b=[None]*64
        sqs=rng.sample(range(64),2+2*npieces)
        b[sqs[0]]=(0,'K'); b[sqs[1]]=(1,'K')
        i=2
        for c in (0,1):
            for _ in range(npieces):
                b[sqs[i]]=(c,rng.choice('QQRRBBN')); i+=1
        c=rng.randrange(2)
        if attacked(b,kingsq(b,1-c),c): continue
        if not attacked(b,kingsq(b,c),1-c): continue
        return b,c
if __name__=='__main__':
    seed=int(sys.argv[1]); secs=float(sys.argv[2]); npc=int(sys.argv[3])
    rng=random.Random(seed); t0=time.time(); n=0; deepest=0
    while time.time()-t0<secs:
        b,c=rand_pos(rng,npc); n+=1
        r,d=find_cycle(b,c)
        if d>deepest:
            deepest=d; print('deepest chain',d,fen(b,c),flush=True)
        if r is not None:
            print('CYCLE',fen(b,c)); 
            for bb,cc,mv in r: print('  ',fen(bb,cc),mv)
            sys.stdout.flush()
    print('done',n,'positions; deepest',deepest)
