(* C02, part 4: consequences of [make_refines]
   - the abstraction of the successor depends only on the abstraction of the position (and not on the
     key table, the hash, the bitboards ...)
   - along a whole game the engine's position abstracts to the fold of the specification's [apply]
   - the boundary of the counter range, on concrete positions
   - executed examples with the key table of the Go build: castling, en passant, promotion-capture. *)
From Coq Require Import NArith ZArith List Bool Lia ZifyBool ZifyN ZifyNat String.
From Clemens Require Import Base.Res Base.Word Pos.Types Att.Attacks Pos.Position Pos.Fen Pos.Inv Pos.ZobristProofs
  Pos.CapturesProofs Pos.ZobristInst Rules.Fide Rules.Abs.
From WipRefine Require Import RefineBase GenClass MakeRefines AbsInj.
Import ListNotations.
Open Scope N_scope.

Ltac Zify.zify_post_hook ::= Z.to_euclidean_division_equations.

(* ------------------------------------------------------------------------------------------ *)
(* 1. The position passed to MakeMove is not changed, and the successor is determined by it.     *)

(* In the model a position is an immutable value and [make_move] is a function: the value bound to
   [p] before the call is the value bound to [p] after it, whatever the call returns. So the literal
   statement "the pre-move copy is unchanged" is the reflexivity below; the differential harness
   checks the Go side (a copy taken before MakeMove compares equal to a second copy). *)
Theorem pre_move_copy_unchanged K (p : position) (m : N) :
  let copy := p in forall r, make_move K p m = r -> copy = p /\ make_move K copy m = r.
Proof. intros copy r H. split; [reflexivity|exact H]. Qed.

(* The meaningful version: the FIDE-level successor depends only on the FIDE-level position. Two
   engine positions with the same abstraction (they may differ in hash, and be played with different
   key tables) have successors with the same abstraction. *)
Lemma abs_color_inj a b : a < 2 -> b < 2 -> abs_color a = abs_color b -> a = b.
Proof.
  intros Ha Hb. assert (a = 0 \/ a = 1) as [-> | ->] by lia; assert (b = 0 \/ b = 1) as [-> | ->] by lia;
  cbn; congruence.
Qed.

Lemma abs_counters_eq p p' :
  Inv p -> Inv p' -> abs p = abs p' -> ply_parity p -> ply_parity p' ->
  side p = side p' /\ hmc p = hmc p' /\ ply p = ply p'.
Proof.
  intros I I' E Par Par'. pose proof (inv_facts p I) as F. pose proof (inv_facts p' I') as F'.
  assert (Es : side p = side p').
  { apply abs_color_inj; [apply (side_lt p F)|apply (side_lt p' F')|]. exact (f_equal b_turn E). }
  pose proof (f_equal b_hmc E) as Eh. pose proof (f_equal b_full E) as Ef. cbn [abs b_hmc b_full] in Eh, Ef.
  apply ply_parity_spec in Par, Par'. rewrite <- Es in Par'.
  split; [exact Es|]. split; [lia|].
  destruct (side p =? BLACK); lia.
Qed.

Theorem succ_depends_on_abs K K' p p' ms m q q' :
  Inv p -> Inv p' -> ply_parity p -> ply_parity p' -> abs p = abs p' ->
  gen_moves p = Ok ms -> In m ms ->
  make_move K p m = Ok q -> make_move K' p' m = Ok q' ->
  hmc p < 255 -> ply p < 255 ->
  abs q = abs q'.
Proof.
  intros I I' Par Par' E G Hin M M' Hh Hp.
  destruct (abs_counters_eq p p' I I' E Par Par') as (_ & Eh & Ep).
  pose proof (abs_same_moves p p' I I' Par Par' E) as G'. rewrite G in G'.
  rewrite (make_refines K p ms m q I G Hin M Hh Hp Par).
  rewrite (make_refines K' p' ms m q' I' G' Hin M'); [|lia|lia|exact Par'].
  now rewrite E.
Qed.

(* with the same key table and consistent hashes the two positions are even identical *)
Theorem abs_injective K p p' :
  Inv p -> Inv p' -> ply_parity p -> ply_parity p' -> hash_ok K p -> hash_ok K p' -> abs p = abs p' -> p = p'.
Proof.
  intros I I' Par Par' H H' E. pose proof (abs_determines p p' I I' Par Par' E) as D.
  assert (Eh : hash p' = hash p).
  { unfold hash_ok in H, H'. rewrite D in H'. cbn [set_hash hash] in H'.
    rewrite (scratch_hash_ext K (set_hash p (hash p')) p) in H' by reflexivity. congruence. }
  rewrite D, Eh. destruct p; reflexivity.
Qed.

(* ------------------------------------------------------------------------------------------ *)
(* 2. Whole games                                                                               *)

(* a sequence of generated moves, each made on a position satisfying the invariant *)
Inductive gen_game (K : zkeys) : position -> list N -> position -> Prop :=
| gg_nil p : gen_game K p [] p
| gg_cons p ms m q rest r :
    Inv p -> gen_moves p = Ok ms -> In m ms -> make_move K p m = Ok q -> gen_game K q rest r ->
    gen_game K p (m :: rest) r.

(* a sequence of legal moves *)
Inductive legal_game (K : zkeys) : position -> list N -> position -> Prop :=
| lg_nil p : legal_game K p [] p
| lg_cons p ls m q rest r :
    Position.legal_moves K p = Ok ls -> In m ls -> make_move K p m = Ok q -> legal_game K q rest r ->
    legal_game K p (m :: rest) r.

Definition spec_play (s : bstate) (ms : list N) : bstate := fold_left apply (map decode ms) s.

Theorem gen_game_refines K p ms r :
  gen_game K p ms r -> ply_parity p ->
  ply p + N.of_nat (List.length ms) <= 255 -> hmc p + N.of_nat (List.length ms) <= 255 ->
  abs r = spec_play (abs p) ms /\ ply_parity r /\ ply r = ply p + N.of_nat (List.length ms).
Proof.
  induction 1 as [p | p ms m q rest r I G Hin M GG IH]; intros Par Hp Hh.
  - cbn. repeat split; auto. lia.
  - cbn [List.length] in Hp, Hh.
    destruct (counters_step K p ms m q I G Hin M ltac:(lia)) as (Ep & Eh).
    pose proof (ply_parity_step K p m q I M Par ltac:(lia)) as Parq.
    destruct (IH Parq ltac:(lia) ltac:(lia)) as (A & B & C).
    unfold spec_play in *. cbn [map fold_left List.length].
    rewrite <- (make_refines K p ms m q I G Hin M ltac:(lia) ltac:(lia) Par).
    repeat split; auto. lia.
Qed.

(* legal games from a position satisfying the invariant: here the invariant of the visited positions
   is C10 (preservation by legal moves), taken as the explicit premise [inv_step_statement K] *)
Lemma legal_game_gen K : inv_step_statement K -> forall p ms r,
  legal_game K p ms r -> Inv p -> gen_game K p ms r /\ Inv r.
Proof.
  intros IS. induction 1 as [p | p ls m q rest r Lg Hin M LG IH]; intros I.
  - split; [constructor|exact I].
  - destruct (legal_moves_in K _ _ _ Lg Hin) as (ms & G & Hin').
    pose proof (IS p m q ls I Lg Hin M) as Iq. destruct (IH Iq) as (GG & Ir).
    split; [|exact Ir]. econstructor; eauto.
Qed.

Theorem legal_game_refines K : inv_step_statement K -> forall p ms r,
  legal_game K p ms r -> Inv p -> ply_parity p ->
  ply p + N.of_nat (List.length ms) <= 255 -> hmc p + N.of_nat (List.length ms) <= 255 ->
  abs r = spec_play (abs p) ms /\ Inv r /\ ply_parity r.
Proof.
  intros IS p ms r LG I Par Hp Hh. destruct (legal_game_gen K IS p ms r LG I) as (GG & Ir).
  destruct (gen_game_refines K p ms r GG Par Hp Hh) as (A & B & _). auto.
Qed.

(* from the start position: 255 plies *)
Corollary start_game_refines K : inv_step_statement K -> forall p0 ms r,
  new_position K = Ok p0 -> legal_game K p0 ms r -> (List.length ms <= 255)%nat ->
  abs r = spec_play (abs p0) ms.
Proof.
  intros IS p0 ms r N0 LG Hl.
  assert (I0 : Inv p0) by (eapply new_position_inv; eauto).
  assert (F0 : ply p0 = 0 /\ hmc p0 = 0 /\ side p0 = WHITE).
  { unfold new_position in N0. rewrite start_bbs_ok in N0. cbn [bind] in N0. unfold init_hash in N0.
    bind_inv N0. injection N0 as <-. cbn. auto. }
  destruct F0 as (P0 & H0 & S0).
  apply (legal_game_refines K IS p0 ms r LG I0); [|lia|lia].
  unfold ply_parity. rewrite P0, S0. reflexivity.
Qed.

(* ------------------------------------------------------------------------------------------ *)
(* 3. Executed examples (key table of the Go build)                                             *)

Definition refines_b (p : position) (m : N) : Prop :=
  exists ms q, Inv p /\ gen_moves p = Ok ms /\ In m ms /\ make_move go_keys p m = Ok q /\
               hmc p < 255 /\ ply p < 255 /\ ply_parity p /\ abs q = apply (abs p) (decode m).

Ltac run_example p m :=
  exists (get_list (gen_moves p)), (get_pos (make_move go_keys p m));
  split; [vm_compute; reflexivity|];
  split; [vm_compute; reflexivity|];
  split; [vm_compute; tauto|];
  split; [vm_compute; reflexivity|];
  split; [vm_compute; reflexivity|];
  split; [vm_compute; reflexivity|];
  split; [vm_compute; reflexivity|];
  vm_compute; reflexivity.

(* white castles king side: the rook goes h1 -> f1, both white rights are lost *)
Definition ex_castle_pos : position :=
  Eval vm_compute in get_pos (go_fen "r3k2r/8/8/8/8/8/8/R3K2R w KQkq - 3 10").
Definition ex_castle_mv : N := CapturesProofs.castle_mv E1 G1.
Example ex_castle : refines_b ex_castle_pos ex_castle_mv.
Proof. run_example ex_castle_pos ex_castle_mv. Qed.
Example ex_castle_result :
  let r := apply (abs ex_castle_pos) (decode ex_castle_mv) in
  nth 5 (b_at r) None = Some {| p_color := White; p_type := Rook |} /\
  nth 6 (b_at r) None = Some {| p_color := White; p_type := King |} /\
  nth 7 (b_at r) None = None /\ nth 4 (b_at r) None = None /\
  b_rights r = {| wk := false; wq := false; bk := true; bq := true |} /\ b_hmc r = 4%Z /\ b_full r = 10%Z /\
  b_turn r = Black.
Proof. vm_compute. repeat split; reflexivity. Qed.

(* black castles queen side *)
Definition ex_castle_pos_b : position :=
  Eval vm_compute in get_pos (go_fen "r3k2r/8/8/8/8/8/8/R3K2R b KQkq - 3 10").
Definition ex_castle_mv_b : N := CapturesProofs.castle_mv E8 C8.
Example ex_castle_b : refines_b ex_castle_pos_b ex_castle_mv_b.
Proof. run_example ex_castle_pos_b ex_castle_mv_b. Qed.

(* en passant: e5 x d6, the pawn on d5 disappears, the clock restarts *)
Definition ex_ep_pos : position :=
  Eval vm_compute in get_pos (go_fen "4k3/8/8/3pP3/8/8/8/4K3 w - d6 0 2").
Definition ex_ep_mv : N := mk_move_kind 36 43 EN_PASSANT.
Example ex_ep : refines_b ex_ep_pos ex_ep_mv.
Proof. run_example ex_ep_pos ex_ep_mv. Qed.
Example ex_ep_result :
  let r := apply (abs ex_ep_pos) (decode ex_ep_mv) in
  nth 35 (b_at r) None = None /\ nth 36 (b_at r) None = None /\
  nth 43 (b_at r) None = Some {| p_color := White; p_type := Pawn |} /\ b_ep r = None /\ b_hmc r = 0%Z.
Proof. vm_compute. repeat split; reflexivity. Qed.

(* a double push sets the en-passant target *)
Definition ex_push_pos : position := Eval vm_compute in get_pos (new_position go_keys).
Example ex_push : refines_b ex_push_pos (mk_move 12 28).
Proof. run_example ex_push_pos (mk_move 12 28). Qed.
Example ex_push_result : b_ep (apply (abs ex_push_pos) (decode (mk_move 12 28))) = Some (4, 2)%Z.
Proof. vm_compute. reflexivity. Qed.

(* promotion-capture on a rook home square: b7 x a8 = Q, black loses the queen-side right *)
Definition ex_promo_pos : position :=
  Eval vm_compute in get_pos (go_fen "r3k2r/1P6/8/8/8/8/8/4K3 w kq - 5 30").
Definition ex_promo_mv : N := mk_promo 49 56 QUEEN.
Example ex_promo : refines_b ex_promo_pos ex_promo_mv.
Proof. run_example ex_promo_pos ex_promo_mv. Qed.
Example ex_promo_result :
  let r := apply (abs ex_promo_pos) (decode ex_promo_mv) in
  nth 56 (b_at r) None = Some {| p_color := White; p_type := Queen |} /\ nth 49 (b_at r) None = None /\
  b_rights r = {| wk := false; wq := false; bk := true; bq := false |} /\ b_hmc r = 0%Z.
Proof. vm_compute. repeat split; reflexivity. Qed.

(* ------------------------------------------------------------------------------------------ *)
(* 4. The boundary of the counter range, on concrete positions                                  *)

(* half-move clock 255, a quiet king move: the engine's byte wraps to 0, the specification says 256.
   All other hypotheses of [make_refines] hold. *)
Definition ex_hmc255_pos : position :=
  Eval vm_compute in get_pos (go_fen "4k3/8/8/8/8/8/8/4K3 w - - 255 100").
Theorem make_refines_refuted_hmc255 :
  let p := ex_hmc255_pos in let m := mk_move E1 D1 in
  exists ms q, Inv p /\ gen_moves p = Ok ms /\ In m ms /\ make_move go_keys p m = Ok q /\
    hmc p = 255 /\ ply p < 255 /\ ply_parity p /\
    abs q <> apply (abs p) (decode m) /\ b_hmc (abs q) = 0%Z /\ b_hmc (apply (abs p) (decode m)) = 256%Z.
Proof.
  cbv zeta.
  exists (get_list (gen_moves ex_hmc255_pos)), (get_pos (make_move go_keys ex_hmc255_pos (mk_move E1 D1))).
  split; [vm_compute; reflexivity|].
  split; [vm_compute; reflexivity|].
  split; [vm_compute; tauto|].
  split; [vm_compute; reflexivity|].
  split; [vm_compute; reflexivity|].
  split; [vm_compute; reflexivity|].
  split; [vm_compute; reflexivity|].
  split; [|split; vm_compute; reflexivity].
  intros E. apply (f_equal b_hmc) in E. vm_compute in E. discriminate.
Qed.

(* ply 255 (black to move at move 128): the ply byte wraps to 0 and the engine reports move 1 *)
Definition ex_ply255_pos : position :=
  Eval vm_compute in get_pos (go_fen "4k3/8/8/8/8/8/8/4K3 b - - 0 128").
Theorem make_refines_refuted_ply255 :
  let p := ex_ply255_pos in let m := mk_move E8 D8 in
  exists ms q, Inv p /\ gen_moves p = Ok ms /\ In m ms /\ make_move go_keys p m = Ok q /\
    hmc p < 255 /\ ply p = 255 /\ ply_parity p /\
    abs q <> apply (abs p) (decode m) /\ b_full (abs q) = 1%Z /\ b_full (apply (abs p) (decode m)) = 129%Z.
Proof.
  cbv zeta.
  exists (get_list (gen_moves ex_ply255_pos)), (get_pos (make_move go_keys ex_ply255_pos (mk_move E8 D8))).
  split; [vm_compute; reflexivity|].
  split; [vm_compute; reflexivity|].
  split; [vm_compute; tauto|].
  split; [vm_compute; reflexivity|].
  split; [vm_compute; reflexivity|].
  split; [vm_compute; reflexivity|].
  split; [vm_compute; reflexivity|].
  split; [|split; vm_compute; reflexivity].
  intros E. apply (f_equal b_full) in E. vm_compute in E. discriminate.
Qed.

(* the parity hypothesis is needed: the same placement with the ply counter of the wrong parity *)
Definition ex_parity_pos : position :=
  Eval vm_compute in set_counters (get_pos (go_fen "4k3/8/8/8/8/8/8/4K3 w - - 0 10")) 0 19.
Theorem make_refines_needs_parity :
  let p := ex_parity_pos in let m := mk_move E1 D1 in
  exists ms q, Inv p /\ gen_moves p = Ok ms /\ In m ms /\ make_move go_keys p m = Ok q /\
    hmc p < 255 /\ ply p < 255 /\ ~ ply_parity p /\ abs q <> apply (abs p) (decode m).
Proof.
  cbv zeta.
  exists (get_list (gen_moves ex_parity_pos)), (get_pos (make_move go_keys ex_parity_pos (mk_move E1 D1))).
  split; [vm_compute; reflexivity|].
  split; [vm_compute; reflexivity|].
  split; [vm_compute; tauto|].
  split; [vm_compute; reflexivity|].
  split; [vm_compute; reflexivity|].
  split; [vm_compute; reflexivity|].
  split; [vm_compute; discriminate|].
  intros E. apply (f_equal b_full) in E. vm_compute in E. discriminate.
Qed.

(* every parsed FEN meets the parity hypothesis (the parser computes the ply from the move number and
   the side), shown here on the examples; and so does the start position *)
Example parity_examples :
  ply_parity ex_castle_pos /\ ply_parity ex_castle_pos_b /\ ply_parity ex_ep_pos /\ ply_parity ex_push_pos /\
  ply_parity ex_promo_pos.
Proof. repeat split; vm_compute; reflexivity. Qed.
