(* C02, auxiliary: the parity hypothesis [ply_parity] of [make_refines] holds for every position the FEN
   parser returns and for the start position (and is preserved by MakeMove: [ply_parity_step]). *)
From Coq Require Import NArith ZArith List Bool Lia ZifyBool ZifyN ZifyNat.
From Clemens Require Import Base.Res Base.Word Base.Bytes Pos.Types Att.Attacks Pos.Position Pos.Fen Pos.Inv Pos.ZobristProofs
  Rules.Fide Rules.Abs.
From WipRefine Require Import RefineBase GenClass MakeRefines.
Import ListNotations.
Open Scope N_scope.

Ltac Zify.zify_post_hook ::= Z.to_euclidean_division_equations.

Lemma fen_set_castling_side p tok q : fen_set_castling p tok = Ok q -> side q = side p.
Proof.
  unfold fen_set_castling. destruct (bytes_eqb tok [45]); [intros [= <-]; reflexivity|].
  intros H. change (side p) with (side (set_castling p 0)).
  refine (fold_bind_inv (fun x => side x = side (set_castling p 0)) _ _ _ _ _ _ H); [|reflexivity].
  intros a x a' _ Ha S. cbv zeta in S.
  repeat match type of S with (if ?c then _ else _) = _ => destruct c end;
    try discriminate; injection S as <-; exact Ha.
Qed.

Lemma fen_set_ep_side tbl p tok q : fen_set_ep tbl p tok = Ok q -> side q = side p.
Proof.
  unfold fen_set_ep. cbv zeta. destruct (bytes_eqb tok [45]); [intros [= <-]; reflexivity|].
  intros H. bind_inv H. injection H as <-. reflexivity.
Qed.

Lemma fen_set_side_cases p tok q : fen_set_side p tok = Ok q -> q = set_side p WHITE \/ q = set_side p BLACK.
Proof.
  unfold fen_set_side. intros H. destruct tok as [|c tl]; [discriminate|]. destruct c as [|c]; [discriminate|].
  do 7 (destruct c as [c|c|]; try discriminate); destruct tl; try discriminate; injection H as <-; auto.
Qed.

Theorem fen_ply_parity K tbl s p : new_from_fen K tbl s = Ok p -> ply_parity p.
Proof.
  unfold new_from_fen, new_from_fen_gen. intros H.
  destruct (split_on 32 s) as [|t0 [|t1 [|t2 [|t3 [|t4 [|t5 [|]]]]]]]; try discriminate.
  bind_inv H. rename a into p0. bind_inv H. rename a into p1. bind_inv H. rename a into p2.
  bind_inv H. rename a into p3.
  destruct (atoi t4) as [h|]; [|discriminate]. destruct (atoi t5) as [fm|]; [|discriminate].
  remember (2 * fm - 1)%Z as x eqn:Ex. assert (Hx : (x mod 2 = 1)%Z) by lia. clear Ex.
  bind_inv H. injection H as <-. unfold init_hash in E3. bind_inv E3. injection E3 as <-.
  apply ply_parity_spec. cbn [gen_helpers set_helpers set_hash set_counters ply side].
  apply fen_set_ep_side in E2. apply fen_set_castling_side in E1. rewrite E2, E1.
  unfold z_to_u8, sub8.
  destruct (fen_set_side_cases _ _ _ E0) as [-> | ->]; cbn [set_side side].
  - change (WHITE =? WHITE) with true. change (WHITE =? BLACK) with false. cbv iota. lia.
  - change (BLACK =? WHITE) with false. change (BLACK =? BLACK) with true. cbv iota. lia.
Qed.

Theorem new_position_ply_parity K p : new_position K = Ok p -> ply_parity p.
Proof.
  unfold new_position. rewrite start_bbs_ok. cbn [bind]. unfold init_hash. intros H. bind_inv H. injection H as <-.
  reflexivity.
Qed.
