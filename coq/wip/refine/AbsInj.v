(* C02, auxiliary: on positions satisfying the C10 invariant (and the ply-parity convention) the
   abstraction [abs] forgets nothing but the hash: two such positions with the same abstraction agree in
   every field except possibly [hash]. Consequently they generate the same moves. *)
From Coq Require Import NArith ZArith List Bool Lia ZifyBool ZifyN ZifyNat.
From Clemens Require Import Base.Res Base.Word Pos.Types Att.Attacks Att.ShiftsProofs Pos.Position Pos.Inv Pos.ZobristProofs
  Pos.CapturesProofs Rules.Fide Rules.Abs.
From WipRefine Require Import RefineBase GenClass MakeRefines.
Import ListNotations.
Open Scope N_scope.

Ltac Zify.zify_post_hook ::= Z.to_euclidean_division_equations.

(* pieces *)
Definition conc_piece (o : option piece) : N :=
  match o with
  | None => 0
  | Some pc =>
    (match p_type pc with Pawn => 1 | Knight => 2 | Bishop => 3 | Rook => 4 | Queen => 5 | King => 6 end) +
    (match p_color pc with White => 0 | Black => 8 end)
  end.

Lemma conc_abs_piece a : pc_ok a = true -> conc_piece (abs_piece a) = a.
Proof.
  intros H. unfold pc_ok, valid_piece in H.
  assert (a = 0 \/ a = 1 \/ a = 2 \/ a = 3 \/ a = 4 \/ a = 5 \/ a = 6 \/ a = 9 \/ a = 10 \/ a = 11 \/ a = 12 \/
          a = 13 \/ a = 14) as C by lia.
  repeat (destruct C as [-> | C]); try subst a; reflexivity.
Qed.

Lemma board_from_abs p : board_wf p = true -> board p = map conc_piece (b_at (abs p)).
Proof.
  unfold board_wf. rewrite andb_true_iff. intros [_ H]. cbn [abs b_at]. rewrite map_map.
  induction (board p) as [|a l IH]; [reflexivity|]. cbn [forallb] in H. apply andb_true_iff in H. destruct H as [Ha Hl].
  cbn [map]. rewrite conc_abs_piece by exact Ha. f_equal. now apply IH.
Qed.

(* squares *)
Lemma abs_sq_inj a b : abs_sq a = abs_sq b -> a = b.
Proof. intros H. apply (f_equal sq_index) in H. rewrite !sq_index_abs in H. lia. Qed.

(* castling rights *)
Lemma abs_rights_inj a b : a < 16 -> b < 16 -> abs_rights a = abs_rights b -> a = b.
Proof.
  intros Ha Hb E. unfold abs_rights in E. injection E as E0 E1 E2 E3.
  apply N.bits_inj; unfold N.eqf; intro n.
  destruct (N.lt_ge_cases n 4) as [Hn|Hn].
  - assert (n = 0 \/ n = 1 \/ n = 2 \/ n = 3) as [-> | [-> | [-> | ->]]] by lia; auto.
  - transitivity false; [|symmetry].
    + destruct (N.testbit a n) eqn:T; auto. apply (testbit_bound a 4) in T; [lia|exact Ha].
    + destruct (N.testbit b n) eqn:T; auto. apply (testbit_bound b 4) in T; [lia|exact Hb].
Qed.

(* bitboards are determined by the square array *)
Lemma bbs_from_board p p' : facts p -> facts p' -> board p = board p' -> bbs p = bbs p'.
Proof.
  intros F F' E. apply (nth_ext _ _ 0 0); [now rewrite (F_bbs_len p F), (F_bbs_len p' F')|].
  intros n Hn. rewrite (F_bbs_len p F) in Hn.
  set (c := N.of_nat n / 6). set (t := N.of_nat n mod 6).
  assert (Hc : c < 2) by (unfold c; lia). assert (Ht : t < 6) by (unfold t; lia).
  assert (En : n = N.to_nat (c * 6 + t)) by (unfold c, t; lia).
  rewrite En. fold (bb_at p c t). fold (bb_at p' c t).
  destruct (F_bb p F c t Hc Ht) as [L1 B1]. destruct (F_bb p' F' c t Hc Ht) as [L2 B2].
  apply N.bits_inj; unfold N.eqf; intro i.
  destruct (N.lt_ge_cases i 64) as [Hi|Hi].
  - rewrite (B1 i Hi), (B2 i Hi). unfold piece_at. now rewrite E.
  - now rewrite (testbit_high _ _ L1 Hi), (testbit_high _ _ L2 Hi).
Qed.

Lemma union6_bbs p p' c : bbs p = bbs p' -> union6 p c = union6 p' c.
Proof. intros E. unfold union6, bb_at. now rewrite E. Qed.

(* the abstraction is injective up to the hash *)
Theorem abs_determines p p' :
  Inv p -> Inv p' -> ply_parity p -> ply_parity p' -> abs p = abs p' -> p' = set_hash p (hash p').
Proof.
  intros I I' Par Par' E. pose proof (inv_facts p I) as F. pose proof (inv_facts p' I') as F'.
  destruct (inv_parts _ I) as (I1 & I2 & I3 & I4 & I5 & I6 & I7 & I8 & I9).
  destruct (inv_parts _ I') as (J1 & J2 & J3 & J4 & J5 & J6 & J7 & J8 & J9).
  destruct (scalars_ok_spec _ I8) as (_ & _ & _ & Y4). destruct (scalars_ok_spec _ J8) as (_ & _ & _ & Z4).
  assert (Eb : board p = board p') by (rewrite (board_from_abs p I1), (board_from_abs p' J1), E; reflexivity).
  assert (Es : side p = side p').
  { destruct (F_side p F) as [e|e], (F_side p' F') as [e'|e']; rewrite e, e'; try reflexivity;
      pose proof (f_equal b_turn E) as X; cbn [abs b_turn] in X; rewrite e, e' in X; discriminate. }
  assert (Eh : hmc p = hmc p') by (pose proof (f_equal b_hmc E) as X; cbn [abs b_hmc] in X; lia).
  assert (Ep : ply p = ply p').
  { pose proof (f_equal b_full E) as X. cbn [abs b_full] in X.
    apply ply_parity_spec in Par, Par'. rewrite <- Es in Par'. destruct (side p =? BLACK); lia. }
  assert (Ec : castling p = castling p').
  { unfold castling_consistent in I6, J6. rewrite !andb_true_iff, N.ltb_lt in I6, J6.
    apply abs_rights_inj; [tauto|tauto|]. exact (f_equal b_rights E). }
  assert (Ee : ep p = ep p').
  { pose proof (f_equal b_ep E) as X. cbn [abs b_ep] in X. unfold SQ_NONE in *.
    destruct (N.eqb_spec (ep p) 64) as [e|e], (N.eqb_spec (ep p') 64) as [e'|e']; try congruence.
    injection X as X1 X2. apply abs_sq_inj. unfold abs_sq. now rewrite X1, X2. }
  assert (Ebb : bbs p = bbs p') by (now apply bbs_from_board).
  apply position_eq; cbn [set_hash bbs hash all_pieces by_color board side castling ep hmc ply]; auto.
  - now rewrite (F_all p F), (F_all p' F'), !(union6_bbs p p' _ Ebb).
  - now rewrite (F_by_color p F), (F_by_color p' F'), !(union6_bbs p p' _ Ebb).
Qed.

Lemma gen_moves_set_hash p h : gen_moves (set_hash p h) = gen_moves p.
Proof. destruct p. reflexivity. Qed.

Corollary abs_same_moves p p' :
  Inv p -> Inv p' -> ply_parity p -> ply_parity p' -> abs p = abs p' -> gen_moves p' = gen_moves p.
Proof.
  intros I I' Par Par' E. rewrite (abs_determines p p' I I' Par Par' E). apply gen_moves_set_hash.
Qed.
