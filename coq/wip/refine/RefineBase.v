(* C02, part 1: plumbing for the refinement  abs (make_move p m) = apply (abs p) (decode m).
   - lists: [upd] / [set_nth] / [map] / [nth_error]
   - coordinates: [abs_sq] against [sq_index], [on_board], [put], [at_sq]
   - pieces: [abs_piece] of [new_piece]
   - castling rights: [revoke] against the specification's [lose]
   - every field of the result of [make_move], computed from the stage decomposition
     (no hypothesis on the move: this is a description of MakeMove itself). *)
From Coq Require Import NArith ZArith List Bool Lia ZifyBool ZifyN ZifyNat Btauto.
From Clemens Require Import Base.Res Base.Word Pos.Types Att.Attacks Pos.Position Pos.Inv Pos.ZobristProofs
  Rules.Fide Rules.Abs.
Import ListNotations.
Open Scope N_scope.

Ltac Zify.zify_post_hook ::= Z.to_euclidean_division_equations.

(* ------------------------------------------------------------------------------------------ *)
(* lists                                                                                        *)

Lemma set_nth_upd {A} (l : list A) i v : set_nth l i v = upd l i v.
Proof. revert i. induction l as [|a l IH]; destruct i; cbn; auto; now rewrite IH. Qed.

Lemma map_upd {A B} (f : A -> B) (l : list A) i v : map f (upd l i v) = upd (map f l) i (f v).
Proof. revert i. induction l as [|a l IH]; destruct i; cbn; auto; now rewrite IH. Qed.

Lemma nth_error_upd {A} (l : list A) i v j :
  nth_error (upd l i v) j =
  if Nat.eqb i j then (if Nat.ltb i (length l) then Some v else None) else nth_error l j.
Proof.
  destruct (Nat.eqb_spec i j) as [<-|Hne].
  - destruct (Nat.ltb_spec i (length l)) as [Hlt|Hge].
    + now apply nth_error_upd_same.
    + apply nth_error_None. rewrite upd_length. lia.
  - now apply nth_error_upd_other.
Qed.

Lemma nth_error_piece_at p s pc : nth_error (board p) (N.to_nat s) = Some pc -> piece_at p s = pc.
Proof. intros H. unfold piece_at. now apply nth_error_nth. Qed.

Lemma piece_at_nth_error p s : len64 p -> s < 64 -> nth_error (board p) (N.to_nat s) = Some (piece_at p s).
Proof. intros L Hs. unfold piece_at. apply nth_error_nth'. rewrite L. lia. Qed.

(* ------------------------------------------------------------------------------------------ *)
(* coordinates                                                                                  *)

Lemma file_of_mod s : file_of s = s mod 8.
Proof. unfold file_of. change 7 with (N.ones 3). now rewrite N.land_ones. Qed.
Lemma rank_of_div s : rank_of s = s / 8.
Proof. unfold rank_of. now rewrite N.shiftr_div_pow2. Qed.

Definition fZ (s : N) : Z := Z.of_N (file_of s).
Definition rZ (s : N) : Z := Z.of_N (rank_of s).

Lemma abs_sq_fr s : abs_sq s = (fZ s, rZ s).
Proof. reflexivity. Qed.

Lemma fZ_spec s : fZ s = (Z.of_N s mod 8)%Z.
Proof. unfold fZ. rewrite file_of_mod. lia. Qed.
Lemma rZ_spec s : rZ s = (Z.of_N s / 8)%Z.
Proof. unfold rZ. rewrite rank_of_div. lia. Qed.

Lemma sq_index_abs s : sq_index (abs_sq s) = N.to_nat s.
Proof. unfold sq_index, abs_sq. cbn [fst snd]. rewrite file_of_mod, rank_of_div. lia. Qed.

Lemma on_board_abs s : s < 64 -> on_board (abs_sq s) = true.
Proof. intros Hs. unfold on_board, abs_sq. rewrite file_of_mod, rank_of_div. lia. Qed.

(* a square given by its coordinates is the abstraction of the engine square with that number *)
Lemma coords_abs (f r : Z) (x : N) :
  (0 <= f < 8)%Z -> Z.of_N x = (r * 8 + f)%Z -> (f, r) = abs_sq x.
Proof.
  intros Hf Hx. rewrite abs_sq_fr, fZ_spec, rZ_spec. f_equal; lia.
Qed.

Lemma put_abs bd s v : put bd (abs_sq s) v = upd bd (N.to_nat s) v.
Proof. unfold put. now rewrite sq_index_abs, set_nth_upd. Qed.

Lemma at_sq_abs p s : len64 p -> s < 64 -> at_sq (abs p) (abs_sq s) = abs_piece (piece_at p s).
Proof.
  intros L Hs. unfold at_sq. rewrite on_board_abs, sq_index_abs by auto. cbn [abs b_at].
  unfold piece_at. change None with (abs_piece 0) at 1. now rewrite map_nth.
Qed.

Lemma sq_eqb_abs s x : sq_eqb (abs_sq s) x = (fZ s =? fst x)%Z && (rZ s =? snd x)%Z.
Proof. reflexivity. Qed.

(* ------------------------------------------------------------------------------------------ *)
(* pieces                                                                                       *)

Lemma abs_piece_new c T : c < 2 -> T < 6 ->
  abs_piece (new_piece c T) = Some {| p_color := abs_color c; p_type := abs_ptype T |}.
Proof.
  intros Hc HT. assert (c = 0 \/ c = 1) as [-> | ->] by lia;
  assert (T = 0 \/ T = 1 \/ T = 2 \/ T = 3 \/ T = 4 \/ T = 5) as [ -> | [ -> | [ -> | [ -> | [ -> | -> ]]]]] by lia;
  reflexivity.
Qed.

Lemma abs_piece_0 : abs_piece 0 = None.
Proof. reflexivity. Qed.

Lemma abs_piece_none pc : (pc =? 0) || valid_piece pc = true -> (abs_piece pc = None <-> pc = 0).
Proof.
  intros H. unfold valid_piece in H.
  assert (pc = 0 \/ pc = 1 \/ pc = 2 \/ pc = 3 \/ pc = 4 \/ pc = 5 \/ pc = 6 \/ pc = 9 \/ pc = 10 \/ pc = 11 \/ pc = 12 \/
          pc = 13 \/ pc = 14) as C by lia.
  repeat (destruct C as [-> | C]); try subst pc; vm_compute; split; intros; congruence.
Qed.

Lemma abs_color_opp c : c < 2 -> abs_color (switch_color c) = opp (abs_color c).
Proof. intros Hc. assert (c = 0 \/ c = 1) as [-> | ->] by lia; reflexivity. Qed.

(* ------------------------------------------------------------------------------------------ *)
(* castling rights                                                                              *)

Definition revoked (cs lost : N) : N :=
  N.ldiff (N.ldiff (N.ldiff (N.ldiff cs (N.land lost WK)) (N.land lost WQ)) (N.land lost BK)) (N.land lost BQ).

Lemma ldiff_disjoint cs x : N.land x cs = 0 -> N.ldiff cs x = cs.
Proof.
  intros H. apply N.bits_inj; unfold N.eqf; intro n. rewrite N.ldiff_spec.
  assert (T : N.testbit (N.land x cs) n = false) by (rewrite H; apply N.bits_0). rewrite N.land_spec in T.
  destruct (N.testbit cs n), (N.testbit x n); cbn in *; congruence.
Qed.

Lemma land_pow2_cases lost k : N.land lost (2 ^ k) = 0 \/ N.land lost (2 ^ k) = 2 ^ k.
Proof.
  destruct (N.testbit lost k) eqn:T; [right|left]; apply N.bits_inj; unfold N.eqf; intro n;
    rewrite N.land_spec, ?N.bits_0, N.pow2_bits_eqb; destruct (N.eqb_spec k n) as [<-|Hne];
    rewrite ?T, ?andb_false_r; reflexivity.
Qed.

Definition rstep (K : zkeys) (lost : N) (q : position) (ci : N * nat) : res position :=
  let '(c, i) := ci in
  if negb (N.land (N.land lost c) (castling q) =? 0) then
    k <- key_castling_idx K i ;; Ok (toggle (set_castling q (N.ldiff (castling q) c)) k)
  else Ok q.

Lemma rstep_fields K lost q c i q' k : c = 2 ^ k -> rstep K lost q (c, i) = Ok q' ->
  board q' = board q /\ side q' = side q /\ ep q' = ep q /\ hmc q' = hmc q /\ ply q' = ply q /\
  castling q' = N.ldiff (castling q) (N.land lost c).
Proof.
  intros Hc S. unfold rstep in S.
  destruct (N.land (N.land lost c) (castling q) =? 0) eqn:E; cbn [negb] in S.
  - injection S as <-. apply N.eqb_eq in E. rewrite ldiff_disjoint by exact E. repeat split; reflexivity.
  - bind_inv S. injection S as <-. cbn. repeat split; auto.
    apply N.eqb_neq in E. subst c. destruct (land_pow2_cases lost k) as [Z|Z]; rewrite Z in *; [|reflexivity].
    exfalso. apply E. reflexivity.
Qed.

Lemma revoke_fields K p sq q : revoke K p sq = Ok q ->
  board q = board p /\ side q = side p /\ ep q = ep p /\ hmc q = hmc p /\ ply q = ply p /\
  castling q = revoked (castling p) (lost_rights sq).
Proof.
  intros R. unfold revoke, castling_list in R. cbn [fold_left] in R. cbn [bind] in R.
  apply bind_ok in R. destruct R as (q3 & R3 & R4).
  apply bind_ok in R3. destruct R3 as (q2 & R2 & R3).
  apply bind_ok in R2. destruct R2 as (q1 & R1 & R2).
  apply (rstep_fields K (lost_rights sq) p WK 0%nat q1 0 eq_refl) in R1. destruct R1 as (A1 & A2 & A3 & A4 & A5 & A6).
  apply (rstep_fields K (lost_rights sq) q1 WQ 1%nat q2 1 eq_refl) in R2. destruct R2 as (B1 & B2 & B3 & B4 & B5 & B6).
  apply (rstep_fields K (lost_rights sq) q2 BK 2%nat q3 2 eq_refl) in R3. destruct R3 as (C1 & C2 & C3 & C4 & C5 & C6).
  apply (rstep_fields K (lost_rights sq) q3 BQ 3%nat q 3 eq_refl) in R4. destruct R4 as (D1 & D2 & D3 & D4 & D5 & D6).
  unfold revoked. rewrite D1, D2, D3, D4, D5, D6, C1, C2, C3, C4, C5, C6, B1, B2, B3, B4, B5, B6, A1, A2, A3, A4, A5, A6.
  repeat split; reflexivity.
Qed.

(* the bits of [lost_rights], against the home squares of the specification *)
Definition lost_chk (sq : N) : bool :=
  let a := abs_sq sq in
  Bool.eqb (N.testbit (lost_rights sq) 0) (sq_eqb a (4, 0)%Z || sq_eqb a (7, 0)%Z) &&
  Bool.eqb (N.testbit (lost_rights sq) 1) (sq_eqb a (4, 0)%Z || sq_eqb a (0, 0)%Z) &&
  Bool.eqb (N.testbit (lost_rights sq) 2) (sq_eqb a (4, 7)%Z || sq_eqb a (7, 7)%Z) &&
  Bool.eqb (N.testbit (lost_rights sq) 3) (sq_eqb a (4, 7)%Z || sq_eqb a (0, 7)%Z).
Lemma lost_chk_all : forallb lost_chk sq_list = true.
Proof. vm_compute. reflexivity. Qed.

Lemma abs_rights_revoked cs sq : sq < 64 ->
  abs_rights (revoked cs (lost_rights sq)) = lose (abs_rights cs) (abs_sq sq).
Proof.
  intros Hs. pose proof (forall_sq _ lost_chk_all sq Hs) as C. unfold lost_chk in C. cbv zeta in C.
  rewrite !andb_true_iff in C. destruct C as [[[C0 C1] C2] C3]. apply eqb_prop in C0, C1, C2, C3.
  unfold abs_rights, lose, revoked. cbn [wk wq bk bq].
  rewrite !N.ldiff_spec, !N.land_spec, C0, C1, C2, C3.
  change (N.testbit WK 0) with true. change (N.testbit WQ 0) with false. change (N.testbit BK 0) with false.
  change (N.testbit BQ 0) with false.
  change (N.testbit WK 1) with false. change (N.testbit WQ 1) with true. change (N.testbit BK 1) with false.
  change (N.testbit BQ 1) with false.
  change (N.testbit WK 2) with false. change (N.testbit WQ 2) with false. change (N.testbit BK 2) with true.
  change (N.testbit BQ 2) with false.
  change (N.testbit WK 3) with false. change (N.testbit WQ 3) with false. change (N.testbit BK 3) with false.
  change (N.testbit BQ 3) with true.
  repeat match goal with |- context [sq_eqb ?a ?b] => generalize (sq_eqb a b); intro end.
  f_equal; btauto.
Qed.

(* ------------------------------------------------------------------------------------------ *)
(* all the fields of the result of MakeMove                                                     *)

Section Fields.
Variable K : zkeys.

Lemma st_ep_fields p p1 : st_ep K p = Ok p1 ->
  board p1 = board p /\ side p1 = side p /\ castling p1 = castling p /\ ep p1 = SQ_NONE /\
  hmc p1 = hmc p /\ ply p1 = ply p.
Proof.
  unfold st_ep. intros S. destruct (ep p =? SQ_NONE) eqn:E; cbn [negb] in S.
  - injection S as <-. apply N.eqb_eq in E. repeat split; auto.
  - bind_inv S. injection S as <-. cbn. repeat split; auto.
Qed.

Lemma st_cap_fields p dst target p2 reset :
  get_piece p dst = Ok target -> st_cap K p dst target = Ok (p2, reset) ->
  board p2 = upd (board p) (N.to_nat dst) NO_PIECE /\ side p2 = side p /\ castling p2 = castling p /\
  ep p2 = ep p /\ hmc p2 = hmc p /\ ply p2 = ply p /\ reset = negb (target =? NO_PIECE).
Proof.
  unfold st_cap, get_piece. intros G S. apply ZobristProofs.nth_res_ok in G.
  destruct (target =? NO_PIECE) eqn:E; cbn [negb] in S |- *.
  - injection S as <- <-. apply N.eqb_eq in E. subst. rewrite upd_same by auto. repeat split; auto.
  - bind_inv S. destruct a as [p2' pc]. injection S as <- <-. cbn [fst].
    apply delete_piece_spec in E0. destruct E0 as (k & _ & _ & _ & Hb & _ & Hs & Hc & He & Hh & Hp).
    repeat split; auto.
Qed.

Lemma move_piece_fields p from to q pc : move_piece K p from to = Ok (q, pc) ->
  nth_error (board p) (N.to_nat from) = Some pc /\ pc <> NO_PIECE /\ to < 64 /\
  board q = upd (upd (board p) (N.to_nat from) NO_PIECE) (N.to_nat to) pc /\
  side q = side p /\ castling q = castling p /\ ep q = ep p /\ hmc q = hmc p /\ ply q = ply p.
Proof.
  intros M. apply move_piece_spec in M. destruct M as (p1 & D & S).
  apply delete_piece_spec in D. destruct D as (k & Hf & Hpc & _ & Hb & _ & Hs & Hc & He & Hh & Hp).
  apply set_piece_spec in S. destruct S as (k' & Hto & _ & _ & Hb' & _ & Hs' & Hc' & He' & Hh' & Hp').
  rewrite Hb', Hb, Hs', Hc', He', Hh', Hp'. repeat split; auto.
Qed.

Lemma st_pawn_fields stm p piece src dst reset q reset' :
  st_pawn K stm p piece src dst reset = Ok (q, reset') ->
  board q = board p /\ side q = side p /\ castling q = castling p /\ hmc q = hmc p /\ ply q = ply p /\
  ep q = (if (piece_type piece =? PAWN) && (abs_diff src dst =? 16)
          then (if stm =? BLACK then add8 dst 8 else sub8 dst 8) else ep p) /\
  reset' = (piece_type piece =? PAWN) || reset.
Proof.
  unfold st_pawn. intros S.
  destruct (piece_type piece =? PAWN) eqn:E1; cbn [andb orb]; [|injection S as <- <-; repeat split; auto].
  destruct (abs_diff src dst =? 16) eqn:E2; [|injection S as <- <-; repeat split; auto].
  bind_inv S. injection S as <- <-. cbn. repeat split; auto.
Qed.

(* the special-kind stage, on the square array *)
Definition kind_board (stm : N) (m : N) (B B' : list N) : Prop :=
  let t := mv_dst m in
  (mv_kind m = CASTLING /\ (t = C1 \/ t = G1 \/ t = C8 \/ t = G8) /\
     exists rook, nth_error B (N.to_nat (rook_src t)) = Some rook /\ rook <> NO_PIECE /\
                  B' = upd (upd B (N.to_nat (rook_src t)) NO_PIECE) (N.to_nat (rook_dst t)) rook) \/
  (mv_kind m = EN_PASSANT /\
     B' = upd B (N.to_nat (if stm =? WHITE then sub8 t 8 else add8 t 8)) NO_PIECE) \/
  (mv_kind m = PROMOTION /\
     B' = upd (upd B (N.to_nat t) NO_PIECE) (N.to_nat t) (new_piece stm (mv_promo m))) \/
  (mv_kind m = NORMAL /\ B' = B).

Lemma mv_kind_cases m : mv_kind m = NORMAL \/ mv_kind m = PROMOTION \/ mv_kind m = EN_PASSANT \/ mv_kind m = CASTLING.
Proof.
  unfold mv_kind, NORMAL, PROMOTION, EN_PASSANT, CASTLING.
  assert (N.land (N.shiftr m 12) 3 < 4). { change 3 with (N.ones 2). rewrite N.land_ones. apply N.mod_lt. discriminate. }
  lia.
Qed.

Lemma st_kind_fields stm p m q : st_kind K stm p m = Ok q ->
  kind_board stm m (board p) (board q) /\ side q = side p /\ castling q = castling p /\ ep q = ep p /\
  hmc q = hmc p /\ ply q = ply p.
Proof.
  intros S. unfold st_kind in S. unfold kind_board. cbv zeta.
  destruct (mv_kind m =? CASTLING) eqn:Ek.
  { apply N.eqb_eq in Ek.
    assert (CM : forall rs rd,
              (r <- move_piece K p rs rd ;; Ok (fst r)) = Ok q ->
              (exists rook, nth_error (board p) (N.to_nat rs) = Some rook /\ rook <> NO_PIECE /\
                 board q = upd (upd (board p) (N.to_nat rs) NO_PIECE) (N.to_nat rd) rook) /\
              side q = side p /\ castling q = castling p /\ ep q = ep p /\ hmc q = hmc p /\ ply q = ply p).
    { intros rs rd S'. bind_inv S'. destruct a as [q' pc]. injection S' as <-. cbn [fst].
      apply move_piece_fields in E. destruct E as (Hf & Hpc & _ & Hb & Hs & Hc & He & Hh & Hp).
      split; [exists pc; auto|auto]. }
    destruct (mv_dst m =? C1) eqn:E1.
    { apply N.eqb_eq in E1. destruct (CM _ _ S) as (X & Y).
      split; [left; split; [exact Ek|split; [tauto|]]|exact Y]. rewrite E1. exact X. }
    destruct (mv_dst m =? G1) eqn:E2.
    { apply N.eqb_eq in E2. destruct (CM _ _ S) as (X & Y).
      split; [left; split; [exact Ek|split; [tauto|]]|exact Y]. rewrite E2. exact X. }
    destruct (mv_dst m =? C8) eqn:E3.
    { apply N.eqb_eq in E3. destruct (CM _ _ S) as (X & Y).
      split; [left; split; [exact Ek|split; [tauto|]]|exact Y]. rewrite E3. exact X. }
    destruct (mv_dst m =? G8) eqn:E4; [|discriminate].
    { apply N.eqb_eq in E4. destruct (CM _ _ S) as (X & Y).
      split; [left; split; [exact Ek|split; [tauto|]]|exact Y]. rewrite E4. exact X. } }
  destruct (mv_kind m =? EN_PASSANT) eqn:Ee.
  { apply N.eqb_eq in Ee. bind_inv S. destruct a as [q' pc]. injection S as <-. cbn [fst].
    apply delete_piece_spec in E. destruct E as (k & _ & _ & _ & Hb & _ & Hs & Hc & He & Hh & Hp).
    split; [right; left; auto|auto]. }
  destruct (mv_kind m =? PROMOTION) eqn:Ep.
  { apply N.eqb_eq in Ep. bind_inv S. destruct a as [q' pc]. cbn [fst] in S.
    apply delete_piece_spec in E. destruct E as (k & _ & _ & _ & Hb & _ & Hs & Hc & He & Hh & Hp).
    apply set_piece_spec in S. destruct S as (k' & _ & _ & _ & Hb' & _ & Hs' & Hc' & He' & Hh' & Hp').
    rewrite Hb', Hb, Hs', Hc', He', Hh', Hp'. split; [right; right; left; auto|auto]. }
  injection S as <-. apply N.eqb_neq in Ek, Ee, Ep.
  split; [right; right; right|auto]. split; auto. destruct (mv_kind_cases m) as [?|[?|[?|?]]]; congruence.
Qed.

(* MakeMove, field by field *)
Theorem make_move_fields p m q : len64 p -> make_move K p m = Ok q ->
  let s := mv_src m in let t := mv_dst m in
  exists piece,
    nth_error (board p) (N.to_nat s) = Some piece /\ piece <> NO_PIECE /\ s <> t /\
    kind_board (side p) m
      (upd (upd (upd (board p) (N.to_nat t) NO_PIECE) (N.to_nat s) NO_PIECE) (N.to_nat t) piece) (board q) /\
    side q = switch_color (side p) /\
    castling q = revoked (revoked (castling p) (lost_rights s)) (lost_rights t) /\
    ep q = (if (piece_type piece =? PAWN) && (abs_diff s t =? 16)
            then (if side p =? BLACK then add8 t 8 else sub8 t 8) else SQ_NONE) /\
    hmc q = (if (piece_type piece =? PAWN) || negb (piece_at p t =? NO_PIECE) then 0 else add8 (hmc p) 1) /\
    ply q = add8 (ply p) 1.
Proof.
  intros L M. cbv zeta. rewrite make_move_stages in M.
  pose proof (mv_src_lt m) as Hsrc. pose proof (mv_dst_lt m) as Hdst.
  set (src := mv_src m) in *. set (dst := mv_dst m) in *.
  bind_inv M. rename a into p1. destruct (st_ep_fields _ _ E) as (B1 & S1 & C1 & E1 & H1 & P1).
  bind_inv M. rename a into target. bind_inv M. destruct a as [p2 reset].
  destruct (st_cap_fields _ _ _ _ _ E0 E2) as (B2 & S2 & C2 & E2' & H2 & P2 & R2).
  bind_inv M. rename a into p3. destruct (revoke_fields _ _ _ _ E3) as (B3 & S3 & E3' & H3 & P3 & C3).
  bind_inv M. rename a into p4. destruct (revoke_fields _ _ _ _ E4) as (B4 & S4 & E4' & H4 & P4 & C4).
  bind_inv M. destruct a as [p5 piece].
  destruct (move_piece_fields _ _ _ _ _ E5) as (F5 & Hpc & _ & B5 & S5 & C5 & E5' & H5 & P5).
  assert (Hne : N.to_nat src <> N.to_nat dst).
  { intros e. rewrite e, B4, B3, B2, nth_error_upd_same in F5 by (rewrite B1, L; lia). congruence. }
  assert (F0 : nth_error (board p) (N.to_nat src) = Some piece).
  { rewrite B4, B3, B2, B1 in F5. now rewrite nth_error_upd_other in F5 by auto. }
  bind_inv M. destruct a as [p6 reset'].
  destruct (st_pawn_fields _ _ _ _ _ _ _ _ E6) as (B6 & S6 & C6 & H6 & P6 & E6' & R6).
  bind_inv M. rename a into p7. injection M as <-.
  destruct (st_kind_fields _ _ _ _ E7) as (KB & S7 & C7 & E7' & H7 & P7).
  assert (T0 : piece_at p dst = target).
  { unfold get_piece in E0. apply ZobristProofs.nth_res_ok in E0. rewrite B1 in E0. now apply nth_error_piece_at. }
  exists piece. split; [exact F0|]. split; [exact Hpc|]. split; [intros e; apply Hne; now rewrite e|].
  split. { rewrite B6, B5, B4, B3, B2, B1 in KB. exact KB. }
  cbn [st_fin gen_helpers set_helpers set_counters toggle set_hash set_side board side castling ep hmc ply].
  split; [reflexivity|]. split; [congruence|].
  split. { rewrite E7', E6', E5', E4', E3', E2', E1. reflexivity. }
  split; [|congruence].
  rewrite R6, R2, T0, H7, H6, H5, H4, H3, H2, H1. reflexivity.
Qed.

End Fields.
