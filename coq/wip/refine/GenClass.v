(* C02, part 2: what every GENERATED (pseudo-legal) move of a position satisfying the C10 invariant
   looks like, in the vocabulary the FIDE specification uses to decide which case of [apply] fires:
   the piece on the origin square, the move kind, file/rank differences, emptiness of the target. *)
From Coq Require Import NArith ZArith List Bool Lia ZifyBool ZifyN ZifyNat.
From Clemens Require Import Base.Res Base.Word Pos.Types Att.Attacks Att.Geometry Att.ShiftsProofs Att.SlidingProofs
  Att.LeaperInst Att.AttackersProofs Pos.Position Pos.Inv Pos.ZobristProofs Pos.CapturesProofs Rules.Fide Rules.Abs.
From WipRefine Require Import RefineBase.
Import ListNotations.
Open Scope N_scope.

Ltac Zify.zify_post_hook ::= Z.to_euclidean_division_equations.

Lemma sq_file_fZ s : sq_file s = fZ s.
Proof. now rewrite fZ_spec. Qed.
Lemma sq_rank_rZ s : sq_rank s = rZ s.
Proof. now rewrite rZ_spec. Qed.

(* the classification *)
Definition class_piece (p : position) (m : N) : Prop :=
  exists T, 1 <= T < 6 /\ piece_at p (mv_src m) = new_piece (side p) T /\ mv_kind m = NORMAL /\
    (T = KING -> (Z.abs (fZ (mv_dst m) - fZ (mv_src m)) <= 1)%Z).

Definition class_pawn (p : position) (m : N) : Prop :=
  let s := mv_src m in let t := mv_dst m in
  piece_at p s = new_piece (side p) PAWN /\
  (mv_kind m = NORMAL \/ (mv_kind m = PROMOTION /\ In (mv_promo m) promo_types)) /\
  ((fZ t = fZ s /\ piece_at p t = NO_PIECE /\
      (rZ t = rZ s + pawn_dir (side p) \/ rZ t = rZ s + 2 * pawn_dir (side p))%Z) \/
   (Z.abs (fZ t - fZ s) = 1%Z /\ rZ t = (rZ s + pawn_dir (side p))%Z /\ piece_at p t <> NO_PIECE)).

Definition class_ep (p : position) (m : N) : Prop :=
  let s := mv_src m in let t := mv_dst m in
  piece_at p s = new_piece (side p) PAWN /\ mv_kind m = EN_PASSANT /\
  Z.abs (fZ t - fZ s) = 1%Z /\ rZ t = (rZ s + pawn_dir (side p))%Z /\ piece_at p t = NO_PIECE.

Definition class_castle (p : position) (m : N) : Prop :=
  let s := mv_src m in let t := mv_dst m in
  mv_kind m = CASTLING /\
  ((side p = WHITE /\ s = E1 /\ piece_at p E1 = 6 /\
      ((t = G1 /\ piece_at p H1 = 4) \/ (t = C1 /\ piece_at p A1 = 4))) \/
   (side p = BLACK /\ s = E8 /\ piece_at p E8 = 14 /\
      ((t = G8 /\ piece_at p H8 = 12) \/ (t = C8 /\ piece_at p A8 = 12)))).

Definition gen_class (p : position) (m : N) : Prop :=
  class_piece p m \/ class_pawn p m \/ class_ep p m \/ class_castle p m.

(* ------------------------------------------------------------------------------------------ *)
(* piece moves                                                                                  *)

Lemma king_attacks_file s t : s < 64 -> N.testbit (king_attacks s) t = true ->
  (Z.abs (fZ t - fZ s) <= 1)%Z.
Proof.
  intros Hs T. rewrite (king_attacks_exact s Hs) in T. unfold geo_king in T.
  apply andb_true_iff in T. destruct T as [_ T]. cbv zeta in T. rewrite !sq_file_fZ in T.
  apply Z.eqb_eq in T. lia.
Qed.

Lemma helper_class p T X occ own att m :
  bbs_agree p = true -> get_bb p (side p) T = Ok X -> 1 <= T ->
  (T = KING -> forall s t, s < 64 -> N.testbit (att s occ) t = true -> (Z.abs (fZ t - fZ s) <= 1)%Z) ->
  In m (gen_helper X occ (not64 own) att) -> class_piece p m.
Proof.
  intros A G HT HK Hin. apply in_gen_helper in Hin. destruct Hin as (s & t & Hs & Ht & ->).
  destruct (get_bb_agree _ _ _ _ A G) as (Hc & HT' & HX & HP).
  apply bits_testbit in Hs, Ht.
  assert (Ls : s < 64) by (eapply testbit_bound; eauto).
  assert (Lt : t < 64) by (eapply bnd_land_r; [apply bnd_not64|eauto]).
  exists T. rewrite (mv_src_mk_move s t Ls Lt), (mv_dst_mk_move s t Ls Lt), (mv_kind_mk_move s t Ls Lt).
  split; [lia|]. split; [now apply HP|]. split; [reflexivity|].
  intros e. apply (HK e s t Ls). rewrite N.land_spec in Ht. apply andb_true_iff in Ht. tauto.
Qed.

(* ------------------------------------------------------------------------------------------ *)
(* pawn moves                                                                                   *)

Lemma in_pmwp' m stm s t : In m (pawn_move_with_promotion stm s t) ->
  m = mk_move s t \/ (exists pt, In pt promo_types /\ m = mk_promo s t pt).
Proof.
  unfold pawn_move_with_promotion. intros H.
  destruct ((stm =? WHITE) && negb (rank_of t =? 7)); [destruct H as [<-|[]]; auto|].
  destruct ((stm =? BLACK) && negb (rank_of t =? 0)); [destruct H as [<-|[]]; auto|].
  apply in_map_iff in H. destruct H as (pt & <- & Hpt). right. eauto.
Qed.

Lemma in_pawn_moves' m p pawns them : In m (pawn_moves p false pawns them) ->
  exists s t, In s (bits pawns) /\
    ((In m (pawn_move_with_promotion (side p) s t) /\
        (In t (bits (pushes_by_square (side p) s (all_pieces p))) \/
         In t (bits (N.land (pawn_attacks (side p) s) them)))) \/
     (ep p <> SQ_NONE /\ m = mk_move_kind s t EN_PASSANT /\
        In t (bits (N.land (pawn_attacks (side p) s) (bit (ep p)))))).
Proof.
  unfold pawn_moves. intros H. apply in_flat_map in H. destruct H as (s & Hs & H). exists s.
  apply in_app_or in H. destruct H as [H|H].
  { apply in_flat_map in H. destruct H as (t & Ht & H). exists t. split; auto. }
  apply in_app_or in H. destruct H as [H|H].
  { apply in_flat_map in H. destruct H as (t & Ht & H). exists t. split; auto. }
  destruct (ep p =? SQ_NONE) eqn:E; cbn [negb] in H; [destruct H|]. apply N.eqb_neq in E.
  apply in_map_iff in H. destruct H as (t & <- & Ht). exists t. split; auto.
Qed.

Lemma pmwp_fields m stm s t : s < 64 -> t < 64 -> In m (pawn_move_with_promotion stm s t) ->
  mv_src m = s /\ mv_dst m = t /\
  (mv_kind m = NORMAL \/ (mv_kind m = PROMOTION /\ In (mv_promo m) promo_types)).
Proof.
  intros Ls Lt H. apply in_pmwp' in H. destruct H as [-> | (pt & Hpt & ->)].
  - rewrite (mv_src_mk_move s t Ls Lt), (mv_dst_mk_move s t Ls Lt), (mv_kind_mk_move s t Ls Lt). auto.
  - destruct (mk_promo_fields s t Ls Lt pt Hpt) as (D1 & D2 & D3 & D4). rewrite D1, D2, D3, D4. auto.
Qed.

Lemma ep_target_empty p : ep_consistent p = true -> ep p <> SQ_NONE -> piece_at p (ep p) = NO_PIECE.
Proof.
  unfold ep_consistent. cbv zeta. intros H Hne. apply N.eqb_neq in Hne. rewrite Hne in H. cbn [orb] in H.
  destruct (side p =? WHITE); rewrite !andb_true_iff, !N.eqb_eq in H; tauto.
Qed.

Lemma pawn_class p pawns them m :
  Inv p -> get_bb p (side p) PAWN = Ok pawns -> color_bb p (switch_color (side p)) = Ok them ->
  In m (pawn_moves p false pawns them) -> class_pawn p m \/ class_ep p m.
Proof.
  intros I G Gt Hin. pose proof (inv_facts p I) as F.
  destruct (inv_parts _ I) as (I1 & I2 & I3 & I4 & I5 & I6 & I7 & I8 & I9).
  destruct (scalars_ok_spec _ I8) as (Y1 & Y2 & Y3 & Y4).
  apply in_pawn_moves' in Hin. destruct Hin as (s & t & Hs & Hin).
  destruct (get_bb_agree _ _ _ _ I2 G) as (Hc & _ & HX & HP).
  apply bits_testbit in Hs. assert (Ls : s < 64) by (eapply testbit_bound; eauto).
  pose proof (HP s Ls Hs) as Ps.
  destruct Hin as [(Hm & Ht) | (He & -> & Ht)].
  - left. assert (Lt : t < 64).
    { destruct Ht as [Ht|Ht]; apply bits_testbit in Ht.
      - eapply bnd_pushes; eauto.
      - eapply bnd_land_l; [apply bnd_pawn_attacks|eauto]. }
    destruct (pmwp_fields _ _ _ _ Ls Lt Hm) as (D1 & D2 & D3).
    unfold class_pawn. cbv zeta. rewrite D1, D2. split; [exact Ps|]. split; [exact D3|].
    destruct Ht as [Ht|Ht]; apply bits_testbit in Ht.
    + left. rewrite (pushes_exact _ _ _ Ls) in Ht. unfold geo_pawn_push in Ht.
      rewrite !andb_true_iff, orb_true_iff, !andb_true_iff, negb_true_iff, !Z.eqb_eq in Ht.
      rewrite !sq_file_fZ, !sq_rank_rZ in Ht. destruct Ht as [[[_ Hf] Ho] Hr].
      split; [exact Hf|]. split; [|tauto].
      rewrite (occ_spec p I1 I2 I3 t Lt) in Ho. unfold occupied_in in Ho.
      apply negb_false_iff, N.eqb_eq in Ho. exact Ho.
    + right. rewrite N.land_spec in Ht. apply andb_true_iff in Ht. destruct Ht as [Ha Hth].
      rewrite (pawn_attacks_exact _ _ Ls) in Ha. unfold geo_pawn_attack in Ha.
      rewrite !andb_true_iff, !Z.eqb_eq in Ha. rewrite !sq_file_fZ, !sq_rank_rZ in Ha.
      split; [tauto|]. split; [tauto|].
      rewrite (color_bb_union p F _ _ (switch_lt p F) Gt) in Hth.
      apply (them_bit p F) in Hth. destruct Hth as [_ Hocc]. unfold occb in Hocc.
      apply negb_true_iff, N.eqb_neq in Hocc. exact Hocc.
  - right. apply bits_testbit in Ht. rewrite N.land_spec in Ht. apply andb_true_iff in Ht. destruct Ht as [Ha Hb].
    assert (Le : ep p < 64) by (unfold SQ_NONE in He; lia).
    rewrite (bit_spec _ _ Le) in Hb. apply N.eqb_eq in Hb. subst t.
    destruct (decode_simple _ s (ep p) Ls Le (or_intror (or_intror eq_refl))) as (D1 & D2 & _).
    unfold class_ep. cbv zeta. rewrite D1, D2, (mv_kind_ep s (ep p) Ls Le).
    rewrite (pawn_attacks_exact _ _ Ls) in Ha. unfold geo_pawn_attack in Ha.
    rewrite !andb_true_iff, !Z.eqb_eq in Ha. rewrite !sq_file_fZ, !sq_rank_rZ in Ha.
    split; [exact Ps|]. split; [reflexivity|]. split; [tauto|]. split; [tauto|].
    now apply ep_target_empty.
Qed.

(* ------------------------------------------------------------------------------------------ *)
(* castling                                                                                     *)

Definition is_castle_of' (p : position) (m : N) : Prop :=
  exists c kb s, In c [WK; WQ; BK; BQ] /\ can_castle_now p c = Ok true /\ get_bb p (side p) KING = Ok kb /\
    lsb kb = Ok s /\
    m = CapturesProofs.castle_mv s (if castling_is_queen_side c then sub8 s 2 else add8 s 2).

Lemma cm_step_ok' p l c l' : In c [WK; WQ; BK; BQ] ->
  (forall m, In m l -> is_castle_of' p m) -> cm_step p l c = Ok l' ->
  forall m, In m l' -> is_castle_of' p m.
Proof.
  unfold cm_step. intros Hc IH S.
  destruct (negb (castling_color c =? side p)); [injection S as <-; auto|].
  bind_inv S. destruct a; cbn [negb] in S; [|injection S as <-; auto].
  bind_inv S. bind_inv S. cbv zeta in S.
  injection S as <-. intros m Hin.
  apply in_app_or in Hin. destruct Hin as [Hin|Hin]; auto.
  destruct Hin as [Hm|[]]. subst m. exists c, a, a0. repeat split; auto.
Qed.

Lemma in_castling_moves' p cs m : castling_moves p = Ok cs -> In m cs -> is_castle_of' p m.
Proof.
  intros H. revert m.
  change (castling_moves p) with (fold_left (fun acc c => l <- acc ;; cm_step p l c) [WK; WQ; BK; BQ] (Ok [])) in H.
  refine (fold_bind_inv (fun l : list N => forall m, In m l -> is_castle_of' p m) _ _ _ _ _ _ H); [|intros m []].
  intros l c l' Hc. now apply cm_step_ok'.
Qed.

Lemma can_castle_now_pre p c : can_castle_now p c = Ok true ->
  N.land c (castling p) <> 0 /\ castling_color c = side p.
Proof.
  unfold can_castle_now, can_castle.
  destruct (N.land c (castling p) =? 0) eqn:E1; cbn [negb]; [discriminate|].
  destruct (castling_color c =? side p) eqn:E2; cbn [negb]; [|discriminate].
  intros _. apply N.eqb_neq in E1. apply N.eqb_eq in E2. auto.
Qed.

Lemma held_bit cs i : N.land (2 ^ i) cs <> 0 -> N.testbit cs i = true.
Proof.
  intros H. rewrite N.land_comm in H. apply N.eqb_neq in H. rewrite land_pow2_testbit in H.
  now apply negb_false_iff in H.
Qed.

Lemma castle_class p cs m : Inv p -> castling_moves p = Ok cs -> In m cs -> class_castle p m.
Proof.
  intros I H Hin. destruct (in_castling_moves' _ _ _ H Hin) as (c & kb & s & Hc & CC & G & Ls & ->).
  destruct (inv_parts _ I) as (I1 & I2 & I3 & I4 & I5 & I6 & I7 & I8 & I9).
  destruct (can_castle_now_pre _ _ CC) as (Hheld & Hcol).
  destruct (get_bb_agree _ _ _ _ I2 G) as (Hside & _ & HX & HP).
  pose proof (lsb_testbit _ _ Ls) as Ts.
  assert (Hs : s < 64) by (eapply testbit_bound; eauto).
  pose proof (HP s Hs Ts) as Pk.
  assert (Hpop : popcount (bb_at p (side p) 5) = 1).
  { unfold one_king_each in I4. apply andb_true_iff in I4. destruct I4 as [H0 H1].
    apply N.eqb_eq in H0, H1. assert (Hc' : side p = 0 \/ side p = 1) by lia. destruct Hc' as [-> | ->]; assumption. }
  destruct (AttackersProofs.king_square p (side p) I1 I2 Hside Hpop) as (ksq & Hk & Pksq & Uniq).
  unfold castling_consistent in I6. rewrite !andb_true_iff, !orb_true_iff, !andb_true_iff, !negb_true_iff, !N.eqb_eq in I6.
  destruct I6 as [[[[_ R0] R1] R2] R3].
  unfold class_castle. cbv zeta.
  cbn [In] in Hc. destruct Hc as [<- | [<- | [<- | [<- | []]]]].
  - apply (held_bit _ 0) in Hheld. destruct R0 as [R0|[Ra Rb]]; [congruence|].
    change (castling_color WK) with WHITE in Hcol. rewrite <- Hcol in *.
    assert (s = E1) by (rewrite (Uniq s Hs Pk); symmetry; apply Uniq; [reflexivity|exact Ra]). subst s.
    split; [reflexivity|]. left. split; [reflexivity|]. split; [reflexivity|]. split; [exact Ra|]. left. split; [reflexivity|exact Rb].
  - apply (held_bit _ 1) in Hheld. destruct R1 as [R1|[Ra Rb]]; [congruence|].
    change (castling_color WQ) with WHITE in Hcol. rewrite <- Hcol in *.
    assert (s = E1) by (rewrite (Uniq s Hs Pk); symmetry; apply Uniq; [reflexivity|exact Ra]). subst s.
    split; [reflexivity|]. left. split; [reflexivity|]. split; [reflexivity|]. split; [exact Ra|]. right. split; [reflexivity|exact Rb].
  - apply (held_bit _ 2) in Hheld. destruct R2 as [R2|[Ra Rb]]; [congruence|].
    change (castling_color BK) with BLACK in Hcol. rewrite <- Hcol in *.
    assert (s = E8) by (rewrite (Uniq s Hs Pk); symmetry; apply Uniq; [reflexivity|exact Ra]). subst s.
    split; [reflexivity|]. right. split; [reflexivity|]. split; [reflexivity|]. split; [exact Ra|]. left. split; [reflexivity|exact Rb].
  - apply (held_bit _ 3) in Hheld. destruct R3 as [R3|[Ra Rb]]; [congruence|].
    change (castling_color BQ) with BLACK in Hcol. rewrite <- Hcol in *.
    assert (s = E8) by (rewrite (Uniq s Hs Pk); symmetry; apply Uniq; [reflexivity|exact Ra]). subst s.
    split; [reflexivity|]. right. split; [reflexivity|]. split; [reflexivity|]. split; [exact Ra|]. right. split; [reflexivity|exact Rb].
Qed.

(* ------------------------------------------------------------------------------------------ *)
(* all generated moves                                                                          *)

Theorem gen_moves_class p ms m : Inv p -> gen_moves p = Ok ms -> In m ms -> gen_class p m.
Proof.
  intros I G Hin. destruct (inv_parts _ I) as (I1 & I2 & _).
  unfold gen_moves in G.
  bind_inv G. bind_inv G. bind_inv G. bind_inv G. bind_inv G. bind_inv G. bind_inv G. bind_inv G. bind_inv G.
  inversion G; subst ms; clear G.
  repeat (apply in_app_or in Hin; destruct Hin as [Hin|Hin]);
    try (left; refine (helper_class _ _ _ _ _ _ _ I2 _ _ _ Hin); [eassumption|discriminate|discriminate]).
  - (* pawn moves *)
    right. destruct (pawn_class _ _ _ _ I E5 E0 Hin); auto.
  - (* castling *)
    right. right. right. eapply castle_class; eauto.
  - (* king steps *)
    left. refine (helper_class _ _ _ _ _ _ _ I2 _ _ _ Hin); [eassumption|discriminate|].
    intros _ s t Hs. apply king_attacks_file. exact Hs.
Qed.
