(* C02, part 3: MakeMove on a generated move computes the FIDE successor position.

     make_refines : Inv p -> gen_moves p = Ok ms -> In m ms -> make_move K p m = Ok q ->
                    hmc p < 255 -> ply p < 255 -> ply_parity p -> abs q = apply (abs p) (decode m)

   and the exact characterisation of when the equation holds ([make_refines_iff]). *)
From Coq Require Import NArith ZArith List Bool Lia ZifyBool ZifyN ZifyNat Btauto.
From Clemens Require Import Base.Res Base.Word Pos.Types Att.Attacks Att.Geometry Pos.Position Pos.Inv Pos.ZobristProofs
  Pos.CapturesProofs Rules.Fide Rules.Abs.
From WipRefine Require Import RefineBase GenClass.
Import ListNotations.
Open Scope N_scope.

Ltac Zify.zify_post_hook ::= Z.to_euclidean_division_equations.

(* the engine prints the full-move number as Ply/2 + 1: that is FIDE's number exactly when the parity
   of the ply counter matches the side to move *)
Definition ply_parity (p : position) : Prop := N.odd (ply p) = (side p =? BLACK).

(* the half-move clock restarts: pawn move or capture (en passant is a pawn move) *)
Definition is_reset (p : position) (m : N) : bool :=
  (piece_type (piece_at p (mv_src m)) =? PAWN) || negb (piece_at p (mv_dst m) =? NO_PIECE).

Lemma bstate_eq (a b : bstate) :
  b_at a = b_at b -> b_turn a = b_turn b -> b_rights a = b_rights b -> b_ep a = b_ep b ->
  b_hmc a = b_hmc b -> b_full a = b_full b -> a = b.
Proof. destruct a, b; cbn; intros; subst; reflexivity. Qed.

Lemma ptype_pawn T : T < 6 -> ptype_eqb (abs_ptype T) Pawn = (T =? 0).
Proof.
  intros HT. assert (T = 0 \/ T = 1 \/ T = 2 \/ T = 3 \/ T = 4 \/ T = 5) as [ -> | [ -> | [ -> | [ -> | [ -> | -> ]]]]] by lia;
  reflexivity.
Qed.
Lemma ptype_king T : T < 6 -> ptype_eqb (abs_ptype T) King = (T =? 5).
Proof.
  intros HT. assert (T = 0 \/ T = 1 \/ T = 2 \/ T = 3 \/ T = 4 \/ T = 5) as [ -> | [ -> | [ -> | [ -> | [ -> | -> ]]]]] by lia;
  reflexivity.
Qed.

Lemma abs_piece_np : abs_piece NO_PIECE = None.
Proof. reflexivity. Qed.

Lemma forward_dir c : c < 2 -> forward (abs_color c) = pawn_dir c.
Proof. intros Hc. assert (c = 0 \/ c = 1) as [-> | ->] by lia; reflexivity. Qed.

(* board equalities between chains of updates, by extensionality *)
Ltac board_eq L :=
  apply list_eq_nth_error; intros j;
  repeat (rewrite nth_error_upd || rewrite upd_length || rewrite map_length);
  rewrite ?L;
  repeat match goal with |- context [Nat.eqb ?a j] => destruct (Nat.eqb_spec a j) end;
  repeat match goal with |- context [Nat.ltb ?a 64] => destruct (Nat.ltb_spec a 64) end;
  try reflexivity; try congruence; try lia.

Section Core.
Variable K : zkeys.
Variables (p : position) (m : N).
Hypothesis F : facts p.
Let s := mv_src m.
Let t := mv_dst m.
Variable T : N.
Hypothesis HT : T < 6.
Hypothesis Ps : piece_at p s = new_piece (side p) T.

Let L : len64 p := F_len p F.
Let Hs : s < 64 := mv_src_lt m.
Let Ht : t < 64 := mv_dst_lt m.
Let Hside : side p < 2 := side_lt p F.

Lemma at_from :
  at_sq (abs p) (m_from (decode m)) = Some {| p_color := abs_color (side p); p_type := abs_ptype T |}.
Proof.
  cbn [decode m_from]. fold s. rewrite at_sq_abs by auto. rewrite Ps. now apply abs_piece_new.
Qed.

Lemma empty_to : empty (abs p) (m_to (decode m)) = (piece_at p t =? NO_PIECE).
Proof.
  cbn [decode m_to]. fold t. unfold empty. rewrite at_sq_abs by auto.
  pose proof (F_valid p F t Ht) as V. unfold pc_ok in V. pose proof (abs_piece_none _ V) as A.
  destruct (abs_piece (piece_at p t)) eqn:E.
  - symmetry. apply N.eqb_neq. intros e. apply A in e. discriminate.
  - symmetry. apply N.eqb_eq. now apply A.
Qed.

Lemma is_ep_abs :
  is_ep_move (abs p) (decode m) = (T =? 0) && negb (fZ t =? fZ s)%Z && (piece_at p t =? NO_PIECE).
Proof.
  unfold is_ep_move. rewrite at_from, empty_to. cbn [p_type]. rewrite ptype_pawn by auto. reflexivity.
Qed.

Lemma is_castling_abs :
  is_castling_move (abs p) (decode m) = (T =? 5) && (Z.abs (fZ t - fZ s) =? 2)%Z.
Proof.
  unfold is_castling_move. rewrite at_from. cbn [p_type]. rewrite ptype_king by auto. reflexivity.
Qed.

Lemma piece_type_src : piece_type (piece_at p s) = T.
Proof. rewrite Ps. now apply piece_type_new. Qed.

(* the common components of [apply (abs p) (decode m)]; the placement and the en-passant target are
   left as they come out of the specification *)
Lemma apply_common :
  exists bd e,
    apply (abs p) (decode m) =
    {| b_at := bd; b_turn := abs_color (switch_color (side p));
       b_rights := abs_rights (revoked (revoked (castling p) (lost_rights s)) (lost_rights t));
       b_ep := e;
       b_hmc := if is_reset p m then 0%Z else (Z.of_N (hmc p) + 1)%Z;
       b_full := if side p =? BLACK then (Z.of_N (ply p / 2 + 1) + 1)%Z else Z.of_N (ply p / 2 + 1) |} /\
    (let a := abs_sq s in let b := abs_sq t in
     let c := abs_color (side p) in
     let bd0 := map abs_piece (board p) in
     let bd1 := if is_ep_move (abs p) (decode m) then put bd0 (fst b, snd a) None else bd0 in
     let placed := match m_promo (decode m) with
                   | Some pt => {| p_color := c; p_type := pt |}
                   | None => {| p_color := c; p_type := abs_ptype T |} end in
     let bd2 := put (put bd1 a None) b (Some placed) in
     bd = if is_castling_move (abs p) (decode m) then
            if (fst b =? 6)%Z then put (put bd2 (7, snd a)%Z None) (5, snd a)%Z (Some {| p_color := c; p_type := Rook |})
            else put (put bd2 (0, snd a)%Z None) (3, snd a)%Z (Some {| p_color := c; p_type := Rook |})
          else bd2) /\
    e = (if (T =? 0) && (Z.abs (rZ t - rZ s) =? 2)%Z then Some (fZ s, (rZ s + pawn_dir (side p))%Z) else None).
Proof.
  unfold apply. rewrite at_from. cbv zeta. cbn [p_color p_type].
  eexists. eexists. split; [|split; [reflexivity|]].
  - apply bstate_eq; cbn [b_at b_turn b_rights b_ep b_hmc b_full].
    + reflexivity.
    + symmetry. now apply abs_color_opp.
    + cbn [abs decode m_from m_to b_rights]. fold s t. now rewrite <- !abs_rights_revoked by auto.
    + reflexivity.
    + unfold is_capture_move. rewrite is_ep_abs, empty_to, ptype_pawn by auto.
      unfold is_reset. fold s t. rewrite piece_type_src. cbn [abs b_hmc]. change PAWN with 0.
      destruct (T =? 0), (piece_at p t =? NO_PIECE), (fZ t =? fZ s)%Z; reflexivity.
    + cbn [abs b_full]. assert (side p = 0 \/ side p = 1) as [-> | ->] by lia; reflexivity.
  - cbn [decode m_from m_to]. fold s t. rewrite ptype_pawn, forward_dir by auto. reflexivity.
Qed.

End Core.

(* ------------------------------------------------------------------------------------------ *)
(* the en-passant target after a pawn move                                                      *)

Lemma pawn_ep_geom c s t : s < 64 -> t < 64 -> c < 2 ->
  ((fZ t = fZ s /\ (rZ t = rZ s + pawn_dir c \/ rZ t = rZ s + 2 * pawn_dir c)%Z) \/
   (Z.abs (fZ t - fZ s) = 1%Z /\ rZ t = (rZ s + pawn_dir c)%Z)) ->
  (let e := if abs_diff s t =? 16 then (if c =? BLACK then add8 t 8 else sub8 t 8) else SQ_NONE in
   if e =? SQ_NONE then None else Some (abs_sq e)) =
  (if (Z.abs (rZ t - rZ s) =? 2)%Z then Some (fZ s, (rZ s + pawn_dir c)%Z) else None).
Proof.
  intros Hs Ht Hc G. cbv zeta. unfold abs_diff, add8, sub8, SQ_NONE.
  assert (c = 0 \/ c = 1) as [-> | ->] by lia;
    [change (pawn_dir 0) with 1%Z in *; change (0 =? BLACK) with false
    |change (pawn_dir 1) with (-1)%Z in *; change (1 =? BLACK) with true]; cbv iota;
    rewrite !fZ_spec, !rZ_spec in G.
  - destruct (Z.eqb_spec (Z.abs (rZ t - rZ s)) 2) as [e|e]; rewrite !rZ_spec in e.
    + assert (Z.of_N t = Z.of_N s + 16)%Z by lia.
      replace (if s <? t then t - s else s - t) with 16 by (destruct (N.ltb_spec s t); lia). change (16 =? 16) with true. cbv iota.
      replace ((t + 256 - 8 mod 256) mod 256) with (s + 8) by lia.
      replace (s + 8 =? 64) with false by lia. f_equal.
      rewrite abs_sq_fr, !fZ_spec, !rZ_spec. f_equal; lia.
    + replace ((if s <? t then t - s else s - t) =? 16) with false by (destruct (N.ltb_spec s t); lia). reflexivity.
  - destruct (Z.eqb_spec (Z.abs (rZ t - rZ s)) 2) as [e|e]; rewrite !rZ_spec in e.
    + assert (Z.of_N s = Z.of_N t + 16)%Z by lia.
      replace (if s <? t then t - s else s - t) with 16 by (destruct (N.ltb_spec s t); lia). change (16 =? 16) with true. cbv iota.
      replace ((t + 8) mod 256) with (t + 8) by lia.
      replace (t + 8 =? 64) with false by lia. f_equal.
      rewrite abs_sq_fr, !fZ_spec, !rZ_spec. f_equal; lia.
    + replace ((if s <? t then t - s else s - t) =? 16) with false by (destruct (N.ltb_spec s t); lia). reflexivity.
Qed.

(* the en-passant victim's square *)
Lemma ep_victim_geom c s t : s < 64 -> t < 64 -> c < 2 ->
  Z.abs (fZ t - fZ s) = 1%Z -> rZ t = (rZ s + pawn_dir c)%Z ->
  let v := if c =? WHITE then sub8 t 8 else add8 t 8 in
  (fZ t, rZ s) = abs_sq v /\ v < 64 /\ v <> t /\ v <> s.
Proof.
  intros Hs Ht Hc Gf Gr. cbv zeta. unfold add8, sub8.
  assert (c = 0 \/ c = 1) as [-> | ->] by lia;
    [change (pawn_dir 0) with 1%Z in *; change (0 =? WHITE) with true
    |change (pawn_dir 1) with (-1)%Z in *; change (1 =? WHITE) with false]; cbv iota;
    rewrite abs_sq_fr; rewrite !fZ_spec, !rZ_spec in *.
  - assert (8 <= t) by lia. replace ((t + 256 - 8 mod 256) mod 256) with (t - 8) by lia.
    split; [f_equal; lia|]. split; [lia|]. split; [lia|]. intros e. subst s. lia.
  - assert (t + 8 < 64) by lia. replace ((t + 8) mod 256) with (t + 8) by lia.
    split; [f_equal; lia|]. split; [lia|]. split; [lia|]. intros e. subst s. lia.
Qed.

(* ------------------------------------------------------------------------------------------ *)
(* the core: everything but the two counters' ranges                                            *)

Definition ideal_next (p q : position) (m : N) : bstate :=
  {| b_at := b_at (abs q); b_turn := b_turn (abs q); b_rights := b_rights (abs q); b_ep := b_ep (abs q);
     b_hmc := if is_reset p m then 0%Z else (Z.of_N (hmc p) + 1)%Z;
     b_full := if side p =? BLACK then (Z.of_N (ply p / 2 + 1) + 1)%Z else Z.of_N (ply p / 2 + 1) |}.

Theorem apply_abs_class K p m q : Inv p -> gen_class p m -> make_move K p m = Ok q ->
  apply (abs p) (decode m) = ideal_next p q m /\
  hmc q = (if is_reset p m then 0 else add8 (hmc p) 1) /\ ply q = add8 (ply p) 1.
Proof.
  intros I C M. pose proof (inv_facts p I) as F. pose proof (F_len p F) as L. pose proof (side_lt p F) as Hside.
  destruct (make_move_fields K p m q L M) as (piece & F0 & Hpc & Hne & KB & Sq & Cq & Eq & Hq & Pq).
  pose proof (mv_src_lt m) as Hs. pose proof (mv_dst_lt m) as Ht.
  set (s := mv_src m) in *. set (t := mv_dst m) in *.
  pose proof (nth_error_piece_at _ _ _ F0) as Ps0.
  unfold kind_board in KB. cbv zeta in KB. fold t in KB.
  assert (Hnat : N.to_nat s <> N.to_nat t) by lia.
  assert (Lm : length (map abs_piece (board p)) = 64%nat) by (rewrite map_length; exact L).
  assert (HR : hmc q = (if is_reset p m then 0 else add8 (hmc p) 1)).
  { rewrite Hq. unfold is_reset. fold s t. now rewrite Ps0. }
  split; [|split; [exact HR|exact Pq]].
  assert (MAIN : forall T, T < 6 -> piece_at p s = new_piece (side p) T ->
    (forall bd, (let a := abs_sq s in let b := abs_sq t in
     let c := abs_color (side p) in
     let bd0 := map abs_piece (board p) in
     let bd1 := if is_ep_move (abs p) (decode m) then put bd0 (fst b, snd a) None else bd0 in
     let placed := match m_promo (decode m) with
                   | Some pt => {| p_color := c; p_type := pt |}
                   | None => {| p_color := c; p_type := abs_ptype T |} end in
     let bd2 := put (put bd1 a None) b (Some placed) in
     bd = if is_castling_move (abs p) (decode m) then
            if (fst b =? 6)%Z then put (put bd2 (7, snd a)%Z None) (5, snd a)%Z (Some {| p_color := c; p_type := Rook |})
            else put (put bd2 (0, snd a)%Z None) (3, snd a)%Z (Some {| p_color := c; p_type := Rook |})
          else bd2) -> bd = map abs_piece (board q)) ->
    (if (T =? 0) && (Z.abs (rZ t - rZ s) =? 2)%Z then Some (fZ s, (rZ s + pawn_dir (side p))%Z) else None) = b_ep (abs q) ->
    apply (abs p) (decode m) = ideal_next p q m).
  { intros T HT Ps HB HE. destruct (apply_common p m F T HT Ps) as (bd & e & EQ & Hbd & He).
    rewrite EQ. unfold ideal_next. apply bstate_eq; cbn [b_at b_turn b_rights b_ep b_hmc b_full abs]; try reflexivity.
    - apply HB. exact Hbd.
    - now rewrite Sq.
    - fold s t. now rewrite Cq.
    - rewrite He. exact HE. }
  assert (PT : forall T, T < 6 -> piece_at p s = new_piece (side p) T -> piece_type piece = T).
  { intros T HT Ps. rewrite <- Ps0, Ps. now apply piece_type_new. }
  assert (AP : forall T, T < 6 -> piece_at p s = new_piece (side p) T ->
            abs_piece piece = Some {| p_color := abs_color (side p); p_type := abs_ptype T |}).
  { intros T HT Ps. rewrite <- Ps0, Ps. now apply abs_piece_new. }
  destruct C as [C | [C | [C | C]]].
  - (* a piece other than a pawn, not castling *)
    destruct C as (T & HT & Ps & Hk & Hking). fold s t in Ps, Hking.
    assert (HT6 : T < 6) by lia.
    apply (MAIN T HT6 Ps).
    + intros bd Hbd. cbv zeta in Hbd.
      rewrite (is_ep_abs p m F T HT6 Ps), (is_castling_abs p m F T HT6 Ps) in Hbd. fold s t in Hbd.
      replace (T =? 0) with false in Hbd by lia. cbn [andb] in Hbd.
      replace ((T =? 5) && (Z.abs (fZ t - fZ s) =? 2)%Z) with false in Hbd.
      2:{ destruct (N.eqb_spec T 5) as [e|e]; [|reflexivity]. specialize (Hking e). cbn [andb]. lia. }
      cbn [decode m_promo] in Hbd. rewrite Hk in Hbd. change (NORMAL =? PROMOTION) with false in Hbd. cbv iota in Hbd.
      destruct KB as [(X & _) | [(X & _) | [(X & _) | (_ & X)]]]; try (rewrite Hk in X; discriminate).
      rewrite X, Hbd, !map_upd, !put_abs, (AP T HT6 Ps), abs_piece_np. board_eq L.
    + cbn [abs b_ep]. rewrite Eq, (PT T HT6 Ps). change PAWN with 0. replace (T =? 0) with false by lia. reflexivity.
  - (* pawn push or capture, possibly promoting *)
    destruct C as (Ps & Hk & G). fold s t in Ps, G.
    assert (HT6 : PAWN < 6) by reflexivity.
    apply (MAIN PAWN HT6 Ps).
    + intros bd Hbd. cbv zeta in Hbd.
      rewrite (is_ep_abs p m F PAWN HT6 Ps), (is_castling_abs p m F PAWN HT6 Ps) in Hbd. fold s t in Hbd.
      change (PAWN =? 5) with false in Hbd. change (PAWN =? 0) with true in Hbd. cbn [andb] in Hbd.
      replace (negb (fZ t =? fZ s)%Z && (piece_at p t =? NO_PIECE)) with false in Hbd.
      2:{ destruct G as [(G1 & G2 & _) | (G1 & _ & G3)].
          - rewrite G1, Z.eqb_refl. reflexivity.
          - apply N.eqb_neq in G3. rewrite G3. symmetry. apply andb_false_r. }
      cbn [decode m_promo] in Hbd. rewrite Hbd, !put_abs. clear Hbd.
      destruct Hk as [Hk | (Hk & Hpr)].
      * rewrite Hk. change (NORMAL =? PROMOTION) with false. cbv iota.
        destruct KB as [(X & _) | [(X & _) | [(X & _) | (_ & X)]]]; try (rewrite Hk in X; discriminate).
        rewrite X, !map_upd, (AP PAWN HT6 Ps), abs_piece_np. board_eq L.
      * rewrite Hk. change (PROMOTION =? PROMOTION) with true. cbv iota.
        destruct KB as [(X & _) | [(X & _) | [(_ & X) | (X & _)]]]; try (rewrite Hk in X; discriminate).
        assert (Hp6 : mv_promo m < 6).
        { unfold promo_types, KNIGHT, BISHOP, ROOK, QUEEN in Hpr. cbn [In] in Hpr. lia. }
        rewrite X, !map_upd, (AP PAWN HT6 Ps), abs_piece_np, (abs_piece_new _ _ Hside Hp6). board_eq L.
    + cbn [abs b_ep]. rewrite Eq, (PT PAWN HT6 Ps). change (PAWN =? PAWN) with true. change (PAWN =? 0) with true.
      cbn [andb]. symmetry. apply (pawn_ep_geom (side p) s t Hs Ht Hside). tauto.
  - (* en passant *)
    destruct C as (Ps & Hk & Gf & Gr & Ge). fold s t in Ps, Gf, Gr, Ge.
    assert (HT6 : PAWN < 6) by reflexivity.
    destruct (ep_victim_geom (side p) s t Hs Ht Hside Gf Gr) as (V1 & V2 & V3 & V4).
    apply (MAIN PAWN HT6 Ps).
    + intros bd Hbd. cbv zeta in Hbd.
      rewrite (is_ep_abs p m F PAWN HT6 Ps), (is_castling_abs p m F PAWN HT6 Ps) in Hbd. fold s t in Hbd.
      change (PAWN =? 5) with false in Hbd. change (PAWN =? 0) with true in Hbd. cbn [andb] in Hbd.
      replace (negb (fZ t =? fZ s)%Z && (piece_at p t =? NO_PIECE)) with true in Hbd.
      2:{ rewrite Ge. change (NO_PIECE =? NO_PIECE) with true. symmetry. rewrite andb_true_r. apply negb_true_iff. lia. }
      cbn [decode m_promo] in Hbd. rewrite Hk in Hbd. change (EN_PASSANT =? PROMOTION) with false in Hbd. cbv iota in Hbd.
      change (fst (abs_sq t), snd (abs_sq s)) with (fZ t, rZ s) in Hbd. rewrite V1 in Hbd.
      rewrite Hbd, !put_abs. clear Hbd.
      destruct KB as [(X & _) | [(_ & X) | [(X & _) | (X & _)]]]; try (rewrite Hk in X; discriminate).
      rewrite X, !map_upd, (AP PAWN HT6 Ps), abs_piece_np.
      set (v := if side p =? WHITE then sub8 t 8 else add8 t 8) in *.
      assert (N.to_nat v <> N.to_nat t) by lia. assert (N.to_nat v <> N.to_nat s) by lia.
      board_eq L.
    + cbn [abs b_ep]. rewrite Eq, (PT PAWN HT6 Ps). change (PAWN =? PAWN) with true. change (PAWN =? 0) with true.
      cbn [andb]. symmetry. apply (pawn_ep_geom (side p) s t Hs Ht Hside). tauto.
  - (* castling *)
    destruct C as (Hk & C). fold s t in C.
    assert (HT6 : KING < 6) by reflexivity.
    assert (CAST : forall (c sv tv rs rd : N) (fb : bool),
      side p = c -> c < 2 -> s = sv -> t = tv -> sv < 64 -> tv < 64 -> rs < 64 -> rd < 64 ->
      piece_at p sv = new_piece c KING -> piece_at p rs = new_piece c ROOK ->
      rook_src tv = rs -> rook_dst tv = rd -> (Z.abs (fZ tv - fZ sv) =? 2)%Z = true -> (fZ tv =? 6)%Z = fb ->
      (if fb then (7, rZ sv)%Z else (0, rZ sv)%Z) = abs_sq rs -> (if fb then (5, rZ sv)%Z else (3, rZ sv)%Z) = abs_sq rd ->
      N.to_nat rs <> N.to_nat sv -> N.to_nat rs <> N.to_nat tv -> N.to_nat rd <> N.to_nat tv ->
      apply (abs p) (decode m) = ideal_next p q m).
    { intros c sv tv rs rd fb Ec Hc Es Et Hsv Htv Hrs Hrd Pk Pr Ers Erd Hd Hfb A7 A5 N1 N2 N3. subst c.
      assert (Ps : piece_at p s = new_piece (side p) KING) by (rewrite Es; exact Pk).
      apply (MAIN KING HT6 Ps).
      + intros bd Hbd. cbv zeta in Hbd.
        rewrite (is_ep_abs p m F KING HT6 Ps), (is_castling_abs p m F KING HT6 Ps) in Hbd. fold s t in Hbd.
        change (KING =? 5) with true in Hbd. change (KING =? 0) with false in Hbd. cbn [andb] in Hbd.
        cbn [decode m_promo] in Hbd. rewrite Hk in Hbd. change (CASTLING =? PROMOTION) with false in Hbd. cbv iota in Hbd.
        change (fst (abs_sq t)) with (fZ t) in Hbd. change (snd (abs_sq s)) with (rZ s) in Hbd. rewrite Es, Et in Hbd.
        rewrite Hd, Hfb in Hbd.
        destruct KB as [(_ & _ & (rook & Hr1 & Hr2 & X)) | [(X & _) | [(X & _) | (X & _)]]]; try (rewrite Hk in X; discriminate).
        rewrite Es, Et, Ers, Erd in *.
        assert (rook = new_piece (side p) ROOK).
        { rewrite !nth_error_upd, !upd_length, L in Hr1.
          replace (Nat.eqb (N.to_nat tv) (N.to_nat rs)) with false in Hr1 by lia.
          replace (Nat.eqb (N.to_nat sv) (N.to_nat rs)) with false in Hr1 by lia.
          apply nth_error_piece_at in Hr1. congruence. }
        subst rook. rewrite X, !map_upd, (AP KING HT6 Ps), abs_piece_np, (abs_piece_new (side p) ROOK Hc eq_refl).
        destruct fb.
        * rewrite A7, A5 in Hbd. rewrite Hbd, !put_abs. board_eq L.
        * rewrite A7, A5 in Hbd. rewrite Hbd, !put_abs. board_eq L.
      + cbn [abs b_ep]. rewrite Eq, (PT KING HT6 Ps). reflexivity. }
    destruct C as [(Ec & Es & Pk & [(Et & Pr) | (Et & Pr)]) | (Ec & Es & Pk & [(Et & Pr) | (Et & Pr)])].
    + apply (CAST WHITE E1 G1 H1 F1 true); auto; try reflexivity; try (vm_compute; lia).
    + apply (CAST WHITE E1 C1 A1 D1 false); auto; try reflexivity; try (vm_compute; lia).
    + apply (CAST BLACK E8 G8 H8 F8 true); auto; try reflexivity; try (vm_compute; lia).
    + apply (CAST BLACK E8 C8 A8 D8 false); auto; try reflexivity; try (vm_compute; lia).
Qed.

(* ------------------------------------------------------------------------------------------ *)
(* the main theorem                                                                             *)

Theorem apply_abs_gen K p ms m q :
  Inv p -> gen_moves p = Ok ms -> In m ms -> make_move K p m = Ok q ->
  apply (abs p) (decode m) = ideal_next p q m /\
  hmc q = (if is_reset p m then 0 else add8 (hmc p) 1) /\ ply q = add8 (ply p) 1.
Proof. intros I G Hin M. eapply apply_abs_class; eauto. eapply gen_moves_class; eauto. Qed.

Lemma odd_mod2 n : N.odd n = (n mod 2 =? 1).
Proof.
  rewrite <- N.bit0_odd. pose proof (N.bit0_mod n) as H. destruct (N.testbit n 0); cbn [N.b2n] in H; lia.
Qed.

Lemma ply_parity_spec p : ply_parity p <-> ((ply p mod 2 =? 1) = (side p =? BLACK)).
Proof. unfold ply_parity. now rewrite odd_mod2. Qed.

(* the counters: when the engine's bytes are the specification's unbounded counters *)
Lemma counters_exact p q m :
  hmc p < 256 -> ply p < 256 ->
  hmc q = (if is_reset p m then 0 else add8 (hmc p) 1) -> ply q = add8 (ply p) 1 ->
  (abs q = ideal_next p q m <->
   (ply p < 255 /\ ply_parity p /\ (hmc p < 255 \/ is_reset p m = true))).
Proof.
  intros Hh Hp Eh Ep. rewrite ply_parity_spec. unfold ideal_next, abs at 1. split.
  - intros E. injection E as E1 E2. rewrite Eh in E1. rewrite Ep in E2. unfold add8 in *.
    destruct (is_reset p m), (N.eqb_spec (side p) BLACK); lia.
  - intros (H1 & H2 & H3). apply bstate_eq; cbn [b_at b_turn b_rights b_ep b_hmc b_full abs]; try reflexivity.
    + rewrite Eh. unfold add8. destruct (is_reset p m); [reflexivity|]. destruct H3; [lia|discriminate].
    + rewrite Ep. unfold add8. destruct (N.eqb_spec (side p) BLACK); lia.
Qed.

(* C02. Applying a generated (pseudo-legal, hence in particular any legal) move yields exactly the
   successor position the FIDE specification computes: placement (castling rook, en-passant victim,
   promotion piece), side to move, castling rights, en-passant target, half-move clock, move number. *)
Theorem make_refines K p ms m q :
  Inv p -> gen_moves p = Ok ms -> In m ms -> make_move K p m = Ok q ->
  hmc p < 255 -> ply p < 255 -> ply_parity p ->
  abs q = apply (abs p) (decode m).
Proof.
  intros I G Hin M Hh Hp Par. destruct (apply_abs_gen K p ms m q I G Hin M) as (E & Eh & Ep).
  rewrite E. apply (counters_exact p q m); auto; lia.
Qed.

(* the exact range: the equation holds IFF the ply counter is below 255 with the right parity and
   the half-move clock is below 255 or restarts *)
Theorem make_refines_iff K p ms m q :
  Inv p -> gen_moves p = Ok ms -> In m ms -> make_move K p m = Ok q ->
  (abs q = apply (abs p) (decode m) <->
   (ply p < 255 /\ ply_parity p /\ (hmc p < 255 \/ is_reset p m = true))).
Proof.
  intros I G Hin M. destruct (apply_abs_gen K p ms m q I G Hin M) as (E & Eh & Ep).
  destruct (inv_parts _ I) as (_ & _ & _ & _ & _ & _ & _ & I8 & _).
  destruct (scalars_ok_spec _ I8) as (_ & Y2 & Y3 & _).
  rewrite E. now apply counters_exact.
Qed.

(* everything but the two counters is refined unconditionally *)
Theorem make_refines_nocount K p ms m q :
  Inv p -> gen_moves p = Ok ms -> In m ms -> make_move K p m = Ok q ->
  let r := apply (abs p) (decode m) in
  b_at (abs q) = b_at r /\ b_turn (abs q) = b_turn r /\ b_rights (abs q) = b_rights r /\ b_ep (abs q) = b_ep r.
Proof.
  intros I G Hin M. destruct (apply_abs_gen K p ms m q I G Hin M) as (E & _). cbv zeta. rewrite E.
  repeat split; reflexivity.
Qed.

(* at the boundary the engine's byte wraps: a quiet move at half-move clock 255 gives clock 0 in the
   engine and 256 in the specification; a move at ply 255 gives ply 0, i.e. move number 1 *)
Theorem make_refines_hmc_wrap K p ms m q :
  Inv p -> gen_moves p = Ok ms -> In m ms -> make_move K p m = Ok q ->
  hmc p = 255 -> is_reset p m = false ->
  b_hmc (abs q) = 0%Z /\ b_hmc (apply (abs p) (decode m)) = 256%Z.
Proof.
  intros I G Hin M Hh Hr. destruct (apply_abs_gen K p ms m q I G Hin M) as (E & Eh & Ep).
  rewrite E. unfold ideal_next. cbn [b_hmc abs]. rewrite Eh, Hr, Hh. split; reflexivity.
Qed.

Theorem make_refines_ply_wrap K p ms m q :
  Inv p -> gen_moves p = Ok ms -> In m ms -> make_move K p m = Ok q ->
  ply p = 255 ->
  b_full (abs q) = 1%Z /\ (128 <= b_full (apply (abs p) (decode m)))%Z.
Proof.
  intros I G Hin M Hp. destruct (apply_abs_gen K p ms m q I G Hin M) as (E & Eh & Ep).
  rewrite E. unfold ideal_next. cbn [b_full abs]. rewrite Ep, Hp. split; [reflexivity|].
  destruct (side p =? BLACK); cbn; lia.
Qed.

(* the parity hypothesis is maintained by MakeMove (for ANY move word on which MakeMove succeeds) *)
Theorem ply_parity_step_gen K p m q :
  len64 p -> make_move K p m = Ok q -> ply_parity p -> ply p < 255 -> ply_parity q.
Proof.
  intros L M Par Hp. destruct (make_move_fields K p m q L M) as (piece & _ & _ & _ & _ & Sq & _ & _ & _ & Pq).
  apply ply_parity_spec in Par. apply ply_parity_spec. rewrite Sq, Pq. unfold add8, switch_color.
  destruct (N.eqb_spec (side p) BLACK); cbn; lia.
Qed.

Theorem ply_parity_step K p m q :
  Inv p -> make_move K p m = Ok q -> ply_parity p -> ply p < 255 -> ply_parity q.
Proof.
  intros I. destruct (inv_parts _ I) as (I1 & _). apply ply_parity_step_gen. now apply board_wf_len.
Qed.

(* the counters of the successor *)
Theorem counters_step K p ms m q :
  Inv p -> gen_moves p = Ok ms -> In m ms -> make_move K p m = Ok q ->
  ply p < 255 -> ply q = ply p + 1 /\ hmc q <= hmc p + 1.
Proof.
  intros I G Hin M Hp. destruct (apply_abs_gen K p ms m q I G Hin M) as (_ & Eh & Ep).
  rewrite Eh, Ep. unfold add8. destruct (is_reset p m); lia.
Qed.
