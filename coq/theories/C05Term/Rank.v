(* C05, termination of a root search, part 3: the two instances of the generic theorem of NoFuel.v
   and the lift to [search_root], [search_iterative], [search].

   Instance 1 (UNCONDITIONAL).  Every node that is not handed to quiescence pushes the position
   on the repetition stack, and [push_history] panics when the stack is full (Go: the index
   [searchHistory[searchHistoryPly]] of a [1024]uint64 goes out of range).  So the measure
   "free slots of the repetition stack" decreases along every recursive call, whatever the
   positions: fuel  (sc_hist_size - length (s_hist s)) + 258  always suffices.  The model never
   needs more recursion than that: it TERMINATES for every state, position, depth and window - if
   necessary with [RPanic] (which is what an unbounded chain of check extensions ends in).

   Instance 2 (RANKING).  Under a budget [cb] on positions that strictly decreases with every
   move made from a position in check and never increases, the recursion depth is bounded by
   depth + cb p + 258, independently of the size of the repetition stack. *)
From Coq Require Import NArith ZArith List Bool FMapPositive Lia ZifyBool ZifyN ZifyNat.
From Clemens Require Import Base.Res Base.Word Pos.Types Att.Attacks Pos.Position Eval.Eval
     Search.TT Search.Ordering Search.Negamax Search.SearchStruct Search.SearchLines Search.SearchIter.
From Clemens.C13Mate Require Import MateDefs.
From Clemens.C05Term Require Import Mono NoFuel.
Import ListNotations.
Open Scope Z_scope.

Ltac Zify.zify_post_hook ::= Z.to_euclidean_division_equations.

Section Term.
Variable K : zkeys.
Variable EC : econsts.
Variable OC : oconsts.
Variable SC : sconsts.
Hypothesis HQ : (sc_q_max_depth SC < 256)%N.

(* ------------------------------------------------------------------ the loops, given the root searches *)
Lemma iter_hist : forall iters fuel rep s root md d a b r s',
  search_iterative K EC OC SC iters fuel rep s root md d a b = (r, s') -> s_hist s' = s_hist s.
Proof.
  induction iters as [|it IH]; intros fuel rep s root md d a b r s' H; cbn [search_iterative] in H.
  - inversion H; reflexivity.
  - destruct (md <? d)%N; [inversion H; reflexivity|].
    destruct (search_root K EC OC SC fuel s root d a b) as [[[score line]| | |] s0] eqn:Hsr;
      pose proof (search_root_frame K EC OC SC _ _ _ _ _ _ _ _ Hsr) as [Hh _ _ _ _];
      try (inversion H; subst; exact Hh).
    match type of H with (if ?c then _ else _) = _ => destruct c end;
      apply IH in H; rewrite H; projs; exact Hh.
Qed.

(* the repaired loop with [2 * (md + 1 - d) + 2] iterations, given that no root search on a state with
   repetition stack [h] and depth at most [md] hits the recursion bound *)
Lemma iter_T : forall fuel root md h, (md < 255)%N ->
  (forall s d a b, s_hist s = h -> (d <= md)%N -> okT (search_root K EC OC SC fuel s root d a b)) ->
  forall iters s d a b, s_hist s = h -> (d <= md + 1)%N ->
  (2 * (N.to_nat md + 1 - N.to_nat d) + 1 <= iters \/
   (full_window EC a b = true /\ (d <= md)%N /\ 2 * (N.to_nat md + 1 - N.to_nat d) <= iters))%nat ->
  okT (search_iterative K EC OC SC iters fuel true s root md d a b).
Proof.
  intros fuel root md h Hmd Hroot. induction iters as [|it IH]; intros s d a b Hs Hd Hit.
  - exfalso. destruct Hit as [Hit|(_ & Hle & Hit)]; lia.
  - cbn [search_iterative].
    destruct (md <? d)%N eqn:Hlt; [leafT|]. apply N.ltb_ge in Hlt.
    pose proof (Hroot s d a b Hs Hlt) as Hr.
    destruct (search_root K EC OC SC fuel s root d a b) as [[[score line]| | |] s0] eqn:Hsr;
      unfold okT in Hr; cbn [fst] in Hr; try contradiction; try leafT.
    pose proof (search_root_frame K EC OC SC _ _ _ _ _ _ _ _ Hsr) as [Hh _ _ _ _].
    match goal with |- okT (if ?c then _ else _) => destruct c eqn:Hc end.
    + apply andb_true_iff in Hc. destruct Hc as [_ Hc]. cbn [negb orb] in Hc.
      apply negb_true_iff in Hc.
      apply IH; [projs; congruence|exact Hd|].
      right. split; [unfold full_window; rewrite !Z.eqb_refl; reflexivity|]. split; [exact Hlt|].
      destruct Hit as [Hit|(Hf & _)]; [lia|]. unfold full_window in Hf. congruence.
    + assert (Hw : w8 (d + 1) = (d + 1)%N) by (unfold w8; apply N.mod_small; lia).
      rewrite Hw. apply IH; [projs; congruence|lia|].
      left. destruct Hit as [Hit|(_ & _ & Hit)]; lia.
Qed.

Definition iters_enough (md : N) (iters : nat) : Prop := (2 * N.to_nat md + 2 <= iters)%nat /\ (4 <= iters)%nat.

Lemma search_T : forall fuel root req h, (req_to_depth SC req < 255)%N ->
  (forall s d a b, s_hist s = h -> (d <= N.max 1 (req_to_depth SC req))%N ->
     okT (search_root K EC OC SC fuel s root d a b)) ->
  forall iters s, s_hist s = h -> iters_enough (req_to_depth SC req) iters ->
  okT (search K EC OC SC iters fuel true s root req).
Proof.
  intros fuel root req h Hreq Hroot iters s Hs [Hi1 Hi2]. unfold search. fold (req_to_depth SC req). cbv zeta.
  assert (H1 : okT (search_iterative K EC OC SC iters fuel true s root (req_to_depth SC req) 1 (- INF EC) (INF EC))).
  { apply (iter_T fuel root (req_to_depth SC req) h Hreq); [intros; apply Hroot; [assumption|lia]|exact Hs|lia|].
    left. lia. }
  destruct (search_iterative K EC OC SC iters fuel true s root (req_to_depth SC req) 1 (- INF EC) (INF EC))
    as [[[]| | |] s1] eqn:E1; unfold okT in H1; cbn [fst] in H1; try contradiction; try leafT.
  apply iter_hist in E1.
  destruct (best_move s1 =? NULL_MOVE)%N; [|leafT].
  assert (H2 : okT (search_iterative K EC OC SC iters fuel true (set_cancel s1 None) root 1 1 (- INF EC) (INF EC))).
  { apply (iter_T fuel root 1%N h); [lia|intros; apply Hroot; [assumption|lia]|projs; congruence|lia|].
    left. cbn. lia. }
  destruct (search_iterative K EC OC SC iters fuel true (set_cancel s1 None) root 1 1 (- INF EC) (INF EC))
    as [[[]| | |] s2]; unfold okT in H2; cbn [fst] in H2; try contradiction; leafT.
Qed.

(* ------------------------------------------------------------------ instance 1: unconditional *)
(* free slots of the repetition stack *)
Definition hist_room (s : sst) : nat := N.to_nat (sc_hist_size SC) - length (s_hist s).

Theorem negamax_terminates : forall f s p alpha beta depth ply cn pm rh,
  (hist_room s + 258 <= f)%nat ->
  okT (negamax K EC OC SC f s p alpha beta depth ply cn pm rh).
Proof.
  intros f s p alpha beta depth ply cn pm rh Hf.
  apply (negamax_T K EC OC SC (fun _ _ _ => True) (fun h _ _ => (N.to_nat (sc_hist_size SC) - length h)%nat)).
  - intros h p0 d ic m q _ _ _ Hl _ _ _. split; [exact I|]. cbn [length]. lia.
  - intros h p0 d q x _ _ _ Hl _. cbv zeta. split; [exact I|]. cbn [length]. lia.
  - exact HQ.
  - exact I.
  - exact Hf.
Qed.

Theorem search_root_terminates : forall f s root depth alpha beta,
  (hist_room s + 258 <= f)%nat -> okT (search_root K EC OC SC f s root depth alpha beta).
Proof. intros. unfold search_root. apply negamax_terminates. unfold hist_room in *. projs. assumption. Qed.

Theorem search_iterative_terminates : forall iters f s root md d a b,
  (md < 255)%N -> (d <= md + 1)%N -> (2 * (N.to_nat md + 1 - N.to_nat d) + 2 <= iters)%nat ->
  (hist_room s + 258 <= f)%nat ->
  okT (search_iterative K EC OC SC iters f true s root md d a b).
Proof.
  intros iters f s root md d a b Hmd Hd Hit Hf.
  apply (iter_T f root md (s_hist s) Hmd); [|reflexivity|exact Hd|left; lia].
  intros s1 d1 a1 b1 Hs1 _. apply search_root_terminates. unfold hist_room in *. rewrite Hs1. exact Hf.
Qed.

Theorem search_terminates : forall iters f s root req,
  (req_to_depth SC req < 255)%N -> iters_enough (req_to_depth SC req) iters ->
  (hist_room s + 258 <= f)%nat ->
  okT (search K EC OC SC iters f true s root req).
Proof.
  intros iters f s root req Hreq Hit Hf.
  apply (search_T f root req (s_hist s) Hreq); [|reflexivity|exact Hit].
  intros s1 d1 a1 b1 Hs1 _. apply search_root_terminates. unfold hist_room in *. rewrite Hs1. exact Hf.
Qed.

(* ------------------------------------------------------------------ instance 2: a ranking for the check extension *)
Section Ranking.
(* the positions the search may visit, closed under the moves it makes (as in C13_universe / [visited]) *)
Variable U : position -> Prop.
(* the check budget: an upper bound on the number of moves made from positions in check on any line
   of play from the position *)
Variable cb : position -> nat.
Hypothesis cb_move : forall p m q, U p -> movable p m -> make_move K p m = Ok q -> is_legal q = Ok true ->
  U q /\ (cb q <= cb p)%nat /\ (is_in_check p (side p) = Ok true -> (cb q < cb p)%nat).
Hypothesis cb_null : forall p q x, U p -> is_in_check p (side p) = Ok false -> make_null_move K p = Ok (q, x) ->
  U q /\ (cb q <= cb p)%nat.

Lemma w8_pred : forall d, d <> 0%N -> (w8 (d + 256 - 1) < d)%N.
Proof.
  intros d Hd. unfold w8.
  lia.
Qed.
Lemma w8_ext : forall d, w8 (d + 1) <> 0%N -> (w8 (w8 (d + 1) + 256 - 1) <= d)%N.
Proof.
  intros d Hd. unfold w8 in *.
  pose proof (N.mod_upper_bound (d + 1) 256 ltac:(discriminate)) as H1.
  pose proof (N.mod_le (d + 1) 256 ltac:(discriminate)) as H2.
  set (r := ((d + 1) mod 256)%N) in *.
  replace (r + 256 - 1)%N with ((r - 1) + 1 * 256)%N by lia.
  rewrite N.mod_add by discriminate. rewrite N.mod_small by lia. lia.
Qed.
Lemma w8_null : forall d (R : N), (2 < d)%N -> (R = 2 \/ (R = 3 /\ 6 < d))%N -> (w8 (d + 256 - R - 1) < d)%N.
Proof. intros d R Hd HR. unfold w8. lia. Qed.

Theorem negamax_ranked : forall f s p alpha beta depth ply cn pm rh,
  U p -> (N.to_nat depth + cb p + 258 <= f)%nat ->
  okT (negamax K EC OC SC f s p alpha beta depth ply cn pm rh).
Proof.
  intros f s p alpha beta depth ply cn pm rh Hu Hf.
  apply (negamax_T K EC OC SC (fun _ p _ => U p) (fun _ p d => (N.to_nat d + cb p)%nat)).
  - intros h p0 d ic m q Hu0 Hic Hd _ Hmv Hmk Hl.
    destruct (cb_move p0 m q Hu0 Hmv Hmk Hl) as (Uq & Hle & Hlt). split; [exact Uq|].
    unfold ext_depth in *. destruct ic.
    + specialize (Hlt Hic). pose proof (w8_ext d Hd). lia.
    + pose proof (w8_pred d Hd). lia.
  - intros h p0 d q x Hu0 Hic Hd _ Hn. cbv zeta.
    destruct (cb_null p0 q x Hu0 Hic Hn) as (Uq & Hle). split; [exact Uq|].
    pose proof (w8_null d (if (6 <? d)%N then 3 else 2)%N Hd ltac:(destruct (6 <? d)%N eqn:E6; [right; split; [reflexivity|apply N.ltb_lt; exact E6]|left; reflexivity])). lia.
  - exact HQ.
  - exact Hu.
  - exact Hf.
Qed.

Theorem search_root_ranked : forall f s root depth alpha beta,
  U root -> (N.to_nat depth + cb root + 258 <= f)%nat ->
  okT (search_root K EC OC SC f s root depth alpha beta).
Proof. intros. unfold search_root. apply negamax_ranked; assumption. Qed.

Theorem search_ranked : forall iters f s root req,
  U root -> (req_to_depth SC req < 255)%N -> iters_enough (req_to_depth SC req) iters ->
  (N.to_nat (N.max 1 (req_to_depth SC req)) + cb root + 258 <= f)%nat ->
  okT (search K EC OC SC iters f true s root req).
Proof.
  intros iters f s root req Hu Hreq Hit Hf.
  apply (search_T f root req (s_hist s) Hreq); [|reflexivity|exact Hit].
  intros s1 d1 a1 b1 _ Hd. apply search_root_ranked; [exact Hu|lia].
Qed.
End Ranking.

End Term.

Print Assumptions negamax_terminates.
Print Assumptions search_terminates.
Print Assumptions negamax_ranked.
Print Assumptions search_ranked.
