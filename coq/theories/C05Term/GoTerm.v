(* C05, termination of a root search, with the constants of the Go build:
   - [go_search_terminates]: 510 loop iterations and recursion bound 1282 are enough for every state,
     every root, every requested depth < 255: the result is never [ROutOfFuel];
   - [go_search_total]: so Search is a total function of (state, root, requested depth): one result
     (value and final state) is returned for every sufficient pair of bounds;
   - [go_ranking_example]: the hypotheses of the ranked theorem are satisfiable. *)
From Coq Require Import NArith ZArith List Bool FMapPositive Lia ZifyBool ZifyN ZifyNat String.
From Clemens Require Import Base.Res Base.Word Pos.Types Att.Attacks Pos.Position Pos.Inv Eval.Eval
     Search.TT Search.Ordering Search.Negamax Search.SearchStruct Search.SearchLines Search.SearchIter
     Search.GoInst Search.SearchGo.
From Clemens.C13Mate Require Import MateDefs MateExamples.
From Clemens.C13Bridge Require Import Bridge.
From Clemens.C05Term Require Import Mono NoFuel Rank QMen.
Import ListNotations.
Open Scope Z_scope.

Lemma go_qmax : (sc_q_max_depth go_sconsts < 256)%N.
Proof. vm_compute. reflexivity. Qed.

Lemma go_hist_room : forall s, (hist_room go_sconsts s <= 1024)%nat.
Proof.
  intro s. unfold hist_room. change (sc_hist_size go_sconsts) with 1024%N. lia.
Qed.

(* ------------------------------------------------------------------ every call terminates *)
Theorem go_quiescence_terminates : forall f s p alpha beta ply,
  (257 <= f)%nat -> fst (go_quiescence f s p alpha beta ply) <> ROutOfFuel.
Proof. intros. apply (quiescence_enough go_keys go_econsts go_oconsts go_sconsts go_qmax). assumption. Qed.

(* by material: under C10's invariant one unit of fuel per man (plus one) is enough *)
Theorem go_quiescence_terminates_men : forall f s p alpha beta ply,
  Inv p -> (Nat.min (men p) 256 < f)%nat -> fst (go_quiescence f s p alpha beta ply) <> ROutOfFuel.
Proof.
  intros. apply (quiescence_men_or_ply go_keys go_econsts go_oconsts go_sconsts); try assumption. exact go_qmax.
Qed.

Theorem go_negamax_terminates : forall f s p alpha beta depth ply cn pm rh,
  (1282 <= f)%nat -> fst (go_negamax f s p alpha beta depth ply cn pm rh) <> ROutOfFuel.
Proof.
  intros. apply (negamax_terminates go_keys go_econsts go_oconsts go_sconsts go_qmax).
  pose proof (go_hist_room s). lia.
Qed.

(* with the exact size of the repetition stack *)
Theorem go_negamax_terminates_room : forall f s p alpha beta depth ply cn pm rh,
  (1024 - List.length (s_hist s) + 258 <= f)%nat ->
  fst (go_negamax f s p alpha beta depth ply cn pm rh) <> ROutOfFuel.
Proof.
  intros. apply (negamax_terminates go_keys go_econsts go_oconsts go_sconsts go_qmax).
  unfold hist_room. change (sc_hist_size go_sconsts) with 1024%N. lia.
Qed.

Theorem go_search_root_terminates : forall f s root depth alpha beta,
  (1282 <= f)%nat -> fst (go_search_root f s root depth alpha beta) <> ROutOfFuel.
Proof.
  intros. apply (search_root_terminates go_keys go_econsts go_oconsts go_sconsts go_qmax).
  pose proof (go_hist_room s). lia.
Qed.

Theorem go_search_iterative_terminates : forall iters f s root md d a b,
  (md < 255)%N -> (d <= md + 1)%N -> (2 * (N.to_nat md + 1 - N.to_nat d) + 2 <= iters)%nat -> (1282 <= f)%nat ->
  fst (go_search_iterative iters f true s root md d a b) <> ROutOfFuel.
Proof.
  intros. apply (search_iterative_terminates go_keys go_econsts go_oconsts go_sconsts go_qmax); try assumption.
  pose proof (go_hist_room s). lia.
Qed.

Theorem go_search_terminates : forall iters f s root req,
  (req < 255)%N -> (510 <= iters)%nat -> (1282 <= f)%nat ->
  fst (go_search iters f true s root req) <> ROutOfFuel.
Proof.
  intros iters f s root req Hreq Hit Hf.
  apply (search_terminates go_keys go_econsts go_oconsts go_sconsts go_qmax).
  - apply go_req_depth. exact Hreq.
  - pose proof (go_req_depth req Hreq). unfold iters_enough. lia.
  - pose proof (go_hist_room s). lia.
Qed.

(* what the result can be *)
Corollary go_search_result : forall iters f s root req,
  (req < 255)%N -> (510 <= iters)%nat -> (1282 <= f)%nat ->
  (exists m, fst (go_search iters f true s root req) = ROk m) \/
  fst (go_search iters f true s root req) = RCancel \/
  fst (go_search iters f true s root req) = RPanic.
Proof.
  intros iters f s root req Hreq Hit Hf.
  pose proof (go_search_terminates iters f s root req Hreq Hit Hf) as H.
  destruct (fst (go_search iters f true s root req)); eauto. contradiction.
Qed.

(* Search as a total function: one result for all sufficient bounds *)
Lemma go_search_total_gen : forall it0 f0 s root req, (req < 255)%N -> (510 <= it0)%nat -> (1282 <= f0)%nat ->
  exists r s', r <> ROutOfFuel /\
    forall iters f, (it0 <= iters)%nat -> (f0 <= f)%nat -> go_search iters f true s root req = (r, s').
Proof.
  intros it0 f0 s root req Hreq Hi0 Hf0.
  pose proof (go_search_terminates it0 f0 s root req Hreq Hi0 Hf0) as Hr.
  destruct (go_search it0 f0 true s root req) as [r s'] eqn:E. cbn [fst] in Hr.
  exists r, s'. split; [exact Hr|].
  intros iters f Hit Hf.
  exact (search_fuel_irrelevant go_keys go_econsts go_oconsts go_sconsts it0 iters f0 f true s root req r s' E Hr Hit Hf).
Qed.

Theorem go_search_total : forall s root req, (req < 255)%N ->
  exists r s', r <> ROutOfFuel /\
    forall iters f, (510 <= iters)%nat -> (1282 <= f)%nat -> go_search iters f true s root req = (r, s').
Proof. intros s root req Hreq. exact (go_search_total_gen _ _ s root req Hreq (le_n _) (le_n _)). Qed.

(* the same for one root search *)
Lemma go_search_root_total_gen : forall f0 s root depth alpha beta, (1282 <= f0)%nat ->
  exists r s', r <> ROutOfFuel /\
    forall f, (f0 <= f)%nat -> go_search_root f s root depth alpha beta = (r, s').
Proof.
  intros f0 s root depth alpha beta Hf0.
  pose proof (go_search_root_terminates f0 s root depth alpha beta Hf0) as Hr.
  destruct (go_search_root f0 s root depth alpha beta) as [r s'] eqn:E. cbn [fst] in Hr.
  exists r, s'. split; [exact Hr|].
  intros f Hf.
  exact (search_root_fuel_irrelevant go_keys go_econsts go_oconsts go_sconsts f0 f s root depth alpha beta r s' E Hr Hf).
Qed.

Theorem go_search_root_total : forall s root depth alpha beta,
  exists r s', r <> ROutOfFuel /\
    forall f, (1282 <= f)%nat -> go_search_root f s root depth alpha beta = (r, s').
Proof. intros. exact (go_search_root_total_gen _ s root depth alpha beta (le_n _)). Qed.

(* ------------------------------------------------------------------ the ranked bound *)
Theorem go_search_ranked : forall (U : position -> Prop) (cb : position -> nat),
  (forall p m q, U p -> movable p m -> make_move go_keys p m = Ok q -> is_legal q = Ok true ->
     U q /\ (cb q <= cb p)%nat /\ (is_in_check p (side p) = Ok true -> (cb q < cb p)%nat)) ->
  (forall p q x, U p -> is_in_check p (side p) = Ok false -> make_null_move go_keys p = Ok (q, x) ->
     U q /\ (cb q <= cb p)%nat) ->
  forall iters f s root req,
  U root -> (req < 255)%N -> (510 <= iters)%nat ->
  (N.to_nat (N.max 1 (req_to_depth go_sconsts req)) + cb root + 258 <= f)%nat ->
  fst (go_search iters f true s root req) <> ROutOfFuel.
Proof.
  intros U cb Hm Hn iters f s root req Hu Hreq Hit Hf.
  apply (search_ranked go_keys go_econsts go_oconsts go_sconsts go_qmax U cb Hm Hn); try assumption.
  - apply go_req_depth. exact Hreq.
  - pose proof (go_req_depth req Hreq). unfold iters_enough. lia.
Qed.

(* Satisfiability of the ranking hypotheses (a degenerate universe: the root is checkmated, so no move
   is ever made; see REPORT for what the hypothesis means in general) *)
Definition mated_root : position := root_of fools_mate_fen.

Lemma mated_root_mated : mated go_keys mated_root.
Proof. split; vm_compute; reflexivity. Qed.

Lemma mated_root_inv : Inv mated_root.
Proof. vm_compute. reflexivity. Qed.

Lemma ranking_of_mated_root : forall root, Inv root -> mated go_keys root ->
  let U := fun p => p = root in
  let cb := fun _ : position => 0%nat in
  U root /\
  (forall p m q, U p -> movable p m -> make_move go_keys p m = Ok q -> is_legal q = Ok true ->
     U q /\ (cb q <= cb p)%nat /\ (is_in_check p (side p) = Ok true -> (cb q < cb p)%nat)) /\
  (forall p q x, U p -> is_in_check p (side p) = Ok false -> make_null_move go_keys p = Ok (q, x) ->
     U q /\ (cb q <= cb p)%nat).
Proof.
  intros root HI HM. cbv zeta. split; [reflexivity|]. split.
  - intros p m q -> Hmv Hmk Hl. exfalso.
    destruct (movable_generated go_keys root m HI Hmv) as (g & m0 & Hg & Hin & E).
    destruct (mated_all_illegal go_keys root g m0 HM Hg Hin) as (q' & E1 & E2).
    rewrite E, E1 in Hmk. injection Hmk as <-. rewrite E2 in Hl. discriminate.
  - intros p q x -> Hc. exfalso. destruct HM as [Hm _]. rewrite Hm in Hc. discriminate.
Qed.

Example go_ranking_example :
  let U := fun p => p = mated_root in
  let cb := fun _ : position => 0%nat in
  U mated_root /\
  (forall p m q, U p -> movable p m -> make_move go_keys p m = Ok q -> is_legal q = Ok true ->
     U q /\ (cb q <= cb p)%nat /\ (is_in_check p (side p) = Ok true -> (cb q < cb p)%nat)) /\
  (forall p q x, U p -> is_in_check p (side p) = Ok false -> make_null_move go_keys p = Ok (q, x) ->
     U q /\ (cb q <= cb p)%nat).
Proof. exact (ranking_of_mated_root mated_root mated_root_inv mated_root_mated). Qed.

(* ... and the run: depth-3 search of the mated root, recursion bound 3 + 0 + 258 *)
Example go_ranking_example_run :
  fst (go_search 510 261 true (go_empty_sst None) mated_root 3) = ROk NULL_MOVE.
Proof. vm_compute. reflexivity. Qed.

(* ------------------------------------------------------------------ what "terminates" can mean: a panic *)
(* The unconditional bound rests on [push_history] failing when the repetition stack (1024 entries,
   shared with the game history) is full.  With 1023 entries already on the stack (a game of 1023
   plies) a depth-2 search panics at the second push; the engine does the same
   (index out of range [1024] with length 1024 in pkg/search/history.go:6). *)
Example go_full_stack_panics :
  match go_new_position with
  | Ok root => fst (go_search 510 1282 true (go_init_sst go_tt_init [] (repeat 1%N 1023) None) root 2)
  | _ => ROutOfFuel
  end = RPanic.
Proof. vm_compute. reflexivity. Qed.

(* ------------------------------------------------------------------ check extension at work *)
(* A position with a chain of 14 consecutive mutual checks (found by a random search over 9 million
   positions, see REPORT; no cycle of mutual checks was found).  At "go depth 1" the recursion goes
   deeper than 12 levels before any quiescence node: recursion bound 12 is not enough, 16 is, and
   every larger bound gives the same answer g3h2 (as the engine does). *)
Definition chain14_fen : string := "8/R2RKN1k/8/4R3/5b2/rq4q1/3N1qqR/8 b - - 0 1".
Definition chain14_run (f : nat) : sresult N :=
  match fst (go_search 20 f true (go_empty_sst None) (root_of chain14_fen) 1) with
  | ROk m => ROk (mv_low m)
  | r => r
  end.
Example chain14_depth1 :
  chain14_run 12 = ROutOfFuel /\ chain14_run 16 = ROk 982%N /\ chain14_run 40 = ROk 982%N.
Proof. split; [|split]; vm_compute; reflexivity. Qed.

Print Assumptions go_quiescence_terminates_men.
Print Assumptions go_negamax_terminates.
Print Assumptions go_search_terminates.
Print Assumptions go_search_total.
Print Assumptions go_search_root_total.
Print Assumptions go_search_ranked.
Print Assumptions go_ranking_example.
