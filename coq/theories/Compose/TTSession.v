(* C14 lifted to whole searches, part 2: sessions of searches of the Go build.
   * [go_search_table_grows] (and the same for the other entry points): the table after a call is the table
     before it with a list of [tt_save]s applied; each stored record carries the hash of a position the search
     can visit from the root, the root's half-move clock as age, a depth above 0 and a node type <= 2.
   * [session_table_log]: the table of any session state (C13Bridge/Seq.v [session]) is the empty table with
     such a list applied - an operation list in the sense of C14 ([session_table_is_run]).
   * [session_probe_justified], [session_cutoff_justified]: hence a usable probe result - the table cutoff of a
     node - on the table of a session state is justified by a record some node of some search of the session
     stored for exactly that 64-bit hash, with at least the requested depth, in accordance with its bound.
   * every node inside a search starts on such a table: [go_inner_nodes] (for an arbitrary recursive call,
     see TTGrow.v) and [negamax_tt_cutoff] (the cutoff branch of the model, spelled out). *)
From Coq Require Import NArith ZArith List Bool FMapPositive Lia String.
From Clemens Require Import Base.Res Base.Word Pos.Types Att.Attacks Pos.Position Eval.Eval
     Search.TT Search.TTProofs Search.Ordering Search.Negamax Search.SearchStruct Search.SearchLines Search.GoInst.
From ClemensGen Require Import GoConsts.
From Clemens.C13Mate Require Import MateDefs MateExamples.
From Clemens.C13Bridge Require Import Bridge Seq.
From Clemens.Compose Require Import TTGrow.
Import ListNotations.
Open Scope Z_scope.

Notation go_nb := tt_numberOfBuckets.
Notation go_bs := (N.to_nat tt_bucketSize).
Notation go_INF := eval_INF.

Lemma go_nb_ok : sc_tt_buckets go_sconsts = go_nb. Proof. reflexivity. Qed.
Lemma go_INF_ok : INF go_econsts = go_INF. Proof. reflexivity. Qed.
Lemma go_tt_init_ok : go_tt_init = tt_init go_bs. Proof. reflexivity. Qed.

(* ------------------------------------------------------------------ generic: folds of saves are C14 runs *)
Lemma fold_saves_steps : forall nb bs saves t,
  fold_left (tt_save_rec nb) saves t = fold_left (tt_step nb bs) (map OSave saves) t.
Proof. intros nb bs saves. induction saves as [|sv r IH]; intro t; [reflexivity|]. cbn. apply IH. Qed.

Lemma saves_of_map : forall saves, saves_of (map OSave saves) = saves.
Proof. induction saves as [|sv r IH]; [reflexivity|]. cbn. rewrite IH. reflexivity. Qed.

Lemma fold_saves_run : forall nb bs saves,
  fold_left (tt_save_rec nb) saves (tt_init bs) = tt_run nb bs (map OSave saves).
Proof. intros. unfold tt_run. apply fold_saves_steps. Qed.

(* a stored record with a valid node type: the bound read back is the bound stored *)
Lemma explains_valid_nt : forall inf sv alpha beta depth ply sc mv,
  (sv_nt sv <= 2)%N ->
  (explains inf sv alpha beta depth ply sc mv <->
   (depth <= sv_depth sv)%N /\ mv = sv_move sv /\
   (let a := mate_adjust inf (sv_score sv) ply in
    (sv_nt sv = PVNode /\ sc = a) \/
    (sv_nt sv = AlphaNode /\ a <= alpha /\ sc = alpha) \/
    (sv_nt sv = BetaNode /\ beta <= a /\ sc = beta))).
Proof.
  intros inf sv alpha beta depth ply sc mv Hnt. unfold explains.
  rewrite stored_node_type_id by lia. reflexivity.
Qed.

(* ------------------------------------------------------------------ what a search of the Go build stores *)
(* a record stored by a node of a search from [root] *)
Definition stored_by (root : position) (sv : save_rec) : Prop :=
  (exists p, visited go_keys root p /\ sv_hash sv = hash p) /\
  sv_age sv = hmc root /\ (sv_nt sv <= 2)%N /\ (0 < sv_depth sv)%N.
(* ... by a search from one of [roots] *)
Definition stored_in (roots : list position) (sv : save_rec) : Prop :=
  exists r, In r roots /\ stored_by r sv.

Lemma stored_in_cons : forall r roots sv, stored_in roots sv -> stored_in (r :: roots) sv.
Proof. intros r roots sv (r0 & Hin & H). exists r0. split; [right; exact Hin|exact H]. Qed.

Lemma stored_by_node : forall root p m d sc nt,
  visited go_keys root p -> (0 < d)%N -> (nt <= 2)%N ->
  stored_by root {| sv_hash := hash p; sv_move := m; sv_depth := d; sv_score := sc; sv_nt := nt; sv_age := hmc root |}.
Proof. intros root p m d sc nt V Hd Hnt. unfold stored_by. cbn. split; [exists p; auto|auto]. Qed.

Lemma vis_move : forall root p m q,
  visited go_keys root p -> movable p m -> make_move go_keys p m = Ok q -> is_legal q = Ok true -> visited go_keys root q.
Proof. intros; eapply visited_move; eauto. Qed.
Lemma vis_null : forall root p q x,
  visited go_keys root p -> is_in_check p (side p) = Ok false -> make_null_move go_keys p = Ok (q, x) -> visited go_keys root q.
Proof. intros; eapply visited_null; eauto. Qed.

(* the table after the call is the table before it with the saves of the call applied *)
Definition grows (P : save_rec -> Prop) (t t' : tt_state) : Prop :=
  exists saves, t' = fold_left (tt_save_rec go_nb) saves t /\ Forall P saves.

Theorem go_quiescence_table_same : forall f s p alpha beta ply,
  s_tt (snd (go_quiescence f s p alpha beta ply)) = s_tt s.
Proof.
  intros f s p alpha beta ply. unfold go_quiescence.
  pose proof (quiescence_G go_keys go_econsts go_oconsts go_sconsts (s_tt s) (fun _ => False) f s p alpha beta ply) as H.
  destruct H as (saves & H & HF); [exists []; split; [reflexivity|constructor]|].
  destruct saves as [|sv r]; [exact H|]. inversion HF; contradiction.
Qed.

Theorem go_negamax_table_grows : forall root f s p alpha beta depth ply cn pm,
  visited go_keys root p ->
  grows (stored_by root) (s_tt s) (s_tt (snd (go_negamax f s p alpha beta depth ply cn pm (hmc root)))).
Proof.
  intros root f s p alpha beta depth ply cn pm V. unfold go_negamax.
  apply (negamax_G go_keys go_econsts go_oconsts go_sconsts (visited go_keys root) (vis_move root) (vis_null root)
           (hmc root) (s_tt s) (stored_by root)); [|exact V|apply Grown_t0].
  intros; apply stored_by_node; assumption.
Qed.

Theorem go_search_root_table_grows : forall root fuel s d a b,
  grows (stored_by root) (s_tt s) (s_tt (snd (go_search_root fuel s root d a b))).
Proof.
  intros root fuel s d a b. unfold go_search_root.
  apply (search_root_G go_keys go_econsts go_oconsts go_sconsts (visited go_keys root) (vis_move root) (vis_null root)
           (hmc root) (s_tt s) (stored_by root)); [|constructor|reflexivity|apply Grown_t0].
  intros; apply stored_by_node; assumption.
Qed.

Theorem go_search_iterative_table_grows : forall root iters fuel rep s md d a b,
  grows (stored_by root) (s_tt s) (s_tt (snd (go_search_iterative iters fuel rep s root md d a b))).
Proof.
  intros root iters fuel rep s md d a b. unfold go_search_iterative.
  apply (search_iterative_G go_keys go_econsts go_oconsts go_sconsts (visited go_keys root) (vis_move root) (vis_null root)
           (hmc root) (s_tt s) (stored_by root)); [|constructor|reflexivity|apply Grown_t0].
  intros; apply stored_by_node; assumption.
Qed.

Theorem go_search_table_grows : forall root iters fuel rep s req,
  grows (stored_by root) (s_tt s) (s_tt (snd (go_search iters fuel rep s root req))).
Proof.
  intros root iters fuel rep s req. unfold go_search.
  apply (search_G go_keys go_econsts go_oconsts go_sconsts (visited go_keys root) (vis_move root) (vis_null root)
           (hmc root) (s_tt s) (stored_by root)); [|constructor|reflexivity|apply Grown_t0].
  intros; apply stored_by_node; assumption.
Qed.

(* ------------------------------------------------------------------ sessions *)
(* the table is the empty table with the saves of searches from [roots] applied *)
Definition session_table (roots : list position) (t : tt_state) : Prop :=
  grows (stored_in roots) go_tt_init t.

Lemma session_table_cons : forall r roots t, session_table roots t -> session_table (r :: roots) t.
Proof.
  intros r roots t (saves & E & HF). exists saves. split; [exact E|].
  eapply Forall_impl; [|exact HF]. intros sv; apply stored_in_cons.
Qed.

(* a search on a session table leaves a session table *)
Theorem go_search_keeps_session_table : forall roots root iters fuel rep s req,
  session_table roots (s_tt s) ->
  session_table (root :: roots) (s_tt (snd (go_search iters fuel rep s root req))).
Proof.
  intros roots root iters fuel rep s req Hs. unfold go_search.
  apply (search_G go_keys go_econsts go_oconsts go_sconsts (visited go_keys root) (vis_move root) (vis_null root)
           (hmc root) go_tt_init (stored_in (root :: roots))); [|constructor|reflexivity|].
  - intros p m d sc nt V Hd Hnt. exists root. split; [left; reflexivity|apply stored_by_node; assumption].
  - apply session_table_cons. exact Hs.
Qed.

(* the same for a single node: every node of a search from [root] that starts on a session table leaves one *)
Theorem go_negamax_keeps_session_table : forall roots root f s p alpha beta depth ply cn pm,
  visited go_keys root p -> session_table (root :: roots) (s_tt s) ->
  session_table (root :: roots) (s_tt (snd (go_negamax f s p alpha beta depth ply cn pm (hmc root)))).
Proof.
  intros roots root f s p alpha beta depth ply cn pm V Hs. unfold go_negamax.
  apply (negamax_G go_keys go_econsts go_oconsts go_sconsts (visited go_keys root) (vis_move root) (vis_null root)
           (hmc root) go_tt_init (stored_in (root :: roots))); [|exact V|exact Hs].
  intros p0 m d sc nt V0 Hd Hnt. exists root. split; [left; reflexivity|apply stored_by_node; assumption].
Qed.

(* ... and the nodes below it start on session tables: the body of a node ([nm_inner]: probe, pruning, move
   loop, store) with an ARBITRARY function [rec] in place of the recursive call keeps session tables, as soon
   as [rec] does so when applied to a visited position on a session table - it is applied to nothing else *)
Theorem go_inner_nodes : forall roots root (rec : nm_rec),
  (forall s q a b d pl cn pm, visited go_keys root q -> session_table (root :: roots) (s_tt s) ->
     session_table (root :: roots) (s_tt (snd (rec s q a b d pl cn pm (hmc root))))) ->
  forall s p alpha beta depth ply cn pm ic,
  visited go_keys root p -> is_in_check p (side p) = Ok ic -> (0 < depth)%N ->
  session_table (root :: roots) (s_tt s) ->
  session_table (root :: roots)
    (s_tt (snd (nm_inner go_keys go_econsts go_oconsts go_sconsts rec s p alpha beta depth ply cn pm (hmc root) ic))).
Proof.
  intros roots root rec Hrec s p alpha beta depth ply cn pm ic V Hic Hd Hs.
  apply (inner_G go_keys go_econsts go_oconsts go_sconsts (visited go_keys root) (vis_move root) (vis_null root)
           (hmc root) go_tt_init (stored_in (root :: roots))); try assumption.
  intros p0 m d sc nt V0 Hd0 Hnt. exists root. split; [left; reflexivity|apply stored_by_node; assumption].
Qed.

(* the table of every state of a session *)
Theorem session_table_log : forall roots s, session roots s -> session_table roots (s_tt s).
Proof.
  intros roots s Hs.
  induction Hs as [c|roots s root1 iters fuel rep req r s' Hs IH H1 E|roots s s2 Hs IH Et Ec].
  - exists []. split; [reflexivity|constructor].
  - pose proof (go_search_keeps_session_table roots root1 iters fuel rep s req IH) as Hk.
    rewrite E in Hk. exact Hk.
  - rewrite Et. exact IH.
Qed.

(* ... is the table of an operation list in the sense of C14, whose ghost log is that list of saves *)
Theorem session_table_is_run : forall roots t,
  session_table roots t ->
  exists ops, t = tt_run go_nb go_bs ops /\ Forall (stored_in roots) (saves_of ops).
Proof.
  intros roots t (saves & E & HF). exists (map OSave saves). split.
  - rewrite E, go_tt_init_ok. apply fold_saves_run.
  - rewrite saves_of_map. exact HF.
Qed.

(* ------------------------------------------------------------------ every usable probe is justified *)
(* C14's [tt_sound] on a session table *)
Theorem session_probe_justified : forall roots t h alpha beta depth ply sc mv,
  session_table roots t -> h <> 0%N ->
  tt_get go_nb go_INF t h alpha beta depth ply = (sc, true, mv) ->
  exists sv, stored_in roots sv /\ sv_hash sv = h /\ explains go_INF sv alpha beta depth ply sc mv.
Proof.
  intros roots t h alpha beta depth ply sc mv Ht Hh Hg.
  destruct (session_table_is_run roots t Ht) as (ops & -> & HF).
  destruct (tt_sound go_nb go_bs go_INF ops h alpha beta depth ply sc true mv Hh Hg) as [Hu _].
  destruct (Hu eq_refl) as (sv & Hin & Hsv & Hex).
  exists sv. split; [|split; assumption].
  rewrite Forall_forall in HF. apply HF. exact Hin.
Qed.

(* the same with everything spelled out: the record was stored by a node (a position visited from a root of
   the session) with exactly the probed hash, at least the requested depth, and its bound allows the result *)
Corollary session_probe_justified_explicit : forall roots t h alpha beta depth ply sc mv,
  session_table roots t -> h <> 0%N ->
  tt_get go_nb go_INF t h alpha beta depth ply = (sc, true, mv) ->
  exists root p sv,
    In root roots /\ visited go_keys root p /\ hash p = h /\ sv_hash sv = h /\ sv_age sv = hmc root /\
    (depth <= sv_depth sv)%N /\ mv = sv_move sv /\
    (let a := mate_adjust go_INF (sv_score sv) ply in
     (sv_nt sv = PVNode /\ sc = a) \/
     (sv_nt sv = AlphaNode /\ a <= alpha /\ sc = alpha) \/
     (sv_nt sv = BetaNode /\ beta <= a /\ sc = beta)).
Proof.
  intros roots t h alpha beta depth ply sc mv Ht Hh Hg.
  destruct (session_probe_justified roots t h alpha beta depth ply sc mv Ht Hh Hg) as (sv & (root & Hin & Hby) & Hsv & Hex).
  destruct Hby as ((p & V & Hp) & Hage & Hnt & Hd).
  apply (explains_valid_nt go_INF sv alpha beta depth ply sc mv Hnt) in Hex. destruct Hex as (E1 & E2 & E3).
  exists root, p, sv. repeat split; try assumption. congruence.
Qed.

(* ------------------------------------------------------------------ the cutoff branch of the model *)
Section Cutoff.
Variable K : zkeys.
Variable EC : econsts.
Variable OC : oconsts.
Variable SC : sconsts.

(* the depth a node works with: the check extension *)
Definition node_depth (ic : bool) (depth : N) : N := if ic then w8 (depth + 1) else depth.

(* the conditions under which a node returns through the table cutoff, and what it returns *)
Lemma negamax_tt_cutoff : forall f s p alpha beta depth ply cn pm rh ic sc mv s1 s2,
  poll s = (false, s1) ->
  is_in_check p (side p) = Ok ic ->
  (node_depth ic depth =? 0)%N = false ->
  negb (ply =? 0)%N && negb ic && is_repetition (upd_nodes s1 (w64 (s_nodes s1 + 1))) p = false ->
  push_history SC (upd_nodes s1 (w64 (s_nodes s1 + 1))) p = ROk s2 ->
  (ply =? 0)%N = false -> (sub16 beta alpha =? 1) = true ->
  tt_get (sc_tt_buckets SC) (INF EC) (s_tt s) (hash p) alpha beta (node_depth ic depth) ply = (sc, true, mv) ->
  negamax K EC OC SC (S f) s p alpha beta depth ply cn pm rh = (ROk (sc, []), pop_history s2).
Proof.
  intros f s p alpha beta depth ply cn pm rh ic sc mv s1 s2 Hp Hic Hd Hrep Hpush Hply Hpv Hg.
  rewrite negamax_eq. rewrite Hp. cbv zeta. rewrite Hic. fold (node_depth ic depth). rewrite Hd, Hrep, Hpush.
  unfold nm_inner. cbv zeta.
  assert (Et : s_tt s2 = s_tt s).
  { pose proof (push_A SC (upd_nodes s1 (w64 (s_nodes s1 + 1))) p) as Hh. rewrite Hpush in Hh. subst s2.
    unfold poll in Hp. inversion Hp. reflexivity. }
  rewrite Et, Hg, Hply, Hpv. reflexivity.
Qed.
End Cutoff.

(* whenever a node of a search takes the table cutoff on a session table *)
Theorem session_cutoff_justified : forall roots f s p alpha beta depth ply cn pm rh ic sc mv s1 s2,
  session_table roots (s_tt s) -> hash p <> 0%N ->
  poll s = (false, s1) ->
  is_in_check p (side p) = Ok ic ->
  (node_depth ic depth =? 0)%N = false ->
  negb (ply =? 0)%N && negb ic && is_repetition (upd_nodes s1 (w64 (s_nodes s1 + 1))) p = false ->
  push_history go_sconsts (upd_nodes s1 (w64 (s_nodes s1 + 1))) p = ROk s2 ->
  (ply =? 0)%N = false -> (sub16 beta alpha =? 1) = true ->
  tt_get go_nb go_INF (s_tt s) (hash p) alpha beta (node_depth ic depth) ply = (sc, true, mv) ->
  go_negamax (S f) s p alpha beta depth ply cn pm rh = (ROk (sc, []), pop_history s2) /\
  exists sv, stored_in roots sv /\ sv_hash sv = hash p /\
             explains go_INF sv alpha beta (node_depth ic depth) ply sc mv.
Proof.
  intros roots f s p alpha beta depth ply cn pm rh ic sc mv s1 s2 Ht Hh Hp Hic Hd Hrep Hpush Hply Hpv Hg. split.
  - unfold go_negamax. eapply negamax_tt_cutoff; eauto.
  - eapply session_probe_justified; eauto.
Qed.

Print Assumptions go_search_table_grows.
Print Assumptions session_table_log.
Print Assumptions session_table_is_run.
Print Assumptions session_probe_justified_explicit.
Print Assumptions session_cutoff_justified.
Print Assumptions go_inner_nodes.
