(* C16 lifted to whole searches, part 2: the two-sided walk.  A call of [quiescence] / [negamax] from a
   state [s] and the same call from [upd_cache s c2] (the same state with another evaluation cache), both
   caches sound for a universe U that contains the node and is closed under the moves the search makes:
   the second run returns the same result and ends in the final state of the first with some sound cache
   in place of the first's (which is sound too).  Technique of C05Prompt/PromptSync.v: the second run is
   kept in step with the first by the commutation lemmas of CacheSound.v; the universe is carried as in
   C13Mate/MateSane.v. *)
From Coq Require Import NArith ZArith List Bool FMapPositive Lia.
From Clemens Require Import Base.Res Base.Word Pos.Types Att.Attacks Pos.Position Eval.Eval Eval.CacheProofs
     Search.TT Search.Ordering Search.Negamax Search.SearchStruct Search.SearchLines.
From Clemens.C13Mate Require Import MateDefs.
From Clemens.Compose Require Import CacheSound.
Import ListNotations.
Open Scope Z_scope.

Section Lock.
Variable K : zkeys.
Variable EC : econsts.
Variable OC : oconsts.
Variable SC : sconsts.
(* the universe of positions the search may visit, graded by the recursion budget (fuel): [U n p] - the
   position p may be the node of a call that runs with fuel n.  A set closed under the moves of the search
   is the special case of a constant family; a graded family lets a FINITE set (the positions within a few
   plies of a root) serve, so that every hypothesis can be checked by computation. *)
Variable U : nat -> position -> Prop.
Hypothesis U_down : forall n p, U (S n) p -> U n p.
(* closed under the legal generated moves, and under null moves when the mover is not in check *)
Hypothesis U_move : forall n p m q, U (S n) p -> movable p m -> make_move K p m = Ok q -> is_legal q = Ok true -> U n q.
Hypothesis U_null : forall n p q x, U (S n) p -> is_in_check p (side p) = Ok false -> make_null_move K p = Ok (q, x) -> U n q.
Hypothesis U_inj : hash_injective_on (U 0).

Notation csound := (cache_sound_on EC (U 0)).

Lemma U_zero : forall n p, U n p -> U 0 p.
Proof. induction n as [|n IH]; intros p H; [exact H|]. apply IH, U_down, H. Qed.

(* [X]: the run from [s]; [Y]: the run from [upd_cache s c2] *)
Definition lockC {A} (X Y : sresult A * sst) : Prop :=
  exists c2', Y = (fst X, upd_cache (snd X) c2') /\ csound c2' /\ csound (s_cache (snd X)).

Ltac projC := cbn [fst snd lift0c s_tt s_cache s_nodes s_killers s_history s_counter s_hist s_pv s_out s_polls s_cancel
                   upd_tt upd_cache upd_nodes upd_killers upd_history upd_counter upd_hist upd_pv emit set_polls set_cancel
                   pop_history halve_history poll] in *.

Ltac soundC :=
  first [ assumption
        | rewrite ?cut_state_cache;
          cbn [fst snd s_cache upd_tt upd_cache upd_nodes upd_killers upd_history upd_counter upd_hist upd_pv emit
               set_polls set_cancel pop_history halve_history poll];
          assumption ].

Ltac movC :=
  match goal with
  | Hm : forall x, In x ?ms -> movable ?p x |- movable ?p ?m =>
      apply Hm; first [ eapply nth_error_In; eassumption
                      | eapply sort_index_in; eapply nth_error_In; eassumption ]
  end.
Ltac uC := first [ assumption
                 | apply U_down; assumption
                 | eapply U_zero; eassumption
                 | eapply U_move; [ | | eassumption | eassumption]; [eassumption|movC]
                 | eapply U_null; [ | | eassumption]; eassumption ].

Ltac leafC :=
  autorewrite with ucp;
  try match goal with |- context [contempt ?e ?p] => destruct (contempt e p) end; cbn [of_res bind];
  unfold lockC; cbn [fst snd];
  (eexists; split; [reflexivity | split; soundC]).

Lemma snm_two : forall s c2 p beta depth ic pv,
  csound (s_cache s) -> csound c2 -> U 0 p ->
  match nm_snm EC SC s p beta depth ic pv with
  | ROk (o, s1) => exists c2', nm_snm EC SC (upd_cache s c2) p beta depth ic pv = ROk (o, upd_cache s1 c2') /\
                                csound c2' /\ csound (s_cache s1)
  | RPanic => nm_snm EC SC (upd_cache s c2) p beta depth ic pv = RPanic
  | _ => False
  end.
Proof.
  intros s c2 p beta depth ic pv H1 H2 Hu. unfold nm_snm.
  destruct (negb ic && negb pv && negb (is_checkmate_value EC beta)).
  - pose proof (evaluate_two EC (U 0) U_inj s c2 p H1 H2 Hu) as He.
    destruct (evaluate EC s p) as [[v s1]| | |]; try contradiction.
    + destruct He as (c & He & ? & ?). rewrite He. exists c. auto.
    + rewrite He. reflexivity.
  - exists c2. auto.
Qed.

Lemma fpr_two : forall s c2 p alpha beta depth ic pv,
  csound (s_cache s) -> csound c2 -> U 0 p ->
  match nm_fpr EC SC s p alpha beta depth ic pv with
  | ROk (o, s1) => exists c2', nm_fpr EC SC (upd_cache s c2) p alpha beta depth ic pv = ROk (o, upd_cache s1 c2') /\
                                csound c2' /\ csound (s_cache s1)
  | RPanic => nm_fpr EC SC (upd_cache s c2) p alpha beta depth ic pv = RPanic
  | _ => False
  end.
Proof.
  intros s c2 p alpha beta depth ic pv H1 H2 Hu. unfold nm_fpr.
  match goal with |- context [if ?b then _ else _] => destruct b end.
  - pose proof (evaluate_two EC (U 0) U_inj s c2 p H1 H2 Hu) as He.
    destruct (evaluate EC s p) as [[v s1]| | |]; try contradiction.
    + destruct He as (c & He & ? & ?). rewrite He.
      destruct (nthz (sc_fut_margin SC) depth); try reflexivity. exists c. auto.
    + rewrite He. reflexivity.
  - exists c2. auto.
Qed.

(* scrutinees: the same on both sides, or a state-changing operation with its two-run lemma *)
Ltac basicC :=
  lazymatch goal with
  | |- lockC (match poll ?s with _ => _ end) _ =>
      let Hp := fresh "Hp" in
      assert (Hp : csound (s_cache (snd (poll s)))) by soundC;
      destruct (poll s) as [[|] ?]; cbn [fst snd] in *
  | |- lockC (match evaluate EC ?s ?p with _ => _ end) (match evaluate EC (upd_cache ?s ?c2) ?p with _ => _ end) =>
      let H := fresh "He" in let c := fresh "c2" in
      pose proof (evaluate_two EC (U 0) U_inj s c2 p ltac:(soundC) ltac:(soundC) ltac:(uC)) as H;
      destruct (evaluate EC s p) as [[? ?]| | |];
      [ destruct H as (c & H & ? & ?); rewrite H; clear H | contradiction | rewrite H; clear H | contradiction ]
  | |- lockC (match nm_snm EC SC ?s ?p ?b ?d ?ic ?pv with _ => _ end) (match nm_snm EC SC (upd_cache ?s ?c2) _ _ _ _ _ with _ => _ end) =>
      let H := fresh "He" in let c := fresh "c2" in
      pose proof (snm_two s c2 p b d ic pv ltac:(soundC) ltac:(soundC) ltac:(uC)) as H;
      destruct (nm_snm EC SC s p b d ic pv) as [[[?|] ?]| | |];
      [ destruct H as (c & H & ? & ?); rewrite H; clear H | destruct H as (c & H & ? & ?); rewrite H; clear H
      | contradiction | rewrite H; clear H | contradiction ]
  | |- lockC (match nm_fpr EC SC ?s ?p ?a ?b ?d ?ic ?pv with _ => _ end) (match nm_fpr EC SC (upd_cache ?s ?c2) _ _ _ _ _ _ with _ => _ end) =>
      let H := fresh "He" in let c := fresh "c2" in
      pose proof (fpr_two s c2 p a b d ic pv ltac:(soundC) ltac:(soundC) ltac:(uC)) as H;
      destruct (nm_fpr EC SC s p a b d ic pv) as [[? ?]| | |];
      [ destruct H as (c & H & ? & ?); rewrite H; clear H | contradiction | rewrite H; clear H | contradiction ]
  | |- lockC (match ?sx with _ => _ end) (match lift0c ?c2 ?sx with _ => _ end) =>
      lazymatch sx with
      | push_history SC ?s ?p =>
          let H := fresh "Hh" in pose proof (push_A SC s p) as H;
          destruct (push_history SC s p) as [?| | |]; cbn [lift0c]; [subst| | |]
      end
  | |- lockC (match ?sx with _ => _ end) (match ?sx with _ => _ end) => destruct sx eqn:?
  end.

Ltac stepC calls := autorewrite with ucp; cbv beta iota; first [ calls tt | basicC ].

(* ------------------------------------------------------------------ quiescence *)
Section WithQRec.
Variable qrec : q_rec.
Variable n : nat.
Hypothesis Hq : forall s c2 q a b pl, U n q -> csound (s_cache s) -> csound c2 ->
  lockC (qrec s q a b pl) (qrec (upd_cache s c2) q a b pl).

Ltac qrecC u :=
  lazymatch goal with
  | |- lockC (match qrec ?s ?q ?a ?b ?pl with _ => _ end) (match qrec (upd_cache ?s ?c2) _ _ _ _ with _ => _ end) =>
      let H := fresh "Hc" in let c := fresh "c2" in let r := fresh "r" in
      pose proof (Hq s c2 q a b pl ltac:(uC) ltac:(soundC) ltac:(soundC)) as H;
      destruct (qrec s q a b pl) as [r ?];
      destruct H as (c & H & ? & ?); rewrite H; clear H; cbn [fst snd] in *;
      destruct r as [?| | |]
  end.

Lemma qloop_C : forall p sp beta ply k i ms s c2 alpha,
  U (S n) p -> (forall x, In x ms -> movable p x) -> csound (s_cache s) -> csound c2 ->
  lockC (q_loop K EC qrec p sp beta ply k i ms s alpha) (q_loop K EC qrec p sp beta ply k i ms (upd_cache s c2) alpha).
Proof.
  intros p sp beta ply k; induction k as [|k IH]; intros i ms s c2 alpha Hu Hms Hs1 Hs2.
  - cbn. leafC.
  - unfold q_loop; fold (q_loop K EC qrec p sp beta ply).
    cbv zeta.
    repeat first [ lazymatch goal with
                   | |- lockC (q_loop K EC qrec p sp beta ply k ?i ?ms ?s1 ?a) _ =>
                       apply IH; [exact Hu|apply movable_sorted; exact Hms|soundC|soundC]
                   end
                 | stepC qrecC ].
    all: leafC.
Qed.
End WithQRec.

Theorem quiescence_C : forall f s c2 p alpha beta ply,
  U f p -> csound (s_cache s) -> csound c2 ->
  lockC (quiescence K EC OC SC f s p alpha beta ply) (quiescence K EC OC SC f (upd_cache s c2) p alpha beta ply).
Proof.
  induction f as [|f IH]; intros s c2 p alpha beta ply Hu Hs1 Hs2.
  - cbn. leafC.
  - rewrite !quiescence_eq. cbv zeta.
    repeat stepC ltac:(fun u =>
      lazymatch goal with
      | |- lockC (q_loop K EC ?r ?p ?sp ?b ?pl ?k ?i ?ms ?s1 ?a) _ =>
          apply (qloop_C r f IH); [exact Hu|eapply movable_scored; [right; eassumption|eassumption]|soundC|soundC]
      end).
    all: leafC.
Qed.

(* ------------------------------------------------------------------ negamax *)
Section WithRec.
Variable rec : nm_rec.
Variable n : nat.
Hypothesis Hrec : forall s c2 q a b d pl cn pm rh, U n q -> csound (s_cache s) -> csound c2 ->
  lockC (rec s q a b d pl cn pm rh) (rec (upd_cache s c2) q a b d pl cn pm rh).

Ltac recC u :=
  lazymatch goal with
  | |- lockC (match rec ?s ?q ?a ?b ?d ?pl ?cn ?pm ?rh with _ => _ end) (match rec (upd_cache ?s ?c2) _ _ _ _ _ _ _ _ with _ => _ end) =>
      let H := fresh "Hc" in let c := fresh "c2" in let r := fresh "r" in
      pose proof (Hrec s c2 q a b d pl cn pm rh ltac:(uC) ltac:(soundC) ltac:(soundC)) as H;
      destruct (rec s q a b d pl cn pm rh) as [r ?];
      destruct H as (c & H & ? & ?); rewrite H; clear H; cbn [fst snd] in *;
      destruct r as [[? ?]| | |]
  end.

Lemma pvs_C : forall s c2 q alpha beta d1 pl1 pm rh lg,
  U n q -> csound (s_cache s) -> csound c2 ->
  lockC (nm_pvs rec s q alpha beta d1 pl1 pm rh lg) (nm_pvs rec (upd_cache s c2) q alpha beta d1 pl1 pm rh lg).
Proof. intros until lg. intros Hu Hs1 Hs2. unfold nm_pvs. cbv zeta. repeat stepC recC. all: leafC. Qed.

Lemma nmp_C : forall s c2 p beta depth ply cn ic pv rh,
  U (S n) p -> is_in_check p (side p) = Ok ic -> csound (s_cache s) -> csound c2 ->
  lockC (nm_nmp K EC rec s p beta depth ply cn ic pv rh) (nm_nmp K EC rec (upd_cache s c2) p beta depth ply cn ic pv rh).
Proof.
  intros until rh. intros Hu Hic Hs1 Hs2. unfold nm_nmp. cbv zeta.
  destruct ic; [rewrite !andb_false_r; cbn [andb]; leafC|].
  repeat stepC recC. all: leafC.
Qed.

Ltac recC2 u :=
  lazymatch goal with
  | |- lockC (match nm_pvs rec ?s ?q ?a ?b ?d ?pl ?pm ?rh ?lg with _ => _ end) (match nm_pvs rec (upd_cache ?s ?c2) _ _ _ _ _ _ _ _ with _ => _ end) =>
      let H := fresh "Hc" in let c := fresh "c2" in let r := fresh "r" in
      pose proof (pvs_C s c2 q a b d pl pm rh lg ltac:(uC) ltac:(soundC) ltac:(soundC)) as H;
      destruct (nm_pvs rec s q a b d pl pm rh lg) as [r ?];
      destruct H as (c & H & ? & ?); rewrite H; clear H; cbn [fst snd] in *;
      destruct r as [[? ?]| | |]
  end.

Lemma loop_C : forall p beta depth ply pm rh fp k i ms s c2 L,
  U (S n) p -> (forall x, In x ms -> movable p x) -> csound (s_cache s) -> csound c2 ->
  lockC (nm_loop K OC rec p beta depth ply pm rh fp k i ms s L)
        (nm_loop K OC rec p beta depth ply pm rh fp k i ms (upd_cache s c2) L).
Proof.
  intros p beta depth ply pm rh fp k; induction k as [|k IH]; intros i ms s c2 L Hu Hms Hs1 Hs2.
  - cbn. leafC.
  - unfold nm_loop; fold (nm_loop K OC rec p beta depth ply pm rh fp).
    cbv zeta.
    repeat first [ lazymatch goal with
                   | |- lockC (nm_loop K OC rec p beta depth ply pm rh fp k ?i ?ms ?s1 ?L) _ =>
                       apply IH; [exact Hu|apply movable_sorted; exact Hms|soundC|soundC]
                   end
                 | stepC recC2 ].
    all: leafC.
Qed.

Ltac recC3 Hic :=
  lazymatch goal with
  | |- lockC (match nm_nmp K EC rec ?s ?p ?b ?d ?pl ?cn ?ic ?pv ?rh with _ => _ end)
             (match nm_nmp K EC rec (upd_cache ?s ?c2) _ _ _ _ _ _ _ _ with _ => _ end) =>
      let H := fresh "Hc" in let c := fresh "c2" in let r := fresh "r" in
      pose proof (nmp_C s c2 p b d pl cn ic pv rh ltac:(uC) Hic ltac:(soundC) ltac:(soundC)) as H;
      destruct (nm_nmp K EC rec s p b d pl cn ic pv rh) as [r ?];
      destruct H as (c & H & ? & ?); rewrite H; clear H; cbn [fst snd] in *;
      destruct r as [[?|]| | |]
  | |- lockC (match nm_loop K OC rec ?p ?b ?d ?pl ?pm ?rh ?fp ?k ?i ?ms ?s ?L with _ => _ end)
             (match nm_loop K OC rec _ _ _ _ _ _ _ _ _ _ (upd_cache ?s ?c2) _ with _ => _ end) =>
      let H := fresh "Hc" in let c := fresh "c2" in let r := fresh "r" in
      pose proof (loop_C p b d pl pm rh fp k i ms s c2 L ltac:(uC)
                         ltac:(eapply movable_scored; [left; eassumption|eassumption]) ltac:(soundC) ltac:(soundC)) as H;
      destruct (nm_loop K OC rec p b d pl pm rh fp k i ms s L) as [r ?];
      destruct H as (c & H & ? & ?); rewrite H; clear H; cbn [fst snd] in *;
      destruct r as [[? ?]| | |]
  end.

Lemma inner_C : forall s c2 p alpha beta depth ply cn pm rh ic,
  U (S n) p -> is_in_check p (side p) = Ok ic -> csound (s_cache s) -> csound c2 ->
  lockC (nm_inner K EC OC SC rec s p alpha beta depth ply cn pm rh ic)
        (nm_inner K EC OC SC rec (upd_cache s c2) p alpha beta depth ply cn pm rh ic).
Proof.
  intros until ic. intros Hu Hic Hs1 Hs2. unfold nm_inner. cbv zeta.
  repeat stepC ltac:(fun u => recC3 Hic). all: leafC.
Qed.

End WithRec.

Theorem negamax_C : forall f s c2 p alpha beta depth ply cn pm rh,
  U f p -> csound (s_cache s) -> csound c2 ->
  lockC (negamax K EC OC SC f s p alpha beta depth ply cn pm rh)
        (negamax K EC OC SC f (upd_cache s c2) p alpha beta depth ply cn pm rh).
Proof.
  induction f as [|f IH]; intros s c2 p alpha beta depth ply cn pm rh Hu Hs1 Hs2.
  - cbn. leafC.
  - rewrite !negamax_eq. cbv zeta.
    repeat stepC ltac:(fun u =>
      lazymatch goal with
      | |- lockC (match quiescence K EC OC SC ?f ?s1 ?p ?a ?b ?pl with _ => _ end)
                 (match quiescence K EC OC SC _ (upd_cache ?s1 ?c) _ _ _ _ with _ => _ end) =>
          let H := fresh "Hc" in let c' := fresh "c2" in let r := fresh "r" in
          pose proof (quiescence_C f s1 c p a b pl ltac:(uC) ltac:(soundC) ltac:(soundC)) as H;
          destruct (quiescence K EC OC SC f s1 p a b pl) as [r ?];
          destruct H as (c' & H & ? & ?); rewrite H; clear H; cbn [fst snd] in *;
          destruct r as [?| | |]
      end).
    all: try (leafC; fail).
    all: autorewrite with ucp.
    all: match goal with
    | |- context [nm_inner K EC OC SC ?r ?s1 ?p ?a ?b ?d ?pl ?cn ?pm ?rh ?ic] =>
        match goal with
        | |- context [nm_inner K EC OC SC r (upd_cache s1 ?c) p a b d pl cn pm rh ic] =>
            pose proof (inner_C r f IH s1 c p a b d pl cn pm rh ic Hu ltac:(eassumption) ltac:(soundC) ltac:(soundC)) as Hin;
            destruct (nm_inner K EC OC SC r s1 p a b d pl cn pm rh ic) as [r1 s2]
        end
    end.
    all: destruct Hin as (c3 & Hin & ? & ?); rewrite Hin; cbn [fst snd] in *.
    all: leafC.
Qed.

End Lock.
