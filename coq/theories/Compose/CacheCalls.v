(* C16 lifted to whole searches, part 3: whole calls.  [search_root], [search_iterative], [search];
   the two-state form ([agree]): two states that agree on everything except the evaluation cache, both
   caches sound - every call returns the same result and leaves states that again agree on everything
   except the (sound) caches. *)
From Coq Require Import NArith ZArith List Bool FMapPositive Lia.
From Clemens Require Import Base.Res Base.Word Pos.Types Att.Attacks Pos.Position Eval.Eval Eval.CacheProofs
     Search.TT Search.Ordering Search.Negamax Search.SearchStruct Search.SearchLines.
From Clemens.C13Mate Require Import MateDefs.
From Clemens.Compose Require Import CacheSound CacheLock.
Import ListNotations.
Open Scope Z_scope.

(* two runs: same result; final states equal in everything except the caches; both caches sound for V *)
Definition agree (EC : econsts) (V : position -> Prop) {A} (X Y : sresult A * sst) : Prop :=
  fst X = fst Y /\ eq_but_cache (snd X) (snd Y) /\
  cache_sound_on EC V (s_cache (snd X)) /\ cache_sound_on EC V (s_cache (snd Y)).

Section Calls.
Variable K : zkeys.
Variable EC : econsts.
Variable OC : oconsts.
Variable SC : sconsts.
(* graded universe, see CacheLock.v: [U n p] - p may be the node of a call that runs with fuel n *)
Variable U : nat -> position -> Prop.
Hypothesis U_down : forall n p, U (S n) p -> U n p.
Hypothesis U_move : forall n p m q, U (S n) p -> movable p m -> make_move K p m = Ok q -> is_legal q = Ok true -> U n q.
Hypothesis U_null : forall n p q x, U (S n) p -> is_in_check p (side p) = Ok false -> make_null_move K p = Ok (q, x) -> U n q.
Hypothesis U_inj : hash_injective_on (U 0).

Notation csound := (cache_sound_on EC (U 0)).
Notation lock := (lockC EC U).
Notation agree := (agree EC (U 0)).

Ltac soundC :=
  first [ assumption
        | cbn [fst snd s_cache upd_tt upd_cache upd_nodes upd_killers upd_history upd_counter upd_hist upd_pv emit
               set_polls set_cancel pop_history halve_history poll];
          assumption ].

Ltac leafC :=
  autorewrite with ucp; unfold lockC; cbn [fst snd];
  (eexists; split; [reflexivity | split; soundC]).

Lemma search_root_C : forall fuel s c2 root d a b,
  U fuel root -> csound (s_cache s) -> csound c2 ->
  lock (search_root K EC OC SC fuel s root d a b) (search_root K EC OC SC fuel (upd_cache s c2) root d a b).
Proof.
  intros fuel s c2 root d a b Hu H1 H2. unfold search_root. rewrite uc_upd_killers.
  apply (negamax_C K EC OC SC U U_down U_move U_null U_inj); soundC.
Qed.

Lemma search_iterative_C : forall iters fuel rep root md s c2 d a b,
  U fuel root -> csound (s_cache s) -> csound c2 ->
  lock (search_iterative K EC OC SC iters fuel rep s root md d a b)
       (search_iterative K EC OC SC iters fuel rep (upd_cache s c2) root md d a b).
Proof.
  induction iters as [|it IH]; intros fuel rep root md s c2 d a b Hu H1 H2.
  - cbn. leafC.
  - cbn [search_iterative].
    destruct (md <? d)%N; [leafC|].
    pose proof (search_root_C fuel s c2 root d a b Hu H1 H2) as HR.
    destruct (search_root K EC OC SC fuel s root d a b) as [r s0].
    destruct HR as (c & HR & ? & ?). rewrite HR. cbn [fst snd] in *.
    destruct r as [[score line]| | |]; try leafC.
    match goal with |- context [if ?c then _ else _] => destruct c end.
    + rewrite uc_emit. apply IH; soundC.
    + cbv zeta. autorewrite with ucp. apply IH; soundC.
Qed.

Lemma search_C : forall iters fuel rep s c2 root req,
  U fuel root -> csound (s_cache s) -> csound c2 ->
  lock (search K EC OC SC iters fuel rep s root req) (search K EC OC SC iters fuel rep (upd_cache s c2) root req).
Proof.
  intros iters fuel rep s c2 root req Hu H1 H2. unfold search. cbv zeta.
  match goal with |- context [search_iterative K EC OC SC iters fuel rep s root ?md 1%N ?a ?b] =>
    pose proof (search_iterative_C iters fuel rep root md s c2 1%N a b Hu H1 H2) as H;
    destruct (search_iterative K EC OC SC iters fuel rep s root md 1%N a b) as [r1 s1] end.
  destruct H as (c & H & ? & ?). rewrite H. cbn [fst snd] in *.
  destruct r1 as [[]| | |]; try leafC.
  rewrite uc_best_move.
  destruct (best_move s1 =? NULL_MOVE)%N; [|leafC].
  rewrite uc_polls, uc_set_cancel.
  match goal with |- context [search_iterative K EC OC SC iters fuel rep (set_cancel s1 None) root ?md 1%N ?a ?b] =>
    pose proof (search_iterative_C iters fuel rep root md (set_cancel s1 None) c 1%N a b Hu ltac:(soundC) ltac:(soundC)) as H';
    destruct (search_iterative K EC OC SC iters fuel rep (set_cancel s1 None) root md 1%N a b) as [r2 s2] end.
  destruct H' as (c' & H' & ? & ?). rewrite H'. cbn [fst snd] in *.
  destruct r2 as [[]| | |]; leafC.
Qed.

(* ------------------------------------------------------------------ the two-state form *)
Lemma lock_agree : forall A (X Y : sresult A * sst), lock X Y -> agree X Y.
Proof.
  intros A X Y (c & -> & Hc & Hx). unfold agree. cbn [fst snd].
  split; [reflexivity|]. split; [apply eq_but_cache_upd_cache|]. split; assumption.
Qed.

Theorem quiescence_cache_transparent_graded : forall f s1 s2 p alpha beta ply,
  U f p -> eq_but_cache s1 s2 -> csound (s_cache s1) -> csound (s_cache s2) ->
  agree (quiescence K EC OC SC f s1 p alpha beta ply) (quiescence K EC OC SC f s2 p alpha beta ply).
Proof.
  intros f s1 s2 p alpha beta ply Hu He H1 H2. apply eq_but_cache_upd in He. rewrite He.
  apply lock_agree. apply (quiescence_C K EC OC SC U U_down U_move U_inj); assumption.
Qed.

Theorem negamax_cache_transparent_graded : forall f s1 s2 p alpha beta depth ply cn pm rh,
  U f p -> eq_but_cache s1 s2 -> csound (s_cache s1) -> csound (s_cache s2) ->
  agree (negamax K EC OC SC f s1 p alpha beta depth ply cn pm rh) (negamax K EC OC SC f s2 p alpha beta depth ply cn pm rh).
Proof.
  intros f s1 s2 p alpha beta depth ply cn pm rh Hu He H1 H2. apply eq_but_cache_upd in He. rewrite He.
  apply lock_agree. apply (negamax_C K EC OC SC U U_down U_move U_null U_inj); assumption.
Qed.

Theorem search_root_cache_transparent_graded : forall fuel s1 s2 root d a b,
  U fuel root -> eq_but_cache s1 s2 -> csound (s_cache s1) -> csound (s_cache s2) ->
  agree (search_root K EC OC SC fuel s1 root d a b) (search_root K EC OC SC fuel s2 root d a b).
Proof.
  intros fuel s1 s2 root d a b Hu He H1 H2. apply eq_but_cache_upd in He. rewrite He.
  apply lock_agree. apply search_root_C; assumption.
Qed.

Theorem search_iterative_cache_transparent_graded : forall iters fuel rep s1 s2 root md d a b,
  U fuel root -> eq_but_cache s1 s2 -> csound (s_cache s1) -> csound (s_cache s2) ->
  agree (search_iterative K EC OC SC iters fuel rep s1 root md d a b)
        (search_iterative K EC OC SC iters fuel rep s2 root md d a b).
Proof.
  intros iters fuel rep s1 s2 root md d a b Hu He H1 H2. apply eq_but_cache_upd in He. rewrite He.
  apply lock_agree. apply search_iterative_C; assumption.
Qed.

Theorem search_cache_transparent_graded : forall iters fuel rep s1 s2 root req,
  U fuel root -> eq_but_cache s1 s2 -> csound (s_cache s1) -> csound (s_cache s2) ->
  agree (search K EC OC SC iters fuel rep s1 root req) (search K EC OC SC iters fuel rep s2 root req).
Proof.
  intros iters fuel rep s1 s2 root req Hu He H1 H2. apply eq_but_cache_upd in He. rewrite He.
  apply lock_agree. apply search_C; assumption.
Qed.

(* a search keeps a sound cache sound, whatever it returns *)
Corollary search_keeps_cache_sound_graded : forall iters fuel rep s root req,
  U fuel root -> csound (s_cache s) -> csound (s_cache (snd (search K EC OC SC iters fuel rep s root req))).
Proof.
  intros iters fuel rep s root req Hu H1.
  destruct (search_cache_transparent_graded iters fuel rep s s root req Hu (eq_but_cache_refl s) H1 H1) as (_ & _ & H & _).
  exact H.
Qed.

(* in particular: from any sound cache exactly what the search does from the empty cache *)
Corollary search_as_from_empty_cache_graded : forall iters fuel rep s root req,
  U fuel root -> hash_nonzero_on (U 0) -> csound (s_cache s) ->
  agree (search K EC OC SC iters fuel rep (upd_cache s []) root req) (search K EC OC SC iters fuel rep s root req).
Proof.
  intros iters fuel rep s root req Hu Hnz H1.
  apply search_cache_transparent_graded; [exact Hu| | |exact H1].
  - apply eq_but_cache_sym, eq_but_cache_upd_cache.
  - cbn [s_cache upd_cache]. apply cache_sound_on_empty. exact Hnz.
Qed.

End Calls.


(* ------------------------------------------------------------------ a universe closed under the moves of the search *)
Section Closed.
Variable K : zkeys.
Variable EC : econsts.
Variable OC : oconsts.
Variable SC : sconsts.
(* the universe: contains the node / the root, closed under the legal generated moves (and captures) and
   under null moves when the mover is not in check *)
Variable U : position -> Prop.
Hypothesis U_move : forall p m q, U p -> movable p m -> make_move K p m = Ok q -> is_legal q = Ok true -> U q.
Hypothesis U_null : forall p q x, U p -> is_in_check p (side p) = Ok false -> make_null_move K p = Ok (q, x) -> U q.
(* no two positions of U (with clock below 100) that the evaluation distinguishes share a hash *)
Hypothesis U_inj : hash_injective_on U.

Notation csound := (cache_sound_on EC U).
Notation agree := (agree EC U).

Let UG (n : nat) : position -> Prop := U.
Let UG_down : forall n p, UG (S n) p -> UG n p := fun _ _ H => H.
Let UG_move : forall n p m q, UG (S n) p -> movable p m -> make_move K p m = Ok q -> is_legal q = Ok true -> UG n q :=
  fun _ => U_move.
Let UG_null : forall n p q x, UG (S n) p -> is_in_check p (side p) = Ok false -> make_null_move K p = Ok (q, x) -> UG n q :=
  fun _ => U_null.

Theorem quiescence_cache_transparent : forall f s1 s2 p alpha beta ply,
  U p -> eq_but_cache s1 s2 -> csound (s_cache s1) -> csound (s_cache s2) ->
  agree (quiescence K EC OC SC f s1 p alpha beta ply) (quiescence K EC OC SC f s2 p alpha beta ply).
Proof. intros f. exact (quiescence_cache_transparent_graded K EC OC SC UG UG_down UG_move U_inj f). Qed.

Theorem negamax_cache_transparent : forall f s1 s2 p alpha beta depth ply cn pm rh,
  U p -> eq_but_cache s1 s2 -> csound (s_cache s1) -> csound (s_cache s2) ->
  agree (negamax K EC OC SC f s1 p alpha beta depth ply cn pm rh) (negamax K EC OC SC f s2 p alpha beta depth ply cn pm rh).
Proof. intros f. exact (negamax_cache_transparent_graded K EC OC SC UG UG_down UG_move UG_null U_inj f). Qed.

Theorem search_root_cache_transparent : forall fuel s1 s2 root d a b,
  U root -> eq_but_cache s1 s2 -> csound (s_cache s1) -> csound (s_cache s2) ->
  agree (search_root K EC OC SC fuel s1 root d a b) (search_root K EC OC SC fuel s2 root d a b).
Proof. intros fuel. exact (search_root_cache_transparent_graded K EC OC SC UG UG_down UG_move UG_null U_inj fuel). Qed.

Theorem search_iterative_cache_transparent : forall iters fuel rep s1 s2 root md d a b,
  U root -> eq_but_cache s1 s2 -> csound (s_cache s1) -> csound (s_cache s2) ->
  agree (search_iterative K EC OC SC iters fuel rep s1 root md d a b)
        (search_iterative K EC OC SC iters fuel rep s2 root md d a b).
Proof. intros iters fuel. exact (search_iterative_cache_transparent_graded K EC OC SC UG UG_down UG_move UG_null U_inj iters fuel). Qed.

Theorem search_cache_transparent : forall iters fuel rep s1 s2 root req,
  U root -> eq_but_cache s1 s2 -> csound (s_cache s1) -> csound (s_cache s2) ->
  agree (search K EC OC SC iters fuel rep s1 root req) (search K EC OC SC iters fuel rep s2 root req).
Proof. intros iters fuel. exact (search_cache_transparent_graded K EC OC SC UG UG_down UG_move UG_null U_inj iters fuel). Qed.

(* a search keeps a sound cache sound, whatever it returns *)
Corollary search_keeps_cache_sound : forall iters fuel rep s root req,
  U root -> csound (s_cache s) -> csound (s_cache (snd (search K EC OC SC iters fuel rep s root req))).
Proof. intros iters fuel. exact (search_keeps_cache_sound_graded K EC OC SC UG UG_down UG_move UG_null U_inj iters fuel). Qed.

(* from any sound cache exactly what the search does from the empty cache *)
Corollary search_as_from_empty_cache : forall iters fuel rep s root req,
  U root -> hash_nonzero_on U -> csound (s_cache s) ->
  agree (search K EC OC SC iters fuel rep (upd_cache s []) root req) (search K EC OC SC iters fuel rep s root req).
Proof. intros iters fuel. exact (search_as_from_empty_cache_graded K EC OC SC UG UG_down UG_move UG_null U_inj iters fuel). Qed.

End Closed.

(* what [agree] says *)
Lemma agree_unfold : forall EC V A (X Y : sresult A * sst),
  agree EC V X Y <->
  fst X = fst Y /\
  (s_tt (snd X) = s_tt (snd Y) /\ s_nodes (snd X) = s_nodes (snd Y) /\ s_killers (snd X) = s_killers (snd Y) /\
   s_history (snd X) = s_history (snd Y) /\ s_counter (snd X) = s_counter (snd Y) /\ s_hist (snd X) = s_hist (snd Y) /\
   s_pv (snd X) = s_pv (snd Y) /\ s_out (snd X) = s_out (snd Y) /\ s_polls (snd X) = s_polls (snd Y) /\
   s_cancel (snd X) = s_cancel (snd Y)) /\
  cache_sound_on EC V (s_cache (snd X)) /\ cache_sound_on EC V (s_cache (snd Y)).
Proof. intros. reflexivity. Qed.
