(* C16 lifted to whole searches, part 4: the Go build.  Universe: [visited go_keys root], the positions the
   search can reach from [root] (C13Bridge/Bridge.v).  Sessions of searches (C13Bridge/Seq.v): the cache any
   session leaves is sound, so every search of a session answers what it would answer from the empty cache.
   Executable examples. *)
From Coq Require Import NArith ZArith List Bool FMapPositive Lia String.
From Clemens Require Import Base.Res Base.Word Pos.Types Att.Attacks Pos.Position Eval.Eval Eval.CacheProofs
     Search.TT Search.Ordering Search.Negamax Search.SearchStruct Search.SearchLines Search.GoInst.
From Clemens.C13Mate Require Import MateDefs MateExamples.
From Clemens.C13Bridge Require Import Bridge Seq.
From Clemens.Compose Require Import CacheSound CacheLock CacheCalls.
Import ListNotations.
Open Scope Z_scope.

(* the two hypotheses that cannot be proved (the hash has 64 bits): among the positions the search can visit
   from [root], with clock below 100, equal hashes imply equal evaluation keys; none has hash 0 *)
Definition go_eval_injective (root : position) : Prop := hash_injective_on (visited go_keys root).
Definition go_hash_nonzero (root : position) : Prop := hash_nonzero_on (visited go_keys root).
(* the cache tells the truth wherever a position the search can visit from [root] would hit it *)
Definition go_cache_sound (root : position) (c : ecache) : Prop :=
  cache_sound_on go_econsts (visited go_keys root) c.
Notation go_agree root := (agree go_econsts (visited go_keys root)).

Lemma go_defs : forall root c,
  (go_eval_injective root <->
     forall p q, visited go_keys root p -> visited go_keys root q -> (hmc p < 100)%N -> (hmc q < 100)%N ->
       hash p = hash q -> eval_key p = eval_key q) /\
  (go_hash_nonzero root <-> forall p, visited go_keys root p -> (hmc p < 100)%N -> hash p <> 0%N) /\
  (go_cache_sound root c <->
     forall p, visited go_keys root p -> (hmc p < 100)%N ->
       forall v, cache_get go_econsts c (hash p) = (v, true) -> eval_raw go_econsts p = Ok v).
Proof. intros. repeat split; auto. Qed.

Lemma visited_move_go : forall root p m q,
  visited go_keys root p -> movable p m -> make_move go_keys p m = Ok q -> is_legal q = Ok true -> visited go_keys root q.
Proof. intros; eapply visited_move; eauto. Qed.
Lemma visited_null_go : forall root p q x,
  visited go_keys root p -> is_in_check p (side p) = Ok false -> make_null_move go_keys p = Ok (q, x) -> visited go_keys root q.
Proof. intros; eapply visited_null; eauto. Qed.

(* ------------------------------------------------------------------ single calls *)
Theorem go_quiescence_cache_transparent : forall root f s1 s2 p alpha beta ply,
  go_eval_injective root -> visited go_keys root p ->
  eq_but_cache s1 s2 -> go_cache_sound root (s_cache s1) -> go_cache_sound root (s_cache s2) ->
  go_agree root (go_quiescence f s1 p alpha beta ply) (go_quiescence f s2 p alpha beta ply).
Proof.
  intros root f s1 s2 p alpha beta ply Hi. unfold go_quiescence.
  apply (quiescence_cache_transparent go_keys go_econsts go_oconsts go_sconsts (visited go_keys root)
           (visited_move_go root) Hi).
Qed.

Theorem go_negamax_cache_transparent : forall root f s1 s2 p alpha beta depth ply cn pm rh,
  go_eval_injective root -> visited go_keys root p ->
  eq_but_cache s1 s2 -> go_cache_sound root (s_cache s1) -> go_cache_sound root (s_cache s2) ->
  go_agree root (go_negamax f s1 p alpha beta depth ply cn pm rh) (go_negamax f s2 p alpha beta depth ply cn pm rh).
Proof.
  intros root f s1 s2 p alpha beta depth ply cn pm rh Hi. unfold go_negamax.
  apply (negamax_cache_transparent go_keys go_econsts go_oconsts go_sconsts (visited go_keys root)
           (visited_move_go root) (visited_null_go root) Hi).
Qed.

Theorem go_search_root_cache_transparent : forall root fuel s1 s2 d a b,
  go_eval_injective root ->
  eq_but_cache s1 s2 -> go_cache_sound root (s_cache s1) -> go_cache_sound root (s_cache s2) ->
  go_agree root (go_search_root fuel s1 root d a b) (go_search_root fuel s2 root d a b).
Proof.
  intros root fuel s1 s2 d a b Hi. unfold go_search_root.
  apply (search_root_cache_transparent go_keys go_econsts go_oconsts go_sconsts (visited go_keys root)
           (visited_move_go root) (visited_null_go root) Hi). constructor.
Qed.

Theorem go_search_iterative_cache_transparent : forall root iters fuel rep s1 s2 md d a b,
  go_eval_injective root ->
  eq_but_cache s1 s2 -> go_cache_sound root (s_cache s1) -> go_cache_sound root (s_cache s2) ->
  go_agree root (go_search_iterative iters fuel rep s1 root md d a b) (go_search_iterative iters fuel rep s2 root md d a b).
Proof.
  intros root iters fuel rep s1 s2 md d a b Hi. unfold go_search_iterative.
  apply (search_iterative_cache_transparent go_keys go_econsts go_oconsts go_sconsts (visited go_keys root)
           (visited_move_go root) (visited_null_go root) Hi). constructor.
Qed.

(* THE MAIN THEOREM.  Two engine states that differ in the evaluation cache only, both caches sound for the
   positions the search can visit from [root]: Search answers the same (move, cancellation, ...), prints the
   same info lines, counts the same nodes, polls as often, leaves the same transposition table, heuristics
   and PV; the caches it leaves are sound again. *)
Theorem go_search_cache_transparent : forall root iters fuel rep s1 s2 req,
  go_eval_injective root ->
  eq_but_cache s1 s2 -> go_cache_sound root (s_cache s1) -> go_cache_sound root (s_cache s2) ->
  go_agree root (go_search iters fuel rep s1 root req) (go_search iters fuel rep s2 root req).
Proof.
  intros root iters fuel rep s1 s2 req Hi. unfold go_search.
  apply (search_cache_transparent go_keys go_econsts go_oconsts go_sconsts (visited go_keys root)
           (visited_move_go root) (visited_null_go root) Hi). constructor.
Qed.

(* the same, spelled out *)
Corollary go_search_cache_transparent_explicit : forall root iters fuel rep s1 s2 req r1 s1' r2 s2',
  go_eval_injective root ->
  eq_but_cache s1 s2 -> go_cache_sound root (s_cache s1) -> go_cache_sound root (s_cache s2) ->
  go_search iters fuel rep s1 root req = (r1, s1') ->
  go_search iters fuel rep s2 root req = (r2, s2') ->
  r1 = r2 /\ s_out s1' = s_out s2' /\ s_nodes s1' = s_nodes s2' /\ s_polls s1' = s_polls s2' /\
  s_tt s1' = s_tt s2' /\ s_killers s1' = s_killers s2' /\ s_history s1' = s_history s2' /\
  s_counter s1' = s_counter s2' /\ s_pv s1' = s_pv s2' /\ s_hist s1' = s_hist s2' /\ s_cancel s1' = s_cancel s2' /\
  go_cache_sound root (s_cache s1') /\ go_cache_sound root (s_cache s2').
Proof.
  intros root iters fuel rep s1 s2 req r1 s1' r2 s2' Hi He H1 H2 E1 E2.
  pose proof (go_search_cache_transparent root iters fuel rep s1 s2 req Hi He H1 H2) as H.
  rewrite E1, E2 in H. destruct H as (Hr & Hs & Hc1 & Hc2). cbn [fst snd] in *.
  unfold eq_but_cache in Hs. intuition.
Qed.

(* from any sound cache: exactly what the search does from the empty cache *)
Theorem go_search_as_from_empty_cache : forall root iters fuel rep s req,
  go_eval_injective root -> go_hash_nonzero root -> go_cache_sound root (s_cache s) ->
  go_agree root (go_search iters fuel rep (upd_cache s []) root req) (go_search iters fuel rep s root req).
Proof.
  intros root iters fuel rep s req Hi Hnz Hs. unfold go_search.
  apply (search_as_from_empty_cache go_keys go_econsts go_oconsts go_sconsts (visited go_keys root)
           (visited_move_go root) (visited_null_go root) Hi); [constructor|exact Hnz|exact Hs].
Qed.

(* ------------------------------------------------------------------ sessions *)
(* a universe for several roots: everything the search can visit from [root0], e.g. the first position of
   the game, when all the searched positions come from it *)
Lemma go_cache_sound_later : forall root0 root c,
  visited go_keys root0 root -> go_cache_sound root0 c -> go_cache_sound root c.
Proof.
  intros root0 root c V Hs p Vp. apply Hs. eapply visited_trans; eauto.
Qed.

Lemma go_eval_injective_later : forall root0 root,
  visited go_keys root0 root -> go_eval_injective root0 -> go_eval_injective root.
Proof.
  intros root0 root V Hi p q Vp Vq. apply Hi; eapply visited_trans; eauto.
Qed.

Lemma go_search_keeps_sound : forall root0 root iters fuel rep s req,
  go_eval_injective root0 -> visited go_keys root0 root -> go_cache_sound root0 (s_cache s) ->
  go_cache_sound root0 (s_cache (snd (go_search iters fuel rep s root req))).
Proof.
  intros root0 root iters fuel rep s req Hi V Hs. unfold go_search.
  apply (search_keeps_cache_sound go_keys go_econsts go_oconsts go_sconsts (visited go_keys root0)
           (visited_move_go root0) (visited_null_go root0) Hi); assumption.
Qed.

(* the evaluation cache any session of searches leaves (from a fresh engine; positions searched: [roots];
   anything may happen between the searches except a write to the tables) is sound *)
Theorem session_cache_sound : forall root0 roots s,
  go_eval_injective root0 -> go_hash_nonzero root0 ->
  (forall r, In r roots -> visited go_keys root0 r) ->
  session roots s -> go_cache_sound root0 (s_cache s).
Proof.
  intros root0 roots s Hi Hnz HV Hs.
  induction Hs as [c|roots s root1 iters fuel rep req r s' Hs IH H1 E|roots s s2 Hs IH Et Ec].
  - apply cache_sound_on_empty. exact Hnz.
  - pose proof (go_search_keeps_sound root0 root1 iters fuel rep s req Hi (HV root1 (or_introl eq_refl))) as Hk.
    rewrite E in Hk. apply Hk. apply IH. intros r1 Hin. apply HV. right. exact Hin.
  - unfold go_cache_sound. rewrite Ec. apply IH. exact HV.
Qed.

(* hence: whatever was searched before in the session, the next search answers, prints and counts exactly
   what it would with the evaluation cache emptied first *)
Theorem session_search_as_from_empty_cache : forall root0 roots s root iters fuel rep req,
  go_eval_injective root0 -> go_hash_nonzero root0 ->
  (forall r, In r (root :: roots) -> visited go_keys root0 r) ->
  session roots s ->
  go_agree root0 (go_search iters fuel rep (upd_cache s []) root req) (go_search iters fuel rep s root req).
Proof.
  intros root0 roots s root iters fuel rep req Hi Hnz HV Hs. unfold go_search.
  apply (search_as_from_empty_cache go_keys go_econsts go_oconsts go_sconsts (visited go_keys root0)
           (visited_move_go root0) (visited_null_go root0) Hi).
  - apply HV. left. reflexivity.
  - exact Hnz.
  - apply (session_cache_sound root0 roots s Hi Hnz); [|exact Hs]. intros r Hin. apply HV. right. exact Hin.
Qed.

Print Assumptions go_quiescence_cache_transparent.
Print Assumptions go_negamax_cache_transparent.
Print Assumptions go_search_root_cache_transparent.
Print Assumptions go_search_iterative_cache_transparent.
Print Assumptions go_search_cache_transparent.
Print Assumptions go_search_cache_transparent_explicit.
Print Assumptions go_search_as_from_empty_cache.
Print Assumptions session_cache_sound.
Print Assumptions session_search_as_from_empty_cache.
