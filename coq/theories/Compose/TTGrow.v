(* C14 lifted to whole searches, part 1: what a call of the search does to the transposition table.
   Nothing is instrumented.  For a table [t0] and a predicate [P] on save records: [Grown t] - the table t
   is t0 with a list of [tt_save]s applied, each of them satisfying P.  Every call of [quiescence],
   [negamax], [search_root], [search_iterative], [search] that starts on a Grown table ends on a Grown
   table, whatever it returns, provided P holds of every record a node can store: the hash of a position
   of the universe, a depth above 0, a node type <= 2 (exact, upper, lower bound), the age given to the
   call.  The lemmas about the pieces of [negamax] are stated for an ARBITRARY recursive call [rec] that
   keeps Grown tables Grown when applied to a position of the universe on a Grown table ([inner_G]): the
   pieces apply [rec] to nothing else, i.e. every node inside a search starts on a Grown table. *)
From Coq Require Import NArith ZArith List Bool FMapPositive Lia.
From Clemens Require Import Base.Res Base.Word Pos.Types Att.Attacks Pos.Position Eval.Eval
     Search.TT Search.TTProofs Search.Ordering Search.Negamax Search.SearchStruct Search.SearchLines.
From Clemens.C13Mate Require Import MateDefs.
Import ListNotations.
Open Scope Z_scope.

Lemma cut_state_tt : forall OC s p depth ply pm bm m qt,
  s_tt (nm_cut_state OC s p depth ply pm bm m qt) = s_tt s.
Proof.
  intros. unfold nm_cut_state. destruct qt; [|reflexivity].
  destruct (killers_at s ply) as [k0 k1].
  repeat match goal with |- context [if ?b then _ else _] => destruct b end; reflexivity.
Qed.

Section Grow.
Variable K : zkeys.
Variable EC : econsts.
Variable OC : oconsts.
Variable SC : sconsts.
(* the universe of positions the search may visit *)
Variable U : position -> Prop.
Hypothesis U_move : forall p m q, U p -> movable p m -> make_move K p m = Ok q -> is_legal q = Ok true -> U q.
Hypothesis U_null : forall p q x, U p -> is_in_check p (side p) = Ok false -> make_null_move K p = Ok (q, x) -> U q.
(* the age (root half-move clock) handed down to every node of the call *)
Variable rh : N.
(* the table the growth is measured from *)
Variable t0 : tt_state.
(* what is known of a stored record *)
Variable P : save_rec -> Prop.
Hypothesis P_node : forall p m d sc nt,
  U p -> (0 < d)%N -> (nt <= 2)%N ->
  P {| sv_hash := hash p; sv_move := m; sv_depth := d; sv_score := sc; sv_nt := nt; sv_age := rh |}.

Notation nb := (sc_tt_buckets SC).

Definition Grown (t : tt_state) : Prop :=
  exists saves, t = fold_left (tt_save_rec nb) saves t0 /\ Forall P saves.

Lemma Grown_t0 : Grown t0.
Proof. exists []. split; [reflexivity|constructor]. Qed.

Lemma Grown_save : forall t sv, Grown t -> P sv -> Grown (tt_save_rec nb t sv).
Proof.
  intros t sv (saves & -> & HP) Hsv. exists (saves ++ [sv]). split.
  - rewrite fold_left_app. reflexivity.
  - apply Forall_app. split; [exact HP|constructor; [exact Hsv|constructor]].
Qed.

Definition G (s : sst) : Prop := Grown (s_tt s).
Definition specG {A} (x : sresult A * sst) : Prop := G (snd x).

Definition nt_ok (L : lst) : Prop := (l_node_type L <= 2)%N.
(* the move loop: also the node type it leaves *)
Definition specL (x : sresult (lst * bool) * sst) : Prop :=
  G (snd x) /\ match fst x with ROk (L, _) => nt_ok L | _ => True end.

Lemma evaluate_G : forall s p, G s ->
  match evaluate EC s p with ROk (v, s1) => G s1 | _ => True end.
Proof.
  intros s p Hs. unfold evaluate. destruct (eval_cached EC (s_cache s) p) as [[v c]| |]; auto.
Qed.

Lemma cut_G : forall s p depth ply pm bm m qt, G s -> G (nm_cut_state OC s p depth ply pm bm m qt).
Proof. intros. unfold G. rewrite cut_state_tt. assumption. Qed.

Lemma snm_G : forall s p beta depth ic pv, G s ->
  match nm_snm EC SC s p beta depth ic pv with ROk (_, s1) => G s1 | _ => True end.
Proof.
  intros s p beta depth ic pv Hs; unfold nm_snm.
  destruct (negb ic && negb pv && negb (is_checkmate_value EC beta)); [|exact Hs].
  pose proof (evaluate_G s p Hs) as He. destruct (evaluate EC s p) as [[v s1]| | |]; auto.
Qed.

Lemma fpr_G : forall s p alpha beta depth ic pv, G s ->
  match nm_fpr EC SC s p alpha beta depth ic pv with ROk (_, s1) => G s1 | _ => True end.
Proof.
  intros s p alpha beta depth ic pv Hs; unfold nm_fpr.
  match goal with |- context [if ?b then _ else _] => destruct b end; [|exact Hs].
  pose proof (evaluate_G s p Hs) as He. destruct (evaluate EC s p) as [[v s1]| | |]; auto.
  destruct (nthz (sc_fut_margin SC) depth); auto.
Qed.

Ltac saneG := first [ assumption | projs; assumption | apply cut_G; saneG ].
Ltac movG :=
  match goal with
  | Hm : forall x, In x ?ms -> movable ?p x |- movable ?p ?m =>
      apply Hm; first [ eapply nth_error_In; eassumption
                      | eapply sort_index_in; eapply nth_error_In; eassumption ]
  end.
Ltac uG := first [ assumption
                 | eapply U_move; [ | | eassumption | eassumption]; [assumption|movG]
                 | eapply U_null; [ | | eassumption]; assumption ].

Ltac basicG x :=
  lazymatch x with
  | poll ?s =>
      let Hp := fresh "Hp" in
      assert (Hp : G (snd (poll s))) by (unfold G; cbn [poll snd s_tt]; saneG);
      destruct (poll s) as [[|] ?]; cbn [snd] in Hp
  | evaluate EC ?s ?p =>
      let He := fresh "He" in
      assert (He := evaluate_G s p ltac:(saneG));
      destruct (evaluate EC s p) as [[? ?]| | |]
  | nm_snm EC SC ?s ?p ?b ?d ?ic ?pv =>
      let He := fresh "He" in
      assert (He := snm_G s p b d ic pv ltac:(saneG));
      destruct (nm_snm EC SC s p b d ic pv) as [[[?|] ?]| | |]
  | nm_fpr EC SC ?s ?p ?a ?b ?d ?ic ?pv =>
      let He := fresh "He" in
      assert (He := fpr_G s p a b d ic pv ltac:(saneG));
      destruct (nm_fpr EC SC s p a b d ic pv) as [[? ?]| | |]
  end.
Ltac stepG calls :=
  lazymatch goal with
  | |- specG (match ?x with _ => _ end) => first [ basicG x | calls x | destruct x eqn:? ]
  | |- specL (match ?x with _ => _ end) => first [ basicG x | calls x | destruct x eqn:? ]
  end.
Ltac leafG :=
  try match goal with |- context [contempt EC ?p] => destruct (contempt EC p) end; cbn [of_res bind];
  unfold specG; cbn [snd]; unfold G in *; saneG.
Ltac leafL :=
  unfold specL; cbn [fst snd];
  (split; [unfold G in *; first [saneG | rewrite cut_state_tt; saneG]
          | try exact I; unfold nt_ok in *; cbn [l_node_type]; first [assumption | unfold BetaNode, PVNode, AlphaNode; lia]]).

(* ------------------------------------------------------------------ quiescence: no table access at all *)
Section WithQRec.
Variable qrec : q_rec.
Hypothesis Hq : forall s q a b pl, G s -> specG (qrec s q a b pl).

Ltac qrecG x :=
  lazymatch x with
  | qrec ?s ?q ?a ?b ?pl =>
      let Hc := fresh "Hc" in
      assert (Hc := Hq s q a b pl ltac:(saneG));
      destruct (qrec s q a b pl) as [[?| | |] ?]; unfold specG in Hc; cbn [snd] in Hc
  end.

Lemma qloop_G : forall p sp beta ply k i ms s alpha, G s ->
  specG (q_loop K EC qrec p sp beta ply k i ms s alpha).
Proof.
  intros p sp beta ply k; induction k as [|k IH]; intros i ms s alpha Hs.
  - cbn. leafG.
  - unfold q_loop; fold (q_loop K EC qrec p sp beta ply). cbv zeta.
    repeat first [ lazymatch goal with
                   | |- specG (q_loop K EC qrec p sp beta ply k ?i ?ms ?s ?a) => apply IH; saneG
                   end
                 | stepG qrecG ].
    all: leafG.
Qed.
End WithQRec.

Theorem quiescence_G : forall f s p alpha beta ply, G s ->
  specG (quiescence K EC OC SC f s p alpha beta ply).
Proof.
  induction f as [|f IH]; intros s p alpha beta ply Hs.
  - cbn. leafG.
  - rewrite quiescence_eq. cbv zeta.
    repeat first [ lazymatch goal with
                   | |- specG (q_loop K EC ?r ?p ?sp ?b ?pl ?k ?i ?ms ?s ?a) => apply (qloop_G r IH); saneG
                   end
                 | stepG ltac:(fun x => fail) ].
    all: leafG.
Qed.

(* ------------------------------------------------------------------ negamax *)
Section WithRec.
Variable rec : nm_rec.
(* the recursive call: anything that keeps a Grown table Grown when applied to a position of the universe *)
Hypothesis Hrec : forall s q a b d pl cn pm, U q -> G s -> specG (rec s q a b d pl cn pm rh).

Ltac recG x :=
  lazymatch x with
  | rec ?s ?q ?a ?b ?d ?pl ?cn ?pm rh =>
      let Hc := fresh "Hc" in
      assert (Hc := Hrec s q a b d pl cn pm ltac:(uG) ltac:(saneG));
      destruct (rec s q a b d pl cn pm rh) as [[[? ?]| | |] ?]; unfold specG in Hc; cbn [snd] in Hc
  end.

Lemma pvs_G : forall s q alpha beta d1 pl1 pm lg, U q -> G s ->
  specG (nm_pvs rec s q alpha beta d1 pl1 pm rh lg).
Proof. intros; unfold nm_pvs. cbv zeta. repeat stepG recG. all: leafG. Qed.

Lemma nmp_G : forall s p beta depth ply cn ic pv, U p -> is_in_check p (side p) = Ok ic -> G s ->
  specG (nm_nmp K EC rec s p beta depth ply cn ic pv rh).
Proof.
  intros s p beta depth ply cn ic pv Hu Hic Hs; unfold nm_nmp. cbv zeta.
  destruct ic; [rewrite !andb_false_r; cbn [andb]; leafG|].
  repeat stepG recG. all: leafG.
Qed.

Ltac recG2 x :=
  lazymatch x with
  | nm_pvs rec ?s ?q ?a ?b ?d ?pl ?pm rh ?lg =>
      let Hc := fresh "Hc" in
      assert (Hc := pvs_G s q a b d pl pm lg ltac:(uG) ltac:(saneG));
      destruct (nm_pvs rec s q a b d pl pm rh lg) as [[[? ?]| | |] ?]; unfold specG in Hc; cbn [snd] in Hc
  end.

Lemma loop_G : forall p beta depth ply pm fp k i ms s L, U p -> (forall x, In x ms -> movable p x) -> G s -> nt_ok L ->
  specL (nm_loop K OC rec p beta depth ply pm rh fp k i ms s L).
Proof.
  intros p beta depth ply pm fp k; induction k as [|k IH]; intros i ms s L Hu Hms Hs Hnt.
  - cbn. leafL.
  - unfold nm_loop; fold (nm_loop K OC rec p beta depth ply pm rh fp). cbv zeta.
    repeat first [ lazymatch goal with
                   | |- specL (nm_loop K OC rec p beta depth ply pm rh fp k ?i ?ms ?s ?L) =>
                       apply IH; [exact Hu|apply movable_sorted; exact Hms|saneG
                                 |unfold nt_ok in *; cbn [l_node_type]; first [assumption | unfold PVNode; lia]]
                   end
                 | stepG recG2 ].
    all: leafL.
Qed.

(* between pushHistory and popHistory: the probe, the pruning steps, the move loop, the store *)
Lemma inner_G : forall s p alpha beta depth ply cn pm ic,
  U p -> is_in_check p (side p) = Ok ic -> (0 < depth)%N -> G s ->
  specG (nm_inner K EC OC SC rec s p alpha beta depth ply cn pm rh ic).
Proof.
  intros s p alpha beta depth ply cn pm ic Hu Hic Hd Hs; unfold nm_inner. cbv zeta.
  repeat stepG ltac:(fun x =>
    lazymatch x with
    | nm_nmp K EC rec ?s ?p ?b ?d ?pl ?cn ?ic ?pv rh =>
        let Hc := fresh "Hc" in
        assert (Hc := nmp_G s p b d pl cn ic pv ltac:(uG) Hic ltac:(saneG));
        destruct (nm_nmp K EC rec s p b d pl cn ic pv rh) as [[[?|]| | |] ?]; unfold specG in Hc; cbn [snd] in Hc
    | nm_loop K OC rec ?p ?b ?d ?pl ?pm rh ?fp ?k ?i ?ms ?s ?L =>
        let Hc := fresh "Hc" in
        assert (Hc := loop_G p b d pl pm fp k i ms s L ltac:(uG)
                              ltac:(eapply movable_scored; [left; eassumption|eassumption]) ltac:(saneG)
                              ltac:(unfold nt_ok, AlphaNode; cbn [l_node_type]; lia));
        destruct (nm_loop K OC rec p b d pl pm rh fp k i ms s L) as [[[? ?]| | |] ?];
        unfold specL in Hc; cbn [fst snd] in Hc; destruct Hc as [Hc ?]
    end).
  all: try (leafG; fail).
  (* the table write *)
  unfold specG; cbn [snd]. unfold G; projs.
  match goal with |- Grown (tt_save _ (s_tt ?s) ?h ?m ?d ?sc ?nt ?age) =>
    change (Grown (tt_save_rec nb (s_tt s)
              {| sv_hash := h; sv_move := m; sv_depth := d; sv_score := sc; sv_nt := nt; sv_age := age |})) end.
  apply Grown_save; [saneG|]. apply P_node; assumption.
Qed.
End WithRec.

Theorem negamax_G : forall f s p alpha beta depth ply cn pm, U p -> G s ->
  specG (negamax K EC OC SC f s p alpha beta depth ply cn pm rh).
Proof.
  induction f as [|f IH]; intros s p alpha beta depth ply cn pm Hu Hs.
  - cbn. leafG.
  - rewrite negamax_eq. cbv zeta.
    repeat stepG ltac:(fun x =>
      lazymatch x with
      | quiescence K EC OC SC ?f ?s ?p ?a ?b ?pl =>
          let Hc := fresh "Hc" in
          assert (Hc := quiescence_G f s p a b pl ltac:(saneG));
          destruct (quiescence K EC OC SC f s p a b pl) as [[?| | |] ?]; unfold specG in Hc; cbn [snd] in Hc
      | push_history SC ?s ?p =>
          let Hh := fresh "Hh" in pose proof (push_A SC s p) as Hh;
          destruct (push_history SC s p) as [?| | |]; [subst| | |]
      end).
    all: try (leafG; fail).
    match goal with
    | |- context [nm_inner K EC OC SC ?r ?s ?p ?a ?b ?d ?pl ?cn ?pm ?rh0 ?ic] =>
        assert (Hd : (0 < d)%N) by (match goal with H : (d =? 0)%N = false |- _ => apply N.eqb_neq in H; lia end);
        pose proof (inner_G r IH s p a b d pl cn pm ic Hu ltac:(eassumption) Hd ltac:(saneG)) as Hin;
        destruct (nm_inner K EC OC SC r s p a b d pl cn pm rh0 ic) as [r1 s1]
    end.
    unfold specG in *; cbn [fst snd] in *. unfold G in *; projs. exact Hin.
Qed.

(* ------------------------------------------------------------------ whole calls *)
Lemma search_root_G : forall fuel s root d a b, U root -> hmc root = rh -> G s ->
  specG (search_root K EC OC SC fuel s root d a b).
Proof.
  intros fuel s root d a b Hu Hh Hs. unfold search_root. rewrite Hh. apply negamax_G; [exact Hu|exact Hs].
Qed.

Lemma search_iterative_G : forall root iters fuel rep md s d a b, U root -> hmc root = rh -> G s ->
  specG (search_iterative K EC OC SC iters fuel rep s root md d a b).
Proof.
  intros root iters fuel rep md. induction iters as [|it IH]; intros s d a b Hu Hh Hs.
  - exact Hs.
  - cbn [search_iterative].
    destruct (md <? d)%N; [exact Hs|].
    pose proof (search_root_G fuel s root d a b Hu Hh Hs) as Hk.
    destruct (search_root K EC OC SC fuel s root d a b) as [[[score line]| | |] s0]; unfold specG in Hk; cbn [snd] in Hk;
      try exact Hk.
    match goal with |- context [if ?c then _ else _] => destruct c end; apply IH; auto.
Qed.

Theorem search_G : forall root iters fuel rep s req, U root -> hmc root = rh -> G s ->
  specG (search K EC OC SC iters fuel rep s root req).
Proof.
  intros root iters fuel rep s req Hu Hh Hs. unfold search. cbv zeta.
  match goal with |- context [search_iterative K EC OC SC iters fuel rep s root ?md 1%N ?a ?b] =>
    pose proof (search_iterative_G root iters fuel rep md s 1%N a b Hu Hh Hs) as K1;
    destruct (search_iterative K EC OC SC iters fuel rep s root md 1%N a b) as [r1 s1] end.
  unfold specG in K1; cbn [snd] in K1.
  destruct r1 as [[]| | |]; try exact K1.
  destruct (best_move s1 =? NULL_MOVE)%N; [|exact K1].
  assert (K1' : G (set_cancel s1 None)) by exact K1.
  match goal with |- context [search_iterative K EC OC SC iters fuel rep ?s0 root ?md 1%N ?a ?b] =>
    pose proof (search_iterative_G root iters fuel rep md s0 1%N a b Hu Hh K1') as K2;
    destruct (search_iterative K EC OC SC iters fuel rep s0 root md 1%N a b) as [r2 s2] end.
  unfold specG in K2; cbn [snd] in K2.
  destruct r2 as [[]| | |]; exact K2.
Qed.

End Grow.
