(* C14 lifted to whole searches, part 3: executable examples.  A depth-3 search of the start position on a
   fresh engine; the table it leaves ([table1]) is a session table with 79 occupied slots.
   * the root hash is not 0 and a probe for it is usable: [session_probe_justified] applies, not vacuously;
   * the probe a node below the root would make (after 1.b2b3, null window (0,1), depth 2, ply 1) is usable:
     the record that justifies it was stored by a node of the first search;
   * a second search on that table (new search object, same evaluation cache) visits 237 nodes instead of 538
     (the cutoffs are taken) and prints other lines: unlike the evaluation cache, the transposition table is
     not transparent. *)
From Coq Require Import NArith ZArith List Bool FMapPositive Lia String.
From Clemens Require Import Base.Res Base.Word Pos.Types Att.Attacks Pos.Position Eval.Eval
     Search.TT Search.TTProofs Search.Ordering Search.Negamax Search.SearchStruct Search.SearchLines Search.GoInst.
From ClemensGen Require Import GoConsts.
From Clemens.C13Mate Require Import MateDefs MateExamples.
From Clemens.C13Bridge Require Import Bridge Seq.
From Clemens.Compose Require Import TTGrow TTSession.
Import ListNotations.
Open Scope Z_scope.

Definition start_fen : string := "rnbqkbnr/pppppppp/8/8/8/8/PPPPPPPP/RNBQKBNR w KQkq - 0 1".
Definition start : position := root_of start_fen.

(* the table and the cache a depth-3 search on a fresh engine leaves *)
Definition table1 : tt_state := s_tt (snd (go_search 20 200 true (go_empty_sst None) start 3)).
Definition cache1 : ecache := s_cache (snd (go_search 20 200 true (go_empty_sst None) start 3)).

Example table1_session : session_table [start] table1.
Proof.
  unfold table1. apply go_search_keeps_session_table.
  exists []. split; [reflexivity|constructor].
Qed.

Example first_search_observed :
  fst (go_search 20 200 true (go_empty_sst None) start 3) = ROk 58983553%N /\
  s_nodes (snd (go_search 20 200 true (go_empty_sst None) start 3)) = 538%N /\ st_he table1 = 79%N.
Proof. vm_compute. repeat (split; [reflexivity|]). reflexivity. Qed.

(* a usable probe at the root hash *)
Example root_probe :
  hash start <> 0%N /\
  tt_get go_nb go_INF table1 (hash start) (-32767) 32767 3 0 = (50, true, 58983553%N).
Proof. split; [vm_compute; discriminate|vm_compute; reflexivity]. Qed.

Example root_probe_justified :
  exists sv, stored_in [start] sv /\ sv_hash sv = hash start /\
             explains go_INF sv (-32767) 32767 3 0 50 58983553%N.
Proof.
  destruct root_probe as [Hnz Hg].
  exact (session_probe_justified [start] table1 _ _ _ _ _ _ _ table1_session Hnz Hg).
Qed.

(* the probe of a node below the root: the position after b2b3, null window (0,1), depth 2, ply 1 *)
Definition b2b3 : N := 1544%N.
Definition child : position := match make_move go_keys start b2b3 with Ok q => q | _ => start end.

Example child_probe :
  hash child <> 0%N /\
  tt_get go_nb go_INF table1 (hash child) 0 1 2 1 = (1, true, 2099897%N).
Proof. split; [vm_compute; discriminate|vm_compute; reflexivity]. Qed.

Example child_probe_justified :
  exists sv, stored_in [start] sv /\ sv_hash sv = hash child /\ explains go_INF sv 0 1 2 1 1 2099897%N.
Proof.
  destruct child_probe as [Hnz Hg].
  exact (session_probe_justified [start] table1 _ _ _ _ _ _ _ table1_session Hnz Hg).
Qed.

(* the table is not transparent: a second search on it differs from the first *)
Definition second_search := go_search 20 200 true (go_init_sst table1 cache1 [] None) start 3.

Example second_search_observed :
  fst second_search = ROk 58983553%N /\ s_nodes (snd second_search) = 237%N /\
  s_out (snd second_search) =
    [EInfo 3 50 237 0 [58983553%N; 1247929%N; 58983750%N]; EWindow (-50) 50 50;
     EInfo 2 0 107 0 [65537153%N; 658105%N]; EWindow 0 100 0; EInfo 1 50 22 0 [1153%N]].
Proof. vm_compute. repeat (split; [reflexivity|]). reflexivity. Qed.

Print Assumptions table1_session.
Print Assumptions root_probe_justified.
Print Assumptions child_probe_justified.
Print Assumptions second_search_observed.
