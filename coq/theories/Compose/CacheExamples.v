(* C16 lifted to whole searches, part 5: executable examples.
   1. The start position at depth 2 and 3: from the empty cache and from the cache the previous search left,
      Search answers the same move and prints the same info lines (node counts included).
   2. Soundness of the cache cannot be dropped: the same cache with every score replaced by 900 (same
      hashes) makes Search play another move.
   3. All hypotheses of [go_search_cache_transparent] are met by a concrete root (White is checkmated:
      the search can visit nothing but the root) and a non-empty cache. *)
From Coq Require Import NArith ZArith List Bool FMapPositive Lia String.
From Clemens Require Import Base.Res Base.Word Pos.Types Att.Attacks Pos.Position Eval.Eval Eval.CacheProofs
     Search.TT Search.Ordering Search.Negamax Search.SearchStruct Search.SearchLines Search.GoInst Search.SearchGo.
From Clemens.C13Mate Require Import MateDefs MateExamples.
From Clemens.C13Bridge Require Import Bridge.
From Clemens.Compose Require Import CacheSound CacheLock CacheCalls CacheGo.
Import ListNotations.
Open Scope Z_scope.

Definition start_fen : string := "rnbqkbnr/pppppppp/8/8/8/8/PPPPPPPP/RNBQKBNR w KQkq - 0 1".
Definition start : position := root_of start_fen.

(* what can be observed of a run (the table itself is a function; its entry counter stands for it here) *)
Definition observed {A} (x : sresult A * sst) :=
  (fst x, s_out (snd x), s_nodes (snd x), s_polls (snd x), st_he (s_tt (snd x)), s_pv (snd x)).

(* a fresh engine *)
Definition first_run (d : N) := go_search 20 200 true (go_empty_sst None) start d.
(* a new search object on an empty table and the evaluation cache the first run left *)
Definition second_run (d : N) :=
  go_search 20 200 true (go_init_sst go_tt_init (s_cache (snd (first_run d))) [] None) start d.

Example start_depth2_same :
  observed (first_run 2) = observed (second_run 2) /\
  fst (first_run 2) = ROk 65537153%N /\
  s_out (snd (first_run 2)) =
    [EInfo 2 0 106 0 [65537153%N; 58985145%N]; EWindow 0 100 0; EInfo 1 50 22 0 [1153%N]] /\
  List.length (s_cache (snd (first_run 2))) = 59%nat.
Proof. vm_compute. repeat (split; [reflexivity|]). reflexivity. Qed.

Example start_depth3_same :
  observed (first_run 3) = observed (second_run 3) /\
  fst (first_run 3) = ROk 58983553%N /\
  s_nodes (snd (first_run 3)) = 538%N /\
  List.length (s_cache (snd (first_run 3))) = 330%nat.
Proof. vm_compute. repeat (split; [reflexivity|]). reflexivity. Qed.

(* the same hashes, every score replaced by 900: an unsound cache *)
Definition junk (c : ecache) : ecache := map (fun e => (fst e, (fst (snd e), 900))) c.
Definition junk_run (d : N) :=
  go_search 20 200 true (go_init_sst go_tt_init (junk (s_cache (snd (first_run d)))) [] None) start d.

Example unsound_cache_changes_the_move :
  fst (first_run 3) = ROk 58983553%N /\ fst (junk_run 3) = ROk 263169%N /\
  s_nodes (snd (first_run 3)) = 538%N /\ s_nodes (snd (junk_run 3)) = 189%N.
Proof. vm_compute. repeat (split; [reflexivity|]). reflexivity. Qed.

(* ------------------------------------------------------------------ the hypotheses are satisfiable *)
Definition mated_root : position := root_of fools_mate_fen.

Definition all_illegal_b (p : position) (g : list N) : bool :=
  forallb (fun m0 => match make_move go_keys p m0 with
                     | Ok q => match is_legal q with Ok false => true | _ => false end
                     | _ => false end) g.

Lemma mated_root_facts :
  is_in_check mated_root (side mated_root) = Ok true /\
  (exists g, gen_moves mated_root = Ok g /\ all_illegal_b mated_root g = true) /\
  (exists g, gen_captures mated_root = Ok g /\ all_illegal_b mated_root g = true) /\
  hash mated_root <> 0%N /\ (hmc mated_root < 100)%N.
Proof.
  split; [vm_compute; reflexivity|].
  split; [eexists; split; [vm_compute; reflexivity|vm_compute; reflexivity]|].
  split; [eexists; split; [vm_compute; reflexivity|vm_compute; reflexivity]|].
  split; [vm_compute; discriminate|vm_compute; reflexivity].
Qed.

(* a root that is in check and all of whose generated moves are illegal: the search can visit nothing else *)
Lemma only_root_visited : forall root g1 g2,
  is_in_check root (side root) = Ok true ->
  gen_moves root = Ok g1 -> all_illegal_b root g1 = true ->
  gen_captures root = Ok g2 -> all_illegal_b root g2 = true ->
  forall p, visited go_keys root p -> p = root.
Proof.
  intros root g1 g2 Hc' Hg1 Hb1 Hg2 Hb2 p V. induction V as [|p m q V IH Hm Hmk Hl|p q x V IH Hc Hn].
  - reflexivity.
  - exfalso. subst p.
    destruct Hm as (g & m0 & Hg & Hin & E).
    assert (Hb : all_illegal_b root g = true).
    { destruct Hg as [Hg|Hg]; [rewrite Hg1 in Hg|rewrite Hg2 in Hg]; injection Hg as <-; assumption. }
    unfold all_illegal_b in Hb. rewrite forallb_forall in Hb. specialize (Hb m0 Hin).
    rewrite <- (make_move_low go_keys root m), E, make_move_low in Hmk. rewrite Hmk, Hl in Hb. discriminate.
  - exfalso. subst p. rewrite Hc' in Hc. discriminate.
Qed.

Lemma mated_root_visited : forall p, visited go_keys mated_root p -> p = mated_root.
Proof.
  destruct mated_root_facts as (Hc & (g1 & Hg1 & Hb1) & (g2 & Hg2 & Hb2) & _).
  exact (only_root_visited mated_root g1 g2 Hc Hg1 Hb1 Hg2 Hb2).
Qed.

(* a non-empty cache: the one the depth-2 search of the start position left *)
Definition some_cache : ecache := s_cache (snd (first_run 2)).

Lemma some_cache_cold : snd (cache_get go_econsts some_cache (hash mated_root)) = false.
Proof. vm_compute. reflexivity. Qed.
Lemma some_cache_length : List.length some_cache = 59%nat.
Proof. vm_compute. reflexivity. Qed.

(* a universe that consists of one position *)
Lemma singleton_universe : forall r c,
  (forall p, visited go_keys r p -> p = r) -> hash r <> 0%N ->
  snd (cache_get go_econsts c (hash r)) = false ->
  go_eval_injective r /\ go_hash_nonzero r /\ go_cache_sound r [] /\ go_cache_sound r c.
Proof.
  intros r c HV Hnz Hcold.
  split; [|split; [|split]].
  - intros p q Vp Vq _ _ _. rewrite (HV p Vp), (HV q Vq). reflexivity.
  - intros p Vp _. rewrite (HV p Vp). exact Hnz.
  - apply cache_sound_on_empty. intros p Vp _. rewrite (HV p Vp). exact Hnz.
  - intros p Vp _ v Hg. rewrite (HV p Vp) in Hg. rewrite Hg in Hcold. discriminate.
Qed.

Example hypotheses_satisfiable :
  go_eval_injective mated_root /\ go_hash_nonzero mated_root /\
  go_cache_sound mated_root [] /\ go_cache_sound mated_root some_cache /\ List.length some_cache = 59%nat.
Proof.
  destruct mated_root_facts as (_ & _ & _ & Hnz & _).
  destruct (singleton_universe mated_root some_cache mated_root_visited Hnz some_cache_cold) as (H1 & H2 & H3 & H4).
  repeat (split; [assumption|]). exact some_cache_length.
Qed.

(* so, for this root, with no hypothesis left: *)
Example mated_root_search_same : forall iters fuel rep s req,
  s_cache s = some_cache ->
  go_agree mated_root (go_search iters fuel rep (upd_cache s []) mated_root req) (go_search iters fuel rep s mated_root req).
Proof.
  intros iters fuel rep s req Hc.
  destruct hypotheses_satisfiable as (H1 & H2 & _ & H4 & _).
  apply go_search_as_from_empty_cache; [exact H1|exact H2|rewrite Hc; exact H4].
Qed.

Print Assumptions start_depth2_same.
Print Assumptions start_depth3_same.
Print Assumptions unsound_cache_changes_the_move.
Print Assumptions hypotheses_satisfiable.
Print Assumptions mated_root_search_same.
