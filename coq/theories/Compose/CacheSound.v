(* C16 lifted to whole searches, part 1: vocabulary.
   * [eq_but_cache s1 s2]: two search states agree on everything except the evaluation cache.
   * [cache_sound_on EC U c]: C16's [cache_sound] for a universe given as a predicate: whatever entry a
     position of U with clock below 100 would hit tells the truth about that position.  Nothing is asked
     of the other entries (characterisation: [cache_sound_on_slots]).
   * [hash_injective_on U]: C16's [hash_injective] for a predicate, restricted to the positions the cache
     is consulted for (clock below 100): equal hashes imply equal [eval_key].
   * one evaluation through two sound caches: same result (failure class included), both caches stay
     sound ([eval_cached_two]).
   * every state update of the search commutes with a change of the cache (hint database [ucp]). *)
From Coq Require Import NArith ZArith List Bool FMapPositive Lia.
From Clemens Require Import Base.Res Base.Word Pos.Types Att.Attacks Pos.Position Eval.Eval Eval.CacheProofs
     Search.TT Search.Ordering Search.Negamax Search.SearchStruct.
Import ListNotations.
Open Scope Z_scope.

(* ------------------------------------------------------------------ states that differ in the cache only *)
Definition eq_but_cache (s1 s2 : sst) : Prop :=
  s_tt s1 = s_tt s2 /\ s_nodes s1 = s_nodes s2 /\ s_killers s1 = s_killers s2 /\
  s_history s1 = s_history s2 /\ s_counter s1 = s_counter s2 /\ s_hist s1 = s_hist s2 /\
  s_pv s1 = s_pv s2 /\ s_out s1 = s_out s2 /\ s_polls s1 = s_polls s2 /\ s_cancel s1 = s_cancel s2.

Lemma eq_but_cache_upd : forall s1 s2, eq_but_cache s1 s2 <-> s2 = upd_cache s1 (s_cache s2).
Proof.
  intros s1 s2. split.
  - intros (H1 & H2 & H3 & H4 & H5 & H6 & H7 & H8 & H9 & H10).
    destruct s1, s2; unfold upd_cache; cbn in *; subst; reflexivity.
  - intros ->. unfold eq_but_cache. cbn. repeat split; reflexivity.
Qed.

Lemma eq_but_cache_refl : forall s, eq_but_cache s s.
Proof. intro s. unfold eq_but_cache. repeat split; reflexivity. Qed.

Lemma eq_but_cache_sym : forall s1 s2, eq_but_cache s1 s2 -> eq_but_cache s2 s1.
Proof. intros s1 s2 H. unfold eq_but_cache in *. intuition congruence. Qed.

Lemma eq_but_cache_trans : forall s1 s2 s3, eq_but_cache s1 s2 -> eq_but_cache s2 s3 -> eq_but_cache s1 s3.
Proof. intros s1 s2 s3 H1 H2. unfold eq_but_cache in *. intuition congruence. Qed.

Lemma eq_but_cache_upd_cache : forall s c, eq_but_cache s (upd_cache s c).
Proof. intros s c. unfold eq_but_cache. cbn. repeat split; reflexivity. Qed.

(* ------------------------------------------------------------------ projections and updates *)
Lemma uc_tt : forall s c, s_tt (upd_cache s c) = s_tt s. Proof. reflexivity. Qed.
Lemma uc_cache : forall s c, s_cache (upd_cache s c) = c. Proof. reflexivity. Qed.
Lemma uc_nodes : forall s c, s_nodes (upd_cache s c) = s_nodes s. Proof. reflexivity. Qed.
Lemma uc_killers : forall s c, s_killers (upd_cache s c) = s_killers s. Proof. reflexivity. Qed.
Lemma uc_history : forall s c, s_history (upd_cache s c) = s_history s. Proof. reflexivity. Qed.
Lemma uc_counter : forall s c, s_counter (upd_cache s c) = s_counter s. Proof. reflexivity. Qed.
Lemma uc_hist : forall s c, s_hist (upd_cache s c) = s_hist s. Proof. reflexivity. Qed.
Lemma uc_pv : forall s c, s_pv (upd_cache s c) = s_pv s. Proof. reflexivity. Qed.
Lemma uc_out : forall s c, s_out (upd_cache s c) = s_out s. Proof. reflexivity. Qed.
Lemma uc_polls : forall s c, s_polls (upd_cache s c) = s_polls s. Proof. reflexivity. Qed.
Lemma uc_cancel : forall s c, s_cancel (upd_cache s c) = s_cancel s. Proof. reflexivity. Qed.

Lemma uc_upd_tt : forall s c v, upd_tt (upd_cache s c) v = upd_cache (upd_tt s v) c. Proof. reflexivity. Qed.
Lemma uc_upd_nodes : forall s c v, upd_nodes (upd_cache s c) v = upd_cache (upd_nodes s v) c. Proof. reflexivity. Qed.
Lemma uc_upd_killers : forall s c v, upd_killers (upd_cache s c) v = upd_cache (upd_killers s v) c. Proof. reflexivity. Qed.
Lemma uc_upd_history : forall s c v, upd_history (upd_cache s c) v = upd_cache (upd_history s v) c. Proof. reflexivity. Qed.
Lemma uc_upd_counter : forall s c v, upd_counter (upd_cache s c) v = upd_cache (upd_counter s v) c. Proof. reflexivity. Qed.
Lemma uc_upd_hist : forall s c v, upd_hist (upd_cache s c) v = upd_cache (upd_hist s v) c. Proof. reflexivity. Qed.
Lemma uc_upd_pv : forall s c v, upd_pv (upd_cache s c) v = upd_cache (upd_pv s v) c. Proof. reflexivity. Qed.
Lemma uc_emit : forall s c v, emit (upd_cache s c) v = upd_cache (emit s v) c. Proof. reflexivity. Qed.
Lemma uc_set_polls : forall s c v, set_polls (upd_cache s c) v = upd_cache (set_polls s v) c. Proof. reflexivity. Qed.
Lemma uc_set_cancel : forall s c v, set_cancel (upd_cache s c) v = upd_cache (set_cancel s v) c. Proof. reflexivity. Qed.
Lemma uc_uc : forall s c c', upd_cache (upd_cache s c) c' = upd_cache s c'. Proof. reflexivity. Qed.

Lemma uc_pop_history : forall s c, pop_history (upd_cache s c) = upd_cache (pop_history s) c.
Proof. reflexivity. Qed.
Lemma uc_halve_history : forall s c sd, halve_history (upd_cache s c) sd = upd_cache (halve_history s sd) c.
Proof. reflexivity. Qed.
Lemma uc_is_repetition : forall s c p, is_repetition (upd_cache s c) p = is_repetition s p.
Proof. reflexivity. Qed.
Lemma uc_hctx_of : forall s c p pv t ply, hctx_of (upd_cache s c) p pv t ply = hctx_of s p pv t ply.
Proof. reflexivity. Qed.
Lemma uc_killers_at : forall s c ply, killers_at (upd_cache s c) ply = killers_at s ply.
Proof. reflexivity. Qed.
Lemma uc_history_at : forall s c sd a b, history_at (upd_cache s c) sd a b = history_at s sd a b.
Proof. reflexivity. Qed.
Lemma uc_poll : forall s c, poll (upd_cache s c) = (fst (poll s), upd_cache (snd (poll s)) c).
Proof. reflexivity. Qed.
Lemma uc_best_move : forall s c, best_move (upd_cache s c) = best_move s.
Proof. reflexivity. Qed.

Definition lift0c (c : ecache) (r : sresult sst) : sresult sst :=
  match r with ROk s1 => ROk (upd_cache s1 c) | RCancel => RCancel | RPanic => RPanic | ROutOfFuel => ROutOfFuel end.

Lemma uc_push_history : forall SC s c p, push_history SC (upd_cache s c) p = lift0c c (push_history SC s p).
Proof. intros. unfold push_history. rewrite uc_hist. destruct (_ <? _)%N; reflexivity. Qed.

Lemma uc_cut_state : forall OC s c p depth ply pm bm m qt,
  nm_cut_state OC (upd_cache s c) p depth ply pm bm m qt = upd_cache (nm_cut_state OC s p depth ply pm bm m qt) c.
Proof.
  intros. unfold nm_cut_state. destruct qt; [|reflexivity].
  change (killers_at (upd_cache s c) ply) with (killers_at s ply). destruct (killers_at s ply) as [k0 k1].
  cbv zeta. unfold history_at, halve_history, upd_counter, upd_history, upd_killers, upd_cache.
  cbn [s_tt s_cache s_nodes s_killers s_history s_counter s_hist s_pv s_out s_polls s_cancel].
  repeat match goal with |- context [if ?b then _ else _] => destruct b eqn:? end; reflexivity.
Qed.

Lemma cut_state_cache : forall OC s p depth ply pm bm m qt,
  s_cache (nm_cut_state OC s p depth ply pm bm m qt) = s_cache s.
Proof.
  intros. unfold nm_cut_state. destruct qt; [|reflexivity].
  destruct (killers_at s ply) as [k0 k1].
  repeat match goal with |- context [if ?b then _ else _] => destruct b end; reflexivity.
Qed.

#[export] Hint Rewrite uc_tt uc_cache uc_nodes uc_killers uc_history uc_counter uc_hist uc_pv uc_out uc_polls uc_cancel
  uc_upd_tt uc_upd_nodes uc_upd_killers uc_upd_history uc_upd_counter uc_upd_hist uc_upd_pv uc_emit
  uc_set_polls uc_set_cancel uc_uc uc_pop_history uc_halve_history uc_is_repetition uc_hctx_of uc_killers_at uc_history_at
  uc_poll uc_best_move uc_push_history uc_cut_state : ucp.

(* ------------------------------------------------------------------ soundness over a predicate universe *)
Section Sound.
Variable EC : econsts.
Variable U : position -> Prop.

(* whatever entry a position of U with clock below 100 hits tells the truth about that position *)
Definition cache_sound_on (c : ecache) : Prop :=
  forall p, U p -> (hmc p < 100)%N ->
    forall v, cache_get EC c (hash p) = (v, true) -> eval_raw EC p = Ok v.

(* the same slot by slot: the entry (h, v) found in a slot must be true of every position of U with
   clock below 100 whose hash is exactly h (and that maps to this slot); an entry whose hash is the hash
   of no such position - e.g. of a position outside U - is unconstrained *)
Lemma cache_sound_on_slots : forall c,
  cache_sound_on c <->
  forall slot p, U p -> (hmc p < 100)%N -> (hash p mod ec_cache_size EC)%N = slot ->
    fst (cache_lookup c slot) = hash p -> eval_raw EC p = Ok (snd (cache_lookup c slot)).
Proof.
  intro c. unfold cache_sound_on, cache_get. split.
  - intros H slot p Hu Hlt <- Hh.
    apply (H p Hu Hlt).
    destruct (cache_lookup c (hash p mod ec_cache_size EC)) as [eh es]. cbn [fst snd] in *.
    subst eh. rewrite N.eqb_refl. reflexivity.
  - intros H p Hu Hlt v Hg.
    specialize (H _ p Hu Hlt eq_refl).
    destruct (cache_lookup c (hash p mod ec_cache_size EC)) as [eh es]. cbn [fst snd] in *.
    inversion Hg as [[E1 E2]]. subst v. apply N.eqb_eq in E2. rewrite <- (H E2). reflexivity.
Qed.

(* C16's predicate for a universe given as a list is this one *)
Lemma cache_sound_list : forall (Ul : list position) c,
  (forall p, U p <-> In p Ul) -> (cache_sound EC Ul c <-> cache_sound_on c).
Proof.
  intros Ul c HU. unfold cache_sound, cache_sound_on. split.
  - intros H p Hu Hlt v Hg. specialize (H p (proj1 (HU p) Hu) Hlt). rewrite Hg in H. exact (H eq_refl).
  - intros H p Hin Hlt. specialize (H p (proj2 (HU p) Hin) Hlt).
    destruct (cache_get EC c (hash p)) as [s found]. intros ->. exact (H s eq_refl).
Qed.

(* inside U, among the positions the cache is consulted for, equal hashes imply equal evaluation keys *)
Definition hash_injective_on : Prop :=
  forall p q, U p -> U q -> (hmc p < 100)%N -> (hmc q < 100)%N -> hash p = hash q -> eval_key p = eval_key q.

(* C16's form (without the clock restriction) is sufficient *)
Lemma hash_injective_on_of_full :
  (forall p q, U p -> U q -> hash p = hash q -> eval_key p = eval_key q) -> hash_injective_on.
Proof. intros H p q Hp Hq _ _. apply H; assumption. Qed.

Definition hash_nonzero_on : Prop := forall p, U p -> (hmc p < 100)%N -> hash p <> 0%N.

Lemma cache_sound_on_empty_iff :
  cache_sound_on [] <-> (forall p, U p -> (hmc p < 100)%N -> hash p = 0%N -> eval_raw EC p = Ok 0).
Proof.
  unfold cache_sound_on, cache_get. cbn [cache_lookup]. split.
  - intros H p Hu Hlt Hz. apply (H p Hu Hlt). rewrite Hz. reflexivity.
  - intros H p Hu Hlt v Hg.
    assert (E2 : (0 =? hash p)%N = true) by (injection Hg; auto).
    assert (E1 : v = 0) by (injection Hg; auto).
    apply N.eqb_eq in E2. subst v. apply H; auto.
Qed.

Lemma cache_sound_on_empty : hash_nonzero_on -> cache_sound_on [].
Proof.
  intro Hnz. apply cache_sound_on_empty_iff. intros p Hu Hlt Hz. exfalso. exact (Hnz p Hu Hlt Hz).
Qed.

Hypothesis U_inj : hash_injective_on.

Lemma cache_sound_on_save : forall c p v,
  cache_sound_on c -> U p -> (hmc p < 100)%N -> eval_raw EC p = Ok v ->
  cache_sound_on (cache_save EC c (hash p) v).
Proof.
  intros c p v Hs Hp Hlt Hv q Hq Hltq w.
  rewrite cache_get_save.
  destruct (hash p mod ec_cache_size EC =? hash q mod ec_cache_size EC)%N.
  - intro Hg. inversion Hg as [[E1 E2]]. subst w. apply N.eqb_eq in E2.
    rewrite <- Hv. apply eval_raw_key.
    + symmetry. apply U_inj; assumption.
    + unfold drawn_by_clock.
      assert ((100 <=? hmc q)%N = false) as -> by (apply N.leb_gt; exact Hltq).
      assert ((100 <=? hmc p)%N = false) as -> by (apply N.leb_gt; exact Hlt). reflexivity.
  - exact (Hs q Hq Hltq w).
Qed.

(* one evaluation through a sound cache (C16's step for a predicate universe) *)
Lemma eval_cached_on : forall c p,
  cache_sound_on c -> U p ->
  CacheProofs.score_of (eval_cached EC c p) = eval_raw EC p /\
  cache_sound_on (cache_after c (eval_cached EC c p)).
Proof.
  intros c p Hs Hp. unfold eval_cached.
  destruct (100 <=? hmc p)%N eqn:Hh.
  - rewrite (eval_raw_drawn EC p Hh).
    destruct (contempt EC p) as [s | |]; cbn [bind CacheProofs.score_of cache_after]; auto.
  - apply N.leb_gt in Hh.
    pose proof (Hs p Hp Hh) as Hc.
    destruct (cache_get EC c (hash p)) as [s found].
    destruct found.
    + cbn [CacheProofs.score_of cache_after]. split; [symmetry; apply Hc; reflexivity | assumption].
    + destruct (eval_raw EC p) as [v | |] eqn:Hv; cbn [bind CacheProofs.score_of cache_after].
      * split; [reflexivity |]. apply cache_sound_on_save; assumption.
      * split; [reflexivity | assumption].
      * split; [reflexivity | assumption].
Qed.

(* the same position through two sound caches *)
Lemma eval_cached_two : forall c1 c2 p,
  cache_sound_on c1 -> cache_sound_on c2 -> U p ->
  CacheProofs.score_of (eval_cached EC c1 p) = CacheProofs.score_of (eval_cached EC c2 p) /\
  cache_sound_on (cache_after c1 (eval_cached EC c1 p)) /\
  cache_sound_on (cache_after c2 (eval_cached EC c2 p)).
Proof.
  intros c1 c2 p H1 H2 Hp.
  destruct (eval_cached_on c1 p H1 Hp) as [A1 B1].
  destruct (eval_cached_on c2 p H2 Hp) as [A2 B2].
  split; [congruence | split; assumption].
Qed.

(* [evaluate] (Negamax.v) from a state and from the same state with another sound cache *)
Lemma evaluate_two : forall s c2 p,
  cache_sound_on (s_cache s) -> cache_sound_on c2 -> U p ->
  match evaluate EC s p with
  | ROk (v, s1) => exists c2', evaluate EC (upd_cache s c2) p = ROk (v, upd_cache s1 c2') /\
                                cache_sound_on c2' /\ cache_sound_on (s_cache s1)
  | RPanic => evaluate EC (upd_cache s c2) p = RPanic
  | _ => False
  end.
Proof.
  intros s c2 p H1 H2 Hp. unfold evaluate. rewrite uc_cache.
  destruct (eval_cached_two (s_cache s) c2 p H1 H2 Hp) as (E & S1 & S2).
  destruct (eval_cached EC (s_cache s) p) as [[v c1']| |];
    destruct (eval_cached EC c2 p) as [[v2 c2']| |]; cbn [CacheProofs.score_of cache_after] in *; try discriminate; try reflexivity.
  inversion E; subst v2. exists c2'. split; [reflexivity|]. split; assumption.
Qed.

End Sound.
