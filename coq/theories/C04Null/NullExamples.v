(* C04 (g): executable examples and the witnesses for the hypotheses of C04Null.NullGo.
   - a stalemated and a checkmated root are answered with the null move (immediate timeout);
   - a root with exactly one legal move is answered with it (immediate timeout);
   - the hypotheses of [null_only_without_moves_legal] are met by non-trivial states;
   - [cache_sane] cannot be dropped: one junk cache entry makes the engine answer the null move at a
     root that has a legal move;
   - [few_gen] is NOT needed: at a root with exactly 256 legal moves the uint8 counter wraps to 0, the
     root takes the "no legal move" exit and reports the contempt score - but with the line collected
     so far, so the answer is still a move. *)
From Coq Require Import NArith ZArith List Bool FMapPositive Lia String.
From Clemens Require Import Base.Res Base.Word Pos.Types Att.Attacks Pos.Position Pos.Inv Eval.Eval
     Search.TT Search.Ordering Search.Negamax Search.SearchStruct Search.SearchLines
     Search.SearchIter Search.GoInst Search.SearchGo.
From Clemens.C13Mate Require Import MateDefs MateRange MateExamples.
From Clemens.C13Bridge Require Import Bridge Seq Few.
From Clemens.C04Null Require Import NullRoot NullGo.
Import ListNotations.
Open Scope Z_scope.

(* split conjunctions only ([split] on an equation would try to convert its two sides lazily) *)
Ltac conj_vm := repeat match goal with |- _ /\ _ => split end; vm_compute; reflexivity.

Definition stalemate_fen : string := "7k/5Q2/6K1/8/8/8/8/8 b - - 0 1".
Definition one_move_fen : string := "8/8/8/8/8/8/2k5/K7 w - - 0 1".
Definition a1a2 : N := 512.
Definition fen256 : string := "RNQQQQBk/Q5RB/Q6Q/Q6Q/Q6Q/Q6Q/Q6Q/KQQQQQQB w - - 0 1".

(* Search from a freshly started engine: the answer and the output (newest first) *)
Definition run (fen : string) (rep : bool) (c : option N) (req : N) : sresult N * list sevent :=
  let '(r, s) := go_search 10 200 rep (go_empty_sst c) (root_of fen) req in (r, s_out s).

(* ------------------------------------------------------------------ no legal move: the null move *)
(* stalemate, immediate timeout, default depth: only the fallback search runs; contempt score 0 *)
Example stalemate_answers_null :
  legal_pos (root_of stalemate_fen) /\
  legal_moves go_keys (root_of stalemate_fen) = Ok [] /\
  is_in_check (root_of stalemate_fen) (side (root_of stalemate_fen)) = Ok false /\
  run stalemate_fen true (Some 0%N) 0 = (ROk NULL_MOVE, [EInfo 1 0 1 0 []]) /\
  run stalemate_fen false (Some 0%N) 0 = (ROk NULL_MOVE, [EInfo 1 0 1 0 []]).
Proof.
  split; [apply legal_pos_b_sound; vm_compute; reflexivity|].
  conj_vm.
Qed.

(* checkmate (fool's mate), immediate timeout: the null move with the repaired window test; the
   unrepaired test re-searches the full window for ever (defect D5) *)
Example checkmate_answers_null :
  legal_pos (root_of fools_mate_fen) /\
  legal_moves go_keys (root_of fools_mate_fen) = Ok [] /\
  is_in_check (root_of fools_mate_fen) (side (root_of fools_mate_fen)) = Ok true /\
  run fools_mate_fen true (Some 0%N) 0 = (ROk NULL_MOVE, [EInfo 1 (-32767) 1 0 []]) /\
  fst (run fools_mate_fen false (Some 0%N) 0) = ROutOfFuel.
Proof.
  split; [apply legal_pos_b_sound; vm_compute; reflexivity|].
  conj_vm.
Qed.

(* ------------------------------------------------------------------ one legal move: it is answered *)
Example one_move_answered :
  legal_pos (root_of one_move_fen) /\
  legal_moves go_keys (root_of one_move_fen) = Ok [a1a2] /\
  (mv_src a1a2, mv_dst a1a2) = (0%N, 8%N) /\
  run one_move_fen true (Some 0%N) 0 = (ROk a1a2, [EInfo 1 0 2 0 [a1a2]]) /\
  run one_move_fen false (Some 0%N) 0 = (ROk a1a2, [EInfo 1 0 2 0 [a1a2]]).
Proof.
  split; [apply legal_pos_b_sound; vm_compute; reflexivity|].
  conj_vm.
Qed.

(* ------------------------------------------------------------------ the hypotheses are met *)
(* by the fresh engine at the start position ... *)
Example hyps_met_fresh : forall p c,
  new_position go_keys = Ok p ->
  legal_pos p /\ cache_sane go_econsts (s_cache (go_empty_sst c)) /\ s_pv (go_empty_sst c) = [].
Proof.
  intros p c H. split; [eapply start_legal; eauto|]. split; [apply cache_sane_nil|]; reflexivity.
Qed.

(* ... and by a state with a filled table and cache: after a depth-2 search from the first C13 example
   root, a new search object on the tables it left, at the one-move root *)
Example hyps_met_session :
  let s1 := snd (go_search 20 200 true (go_empty_sst None) (root_of fen1) 2) in
  let s := go_init_sst (s_tt s1) (s_cache s1) [] (Some 5%N) in
  session [root_of fen1] s /\ cache_sane go_econsts (s_cache s) /\ s_cache s <> [] /\ st_he (s_tt s) <> 0%N /\
  legal_pos (root_of one_move_fen) /\
  fst (go_search 10 200 true s (root_of one_move_fen) 3) = ROk a1a2.
Proof.
  intros s1 s.
  assert (Hs : session [root_of fen1] s) by exact (proj1 session_example).
  split; [exact Hs|]. split; [eapply session_cache_sane; exact Hs|].
  split; [vm_compute; discriminate|]. split; [vm_compute; discriminate|].
  split; [apply legal_pos_b_sound; vm_compute; reflexivity|]. vm_compute. reflexivity.
Qed.

(* ------------------------------------------------------------------ cache_sane is needed *)
(* the one-move root, empty table, and an evaluation cache with ONE junk entry: +INF for the
   position after Ka1-a2.  The child (quiescence, stand-pat INF >= beta = INF) returns INF, the move
   scores -INF = alpha, the line stays empty, and the repaired loop adopts the full-window result:
   the engine answers the null move although Ka1-a2 is legal. *)
Definition one_root : position := root_of one_move_fen.
Definition one_child : position :=
  match make_move go_keys one_root a1a2 with Ok c => c | _ => empty_position end.
Definition junk_cache : ecache := cache_save go_econsts [] (hash one_child) 32767.
Definition junk_state : sst := go_init_sst go_tt_init junk_cache [] None.
Definition junk_result : sresult N * sst := go_search 10 200 true junk_state one_root 1.

Theorem null_needs_cache_sane :
  make_move go_keys one_root a1a2 = Ok one_child /\
  is_checkmate_value go_econsts (snd (cache_lookup junk_cache (hash one_child mod ec_cache_size go_econsts)%N)) = true /\
  legal_moves go_keys one_root = Ok [a1a2] /\
  fst junk_result = ROk NULL_MOVE /\
  s_out (snd junk_result) = [EInfo 1 (-32767) 4 0 []; EInfo 1 (-32767) 2 0 []].
Proof. conj_vm. Qed.

(* as a refutation of the clause for arbitrary states *)
Theorem null_only_without_moves_any_state_refuted :
  ~ (forall iters fuel s root req s',
       legal_pos root -> (fuel <= 255)%nat -> (req < 255)%N -> s_pv s = [] ->
       go_search iters fuel true s root req = (ROk NULL_MOVE, s') -> legal_moves go_keys root = Ok []).
Proof.
  intro H.
  assert (HL : legal_pos one_root) by (apply legal_pos_b_sound; vm_compute; reflexivity).
  assert (E : fst (go_search 10 200 true junk_state one_root 1) = ROk NULL_MOVE) by (vm_compute; reflexivity).
  assert (Y : legal_moves go_keys one_root = Ok [a1a2]) by (vm_compute; reflexivity).
  assert (F : (200 <= 255)%nat) by lia.
  assert (R : (1 < 255)%N) by lia.
  assert (P : s_pv junk_state = []) by reflexivity.
  (* the big term is generalised before anything is compared, so that no conversion ever unfolds the search *)
  pose proof (H 10%nat 200%nat junk_state one_root 1%N) as X.
  revert E X. generalize (go_search 10 200 true junk_state one_root 1). intros [r s1] E X. cbn [fst] in E. subst r.
  specialize (X s1 HL F R P eq_refl). rewrite X in Y. discriminate.
Qed.

Print Assumptions stalemate_answers_null.
Print Assumptions checkmate_answers_null.
Print Assumptions one_move_answered.
Print Assumptions hyps_met_session.
Print Assumptions null_needs_cache_sane.
Print Assumptions null_only_without_moves_any_state_refuted.
