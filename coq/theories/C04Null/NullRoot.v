(* C04 (g): "the answer is the null move only when no legal move exists" - the root node.
   A root search under the full window (-INF, INF) over a position that has a legal move returns a
   NON-EMPTY line whose head was made and passed the legality test.  No bound on the number of moves
   is needed: when the uint8 legal-move counter wraps to 0 (256 legal moves) the node takes the
   "no legal move" exit, but that exit returns the line collected so far, not nil.
   Score-range machinery of C13 (C13Mate.MateRange / MateNega) with no protected hashes: nothing is
   assumed about the transposition table. *)
From Coq Require Import NArith ZArith List Bool FMapPositive Lia.
From Clemens Require Import Base.Res Base.Word Pos.Types Att.Attacks Pos.Position Eval.Eval
     Search.TT Search.TTProofs Search.Ordering Search.OrderingProofs Search.Negamax Search.SearchStruct Search.SearchLines
     Search.SearchRoot Search.SearchIter.
From Clemens.C13Mate Require Import MateDefs MateChild MateSane MateLoop MateQ MateRange MateNega.
Import ListNotations.
Open Scope Z_scope.

(* no hash is protected: [tt_clean NoH t] holds of every table *)
Definition NoH : N -> Prop := fun _ => False.

Lemma tt_clean_NoH : forall t, tt_clean NoH t.
Proof. intros t k e _ []. Qed.

(* [m] can be made at [p] and the result passes the legality test *)
Definition legal_at (K : zkeys) (p : position) (m : N) : Prop :=
  exists q, make_move K p m = Ok q /\ is_legal q = Ok true.

(* some generated move of [p] is legal *)
Definition has_legal (K : zkeys) (p : position) : Prop :=
  exists g m, gen_moves p = Ok g /\ In m g /\ legal_at K p m.

(* a line that begins with a move that was made and found legal *)
Definition headed_legal (K : zkeys) (p : position) (l : list N) : Prop :=
  exists m t, l = m :: t /\ legal_at K p m.

Section Root.
Variable K : zkeys.
Variable EC : econsts.
Variable OC : oconsts.
Variable SC : sconsts.
Variable root : position.
Variable U : position -> Prop.
Hypothesis U_move : forall p m q, U p -> movable p m -> make_move K p m = Ok q -> is_legal q = Ok true -> U q.
Hypothesis U_null : forall p q x, U p -> is_in_check p (side p) = Ok false -> make_null_move K p = Ok (q, x) -> U q.
Hypothesis U_eval : forall p, U p -> eval_sane_at EC p.
Hypothesis Hinf : INF EC = 32767.
Hypothesis Hplies : 2 <= ec_max_plies EC.
Hypothesis U_root : U root.
Hypothesis Hlegal : has_legal K root.

Lemma U_coll : forall p, U p -> NoH (hash p) -> mated K p.
Proof. intros p _ []. Qed.

Notation SaneN := (Sane EC NoH).

Lemma SaneN_iff : forall s, SaneN s <-> cache_sane EC (s_cache s).
Proof. intro s. split; [intros [_ H]; exact H|intro H; split; [apply tt_clean_NoH|exact H]]. Qed.

Section Fuel.
Variable f : nat.
Hypothesis Hfuel : (N.of_nat f + 1 <= 255)%N.
Notation rec := (negamax K EC OC SC f).

Lemma rec_S : forall s q a b d pl cn pm rh, U q -> SaneN s -> specS EC NoH (rec s q a b d pl cn pm rh).
Proof. intros. apply (negamax_S K EC OC SC NoH U U_move U_null U_eval U_coll); assumption. Qed.

(* the first legal move of the root under the full window: the child is searched under (-INF, INF);
   it returns at most INF - 2 (Hi) and at least -INF + 1 (Lo; -INF + 1 if it is checkmated) *)
Lemma pvs_first_full : forall s q d1 pm rh v line s',
  U q -> SaneN s ->
  nm_pvs rec s q (-32767) 32767 d1 1 pm rh 1 = (ROk (v, line), s') -> -32765 <= v <= 32766.
Proof.
  intros s q d1 pm rh v line s' Hu Hs. unfold nm_pvs. cbn [N.eqb Pos.eqb].
  change (neg16 32767) with (-32767). change (neg16 (-32767)) with 32767.
  destruct (negamax_lohi K EC OC SC NoH U U_move U_null U_eval U_coll Hinf Hplies f) as [Hlo Hhi].
  pose proof (Hlo s q 32767 d1 1%N true pm rh Hu Hs ltac:(lia) ltac:(lia) Hfuel) as Hl.
  pose proof (Hhi s q (-32767) d1 1%N true pm rh Hu Hs ltac:(lia) ltac:(lia) Hfuel) as Hh.
  destruct (rec s q (-32767) 32767 d1 1%N true pm rh) as [[[v0 l0]| | |] s0]; try discriminate.
  unfold specLo in Hl; unfold specHi in Hh; cbn [fst] in Hl, Hh.
  intro E; inversion E; subst.
  assert (-32766 <= v0 <= 32765) by (destruct Hl as [_ [Hl|(_ & Hl & _)]]; lia).
  rewrite neg16_exact by lia. lia.
Qed.

Section Loops.
Variables (depth pm rh : N).

(* before the first legal move / after it *)
Definition R0 (L : lst) : Prop :=
  l_legal L = 0%N /\ l_alpha L = -32767 /\ l_best_score L = -32767 /\ l_pvl L = [].
Definition R1 (L : lst) : Prop :=
  legal_at K root (l_best_move L) /\ headed_legal K root (l_pvl L).

(* after the first legal move the line stays non-empty and headed by a legal move, whatever the
   recursive calls return (and however often the uint8 counter of legal moves wraps) *)
Lemma loop_root_later : forall k i ms s L L' c s',
  R1 L ->
  nm_loop K OC rec root 32767 depth 0 pm rh false k i ms s L = (ROk (L', c), s') ->
  R1 L'.
Proof.
  induction k as [|k IH]; intros i ms s L L' c s' [B1 B2] Hrun.
  - cbn in Hrun. inversion Hrun; subst. split; assumption.
  - unfold nm_loop in Hrun; fold (nm_loop K OC rec root 32767 depth 0 pm rh false) in Hrun. cbv zeta in Hrun.
    destruct (nth_error (sort_index ms i) i) as [m|] eqn:En; [|discriminate].
    destruct (make_move K root m) as [q| |] eqn:Emk; try discriminate.
    destruct (is_legal q) as [[|]| |] eqn:Eleg; try discriminate.
    2: { eapply IH in Hrun; eauto. split; assumption. }
    assert (Hlm : legal_at K root m) by (exists q; auto).
    cbv iota in Hrun. cbn [l_alpha l_best_score l_best_move l_legal l_node_type l_pvl] in Hrun.
    destruct (nm_pvs rec s q (l_alpha L) 32767 (w8 (depth + 256 - 1)) (w8 (0 + 1)) pm rh (w8 (l_legal L + 1)))
      as [[[score cl]| | |] s1] eqn:Epvs; try discriminate.
    assert (Hbm : forall bs bm, (if l_best_score L <? score then (score, m) else (l_best_score L, l_best_move L)) = (bs, bm) ->
                  legal_at K root bm).
    { intros bs bm E. destruct (l_best_score L <? score); inversion E; subst; assumption. }
    destruct (if l_best_score L <? score then (score, m) else (l_best_score L, l_best_move L)) as [bs bm].
    specialize (Hbm _ _ eq_refl).
    destruct (32767 <=? score).
    + destruct (bind (get_piece root (mv_dst m)) _) as [qt| |]; try discriminate.
      inversion Hrun; subst. split; cbn [l_best_move l_pvl]; assumption.
    + destruct (l_alpha L <? score); (eapply IH; [|exact Hrun]); split; cbn [l_best_move l_pvl]; auto.
      exists bm, cl. split; [reflexivity|exact Hbm].
Qed.

(* from the start: either no entry of the move list was legal, or the line is headed by a legal move *)
Lemma loop_root_full : forall k i ms s L L' c s',
  (i + k = length ms)%nat ->
  (forall x, In x ms -> movable root x) -> R0 L -> SaneN s ->
  nm_loop K OC rec root 32767 depth 0 pm rh false k i ms s L = (ROk (L', c), s') ->
  (forall m, In m (skipn i ms) -> illegal_move K root m) \/ R1 L'.
Proof.
  induction k as [|k IH]; intros i ms s L L' c s' Hlen Hms Hph Hs Hrun.
  - left. intros m Hin. rewrite skipn_all2 in Hin by lia. destruct Hin.
  - unfold nm_loop in Hrun; fold (nm_loop K OC rec root 32767 depth 0 pm rh false) in Hrun. cbv zeta in Hrun.
    pose proof (movable_sorted _ _ i Hms) as Hms'.
    assert (Hlen' : (S i + k = length (sort_index ms i))%nat) by (rewrite sort_index_length; lia).
    destruct (nth_error (sort_index ms i) i) as [m|] eqn:En; [|discriminate].
    destruct (make_move K root m) as [q| |] eqn:Emk; try discriminate.
    destruct (is_legal q) as [[|]| |] eqn:Eleg; try discriminate.
    2: { eapply IH in Hrun; eauto. destruct Hrun as [Hill|H1]; [left|right; exact H1].
         intros x Hin. destruct (remaining_split _ _ _ _ En Hin) as [->|Hx].
         - exists q; auto.
         - apply Hill; exact Hx. }
    (* the first legal move *)
    assert (Hlm : legal_at K root m) by (exists q; auto).
    cbv iota in Hrun. cbn [l_alpha l_best_score l_best_move l_legal l_node_type l_pvl] in Hrun.
    destruct Hph as (E1 & E2 & E3 & E4).
    rewrite E1, E2, E3 in Hrun. change (w8 (0 + 1)) with 1%N in Hrun.
    assert (Huq : U q) by (eapply U_move; [exact U_root| |exact Emk|exact Eleg]; apply Hms'; eapply nth_error_In; exact En).
    destruct (nm_pvs rec s q (-32767) 32767 (w8 (depth + 256 - 1)) 1 pm rh 1)
      as [[[score cl]| | |] s1] eqn:Epvs; try discriminate.
    apply pvs_first_full in Epvs; auto.
    assert (X1 : (-32767 <? score) = true) by (apply Z.ltb_lt; lia).
    assert (X2 : (32767 <=? score) = false) by (apply Z.leb_gt; lia).
    rewrite X1, X2 in Hrun. cbv iota beta in Hrun.
    right. eapply loop_root_later; [|exact Hrun]. split; cbn [l_best_move l_pvl]; [exact Hlm|].
    exists m, cl. split; [reflexivity|exact Hlm].
Qed.
End Loops.

(* the root node between pushHistory and popHistory *)
Lemma inner_root_full : forall s depth cn pm rh ic v line s',
  SaneN s ->
  nm_inner K EC OC SC rec s root (-32767) 32767 depth 0 cn pm rh ic = (ROk (v, line), s') ->
  headed_legal K root line.
Proof.
  intros s depth cn pm rh ic v line s' Hs. unfold nm_inner. cbv zeta.
  destruct (tt_get (sc_tt_buckets SC) (INF EC) (s_tt s) (hash root) (-32767) 32767 depth 0) as [[tsc tuse] tmv].
  rewrite (pv_hi (-32767)) by lia. cbn [N.eqb negb andb].
  rewrite snm_pv, nmp_pv, fpr_pv.
  destruct (gen_moves root) as [g| |] eqn:Hg; try discriminate.
  match goal with |- context [score_moves OC root ?h g] => destruct (score_moves OC root h g) as [ms| |] eqn:Hsc end;
    try discriminate.
  set (L0 := {| l_alpha := -32767; l_best_score := - INF EC; l_best_move := NULL_MOVE; l_legal := 0%N;
                l_node_type := AlphaNode; l_pvl := [] |}).
  assert (HL0 : R0 L0) by (unfold R0, L0; cbn; rewrite Hinf; auto).
  pose proof (loop_root_full depth pm rh (length ms) 0%nat ms s L0) as Hl.
  destruct (nm_loop K OC rec root 32767 depth 0 pm rh false (length ms) 0 ms s L0) as [[[L' c]| | |] s1];
    try discriminate.
  specialize (Hl L' c s1 eq_refl (movable_scored _ _ _ _ _ (or_introl Hg) Hsc) HL0 Hs eq_refl).
  assert (Hh : headed_legal K root (l_pvl L')).
  { destruct Hl as [Hill|[_ Hh]]; [exfalso|exact Hh].
    destruct Hlegal as (g' & m0 & Hg' & Hin & q & Hmk & Hleg).
    rewrite Hg in Hg'. inversion Hg'; subst g'.
    destruct (score_moves_in_rev _ _ _ _ _ _ Hsc Hin) as (m & Hm & E).
    assert (Hill0 : illegal_move K root m0) by (eapply illegal_low; [symmetry; exact E|apply Hill; exact Hm]).
    destruct Hill0 as (q' & E1 & E2). rewrite Hmk in E1. inversion E1; subst q'. rewrite Hleg in E2. discriminate. }
  (* all three exits return [l_pvl L']: the two no-legal-move exits (reachable here only when the
     uint8 counter has wrapped to 0) and the normal one *)
  destruct (l_legal L' =? 0)%N.
  - destruct ic.
    + intro E; inversion E; subst. exact Hh.
    + destruct (contempt EC root) as [ct| |]; cbn [of_res bind]; try discriminate.
      intro E; inversion E; subst. exact Hh.
  - destruct (poll s1) as [[|] s2]; [discriminate|].
    intro E; inversion E; subst. exact Hh.
Qed.
End Fuel.

(* the root search under the full window *)
Theorem root_full_headed : forall fuel s depth cn pm rh v line s',
  (fuel <= 255)%nat -> (1 <= depth <= 254)%N -> SaneN s ->
  negamax K EC OC SC fuel s root (-32767) 32767 depth 0 cn pm rh = (ROk (v, line), s') ->
  headed_legal K root line.
Proof.
  intros fuel s depth cn pm rh v line s' Hf Hd Hs.
  destruct fuel as [|f]; [cbn; discriminate|].
  rewrite negamax_eq. cbv zeta.
  assert (Hp : SaneN (snd (poll s))) by (apply poll_S; exact Hs).
  destruct (poll s) as [[|] s0]; [discriminate|]. cbn [snd] in Hp.
  destruct (is_in_check root (side root)) as [ic| |] eqn:Hic; try discriminate.
  assert (Hdz : ((if ic then w8 (depth + 1) else depth) =? 0)%N = false).
  { apply N.eqb_neq. destruct ic; [unfold w8; rewrite N.mod_small by lia|]; lia. }
  rewrite Hdz. cbn [N.eqb negb andb].
  pose proof (push_A SC (upd_nodes s0 (w64 (s_nodes s0 + 1))) root) as Hh.
  destruct (push_history SC (upd_nodes s0 (w64 (s_nodes s0 + 1))) root) as [s1| | |]; try discriminate. subst s1.
  match goal with |- context [nm_inner K EC OC SC ?r ?s1 root ?a ?b ?d 0%N cn pm rh ic] =>
    pose proof (inner_root_full f ltac:(lia) s1 d cn pm rh ic) as Hin;
    destruct (nm_inner K EC OC SC r s1 root a b d 0%N cn pm rh ic) as [[[v1 l1]| | |] s2]
  end; cbn [fst snd]; try discriminate.
  intro E; inversion E; subst. eapply Hin; [|reflexivity]. exact Hp.
Qed.

Corollary search_root_full_headed : forall fuel s depth v line s',
  (fuel <= 255)%nat -> (1 <= depth <= 254)%N -> SaneN s ->
  search_root K EC OC SC fuel s root depth (- INF EC) (INF EC) = (ROk (v, line), s') ->
  headed_legal K root line.
Proof.
  intros fuel s depth v line s' Hf Hd Hs E. unfold search_root in E. rewrite Hinf in E.
  eapply root_full_headed; [exact Hf|exact Hd| |exact E]. exact Hs.
Qed.

(* ------------------------------------------------------------------ the fallback loop *)
(* depth 1 to 1, full window, oracle off: when it returns normally the adopted line is headed by a
   legal move - with the repaired and with the unrepaired window test (the unrepaired one re-searches
   a result outside (-INF, INF) under the same window; every such search starts from a sane state) *)
Lemma fallback_headed : forall iters fuel rep s s',
  (fuel <= 255)%nat -> SaneN s -> s_cancel s = None ->
  search_iterative K EC OC SC iters fuel rep s root 1 1 (- INF EC) (INF EC) = (ROk tt, s') ->
  headed_legal K root (s_pv s').
Proof.
  intros iters fuel rep. induction iters as [|it IH]; intros s s' Hf Hs Hn H; [discriminate|].
  cbn [search_iterative] in H. change (1 <? 1)%N with false in H. cbv iota in H.
  pose proof (search_root_frame K EC OC SC fuel s root 1 (- INF EC) (INF EC)) as Hfr.
  pose proof (search_root_full_headed fuel s 1) as Hhd.
  assert (Hk : forall r s0, search_root K EC OC SC fuel s root 1 (- INF EC) (INF EC) = (r, s0) -> SaneN s0).
  { intros r s0 E. unfold search_root in E.
    eapply (negamax_sane K EC OC SC NoH U U_move U_null U_eval U_coll); [exact U_root| |exact E]. exact Hs. }
  destruct (search_root K EC OC SC fuel s root 1 (- INF EC) (INF EC)) as [[[score line]| | |] s0] eqn:Hsr;
    try discriminate.
  - specialize (Hfr _ _ eq_refl). destruct Hfr as [F1 F2 F3 F4 F5].
    specialize (Hhd _ _ _ Hf ltac:(lia) Hs eq_refl). specialize (Hk _ _ eq_refl).
    match type of H with (if ?c then _ else _) = _ => destruct c end.
    + apply IH in H; auto. projs. congruence.
    + change (w8 (1 + 1)) with 2%N in H.
      destruct it as [|it]; [discriminate|]. cbn [search_iterative] in H.
      change (1 <? 2)%N with true in H. cbv iota in H. inversion H; subst. projs. exact Hhd.
  - exfalso. eapply root_not_cancel; eauto.
Qed.

(* ------------------------------------------------------------------ Search *)
Lemma iter_keeps : forall iters fuel rep md s d a b r s',
  SaneN s -> search_iterative K EC OC SC iters fuel rep s root md d a b = (r, s') -> SaneN s'.
Proof.
  intros iters fuel rep md. induction iters as [|it IH]; intros s d a b r s' Hs E.
  - cbn in E. inversion E; subst. exact Hs.
  - cbn [search_iterative] in E.
    destruct (md <? d)%N; [inversion E; subst; exact Hs|].
    assert (Hk : forall r0 s0, search_root K EC OC SC fuel s root d a b = (r0, s0) -> SaneN s0).
    { intros r0 s0 E0. unfold search_root in E0.
      eapply (negamax_sane K EC OC SC NoH U U_move U_null U_eval U_coll); [exact U_root| |exact E0]. exact Hs. }
    destruct (search_root K EC OC SC fuel s root d a b) as [[[score line]| | |] s0] eqn:Hsr;
      specialize (Hk _ _ eq_refl).
    + match type of E with (if ?c then _ else _) = _ => destruct c end;
        (eapply IH; [|exact E]); exact Hk.
    + inversion E; subst. exact Hk.
    + inversion E; subst. exact Hk.
    + inversion E; subst. exact Hk.
Qed.

(* the answer of Search at a root with a legal move is not the null move.  Nothing is assumed about
   the requested depth, the cancellation point, the transposition table, the heuristic tables or
   [s_pv]: if the main loop leaves no move the uncancellable fallback search runs, and its line is
   headed by a legal move. *)
Hypothesis legal_not_null : forall m, legal_at K root m -> m <> NULL_MOVE.

Theorem search_answer_not_null : forall iters fuel rep s req m s',
  (fuel <= 255)%nat -> SaneN s ->
  search K EC OC SC iters fuel rep s root req = (ROk m, s') ->
  m <> NULL_MOVE.
Proof.
  intros iters fuel rep s req m s' Hf Hs E. unfold search in E.
  match type of E with context [search_iterative K EC OC SC iters fuel rep s root ?md 1%N ?a ?b] =>
    destruct (search_iterative K EC OC SC iters fuel rep s root md 1%N a b) as [r1 s1] eqn:E1 end.
  assert (Hs1 : SaneN s1) by (eapply iter_keeps; [exact Hs|exact E1]).
  destruct r1 as [[]| | |]; try discriminate.
  destruct (best_move s1 =? NULL_MOVE)%N eqn:Hbm.
  - destruct (search_iterative K EC OC SC iters fuel rep (set_cancel s1 None) root 1 1 (- INF EC) (INF EC))
      as [r2 s2] eqn:E2.
    destruct r2 as [[]| | |]; try discriminate.
    apply fallback_headed in E2; [|exact Hf|exact Hs1|reflexivity].
    destruct E2 as (m0 & t & Ep & Hm0).
    inversion E; subst. unfold best_move; projs. rewrite Ep. cbn. apply legal_not_null; exact Hm0.
  - inversion E; subst. apply N.eqb_neq in Hbm. exact Hbm.
Qed.
End Root.
