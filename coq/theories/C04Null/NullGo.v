(* C04 (g) for the Go build: the engine answers with the null move ONLY when the root has no legal
   move.  Main statements: [null_only_without_moves] (any universe), [null_only_without_moves_legal]
   (universe := legal_pos of C13Bridge: no universe hypothesis left), [.._fresh] (freshly started
   engine), [.._session] (any state reached by earlier searches), [answer_is_legal_move],
   [null_iff_no_moves]; the hypotheses are unfolded in [C04_null_defs]. *)
From Coq Require Import NArith ZArith List Bool FMapPositive Lia String.
From Clemens Require Import Base.Res Base.Word Pos.Types Att.Attacks Pos.Position Pos.Inv Pos.GenWords
     Pos.ZobristProofs Pos.ZobristInst Eval.Eval
     Search.TT Search.Ordering Search.OrderingProofs Search.Negamax Search.SearchStruct Search.SearchLines
     Search.SearchRoot Search.SearchIter Search.GoInst Search.SearchGo.
From Clemens.C10Inv Require Import InvViews InvMake InvStep InvTotal.
From Clemens.C13Mate Require Import MateDefs MateChild MateSane MateLoop MateQ MateRange MateNega MateRoot MateRoot2
     MateIter MateMain MateExamples.
From Clemens.C13Bridge Require Import Bridge Seq.
From Clemens.C04Null Require Import NullRoot.
Import ListNotations.
Open Scope Z_scope.

(* ------------------------------------------------------------------ a move that can be made is not the null word *)
(* MakeMove rejects every word whose source and target squares coincide (board and bitboards in
   agreement: part of the C10 invariant); the null move is a1a1 *)
Lemma made_not_null : forall K p m q, Inv p -> make_move K p m = Ok q -> m <> NULL_MOVE.
Proof.
  intros K p m q HI Hmk ->.
  destruct (inv_parts p HI) as (Hwf & Hag & _ & _ & _ & _ & _ & Hsc & _).
  assert (Hside : (side p < 2)%N).
  { apply scalars_ok_spec in Hsc. destruct Hsc as ([-> | ->] & _); reflexivity. }
  apply (make_move_views K p NULL_MOVE q) in Hmk.
  - destruct Hmk as (_ & _ & _ & _ & Hne & _). apply Hne. reflexivity.
  - apply board_wf_iff; exact Hwf.
  - apply bbs_agree_iff; exact Hag.
  - exact Hside.
  - intro Hk. vm_compute in Hk. discriminate.
Qed.

Lemma inv_legal_not_null : forall K p m, Inv p -> legal_at K p m -> m <> NULL_MOVE.
Proof. intros K p m HI (q & Hmk & _). eapply made_not_null; eauto. Qed.

Lemma has_legal_of_legal_moves : forall K p l, legal_moves K p = Ok l -> l <> [] -> has_legal K p.
Proof.
  intros K p [|m l] Hl Hne; [contradiction|].
  destruct (legal_moves_kept K p (m :: l) m Hl (or_introl eq_refl)) as (ms & q & Hg & Hin & Hmk & Hleg).
  exists ms, m. split; [exact Hg|]. split; [exact Hin|]. exists q; auto.
Qed.

(* ------------------------------------------------------------------ the hypotheses *)
(* the universe of positions the search may visit: [C13_universe] without its no-collision clause *)
Definition null_universe (K : zkeys) (EC : econsts) (root : position) (U : position -> Prop) : Prop :=
  U root /\
  (forall p m q, U p -> movable p m -> make_move K p m = Ok q -> is_legal q = Ok true -> U q) /\
  (forall p q x, U p -> is_in_check p (side p) = Ok false -> make_null_move K p = Ok (q, x) -> U q) /\
  (forall p, U p -> eval_sane_at EC p).

Theorem C04_null_defs : forall K EC root U p m c,
  (null_universe K EC root U <->
     U root /\
     (forall p m q, U p -> movable p m -> make_move K p m = Ok q -> is_legal q = Ok true -> U q) /\
     (forall p q x, U p -> is_in_check p (side p) = Ok false -> make_null_move K p = Ok (q, x) -> U q) /\
     (forall p, U p -> eval_sane_at EC p)) /\
  (movable p m <-> exists g m0, (gen_moves p = Ok g \/ gen_captures p = Ok g) /\ In m0 g /\ mv_low m = mv_low m0) /\
  (eval_sane_at EC p <-> (forall v, eval_raw EC p = Ok v -> is_checkmate_value EC v = false) /\
                         (forall v, contempt EC p = Ok v -> is_checkmate_value EC v = false)) /\
  (cache_sane EC c <-> forall slot, is_checkmate_value EC (snd (cache_lookup c slot)) = false) /\
  (legal_pos p <-> Inv p /\ C15Bound.Material.material_ok p = true).
Proof. intros. repeat match goal with |- _ /\ _ => split end; apply iff_refl. Qed.

Lemma C13_universe_null : forall K EC root U, C13_universe K EC root U -> null_universe K EC root U.
Proof. intros K EC root U (U1 & U2 & U3 & U4 & _). split; [exact U1|split; [exact U2|split; [exact U3|exact U4]]]. Qed.

(* ------------------------------------------------------------------ the main theorem *)
(* contrapositive form: a root with a legal move is never answered with the null move.  Every
   requested depth, every cancellation point, repaired and unrepaired window test, every
   transposition table, every heuristic state, every [s_pv]; the evaluation cache holds no mate value *)
Theorem answer_not_null : forall (U : position -> Prop) root iters fuel rep s req m s' l,
  Inv root -> null_universe go_keys go_econsts root U ->
  cache_sane go_econsts (s_cache s) ->
  (fuel <= 255)%nat ->
  legal_moves go_keys root = Ok l -> l <> [] ->
  go_search iters fuel rep s root req = (ROk m, s') ->
  m <> NULL_MOVE.
Proof.
  intros U root iters fuel rep s req m s' l HI (U1 & U2 & U3 & U4) Hc Hf Hl Hne E.
  destruct go_consts_ok as (C1 & C2 & _).
  eapply (search_answer_not_null go_keys go_econsts go_oconsts go_sconsts root U U2 U3 U4 C1 C2 U1
            (has_legal_of_legal_moves _ _ _ Hl Hne) (fun m0 => inv_legal_not_null go_keys root m0 HI)
            iters fuel rep s req m s' Hf); [|exact E].
  split; [apply tt_clean_NoH|exact Hc].
Qed.

Theorem null_only_without_moves : forall (U : position -> Prop) root iters fuel rep s req s',
  Inv root -> null_universe go_keys go_econsts root U ->
  cache_sane go_econsts (s_cache s) ->
  (fuel <= 255)%nat ->
  go_search iters fuel rep s root req = (ROk NULL_MOVE, s') ->
  legal_moves go_keys root = Ok [].
Proof.
  intros U root iters fuel rep s req s' HI HU Hc Hf E.
  destruct (legal_moves_total go_keys go_keys_wf root HI) as [l Hl].
  destruct l as [|m0 l]; [exact Hl|]. exfalso.
  eapply (answer_not_null U root iters fuel rep s req NULL_MOVE s' (m0 :: l)); eauto. discriminate.
Qed.

(* ------------------------------------------------------------------ universe := legal_pos *)
Lemma legal_pos_null_universe : forall root, legal_pos root -> null_universe go_keys go_econsts root legal_pos.
Proof.
  intros root HR. split; [exact HR|]. split; [exact (legal_pos_move go_keys)|].
  split; [exact (legal_pos_null go_keys)|exact legal_pos_eval_sane].
Qed.

Lemma visited_null_universe : forall root, legal_pos root -> null_universe go_keys go_econsts root (visited go_keys root).
Proof.
  intros root HR. split; [constructor|]. split; [intros; eapply visited_move; eauto|].
  split; [intros; eapply visited_null; eauto|].
  intros p V. apply legal_pos_eval_sane. eapply visited_legal; eauto.
Qed.

(* the only hypotheses left: the root is a legal position (C10 invariant + C15 material bound) and
   the evaluation cache holds no mate value *)
Theorem null_only_without_moves_legal : forall root iters fuel rep s req s',
  legal_pos root ->
  cache_sane go_econsts (s_cache s) ->
  (fuel <= 255)%nat ->
  go_search iters fuel rep s root req = (ROk NULL_MOVE, s') ->
  legal_moves go_keys root = Ok [].
Proof.
  intros root iters fuel rep s req s' HR Hc Hf E.
  eapply (null_only_without_moves legal_pos); eauto; [exact (proj1 HR)|apply legal_pos_null_universe; exact HR].
Qed.

(* the statement of Props/C04.v, with [sane] made explicit and the root hypotheses added *)
Theorem C04_null_only_without_moves_legal : forall iters fuel s root req s',
  legal_pos root -> (fuel <= 255)%nat ->
  cache_sane go_econsts (s_cache s) -> (req < 255)%N -> s_pv s = [] ->
  go_search iters fuel true s root req = (ROk NULL_MOVE, s') ->
  legal_moves go_keys root = Ok [].
Proof. intros; eapply null_only_without_moves_legal; eauto. Qed.

(* a freshly started engine: empty table, empty cache, any cancellation point *)
Theorem null_only_without_moves_fresh : forall root iters fuel rep c req s',
  legal_pos root -> (fuel <= 255)%nat ->
  go_search iters fuel rep (go_empty_sst c) root req = (ROk NULL_MOVE, s') ->
  legal_moves go_keys root = Ok [].
Proof.
  intros root iters fuel rep c req s' HR Hf E.
  eapply null_only_without_moves_legal; eauto. apply cache_sane_nil. reflexivity.
Qed.

(* any state of a session (C13Bridge.Seq): a fresh engine, then searches from legal positions,
   the caller changing anything but the table and the cache in between *)
Lemma session_cache_sane : forall roots s, session roots s -> cache_sane go_econsts (s_cache s).
Proof.
  intros roots s Hs.
  induction Hs as [c|roots s root1 iters fuel rep req r s' Hs IH H1 E|roots s s2 Hs IH Et Ec].
  - apply cache_sane_nil. reflexivity.
  - assert (X : Sane go_econsts NoH s').
    { refine (search_keeps go_keys go_econsts go_oconsts go_sconsts NoH legal_pos
                (legal_pos_move go_keys) (legal_pos_null go_keys) legal_pos_eval_sane _
                root1 iters fuel rep s req r s' H1 _ E).
      - intros p _ [].
      - split; [apply tt_clean_NoH|exact IH]. }
    exact (proj2 X).
  - rewrite Ec. exact IH.
Qed.

Theorem null_only_without_moves_session : forall root roots iters fuel rep s req s',
  session roots s -> legal_pos root -> (fuel <= 255)%nat ->
  go_search iters fuel rep s root req = (ROk NULL_MOVE, s') ->
  legal_moves go_keys root = Ok [].
Proof.
  intros root roots iters fuel rep s req s' Hs HR Hf E.
  eapply null_only_without_moves_legal; eauto. eapply session_cache_sane; eauto.
Qed.

(* ------------------------------------------------------------------ the answer is a legal move *)
(* with C04_answer_in_legal_moves: at a root with a legal move the answer's move proper is one of the
   engine's legal moves *)
Theorem answer_is_legal_move : forall root iters fuel rep s req m s' l,
  legal_pos root ->
  cache_sane go_econsts (s_cache s) ->
  (fuel <= 255)%nat -> (req < 255)%N -> s_pv s = [] ->
  legal_moves go_keys root = Ok l -> l <> [] ->
  go_search iters fuel rep s root req = (ROk m, s') ->
  m <> NULL_MOVE /\ In (mv_low m) l.
Proof.
  intros root iters fuel rep s req m s' l HR Hc Hf Hreq Hpv Hl Hne E.
  assert (Hnn : m <> NULL_MOVE).
  { eapply (answer_not_null legal_pos); eauto; [exact (proj1 HR)|apply legal_pos_null_universe; exact HR]. }
  split; [exact Hnn|].
  destruct (answer_in_legal_moves go_keys go_econsts go_oconsts go_sconsts go_inf_ok
              iters fuel rep s root req m s' l (proj1 HR) (go_req_depth req Hreq) Hpv Hl E) as [X|X];
    [contradiction|exact X].
Qed.

(* both directions: the answer is the null move exactly when the root has no legal move *)
Theorem null_iff_no_moves : forall root iters fuel rep s req m s',
  legal_pos root ->
  cache_sane go_econsts (s_cache s) ->
  (fuel <= 255)%nat -> (req < 255)%N -> s_pv s = [] ->
  go_search iters fuel rep s root req = (ROk m, s') ->
  (m = NULL_MOVE <-> legal_moves go_keys root = Ok []).
Proof.
  intros root iters fuel rep s req m s' HR Hc Hf Hreq Hpv E. split.
  - intros ->. eapply null_only_without_moves_legal; eauto.
  - intro Hl.
    destruct (answer_in_legal_moves go_keys go_econsts go_oconsts go_sconsts go_inf_ok
                iters fuel rep s root req m s' [] (proj1 HR) (go_req_depth req Hreq) Hpv Hl E) as [X|[]].
    exact X.
Qed.

Print Assumptions answer_not_null.
Print Assumptions null_only_without_moves.
Print Assumptions null_only_without_moves_legal.
Print Assumptions C04_null_only_without_moves_legal.
Print Assumptions null_only_without_moves_fresh.
Print Assumptions null_only_without_moves_session.
Print Assumptions answer_is_legal_move.
Print Assumptions null_iff_no_moves.
Print Assumptions C04_null_defs.
