(* C02, auxiliary: the specification recognises castling, en passant and captures from the board (its move
   carries no kind); for generated moves of a position satisfying the invariant its verdict is the
   engine's move kind. *)
From Coq Require Import NArith ZArith List Bool Lia ZifyBool ZifyN ZifyNat.
From Clemens Require Import Base.Res Base.Word Pos.Types Att.Attacks Att.Geometry Pos.Position Pos.Inv Pos.ZobristProofs
  Pos.CapturesProofs Rules.Fide Rules.Abs.
From Clemens.C02Refine Require Import RefineBase GenClass MakeRefines.
Import ListNotations.
Open Scope N_scope.

Ltac Zify.zify_post_hook ::= Z.to_euclidean_division_equations.

Theorem kinds_agree p ms m :
  Inv p -> gen_moves p = Ok ms -> In m ms ->
  is_castling_move (abs p) (decode m) = (mv_kind m =? CASTLING) /\
  is_ep_move (abs p) (decode m) = (mv_kind m =? EN_PASSANT) /\
  Position.is_capture p m = Ok (is_capture_move (abs p) (decode m)).
Proof.
  intros I G Hin. pose proof (inv_facts p I) as F. pose proof (gen_moves_class p ms m I G Hin) as C.
  pose proof (mv_dst_lt m) as Ht.
  assert (CAP : forall b, is_ep_move (abs p) (decode m) = b -> (mv_kind m =? EN_PASSANT) = b ->
            Position.is_capture p m = Ok (is_capture_move (abs p) (decode m))).
  { intros b E1 E2. unfold Position.is_capture, is_capture_move. rewrite E1, E2, (empty_to p m F).
    destruct b; [now rewrite orb_true_r|]. rewrite orb_false_r, (get_piece_at p F _ Ht). reflexivity. }
  destruct C as [C | [C | [C | C]]].
  - destruct C as (T & HT & Ps & Hk & Hking). assert (HT6 : T < 6) by lia.
    assert (E1 : is_castling_move (abs p) (decode m) = false).
    { rewrite (is_castling_abs p m F T HT6 Ps). destruct (N.eqb_spec T 5) as [e|e]; [|reflexivity].
      specialize (Hking e). cbn [andb]. lia. }
    assert (E2 : is_ep_move (abs p) (decode m) = false).
    { rewrite (is_ep_abs p m F T HT6 Ps). replace (T =? 0) with false by lia. reflexivity. }
    rewrite E1, E2, Hk. repeat split; try reflexivity. apply (CAP false); auto. now rewrite Hk.
  - destruct C as (Ps & Hk & G'). assert (HT6 : PAWN < 6) by reflexivity.
    assert (E1 : is_castling_move (abs p) (decode m) = false) by (rewrite (is_castling_abs p m F PAWN HT6 Ps); reflexivity).
    assert (E2 : is_ep_move (abs p) (decode m) = false).
    { rewrite (is_ep_abs p m F PAWN HT6 Ps). change (PAWN =? 0) with true. cbn [andb].
      destruct G' as [(G1 & G2 & _) | (G1 & _ & G3)].
      - rewrite G1, Z.eqb_refl. reflexivity.
      - apply N.eqb_neq in G3. rewrite G3. apply andb_false_r. }
    assert (E3 : (mv_kind m =? CASTLING) = false /\ (mv_kind m =? EN_PASSANT) = false)
      by (destruct Hk as [-> | (-> & _)]; split; reflexivity).
    destruct E3 as (E3 & E4). rewrite E1, E2, E3, E4. repeat split; try reflexivity. apply (CAP false); auto.
  - destruct C as (Ps & Hk & Gf & Gr & Ge). assert (HT6 : PAWN < 6) by reflexivity.
    assert (E1 : is_castling_move (abs p) (decode m) = false) by (rewrite (is_castling_abs p m F PAWN HT6 Ps); reflexivity).
    assert (E2 : is_ep_move (abs p) (decode m) = true).
    { rewrite (is_ep_abs p m F PAWN HT6 Ps). change (PAWN =? 0) with true. cbn [andb]. rewrite Ge.
      change (NO_PIECE =? NO_PIECE) with true. rewrite andb_true_r. apply negb_true_iff. lia. }
    rewrite E1, E2, Hk. repeat split; try reflexivity. apply (CAP true); auto. now rewrite Hk.
  - destruct C as (Hk & C). assert (HT6 : KING < 6) by reflexivity.
    assert (Ps : piece_at p (mv_src m) = new_piece (side p) KING /\ (Z.abs (fZ (mv_dst m) - fZ (mv_src m)) =? 2)%Z = true).
    { destruct C as [(Ec & Es & Pk & [(Et & _) | (Et & _)]) | (Ec & Es & Pk & [(Et & _) | (Et & _)])];
        rewrite Es, Et, Ec; split; auto. }
    destruct Ps as (Ps & Hd).
    assert (E1 : is_castling_move (abs p) (decode m) = true) by (rewrite (is_castling_abs p m F KING HT6 Ps), Hd; reflexivity).
    assert (E2 : is_ep_move (abs p) (decode m) = false) by (rewrite (is_ep_abs p m F KING HT6 Ps); reflexivity).
    rewrite E1, E2, Hk. repeat split; try reflexivity. apply (CAP false); auto. now rewrite Hk.
Qed.
