(* C01, step 5: the legality filter. The engine makes the generated move on a copy and asks IsLegal
   (the side that just moved is not in check); the specification asks that the mover's king is not
   attacked in [apply s m]. Given the refinement of MakeMove (C02, premise) and the consistency of the
   successor's views (premise, part of C10's proof), the two tests agree - for EVERY position
   satisfying the invariant, whatever its counters, because neither test reads the counters. *)
From Coq Require Import NArith ZArith List Bool Lia ZifyBool ZifyN ZifyNat.
From Clemens Require Import Base.Res Base.Word Pos.Types Att.Attacks Att.Geometry Att.ShiftsProofs
  Pos.Position Pos.Inv Att.AttackersProofs Pos.ZobristProofs Rules.Fide Rules.Abs.
From Clemens.C01Att Require Import Coords Sliders AttRefines FideFacts MakeCounters.
Import ListNotations.
Open Scope N_scope.

(* ---- the counters are irrelevant to everything but themselves ---- *)
Lemma inv_set_counters : forall p h l, h < 256 -> l < 256 -> Inv p -> Inv (set_counters p h l).
Proof.
  intros p h l Hh Hl HI. unfold Inv, inv_b in *.
  change (board_wf (set_counters p h l)) with (board_wf p).
  change (bbs_agree (set_counters p h l)) with (bbs_agree p).
  change (helpers_agree (set_counters p h l)) with (helpers_agree p).
  change (one_king_each (set_counters p h l)) with (one_king_each p).
  change (no_back_rank_pawns (set_counters p h l)) with (no_back_rank_pawns p).
  change (castling_consistent (set_counters p h l)) with (castling_consistent p).
  change (ep_consistent (set_counters p h l)) with (ep_consistent p).
  change (mover_not_in_check (set_counters p h l)) with (mover_not_in_check p).
  rewrite !andb_true_iff in *. destruct HI as [[H1 H2] H3]. split; [split; [exact H1|] | exact H3].
  unfold scalars_ok in *. cbn [side hmc ply ep set_counters]. rewrite !andb_true_iff in *.
  destruct H2 as [[[Hs _] _] He]. repeat split; [exact Hs | | | exact He]; apply N.ltb_lt; assumption.
Qed.

Lemma gen_moves_set_counters : forall p h l, gen_moves (set_counters p h l) = gen_moves p.
Proof. intros p h l. reflexivity. Qed.

Lemma abs_set_counters_core : forall p h l, same_core (abs (set_counters p h l)) (abs p).
Proof. intros p h l. unfold same_core. repeat split; reflexivity. Qed.

Lemma is_legal_set_counters : forall p h l, is_legal (set_counters p h l) = is_legal p.
Proof. intros p h l. reflexivity. Qed.

(* the counters of a game that never wraps: both below 255 and the ply has the parity of the side to move *)
Definition counters_ok (p : position) : Prop :=
  hmc p < 255 /\ ply p < 255 /\ N.odd (ply p) = (side p =? BLACK).

Definition norm_counters (p : position) : position :=
  set_counters p 0 (if side p =? BLACK then 1 else 0).

Lemma norm_counters_ok : forall p, counters_ok (norm_counters p).
Proof.
  intros p. unfold counters_ok, norm_counters. cbn [hmc ply side set_counters].
  destruct (side p =? BLACK); repeat split; reflexivity || lia.
Qed.

Lemma norm_counters_inv : forall p, Inv p -> Inv (norm_counters p).
Proof. intros p H. unfold norm_counters. apply inv_set_counters; [lia | destruct (side p =? BLACK); lia | exact H]. Qed.

Section Filter.
Variable K : zkeys.

(* C02, as proved separately *)
Definition make_refines_statement : Prop :=
  forall p ms m q, Inv p -> gen_moves p = Ok ms -> In m ms -> make_move K p m = Ok q ->
    hmc p < 255 -> ply p < 255 -> N.odd (ply p) = (side p =? BLACK) ->
    abs q = apply (abs p) (decode m).

(* the successor of a GENERATED (not necessarily legal) move has consistent views and one king per side *)
Definition views_step_statement : Prop :=
  forall p ms m q, Inv p -> gen_moves p = Ok ms -> In m ms -> make_move K p m = Ok q ->
    board_wf q = true /\ bbs_agree q = true /\ helpers_agree q = true /\ one_king_each q = true.

(* a stronger form that the proof of C10 naturally yields implies it *)
Lemma views_step_of_nocheck :
  (forall p ms m q, Inv p -> gen_moves p = Ok ms -> In m ms -> make_move K p m = Ok q -> inv_nocheck_b q = true) ->
  views_step_statement.
Proof.
  intros H p ms m q HI Hg Hin Hm. destruct (nocheck_parts q (H p ms m q HI Hg Hin Hm)) as [[H1 [H2 H3]] [H4 _]].
  tauto.
Qed.

Hypothesis make_refines : make_refines_statement.

(* C02 without the counter hypotheses, for the part of the state that is not a counter *)
Theorem make_refines_core : forall p ms m q,
  Inv p -> gen_moves p = Ok ms -> In m ms -> make_move K p m = Ok q ->
  same_core (abs q) (apply (abs p) (decode m)).
Proof.
  intros p ms m q HI Hg Hin Hm.
  destruct (make_move_set_counters K 0 (if side p =? BLACK then 1 else 0) p m q Hm) as [h' [l' Hm']].
  fold (norm_counters p) in Hm'.
  destruct (norm_counters_ok p) as [C1 [C2 C3]].
  pose proof (make_refines (norm_counters p) ms m (set_counters q h' l') (norm_counters_inv p HI)
                Hg Hin Hm' C1 C2 C3) as Habs.
  apply (same_core_trans _ (abs (set_counters q h' l'))).
  - apply same_core_sym, abs_set_counters_core.
  - rewrite Habs. apply apply_same_core. unfold norm_counters. apply abs_set_counters_core.
Qed.

Lemma inv_side : forall p, Inv p -> side p < 2.
Proof.
  intros p HI. destruct (inv_parts p HI) as (_ & _ & _ & _ & _ & _ & _ & Hsc & _).
  apply scalars_ok_spec in Hsc. destruct Hsc as [[Hs | Hs] _]; rewrite Hs; unfold WHITE, BLACK; lia.
Qed.

Lemma opp_opp : forall c, opp (opp c) = c. Proof. intros []; reflexivity. Qed.

Hypothesis views_step : views_step_statement.

(* the engine's legality test on the successor is the specification's *)
Theorem legality_filter : forall p ms m q,
  Inv p -> gen_moves p = Ok ms -> In m ms -> make_move K p m = Ok q ->
  is_legal q = Ok (negb (in_check (apply (abs p) (decode m)) (b_turn (abs p)))).
Proof.
  intros p ms m q HI Hg Hin Hm.
  destruct (views_step p ms m q HI Hg Hin Hm) as (V1 & V2 & V3 & V4).
  destruct (make_move_fields K p m q Hm) as (Hside & _ & _).
  assert (Hq : side q < 2) by (rewrite Hside; apply switch_color_lt).
  rewrite (is_legal_refines q (conj V1 (conj V2 V3)) V4 Hq). f_equal. f_equal.
  assert (Hturn : opp (b_turn (abs q)) = b_turn (abs p)).
  { unfold abs at 1. cbn [b_turn]. rewrite Hside, (abs_color_switch _ (inv_side p HI)). apply opp_opp. }
  rewrite Hturn. apply in_check_core. apply (make_refines_core p ms m q HI Hg Hin Hm).
Qed.

End Filter.
