(* C01, attack part: concrete evaluations, continued: the start position. *)
From Coq Require Import NArith ZArith List Bool String.
From Clemens Require Import Base.Res Base.Word Base.Bytes Pos.Types Att.Attacks Pos.Position Pos.Fen Pos.Inv
  Att.AttackersProofs Pos.ZobristProofs Pos.ZobristInst Rules.Fide Rules.Abs.
From Clemens.C01Att Require Import Coords Sliders AttRefines FideFacts MakeCounters Filter Combine.
Import ListNotations.
Open Scope N_scope.

From Clemens.C01Att Require Import Examples.

(* ---- 3. the start position ---- *)
Example start_moves :
  same_moves (engine_moves hm_p0) (Fide.legal_moves (abs hm_p0)) = true /\ List.length (engine_moves hm_p0) = 20%nat /\
  abs hm_p0 = initial.
Proof. rewrite <- !legal_moves_fast_eq. vm_compute. repeat split; reflexivity. Qed.

Example start_perft : perft_engine go_keys 2 hm_p0 = Ok 400%Z /\ perft 1 (abs hm_p0) = 20%Z.
Proof. vm_compute. split; reflexivity. Qed.

(* the fast enumeration of the specification is the same list *)
Example start_fast : legal_moves_fast (abs hm_p0) = Fide.legal_moves (abs hm_p0).
Proof. apply legal_moves_fast_eq. Qed.
