(* Integration check (not needed by the other files): the hypotheses of Clemens.C01Att.Combine are exactly
   the theorems proved by the other agents (wip/c01gen, wip/refine, wip/inv). Compile with the extra
   options  -Q wip/c01gen WipC01gen -Q wip/refine WipRefine -Q wip/inv WipInv  after those directories. *)
From Coq Require Import NArith ZArith List Bool Permutation.
From Clemens Require Import Base.Res Base.Word Pos.Types Pos.Position Pos.Inv Pos.ZobristProofs Pos.ZobristInst
  Rules.Fide Rules.Abs.
From Clemens.C01Att Require Import AttRefines FideFacts Filter Combine.
From Clemens.C01Gen Require GenExact.
From Clemens.C02Refine Require MakeRefines.
From Clemens.C10Inv Require InvStep InvTotal.
Import ListNotations.
Open Scope N_scope.

Lemma H1_gen_exact : gen_exact_statement.
Proof. exact Clemens.C01Gen.GenExact.gen_moves_exact. Qed.

Lemma H2_make_refines : forall K, make_refines_statement K.
Proof. intros K p ms m q. exact (Clemens.C02Refine.MakeRefines.make_refines K p ms m q). Qed.

Lemma H3_inv_step : forall K, inv_step_statement K.
Proof. intros K p m q ls. exact (Clemens.C10Inv.InvStep.inv_step K p m q ls). Qed.

Lemma H4_views_step : forall K, views_step_statement K.
Proof. intros K. apply views_step_of_nocheck. exact (Clemens.C10Inv.InvStep.gen_step_nocheck K). Qed.

Lemma H5_total : forall K, keys_wf K = true -> legal_moves_total_statement K.
Proof. intros K WF p. exact (Clemens.C10Inv.InvTotal.legal_moves_total K WF p). Qed.

(* C01, closed *)
Theorem C01_movegen_closed : forall K p ls, Inv p -> Position.legal_moves K p = Ok ls ->
  Permutation (map decode ls) (Fide.legal_moves (abs p)).
Proof. intros K. exact (C01_movegen K H1_gen_exact (H2_make_refines K) (H4_views_step K)). Qed.

Theorem C01_movegen_total : forall K p, keys_wf K = true -> Inv p ->
  exists ls, Position.legal_moves K p = Ok ls /\ Permutation (map decode ls) (Fide.legal_moves (abs p)).
Proof.
  intros K p WF HI. destruct (H5_total K WF p HI) as [ls Hls]. exists ls. split; [exact Hls|].
  apply (C01_movegen_closed K p ls HI Hls).
Qed.

Theorem C01_perft_closed : forall K d p, keys_wf K = true -> Inv p ->
  perft_engine K d p = Ok (perft d (abs p)).
Proof.
  intros K d p WF. exact (C01_perft K H1_gen_exact (H2_make_refines K) (H4_views_step K) (H3_inv_step K) (H5_total K WF) d p).
Qed.

Theorem C01_perft_go : forall d p, Inv p -> perft_engine go_keys d p = Ok (perft d (abs p)).
Proof. intros d p. apply C01_perft_closed. exact go_keys_wf. Qed.

Theorem legality_filter_closed : forall K p ms m q,
  Inv p -> gen_moves p = Ok ms -> In m ms -> make_move K p m = Ok q ->
  is_legal q = Ok (negb (in_check (apply (abs p) (decode m)) (b_turn (abs p)))).
Proof. intros K. exact (legality_filter K (H2_make_refines K) (H4_views_step K)). Qed.

Print Assumptions C01_movegen_closed.
Print Assumptions C01_movegen_total.
Print Assumptions C01_perft_closed.
Print Assumptions C01_perft_go.
Print Assumptions legality_filter_closed.
