(* MakeMove reads the two counters (half-move clock, ply) only to increment them at the very end:
   changing them beforehand changes nothing but the counters of the result. Also: MakeMove gives the
   move to the other side. *)
From Coq Require Import NArith ZArith List Bool Lia.
From Clemens Require Import Base.Res Base.Word Pos.Types Att.Attacks Pos.Position Pos.Inv Pos.ZobristProofs.
Import ListNotations.
Open Scope N_scope.

Section Counters.
Variable K : zkeys.
Variables h l : N.

Local Notation sc := (fun p => set_counters p h l).

Ltac res_case :=
  match goal with
  | |- context [bind ?r _] => destruct r; cbn [bind]; try reflexivity
  end.

Lemma set_piece_sc : forall p pc sq,
  set_piece K (set_counters p h l) pc sq = (q <- set_piece K p pc sq ;; Ok (set_counters q h l)).
Proof.
  intros p pc sq. unfold set_piece. destruct (negb (sq <? 64)); [reflexivity|].
  change (bbs (set_counters p h l)) with (bbs p).
  res_case. res_case. res_case.
Qed.

Lemma delete_piece_sc : forall p sq,
  delete_piece K (set_counters p h l) sq = (r <- delete_piece K p sq ;; Ok (set_counters (fst r) h l, snd r)).
Proof.
  intros p sq. unfold delete_piece, get_piece.
  change (bbs (set_counters p h l)) with (bbs p). change (board (set_counters p h l)) with (board p).
  res_case. res_case. res_case. res_case.
Qed.

Lemma move_piece_sc : forall p from to,
  move_piece K (set_counters p h l) from to = (r <- move_piece K p from to ;; Ok (set_counters (fst r) h l, snd r)).
Proof.
  intros p from to. unfold move_piece. rewrite delete_piece_sc.
  destruct (delete_piece K p from) as [[p1 pc]| |]; cbn [bind fst snd]; try reflexivity.
  rewrite set_piece_sc. destruct (set_piece K p1 pc to); cbn [bind]; reflexivity.
Qed.

Definition revoke_step (lost : N) (acc : res position) (ci : N * nat) : res position :=
  q <- acc ;;
  let '(c, i) := ci in
  if negb (N.land (N.land lost c) (castling q) =? 0) then
    k <- key_castling_idx K i ;;
    Ok (toggle (set_castling q (N.ldiff (castling q) c)) k)
  else Ok q.

Lemma revoke_fold_sc : forall lost cl acc,
  fold_left (revoke_step lost) cl (q <- acc ;; Ok (set_counters q h l))
  = (q <- fold_left (revoke_step lost) cl acc ;; Ok (set_counters q h l)).
Proof.
  intros lost cl. induction cl as [|[c i] cl IH]; intros acc; [reflexivity|]. cbn [fold_left].
  rewrite <- IH. f_equal. unfold revoke_step. destruct acc as [q| |]; cbn [bind]; try reflexivity.
  change (castling (set_counters q h l)) with (castling q).
  destruct (negb (N.land (N.land lost c) (castling q) =? 0)); [|reflexivity].
  destruct (key_castling_idx K i); cbn [bind]; reflexivity.
Qed.

Lemma revoke_sc : forall p sq,
  revoke K (set_counters p h l) sq = (q <- revoke K p sq ;; Ok (set_counters q h l)).
Proof.
  intros p sq. unfold revoke. exact (revoke_fold_sc (lost_rights sq) castling_list (Ok p)).
Qed.

Lemma st_ep_sc : forall p, st_ep K (set_counters p h l) = (q <- st_ep K p ;; Ok (set_counters q h l)).
Proof.
  intros p. unfold st_ep. change (ep (set_counters p h l)) with (ep p).
  destruct (negb (ep p =? SQ_NONE)); [|reflexivity]. res_case.
Qed.

Lemma st_cap_sc : forall p dst target,
  st_cap K (set_counters p h l) dst target = (r <- st_cap K p dst target ;; Ok (set_counters (fst r) h l, snd r)).
Proof.
  intros p dst target. unfold st_cap. destruct (negb (target =? NO_PIECE)); [|reflexivity].
  rewrite delete_piece_sc. destruct (delete_piece K p dst) as [[p1 pc]| |]; reflexivity.
Qed.

Lemma st_pawn_sc : forall stm p piece src dst reset,
  st_pawn K stm (set_counters p h l) piece src dst reset
  = (r <- st_pawn K stm p piece src dst reset ;; Ok (set_counters (fst r) h l, snd r)).
Proof.
  intros stm p piece src dst reset. unfold st_pawn. destruct (piece_type piece =? PAWN); [|reflexivity].
  destruct (abs_diff src dst =? 16); [|reflexivity]. res_case.
Qed.

Lemma st_kind_sc : forall stm p m,
  st_kind K stm (set_counters p h l) m = (q <- st_kind K stm p m ;; Ok (set_counters q h l)).
Proof.
  intros stm p m. unfold st_kind.
  destruct (mv_kind m =? CASTLING).
  { repeat match goal with |- context [if ?c then _ else _] => destruct c end; try reflexivity;
      rewrite move_piece_sc;
      match goal with |- context [move_piece K p ?a ?b] => destruct (move_piece K p a b) as [[p1 pc]| |] end;
      reflexivity. }
  destruct (mv_kind m =? EN_PASSANT).
  { rewrite delete_piece_sc.
    match goal with |- context [delete_piece K p ?a] => destruct (delete_piece K p a) as [[p1 pc]| |] end;
    reflexivity. }
  destruct (mv_kind m =? PROMOTION); [|reflexivity].
  rewrite delete_piece_sc. destruct (delete_piece K p (mv_dst m)) as [[p1 pc]| |]; cbn [bind fst snd]; try reflexivity.
  apply set_piece_sc.
Qed.

Lemma st_fin_sc : forall stm p reset,
  st_fin K stm (set_counters p h l) reset
  = set_counters (st_fin K stm p reset) (if reset then 0 else add8 h 1) (add8 l 1).
Proof. intros stm p reset. reflexivity. Qed.

(* everything before the final stage *)
Definition mm_body (p : position) (m : N) : res (position * bool) :=
  p1 <- st_ep K p ;;
  target <- get_piece p1 (mv_dst m) ;;
  r <- st_cap K p1 (mv_dst m) target ;;
  let '(p2, reset) := r in
  p3 <- revoke K p2 (mv_src m) ;;
  p4 <- revoke K p3 (mv_dst m) ;;
  r <- move_piece K p4 (mv_src m) (mv_dst m) ;;
  let '(p5, piece) := r in
  r <- st_pawn K (side p) p5 piece (mv_src m) (mv_dst m) reset ;;
  let '(p6, reset) := r in
  p7 <- st_kind K (side p) p6 m ;;
  Ok (p7, reset).

Lemma make_move_body : forall p m,
  make_move K p m = (r <- mm_body p m ;; Ok (st_fin K (side p) (fst r) (snd r))).
Proof.
  intros p m. rewrite make_move_stages. unfold mm_body.
  destruct (st_ep K p) as [p1| |]; cbn [bind]; try reflexivity.
  destruct (get_piece p1 (mv_dst m)) as [target| |]; cbn [bind]; try reflexivity.
  destruct (st_cap K p1 (mv_dst m) target) as [[p2 reset]| |]; cbn [bind]; try reflexivity.
  destruct (revoke K p2 (mv_src m)) as [p3| |]; cbn [bind]; try reflexivity.
  destruct (revoke K p3 (mv_dst m)) as [p4| |]; cbn [bind]; try reflexivity.
  destruct (move_piece K p4 (mv_src m) (mv_dst m)) as [[p5 piece]| |]; cbn [bind]; try reflexivity.
  destruct (st_pawn K (side p) p5 piece (mv_src m) (mv_dst m) reset) as [[p6 reset']| |]; cbn [bind]; try reflexivity.
  destruct (st_kind K (side p) p6 m) as [p7| |]; cbn [bind]; reflexivity.
Qed.

Lemma mm_body_sc : forall p m,
  mm_body (set_counters p h l) m = (r <- mm_body p m ;; Ok (set_counters (fst r) h l, snd r)).
Proof.
  intros p m. unfold mm_body. change (side (set_counters p h l)) with (side p).
  rewrite st_ep_sc.
  destruct (st_ep K p) as [p1| |]; cbn [bind]; try reflexivity.
  change (get_piece (set_counters p1 h l) (mv_dst m)) with (get_piece p1 (mv_dst m)).
  destruct (get_piece p1 (mv_dst m)) as [target| |]; cbn [bind]; try reflexivity.
  rewrite st_cap_sc.
  destruct (st_cap K p1 (mv_dst m) target) as [[p2 reset]| |]; cbn [bind fst snd]; try reflexivity.
  rewrite revoke_sc.
  destruct (revoke K p2 (mv_src m)) as [p3| |]; cbn [bind]; try reflexivity.
  rewrite revoke_sc.
  destruct (revoke K p3 (mv_dst m)) as [p4| |]; cbn [bind]; try reflexivity.
  rewrite move_piece_sc.
  destruct (move_piece K p4 (mv_src m) (mv_dst m)) as [[p5 piece]| |]; cbn [bind fst snd]; try reflexivity.
  rewrite st_pawn_sc.
  destruct (st_pawn K (side p) p5 piece (mv_src m) (mv_dst m) reset) as [[p6 reset']| |]; cbn [bind fst snd]; try reflexivity.
  rewrite st_kind_sc.
  destruct (st_kind K (side p) p6 m) as [p7| |]; cbn [bind]; reflexivity.
Qed.

(* MakeMove after changing the counters: the same position up to its counters *)
Theorem make_move_set_counters : forall p m q,
  make_move K p m = Ok q ->
  exists h' l', make_move K (set_counters p h l) m = Ok (set_counters q h' l').
Proof.
  intros p m q H. rewrite make_move_body in H. rewrite make_move_body, mm_body_sc.
  destruct (mm_body p m) as [[p7 reset]| |]; cbn [bind fst snd] in *; try discriminate.
  inversion H; subst q; clear H. change (side (set_counters p h l)) with (side p).
  rewrite st_fin_sc. eauto.
Qed.

End Counters.

(* ---- the side to move and the counters after MakeMove ---- *)
Section Fields.
Variable K : zkeys.

Definition keeps (p q : position) : Prop := side q = side p /\ hmc q = hmc p /\ ply q = ply p.

Lemma keeps_refl : forall p, keeps p p. Proof. intros p. unfold keeps. tauto. Qed.
Lemma keeps_trans : forall p q r, keeps p q -> keeps q r -> keeps p r.
Proof. intros p q r (A1 & A2 & A3) (B1 & B2 & B3). unfold keeps. repeat split; congruence. Qed.

Lemma set_piece_keeps : forall p pc sq q, set_piece K p pc sq = Ok q -> keeps p q.
Proof.
  intros p pc sq q H. apply set_piece_spec in H.
  destruct H as (k & _ & _ & _ & _ & _ & Hs & _ & _ & Hh & Hp). unfold keeps. tauto.
Qed.

Lemma delete_piece_keeps : forall p sq q pc, delete_piece K p sq = Ok (q, pc) -> keeps p q.
Proof.
  intros p sq q pc H. apply delete_piece_spec in H.
  destruct H as (k & _ & _ & _ & _ & _ & Hs & _ & _ & Hh & Hp). unfold keeps. tauto.
Qed.

Lemma move_piece_keeps : forall p from to q pc, move_piece K p from to = Ok (q, pc) -> keeps p q.
Proof.
  intros p from to q pc H. apply move_piece_spec in H. destruct H as (p1 & D & S).
  eapply keeps_trans; [eapply delete_piece_keeps; exact D | eapply set_piece_keeps; exact S].
Qed.

Lemma revoke_keeps : forall p sq q, revoke K p sq = Ok q -> keeps p q.
Proof.
  intros p sq q H. unfold revoke in H.
  eapply (fold_bind_inv (fun q => keeps p q)) in H; [exact H | | apply keeps_refl].
  intros a [c i] a' _ Ha S.
  destruct (negb (N.land (N.land (lost_rights sq) c) (castling a) =? 0)).
  - bind_inv S. inversion S; subst a'. exact Ha.
  - inversion S; subst a'. exact Ha.
Qed.

Lemma st_ep_keeps : forall p q, st_ep K p = Ok q -> keeps p q.
Proof.
  intros p q H. unfold st_ep in H. destruct (negb (ep p =? SQ_NONE)).
  - bind_inv H. inversion H; subst q. unfold keeps. cbn. tauto.
  - inversion H; subst q. apply keeps_refl.
Qed.

Lemma st_cap_keeps : forall p dst target q reset, st_cap K p dst target = Ok (q, reset) -> keeps p q.
Proof.
  intros p dst target q reset H. unfold st_cap in H. destruct (negb (target =? NO_PIECE)).
  - bind_inv H. destruct a as [p1 pc]. inversion H; subst. eapply delete_piece_keeps; exact E.
  - inversion H; subst. apply keeps_refl.
Qed.

Lemma st_pawn_keeps : forall stm p piece src dst reset q reset',
  st_pawn K stm p piece src dst reset = Ok (q, reset') -> keeps p q.
Proof.
  intros stm p piece src dst reset q reset' H. unfold st_pawn in H.
  destruct (piece_type piece =? PAWN); [|inversion H; subst; apply keeps_refl].
  destruct (abs_diff src dst =? 16); [|inversion H; subst; apply keeps_refl].
  bind_inv H. inversion H; subst. unfold keeps. cbn. tauto.
Qed.

Lemma st_kind_keeps : forall stm p m q, st_kind K stm p m = Ok q -> keeps p q.
Proof.
  intros stm p m q H. unfold st_kind in H.
  destruct (mv_kind m =? CASTLING).
  { repeat match type of H with context [if ?c then _ else _] => destruct c end; try discriminate H;
      bind_inv H; destruct a as [p1 pc]; inversion H; subst; eapply move_piece_keeps; exact E. }
  destruct (mv_kind m =? EN_PASSANT).
  { bind_inv H. destruct a as [p1 pc]. inversion H; subst. eapply delete_piece_keeps; exact E. }
  destruct (mv_kind m =? PROMOTION); [|inversion H; subst; apply keeps_refl].
  bind_inv H. destruct a as [p1 pc]. cbn [fst] in H.
  eapply keeps_trans; [eapply delete_piece_keeps; exact E | eapply set_piece_keeps; exact H].
Qed.

Lemma mm_body_keeps : forall p m q reset, mm_body K p m = Ok (q, reset) -> keeps p q.
Proof.
  intros p m q reset H. unfold mm_body in H.
  bind_inv H. rename a into p1, E into E1.
  bind_inv H. rename a into target, E into E2.
  bind_inv H. destruct a as [p2 reset2]. rename E into E3.
  bind_inv H. rename a into p3, E into E4.
  bind_inv H. rename a into p4, E into E5.
  bind_inv H. destruct a as [p5 piece]. rename E into E6.
  bind_inv H. destruct a as [p6 reset6]. rename E into E7.
  bind_inv H. rename a into p7, E into E8. inversion H; subst.
  eapply keeps_trans; [eapply st_ep_keeps; exact E1|].
  eapply keeps_trans; [eapply st_cap_keeps; exact E3|].
  eapply keeps_trans; [eapply revoke_keeps; exact E4|].
  eapply keeps_trans; [eapply revoke_keeps; exact E5|].
  eapply keeps_trans; [eapply move_piece_keeps; exact E6|].
  eapply keeps_trans; [eapply st_pawn_keeps; exact E7|].
  eapply st_kind_keeps; exact E8.
Qed.

Theorem make_move_fields : forall p m q, make_move K p m = Ok q ->
  side q = switch_color (side p) /\ ply q = add8 (ply p) 1 /\ (hmc q = 0 \/ hmc q = add8 (hmc p) 1).
Proof.
  intros p m q H. rewrite make_move_body in H. bind_inv H. destruct a as [p7 reset]. cbn [fst snd] in H.
  apply mm_body_keeps in E. destruct E as (Hs & Hh & Hp). inversion H; subst q; clear H.
  unfold st_fin. cbn. rewrite Hh, Hp. repeat split. destruct reset; [left | right]; reflexivity.
Qed.

End Fields.
