(* Facts about the FIDE specification (Rules/Fide.v) alone:
   - the candidate list is duplicate-free and contains every legal move, so [legal_moves s] is
     duplicate-free and lists exactly the moves with [legal s m = true];
   - [legal_moves_fast s = legal_moves s] (the same list);
   - legality, the successor's placement/turn/rights/en-passant square, and perft do not read the two
     counters ([b_hmc], [b_full]). *)
From Coq Require Import NArith ZArith List Bool Lia Permutation.
From Clemens Require Import Rules.Fide.
Import ListNotations.
Open Scope Z_scope.

(* ---- lists ---- *)
Lemma NoDup_app_intro : forall {A} (l1 l2 : list A),
  NoDup l1 -> NoDup l2 -> (forall x, In x l1 -> ~ In x l2) -> NoDup (l1 ++ l2).
Proof.
  intros A l1 l2 H1 H2 Hd. induction H1 as [|x l1 Hx H1 IH]; [exact H2|].
  cbn [app]. constructor.
  - rewrite in_app_iff. intros [H | H]; [exact (Hx H) | exact (Hd x (or_introl eq_refl) H)].
  - apply IH. intros y Hy. apply Hd. right. exact Hy.
Qed.

Lemma NoDup_flat_map_key : forall {A B} (f : A -> list B) (key : B -> A) l,
  NoDup l -> (forall x, In x l -> NoDup (f x)) -> (forall x y, In y (f x) -> key y = x) ->
  NoDup (flat_map f l).
Proof.
  intros A B f key l Hl Hf Hkey. induction Hl as [|a l Ha Hl IH]; [constructor|].
  cbn [flat_map]. apply NoDup_app_intro.
  - apply Hf. left. reflexivity.
  - apply IH. intros x Hx. apply Hf. right. exact Hx.
  - intros y Hy Hy'. apply in_flat_map in Hy'. destruct Hy' as [x [Hx Hyx]].
    apply Hkey in Hy. apply Hkey in Hyx. subst. contradiction.
Qed.

Lemma filter_flat_map : forall {A B} (g : B -> bool) (f : A -> list B) l,
  filter g (flat_map f l) = flat_map (fun x => filter g (f x)) l.
Proof.
  intros A B g f l. induction l as [|a l IH]; [reflexivity|]. cbn [flat_map].
  rewrite filter_app, IH. reflexivity.
Qed.

Lemma flat_map_ext_in : forall {A B} (f g : A -> list B) l,
  (forall x, In x l -> f x = g x) -> flat_map f l = flat_map g l.
Proof.
  intros A B f g l H. induction l as [|a l IH]; [reflexivity|]. cbn [flat_map].
  rewrite (H a (or_introl eq_refl)), IH; [reflexivity|]. intros x Hx. apply H. right. exact Hx.
Qed.

Lemma filter_none : forall {A} (g : A -> bool) l, (forall x, In x l -> g x = false) -> filter g l = [].
Proof.
  intros A g l H. induction l as [|a l IH]; [reflexivity|]. cbn [filter].
  rewrite (H a (or_introl eq_refl)). apply IH. intros x Hx. apply H. right. exact Hx.
Qed.

Lemma flat_map_nil : forall {A B} (l : list A), flat_map (fun _ => @nil B) l = [].
Proof. intros A B l. induction l as [|a l IH]; [reflexivity | exact IH]. Qed.

(* ---- the candidate list ---- *)
Definition mk_fmove (a b : square) (pr : option ptype) : fmove := {| m_from := a; m_to := b; m_promo := pr |}.

Lemma NoDup_promo_options : NoDup promo_options.
Proof.
  unfold promo_options. repeat constructor; cbn [In]; intros H;
    repeat (destruct H as [H | H]; [discriminate H|]); exact H.
Qed.

Lemma in_candidates : forall m, In m candidates <->
  In (m_from m) all_squares /\ In (m_to m) all_squares /\ In (m_promo m) promo_options.
Proof.
  intros m. unfold candidates. rewrite in_flat_map. split.
  - intros [a [Ha H]]. apply in_flat_map in H. destruct H as [b [Hb H]]. apply in_map_iff in H.
    destruct H as [pr [<- Hpr]]. cbn [m_from m_to m_promo]. tauto.
  - intros [Ha [Hb Hpr]]. exists (m_from m). split; [exact Ha|]. apply in_flat_map. exists (m_to m).
    split; [exact Hb|]. apply in_map_iff. exists (m_promo m). split; [destruct m; reflexivity | exact Hpr].
Qed.

Lemma all_squares_NoDup : NoDup all_squares.
Proof.
  unfold all_squares. apply (NoDup_flat_map_key _ (fun q => Z.to_nat (snd q))); [apply seq_NoDup | |].
  - intros r _. apply FinFun.Injective_map_NoDup; [|apply seq_NoDup].
    intros x y H. inversion H. lia.
  - intros r q H. apply in_map_iff in H. destruct H as [f [<- _]]. cbn [snd]. lia.
Qed.

Theorem NoDup_candidates : NoDup candidates.
Proof.
  pose proof all_squares_NoDup as Hsq. unfold candidates. apply (NoDup_flat_map_key _ m_from); [exact Hsq | |].
  - intros a _. apply (NoDup_flat_map_key _ m_to); [exact Hsq | |].
    + intros b _. apply FinFun.Injective_map_NoDup; [|exact NoDup_promo_options].
      intros x y H. inversion H. reflexivity.
    + intros b m H. apply in_map_iff in H. destruct H as [pr [<- _]]. reflexivity.
  - intros a m H. apply in_flat_map in H. destruct H as [b [_ H]]. apply in_map_iff in H.
    destruct H as [pr [<- _]]. reflexivity.
Qed.

(* ---- every pseudo-legal move is a candidate ---- *)
Lemma in_all_squares_on : forall q, on_board q = true -> In q all_squares.
Proof.
  intros [f r] H. unfold on_board in H. rewrite !andb_true_iff, !Z.leb_le in H.
  unfold all_squares. apply in_flat_map. exists (Z.to_nat r). split; [apply in_seq; lia|].
  apply in_map_iff. exists (Z.to_nat f). split; [f_equal; lia | apply in_seq; lia].
Qed.

Lemma all_squares_on : forall q, In q all_squares -> on_board q = true.
Proof.
  intros q H. unfold all_squares in H. apply in_flat_map in H. destruct H as [r [Hr H]].
  apply in_map_iff in H. destruct H as [f [<- Hf]]. apply in_seq in Hr, Hf.
  unfold on_board. rewrite !andb_true_iff, !Z.leb_le. lia.
Qed.

Lemma pseudo_legal_promo : forall s m, pseudo_legal s m = true -> In (m_promo m) promo_options.
Proof.
  intros s m H. unfold pseudo_legal in H.
  destruct (at_sq s (m_from m)) as [pc|]; [|rewrite andb_false_r in H; discriminate].
  rewrite !andb_true_iff in H. destruct H as [_ [[_ _] H]].
  unfold promo_options. cbn [In]. revert H.
  destruct (m_promo m) as [[| | | | |]|]; intros H; auto 8; exfalso;
    destruct (p_type pc); cbn [is_promo_piece] in H;
    try destruct (snd (m_to m) =? last_rank (p_color pc));
    rewrite ?andb_false_r in H; cbn [andb] in H; discriminate H.
Qed.

Lemma pseudo_legal_candidate : forall s m, pseudo_legal s m = true -> In m candidates.
Proof.
  intros s m H. apply in_candidates. pose proof (pseudo_legal_promo s m H) as Hpr.
  unfold pseudo_legal in H. rewrite !andb_true_iff in H. destruct H as [[[Ha Hb] _] _].
  split; [apply in_all_squares_on, Ha|]. split; [apply in_all_squares_on, Hb | exact Hpr].
Qed.

Theorem legal_moves_iff : forall s m, In m (legal_moves s) <-> legal s m = true.
Proof.
  intros s m. unfold legal_moves. rewrite filter_In. split; [tauto|]. intros H. split; [|exact H].
  unfold legal in H. apply andb_true_iff in H. apply (pseudo_legal_candidate s), (proj1 H).
Qed.

Theorem NoDup_legal_moves : forall s, NoDup (legal_moves s).
Proof. intros s. unfold legal_moves. apply NoDup_filter, NoDup_candidates. Qed.

(* ---- the fast enumeration is the same list ---- *)
Lemma pseudo_legal_origin : forall s m, pseudo_legal s m = true ->
  exists pc, at_sq s (m_from m) = Some pc /\ color_eqb (p_color pc) (b_turn s) = true.
Proof.
  intros s m H. unfold pseudo_legal in H.
  destruct (at_sq s (m_from m)) as [pc|]; [|rewrite andb_false_r in H; discriminate].
  rewrite !andb_true_iff in H. destruct H as [_ [[Hc _] _]]. exists pc. split; [reflexivity | exact Hc].
Qed.

Theorem legal_moves_fast_eq : forall s, legal_moves_fast s = legal_moves s.
Proof.
  intros s. unfold legal_moves, legal_moves_fast, candidates. rewrite filter_flat_map.
  apply flat_map_ext_in. intros a _. rewrite filter_flat_map.
  assert (Hnone : (forall pc, at_sq s a = Some pc -> color_eqb (p_color pc) (b_turn s) = false) ->
                  flat_map (fun b => filter (legal s) (map (fun pr => {| m_from := a; m_to := b; m_promo := pr |}) promo_options))
                           all_squares = []).
  { intros Hno. rewrite <- (flat_map_nil (B := fmove) all_squares). apply flat_map_ext_in. intros b _.
    apply filter_none. intros m Hm. apply in_map_iff in Hm. destruct Hm as [pr [<- _]].
    apply not_true_iff_false. intros Hl. unfold legal in Hl. apply andb_true_iff in Hl.
    destruct (pseudo_legal_origin s _ (proj1 Hl)) as [pc [Hat Hc]]. cbn [m_from] in Hat.
    rewrite (Hno pc Hat) in Hc. discriminate. }
  destruct (at_sq s a) as [pc|] eqn:Eat.
  - destruct (color_eqb (p_color pc) (b_turn s)) eqn:Ec; [reflexivity|].
    symmetry. apply Hnone. intros pc' Hpc'. inversion Hpc'; subst. exact Ec.
  - symmetry. apply Hnone. intros pc' Hpc'. discriminate.
Qed.

(* perft over [legal_moves] *)
Lemma perft_S : forall d s,
  perft (S d) s = fold_left (fun acc m => acc + perft d (apply s m)) (legal_moves s) 0.
Proof. intros d s. cbn [perft]. rewrite legal_moves_fast_eq. reflexivity. Qed.

(* ---- nothing but the two counters is irrelevant: states that agree on placement, turn, rights and
        en-passant square have the same moves, and their successors agree in the same way ---- *)
Definition same_core (s s' : bstate) : Prop :=
  b_at s = b_at s' /\ b_turn s = b_turn s' /\ b_rights s = b_rights s' /\ b_ep s = b_ep s'.

Lemma same_core_refl : forall s, same_core s s.
Proof. intros s. unfold same_core. tauto. Qed.
Lemma same_core_sym : forall s s', same_core s s' -> same_core s' s.
Proof. intros s s' (H1 & H2 & H3 & H4). unfold same_core. auto. Qed.
Lemma same_core_trans : forall s1 s2 s3, same_core s1 s2 -> same_core s2 s3 -> same_core s1 s3.
Proof. intros s1 s2 s3 (A1 & A2 & A3 & A4) (B1 & B2 & B3 & B4). unfold same_core. repeat split; congruence. Qed.

Section Ext.
Variables s s' : bstate.
Hypothesis Hat : b_at s = b_at s'.

Lemma at_sq_ext : forall q, at_sq s q = at_sq s' q.
Proof. intros q. unfold at_sq. rewrite Hat. reflexivity. Qed.

Lemma empty_ext : forall q, empty s q = empty s' q.
Proof. intros q. unfold empty. rewrite at_sq_ext. reflexivity. Qed.

Lemma path_clear_ext : forall n cur step target, path_clear n s cur step target = path_clear n s' cur step target.
Proof.
  induction n as [|n IH]; intros cur step target; [reflexivity|]. cbn [path_clear].
  rewrite at_sq_ext, IH. reflexivity.
Qed.

Lemma slides_ext : forall a b rw bw, slides s a b rw bw = slides s' a b rw bw.
Proof. intros a b rw bw. unfold slides. rewrite path_clear_ext. reflexivity. Qed.

Lemma attacks_from_ext : forall a b, attacks_from s a b = attacks_from s' a b.
Proof. intros a b. unfold attacks_from. rewrite at_sq_ext, !slides_ext. reflexivity. Qed.

Lemma existsb_ext_all : forall {A} (f g : A -> bool) l, (forall x, f x = g x) -> existsb f l = existsb g l.
Proof. intros A f g l H. induction l as [|a l IH]; [reflexivity|]. cbn [existsb]. rewrite H, IH. reflexivity. Qed.
Lemma find_ext_all : forall {A} (f g : A -> bool) l, (forall x, f x = g x) -> find f l = find g l.
Proof. intros A f g l H. induction l as [|a l IH]; [reflexivity|]. cbn [find]. rewrite H, IH. reflexivity. Qed.

Lemma attacked_by_ext : forall c b, attacked_by s c b = attacked_by s' c b.
Proof.
  intros c b. unfold attacked_by. apply existsb_ext_all. intros a. rewrite at_sq_ext, attacks_from_ext. reflexivity.
Qed.

Lemma king_square_ext : forall c, king_square s c = king_square s' c.
Proof. intros c. unfold king_square. apply find_ext_all. intros a. rewrite at_sq_ext. reflexivity. Qed.

Lemma in_check_ext : forall c, in_check s c = in_check s' c.
Proof.
  intros c. unfold in_check. rewrite king_square_ext. destruct (king_square s' c); [apply attacked_by_ext | reflexivity].
Qed.

Lemma is_castling_move_ext : forall m, is_castling_move s m = is_castling_move s' m.
Proof. intros m. unfold is_castling_move. rewrite at_sq_ext. reflexivity. Qed.
Lemma is_ep_move_ext : forall m, is_ep_move s m = is_ep_move s' m.
Proof. intros m. unfold is_ep_move. rewrite at_sq_ext, empty_ext. reflexivity. Qed.
Lemma is_capture_move_ext : forall m, is_capture_move s m = is_capture_move s' m.
Proof. intros m. unfold is_capture_move. rewrite empty_ext, is_ep_move_ext. reflexivity. Qed.

Hypothesis Hturn : b_turn s = b_turn s'.
Hypothesis Hrights : b_rights s = b_rights s'.
Hypothesis Hep : b_ep s = b_ep s'.

Lemma castling_ok_ext : forall c ks, castling_ok s c ks = castling_ok s' c ks.
Proof.
  intros c ks. unfold castling_ok, has_right. rewrite Hrights, !at_sq_ext, !empty_ext, !attacked_by_ext. reflexivity.
Qed.

Lemma pseudo_legal_ext : forall m, pseudo_legal s m = pseudo_legal s' m.
Proof.
  intros m. unfold pseudo_legal. rewrite !at_sq_ext, Hturn, Hep.
  destruct (at_sq s' (m_from m)) as [pc|]; [|reflexivity].
  rewrite !slides_ext, !castling_ok_ext, !empty_ext. reflexivity.
Qed.

Lemma apply_core : forall m, same_core (apply s m) (apply s' m).
Proof.
  intros m. unfold apply. rewrite at_sq_ext.
  destruct (at_sq s' (m_from m)) as [pc|]; [|unfold same_core; tauto].
  unfold same_core. cbn [b_at b_turn b_rights b_ep].
  rewrite is_ep_move_ext, is_castling_move_ext, Hat, Hrights. tauto.
Qed.

End Ext.

Lemma in_check_core : forall s s' c, same_core s s' -> in_check s c = in_check s' c.
Proof. intros s s' c (Ha & _). apply in_check_ext, Ha. Qed.

Lemma pseudo_legal_core : forall s s' m, same_core s s' -> pseudo_legal s m = pseudo_legal s' m.
Proof. intros s s' m (Ha & Ht & Hr & He). apply pseudo_legal_ext; assumption. Qed.

Lemma apply_same_core : forall s s' m, same_core s s' -> same_core (apply s m) (apply s' m).
Proof. intros s s' m (Ha & Ht & Hr & He). apply apply_core; assumption. Qed.

Lemma legal_core : forall s s' m, same_core s s' -> legal s m = legal s' m.
Proof.
  intros s s' m Hc. unfold legal.
  rewrite (pseudo_legal_core s s' m Hc), (in_check_core _ _ (b_turn s) (apply_same_core s s' m Hc)).
  destruct Hc as (_ & Ht & _). rewrite Ht. reflexivity.
Qed.

Lemma legal_moves_core : forall s s', same_core s s' -> legal_moves s = legal_moves s'.
Proof. intros s s' Hc. unfold legal_moves. apply filter_ext. intros m. apply legal_core, Hc. Qed.

Lemma fold_perft_ext : forall (f g : fmove -> Z) l a,
  (forall m, In m l -> f m = g m) -> fold_left (fun acc m => acc + f m) l a = fold_left (fun acc m => acc + g m) l a.
Proof.
  intros f g l. induction l as [|m l IH]; intros a H; [reflexivity|]. cbn [fold_left].
  rewrite (H m (or_introl eq_refl)). apply IH. intros m' Hm'. apply H. right. exact Hm'.
Qed.

Theorem perft_core : forall d s s', same_core s s' -> perft d s = perft d s'.
Proof.
  induction d as [|d IH]; intros s s' Hc; [reflexivity|]. rewrite !perft_S.
  rewrite (legal_moves_core s s' Hc). apply fold_perft_ext. intros m _. apply IH, apply_same_core, Hc.
Qed.

(* the mover's colour: after a pseudo-legal move it is the other side's turn *)
Lemma apply_turn : forall s m, pseudo_legal s m = true -> b_turn (apply s m) = opp (b_turn s).
Proof.
  intros s m H. destruct (pseudo_legal_origin s m H) as [pc [Hat Hc]]. unfold apply. rewrite Hat.
  cbn [b_turn]. destruct (p_color pc), (b_turn s); try discriminate Hc; reflexivity.
Qed.
