(* C01, attack part, step 1: the coordinate glue between the engine's squares (N, a1 = 0 ... h8 = 63),
   the coordinates of Att/Geometry.v and the (file, rank) squares of the FIDE specification. *)
From Coq Require Import NArith ZArith List Bool Lia ZifyBool ZifyN ZifyNat FinFun.
From Clemens Require Import Base.Res Base.Word Pos.Types Att.Attacks Att.Geometry Att.ShiftsProofs
  Att.SlidingProofs Pos.Position Pos.Inv Att.AttackersProofs Rules.Fide Rules.Abs.
Import ListNotations.
Open Scope N_scope.
Ltac Zify.zify_post_hook ::= Z.to_euclidean_division_equations.

(* ---- file and rank ---- *)
Lemma file_of_mod : forall s, file_of s = s mod 8.
Proof. intros s. unfold file_of. change 7 with (N.ones 3). rewrite N.land_ones. reflexivity. Qed.

Lemma rank_of_div : forall s, rank_of s = s / 8.
Proof. intros s. unfold rank_of. rewrite N.shiftr_div_pow2. reflexivity. Qed.

(* the abstraction's squares are the coordinates of Att/Geometry.v (for every s, on or off the board) *)
Lemma abs_sq_fr : forall s, abs_sq s = sq_fr s.
Proof.
  intros s. unfold abs_sq, sq_fr, sq_file, sq_rank. rewrite file_of_mod, rank_of_div.
  f_equal; lia.
Qed.

Lemma abs_sq_file : forall s, fst (abs_sq s) = sq_file s.
Proof. intros s. rewrite abs_sq_fr. reflexivity. Qed.
Lemma abs_sq_rank : forall s, snd (abs_sq s) = sq_rank s.
Proof. intros s. rewrite abs_sq_fr. reflexivity. Qed.

(* the two notions of "on the board" coincide *)
Lemma on_board_eq : forall c, Fide.on_board c = Geometry.on_board c.
Proof. intros [f r]. unfold Fide.on_board, Geometry.on_board. cbn [fst snd]. lia. Qed.

Lemma fide_on_board_iff : forall c, Fide.on_board c = true <-> (0 <= fst c <= 7 /\ 0 <= snd c <= 7)%Z.
Proof. intros [f r]. unfold Fide.on_board. cbn [fst snd]. lia. Qed.

Lemma abs_sq_on_board : forall s, Fide.on_board (abs_sq s) = true <-> s < 64.
Proof.
  intros s. rewrite on_board_eq, abs_sq_fr. exact (is_square_lt s).
Qed.

Lemma abs_sq_on_board_lt : forall s, s < 64 -> Fide.on_board (abs_sq s) = true.
Proof. intros s Hs. apply abs_sq_on_board, Hs. Qed.

Lemma sq_index_abs : forall s, sq_index (abs_sq s) = N.to_nat s.
Proof.
  intros s. unfold sq_index. rewrite abs_sq_fr. unfold sq_fr, sq_file, sq_rank. cbn [fst snd]. lia.
Qed.

Lemma conc_abs : forall s, conc_sq (abs_sq s) = s.
Proof.
  intros s. unfold conc_sq. rewrite abs_sq_fr. unfold sq_fr, sq_file, sq_rank. cbn [fst snd]. lia.
Qed.

Lemma conc_sq_fr_sq : forall q, conc_sq q = fr_sq q.
Proof. intros [f r]. unfold conc_sq, fr_sq. cbn [fst snd]. f_equal. lia. Qed.

Lemma abs_conc : forall q, Fide.on_board q = true -> abs_sq (conc_sq q) = q.
Proof.
  intros q Hq. rewrite abs_sq_fr, conc_sq_fr_sq. apply sq_fr_fr_sq. rewrite <- on_board_eq. exact Hq.
Qed.

Lemma conc_sq_lt : forall q, Fide.on_board q = true -> conc_sq q < 64.
Proof. intros q Hq. rewrite conc_sq_fr_sq. apply on_board_lt. rewrite <- on_board_eq. exact Hq. Qed.

Lemma abs_sq_inj : forall s t, abs_sq s = abs_sq t -> s = t.
Proof. intros s t H. rewrite !abs_sq_fr in H. apply sq_fr_inj, H. Qed.

(* abs_sq is a bijection between the squares below 64 and the on-board coordinate pairs *)
Theorem abs_sq_bijection :
  (forall s, s < 64 -> Fide.on_board (abs_sq s) = true /\ conc_sq (abs_sq s) = s) /\
  (forall q, Fide.on_board q = true -> conc_sq q < 64 /\ abs_sq (conc_sq q) = q).
Proof.
  split.
  - intros s Hs. split; [apply abs_sq_on_board_lt, Hs | apply conc_abs].
  - intros q Hq. split; [apply conc_sq_lt, Hq | apply abs_conc, Hq].
Qed.

Lemma sq_eqb_eq : forall a b, sq_eqb a b = true <-> a = b.
Proof.
  intros [a1 a2] [b1 b2]. unfold sq_eqb. cbn [fst snd]. split.
  - intros H. f_equal; lia.
  - intros H. inversion H. lia.
Qed.

Lemma sq_eqb_abs : forall s t, sq_eqb (abs_sq s) (abs_sq t) = (s =? t).
Proof.
  intros s t. apply eq_true_iff_eq. rewrite sq_eqb_eq, N.eqb_eq. split.
  - apply abs_sq_inj.
  - intros ->. reflexivity.
Qed.

(* ---- the list of all squares ---- *)
Lemma all_squares_abs : all_squares = map abs_sq squares64.
Proof. vm_compute. reflexivity. Qed.

Lemma squares64_squares : squares64 = squares. Proof. reflexivity. Qed.

Lemma in_squares64 : forall s, In s squares64 <-> s < 64.
Proof. intros s. rewrite squares64_squares. split; [apply squares_lt | apply in_squares]. Qed.

Lemma in_all_squares : forall q, In q all_squares <-> Fide.on_board q = true.
Proof.
  intros q. rewrite all_squares_abs, in_map_iff. split.
  - intros [s [<- Hs]]. apply abs_sq_on_board_lt, in_squares64, Hs.
  - intros Hq. exists (conc_sq q). split; [apply abs_conc, Hq | apply in_squares64, conc_sq_lt, Hq].
Qed.

Lemma NoDup_squares64 : NoDup squares64.
Proof.
  unfold squares64. apply FinFun.Injective_map_NoDup; [|apply seq_NoDup].
  intros x y H. lia.
Qed.

Lemma NoDup_all_squares : NoDup all_squares.
Proof.
  rewrite all_squares_abs. apply FinFun.Injective_map_NoDup; [|apply NoDup_squares64].
  intros x y. apply abs_sq_inj.
Qed.

(* ---- the mailbox ---- *)
Lemma abs_piece_0 : abs_piece 0 = None. Proof. reflexivity. Qed.

Lemma at_sq_abs : forall p s, s < 64 -> at_sq (abs p) (abs_sq s) = abs_piece (piece_at p s).
Proof.
  intros p s Hs. unfold at_sq. rewrite (abs_sq_on_board_lt s Hs), sq_index_abs.
  unfold abs. cbn [b_at]. unfold piece_at.
  rewrite <- abs_piece_0. apply map_nth.
Qed.

Lemma at_sq_abs_coord : forall p q, Fide.on_board q = true ->
  at_sq (abs p) q = abs_piece (piece_at p (conc_sq q)).
Proof.
  intros p q Hq. rewrite <- (abs_conc q Hq) at 1. apply at_sq_abs, conc_sq_lt, Hq.
Qed.

Lemma at_sq_off : forall st q, Fide.on_board q = false -> at_sq st q = None.
Proof. intros st q Hq. unfold at_sq. rewrite Hq. reflexivity. Qed.

(* piece codes *)
Definition pc_codes : list N := [0; 1; 2; 3; 4; 5; 6; 9; 10; 11; 12; 13; 14].

Lemma piece_at_code : forall p s, board_wf p = true -> s < 64 -> In (piece_at p s) pc_codes.
Proof.
  intros p s Hwf Hs. pose proof (piece_cases p Hwf s Hs) as H. cbv zeta in H. unfold pc_codes.
  cbn [In]. intuition.
Qed.

Lemma abs_piece_none : forall pc, In pc pc_codes -> (abs_piece pc = None <-> pc = 0).
Proof.
  intros pc H. unfold pc_codes in H. cbn [In] in H.
  repeat (destruct H as [<- | H]; [vm_compute; split; [intros; try discriminate; reflexivity | intros; try discriminate; reflexivity]|]).
  contradiction.
Qed.

(* emptiness seen through the abstraction *)
Lemma at_sq_none_occupied : forall p s, board_wf p = true -> s < 64 ->
  (at_sq (abs p) (abs_sq s) = None <-> occupied_in p s = false).
Proof.
  intros p s Hwf Hs. rewrite (at_sq_abs p s Hs), (abs_piece_none _ (piece_at_code p s Hwf Hs)).
  unfold occupied_in, NO_PIECE. rewrite negb_false_iff, N.eqb_eq. tauto.
Qed.

(* colours *)
Lemma abs_color_switch : forall c, c < 2 -> abs_color (switch_color c) = opp (abs_color c).
Proof.
  intros c Hc. assert (H : c = 0 \/ c = 1) by lia. destruct H as [-> | ->]; reflexivity.
Qed.

Lemma switch_color_lt : forall c, switch_color c < 2.
Proof. intros c. unfold switch_color, WHITE, BLACK. destruct (c =? 1); lia. Qed.
