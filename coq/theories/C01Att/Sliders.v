(* C01, attack part, step 2: the specification's sliding rule ([slides]: aligned, and [path_clear] walks
   along [step_to] over empty squares) is the geometric ray rule of Att/Geometry.v ([geo_ray_attacks_on]:
   some direction d and k in 1..7 with every square strictly between empty). Both are reduced to the
   common normal form "t = s + k*d for a unit direction d of the right kind, 1 <= k, and the squares
   s + j*d, 1 <= j < k, are on the board and empty", by induction along the ray. *)
From Coq Require Import NArith ZArith List Bool Lia ZifyBool ZifyN ZifyNat.
From Clemens Require Import Base.Res Base.Word Pos.Types Att.Attacks Att.Geometry Att.ShiftsProofs
  Att.SlidingProofs Pos.Position Pos.Inv Att.AttackersProofs Rules.Fide Rules.Abs.
From Clemens.C01Att Require Import Coords.
Import ListNotations.
Open Scope Z_scope.

(* ---- the walk of the specification ---- *)
Lemma next_stepc : forall (c d : coord), (fst c + fst d, snd c + snd d) = stepc c d 1.
Proof. intros [f r] [df dr]. unfold stepc. cbn [fst snd]. f_equal; lia. Qed.

Lemma path_clear_iff : forall n st d target c,
  path_clear n st c d target = true <->
  exists k, (1 <= k <= n)%nat /\ stepc c d k = target /\
            forall j, (1 <= j < k)%nat -> Fide.on_board (stepc c d j) = true /\ at_sq st (stepc c d j) = None.
Proof.
  induction n as [|n IH]; intros st d target c.
  - cbn [path_clear]. split; [discriminate|]. intros [k [Hk _]]. lia.
  - cbn [path_clear]. rewrite next_stepc.
    destruct (sq_eqb (stepc c d 1) target) eqn:Eeq.
    + split; [intros _|reflexivity]. apply sq_eqb_eq in Eeq. exists 1%nat. split; [lia|]. split; [exact Eeq|].
      intros j Hj. lia.
    + assert (Hne : stepc c d 1 <> target).
      { intros H. apply sq_eqb_eq in H. rewrite H in Eeq. discriminate. }
      destruct (at_sq st (stepc c d 1)) as [pc|] eqn:Eat.
      * split; [discriminate|]. intros [k [Hk [Htgt Hclear]]].
        destruct (Nat.eq_dec k 1) as [-> | Hk1]; [contradiction|].
        destruct (Hclear 1%nat ltac:(lia)) as [_ Hnone]. rewrite Eat in Hnone. discriminate.
      * rewrite andb_true_iff, IH. split.
        -- intros [Hon [k [Hk [Htgt Hclear]]]]. exists (S k). split; [lia|]. split.
           ++ rewrite <- stepc_S. exact Htgt.
           ++ intros j Hj. destruct (Nat.eq_dec j 1) as [-> | Hj1]; [split; assumption|].
              replace j with (S (j - 1)) by lia. rewrite <- stepc_S. apply Hclear. lia.
        -- intros [k [Hk [Htgt Hclear]]].
           destruct (Nat.eq_dec k 1) as [-> | Hk1]; [contradiction|].
           split; [apply (Hclear 1%nat); lia|].
           exists (k - 1)%nat. split; [lia|]. split.
           ++ rewrite stepc_S. replace (S (k - 1)) with k by lia. exact Htgt.
           ++ intros j Hj. rewrite stepc_S. apply Hclear. lia.
Qed.

(* ---- directions ---- *)
Lemma sgn_cases : forall x, (x < 0 /\ sgn x = -1) \/ (x = 0 /\ sgn x = 0) \/ (0 < x /\ sgn x = 1).
Proof.
  intros x. unfold sgn. destruct (Z.ltb_spec x 0); [left; lia|]. destruct (Z.ltb_spec 0 x); [right; right; lia|].
  right; left; lia.
Qed.

Lemma step_to_stepc : forall d, unit_dir d -> forall c k, (1 <= k)%nat -> step_to c (stepc c d k) = d.
Proof.
  intros [df dr] [Hf [Hr _]] [f r] k Hk. cbn [fst snd] in Hf, Hr. unfold step_to, stepc. cbn [fst snd].
  f_equal.
  - destruct (sgn_cases (f + Z.of_nat k * df - f)) as [[H1 H2] | [[H1 H2] | [H1 H2]]]; rewrite H2;
      destruct Hf as [-> | [-> | ->]]; lia.
  - destruct (sgn_cases (r + Z.of_nat k * dr - r)) as [[H1 H2] | [[H1 H2] | [H1 H2]]]; rewrite H2;
      destruct Hr as [-> | [-> | ->]]; lia.
Qed.

Lemma aligned_rook_stepc : forall d, In d rook_dirs_geo -> forall c k, (1 <= k)%nat ->
  aligned_rook c (stepc c d k) = true.
Proof.
  intros d Hd [f r] k Hk. unfold aligned_rook, sq_eqb, stepc. cbn [fst snd].
  destruct Hd as [<- | [<- | [<- | [<- | []]]]]; cbn [fst snd]; lia.
Qed.

Lemma aligned_bishop_stepc : forall d, In d bishop_dirs_geo -> forall c k, (1 <= k)%nat ->
  aligned_bishop c (stepc c d k) = true.
Proof.
  intros d Hd [f r] k Hk. unfold aligned_bishop, sq_eqb, stepc. cbn [fst snd].
  destruct Hd as [<- | [<- | [<- | [<- | []]]]]; cbn [fst snd]; lia.
Qed.

Lemma aligned_rook_dir : forall a b, aligned_rook a b = true -> In (step_to a b) rook_dirs_geo.
Proof.
  intros [fa ra] [fb rb] H. unfold aligned_rook, sq_eqb in H. cbn [fst snd] in H.
  unfold step_to, rook_dirs_geo. cbn [fst snd In].
  destruct (sgn_cases (fb - fa)) as [[F1 F2] | [[F1 F2] | [F1 F2]]]; rewrite F2;
    destruct (sgn_cases (rb - ra)) as [[R1 R2] | [[R1 R2] | [R1 R2]]]; rewrite R2; try lia; tauto.
Qed.

Lemma aligned_bishop_dir : forall a b, aligned_bishop a b = true -> In (step_to a b) bishop_dirs_geo.
Proof.
  intros [fa ra] [fb rb] H. unfold aligned_bishop, sq_eqb in H. cbn [fst snd] in H.
  unfold step_to, bishop_dirs_geo. cbn [fst snd In].
  destruct (sgn_cases (fb - fa)) as [[F1 F2] | [[F1 F2] | [F1 F2]]]; rewrite F2;
    destruct (sgn_cases (rb - ra)) as [[R1 R2] | [[R1 R2] | [R1 R2]]]; rewrite R2; try lia; tauto.
Qed.

(* ---- one family of directions ---- *)
Section OneKind.
Variable st : bstate.
Variable occ : N -> bool.
(* the two boards agree on emptiness *)
Hypothesis Hocc : forall c, Geometry.on_board c = true -> (at_sq st c = None <-> occ (fr_sq c) = false).

Variable dirs : list coord.
Variable aligned : square -> square -> bool.
Hypothesis dirs_unit : forall d, In d dirs -> unit_dir d.
Hypothesis aligned_dir : forall a b, aligned a b = true -> In (step_to a b) dirs.
Hypothesis aligned_stepc : forall d, In d dirs -> forall c k, (1 <= k)%nat -> aligned c (stepc c d k) = true.

Lemma slide_kind : forall s t, (s < 64)%N -> (t < 64)%N ->
  aligned (sq_fr s) (sq_fr t) && path_clear 8 st (sq_fr s) (step_to (sq_fr s) (sq_fr t)) (sq_fr t)
  = geo_ray_attacks_on occ dirs s t.
Proof.
  intros s t Hs Ht. apply eq_true_iff_eq.
  rewrite andb_true_iff, path_clear_iff, geo_ray_attacks_on_iff. split.
  - intros [Hal [k [Hk [Htgt Hclear]]]].
    pose proof (aligned_dir _ _ Hal) as Hd. pose proof (dirs_unit _ Hd) as Hu.
    exists (step_to (sq_fr s) (sq_fr t)), k. split; [exact Hd|].
    assert (Hk7 : (k <= 7)%nat).
    { apply (ray_short _ Hu (sq_fr s) k (sq_fr_on_board s Hs)). rewrite Htgt. apply sq_fr_on_board, Ht. }
    split; [lia|]. split; [|split].
    + intros j Hj. destruct (Nat.eq_dec j k) as [-> | Hjk].
      * rewrite Htgt. apply sq_fr_on_board, Ht.
      * rewrite <- on_board_eq. apply Hclear. lia.
    + exact Htgt.
    + intros j Hj. destruct (Hclear j ltac:(lia)) as [Hon Hnone]. apply Hocc; [rewrite <- on_board_eq|]; assumption.
  - intros [d [k [Hd [Hk [Hon [Htgt Hclear]]]]]]. pose proof (dirs_unit _ Hd) as Hu.
    rewrite <- Htgt. rewrite (step_to_stepc d Hu) by lia. split; [apply aligned_stepc; [exact Hd | lia]|].
    exists k. split; [lia|]. split; [reflexivity|].
    intros j Hj. assert (Honj : Geometry.on_board (stepc (sq_fr s) d j) = true) by (apply Hon; lia).
    split; [rewrite on_board_eq; exact Honj|]. apply Hocc; [exact Honj | apply Hclear; lia].
Qed.
End OneKind.

(* ---- rooks, bishops, queens ---- *)
Section Slides.
Variable st : bstate.
Variable occ : N -> bool.
Hypothesis Hocc : forall c, Geometry.on_board c = true -> (at_sq st c = None <-> occ (fr_sq c) = false).

Lemma slide_rook : forall s t, (s < 64)%N -> (t < 64)%N ->
  aligned_rook (sq_fr s) (sq_fr t) && path_clear 8 st (sq_fr s) (step_to (sq_fr s) (sq_fr t)) (sq_fr t)
  = geo_ray_attacks_on occ rook_dirs_geo s t.
Proof.
  apply (slide_kind st occ Hocc rook_dirs_geo aligned_rook rook_dirs_unit aligned_rook_dir aligned_rook_stepc).
Qed.

Lemma slide_bishop : forall s t, (s < 64)%N -> (t < 64)%N ->
  aligned_bishop (sq_fr s) (sq_fr t) && path_clear 8 st (sq_fr s) (step_to (sq_fr s) (sq_fr t)) (sq_fr t)
  = geo_ray_attacks_on occ bishop_dirs_geo s t.
Proof.
  apply (slide_kind st occ Hocc bishop_dirs_geo aligned_bishop bishop_dirs_unit aligned_bishop_dir aligned_bishop_stepc).
Qed.

Lemma slides_geo_gen : forall s t rw bw, (s < 64)%N -> (t < 64)%N ->
  slides st (sq_fr s) (sq_fr t) rw bw
  = (rw && geo_ray_attacks_on occ rook_dirs_geo s t) || (bw && geo_ray_attacks_on occ bishop_dirs_geo s t).
Proof.
  intros s t rw bw Hs Ht. rewrite <- (slide_rook s t Hs Ht), <- (slide_bishop s t Hs Ht). unfold slides.
  destruct rw, bw, (aligned_rook (sq_fr s) (sq_fr t)), (aligned_bishop (sq_fr s) (sq_fr t)),
    (path_clear 8 st (sq_fr s) (step_to (sq_fr s) (sq_fr t)) (sq_fr t)); reflexivity.
Qed.
End Slides.

(* ---- on a position ---- *)
Lemma abs_occ : forall p, board_wf p = true ->
  forall c, Geometry.on_board c = true -> (at_sq (abs p) c = None <-> occupied_in p (fr_sq c) = false).
Proof.
  intros p Hwf c Hc. rewrite <- (sq_fr_fr_sq c Hc) at 1. rewrite <- abs_sq_fr.
  apply at_sq_none_occupied; [exact Hwf | apply on_board_lt, Hc].
Qed.

Theorem slides_geo : forall p s t rw bw, board_wf p = true -> (s < 64)%N -> (t < 64)%N ->
  slides (abs p) (abs_sq s) (abs_sq t) rw bw
  = (rw && geo_ray_attacks_on (occupied_in p) rook_dirs_geo s t)
    || (bw && geo_ray_attacks_on (occupied_in p) bishop_dirs_geo s t).
Proof.
  intros p s t rw bw Hwf Hs Ht. rewrite !abs_sq_fr.
  apply (slides_geo_gen (abs p) (occupied_in p) (abs_occ p Hwf)); assumption.
Qed.
