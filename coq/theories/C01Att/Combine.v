(* C01: the combination. With the exactness of the pseudo-legal generator (H1), the refinement of
   MakeMove (H2, C02), the consistency of the successor's views (H4) and the preservation of the
   invariant by legal moves (H3, C10) as hypotheses of a Section, the engine's legal move list is a
   permutation of the specification's, and the perft counts agree. *)
From Coq Require Import NArith ZArith List Bool Lia ZifyBool ZifyN ZifyNat Permutation.
From Clemens Require Import Base.Res Base.Word Pos.Types Att.Attacks Pos.Position Pos.Inv
  Att.AttackersProofs Pos.ZobristProofs Rules.Fide Rules.Abs.
From Clemens.C01Att Require Import Coords Sliders AttRefines FideFacts MakeCounters Filter.
Import ListNotations.
Open Scope N_scope.

(* ---- lists and sums ---- *)
Definition zsum (l : list Z) : Z := fold_right Z.add 0%Z l.

Lemma zsum_perm : forall l l', Permutation l l' -> zsum l = zsum l'.
Proof. intros l l' H. unfold zsum. induction H; cbn [fold_right] in *; lia. Qed.

Lemma fold_left_zsum : forall {A} (g : A -> Z) l a,
  fold_left (fun acc m => (acc + g m)%Z) l a = (a + zsum (map g l))%Z.
Proof.
  intros A g l. induction l as [|x l IH]; intros a; cbn [fold_left map zsum fold_right]; [lia|].
  rewrite IH. unfold zsum. lia.
Qed.

Lemma NoDup_map_filter : forall {A B} (f : A -> B) (g : A -> bool) l, NoDup (map f l) -> NoDup (map f (filter g l)).
Proof.
  intros A B f g l. induction l as [|x l IH]; intros H; [constructor|]. cbn [map] in H. inversion H as [|y l' Hx Hl]; subst.
  cbn [filter]. destruct (g x); [|apply IH, Hl]. cbn [map]. constructor; [|apply IH, Hl].
  intros Hin. apply Hx. apply in_map_iff in Hin. destruct Hin as [z [Hz Hin]]. apply filter_In in Hin.
  apply in_map_iff. exists z. tauto.
Qed.

Section C01.
Variable K : zkeys.

(* what the engine's loop keeps *)
Definition keep (p : position) (m : N) : bool :=
  match make_move K p m with
  | Ok q => match is_legal q with Ok b => b | _ => false end
  | _ => false
  end.

(* legal_moves is a filter of the generated list, and every generated move could be made and tested *)
Lemma legal_moves_filter : forall p ls, Position.legal_moves K p = Ok ls ->
  exists ms, gen_moves p = Ok ms /\ ls = filter (keep p) ms /\
             forall m, In m ms -> exists q, make_move K p m = Ok q /\ is_legal q = Ok (keep p m).
Proof.
  intros p ls H. unfold Position.legal_moves in H. bind_inv H. rename a into ms. exists ms. split; [exact E|]. clear E.
  revert ls H. induction ms as [|m ms IH]; intros ls H.
  - cbn [fold_right] in H. inversion H; subst. split; [reflexivity|]. intros m [].
  - cbn [fold_right] in H. bind_inv H. rename a into l0, E into El0. bind_inv H. rename a into q, E into Eq.
    bind_inv H. rename a into ok, E into Eok. inversion H; subst ls; clear H.
    destruct (IH l0 El0) as [Hl0 Hall]. subst l0.
    assert (Hk : keep p m = ok) by (unfold keep; rewrite Eq, Eok; reflexivity).
    split.
    + cbn [filter]. rewrite Hk. reflexivity.
    + intros m' [<- | Hin]; [exists q; rewrite Hk; tauto | apply Hall, Hin].
Qed.

Lemma legal_moves_of_all : forall p ms, gen_moves p = Ok ms ->
  (forall m, In m ms -> exists q, make_move K p m = Ok q /\ is_legal q = Ok (keep p m)) ->
  Position.legal_moves K p = Ok (filter (keep p) ms).
Proof.
  intros p ms Hg Hall. unfold Position.legal_moves. rewrite Hg. cbn [bind]. clear Hg.
  induction ms as [|m ms IH]; [reflexivity|]. cbn [fold_right].
  rewrite IH by (intros m' Hm'; apply Hall; right; exact Hm'). cbn [bind].
  destruct (Hall m (or_introl eq_refl)) as [q [Hq Hl]]. rewrite Hq. cbn [bind]. rewrite Hl. cbn [bind filter].
  reflexivity.
Qed.

(* ---- the hypotheses: the other parts of C01, C02, C10 ---- *)
Definition gen_exact_statement : Prop :=
  forall p ms, Inv p -> gen_moves p = Ok ms ->
    (forall fm, pseudo_legal (abs p) fm = true <-> In fm (map decode ms)) /\ NoDup (map decode ms).

Hypothesis gen_exact : gen_exact_statement.
Hypothesis make_refines : make_refines_statement K.
Hypothesis views_step : views_step_statement K.

(* a kept move is a legal move of the specification, and conversely *)
Lemma keep_legal : forall p ms m, Inv p -> gen_moves p = Ok ms -> In m ms ->
  (exists q, make_move K p m = Ok q /\ is_legal q = Ok (keep p m)) ->
  keep p m = legal (abs p) (decode m).
Proof.
  intros p ms m HI Hg Hin [q [Hq Hl]].
  rewrite (legality_filter K make_refines views_step p ms m q HI Hg Hin Hq) in Hl.
  injection Hl as Hk. rewrite <- Hk. unfold legal.
  destruct (gen_exact p ms HI Hg) as [Hpl _].
  rewrite (proj2 (Hpl (decode m)) (in_map decode ms m Hin)). reflexivity.
Qed.

(* C01, move lists: none missing, none extra, none duplicated. No hypothesis on the counters. *)
Theorem C01_movegen : forall p ls, Inv p -> Position.legal_moves K p = Ok ls ->
  Permutation (map decode ls) (Fide.legal_moves (abs p)).
Proof.
  intros p ls HI Hls. destruct (legal_moves_filter p ls Hls) as [ms [Hg [-> Hall]]].
  destruct (gen_exact p ms HI Hg) as [Hpl Hnd].
  apply NoDup_Permutation.
  - apply NoDup_map_filter, Hnd.
  - apply NoDup_legal_moves.
  - intros fm. rewrite legal_moves_iff, in_map_iff. split.
    + intros [m [<- Hin]]. apply filter_In in Hin. destruct Hin as [Hin Hk].
      rewrite <- (keep_legal p ms m HI Hg Hin (Hall m Hin)). exact Hk.
    + intros Hleg. pose proof Hleg as Hleg'. unfold legal in Hleg'. apply andb_true_iff in Hleg'.
      destruct Hleg' as [Hps _]. apply Hpl in Hps. apply in_map_iff in Hps. destruct Hps as [m [<- Hin]].
      exists m. split; [reflexivity|]. apply filter_In. split; [exact Hin|].
      rewrite (keep_legal p ms m HI Hg Hin (Hall m Hin)). exact Hleg.
Qed.

(* the same in elementary terms: the decoded engine list has no duplicates and contains exactly the
   moves the specification calls legal *)
Corollary C01_movegen_exact : forall p ls, Inv p -> Position.legal_moves K p = Ok ls ->
  NoDup (map decode ls) /\ forall fm, In fm (map decode ls) <-> legal (abs p) fm = true.
Proof.
  intros p ls HI Hls. pose proof (C01_movegen p ls HI Hls) as HP. split.
  - apply (Permutation_NoDup (Permutation_sym HP)), NoDup_legal_moves.
  - intros fm. rewrite <- legal_moves_iff. split; [apply Permutation_in, HP | apply Permutation_in, Permutation_sym, HP].
Qed.

(* the version with the counter hypothesis of the task statement (weaker) *)
Corollary C01_movegen_counters : forall p ls, Inv p -> counters_ok p -> Position.legal_moves K p = Ok ls ->
  Permutation (map decode ls) (Fide.legal_moves (abs p)).
Proof. intros p ls HI _ Hls. apply C01_movegen; assumption. Qed.

Corollary C01_movegen_fast : forall p ls, Inv p -> Position.legal_moves K p = Ok ls ->
  Permutation (map decode ls) (legal_moves_fast (abs p)).
Proof. intros p ls HI Hls. rewrite legal_moves_fast_eq. apply C01_movegen; assumption. Qed.

(* ---- perft ---- *)
(* cmd/perft/perft.go: generate, make each move on a copy, recurse if IsLegal *)
Definition perft_step (rec : position -> res Z) (p : position) (acc : res Z) (m : N) : res Z :=
  a <- acc ;;
  q <- make_move K p m ;;
  ok <- is_legal q ;;
  if ok then (n <- rec q ;; Ok (a + n)%Z) else Ok a.

Fixpoint perft_engine (d : nat) (p : position) : res Z :=
  match d with
  | O => Ok 1%Z
  | S d' =>
    ms <- gen_moves p ;;
    fold_left (perft_step (perft_engine d') p) ms (Ok 0%Z)
  end.

(* the same over the list of legal moves *)
Fixpoint perft_legal (d : nat) (p : position) : res Z :=
  match d with
  | O => Ok 1%Z
  | S d' =>
    ls <- Position.legal_moves K p ;;
    fold_left (fun acc m => a <- acc ;; q <- make_move K p m ;; n <- perft_legal d' q ;; Ok (a + n)%Z) ls (Ok 0%Z)
  end.

Hypothesis inv_step : inv_step_statement K.

Lemma perft_fold_fail : forall rec p ms r, (forall a, r <> Ok a) -> forall n, fold_left (perft_step rec p) ms r <> Ok n.
Proof.
  intros rec p ms. induction ms as [|m ms IH]; intros r Hr n; [apply Hr|]. cbn [fold_left]. apply IH.
  intros a. unfold perft_step. destruct r as [x| |]; cbn [bind]; try discriminate. destruct (Hr x eq_refl).
Qed.

(* a successful run made and tested every generated move *)
Lemma perft_fold_all : forall rec p ms a n, fold_left (perft_step rec p) ms (Ok a) = Ok n ->
  forall m, In m ms -> exists q, make_move K p m = Ok q /\ is_legal q = Ok (keep p m).
Proof.
  intros rec p ms. induction ms as [|m0 ms IH]; intros a n H m Hin; [destruct Hin|]. cbn [fold_left] in H.
  destruct (perft_step rec p (Ok a) m0) as [a1| |] eqn:E;
    [|exfalso; eapply perft_fold_fail; [|exact H]; discriminate ..].
  destruct Hin as [<- | Hin]; [|eapply IH; eauto].
  unfold perft_step in E. cbn [bind] in E. bind_inv E. rename a0 into q, E0 into Eq. bind_inv E. rename a0 into ok, E0 into Eok.
  exists q. split; [exact Eq|]. unfold keep. rewrite Eq, Eok. reflexivity.
Qed.

(* value of a successful run, given the value of the recursive calls on kept moves *)
Lemma perft_fold_value : forall rec p (g : N -> Z) ms,
  (forall m q n, In m ms -> keep p m = true -> make_move K p m = Ok q -> rec q = Ok n -> n = g m) ->
  forall a n, fold_left (perft_step rec p) ms (Ok a) = Ok n ->
  n = (a + zsum (map g (filter (keep p) ms)))%Z.
Proof.
  intros rec p g ms. induction ms as [|m ms IH]; intros Hrec a n H.
  - cbn in H. inversion H. cbn. lia.
  - cbn [fold_left] in H.
    destruct (perft_step rec p (Ok a) m) as [a1| |] eqn:E;
      [|exfalso; eapply perft_fold_fail; [|exact H]; discriminate ..].
    apply IH in H; [|intros m' q' n' Hin'; apply Hrec; right; exact Hin'].
    unfold perft_step in E. cbn [bind] in E. bind_inv E. rename a0 into q, E0 into Eq. bind_inv E. rename a0 into ok, E0 into Eok.
    assert (Hk : keep p m = ok) by (unfold keep; rewrite Eq, Eok; reflexivity).
    cbn [filter]. rewrite Hk. destruct ok.
    + bind_inv E. rename a0 into nq. inversion E; subst a1. cbn [map zsum fold_right].
      rewrite (Hrec m q nq (or_introl eq_refl) Hk Eq E0) in H. unfold zsum in H. lia.
    + inversion E; subst a1. exact H.
Qed.

(* C01, perft: whenever the engine's perft returns, it returns the specification's count. No
   hypothesis on the counters: the counts do not depend on them. *)
Theorem C01_perft_correct : forall d p n, Inv p -> perft_engine d p = Ok n -> n = perft d (abs p).
Proof.
  induction d as [|d IH]; intros p n HI H.
  - cbn in H. inversion H. reflexivity.
  - cbn [perft_engine] in H. bind_inv H. rename a into ms, E into Hg.
    pose proof (perft_fold_all _ p ms _ n H) as Hall.
    pose proof (legal_moves_of_all p ms Hg Hall) as Hls.
    apply (perft_fold_value _ p (fun m => perft d (apply (abs p) (decode m)))) in H.
    + rewrite H, perft_S, fold_left_zsum, Z.add_0_l, Z.add_0_l.
      rewrite <- (map_map decode (fun fm => perft d (apply (abs p) fm))).
      apply zsum_perm, Permutation_map. apply C01_movegen; assumption.
    + intros m q nq Hin Hk Hq Hrec.
      assert (Hinl : In m (filter (keep p) ms)) by (apply filter_In; tauto).
      pose proof (inv_step p m q _ HI Hls Hinl Hq) as HIq.
      rewrite (IH q nq HIq Hrec). apply perft_core.
      apply (make_refines_core K make_refines p ms m q HI Hg Hin Hq).
Qed.

(* if, in addition, the engine's loop cannot fail on positions satisfying the invariant, perft returns
   exactly the specification's count *)
Definition legal_moves_total_statement : Prop :=
  forall p, Inv p -> exists ls, Position.legal_moves K p = Ok ls.

Section Total.
Hypothesis legal_moves_total : legal_moves_total_statement.

Lemma perft_fold_total : forall rec p ms,
  (forall m, In m ms -> exists q, make_move K p m = Ok q /\ is_legal q = Ok (keep p m)) ->
  (forall m q, In m ms -> keep p m = true -> make_move K p m = Ok q -> exists n, rec q = Ok n) ->
  forall a, exists n, fold_left (perft_step rec p) ms (Ok a) = Ok n.
Proof.
  intros rec p ms. induction ms as [|m ms IH]; intros Hall Hrec a; [exists a; reflexivity|]. cbn [fold_left].
  destruct (Hall m (or_introl eq_refl)) as [q [Hq Hl]].
  assert (Hstep : exists a1, perft_step rec p (Ok a) m = Ok a1).
  { unfold perft_step. cbn [bind]. rewrite Hq. cbn [bind]. rewrite Hl. cbn [bind].
    destruct (keep p m) eqn:Ek; [|eauto].
    destruct (Hrec m q (or_introl eq_refl) Ek Hq) as [nq Hnq]. rewrite Hnq. cbn [bind]. eauto. }
  destruct Hstep as [a1 ->]. apply IH.
  - intros m' Hm'. apply Hall. right. exact Hm'.
  - intros m' q' Hm'. apply Hrec. right. exact Hm'.
Qed.

Theorem perft_engine_total : forall d p, Inv p -> exists n, perft_engine d p = Ok n.
Proof.
  induction d as [|d IH]; intros p HI; [exists 1%Z; reflexivity|]. cbn [perft_engine].
  destruct (legal_moves_total p HI) as [ls Hls]. destruct (legal_moves_filter p ls Hls) as [ms [Hg [-> Hall]]].
  rewrite Hg. cbn [bind]. apply perft_fold_total; [exact Hall|].
  intros m q Hin Hk Hq. apply IH. apply (inv_step p m q _ HI Hls); [apply filter_In; tauto | exact Hq].
Qed.

Theorem C01_perft : forall d p, Inv p -> perft_engine d p = Ok (perft d (abs p)).
Proof.
  intros d p HI. destruct (perft_engine_total d p HI) as [n Hn]. rewrite Hn. f_equal.
  apply (C01_perft_correct d p n HI Hn).
Qed.
End Total.

(* the recursion over [legal_moves] returns the same count whenever the loop of perft.go returns *)
Definition perft_legal_step (rec : position -> res Z) (p : position) (acc : res Z) (m : N) : res Z :=
  a <- acc ;; q <- make_move K p m ;; n <- rec q ;; Ok (a + n)%Z.

Lemma perft_legal_S : forall d p,
  perft_legal (S d) p = (ls <- Position.legal_moves K p ;; fold_left (perft_legal_step (perft_legal d) p) ls (Ok 0%Z)).
Proof. reflexivity. Qed.

Lemma perft_legal_fold : forall rec rec' p ms,
  (forall q n, rec q = Ok n -> rec' q = Ok n) ->
  forall a n, fold_left (perft_step rec p) ms (Ok a) = Ok n ->
  fold_left (perft_legal_step rec' p) (filter (keep p) ms) (Ok a) = Ok n.
Proof.
  intros rec rec' p ms Hrec. induction ms as [|m ms IH]; intros a n H; [exact H|]. cbn [fold_left] in H.
  destruct (perft_step rec p (Ok a) m) as [a1| |] eqn:E;
    [|exfalso; eapply perft_fold_fail; [|exact H]; discriminate ..].
  apply IH in H. unfold perft_step in E. cbn [bind] in E.
  bind_inv E. rename a0 into q, E0 into Eq. bind_inv E. rename a0 into ok, E0 into Eok.
  assert (Hk : keep p m = ok) by (unfold keep; rewrite Eq, Eok; reflexivity).
  cbn [filter]. rewrite Hk. destruct ok.
  - bind_inv E. rename a0 into nq. inversion E; subst a1. cbn [fold_left].
    unfold perft_legal_step at 2. cbn [bind]. rewrite Eq. cbn [bind]. rewrite (Hrec q nq E0). cbn [bind]. exact H.
  - inversion E; subst a1. exact H.
Qed.

Theorem perft_legal_of_engine : forall d p n, perft_engine d p = Ok n -> perft_legal d p = Ok n.
Proof.
  induction d as [|d IH]; intros p n H; [exact H|]. cbn [perft_engine] in H. rewrite perft_legal_S.
  bind_inv H. rename a into ms, E into Hg.
  rewrite (legal_moves_of_all p ms Hg (perft_fold_all _ p ms _ n H)). cbn [bind].
  apply (perft_legal_fold (perft_engine d) (perft_legal d) p ms (IH)). exact H.
Qed.

Corollary C01_perft_legal : legal_moves_total_statement -> forall d p, Inv p -> perft_legal d p = Ok (perft d (abs p)).
Proof. intros Htot d p HI. apply perft_legal_of_engine, C01_perft; assumption. Qed.

End C01.
