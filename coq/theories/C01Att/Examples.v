(* C01, attack part: concrete evaluations with the key table of the Go build. Both sides of the
   refinement theorems are computed on a position with a pinned piece and on a position where castling
   would pass through an attacked square; the positions meet the hypotheses of the theorems. *)
From Coq Require Import NArith ZArith List Bool String.
From Clemens Require Import Base.Res Base.Word Base.Bytes Pos.Types Att.Attacks Pos.Position Pos.Fen Pos.Inv
  Att.AttackersProofs Pos.ZobristProofs Pos.ZobristInst Rules.Fide Rules.Abs.
From Clemens.C01Att Require Import Coords Sliders AttRefines FideFacts MakeCounters Filter Combine.
Import ListNotations.
Open Scope N_scope.

Definition ptype_eqb' (a b : option ptype) : bool :=
  match a, b with
  | None, None => true
  | Some x, Some y => ptype_eqb x y
  | _, _ => false
  end.
Definition fmove_eqb (a b : fmove) : bool :=
  sq_eqb (m_from a) (m_from b) && sq_eqb (m_to a) (m_to b) && ptype_eqb' (m_promo a) (m_promo b).
(* same length, and each list contains the other: for duplicate-free lists, a permutation *)
Definition same_moves (l1 l2 : list fmove) : bool :=
  (List.length l1 =? List.length l2)%nat
  && forallb (fun x => existsb (fmove_eqb x) l2) l1 && forallb (fun x => existsb (fmove_eqb x) l1) l2.

Definition engine_moves (p : position) : list fmove := map decode (get_list (Position.legal_moves go_keys p)).
Definition has_move (l : list fmove) (a b : N) : bool :=
  existsb (fun m => sq_eqb (m_from m) (abs_sq a) && sq_eqb (m_to m) (abs_sq b)) l.

(* ---- 1. a pinned piece: the bishop on e2 shields its king from the rook on e3 ---- *)
Definition pin_pos : position := Eval vm_compute in get_pos (go_fen "4k3/8/8/8/8/4r3/4B3/4K3 w - - 0 1").

Example pin_inv : Inv pin_pos /\ counters_ok pin_pos.
Proof. split; [vm_compute; reflexivity | unfold counters_ok; vm_compute; auto]. Qed.

(* theorem 3 (attacked_by_refines), both sides: black attacks e2 (12), but not e1 (4) *)
Example pin_attacked :
  attacked_by (abs pin_pos) (abs_color 1) (abs_sq 12) = true /\ attacked_by_color pin_pos 1 12 = true /\
  attacked_by (abs pin_pos) (abs_color 1) (abs_sq 4) = false /\ attacked_by_color pin_pos 1 4 = false.
Proof. vm_compute. repeat split; reflexivity. Qed.

(* theorem 4 (in_check_refines), both sides *)
Example pin_check :
  is_in_check pin_pos 0 = Ok false /\ in_check (abs pin_pos) (abs_color 0) = false /\
  is_in_check pin_pos 1 = Ok false /\ in_check (abs pin_pos) (abs_color 1) = false.
Proof. vm_compute. repeat split; reflexivity. Qed.

(* the pinned bishop may not move; engine and specification agree on the whole list (4 king moves) *)
Example pin_moves :
  same_moves (engine_moves pin_pos) (Fide.legal_moves (abs pin_pos)) = true /\
  List.length (engine_moves pin_pos) = 4%nat /\
  has_move (engine_moves pin_pos) 12 19 = false /\                 (* Be2-d3: pseudo-legal, illegal *)
  pseudo_legal (abs pin_pos) {| m_from := abs_sq 12; m_to := abs_sq 19; m_promo := None |} = true /\
  legal (abs pin_pos) {| m_from := abs_sq 12; m_to := abs_sq 19; m_promo := None |} = false.
Proof. rewrite <- !legal_moves_fast_eq. vm_compute. repeat split; reflexivity. Qed.

(* the legality filter on the illegal bishop move: MakeMove succeeds, IsLegal says no, and so does the
   specification on [apply] *)
Example pin_filter :
  let m := mk_move 12 19 in
  In m (get_list (gen_moves pin_pos)) /\
  (q <- make_move go_keys pin_pos m ;; is_legal q) = Ok false /\
  negb (in_check (apply (abs pin_pos) (decode m)) (b_turn (abs pin_pos))) = false.
Proof. vm_compute. repeat split; try reflexivity. tauto. Qed.

(* ---- 2. castling through an attacked square: the rook on f2 attacks f1 ---- *)
Definition castle_pos : position := Eval vm_compute in get_pos (go_fen "4k3/8/8/8/8/8/5r2/R3K2R w KQ - 0 1").

Example castle_inv : Inv castle_pos /\ counters_ok castle_pos.
Proof. split; [vm_compute; reflexivity | unfold counters_ok; vm_compute; auto]. Qed.

Example castle_attacked :
  attacked_by (abs castle_pos) (abs_color 1) (abs_sq F1) = true /\ attacked_by_color castle_pos 1 F1 = true /\
  attacked_by (abs castle_pos) (abs_color 1) (abs_sq D1) = false /\ attacked_by_color castle_pos 1 D1 = false /\
  attacked_by (abs castle_pos) (abs_color 1) (abs_sq E1) = false /\ attacked_by_color castle_pos 1 E1 = false.
Proof. vm_compute. repeat split; reflexivity. Qed.

Example castle_check :
  is_in_check castle_pos 0 = Ok false /\ in_check (abs castle_pos) (abs_color 0) = false.
Proof. vm_compute. split; reflexivity. Qed.

(* queen-side castling is there, king-side castling is not - in both lists, which agree *)
Example castle_moves :
  same_moves (engine_moves castle_pos) (Fide.legal_moves (abs castle_pos)) = true /\
  has_move (engine_moves castle_pos) E1 C1 = true /\ has_move (engine_moves castle_pos) E1 G1 = false /\
  has_move (Fide.legal_moves (abs castle_pos)) E1 C1 = true /\ has_move (Fide.legal_moves (abs castle_pos)) E1 G1 = false.
Proof. rewrite <- !legal_moves_fast_eq. vm_compute. repeat split; reflexivity. Qed.

(* perft, both sides (depth 2) *)
Example castle_perft :
  perft_engine go_keys 2 castle_pos = Ok (perft 2 (abs castle_pos)) /\
  perft_legal go_keys 2 castle_pos = perft_engine go_keys 2 castle_pos.
Proof. vm_compute. split; reflexivity. Qed.

