(* C01, attack part, steps 2-4: the specification's [attacks_from], [attacked_by], [king_square] and
   [in_check] on the abstraction of a position are the engine's geometric attack notions
   ([attacks_geo], [attacked_by_color]) and hence, by Att/AttackersProofs.v, the engine's bit-level
   SquareAttackedBy / IsInCheck / IsLegal. *)
From Coq Require Import NArith ZArith List Bool Lia ZifyBool ZifyN ZifyNat.
From Clemens Require Import Base.Res Base.Word Pos.Types Att.Attacks Att.Geometry Att.ShiftsProofs
  Att.SlidingProofs Pos.Position Pos.Inv Att.AttackersProofs Rules.Fide Rules.Abs.
From Clemens.C01Att Require Import Coords Sliders.
Import ListNotations.
Open Scope N_scope.

(* the view clauses of the invariant *)
Definition views_ok (p : position) : Prop :=
  board_wf p = true /\ bbs_agree p = true /\ helpers_agree p = true.

(* ---- leapers and pawns, in coordinates ---- *)
Lemma knight_jump_geo : forall s t, t < 64 -> knight_jump (abs_sq s) (abs_sq t) = geo_knight s t.
Proof.
  intros s t Ht. unfold knight_jump, geo_knight. rewrite (proj2 (is_square_lt t) Ht).
  rewrite !abs_sq_file, !abs_sq_rank. cbn [andb]. cbv zeta.
  replace (Z.abs (sq_file s - sq_file t)) with (Z.abs (sq_file t - sq_file s)) by lia.
  replace (Z.abs (sq_rank s - sq_rank t)) with (Z.abs (sq_rank t - sq_rank s)) by lia.
  reflexivity.
Qed.

Lemma king_step_geo : forall s t, t < 64 -> king_step (abs_sq s) (abs_sq t) = geo_king s t.
Proof.
  intros s t Ht. unfold king_step, geo_king, sq_eqb. rewrite (proj2 (is_square_lt t) Ht).
  rewrite !abs_sq_file, !abs_sq_rank. cbn [andb]. cbv zeta. lia.
Qed.

Lemma pawn_attack_geo : forall c s t, c < 2 -> t < 64 ->
  (Z.abs (fst (abs_sq s) - fst (abs_sq t)) =? 1)%Z
  && (snd (abs_sq t) =? snd (abs_sq s) + forward (abs_color c))%Z
  = geo_pawn_attack c s t.
Proof.
  intros c s t Hc Ht. unfold geo_pawn_attack. rewrite (proj2 (is_square_lt t) Ht).
  rewrite !abs_sq_file, !abs_sq_rank. cbn [andb].
  assert (Hc' : c = 0 \/ c = 1) by lia.
  destruct Hc' as [-> | ->]; cbn [abs_color N.eqb WHITE forward pawn_dir]; lia.
Qed.

Ltac ap_norm :=
  repeat match goal with
  | |- context [abs_piece ?c] => let v := eval vm_compute in (abs_piece c) in change (abs_piece c) with v
  end.

(* ---- the piece standing on s attacks t ---- *)
Theorem attacks_from_refines : forall p s t, board_wf p = true -> s < 64 -> t < 64 ->
  attacks_from (abs p) (abs_sq s) (abs_sq t) = attacks_geo p s t.
Proof.
  intros p s t Hwf Hs Ht. unfold attacks_from, attacks_geo.
  rewrite (at_sq_abs p s Hs).
  pose proof (piece_at_code p s Hwf Hs) as Hpc. unfold pc_codes in Hpc. cbn [In] in Hpc.
  pose proof (pawn_attack_geo 0 s t ltac:(lia) Ht) as Hwp.
  pose proof (pawn_attack_geo 1 s t ltac:(lia) Ht) as Hbp.
  change (abs_color 0) with White in Hwp. change (abs_color 1) with Black in Hbp.
  destruct Hpc as [<- | [<- | [<- | [<- | [<- | [<- | [<- | [<- | [<- | [<- | [<- | [<- | [<- | []]]]]]]]]]]]]];
    ap_norm; cbn [p_type p_color geo_piece_attacks];
    first
      [ reflexivity | exact Hwp | exact Hbp | apply knight_jump_geo, Ht | apply king_step_geo, Ht
      | rewrite (slides_geo p s t _ _ Hwf Hs Ht); cbn [andb orb];
        first [ rewrite orb_false_r; reflexivity | reflexivity
              | unfold queen_dirs_geo; rewrite geo_ray_attacks_on_app; reflexivity ] ].
Qed.

(* ---- some piece of colour c attacks t ---- *)
Lemma color_of_piece : forall p s c, board_wf p = true -> s < 64 -> c < 2 ->
  match abs_piece (piece_at p s) with
  | Some pc => color_eqb (p_color pc) (abs_color c)
  | None => false
  end = is_piece_of c (piece_at p s).
Proof.
  intros p s c Hwf Hs Hc. pose proof (piece_at_code p s Hwf Hs) as Hpc. unfold pc_codes in Hpc. cbn [In] in Hpc.
  assert (Hc' : c = 0 \/ c = 1) by lia.
  destruct Hc' as [-> | ->];
  destruct Hpc as [<- | [<- | [<- | [<- | [<- | [<- | [<- | [<- | [<- | [<- | [<- | [<- | [<- | []]]]]]]]]]]]]];
    reflexivity.
Qed.

Lemma existsb_map_ext : forall {A B} (f : B -> bool) (g : A -> bool) (h : A -> B) l,
  (forall x, In x l -> f (h x) = g x) -> existsb f (map h l) = existsb g l.
Proof.
  intros A B f g h l. induction l as [|x l IH]; intros H; [reflexivity|]. cbn [map existsb].
  rewrite (H x (or_introl eq_refl)), IH; [reflexivity|]. intros y Hy. apply H. right. exact Hy.
Qed.

Theorem attacked_by_refines : forall p c t, board_wf p = true -> c < 2 -> t < 64 ->
  attacked_by (abs p) (abs_color c) (abs_sq t) = attacked_by_color p c t.
Proof.
  intros p c t Hwf Hc Ht. unfold attacked_by, attacked_by_color. rewrite all_squares_abs, squares64_squares.
  apply existsb_map_ext. intros s Hin. apply squares_lt in Hin.
  rewrite (attacks_from_refines p s t Hwf Hin Ht), (at_sq_abs p s Hin).
  rewrite <- (color_of_piece p s c Hwf Hin Hc).
  destruct (abs_piece (piece_at p s)); reflexivity.
Qed.

(* ---- the king's square ---- *)
Lemma find_unique : forall {A} (f : A -> bool) l x,
  In x l -> f x = true -> (forall y, In y l -> f y = true -> y = x) -> find f l = Some x.
Proof.
  intros A f l x. induction l as [|y l IH]; intros Hin Hfx Huniq; [contradiction|]. cbn [find].
  destruct (f y) eqn:Efy.
  - f_equal. apply Huniq; [left; reflexivity | exact Efy].
  - apply IH.
    + destruct Hin as [-> | Hin]; [rewrite Hfx in Efy; discriminate | exact Hin].
    + exact Hfx.
    + intros z Hz. apply Huniq. right. exact Hz.
Qed.

Lemma is_king_of : forall p s c, board_wf p = true -> s < 64 -> c < 2 ->
  match abs_piece (piece_at p s) with
  | Some pc => color_eqb (p_color pc) (abs_color c) && ptype_eqb (p_type pc) King
  | None => false
  end = (piece_at p s =? new_piece c KING).
Proof.
  intros p s c Hwf Hs Hc. pose proof (piece_at_code p s Hwf Hs) as Hpc. unfold pc_codes in Hpc. cbn [In] in Hpc.
  assert (Hc' : c = 0 \/ c = 1) by lia.
  destruct Hc' as [-> | ->];
  destruct Hpc as [<- | [<- | [<- | [<- | [<- | [<- | [<- | [<- | [<- | [<- | [<- | [<- | [<- | []]]]]]]]]]]]]];
    reflexivity.
Qed.

Lemma king_square_refines : forall p c ksq, board_wf p = true -> c < 2 -> ksq < 64 ->
  piece_at p ksq = new_piece c KING ->
  (forall s, s < 64 -> piece_at p s = new_piece c KING -> s = ksq) ->
  Fide.king_square (abs p) (abs_color c) = Some (abs_sq ksq).
Proof.
  intros p c ksq Hwf Hc Hk Hking Huniq. unfold Fide.king_square. apply find_unique.
  - apply in_all_squares, abs_sq_on_board_lt, Hk.
  - rewrite (at_sq_abs p ksq Hk), (is_king_of p ksq c Hwf Hk Hc), Hking. apply N.eqb_refl.
  - intros q Hq Hf. apply in_all_squares in Hq. rewrite <- (abs_conc q Hq) in Hf |- *.
    pose proof (conc_sq_lt q Hq) as Hlt.
    rewrite (at_sq_abs p _ Hlt), (is_king_of p _ c Hwf Hlt Hc) in Hf. apply N.eqb_eq in Hf.
    f_equal. apply Huniq; assumption.
Qed.

(* ---- check ---- *)
Theorem in_check_refines : forall p c,
  views_ok p -> one_king_each p = true -> c < 2 ->
  is_in_check p c = Ok (in_check (abs p) (abs_color c)).
Proof.
  intros p c [Hwf [Hagree Hhelp]] Hone Hc.
  destruct (in_check_exact p c Hwf Hagree Hhelp Hone Hc) as [ksq [Hk [Hking [Huniq Hchk]]]].
  rewrite Hchk. f_equal. unfold in_check.
  rewrite (king_square_refines p c ksq Hwf Hc Hk Hking Huniq).
  rewrite <- (abs_color_switch c Hc). symmetry.
  apply attacked_by_refines; [exact Hwf | apply switch_color_lt | exact Hk].
Qed.

Lemma Inv_views_ok : forall p, Inv p -> views_ok p /\ one_king_each p = true.
Proof.
  intros p H. destruct (Inv_views p H) as [H1 [H2 [H3 H4]]]. unfold views_ok. tauto.
Qed.

Corollary in_check_refines_inv : forall p c, Inv p -> c < 2 ->
  is_in_check p c = Ok (in_check (abs p) (abs_color c)).
Proof. intros p c HI Hc. destruct (Inv_views_ok p HI) as [Hv Hone]. apply in_check_refines; assumption. Qed.

(* IsLegal: the side that just moved is not in check *)
Theorem is_legal_refines : forall q,
  views_ok q -> one_king_each q = true -> side q < 2 ->
  is_legal q = Ok (negb (in_check (abs q) (opp (b_turn (abs q))))).
Proof.
  intros q Hv Hone Hside. unfold is_legal.
  rewrite (in_check_refines q (switch_color (side q)) Hv Hone (switch_color_lt _)). cbn [bind].
  rewrite (abs_color_switch _ Hside). reflexivity.
Qed.

(* the same, for the clauses of the invariant without the check clause (what the successor of a
   generated, not necessarily legal, move satisfies) *)
Lemma nocheck_parts : forall q, inv_nocheck_b q = true ->
  views_ok q /\ one_king_each q = true /\ side q < 2.
Proof.
  intros q H. unfold inv_nocheck_b in H. rewrite !andb_true_iff in H.
  destruct H as [[[[[[[H1 H2] H3] H4] _] _] _] H8]. unfold views_ok. repeat split; try assumption.
  unfold scalars_ok in H8. rewrite !andb_true_iff in H8. destruct H8 as [[[Hs _] _] _].
  unfold WHITE, BLACK in Hs. lia.
Qed.

Corollary is_legal_refines_nocheck : forall q, inv_nocheck_b q = true ->
  is_legal q = Ok (negb (in_check (abs q) (opp (b_turn (abs q))))).
Proof.
  intros q H. destruct (nocheck_parts q H) as [Hv [Hone Hs]]. apply is_legal_refines; assumption.
Qed.
