(* Sequential refinement, part 1 (LTS side only): the SEQUENTIAL schedule of the labelled transition system of
   Uci/Conc.v and what it does, command by command, from a quiescent state.

   Sequential schedule: the reader executes each handler to its end; after an accepted `go` the search goroutine
   runs to its end (search.start, search returns, Set(IDLE), print bestmove, exit) before the reader takes the
   next line.  A `go infinite` returns only after a cancellation: its sequential form is the pair
   [CGo true; CStop] (the search starts, the reader executes the stop, the search returns).

   [seq_sched ready k d]: the schedule for the dialogue [d]; [ready] = (state POSITION_SET and a search object
   exists), [k] = number of search goroutines spawned so far; both are tracked by the definition itself, the
   schedule is a function of the dialogue and of these two facts about the initial state only. *)
From Coq Require Import List Bool Arith Lia.
From Clemens Require Import Uci.Conc.
From Clemens.C06Conc Require Import ConcLemmas ConcInv.
Import ListNotations.

Definition is_posgo (c : cmd) : bool := match c with CPos | CGo _ => true | _ => false end.
Definition no_posgo (d : list cmd) : bool := forallb (fun c => negb (is_posgo c)) d.

Fixpoint seq_sched (ready : bool) (k : nat) (d : list cmd) : list label :=
  match d with
  | [] => []
  | CPos :: r => [LR; LR] ++ seq_sched true k r
  | CReady :: r => [LR; LR] ++ seq_sched ready k r
  (* the stop handler, then the latest search goroutine is given the three steps it needs once cancelled
     (they are stutter steps when it has finished already, or when there is none) *)
  | CStop :: r => [LR; LR; LS (k - 1); LS (k - 1); LS (k - 1)] ++ seq_sched ready k r
  | CGo _ :: r =>
    if ready
    then (* line, Lock, state test + Set(RUNNING), go func, start.spawned, Unlock; then goroutine k:
            search.start, search returns + Set(IDLE), bestmove, exit (stutter steps while an infinite search
            has not been cancelled) *)
         [LR; LR; LR; LR; LR; LR; LS k; LS k; LS k; LS k] ++ seq_sched false (S k) r
    else (* line, Lock, state test: refused *)
         [LR; LR; LR] ++ seq_sched false k r
  end.

(* what the definition tracks *)
Fixpoint track (ready : bool) (k : nat) (d : list cmd) : bool * nat :=
  match d with
  | [] => (ready, k)
  | CPos :: r => track true k r
  | CGo _ :: r => if ready then track false (S k) r else track false k r
  | _ :: r => track ready k r
  end.

Lemma seq_sched_app a : forall ready k b,
  seq_sched ready k (a ++ b) =
  seq_sched ready k a ++ seq_sched (fst (track ready k a)) (snd (track ready k a)) b.
Proof.
  induction a as [|c a IH]; intros ready k b; [reflexivity|].
  destruct c as [|inf| |]; cbn [app seq_sched track].
  - now rewrite IH.
  - destruct ready; rewrite IH; reflexivity.
  - now rewrite IH.
  - now rewrite IH.
Qed.

(* the exact condition under which the sequential schedule consumes the whole dialogue: after a refused go
   (which is never answered by a bestmove) the GUI of Conc.v sends no further position/go *)
Fixpoint seq_ok (ready : bool) (d : list cmd) : bool :=
  match d with
  | [] => true
  | CPos :: r => seq_ok true r
  | CGo _ :: r => if ready then seq_ok false r else no_posgo r
  | _ :: r => seq_ok ready r
  end.

Lemma wf_seq_ok d : forall ph ready, (ph = true -> ready = true) -> wf ph d = true -> seq_ok ready d = true.
Proof.
  induction d as [|c d IH]; intros ph ready Hpr Hwf; [reflexivity|].
  destruct c as [|inf| |]; cbn [wf seq_ok] in *.
  - eapply IH; [|exact Hwf]. auto.
  - apply andb_true_iff in Hwf as [Hph Hwf]. rewrite (Hpr Hph). eapply IH; [|exact Hwf]. discriminate.
  - eapply IH; eauto.
  - eapply IH; eauto.
Qed.

(* ------------------------------------------------------------------ quiescent states *)
Definition done_thread (inf : bool) : sthread := {| s_inf := inf; s_cancelled := true; s_pc := SDone |}.

Record quiet (s : cstate) : Prop := {
  q_rpc : c_rpc s = None;
  q_gs : c_gs s = [];
  q_lock : c_lock s = false;
  q_gst : c_gst s <> RUNNING;
  q_done : forall t, In t (c_searches s) -> s_pc t = SDone
}.

Lemma quiet_LS_none v s j : quiet s -> step v s (LS j) = None.
Proof.
  intros Q. cbn [step]. unfold sstep. destruct (nth_error (c_searches s) j) as [t|] eqn:E; [|reflexivity].
  rewrite (q_done s Q t (nth_error_In _ _ E)). reflexivity.
Qed.

Lemma quiet_run_LS v s js : quiet s -> run v s (map LS js) = s.
Proof.
  intros Q. induction js as [|j js IH]; [reflexivity|].
  cbn [map]. rewrite run_cons. unfold step_or_stay. now rewrite quiet_LS_none.
Qed.

Lemma quiet_LG_none v s i : quiet s -> step v s (LG i) = None.
Proof.
  intros Q. cbn [step]. unfold gstep. rewrite (q_gs s Q). now destruct i.
Qed.

(* a quiescent state whose dialogue is finished, or whose next line the GUI holds back, cannot move at all *)
Lemma quiet_stuck_all v s :
  quiet s -> (c_lines s = [] \/ exists c rest, c_lines s = c :: rest /\ gui_ready s c = false) ->
  forall l, step v s l = None.
Proof.
  intros Q Hl [|i|j].
  - cbn [step]. unfold rstep. rewrite (q_rpc s Q). destruct Hl as [->|(c & rest & -> & Hg)]; [reflexivity|].
    now rewrite Hg.
  - now apply quiet_LG_none.
  - now apply quiet_LS_none.
Qed.

Lemma all_none_stuck v s : (forall l, step v s l = None) -> stuck v s = true.
Proof. intros H. apply stuck_spec. intros l _. apply H. Qed.

Lemma all_none_run v s sched : (forall l, step v s l = None) -> run v s sched = s.
Proof.
  intros H. induction sched as [|l sched IH]; [reflexivity|].
  rewrite run_cons. unfold step_or_stay. now rewrite H.
Qed.

(* ------------------------------------------------------------------ the effect of one command *)
Definition do_ready (s : cstate) (rest : list cmd) : cstate :=
  emit (set_lines s rest (c_gos s) (c_phase s)) EReady.
Definition do_stop (s : cstate) (rest : list cmd) : cstate :=
  note_stop (set_lines s rest (c_gos s) (c_phase s)).
Definition do_pos (s : cstate) (rest : list cmd) : cstate :=
  set_has_search (set_gst (set_lines s rest (c_gos s) true) POSSET) true.
Definition do_go_refused (s : cstate) (rest : list cmd) : cstate :=
  emit (set_lines s rest (S (c_gos s)) false) ERefuseGo.
(* accepted, finite: goroutine number [length (c_searches s)] has come and gone *)
Definition do_go (s : cstate) (rest : list cmd) (inf : bool) : cstate :=
  emit (set_searches (set_gst (set_lines s rest (S (c_gos s)) false) IDLE)
                     (c_searches s ++ [done_thread inf]))
       (EBest (length (c_searches s))).
(* accepted, infinite, then stop *)
Definition do_go_stop (s : cstate) (rest : list cmd) : cstate :=
  let s1 := do_go s rest true in
  {| c_lines := c_lines s1; c_gos := c_gos s1; c_phase := c_phase s1; c_rpc := c_rpc s1; c_gs := c_gs s1;
     c_lock := c_lock s1; c_gst := c_gst s1; c_has_search := c_has_search s1; c_searches := c_searches s1;
     c_out := c_out s1; c_stops := c_gos s1 :: c_stops s1 |}.

Ltac sred := cbn [c_lines c_gos c_phase c_rpc c_gs c_lock c_gst c_has_search c_searches c_out c_stops
                  set_lines set_rpc set_gs set_lock set_gst set_has_search set_searches emit note_stop
                  do_ready do_stop do_pos do_go_refused do_go do_go_stop
                  v_sync_go v_running_first v_idle_first repaired s_inf s_cancelled s_pc with_pc with_cancel
                  done_thread].

Ltac qdestruct s Q :=
  let Hr := fresh "Hr" in let Hg := fresh "Hg" in let Hl := fresh "Hl" in
  let Hst := fresh "Hst" in let Hd := fresh "Hd" in
  destruct Q as [Hr Hg Hl Hst Hd];
  destruct s as [lines gos phase rpc gs lock gst hs searches out stops];
  cbn [c_lines c_gos c_phase c_rpc c_gs c_lock c_gst c_has_search c_searches c_out c_stops] in *;
  subst.

Lemma run_ready s rest ready k :
  quiet s -> c_lines s = CReady :: rest ->
  run repaired s (seq_sched ready k [CReady]) = do_ready s rest.
Proof.
  intros Q Hlines. qdestruct s Q. reflexivity.
Qed.

Lemma run_stop s rest ready k :
  quiet s -> c_lines s = CStop :: rest ->
  run repaired s (seq_sched ready k [CStop]) = do_stop s rest.
Proof.
  intros Q Hlines.
  assert (Q' : quiet (do_stop s rest)).
  { destruct Q as [Hr Hg Hl Hst Hd]. constructor; sred; auto. }
  change (seq_sched ready k [CStop]) with ([LR; LR] ++ [LS (k - 1); LS (k - 1); LS (k - 1)]).
  rewrite run_app.
  assert (E : run repaired s [LR; LR] = do_stop s rest).
  { clear Q'. qdestruct s Q. unfold run, fold_left, step_or_stay, step, rstep. sred.
    cbn [gui_ready hstep]. sred. destruct gst; try congruence; reflexivity. }
  rewrite E. now apply (quiet_run_LS repaired _ [k - 1; k - 1; k - 1]).
Qed.

Lemma eqb_count s : count_best (c_out s) = c_gos s -> (count_best (c_out s) =? c_gos s) = true.
Proof. intros ->. apply Nat.eqb_refl. Qed.

Lemma sos_some v s l s' : step v s l = Some s' -> step_or_stay v s l = s'.
Proof. intros H. unfold step_or_stay. now rewrite H. Qed.

(* one reader step of a literal state: [tac] finishes the evaluation *)
Ltac rd tac :=
  rewrite run_cons; erewrite sos_some;
  [|cbn [step]; unfold rstep; sred; cbn [gui_ready hstep gst_eqb negb orb]; sred; tac; sred; reflexivity].

Lemma run_pos s rest ready k :
  quiet s -> c_lines s = CPos :: rest -> count_best (c_out s) = c_gos s ->
  run repaired s (seq_sched ready k [CPos]) = do_pos s rest.
Proof.
  intros Q Hlines Hcb. apply eqb_count in Hcb. qdestruct s Q.
  unfold seq_sched, app.
  destruct gst; try congruence; (rd ltac:(rewrite Hcb); rd idtac; rewrite run_nil; reflexivity).
Qed.

Lemma run_go_refused s rest inf k :
  quiet s -> c_lines s = CGo inf :: rest -> count_best (c_out s) = c_gos s ->
  (c_gst s = POSSET /\ c_has_search s = true -> False) ->
  run repaired s (seq_sched false k [CGo inf]) = do_go_refused s rest.
Proof.
  intros Q Hlines Hcb Hno. apply eqb_count in Hcb. qdestruct s Q.
  unfold seq_sched, app.
  destruct gst; try congruence; destruct hs; try (exfalso; now auto);
    (rd ltac:(rewrite Hcb); rd idtac; rd idtac; rewrite run_nil; reflexivity).
Qed.

(* one step of the goroutine spawned last *)
Lemma sstep_last s l t :
  c_searches s = l ++ [t] ->
  sstep repaired s (length l) =
  match s_pc t with
  | SStart => Some (set_searches s (l ++ [with_pc t SRunning]))
  | SRunning =>
    if negb (s_inf t) || s_cancelled t
    then Some (set_gst (set_searches s (l ++ [with_pc t SMid])) IDLE) else None
  | SMid => Some (emit (set_searches s (l ++ [with_pc t SEnd])) (EBest (length l)))
  | SEnd => Some (set_searches s (l ++ [with_cancel (with_pc t SDone)]))
  | SDone => None
  end.
Proof.
  intros H. unfold sstep. rewrite H, nth_error_snoc, !upd_nth_snoc. reflexivity.
Qed.

(* one step of the goroutine spawned last, of a literal state *)
Ltac sd l :=
  rewrite run_cons; erewrite sos_some;
  [|cbn [step]; erewrite (sstep_last _ l); [|sred; reflexivity]; sred; cbn [negb orb]; sred; reflexivity].

(* the reader's part of an accepted go: six steps, the goroutine is spawned and the lock is free again *)
Definition go_spawned (s : cstate) (rest : list cmd) (inf : bool) : cstate :=
  set_searches (set_gst (set_lines s rest (S (c_gos s)) false) RUNNING)
               (c_searches s ++ [{| s_inf := inf; s_cancelled := false; s_pc := SStart |}]).

Lemma run_go_reader s rest inf :
  quiet s -> c_lines s = CGo inf :: rest -> count_best (c_out s) = c_gos s ->
  c_gst s = POSSET -> c_has_search s = true ->
  run repaired s [LR; LR; LR; LR; LR; LR] = go_spawned s rest inf.
Proof.
  intros Q Hlines Hcb Hp Hh. apply eqb_count in Hcb. qdestruct s Q.
  rd ltac:(rewrite Hcb). rd idtac. rd idtac. rd idtac. rd idtac. rd idtac. rewrite run_nil.
  reflexivity.
Qed.

Lemma run_go s rest k :
  quiet s -> c_lines s = CGo false :: rest -> count_best (c_out s) = c_gos s ->
  c_gst s = POSSET -> c_has_search s = true -> k = length (c_searches s) ->
  run repaired s (seq_sched true k [CGo false]) = do_go s rest false.
Proof.
  intros Q Hlines Hcb Hp Hh ->.
  change (seq_sched true (length (c_searches s)) [CGo false])
    with ([LR; LR; LR; LR; LR; LR] ++ [LS (length (c_searches s)); LS (length (c_searches s));
                                       LS (length (c_searches s)); LS (length (c_searches s))]).
  rewrite run_app, (run_go_reader s rest false Q Hlines Hcb Hp Hh).
  qdestruct s Q. unfold go_spawned. sred.
  sd searches. sd searches. sd searches. sd searches. rewrite run_nil.
  reflexivity.
Qed.

Lemma sos_none v s l : step v s l = None -> step_or_stay v s l = s.
Proof. intros H. unfold step_or_stay. now rewrite H. Qed.

(* a stutter step of the goroutine spawned last, of a literal state *)
Ltac sn l :=
  rewrite run_cons; rewrite sos_none;
  [|cbn [step]; erewrite (sstep_last _ l); [|sred; reflexivity]; sred; cbn [negb orb]; reflexivity].

Lemma cancel_last_snoc s l t : c_searches s = l ++ [t] -> cancel_last s = set_searches s (l ++ [with_cancel t]).
Proof.
  intros H. rewrite cancel_last_eq, H, last_opt_snoc, app_length. cbn [length].
  replace (length l + 1 - 1) with (length l) by lia. now rewrite upd_nth_snoc.
Qed.

Lemma run_go_stop s rest k :
  quiet s -> c_lines s = CGo true :: CStop :: rest -> count_best (c_out s) = c_gos s ->
  c_gst s = POSSET -> c_has_search s = true -> k = length (c_searches s) ->
  run repaired s (seq_sched true k [CGo true; CStop]) = do_go_stop s rest.
Proof.
  intros Q Hlines Hcb Hp Hh ->.
  cbn [seq_sched app]. replace (S (length (c_searches s)) - 1) with (length (c_searches s)) by lia.
  change (LR :: LR :: LR :: LR :: LR :: LR :: ?x) with ([LR; LR; LR; LR; LR; LR] ++ x).
  rewrite run_app, (run_go_reader s (CStop :: rest) true Q Hlines Hcb Hp Hh).
  qdestruct s Q. unfold go_spawned. sred.
  sd searches. sn searches. sn searches. sn searches.
  rd idtac.
  rewrite run_cons; erewrite sos_some;
  [|cbn [step]; unfold rstep; sred; cbn [hstep]; sred; cbn [gst_eqb];
    erewrite cancel_last_snoc; [|sred; reflexivity]; sred; reflexivity].
  sd searches. sd searches. sd searches. rewrite run_nil.
  reflexivity.
Qed.

(* ------------------------------------------------------------------ the results are quiescent again *)
Lemma quiet_do_ready s rest : quiet s -> quiet (do_ready s rest).
Proof. intros [Hr Hg Hl Hst Hd]. constructor; sred; auto. Qed.
Lemma quiet_do_stop s rest : quiet s -> quiet (do_stop s rest).
Proof. intros [Hr Hg Hl Hst Hd]. constructor; sred; auto. Qed.
Lemma quiet_do_pos s rest : quiet s -> quiet (do_pos s rest).
Proof. intros [Hr Hg Hl Hst Hd]. constructor; sred; auto. discriminate. Qed.
Lemma quiet_do_go_refused s rest : quiet s -> quiet (do_go_refused s rest).
Proof. intros [Hr Hg Hl Hst Hd]. constructor; sred; auto. Qed.
Lemma quiet_do_go s rest inf : quiet s -> quiet (do_go s rest inf).
Proof.
  intros [Hr Hg Hl Hst Hd]. constructor; sred; auto; [discriminate|].
  intros t Hin. apply in_app_or in Hin as [Hin|[<-|[]]]; auto.
Qed.
Lemma quiet_do_go_stop s rest : quiet s -> quiet (do_go_stop s rest).
Proof.
  intros [Hr Hg Hl Hst Hd]. constructor; sred; auto; [discriminate|].
  intros t Hin. apply in_app_or in Hin as [Hin|[<-|[]]]; auto.
Qed.

Lemma count_best_do_go s rest inf :
  count_best (c_out s) = c_gos s -> count_best (c_out (do_go s rest inf)) = c_gos (do_go s rest inf).
Proof. intros H. sred. unfold count_best in *. cbn [filter is_best length]. now rewrite H. Qed.

(* ------------------------------------------------------------------ after a refused go *)
(* The refused go is counted in [c_gos] and never answered by a bestmove: from then on the GUI of Conc.v holds
   back every position/go ([gui_ready]); isready and stop are still served. *)
Fixpoint blk (s : cstate) (d : list cmd) : cstate :=
  match d with
  | CReady :: r => blk (do_ready s r) r
  | CStop :: r => blk (do_stop s r) r
  | _ => s
  end.

Lemma blocked_none s c rest :
  quiet s -> c_lines s = c :: rest -> is_posgo c = true -> count_best (c_out s) <> c_gos s ->
  forall l, step repaired s l = None.
Proof.
  intros Q Hl Hc Hne. apply quiet_stuck_all; auto. right. exists c, rest. split; auto.
  apply Nat.eqb_neq in Hne. destruct c; try discriminate; exact Hne.
Qed.

Lemma run_blocked d : forall s ready k,
  quiet s -> c_lines s = d -> count_best (c_out s) <> c_gos s ->
  run repaired s (seq_sched ready k d) = blk s d.
Proof.
  induction d as [|c d IH]; intros s ready k Q Hl Hne; [reflexivity|].
  destruct c as [|inf| |].
  - apply all_none_run. now apply (blocked_none s CPos d).
  - apply all_none_run. now apply (blocked_none s (CGo inf) d).
  - change (seq_sched ready k (CStop :: d)) with (seq_sched ready k [CStop] ++ seq_sched ready k d).
    rewrite run_app, (run_stop s d ready k Q Hl). cbn [blk].
    apply IH; [now apply quiet_do_stop|reflexivity|exact Hne].
  - change (seq_sched ready k (CReady :: d)) with (seq_sched ready k [CReady] ++ seq_sched ready k d).
    rewrite run_app, (run_ready s d ready k Q Hl). cbn [blk].
    apply IH; [now apply quiet_do_ready|reflexivity|exact Hne].
Qed.

Lemma repeat_shift {A} (x : A) n l : repeat x n ++ x :: l = x :: repeat x n ++ l.
Proof. induction n as [|n IH]; [reflexivity|]. cbn [repeat app]. now rewrite IH. Qed.

Lemma blk_spec d : forall s,
  quiet s -> c_lines s = d ->
  let s' := blk s d in
  quiet s' /\ c_gst s' = c_gst s /\ c_has_search s' = c_has_search s /\ c_searches s' = c_searches s /\
  c_gos s' = c_gos s /\ count_best (c_out s') = count_best (c_out s) /\
  (forall e, In e (c_out s) -> In e (c_out s')) /\
  (no_posgo d = true -> c_lines s' = [] /\ c_out s' = repeat EReady (count_creadys d) ++ c_out s) /\
  (no_posgo d = false -> exists c rest, c_lines s' = c :: rest /\ is_posgo c = true).
Proof.
  induction d as [|c d IH]; intros s Q Hl; cbn zeta.
  - cbn [blk]. split; [exact Q|]. do 6 (split; [now auto|]). split; [|discriminate].
    intros _. split; [exact Hl|reflexivity].
  - destruct c as [|inf| |]; cbn [blk].
    + split; [exact Q|]. do 6 (split; [now auto|]). split; [discriminate|]. intros _. now exists CPos, d.
    + split; [exact Q|]. do 6 (split; [now auto|]). split; [discriminate|]. intros _. now exists (CGo inf), d.
    + destruct (IH (do_stop s d) (quiet_do_stop s d Q) eq_refl) as (Q' & H1 & H2 & H3 & H4 & H5 & H6 & H7 & H8).
      split; [exact Q'|]. do 6 (split; [assumption|]). split; [|exact H8].
      intros Hn. destruct (H7 Hn) as [Ha Hb]. split; [exact Ha|exact Hb].
    + destruct (IH (do_ready s d) (quiet_do_ready s d Q) eq_refl) as (Q' & H1 & H2 & H3 & H4 & H5 & H6 & H7 & H8).
      split; [exact Q'|]. do 5 (split; [assumption|]). split; [|split; [|exact H8]].
      * intros e Hin. apply H6. sred. now right.
      * intros Hn. destruct (H7 Hn) as [Ha Hb]. split; [exact Ha|]. rewrite Hb. sred.
        unfold count_creadys. cbn [filter is_cready length repeat]. apply repeat_shift.
Qed.
