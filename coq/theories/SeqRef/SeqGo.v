(* Sequential refinement, part 5: the theorems for the Go build (Uci/EngineInst.v), the two readings of `go`
   ([abs_finite], [abs_stop]), the concrete witness of the disagreement, and non-vacuity examples evaluated on
   both models by the kernel. *)
From Coq Require Import NArith ZArith List Bool Lia String.
From Clemens Require Import Base.Res Base.Word Base.Bytes Pos.Types Pos.Position Pos.Fen
     Eval.Eval Search.TT Search.Negamax Search.GoInst Uci.ParseGo Uci.Input Uci.Game Uci.Engine Uci.EngineInst.
From Clemens Require Uci.Conc.
From Clemens.C06Conc Require ConcLemmas.
From ClemensGen Require Import GoConsts.
From Clemens.SeqRef Require Import SeqAbs SeqRefine SeqMain.
From Clemens.SeqRef Require SeqConc.
Import ListNotations.
Open Scope list_scope.
Open Scope nat_scope.

(* `go infinite` and the bare `go` (parseGo sets Infinite for an empty token list) *)
Definition go_line_infinite (ts : list token) : bool :=
  match parse_go ts with Ok (sp, _) => sp_infinite sp | _ => false end.

(* the dialogue of the LTS for the lines [ls]; [infin = fun _ => false]: every go is a finite search;
   [infin = go_line_infinite]: an infinite search is stopped by the GUI (CGo true; CStop) *)
Definition go_abs_dialogue (infin : list token -> bool) (ls : list bytes) : list Conc.cmd :=
  abs_dialogue go_keys go_sconsts unicode_digit_tbl validFirstInputToken infin ls.
Definition abs_finite : list bytes -> list Conc.cmd := go_abs_dialogue (fun _ => false).
Definition abs_stop : list bytes -> list Conc.cmd := go_abs_dialogue go_line_infinite.
Definition go_admitted (line : bytes) : Prop := admitted validFirstInputToken line.

(* ================================================================== main theorem, Go build *)
Theorem go_seq_refinement infin iters fuel lcs e e' out :
  Forall (fun lc => go_admitted (fst lc)) lcs ->
  en_state e <> ST_RUNNING ->
  go_run iters fuel e lcs = (SEof e', out) ->
  let d := go_abs_dialogue infin (map fst lcs) in
  SeqConc.seq_ok (ready_e e) d = true ->
  let s' := Conc.run Conc.repaired (abs_state e d) (SeqConc.seq_sched (ready_e e) 0 d) in
  Conc.c_out s' = rev (abs_out 0 out) /\
  Conc.c_gst s' = abs_gst (en_state e') /\ Conc.c_has_search s' = has_game e' /\
  Conc.c_lines s' = [] /\ Conc.c_rpc s' = None /\ Conc.c_gs s' = [] /\ Conc.c_lock s' = false /\
  (forall t, In t (Conc.c_searches s') -> Conc.s_pc t = Conc.SDone) /\
  Conc.stuck Conc.repaired s' = true.
Proof. apply seq_refinement. Qed.

Theorem go_seq_refinement_wf infin iters fuel lcs e e' out ph :
  Forall (fun lc => go_admitted (fst lc)) lcs ->
  en_state e <> ST_RUNNING ->
  go_run iters fuel e lcs = (SEof e', out) ->
  let d := go_abs_dialogue infin (map fst lcs) in
  (ph = true -> ready_e e = true) -> Conc.wf ph d = true ->
  let s' := Conc.run Conc.repaired (abs_state e d) (SeqConc.seq_sched (ready_e e) 0 d) in
  Conc.c_out s' = rev (abs_out 0 out) /\
  Conc.c_gst s' = abs_gst (en_state e') /\ Conc.c_has_search s' = has_game e' /\
  Conc.c_lines s' = [] /\ Conc.c_rpc s' = None /\ Conc.c_gs s' = [] /\ Conc.c_lock s' = false /\
  (forall t, In t (Conc.c_searches s') -> Conc.s_pc t = Conc.SDone) /\
  Conc.stuck Conc.repaired s' = true.
Proof. apply seq_refinement_wf. Qed.

Theorem go_seq_disagreement infin iters fuel lcs e e' out :
  Forall (fun lc => go_admitted (fst lc)) lcs ->
  en_state e <> ST_RUNNING ->
  go_run iters fuel e lcs = (SEof e', out) ->
  let d := go_abs_dialogue infin (map fst lcs) in
  SeqConc.seq_ok (ready_e e) d = false ->
  let s' := Conc.run Conc.repaired (abs_state e d) (SeqConc.seq_sched (ready_e e) 0 d) in
  (exists c rest, Conc.c_lines s' = c :: rest /\ SeqConc.is_posgo c = true) /\
  In Conc.ERefuseGo (Conc.c_out s') /\
  Conc.count_best (Conc.c_out s') <> Conc.c_gos s' /\
  Conc.stuck Conc.repaired s' = true /\
  forall sched, Conc.run Conc.repaired s' sched = s'.
Proof. apply seq_disagreement. Qed.

Theorem go_seq_agreement_iff infin iters fuel lcs e e' out :
  Forall (fun lc => go_admitted (fst lc)) lcs ->
  en_state e <> ST_RUNNING ->
  go_run iters fuel e lcs = (SEof e', out) ->
  let d := go_abs_dialogue infin (map fst lcs) in
  let s' := Conc.run Conc.repaired (abs_state e d) (SeqConc.seq_sched (ready_e e) 0 d) in
  Conc.c_lines s' = [] <-> SeqConc.seq_ok (ready_e e) d = true.
Proof. apply seq_agreement_iff. Qed.

(* sessions from the start of the process: the LTS starts in [Conc.init] *)
Theorem go_seq_refinement_init infin iters fuel lcs e' out :
  Forall (fun lc => go_admitted (fst lc)) lcs ->
  go_run iters fuel go_engine_init lcs = (SEof e', out) ->
  let d := go_abs_dialogue infin (map fst lcs) in
  Conc.wf false d = true ->
  let s' := Conc.run Conc.repaired (Conc.init d) (SeqConc.seq_sched false 0 d) in
  Conc.c_out s' = rev (abs_out 0 out) /\
  Conc.c_gst s' = abs_gst (en_state e') /\ Conc.c_has_search s' = has_game e' /\
  Conc.c_lines s' = [] /\ Conc.c_rpc s' = None /\ Conc.c_gs s' = [] /\ Conc.c_lock s' = false /\
  (forall t, In t (Conc.c_searches s') -> Conc.s_pc t = Conc.SDone) /\
  Conc.stuck Conc.repaired s' = true.
Proof.
  intros Hadm Hrun d Hwf.
  apply (go_seq_refinement_wf infin iters fuel lcs go_engine_init e' out false Hadm); auto; discriminate.
Qed.

(* C06 clauses for the sessions of the engine model *)
Theorem go_engine_no_refusal infin iters fuel lcs e' out :
  Forall (fun lc => go_admitted (fst lc)) lcs ->
  go_run iters fuel go_engine_init lcs = (SEof e', out) ->
  Conc.wf false (go_abs_dialogue infin (map fst lcs)) = true ->
  ~ In ONoPosition out /\ ~ In (OPos PMWrongState) out.
Proof. intros Hadm Hrun Hwf. eapply engine_no_refusal; eauto. now split. Qed.

Theorem go_engine_exactly_one_bestmove infin iters fuel lcs e' out :
  Forall (fun lc => go_admitted (fst lc)) lcs ->
  go_run iters fuel go_engine_init lcs = (SEof e', out) ->
  Conc.wf false (go_abs_dialogue infin (map fst lcs)) = true ->
  count_bestmoves out = List.length (filter (is_go_line validFirstInputToken) (map fst lcs)) /\
  count_readyoks out = List.length (filter (is_isready_line validFirstInputToken) (map fst lcs)) /\
  forall k, k < List.length (filter (is_go_line validFirstInputToken) (map fst lcs)) ->
            ConcLemmas.best_occ k (abs_out 0 out) = 1.
Proof. intros Hadm Hrun Hwf. eapply engine_exactly_one_bestmove; eauto. now split. Qed.

(* ================================================================== examples, both models evaluated *)
Open Scope string_scope.
Definition bs (s : string) : bytes := bytes_of_string s.

Definition all_admitted (lcs : list (bytes * option N)) : bool :=
  forallb (fun lc => match handle_line validFirstInputToken (fst lc) with CNewGame => false | _ => true end) lcs.
Lemma all_admitted_spec lcs : all_admitted lcs = true -> Forall (fun lc => go_admitted (fst lc)) lcs.
Proof.
  intros H. apply Forall_forall. intros lc Hin. unfold all_admitted in H.
  rewrite forallb_forall in H. specialize (H lc Hin). cbv beta delta [go_admitted admitted].
  intros Heq. unfold bytes, token in *. rewrite Heq in H. discriminate H.
Qed.

(* ---- the dialogue of the task: the second go is refused (state IDLE) and a position/go pair follows *)
Definition session_task : list (bytes * option N) :=
  [(bs "position startpos", None); (bs "go depth 1", None); (bs "isready", None);
   (bs "go depth 1", None);                                              (* refused *)
   (bs "position startpos moves e2e4", None); (bs "go movetime 1", Some 0%N)].

Lemma session_task_engine :
  match fst (go_run 10 60 go_engine_init session_task) with
  | SEof e' => Some (en_state e', has_game e')
  | _ => None
  end = Some (ST_IDLE, true) /\
  abs_out 0 (snd (go_run 10 60 go_engine_init session_task)) =
  [Conc.EBest 0; Conc.EReady; Conc.ERefuseGo; Conc.EBest 1].
Proof. split; vm_compute; reflexivity. Qed.

(* the engine model reads all six lines and answers the last go; the LTS stops in front of the fifth *)
Theorem seq_models_disagree :
  let d := abs_finite (map fst session_task) in
  Forall (fun lc => go_admitted (fst lc)) session_task /\
  d = [Conc.CPos; Conc.CGo false; Conc.CReady; Conc.CGo false; Conc.CPos; Conc.CGo false] /\
  SeqConc.seq_ok false d = false /\
  (exists e' out, go_run 10 60 go_engine_init session_task = (SEof e', out) /\
     en_state e' = ST_IDLE /\ has_game e' = true /\
     abs_out 0 out = [Conc.EBest 0; Conc.EReady; Conc.ERefuseGo; Conc.EBest 1]) /\
  let s' := Conc.run Conc.repaired (Conc.init d) (SeqConc.seq_sched false 0 d) in
  rev (Conc.c_out s') = [Conc.EBest 0; Conc.EReady; Conc.ERefuseGo] /\
  Conc.c_lines s' = [Conc.CPos; Conc.CGo false] /\
  Conc.c_gos s' = 2 /\ Conc.count_best (Conc.c_out s') = 1 /\
  Conc.stuck Conc.repaired s' = true /\
  forall sched, Conc.run Conc.repaired s' sched = s'.
Proof.
  cbn zeta.
  assert (Hadm : Forall (fun lc => go_admitted (fst lc)) session_task)
    by (apply all_admitted_spec; vm_compute; reflexivity).
  assert (Hd : go_abs_dialogue (fun _ => false) (map fst session_task) =
               [Conc.CPos; Conc.CGo false; Conc.CReady; Conc.CGo false; Conc.CPos; Conc.CGo false])
    by (vm_compute; reflexivity).
  assert (Hrun : exists e' out, go_run 10 60 go_engine_init session_task = (SEof e', out) /\
            en_state e' = ST_IDLE /\ has_game e' = true /\
            abs_out 0 out = [Conc.EBest 0; Conc.EReady; Conc.ERefuseGo; Conc.EBest 1]).
  { generalize session_task_engine.
    destruct (go_run 10 60 go_engine_init session_task) as [fin out]. cbn [fst snd].
    intros [E1 E2]. destruct fin as [e'| | |]; try discriminate E1.
    injection E1 as H1 H2. exists e', out. auto. }
  split; [exact Hadm|]. split; [exact Hd|]. split; [vm_compute; reflexivity|]. split; [exact Hrun|].
  split; [vm_compute; reflexivity|]. split; [vm_compute; reflexivity|].
  split; [vm_compute; reflexivity|]. split; [vm_compute; reflexivity|].
  destruct Hrun as (e' & out & E & _).
  assert (Hst : en_state go_engine_init <> ST_RUNNING) by (intro Hx; discriminate Hx).
  pose proof (go_seq_disagreement (fun _ => false) 10 60 session_task go_engine_init e' out Hadm Hst E) as H.
  cbn zeta in H. unfold abs_finite. rewrite Hd in H |- *.
  destruct (H eq_refl) as (_ & _ & _ & H4 & H5). split; assumption.
Qed.

(* ---- a session on which the two models agree, with stutter lines (uci, a position with a short FEN, an unknown
        word), a rejected move (e1e3: the position is set all the same), a search ended by the oracle, a
        `go infinite` (read as an infinite search that is stopped), and a last go that is refused *)
Definition session_agree : list (bytes * option N) :=
  [(bs "uci", None); (bs "position startpos", None); (bs "go depth 1", None); (bs "isready", None);
   (bs "stop", None); (bs "position fen 8/8", None); (bs "xyzzy", None);
   (bs "position startpos moves e2e4", None); (bs "go movetime 1", Some 0%N);
   (bs "position startpos moves e2e4 e7e5 e1e3", None); (bs "go infinite", Some 3%N);
   (bs "go", None)].

Example session_agree_both_models :
  let d := abs_stop (map fst session_agree) in
  all_admitted session_agree = true /\
  d = [Conc.CPos; Conc.CGo false; Conc.CReady; Conc.CStop; Conc.CPos; Conc.CGo false;
       Conc.CPos; Conc.CGo true; Conc.CStop; Conc.CGo true; Conc.CStop] /\
  SeqConc.seq_ok (ready_e go_engine_init) d = true /\ Conc.wf false d = false /\
  let s' := Conc.run Conc.repaired (abs_state go_engine_init d) (SeqConc.seq_sched false 0 d) in
  match go_run 10 60 go_engine_init session_agree with
  | (SEof e', out) =>
      abs_out 0 out = [Conc.EBest 0; Conc.EReady; Conc.EBest 1; Conc.EBest 2; Conc.ERefuseGo] /\
      rev (Conc.c_out s') = abs_out 0 out /\
      Conc.c_gst s' = abs_gst (en_state e') /\ Conc.c_has_search s' = has_game e' /\
      Conc.c_lines s' = [] /\ Conc.stuck Conc.repaired s' = true /\ Conc.c_stops s' = [4; 3; 1]
  | _ => False
  end.
Proof. vm_compute. repeat split; reflexivity. Qed.

(* the hypotheses of the wf theorems and of the C06 corollaries are met by a concrete session *)
Definition session_wf : list (bytes * option N) :=
  [(bs "isready", None); (bs "position startpos", None); (bs "go depth 1", None); (bs "isready", None);
   (bs "position startpos moves e2e4", None); (bs "go movetime 1", Some 0%N)].

Example session_wf_hyps_met :
  all_admitted session_wf = true /\
  Conc.wf false (abs_finite (map fst session_wf)) = true /\
  Conc.wf false (abs_stop (map fst session_wf)) = true /\
  match go_run 10 60 go_engine_init session_wf with
  | (SEof e', out) => (count_bestmoves out, count_readyoks out, abs_out 0 out) =
                      (2, 2, [Conc.EReady; Conc.EBest 0; Conc.EReady; Conc.EBest 1])
  | _ => False
  end.
Proof. vm_compute. repeat split; reflexivity. Qed.

Print Assumptions go_seq_refinement.
Print Assumptions go_seq_refinement_wf.
Print Assumptions go_seq_refinement_init.
Print Assumptions go_seq_disagreement.
Print Assumptions go_seq_agreement_iff.
Print Assumptions go_engine_no_refusal.
Print Assumptions go_engine_exactly_one_bestmove.
Print Assumptions seq_models_disagree.
Print Assumptions session_agree_both_models.
Print Assumptions session_wf_hyps_met.
Print Assumptions seq_refinement.
Print Assumptions seq_refinement_combine.
Print Assumptions seq_disagreement.
Print Assumptions sequential_never_refuses_position.
Print Assumptions newgame_has_no_counterpart.
