(* Sequential refinement, part 3: on sequential dialogues the LTS of Uci/Conc.v, run under the sequential
   schedule, prints the abstraction of what the engine model of Uci/Engine.v prints and ends in the abstraction
   of its state - exactly when no position/go line follows a refused go ([seq_ok]); otherwise the GUI of the LTS
   holds that line back for ever (it waits for a bestmove that a refused go never gets) while the engine model
   reads on.  Generic in the engine parameters; instances for the Go build in SeqMain.v. *)
From Coq Require Import NArith ZArith List Bool Lia.
From Clemens Require Import Base.Res Base.Word Base.Bytes Pos.Types Att.Attacks Pos.Position Pos.Fen
     Eval.Eval Search.TT Search.Ordering Search.Negamax Search.Time Uci.ParseGo Uci.Input Uci.Game Uci.Engine.
From Clemens Require Uci.Conc.
From Clemens.C06Conc Require ConcLemmas.
From Clemens.SeqRef Require Import SeqAbs.
From Clemens.SeqRef Require SeqConc.
Import ListNotations.
Open Scope list_scope.
Open Scope nat_scope.

(* the LTS state [s'] stands for the engine state [e'] after the output [out] (numbered from [k0]) has been added
   to what [s0] had printed: quiescent, everything consumed *)
Definition agrees (e' : engine) (k0 : nat) (out : list oev) (s0 s' : Conc.cstate) : Prop :=
  SeqConc.quiet s' /\ Conc.c_lines s' = [] /\
  Conc.c_gst s' = abs_gst (en_state e') /\ Conc.c_has_search s' = has_game e' /\
  Conc.c_out s' = rev (abs_out k0 out) ++ Conc.c_out s0.

(* the GUI of the LTS holds back a position/go for ever: a go was refused, hence consumed and never answered *)
Definition gui_blocked (s' : Conc.cstate) : Prop :=
  SeqConc.quiet s' /\
  (exists c rest, Conc.c_lines s' = c :: rest /\ SeqConc.is_posgo c = true) /\
  Conc.count_best (Conc.c_out s') <> Conc.c_gos s' /\ In Conc.ERefuseGo (Conc.c_out s').

Lemma gui_blocked_forever s' :
  gui_blocked s' ->
  Conc.stuck Conc.repaired s' = true /\ forall sched, Conc.run Conc.repaired s' sched = s'.
Proof.
  intros (Q & (c & rest & Hl & Hc) & Hne & _).
  pose proof (SeqConc.blocked_none s' c rest Q Hl Hc Hne) as H.
  split; [now apply SeqConc.all_none_stuck|intros sched; now apply SeqConc.all_none_run].
Qed.

Lemma agrees_stuck e' k0 out s0 s' :
  agrees e' k0 out s0 s' ->
  Conc.stuck Conc.repaired s' = true /\ forall sched, Conc.run Conc.repaired s' sched = s'.
Proof.
  intros (Q & Hl & _).
  assert (H : forall l, Conc.step Conc.repaired s' l = None) by (apply SeqConc.quiet_stuck_all; auto).
  split; [now apply SeqConc.all_none_stuck|intros sched; now apply SeqConc.all_none_run].
Qed.

Lemma rev_repeat {A} (x : A) n : rev (repeat x n) = repeat x n.
Proof.
  induction n as [|n IH]; [reflexivity|]. cbn [repeat rev]. rewrite IH.
  change [x] with (repeat x 1). rewrite <- repeat_app. now rewrite Nat.add_comm.
Qed.

Lemma no_posgo_app a b : SeqConc.no_posgo (a ++ b) = SeqConc.no_posgo a && SeqConc.no_posgo b.
Proof. unfold SeqConc.no_posgo. apply forallb_app. Qed.

Section Refine.
Variable K : zkeys.
Variable EC : econsts.
Variable OC : oconsts.
Variable SC : sconsts.
Variable digit_tbl : list (N * N * N).
Variable valid : list token.
Variable max_ms : Z.
Variables iters fuel : nat.
Variable infin : list token -> bool.

Local Notation handle := (handle K EC OC SC digit_tbl valid max_ms iters fuel).
Local Notation run := (run K EC OC SC digit_tbl valid max_ms iters fuel).
Local Notation abs_cmds := (abs_cmds K SC digit_tbl valid infin).
Local Notation abs_dialogue := (abs_dialogue K SC digit_tbl valid infin).
Local Notation admitted := (admitted valid).

Lemma ready_e_spec e s :
  Conc.c_gst s = abs_gst (en_state e) -> Conc.c_has_search s = has_game e ->
  (ready_e e = true -> Conc.c_gst s = Conc.POSSET /\ Conc.c_has_search s = true) /\
  (ready_e e = false -> Conc.c_gst s = Conc.POSSET /\ Conc.c_has_search s = true -> False).
Proof.
  intros Hg Hh. unfold ready_e. split.
  - intros H. apply andb_true_iff in H as [H1 H2]. split; [|congruence].
    rewrite Hg. now apply abs_gst_posset.
  - intros H [H1 H2]. rewrite Hg in H1. apply abs_gst_posset in H1. rewrite H1 in H. cbn in H. congruence.
Qed.

(* a refused go (the head of [CGo inf :: tl ++ d2], [tl] without position/go) and everything after it *)
Lemma refused_tail e s inf tl lcs e' out' k :
  SeqConc.quiet s -> Conc.c_gst s = abs_gst (en_state e) -> Conc.c_has_search s = has_game e ->
  Conc.count_best (Conc.c_out s) = Conc.c_gos s ->
  ready_e e = false -> en_state e <> ST_RUNNING ->
  Forall (fun lc => admitted (fst lc)) lcs ->
  run e lcs = (SEof e', out') ->
  SeqConc.no_posgo tl = true -> ConcLemmas.count_creadys tl = 0 ->
  Conc.c_lines s = Conc.CGo inf :: tl ++ abs_dialogue (map fst lcs) ->
  let d := Conc.CGo inf :: tl ++ abs_dialogue (map fst lcs) in
  let s' := Conc.run Conc.repaired s (SeqConc.seq_sched false k d) in
  if SeqConc.seq_ok false d then agrees e' k (ONoPosition :: out') s s' else gui_blocked s'.
Proof.
  intros Q Hg Hh Hcb Hre Hst Hadm Hrun Htl Htl0 Hl d s'.
  set (d2 := abs_dialogue (map fst lcs)) in *.
  assert (Es' : s' = SeqConc.blk (SeqConc.do_go_refused s (tl ++ d2)) (tl ++ d2)).
  { unfold s', d. change (Conc.CGo inf :: tl ++ d2) with ([Conc.CGo inf] ++ (tl ++ d2)).
    rewrite SeqConc.seq_sched_app, ConcLemmas.run_app. cbn [SeqConc.track fst snd].
    rewrite (SeqConc.run_go_refused s (tl ++ d2) inf k Q Hl Hcb (proj2 (ready_e_spec e s Hg Hh) Hre)).
    apply SeqConc.run_blocked; [now apply SeqConc.quiet_do_go_refused|reflexivity|].
    cbn. unfold Conc.count_best in *. cbn [filter Conc.is_best]. lia. }
  destruct (SeqConc.blk_spec (tl ++ d2) (SeqConc.do_go_refused s (tl ++ d2))
              (SeqConc.quiet_do_go_refused s _ Q) eq_refl) as (Q' & H1 & H2 & H3 & H4 & H5 & H6 & H7 & H8).
  rewrite <- Es' in *. unfold d. cbn [SeqConc.seq_ok].
  destruct (SeqConc.no_posgo (tl ++ d2)) eqn:Enp.
  - destruct (H7 eq_refl) as [Ha Hb]. rewrite no_posgo_app, Htl in Enp. cbn [andb] in Enp.
    destruct (run_no_posgo K EC OC SC digit_tbl valid max_ms iters fuel infin lcs e e' out' Hadm Hst Hrun Enp)
      as [-> Ho].
    unfold agrees. split; [exact Q'|]. split; [exact Ha|]. split; [rewrite H1; exact Hg|].
    split; [rewrite H2; exact Hh|]. rewrite Hb. cbn [abs_out rev].
    rewrite Ho. fold d2. unfold ConcLemmas.count_creadys in *. rewrite filter_app, app_length, Htl0. cbn [plus].
    rewrite rev_repeat, <- app_assoc. reflexivity.
  - unfold gui_blocked. split; [exact Q'|]. split; [now apply H8|]. split.
    + rewrite H5, H4. cbn. unfold Conc.count_best in *. cbn [filter Conc.is_best]. lia.
    + apply H6. cbn. now left.
Qed.

(* ------------------------------------------------------------------ the induction over the input lines *)
Lemma refine_from lcs : forall e s e' out,
  Forall (fun lc => admitted (fst lc)) lcs ->
  en_state e <> ST_RUNNING ->
  run e lcs = (SEof e', out) ->
  SeqConc.quiet s -> Conc.c_gst s = abs_gst (en_state e) -> Conc.c_has_search s = has_game e ->
  Conc.c_lines s = abs_dialogue (map fst lcs) ->
  Conc.count_best (Conc.c_out s) = Conc.c_gos s ->
  let d := abs_dialogue (map fst lcs) in
  let k := length (Conc.c_searches s) in
  let s' := Conc.run Conc.repaired s (SeqConc.seq_sched (ready_e e) k d) in
  if SeqConc.seq_ok (ready_e e) d then agrees e' k out s s' else gui_blocked s'.
Proof.
  induction lcs as [|[l c] lcs IH]; intros e s e' out Hadm Hst Hrun Q Hg Hh Hl Hcb; cbn [Engine.run] in Hrun.
  - injection Hrun as <- <-. cbn [map SeqAbs.abs_dialogue flat_map SeqConc.seq_sched SeqConc.seq_ok] in *.
    rewrite ConcLemmas.run_nil. unfold agrees.
    split; [exact Q|]. split; [exact Hl|]. split; [exact Hg|]. split; [exact Hh|]. reflexivity.
  - destruct (handle e l c) as [e1 o1| | |] eqn:Eh; try discriminate.
    destruct (run e1 lcs) as [fin out'] eqn:Er. injection Hrun as -> <-.
    inversion Hadm as [|x y Hadl Hadm']; subst x y. cbn [fst] in Hadl.
    pose proof (handle_not_running K EC OC SC digit_tbl valid max_ms iters fuel e l c e1 o1 Hst Eh) as Hst1.
    cbn [map fst]. unfold SeqAbs.abs_dialogue in Hl |- *. cbn [map fst flat_map] in Hl |- *.
    fold (abs_dialogue (map fst lcs)) in Hl |- *.
    set (d2 := abs_dialogue (map fst lcs)) in *.
    cbn zeta. rewrite SeqConc.seq_sched_app, ConcLemmas.run_app.
    (* a stutter line *)
    assert (Hskip : forall o, abs_cmds l = [] -> (forall k r, abs_out k (o ++ r) = abs_out k r) -> e1 = e ->
              if SeqConc.seq_ok (ready_e e) ([] ++ d2)
              then agrees e' (length (Conc.c_searches s)) (o ++ out') s
                     (Conc.run Conc.repaired (Conc.run Conc.repaired s (SeqConc.seq_sched (ready_e e) (length (Conc.c_searches s)) []))
                        (SeqConc.seq_sched (fst (SeqConc.track (ready_e e) (length (Conc.c_searches s)) []))
                           (snd (SeqConc.track (ready_e e) (length (Conc.c_searches s)) [])) d2))
              else gui_blocked
                     (Conc.run Conc.repaired (Conc.run Conc.repaired s (SeqConc.seq_sched (ready_e e) (length (Conc.c_searches s)) []))
                        (SeqConc.seq_sched (fst (SeqConc.track (ready_e e) (length (Conc.c_searches s)) []))
                           (snd (SeqConc.track (ready_e e) (length (Conc.c_searches s)) [])) d2))).
    { intros o Ha Hsil He1. subst e1. rewrite Ha in Hl. cbn [app] in Hl.
      cbn [SeqConc.seq_sched SeqConc.track fst snd app]. rewrite ConcLemmas.run_nil.
      specialize (IH e s e' out' Hadm' Hst Er Q Hg Hh Hl Hcb). cbn zeta in IH. fold d2 in IH.
      destruct (SeqConc.seq_ok (ready_e e) d2); [|exact IH].
      unfold agrees in *. now rewrite Hsil. }
    unfold Engine.handle in Eh. unfold SeqAbs.admitted in Hadl.
    remember (abs_cmds l) as d1 eqn:Ed1. unfold SeqAbs.abs_cmds in Ed1.
    destruct (handle_line valid l) as [| | | |ts|ts| |] eqn:Ehl; try discriminate; try contradiction.
    + (* uci *)
      injection Eh as <- <-. subst d1. apply (Hskip [OUci]); auto.
    + (* isready *)
      injection Eh as <- <-. subst d1. cbn [app] in Hl.
      rewrite (SeqConc.run_ready s d2 _ _ Q Hl). cbn [SeqConc.track fst snd app SeqConc.seq_ok].
      specialize (IH e (SeqConc.do_ready s d2) e' out' Hadm' Hst Er (SeqConc.quiet_do_ready s d2 Q) Hg Hh eq_refl Hcb).
      cbn zeta in IH. fold d2 in IH.
      change (Conc.c_searches (SeqConc.do_ready s d2)) with (Conc.c_searches s) in IH.
      destruct (SeqConc.seq_ok (ready_e e) d2); [|exact IH].
      unfold agrees in *. destruct IH as (Q' & H1 & H2 & H3 & H4). repeat (split; [assumption|]).
      rewrite H4. cbn [abs_out rev SeqConc.do_ready Conc.emit Conc.c_out]. now rewrite <- app_assoc.
    + (* position *)
      destruct (new_position_abs K SC digit_tbl e ts e1 o1 Hst Eh) as [Hsil [[Ha ->]|(Ha & He1 & Hg1)]].
      * subst d1. rewrite Ha. apply (Hskip o1); auto.
      * subst d1. rewrite Ha in *. cbn [app] in Hl.
        rewrite (SeqConc.run_pos s d2 _ _ Q Hl Hcb). cbn [SeqConc.track fst snd app SeqConc.seq_ok].
        assert (Hr1 : ready_e e1 = true) by (unfold ready_e; now rewrite He1, Hg1).
        assert (Hg' : Conc.c_gst (SeqConc.do_pos s d2) = abs_gst (en_state e1)) by (rewrite He1; reflexivity).
        assert (Hh' : Conc.c_has_search (SeqConc.do_pos s d2) = has_game e1) by (rewrite Hg1; reflexivity).
        specialize (IH e1 (SeqConc.do_pos s d2) e' out' Hadm' Hst1 Er (SeqConc.quiet_do_pos s d2 Q) Hg' Hh' eq_refl Hcb).
        cbn zeta in IH. fold d2 in IH. rewrite Hr1 in IH.
        change (Conc.c_searches (SeqConc.do_pos s d2)) with (Conc.c_searches s) in IH.
        destruct (SeqConc.seq_ok true d2); [|exact IH].
        unfold agrees in *. destruct IH as (Q' & H1 & H2 & H3 & H4). repeat (split; [assumption|]).
        rewrite H4, Hsil. reflexivity.
    + (* go *)
      destruct (start_search_abs K EC OC SC max_ms iters fuel e ts c e1 o1 Eh)
        as [(Hre & -> & ->)|(Hre & He1 & Hg1 & Hbm)].
      * (* refused *)
        rewrite <- ConcLemmas.run_app, <- SeqConc.seq_sched_app, Hre.
        unfold abs_go in Ed1. destruct (infin ts); subst d1.
        -- apply (refused_tail e s true [Conc.CStop] lcs e' out' _ Q Hg Hh Hcb Hre Hst Hadm' Er); auto.
        -- apply (refused_tail e s false [] lcs e' out' _ Q Hg Hh Hcb Hre Hst Hadm' Er); auto.
      * (* accepted *)
        destruct (proj1 (ready_e_spec e s Hg Hh) Hre) as [Hps Hhs].
        assert (Hr1 : ready_e e1 = false) by (unfold ready_e; now rewrite He1).
        rewrite Hre. unfold abs_go in Ed1. destruct (infin ts); subst d1.
        -- cbn [app] in Hl.
           rewrite (SeqConc.run_go_stop s d2 _ Q Hl Hcb Hps Hhs eq_refl).
           cbn [SeqConc.track fst snd app SeqConc.seq_ok].
           assert (Hg' : Conc.c_gst (SeqConc.do_go_stop s d2) = abs_gst (en_state e1)) by (rewrite He1; reflexivity).
           assert (Hh' : Conc.c_has_search (SeqConc.do_go_stop s d2) = has_game e1)
             by (rewrite Hg1; cbn; exact Hhs).
           specialize (IH e1 (SeqConc.do_go_stop s d2) e' out' Hadm' Hst1 Er (SeqConc.quiet_do_go_stop s d2 Q) Hg' Hh'
                          eq_refl (SeqConc.count_best_do_go s d2 true Hcb)).
           cbn zeta in IH. fold d2 in IH. rewrite Hr1 in IH.
           replace (length (Conc.c_searches (SeqConc.do_go_stop s d2))) with (S (length (Conc.c_searches s))) in IH
             by (cbn; rewrite app_length; cbn; lia).
           destruct (SeqConc.seq_ok false d2); [|exact IH].
           unfold agrees in *. destruct IH as (Q' & H1 & H2 & H3 & H4). repeat (split; [assumption|]).
           rewrite H4, Hbm. cbn [rev SeqConc.do_go_stop SeqConc.do_go Conc.emit Conc.c_out]. now rewrite <- app_assoc.
        -- cbn [app] in Hl.
           rewrite (SeqConc.run_go s d2 _ Q Hl Hcb Hps Hhs eq_refl).
           cbn [SeqConc.track fst snd app SeqConc.seq_ok].
           assert (Hg' : Conc.c_gst (SeqConc.do_go s d2 false) = abs_gst (en_state e1)) by (rewrite He1; reflexivity).
           assert (Hh' : Conc.c_has_search (SeqConc.do_go s d2 false) = has_game e1)
             by (rewrite Hg1; cbn; exact Hhs).
           specialize (IH e1 (SeqConc.do_go s d2 false) e' out' Hadm' Hst1 Er (SeqConc.quiet_do_go s d2 false Q) Hg' Hh'
                          eq_refl (SeqConc.count_best_do_go s d2 false Hcb)).
           cbn zeta in IH. fold d2 in IH. rewrite Hr1 in IH.
           replace (length (Conc.c_searches (SeqConc.do_go s d2 false))) with (S (length (Conc.c_searches s))) in IH
             by (cbn; rewrite app_length; cbn; lia).
           destruct (SeqConc.seq_ok false d2); [|exact IH].
           unfold agrees in *. destruct IH as (Q' & H1 & H2 & H3 & H4). repeat (split; [assumption|]).
           rewrite H4, Hbm. cbn [rev SeqConc.do_go Conc.emit Conc.c_out]. now rewrite <- app_assoc.
    + (* stop *)
      injection Eh as <- <-. subst d1. cbn [app] in Hl.
      rewrite (SeqConc.run_stop s d2 _ _ Q Hl). cbn [SeqConc.track fst snd app SeqConc.seq_ok].
      specialize (IH e (SeqConc.do_stop s d2) e' out' Hadm' Hst Er (SeqConc.quiet_do_stop s d2 Q) Hg Hh eq_refl Hcb).
      cbn zeta in IH. fold d2 in IH.
      change (Conc.c_searches (SeqConc.do_stop s d2)) with (Conc.c_searches s) in IH.
      destruct (SeqConc.seq_ok (ready_e e) d2); [|exact IH].
      unfold agrees in *. destruct IH as (Q' & H1 & H2 & H3 & H4). repeat (split; [assumption|]).
      rewrite H4. reflexivity.
    + (* blank, unknown *)
      injection Eh as <- <-. subst d1. apply (Hskip []); auto.
Qed.

End Refine.
