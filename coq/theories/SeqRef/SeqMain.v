(* Sequential refinement, part 4: the main theorems.

   seq_refinement        the engine model's session and the LTS under the sequential schedule agree (outputs,
                         final state, everything consumed, nothing can move) when [seq_ok]: no position/go line
                         after a refused go - in particular for every well-formed dialogue ([seq_refinement_wf])
   seq_disagreement      otherwise they DISAGREE: the LTS never consumes the position/go line that follows the
                         refused go (its GUI waits for a bestmove), the engine model does
   seq_agreement_iff     hence: the LTS consumes the whole dialogue under the sequential schedule iff [seq_ok]
   engine_* corollaries  clauses of C06, proved there for ALL schedules of the LTS, transferred to the sessions of
                         the engine model
   remarks               ucinewgame has no counterpart; "wrong idle state" is never printed sequentially *)
From Coq Require Import NArith ZArith List Bool Lia.
From Clemens Require Import Base.Res Base.Word Base.Bytes Pos.Types Att.Attacks Pos.Position Pos.Fen
     Eval.Eval Search.TT Search.Ordering Search.Negamax Search.Time Uci.ParseGo Uci.Input Uci.Game Uci.Engine.
From Clemens Require Uci.Conc.
From Clemens.C06Conc Require ConcLemmas ConcTheorems.
From Clemens.SeqRef Require Import SeqAbs SeqRefine.
From Clemens.SeqRef Require SeqConc.
Import ListNotations.
Open Scope list_scope.
Open Scope nat_scope.

(* ------------------------------------------------------------------ counting, output side *)
Definition is_bestmove (o : oev) : bool := match o with OBestMove _ => true | _ => false end.
Definition is_readyok (o : oev) : bool := match o with OReadyOk => true | _ => false end.
Definition count_bestmoves (out : list oev) : nat := length (filter is_bestmove out).
Definition count_readyoks (out : list oev) : nat := length (filter is_readyok out).

Lemma count_best_abs_out out : forall k, Conc.count_best (abs_out k out) = count_bestmoves out.
Proof.
  unfold Conc.count_best, count_bestmoves.
  induction out as [|o out IH]; intros k; [reflexivity|].
  destruct o as [| |m| | | | |]; cbn [abs_out filter is_bestmove Conc.is_best length]; try apply IH.
  - destruct m; cbn [filter Conc.is_best length]; apply IH.
  - now rewrite IH.
Qed.

Lemma count_ready_abs_out out : forall k, ConcLemmas.count_ready (abs_out k out) = count_readyoks out.
Proof.
  unfold ConcLemmas.count_ready, count_readyoks.
  induction out as [|o out IH]; intros k; [reflexivity|].
  destruct o as [| |m| | | | |]; cbn [abs_out filter is_readyok ConcLemmas.is_ready length]; try apply IH.
  - now rewrite IH.
  - destruct m; cbn [filter ConcLemmas.is_ready length]; apply IH.
Qed.

Lemma filter_length_rev {A} (f : A -> bool) l : length (filter f (rev l)) = length (filter f l).
Proof.
  induction l as [|a l IH]; [reflexivity|]. cbn [rev]. rewrite filter_app, app_length, IH. cbn [filter].
  destruct (f a); cbn [length]; lia.
Qed.

Lemma in_abs_out_refuse_go out : forall k, In ONoPosition out -> In Conc.ERefuseGo (abs_out k out).
Proof.
  induction out as [|o out IH]; intros k H; [contradiction|]. destruct H as [->|H].
  - cbn. now left.
  - destruct o as [| |m| | | | |]; cbn [abs_out]; try (now apply IH); try (right; now apply IH).
    destruct m; cbn [abs_out]; try (now apply IH); right; now apply IH.
Qed.

Lemma in_abs_out_refuse_pos out : forall k, In (OPos PMWrongState) out -> In Conc.ERefusePos (abs_out k out).
Proof.
  induction out as [|o out IH]; intros k H; [contradiction|]. destruct H as [->|H].
  - cbn. now left.
  - destruct o as [| |m| | | | |]; cbn [abs_out]; try (now apply IH); try (right; now apply IH).
    destruct m; cbn [abs_out]; try (now apply IH); right; now apply IH.
Qed.

(* bestmove number j of the output is EBest (k + j): each index exactly once *)
Lemma best_occ_abs_out out : forall k j,
  ConcLemmas.best_occ j (abs_out k out) = if (k <=? j) && (j <? k + count_bestmoves out) then 1 else 0.
Proof.
  unfold ConcLemmas.best_occ, count_bestmoves.
  induction out as [|o out IH]; intros k j.
  - cbn [abs_out filter length].
    destruct (Nat.leb_spec k j), (Nat.ltb_spec j (k + 0)); cbn [andb]; try reflexivity; lia.
  - destruct o as [| |m| | | | |]; cbn [abs_out filter is_bestmove ConcLemmas.is_best_of length]; try apply IH.
    + destruct m; cbn [filter ConcLemmas.is_best_of length]; apply IH.
    + set (n := length (filter is_bestmove out)) in *.
      destruct (k =? j) eqn:E; cbn [length]; rewrite IH; fold n;
        [apply Nat.eqb_eq in E|apply Nat.eqb_neq in E];
        destruct (Nat.leb_spec (S k) j), (Nat.ltb_spec j (S k + n)), (Nat.leb_spec k j),
                 (Nat.ltb_spec j (k + S n)); cbn [andb]; try reflexivity; lia.
Qed.

Section Main.
Variable K : zkeys.
Variable EC : econsts.
Variable OC : oconsts.
Variable SC : sconsts.
Variable digit_tbl : list (N * N * N).
Variable valid : list token.
Variable max_ms : Z.
Variables iters fuel : nat.
Variable infin : list token -> bool.

Local Notation handle := (handle K EC OC SC digit_tbl valid max_ms iters fuel).
Local Notation run := (run K EC OC SC digit_tbl valid max_ms iters fuel).
Local Notation abs_cmds := (abs_cmds K SC digit_tbl valid infin).
Local Notation abs_dialogue := (abs_dialogue K SC digit_tbl valid infin).
Local Notation admitted := (admitted valid).

Lemma quiet_abs_state e d : en_state e <> ST_RUNNING -> SeqConc.quiet (abs_state e d).
Proof.
  intros H. constructor; try reflexivity.
  - now apply abs_gst_not_running.
  - intros t [].
Qed.

(* ================================================================== the main theorem *)
Theorem seq_refinement lcs e e' out :
  Forall (fun lc => admitted (fst lc)) lcs ->
  en_state e <> ST_RUNNING ->
  run e lcs = (SEof e', out) ->
  let d := abs_dialogue (map fst lcs) in
  SeqConc.seq_ok (ready_e e) d = true ->
  let s' := Conc.run Conc.repaired (abs_state e d) (SeqConc.seq_sched (ready_e e) 0 d) in
  (* the LTS has printed the abstraction of the engine's output (newest first) *)
  Conc.c_out s' = rev (abs_out 0 out) /\
  (* and is in the abstraction of the engine's state *)
  Conc.c_gst s' = abs_gst (en_state e') /\ Conc.c_has_search s' = has_game e' /\
  (* quiescent: all lines consumed, reader between lines, lock free, no goroutine alive, nothing can move *)
  Conc.c_lines s' = [] /\ Conc.c_rpc s' = None /\ Conc.c_gs s' = [] /\ Conc.c_lock s' = false /\
  (forall t, In t (Conc.c_searches s') -> Conc.s_pc t = Conc.SDone) /\
  Conc.stuck Conc.repaired s' = true.
Proof.
  intros Hadm Hst Hrun d Hok s'.
  pose proof (refine_from K EC OC SC digit_tbl valid max_ms iters fuel infin lcs e (abs_state e d) e' out
                Hadm Hst Hrun (quiet_abs_state e d Hst) eq_refl eq_refl eq_refl eq_refl) as H.
  cbn zeta in H. fold d in H. change (length (Conc.c_searches (abs_state e d))) with 0 in H.
  rewrite Hok in H. fold s' in H.
  destruct (agrees_stuck _ _ _ _ _ H) as [Hstuck _].
  destruct H as ([Hr Hg Hl Hs Hd] & H1 & H2 & H3 & H4).
  rewrite H4. cbn [abs_state Conc.c_out]. rewrite app_nil_r.
  split; [reflexivity|]. split; [exact H2|]. split; [exact H3|]. split; [exact H1|]. split; [exact Hr|].
  split; [exact Hg|]. split; [exact Hl|]. split; [exact Hd|exact Hstuck].
Qed.

(* in the shape of the task: lines and oracles given separately *)
Corollary seq_refinement_combine ls cs e e' out :
  length ls <= length cs ->
  Forall admitted ls ->
  en_state e <> ST_RUNNING ->
  run e (combine ls cs) = (SEof e', out) ->
  let d := abs_dialogue ls in
  SeqConc.seq_ok (ready_e e) d = true ->
  let s' := Conc.run Conc.repaired (abs_state e d) (SeqConc.seq_sched (ready_e e) 0 d) in
  Conc.c_out s' = rev (abs_out 0 out) /\
  Conc.c_gst s' = abs_gst (en_state e') /\ Conc.c_has_search s' = has_game e' /\
  Conc.c_lines s' = [] /\ Conc.c_rpc s' = None /\ Conc.c_gs s' = [] /\ Conc.c_lock s' = false /\
  (forall t, In t (Conc.c_searches s') -> Conc.s_pc t = Conc.SDone) /\
  Conc.stuck Conc.repaired s' = true.
Proof.
  intros Hlen Hadm Hst Hrun.
  assert (Hm : map fst (combine ls cs) = ls).
  { clear -Hlen. revert cs Hlen. induction ls as [|l ls IH]; intros [|c cs] H; cbn in *; try reflexivity; try lia.
    f_equal. apply IH. lia. }
  pose proof (seq_refinement (combine ls cs) e e' out) as H. rewrite Hm in H. apply H; auto.
  clear -Hadm Hm. rewrite <- Hm in Hadm. now apply (proj1 (Forall_map fst admitted (combine ls cs))).
Qed.

(* every well-formed dialogue (every go preceded by a position of its own; [ph]: the engine already is in
   that situation) is of this kind *)
Corollary seq_refinement_wf lcs e e' out ph :
  Forall (fun lc => admitted (fst lc)) lcs ->
  en_state e <> ST_RUNNING ->
  run e lcs = (SEof e', out) ->
  let d := abs_dialogue (map fst lcs) in
  (ph = true -> ready_e e = true) -> Conc.wf ph d = true ->
  let s' := Conc.run Conc.repaired (abs_state e d) (SeqConc.seq_sched (ready_e e) 0 d) in
  Conc.c_out s' = rev (abs_out 0 out) /\
  Conc.c_gst s' = abs_gst (en_state e') /\ Conc.c_has_search s' = has_game e' /\
  Conc.c_lines s' = [] /\ Conc.c_rpc s' = None /\ Conc.c_gs s' = [] /\ Conc.c_lock s' = false /\
  (forall t, In t (Conc.c_searches s') -> Conc.s_pc t = Conc.SDone) /\
  Conc.stuck Conc.repaired s' = true.
Proof.
  intros Hadm Hst Hrun d Hph Hwf. apply seq_refinement; auto.
  eapply SeqConc.wf_seq_ok; eauto.
Qed.

(* ================================================================== the disagreement *)
(* A position/go line after a refused go: the engine model reads and answers it (its session ends with all lines
   handled), the LTS never consumes it, under no continuation of the schedule whatsoever. *)
Theorem seq_disagreement lcs e e' out :
  Forall (fun lc => admitted (fst lc)) lcs ->
  en_state e <> ST_RUNNING ->
  run e lcs = (SEof e', out) ->
  let d := abs_dialogue (map fst lcs) in
  SeqConc.seq_ok (ready_e e) d = false ->
  let s' := Conc.run Conc.repaired (abs_state e d) (SeqConc.seq_sched (ready_e e) 0 d) in
  (exists c rest, Conc.c_lines s' = c :: rest /\ SeqConc.is_posgo c = true) /\
  In Conc.ERefuseGo (Conc.c_out s') /\
  Conc.count_best (Conc.c_out s') <> Conc.c_gos s' /\
  Conc.stuck Conc.repaired s' = true /\
  forall sched, Conc.run Conc.repaired s' sched = s'.
Proof.
  intros Hadm Hst Hrun d Hok s'.
  pose proof (refine_from K EC OC SC digit_tbl valid max_ms iters fuel infin lcs e (abs_state e d) e' out
                Hadm Hst Hrun (quiet_abs_state e d Hst) eq_refl eq_refl eq_refl eq_refl) as H.
  cbn zeta in H. fold d in H. change (length (Conc.c_searches (abs_state e d))) with 0 in H.
  rewrite Hok in H. fold s' in H.
  destruct (gui_blocked_forever _ H) as [Hstuck Hfix].
  destruct H as (_ & H1 & H2 & H3). auto.
Qed.

Corollary seq_agreement_iff lcs e e' out :
  Forall (fun lc => admitted (fst lc)) lcs ->
  en_state e <> ST_RUNNING ->
  run e lcs = (SEof e', out) ->
  let d := abs_dialogue (map fst lcs) in
  let s' := Conc.run Conc.repaired (abs_state e d) (SeqConc.seq_sched (ready_e e) 0 d) in
  Conc.c_lines s' = [] <-> SeqConc.seq_ok (ready_e e) d = true.
Proof.
  intros Hadm Hst Hrun d s'. destruct (SeqConc.seq_ok (ready_e e) d) eqn:E.
  - split; auto. intros _. now apply (seq_refinement lcs e e' out Hadm Hst Hrun E).
  - split; [|discriminate]. intros H.
    destruct (seq_disagreement lcs e e' out Hadm Hst Hrun E) as ((c & rest & Hl & _) & _).
    fold d s' in Hl. congruence.
Qed.

(* ================================================================== C06 clauses for the engine model *)
(* the dialogue of a session always stops its infinite searches (by construction of [abs_go]) *)
Lemma stopped_abs_dialogue ls : Conc.stopped false (abs_dialogue ls) = true.
Proof.
  induction ls as [|l ls IH]; [reflexivity|].
  unfold SeqAbs.abs_dialogue. cbn [flat_map]. fold (abs_dialogue ls).
  unfold SeqAbs.abs_cmds. destruct (handle_line valid l) as [| | | |ts|ts| |]; cbn [app Conc.stopped]; auto.
  - unfold abs_position. destruct ts as [|t ts]; [exact IH|].
    destruct (new_position_cmd K digit_tbl (sc_hist_size SC) (t :: ts)); cbn [app Conc.stopped negb andb]; auto.
  - unfold abs_go. destruct (infin ts); cbn [app Conc.stopped negb andb]; auto.
Qed.

Definition is_go_line (l : bytes) : bool := match handle_line valid l with CGo _ => true | _ => false end.
Definition is_isready_line (l : bytes) : bool := match handle_line valid l with CIsReady => true | _ => false end.

Lemma count_cgos_abs_dialogue ls : ConcLemmas.count_cgos (abs_dialogue ls) = length (filter is_go_line ls).
Proof.
  unfold ConcLemmas.count_cgos. induction ls as [|l ls IH]; [reflexivity|].
  unfold SeqAbs.abs_dialogue. cbn [flat_map filter]. fold (abs_dialogue ls). rewrite filter_app, app_length, IH.
  unfold SeqAbs.abs_cmds, is_go_line. destruct (handle_line valid l) as [| | | |ts|ts| |]; try reflexivity.
  - unfold abs_position. destruct ts as [|t ts]; [reflexivity|].
    destruct (new_position_cmd K digit_tbl (sc_hist_size SC) (t :: ts)); reflexivity.
  - unfold abs_go. destruct (infin ts); reflexivity.
Qed.

Lemma count_creadys_abs_dialogue ls :
  ConcLemmas.count_creadys (abs_dialogue ls) = length (filter is_isready_line ls).
Proof.
  unfold ConcLemmas.count_creadys. induction ls as [|l ls IH]; [reflexivity|].
  unfold SeqAbs.abs_dialogue. cbn [flat_map filter]. fold (abs_dialogue ls). rewrite filter_app, app_length, IH.
  unfold SeqAbs.abs_cmds, is_isready_line. destruct (handle_line valid l) as [| | | |ts|ts| |]; try reflexivity.
  - unfold abs_position. destruct ts as [|t ts]; [reflexivity|].
    destruct (new_position_cmd K digit_tbl (sc_hist_size SC) (t :: ts)); reflexivity.
  - unfold abs_go. destruct (infin ts); reflexivity.
Qed.

(* an engine that has no game yet: its abstraction is the initial state of the LTS *)
Definition fresh (e : engine) : Prop := en_state e = ST_IDLE /\ en_game e = None.

Lemma abs_state_fresh e d : fresh e -> abs_state e d = Conc.init d /\ ready_e e = false /\ en_state e <> ST_RUNNING.
Proof.
  intros [H1 H2]. unfold abs_state, ready_e, has_game. rewrite H1, H2. repeat split. discriminate.
Qed.

(* C06_no_refusal, transferred: in a well-formed session no go and no position is ever refused *)
Theorem engine_no_refusal lcs e e' out :
  Forall (fun lc => admitted (fst lc)) lcs -> fresh e ->
  run e lcs = (SEof e', out) ->
  Conc.wf false (abs_dialogue (map fst lcs)) = true ->
  ~ In ONoPosition out /\ ~ In (OPos PMWrongState) out.
Proof.
  intros Hadm Hf Hrun Hwf. destruct (abs_state_fresh e (abs_dialogue (map fst lcs)) Hf) as (Hinit & Hre & Hst).
  destruct (seq_refinement_wf lcs e e' out false Hadm Hst Hrun (fun H => False_ind _ (diff_false_true H)) Hwf)
    as (Hout & _).
  rewrite Hinit in Hout.
  destruct (ConcTheorems.no_refusal _ (SeqConc.seq_sched (ready_e e) 0 (abs_dialogue (map fst lcs))) Hwf)
    as [Hp Hg].
  cbn zeta in Hp, Hg. rewrite Hout in Hp, Hg. split; intros H.
  - apply Hg. apply -> in_rev. now apply in_abs_out_refuse_go.
  - apply Hp. apply -> in_rev. now apply in_abs_out_refuse_pos.
Qed.

(* C06_exactly_one_when_quiescent, transferred: every go line is answered by exactly one bestmove, every isready
   by one readyok, and the bestmoves carry the numbers 0 .. n-1 of their go's once each *)
Theorem engine_exactly_one_bestmove lcs e e' out :
  Forall (fun lc => admitted (fst lc)) lcs -> fresh e ->
  run e lcs = (SEof e', out) ->
  Conc.wf false (abs_dialogue (map fst lcs)) = true ->
  count_bestmoves out = length (filter is_go_line (map fst lcs)) /\
  count_readyoks out = length (filter is_isready_line (map fst lcs)) /\
  forall k, k < length (filter is_go_line (map fst lcs)) -> ConcLemmas.best_occ k (abs_out 0 out) = 1.
Proof.
  intros Hadm Hf Hrun Hwf. set (d := abs_dialogue (map fst lcs)) in *.
  destruct (abs_state_fresh e d Hf) as (Hinit & Hre & Hst).
  destruct (seq_refinement_wf lcs e e' out false Hadm Hst Hrun (fun H => False_ind _ (diff_false_true H)) Hwf)
    as (Hout & _ & _ & _ & _ & _ & _ & _ & Hstuck).
  fold d in Hout, Hstuck. rewrite Hinit in Hout, Hstuck.
  destruct (ConcTheorems.exactly_one_when_quiescent d _ Hwf (stopped_abs_dialogue _) Hstuck)
    as (_ & _ & _ & _ & Hgos & Hocc & Hcb & Hrd).
  rewrite Hout in Hcb, Hrd, Hocc. rewrite Hgos in Hcb, Hocc.
  unfold Conc.count_best in Hcb. rewrite filter_length_rev in Hcb. fold (Conc.count_best (abs_out 0 out)) in Hcb.
  unfold ConcLemmas.count_ready in Hrd. rewrite filter_length_rev in Hrd.
  fold (ConcLemmas.count_ready (abs_out 0 out)) in Hrd.
  rewrite count_best_abs_out in Hcb. rewrite count_ready_abs_out in Hrd.
  unfold d in Hcb, Hrd, Hocc. rewrite count_cgos_abs_dialogue in Hcb, Hocc. rewrite count_creadys_abs_dialogue in Hrd.
  split; [exact Hcb|]. split; [exact Hrd|].
  intros k Hk. specialize (Hocc k Hk). unfold ConcLemmas.best_occ in *. now rewrite filter_length_rev in Hocc.
Qed.

(* ================================================================== remarks *)
(* "wrong idle state" (ERefusePos) is never printed in a sequential session: the state is not RUNNING between
   two lines *)
Theorem sequential_never_refuses_position lcs : forall e e' out,
  en_state e <> ST_RUNNING -> run e lcs = (SEof e', out) -> ~ In (OPos PMWrongState) out.
Proof.
  induction lcs as [|[l c] lcs IH]; intros e e' out Hst H; cbn [Engine.run] in H.
  - injection H as _ <-. intros [].
  - destruct (handle e l c) as [e1 o1| | |] eqn:Eh; try discriminate.
    destruct (run e1 lcs) as [fin out'] eqn:Er. injection H as -> <-.
    pose proof (handle_not_running K EC OC SC digit_tbl valid max_ms iters fuel e l c e1 o1 Hst Eh) as Hst1.
    intros Hin. apply in_app_or in Hin as [Hin|Hin]; [|exact (IH _ _ _ Hst1 Er Hin)].
    unfold Engine.handle in Eh. destruct (handle_line valid l) as [| | | |ts|ts| |]; try discriminate;
      try (injection Eh as <- <-; destruct Hin as [Hin|[]]; discriminate);
      try (injection Eh as <- <-; destruct Hin).
    + unfold Engine.new_position in Eh. apply N.eqb_neq in Hst. rewrite Hst in Eh.
      destruct ts as [|t ts]; [injection Eh as <- <-; destruct Hin as [Hin|[]]; discriminate|].
      destruct (new_position_cmd K digit_tbl (sc_hist_size SC) (t :: ts)); try discriminate.
      * match type of Eh with (if ?b then _ else _) = _ => destruct b end; injection Eh as <- <-;
          destruct Hin as [Hin|[]]; discriminate.
      * injection Eh as <- <-. destruct Hin.
      * injection Eh as <- <-. destruct Hin as [Hin|[]]; discriminate.
    + destruct (start_search_abs K EC OC SC max_ms iters fuel e ts c e1 o1 Eh) as [(_ & _ & ->)|(_ & _ & _ & Hbm)].
      * destruct Hin as [Hin|[]]; discriminate.
      * apply (in_abs_out_refuse_pos _ 0) in Hin. specialize (Hbm 0 []). rewrite app_nil_r in Hbm.
        rewrite Hbm in Hin. destruct Hin as [Hin|[]]; discriminate.
Qed.

(* ucinewgame: the engine model forgets its search object; no step of the LTS ever does *)
Theorem newgame_has_no_counterpart :
  (forall e line c, handle_line valid line = CNewGame ->
     exists e', handle e line c = EOk e' [] /\ has_game e' = false /\ en_state e' = ST_IDLE) /\
  (forall v s l s', Conc.step v s l = Some s' -> Conc.c_has_search s = true -> Conc.c_has_search s' = true).
Proof.
  split.
  - intros e line c H. unfold Engine.handle. rewrite H. eexists. split; [reflexivity|]. split; reflexivity.
  - intros v s l s' Hs Hh.
    assert (Hhs : forall s0 h r, Conc.hstep v s0 h = Some r -> Conc.c_has_search s0 = true ->
                                 Conc.c_has_search (fst r) = true).
    { intros s0 h r H0 H1. unfold Conc.hstep in H0.
      destruct h as [c0|inf|inf| |].
      - destruct (Conc.c_lock s0); [discriminate|]. destruct c0 as [|inf| |].
        + destruct (Conc.gst_eqb (Conc.c_gst s0) Conc.RUNNING); injection H0 as <-; cbn; auto.
        + injection H0 as <-. cbn; auto.
        + cbn [SeqConc.is_posgo] in *. destruct (Conc.gst_eqb _ _); injection H0 as <-; cbn.
          * unfold Conc.cancel_last. cbn. destruct (rev (Conc.c_searches s0)); cbn; auto.
          * auto.
        + injection H0 as <-. cbn; auto.
      - destruct (negb _ || negb _); injection H0 as <-; cbn; auto. destruct (Conc.v_running_first v); cbn; auto.
      - injection H0 as <-. cbn; auto.
      - injection H0 as <-. destruct (Conc.v_running_first v); cbn; auto.
      - injection H0 as <-. cbn; auto. }
    destruct l as [|i|k]; cbn [Conc.step] in Hs.
    + unfold Conc.rstep in Hs. destruct (Conc.c_rpc s) as [h|].
      * destruct (Conc.hstep v s h) as [[s1 h1]|] eqn:E; [|discriminate]. injection Hs as <-.
        apply (Hhs _ _ _ E Hh).
      * destruct (Conc.c_lines s) as [|c0 rest]; [discriminate|].
        destruct (Conc.gui_ready s c0); [|discriminate].
        destruct c0 as [|inf| |]; try (injection Hs as <-; cbn; auto).
        destruct (Conc.v_sync_go v); injection Hs as <-; cbn; auto.
    + unfold Conc.gstep in Hs. destruct (nth_error (Conc.c_gs s) i) as [[h|]|]; try discriminate.
      destruct (Conc.hstep v s h) as [[s1 h1]|] eqn:E; [|discriminate]. injection Hs as <-.
      apply (Hhs _ _ _ E Hh).
    + unfold Conc.sstep in Hs. destruct (nth_error (Conc.c_searches s) k) as [t|]; [|discriminate].
      destruct (Conc.s_pc t); try discriminate.
      * injection Hs as <-. cbn; auto.
      * destruct (negb (Conc.s_inf t) || Conc.s_cancelled t); [|discriminate].
        injection Hs as <-. destruct (Conc.v_idle_first v); cbn; auto.
      * injection Hs as <-. destruct (Conc.v_idle_first v); cbn; auto.
      * injection Hs as <-. cbn; auto.
Qed.

End Main.
