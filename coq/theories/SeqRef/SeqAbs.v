(* Sequential refinement, part 2: the abstraction from the sequential whole-engine model (Uci/Engine.v) to the
   labelled transition system (Uci/Conc.v), and what one input line does to the engine model in terms of that
   abstraction.

   lines    isready -> CReady, stop -> CStop, position (a search object is created: NPSet / NPMoveError) -> CPos,
            go -> CGo false, or - when [infin] says so - the pair CGo true; CStop (see below);
            uci, blank and unknown lines, and position lines that create no search object (no tokens, short or
            broken FEN: a message is printed, nothing else happens) -> no command at all: they are stutter lines.
            ucinewgame is not in the alphabet of the LTS (it destroys the search object: no transition of the LTS
            does that, see SeqRefine.newgame_has_no_counterpart) and quit ends the process.
   go       In the engine model a search ends because the oracle (a stop or the deadline) or its depth limit ends
            it; the model has no separate `stop` line for that.  In the LTS a finite search returns by itself and
            an infinite one only after a `stop` has cancelled it.  Both readings are covered by the parameter
            [infin : tokens of the go line -> bool]:
              infin = fun _ => false         every go whose search returns is a finite search      ([abs_finite])
              infin = go_line_infinite       `go infinite` (and the bare `go`) is an infinite search that the
                                             GUI stops: the dialogue of the LTS gets the CStop that the oracle
                                             of the engine model stands for                          ([abs_stop])
   outputs  readyok -> EReady, bestmove -> EBest k (k counts the accepted go's from [k0] on, as Conc numbers the
            search goroutines), "wrong idle state" -> ERefusePos, "no position is set" -> ERefuseGo, every other
            line (info ..., the answer to uci, the other position messages) -> nothing.
   state    en_state 0/1/2 -> IDLE/POSSET/RUNNING (any other number behaves as IDLE does), en_game <> None ->
            c_has_search; lock free, reader between two lines, no goroutine alive. *)
From Coq Require Import NArith ZArith List Bool Lia.
From Clemens Require Import Base.Res Base.Word Base.Bytes Pos.Types Att.Attacks Pos.Position Pos.Fen
     Eval.Eval Search.TT Search.Ordering Search.Negamax Search.Time Uci.ParseGo Uci.Input Uci.Game Uci.Engine.
From Clemens Require Uci.Conc.
From Clemens.C06Conc Require ConcLemmas.
From Clemens.SeqRef Require SeqConc.
Import ListNotations.
Open Scope list_scope.

(* ------------------------------------------------------------------ outputs *)
Fixpoint abs_out (k : nat) (out : list oev) : list Conc.event :=
  match out with
  | [] => []
  | OReadyOk :: r => Conc.EReady :: abs_out k r
  | OBestMove _ :: r => Conc.EBest k :: abs_out (S k) r
  | OPos PMWrongState :: r => Conc.ERefusePos :: abs_out k r
  | ONoPosition :: r => Conc.ERefuseGo :: abs_out k r
  | _ :: r => abs_out k r
  end.

(* lines without a counterpart in the LTS *)
Definition silent (o : oev) : bool :=
  match o with
  | OReadyOk | OBestMove _ | OPos PMWrongState | ONoPosition => false
  | _ => true
  end.

Lemma abs_out_silent o : forall k r, forallb silent o = true -> abs_out k (o ++ r) = abs_out k r.
Proof.
  induction o as [|x o IH]; intros k r H; [reflexivity|].
  cbn [forallb] in H. apply andb_true_iff in H as [Hx Ho]. cbn [app].
  destruct x as [| |m| | | | |]; try discriminate; try (cbn [abs_out]; now apply IH).
  destruct m; try discriminate; cbn [abs_out]; now apply IH.
Qed.

Lemma forallb_silent_map_go (evs : list ParseGo.event) : forallb silent (map OGo evs) = true.
Proof. induction evs; cbn; auto. Qed.
Lemma forallb_silent_map_search (evs : list sevent) : forallb silent (map OSearch evs) = true.
Proof. induction evs; cbn; auto. Qed.

(* ------------------------------------------------------------------ states *)
Definition abs_gst (n : N) : Conc.gstate :=
  if (n =? ST_POSITION_SET)%N then Conc.POSSET else if (n =? ST_RUNNING)%N then Conc.RUNNING else Conc.IDLE.

Definition has_game (e : engine) : bool := match en_game e with Some _ => true | None => false end.

(* a go will be accepted *)
Definition ready_e (e : engine) : bool := (en_state e =? ST_POSITION_SET)%N && has_game e.

(* the state of the LTS that stands for the engine [e] about to read the dialogue [d]: nothing consumed, nothing
   printed, no goroutine yet *)
Definition abs_state (e : engine) (d : list Conc.cmd) : Conc.cstate :=
  {| Conc.c_lines := d; Conc.c_gos := 0; Conc.c_phase := ready_e e; Conc.c_rpc := None; Conc.c_gs := [];
     Conc.c_lock := false; Conc.c_gst := abs_gst (en_state e); Conc.c_has_search := has_game e;
     Conc.c_searches := []; Conc.c_out := []; Conc.c_stops := [] |}.

Lemma abs_state_init tt0 d : abs_state (engine_init tt0) d = Conc.init d.
Proof. reflexivity. Qed.

Lemma abs_gst_not_running n : n <> ST_RUNNING -> abs_gst n <> Conc.RUNNING.
Proof.
  intros H. unfold abs_gst. destruct (n =? ST_POSITION_SET)%N; [discriminate|].
  destruct (n =? ST_RUNNING)%N eqn:E; [|discriminate]. apply N.eqb_eq in E. contradiction.
Qed.

Lemma abs_gst_posset n : abs_gst n = Conc.POSSET <-> (n =? ST_POSITION_SET)%N = true.
Proof.
  unfold abs_gst. destruct (n =? ST_POSITION_SET)%N; [tauto|].
  destruct (n =? ST_RUNNING)%N; split; discriminate.
Qed.

Section Abs.
Variable K : zkeys.
Variable EC : econsts.
Variable OC : oconsts.
Variable SC : sconsts.
Variable digit_tbl : list (N * N * N).
Variable valid : list token.
Variable max_ms : Z.
Variables iters fuel : nat.
Variable infin : list token -> bool.

Local Notation handle := (handle K EC OC SC digit_tbl valid max_ms iters fuel).
Local Notation run := (run K EC OC SC digit_tbl valid max_ms iters fuel).
Local Notation new_position := (new_position K SC digit_tbl).
Local Notation start_search := (start_search K EC OC SC max_ms iters fuel).

(* ------------------------------------------------------------------ lines *)
Definition abs_position (ts : list bytes) : list Conc.cmd :=
  match ts with
  | [] => []
  | _ :: _ =>
    match new_position_cmd K digit_tbl (sc_hist_size SC) ts with
    | NPSet _ | NPMoveError _ => [Conc.CPos]
    | _ => []
    end
  end.

Definition abs_go (ts : list token) : list Conc.cmd :=
  if infin ts then [Conc.CGo true; Conc.CStop] else [Conc.CGo false].

Definition abs_cmds (line : bytes) : list Conc.cmd :=
  match handle_line valid line with
  | CIsReady => [Conc.CReady]
  | CStop => [Conc.CStop]
  | CGo ts => abs_go ts
  | CPosition ts => abs_position ts
  | _ => []
  end.

Definition abs_dialogue (ls : list bytes) : list Conc.cmd := flat_map abs_cmds ls.

(* the lines that are admitted: everything but ucinewgame *)
Definition admitted (line : bytes) : Prop := handle_line valid line <> CNewGame.

(* ------------------------------------------------------------------ one line, engine side *)
Lemma new_position_abs e ts e' o :
  en_state e <> ST_RUNNING -> new_position e ts = EOk e' o ->
  (forall k r, abs_out k (o ++ r) = abs_out k r) /\
  ( (abs_position ts = [] /\ e' = e) \/
    (abs_position ts = [Conc.CPos] /\ en_state e' = ST_POSITION_SET /\ has_game e' = true) ).
Proof.
  intros Hst H. unfold Engine.new_position in H. apply N.eqb_neq in Hst. rewrite Hst in H.
  unfold abs_position. destruct ts as [|t ts]; [injection H as <- <-; split; [reflexivity|now left]|].
  destruct (new_position_cmd K digit_tbl (sc_hist_size SC) (t :: ts)) as [b|g|g|].
  - destruct (bytes_eqb t w_fen && (N.of_nat (length (t :: ts)) <? 7)%N); injection H as <- <-;
      (split; [reflexivity|now left]).
  - injection H as <- <-. split; [reflexivity|right]. now repeat split.
  - injection H as <- <-. split; [reflexivity|right]. now repeat split.
  - discriminate.
Qed.

Lemma start_search_abs e ts c e' o :
  start_search e ts c = EOk e' o ->
  (ready_e e = false /\ e' = e /\ o = [ONoPosition]) \/
  (ready_e e = true /\ en_state e' = ST_IDLE /\ has_game e' = true /\
   forall k r, abs_out k (o ++ r) = Conc.EBest k :: abs_out (S k) r).
Proof.
  intros H. unfold Engine.start_search in H. unfold ready_e, has_game.
  destruct (en_game e) as [g|]; [|left; injection H as <- <-; now rewrite andb_false_r].
  destruct (en_state e =? ST_POSITION_SET)%N; cbn [negb andb] in *;
    [|left; injection H as <- <-; auto].
  destruct (parse_go ts) as [[sp evs]| |]; try discriminate.
  match type of H with context [search ?a ?b ?c ?d ?e ?f ?g ?h ?i ?j] =>
    destruct (search a b c d e f g h i j) as [r s'] end.
  destruct r as [m| | |]; try discriminate. injection H as <- <-.
  right. repeat split. intros k r.
  rewrite <- !app_assoc. rewrite abs_out_silent by apply forallb_silent_map_go.
  rewrite abs_out_silent by (destruct (sp_infinite sp); reflexivity).
  rewrite abs_out_silent by apply forallb_silent_map_search. reflexivity.
Qed.

(* the engine never is RUNNING between two lines *)
Lemma handle_not_running e line c e' o :
  en_state e <> ST_RUNNING -> handle e line c = EOk e' o -> en_state e' <> ST_RUNNING.
Proof.
  intros Hst H. unfold Engine.handle in H. destruct (handle_line valid line) as [| | | |ts|ts| |];
    try (injection H as <- <-; assumption); try discriminate.
  - injection H as <- <-. discriminate.
  - destruct (new_position_abs _ _ _ _ Hst H) as [_ [[_ ->]|(_ & -> & _)]]; [assumption|discriminate].
  - destruct (start_search_abs _ _ _ _ _ H) as [(_ & -> & _)|(_ & -> & _)]; [assumption|discriminate].
Qed.

Lemma run_not_running lcs : forall e e' out,
  en_state e <> ST_RUNNING -> run e lcs = (SEof e', out) -> en_state e' <> ST_RUNNING.
Proof.
  induction lcs as [|[l c] lcs IH]; intros e e' out Hst H; cbn [Engine.run] in H.
  - now injection H as <- _.
  - destruct (handle e l c) as [e1 o1| | |] eqn:Eh; try discriminate.
    destruct (run e1 lcs) as [fin out'] eqn:Er. injection H as -> _.
    eapply IH; [|exact Er]. eapply handle_not_running; eauto.
Qed.

(* lines without position/go do not touch the state and print only readyok (among the lines the LTS knows) *)
Lemma run_no_posgo lcs : forall e e' out,
  Forall (fun lc => admitted (fst lc)) lcs -> en_state e <> ST_RUNNING ->
  run e lcs = (SEof e', out) ->
  SeqConc.no_posgo (abs_dialogue (map fst lcs)) = true ->
  e' = e /\ forall k, abs_out k out = repeat Conc.EReady (ConcLemmas.count_creadys (abs_dialogue (map fst lcs))).
Proof.
  induction lcs as [|[l c] lcs IH]; intros e e' out Hadm Hst H Hnp; cbn [Engine.run] in H.
  - injection H as <- <-. now split.
  - destruct (handle e l c) as [e1 o1| | |] eqn:Eh; try discriminate.
    destruct (run e1 lcs) as [fin out'] eqn:Er. injection H as -> <-.
    inversion Hadm as [|x y Hl Hadm']; subst. cbn [fst] in Hl.
    cbn [map abs_dialogue flat_map fst] in Hnp |- *. fold (abs_dialogue (map fst lcs)) in Hnp |- *.
    unfold SeqConc.no_posgo in Hnp. rewrite forallb_app in Hnp. apply andb_true_iff in Hnp as [Hn1 Hn2].
    unfold ConcLemmas.count_creadys. rewrite filter_app, app_length.
    unfold Engine.handle in Eh. unfold abs_cmds, admitted in *.
    destruct (handle_line valid l) as [| | | |ts|ts| |]; try discriminate; try contradiction.
    + injection Eh as <- <-. destruct (IH _ _ _ Hadm' Hst Er Hn2) as [-> Ho]. split; [reflexivity|].
      intros k. cbn [app abs_out filter length plus]. apply Ho.
    + injection Eh as <- <-. destruct (IH _ _ _ Hadm' Hst Er Hn2) as [-> Ho]. split; [reflexivity|].
      intros k. cbn [app abs_out filter ConcLemmas.is_cready length plus repeat]. now rewrite Ho.
    + destruct (new_position_abs _ _ _ _ Hst Eh) as [Hsil [[Ha ->]|(Ha & _)]].
      * destruct (IH _ _ _ Hadm' Hst Er Hn2) as [-> Ho]. split; [reflexivity|].
        intros k. rewrite Hsil, Ha. cbn [filter length plus]. apply Ho.
      * rewrite Ha in Hn1. discriminate.
    + unfold abs_go in Hn1. destruct (infin ts); discriminate.
    + injection Eh as <- <-. destruct (IH _ _ _ Hadm' Hst Er Hn2) as [-> Ho]. split; [reflexivity|].
      intros k. cbn [app abs_out filter ConcLemmas.is_cready length plus]. apply Ho.
    + injection Eh as <- <-. destruct (IH _ _ _ Hadm' Hst Er Hn2) as [-> Ho]. split; [reflexivity|].
      intros k. cbn [app abs_out filter length plus]. apply Ho.
Qed.

End Abs.
