(* C15: mobility and king-zone attacks. Crude but sufficient: a piece reaches at most 64 squares and
   hits at most the 8 squares around the enemy king; at most 16 men per side. *)
From Coq Require Import NArith ZArith List Bool Lia ZifyBool ZifyN ZifyNat.
From Clemens Require Import Base.Res Base.Word Pos.Types Att.Attacks Pos.Position Pos.Inv
  Pos.CapturesProofs Pos.ZobristProofs Eval.SeeBits Eval.Eval Eval.SeeInst.
From ClemensGen Require Import GoConsts.
From Clemens.C15Bound Require Import Material Counts EvalZ Arith16 Tables StagePst StageBase.
Import ListNotations.
Open Scope Z_scope.

Lemma not64_lt x : (not64 x < two64)%N.
Proof. apply lt_two64_of_bits. apply bnd_not64. Qed.

Lemma add16_id a b : -32768 <= a + b <= 32767 -> add16 a b = a + b.
Proof. intros H. unfold add16. now apply wrap16_id. Qed.

(* ---- the loop over the squares of one piece type ---- *)
Lemma mob_inner_sim p we t dest ks ka : pc dest <= 64 -> pc ks <= 8 -> 0 <= ka <= 4 ->
  forall l v, 0 <= v -> v + Z.of_nat (length l) * 96 <= 32767 ->
  fold_left (fun v sq =>
          let mob := N.land (mobility_of p we t sq) dest in
          let v := add16 v (wrap16 (pc mob)) in
          add16 v (wrap16 (ka * pc (N.land mob ks)))) l v =
  fold_left (fun v sq =>
          let mob := N.land (mobility_of p we t sq) dest in
          let v := v + pc mob in
          v + ka * pc (N.land mob ks)) l v /\
  v <= fold_left (fun v sq =>
          let mob := N.land (mobility_of p we t sq) dest in
          let v := v + pc mob in
          v + ka * pc (N.land mob ks)) l v <= v + Z.of_nat (length l) * 96.
Proof.
  intros Hd Hk Hka l. induction l as [|a l IH]; intros v Hv Hmax.
  - cbn [fold_left length]. split; [reflexivity|lia].
  - cbn [fold_left]. cbv zeta.
    cbn [length] in Hmax. rewrite Nat2Z.inj_succ in Hmax.
    set (mob := N.land (mobility_of p we t a) dest).
    pose proof (pc_nonneg mob). pose proof (pc_land_le_r (mobility_of p we t a) dest). fold mob in H0.
    pose proof (pc_nonneg (N.land mob ks)). pose proof (pc_land_le_r mob ks).
    pose proof (mul_bound2 ka (pc (N.land mob ks)) 0 4 8 ltac:(lia) ltac:(lia) ltac:(lia)).
    rewrite (wrap16_id (pc mob)) by lia. rewrite (wrap16_id (ka * pc (N.land mob ks))) by lia.
    rewrite (add16_id v (pc mob)) by lia. rewrite (add16_id (v + pc mob) (ka * pc (N.land mob ks))) by lia.
    destruct (IH (v + pc mob + ka * pc (N.land mob ks)) ltac:(lia) ltac:(lia)) as [E B].
    split; [exact E|].
    match type of B with _ <= ?X <= _ => change (v <= X <= v + Z.of_nat (S (length l)) * 96) end.
    rewrite Nat2Z.inj_succ. lia.
Qed.

(* ---- one piece type ---- *)
Definition mob_step (C : econsts) (p : position) (we dest ks : N) (acc : res Z) (t : N) : res Z :=
    v <- acc ;;
    pieces <- bbr p we t ;;
    ka <- nthz (ec_king_att C) t ;;
    Ok (fold_left (fun v sq =>
          let mob := N.land (mobility_of p we t sq) dest in
          let v := add16 v (wrap16 (pc mob)) in
          add16 v (wrap16 (ka * pc (N.land mob ks))))
        (bits pieces) v).
Definition mob_step_Z (C : econsts) (p : position) (we dest ks : N) (acc : res Z) (t : N) : res Z :=
    v <- acc ;;
    pieces <- bbr p we t ;;
    ka <- nthz (ec_king_att C) t ;;
    Ok (fold_left (fun v sq =>
          let mob := N.land (mobility_of p we t sq) dest in
          let v := v + pc mob in
          v + ka * pc (N.land mob ks))
        (bits pieces) v).

Lemma king_att_range t : (t < 6)%N -> exists ka, nthz (ec_king_att go_econsts) t = Ok ka /\ 0 <= ka <= 4.
Proof.
  intros Ht.
  assert (t = 0 \/ t = 1 \/ t = 2 \/ t = 3 \/ t = 4 \/ t = 5)%N as [ -> | [ -> | [ -> | [ -> | [ -> | -> ]]]]] by lia;
  eexists; (split; [reflexivity|lia]).
Qed.

Lemma mob_step_sim p we dest ks t v : Inv p -> material_ok p = true -> (we < 2)%N -> (t < 6)%N ->
  pc dest <= 64 -> pc ks <= 8 -> 0 <= v <= 20000 ->
  exists v', mob_step go_econsts p we dest ks (Ok v) t = Ok v' /\
             mob_step_Z go_econsts p we dest ks (Ok v) t = Ok v' /\
             v <= v' <= v + bbc p we t * 96.
Proof.
  intros I M Hwe Ht Hd Hk Hv. pose proof (bbc_le10 p I M we t Hwe Ht) as Cn.
  destruct (king_att_range t Ht) as (ka & Eka & Bka).
  unfold mob_step, mob_step_Z. cbn [bind]. rewrite (nice_bb p I we t Hwe Ht). cbn [bind].
  rewrite Eka. cbn [bind].
  destruct (mob_inner_sim p we t dest ks ka Hd Hk Bka (bits (bb_at p we t)) v ltac:(lia)) as [E B].
  { rewrite bbc_len. lia. }
  rewrite bbc_len in B. eexists. split; [exact (f_equal Ok E)|]. split; [reflexivity|lia].
Qed.

(* ---- one colour ---- *)
Lemma mobility_by_color_unfold C p we :
  mobility_by_color C p we =
  (own <- color_bb p we ;;
   tk <- bbr p (switch_color we) KING ;;
   ksq <- lsb tk ;;
   pawns <- bbr p we PAWN ;;
   fold_left (mob_step C p we (not64 own) (king_attacks ksq)) [PAWN; KNIGHT; BISHOP; ROOK; QUEEN; KING]
     (Ok (wrap16 (pc (N.land (pawn_pushes we pawns (all_pieces p)) (not64 own)))))).
Proof. reflexivity. Qed.
Lemma mobility_by_color_Z_unfold C p we :
  mobility_by_color_Z C p we =
  (own <- color_bb p we ;;
   tk <- bbr p (switch_color we) KING ;;
   ksq <- lsb tk ;;
   pawns <- bbr p we PAWN ;;
   fold_left (mob_step_Z C p we (not64 own) (king_attacks ksq)) [PAWN; KNIGHT; BISHOP; ROOK; QUEEN; KING]
     (Ok (pc (N.land (pawn_pushes we pawns (all_pieces p)) (not64 own))))).
Proof. reflexivity. Qed.

Lemma king_lsb p c : Inv p -> (c < 2)%N -> exists ksq, lsb (bb_at p c KING) = Ok ksq /\ (ksq < 64)%N.
Proof.
  intros I Hc. destruct (inv_parts p I) as (_ & A & _ & OK & _).
  unfold one_king_each in OK. apply andb_true_iff in OK. destruct OK as [K0 K1].
  assert (Hp : popcount (bb_at p c KING) = 1%N).
  { assert (c = 0 \/ c = 1)%N as [-> | ->] by lia; [apply N.eqb_eq in K0|apply N.eqb_eq in K1]; assumption. }
  destruct (bb_at p c KING) as [|q] eqn:E; [discriminate|].
  exists (ctz_pos q). split; [reflexivity|].
  destruct (bits_hd (N.pos q) (ctz_pos q) eq_refl) as [r Hr].
  apply (bb_bits_lt p c KING); auto; [reflexivity|]. rewrite E, Hr. now left.
Qed.

Lemma color_bb_nice p c : Inv p -> (c < 2)%N -> exists own, color_bb p c = Ok own.
Proof.
  intros I Hc. destruct (inv_parts p I) as (_ & _ & H & _).
  destruct (color_bb_ok p H) as (w & b & E & _). unfold color_bb. rewrite E.
  assert (c = 0 \/ c = 1)%N as [-> | ->] by lia; eexists; reflexivity.
Qed.

Lemma side_total p : Inv p -> material_ok p = true -> forall c, (c < 2)%N ->
  bbc p c 0 + bbc p c 1 + bbc p c 2 + bbc p c 3 + bbc p c 4 + bbc p c 5 <= 16.
Proof.
  intros I M c Hc. destruct (material_lin p I M) as [Hw Hb]. unfold side_lin in Hw, Hb.
  assert (c = 0 \/ c = 1)%N as [-> | ->] by lia; lia.
Qed.

Lemma mobility_by_color_sim p we : Inv p -> material_ok p = true -> (we < 2)%N ->
  exists v, mobility_by_color go_econsts p we = Ok v /\ mobility_by_color_Z go_econsts p we = Ok v /\
            0 <= v <= 1600.
Proof.
  intros I M Hwe. rewrite mobility_by_color_unfold, mobility_by_color_Z_unfold.
  destruct (color_bb_nice p we I Hwe) as (own & Eown). rewrite Eown. cbn [bind].
  assert (Hthem : (switch_color we < 2)%N).
  { assert (we = 0 \/ we = 1)%N as [-> | ->] by lia; reflexivity. }
  rewrite !(nice_bb p I) by (auto; reflexivity). cbn [bind].
  destruct (king_lsb p (switch_color we) I Hthem) as (ksq & Eksq & Hksq). rewrite Eksq. cbn [bind].
  set (dest := not64 own). set (ks := king_attacks ksq).
  assert (Hd : pc dest <= 64) by (apply pc_le_64, not64_lt).
  assert (Hk : pc ks <= 8) by (apply pc_king_attacks, Hksq).
  set (val := pc (N.land (pawn_pushes we (bb_at p we PAWN) (all_pieces p)) dest)).
  assert (Hval : 0 <= val <= 64).
  { split; [apply pc_nonneg|]. unfold val. etransitivity; [apply pc_land_le_r|exact Hd]. }
  rewrite (wrap16_id val) by lia.
  pose proof (side_total p I M we Hwe) as Tot.
  pose proof (bbc_le10 p I M we) as L.
  pose proof (L 0%N Hwe eq_refl). pose proof (L 1%N Hwe eq_refl). pose proof (L 2%N Hwe eq_refl).
  pose proof (L 3%N Hwe eq_refl). pose proof (L 4%N Hwe eq_refl). pose proof (L 5%N Hwe eq_refl). clear L.
  cbn [fold_left]. unfold PAWN, KNIGHT, BISHOP, ROOK, QUEEN, KING.
  destruct (mob_step_sim p we dest ks 0%N val I M Hwe eq_refl Hd Hk ltac:(lia)) as (v0 & F0 & G0 & B0).
  rewrite F0, G0.
  destruct (mob_step_sim p we dest ks 1%N v0 I M Hwe eq_refl Hd Hk ltac:(lia)) as (v1 & F1 & G1 & B1).
  rewrite F1, G1.
  destruct (mob_step_sim p we dest ks 2%N v1 I M Hwe eq_refl Hd Hk ltac:(lia)) as (v2 & F2 & G2 & B2).
  rewrite F2, G2.
  destruct (mob_step_sim p we dest ks 3%N v2 I M Hwe eq_refl Hd Hk ltac:(lia)) as (v3 & F3 & G3 & B3).
  rewrite F3, G3.
  destruct (mob_step_sim p we dest ks 4%N v3 I M Hwe eq_refl Hd Hk ltac:(lia)) as (v4 & F4 & G4 & B4).
  rewrite F4, G4.
  destruct (mob_step_sim p we dest ks 5%N v4 I M Hwe eq_refl Hd Hk ltac:(lia)) as (v5 & F5 & G5 & B5).
  rewrite F5, G5.
  exists v5. repeat split; lia.
Qed.

Lemma eval_mobility_sim p b : Inv p -> material_ok p = true -> -20000 <= b <= 20000 ->
  eval_mobility go_econsts p b = eval_mobility_Z go_econsts p b /\
  exists b', eval_mobility_Z go_econsts p b = Ok b' /\ b - 1600 <= b' <= b + 1600.
Proof.
  intros I M Hb. unfold eval_mobility, eval_mobility_Z.
  destruct (mobility_by_color_sim p WHITE I M eq_refl) as (w & Fw & Gw & Bw).
  destruct (mobility_by_color_sim p BLACK I M eq_refl) as (bl & Fb & Gb & Bb).
  rewrite Fw, Gw, Fb, Gb. cbn [bind]. split.
  - unwrap. reflexivity.
  - eexists. split; [reflexivity|lia].
Qed.
