(* C15: the straight-line stages: game phase, material, pairs, pawn adjustment. For each: the int16
   computation equals the unbounded one, and the unbounded one is given in closed form or bounded. *)
From Coq Require Import NArith ZArith List Bool Lia ZifyBool ZifyN ZifyNat.
From Clemens Require Import Base.Res Base.Word Pos.Types Att.Attacks Pos.Position Pos.Inv
  Pos.CapturesProofs Pos.ZobristProofs Eval.Eval Eval.SeeInst.
From ClemensGen Require Import GoConsts.
From Clemens.C15Bound Require Import Material Counts EvalZ Arith16 Tables StagePst.
Import ListNotations.
Open Scope Z_scope.


(* ---- game phase ---- *)
Definition phase_sum (p : position) : Z :=
  (bbc p 0 2 + bbc p 0 1 + 2 * bbc p 0 3 + 4 * bbc p 0 4) + (bbc p 1 2 + bbc p 1 1 + 2 * bbc p 1 3 + 4 * bbc p 1 4).

Lemma game_phase_sim p : Inv p -> material_ok p = true ->
  game_phase go_econsts p = game_phase_Z go_econsts p /\
  game_phase_Z go_econsts p = Ok (if 24 <? phase_sum p then 24 else phase_sum p).
Proof.
  intros I M. counts p I M.
  unfold game_phase, game_phase_Z. cbn [fold_left bind].
  rewrite !(nice_bb p I) by reflexivity. cbn [bind].
  cbv [go_econsts ec_phase_bishop ec_phase_knight ec_phase_rook ec_phase_queen ec_max_phase
       ev_phase_bishop ev_phase_knight ev_phase_rook ev_phase_queen ev_max_phase].
  names. split.
  - unwrap. reflexivity.
  - match goal with |- Ok (if 24 <? ?x then 24 else ?x) = _ =>
      replace x with (phase_sum p) by (unfold phase_sum, bbc; lia) end. reflexivity.
Qed.

Lemma phase_range p : 0 <= phase_sum p -> 0 <= (if 24 <? phase_sum p then 24 else phase_sum p) <= 24.
Proof. intros H. destruct (24 <? phase_sum p) eqn:E; lia. Qed.

Lemma phase_sum_nonneg p : 0 <= phase_sum p.
Proof. unfold phase_sum, bbc. pose proof pc_nonneg.
  repeat match goal with |- context [pc ?x] => lazymatch goal with H : 0 <= pc x |- _ => fail | _ => idtac end;
     pose proof (pc_nonneg x); generalize dependent (pc x); intros end. lia.
Qed.

(* ---- material ---- *)
Definition material_sum (p : position) : Z :=
  100 * (bbc p 0 0 - bbc p 1 0) + 310 * (bbc p 0 1 - bbc p 1 1) + 310 * (bbc p 0 2 - bbc p 1 2)
  + 510 * (bbc p 0 3 - bbc p 1 3) + 910 * (bbc p 0 4 - bbc p 1 4).

Lemma eval_material_sim p b : Inv p -> material_ok p = true -> -20000 <= b <= 20000 ->
  eval_material go_econsts p b = eval_material_Z go_econsts p b /\
  eval_material_Z go_econsts p b = Ok (b + material_sum p).
Proof.
  intros I M Hb0. counts p I M.
  destruct piece_value_go as (V0 & V1 & V2 & V3 & V4 & V5).
  unfold eval_material, eval_material_Z. cbn [fold_left bind].
  rewrite !(nice_bb p I) by reflexivity. cbn [bind].
  rewrite V0. cbn [bind]. rewrite V1. cbn [bind]. rewrite V2. cbn [bind].
  rewrite V3. cbn [bind]. rewrite V4. cbn [bind]. rewrite V5. cbn [bind].
  names. split.
  - unwrap. reflexivity.
  - unfold material_sum, bbc. f_equal. lia.
Qed.

Lemma material_sum_bound p : Inv p -> material_ok p = true -> -10450 <= material_sum p <= 10450.
Proof. intros I M. counts p I M. unfold material_sum, bbc. lia. Qed.

(* ---- pairs ---- *)
Lemma eval_pairs_sim p b : Inv p -> material_ok p = true -> -20000 <= b <= 20000 ->
  eval_pairs go_econsts p b = eval_pairs_Z go_econsts p b /\
  exists b', eval_pairs_Z go_econsts p b = Ok b' /\ b - 54 <= b' <= b + 54.
Proof.
  intros I M Hb0.
  unfold eval_pairs, eval_pairs_Z.
  rewrite !(nice_bb p I) by reflexivity. cbn [bind].
  cbv [go_econsts ec_bishop_pair ec_knight_pair ec_rook_pair ev_bishop_pair ev_knight_pair ev_rook_pair].
  destruct (1 <? popcount (bb_at p WHITE BISHOP))%N; destruct (1 <? popcount (bb_at p BLACK BISHOP))%N;
  destruct (1 <? popcount (bb_at p WHITE KNIGHT))%N; destruct (1 <? popcount (bb_at p BLACK KNIGHT))%N;
  destruct (1 <? popcount (bb_at p WHITE ROOK))%N; destruct (1 <? popcount (bb_at p BLACK ROOK))%N;
  (split; [unwrap; reflexivity | eexists; split; [reflexivity | lia]]).
Qed.

(* ---- pawn adjustment: the tables are indexed with the pawn counts, at most 8 ---- *)
Lemma eval_pawn_adjustment_sim p b : Inv p -> material_ok p = true -> -20000 <= b <= 20000 ->
  eval_pawn_adjustment go_econsts p b = eval_pawn_adjustment_Z go_econsts p b /\
  exists b', eval_pawn_adjustment_Z go_econsts p b = Ok b' /\ b - 560 <= b' <= b + 560.
Proof.
  intros I M Hb0. counts p I M.
  unfold eval_pawn_adjustment, eval_pawn_adjustment_Z.
  rewrite !(nice_bb p I) by reflexivity. cbn [bind]. names.
  destruct (adj_go (popcount (bb_at p 0 0))) as (kw & rw & Ekw & Erw & Bkw & Brw); [unfold pc in Hw; lia|].
  destruct (adj_go (popcount (bb_at p 1 0))) as (kb & rb & Ekb & Erb & Bkb & Brb); [unfold pc in Hb; lia|].
  rewrite Ekw, Ekb, Erw, Erb. cbn [bind].
  pose proof (mul_bound2 kw (pc (bb_at p 0 1)) (-20) 12 10 Bkw ltac:(lia) ltac:(lia)).
  pose proof (mul_bound2 kb (pc (bb_at p 1 1)) (-20) 12 10 Bkb ltac:(lia) ltac:(lia)).
  pose proof (mul_bound2 rw (pc (bb_at p 0 3)) (-9) 15 10 Brw ltac:(lia) ltac:(lia)).
  pose proof (mul_bound2 rb (pc (bb_at p 1 3)) (-9) 15 10 Brb ltac:(lia) ltac:(lia)).
  split.
  - unwrap. reflexivity.
  - eexists. split; [reflexivity|]. lia.
Qed.
