(* C15: the hypotheses of [eval_bound] are met by concrete positions, and they are not idle:
   positions that satisfy the C10 invariant but not [material_ok] on which the evaluation panics,
   an int16 product wraps, or the static score lands in the mate range.  All by [vm_compute]. *)
From Coq Require Import NArith ZArith List Bool String.
From Clemens Require Import Base.Res Base.Word Pos.Types Att.Attacks Pos.Position Pos.Inv Pos.Fen
  Eval.Eval Eval.SeeInst.
From Clemens.C15Bound Require Import Material EvalZ Bound.
Import ListNotations.
Open Scope Z_scope.

Definition pos_of_fen (s : string) : position := see_pos_or_empty (see_parse s).

(* ---- hypotheses met ---- *)
Definition start_pos : position := Eval vm_compute in pos_of_fen "rnbqkbnr/pppppppp/8/8/8/8/PPPPPPPP/RNBQKBNR w KQkq - 0 1".
Example start_pos_is_new : new_position go_keys = Ok start_pos.
Proof. vm_compute. reflexivity. Qed.
Example start_pos_ok :
  Inv start_pos /\ material_ok start_pos = true /\
  eval_raw go_econsts start_pos = Ok 0 /\ eval_raw_Z go_econsts start_pos = Ok 0.
Proof. unfold Inv. vm_compute. repeat split; reflexivity. Qed.

(* three white queens (two promoted), six white pawns: legal material *)
Definition three_queens : position := Eval vm_compute in pos_of_fen "4k3/8/8/8/8/2Q5/PPPPP1Q1/3QK3 w - - 0 1".
Example three_queens_ok :
  Inv three_queens /\ material_ok three_queens = true /\
  eval_raw go_econsts three_queens = Ok 3292 /\ eval_raw_Z go_econsts three_queens = Ok 3292 /\
  eval_parts go_econsts three_queens = Ok (-15, -15, 3307).
Proof. unfold Inv. vm_compute. repeat split; reflexivity. Qed.

(* eight promotions to queens: nine white queens, no pawns; the largest legal material *)
Definition nine_queens : position := Eval vm_compute in pos_of_fen "6k1/8/Q6Q/Q6Q/Q6Q/Q6Q/8/RNBQKBNR w KQ - 0 1".
Example nine_queens_ok :
  Inv nine_queens /\ material_ok nine_queens = true /\
  eval_raw go_econsts nine_queens = eval_raw_Z go_econsts nine_queens /\
  eval_raw go_econsts nine_queens = Ok 10408.
Proof. unfold Inv. vm_compute. repeat split; reflexivity. Qed.

(* ---- the hypothesis is needed ---- *)
(* nine white pawns: the invariant holds, the pawn-adjustment table is indexed out of range *)
Definition nine_pawns : position := Eval vm_compute in pos_of_fen "4k3/8/8/8/8/P7/PPPPPPPP/4K3 w - - 0 1".
Example nine_pawns_panics :
  Inv nine_pawns /\ material_ok nine_pawns = false /\ eval_raw go_econsts nine_pawns = Panic.
Proof. unfold Inv. vm_compute. repeat split; reflexivity. Qed.

(* twenty-seven black knights on the rim: the mid-game accumulator is 1400 > 1365, so the int16
   product 1400 * 24 in calculateScore wraps: the engine returns -8184, the formula gives -5454 *)
Definition knights27 : position :=
  Eval vm_compute in pos_of_fen "nnnnnnnn/PPPPPPPP/n6n/n6n/n2k3n/n6n/nn4nn/nnnnnnKn w - - 0 1".
Example knights27_wraps :
  Inv knights27 /\ material_ok knights27 = false /\
  eval_parts go_econsts knights27 = Ok (1400, 1250, -6854) /\
  eval_parts_Z go_econsts knights27 = Ok (1400, 1250, -6854) /\
  eval_raw go_econsts knights27 = Ok (-8184) /\ eval_raw_Z go_econsts knights27 = Ok (-5454).
Proof. unfold Inv. vm_compute. repeat split; reflexivity. Qed.

(* thirty-six black queens against the bare white king, White to move: the base accumulator wraps
   (-32875 becomes 32661) and the static score is +32731: a "mate score" for the wrong side *)
Definition queens36 : position :=
  Eval vm_compute in pos_of_fen "qqqqkqqq/qqqqqqqq/qqqqqqqq/qqqqqqqq/qqqqq3/8/8/4K3 w - - 0 1".
Example queens36_mate_score :
  Inv queens36 /\ material_ok queens36 = false /\
  eval_parts go_econsts queens36 = Ok (70, 70, 32661) /\
  eval_parts_Z go_econsts queens36 = Ok (70, 70, -32875) /\
  eval_raw go_econsts queens36 = Ok 32731 /\ eval_raw_Z go_econsts queens36 = Ok (-32805) /\
  is_checkmate_value go_econsts 32731 = true.
Proof. unfold Inv. vm_compute. repeat split; reflexivity. Qed.

(* so neither conclusion of the theorem follows from the invariant alone *)
Theorem eval_bound_needs_material :
  ~ (forall p, Inv p -> exists v, eval_raw go_econsts p = Ok v /\ is_checkmate_value go_econsts v = false) /\
  ~ (forall p, Inv p -> eval_raw go_econsts p = eval_raw_Z go_econsts p) /\
  ~ (forall p, Inv p -> eval_raw go_econsts p <> Panic).
Proof.
  destruct queens36_mate_score as (I1 & _ & _ & _ & E1 & _ & C1).
  destruct knights27_wraps as (I2 & _ & _ & _ & E2 & Z2).
  destruct nine_pawns_panics as (I3 & _ & E3).
  split; [|split].
  - intros H. destruct (H queens36 I1) as (v & E & C).
    rewrite E1 in E. injection E as <-. rewrite C1 in C. discriminate C.
  - intros H. specialize (H knights27 I2). rewrite E2, Z2 in H. discriminate H.
  - intros H. exact (H nine_pawns I3 E3).
Qed.
