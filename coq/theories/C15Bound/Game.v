(* C15: the bound along a game. Every position reached from the start position by legal moves satisfies
   [material_ok]; with C10 (legal moves keep the invariant) it satisfies both hypotheses of [eval_bound]. *)
From Coq Require Import NArith ZArith List Bool Lia.
From Clemens Require Import Base.Res Base.Word Pos.Types Att.Attacks Pos.Position Pos.Inv
  Pos.ZobristProofs Eval.Eval Eval.SeeInst.
From Clemens.C15Bound Require Import Material EvalZ Bound Play.
Import ListNotations.
Open Scope Z_scope.

Section Game.
Variable K : zkeys.

(* the positions of a game: New(), then legal moves *)
Inductive game_pos : position -> Prop :=
| gp_new p : new_position K = Ok p -> game_pos p
| gp_move p ls m q : game_pos p -> legal_moves K p = Ok ls -> In m ls -> make_move K p m = Ok q -> game_pos q.

(* C10, as Pos/ZobristProofs.v states it: legal moves keep the invariant *)
Hypothesis inv_step : inv_step_statement K.

Theorem game_pos_ok p : game_pos p -> Inv p /\ material_ok p = true.
Proof.
  induction 1 as [p H | p ls m q _ [I M] LM Hin MM].
  - split; [eapply new_position_inv; eauto | eapply material_new_position; eauto].
  - assert (IQ : Inv q) by (eapply inv_step; eauto).
    split; [exact IQ|]. eapply material_step_legal; eauto.
Qed.

Theorem eval_bound_game p : game_pos p ->
  exists v, eval_raw go_econsts p = Ok v /\ eval_raw_Z go_econsts p = Ok v /\
            Z.abs v <= score_bound /\ is_checkmate_value go_econsts v = false.
Proof.
  intros G. destruct (game_pos_ok p G) as [I M].
  destruct (eval_bound_num p I M) as (v & E & B). exists v.
  split; [exact E|]. split; [rewrite <- (eval_no_wrap p I M); exact E|]. split; [exact B|].
  now apply mate_range_go.
Qed.

End Game.
