(* C15: the static evaluation computed in unbounded integers. This is Eval/Eval.v ([game_phase] ...
   [eval_raw]) copied line by line with every int16 operation replaced by the mathematical one:
   [add16 a b] -> [a + b], [sub16 a b] -> [a - b], [mul16 a b] -> [a * b], [neg16 a] -> [- a],
   [wrap16 x] -> [x].  Nothing else is changed (same table look-ups, same order, same [Z.quot]).
   "No int16 operation of the evaluation wraps" is the statement [eval_raw C p = eval_raw_Z C p]. *)
From Coq Require Import NArith ZArith List Bool.
From Clemens Require Import Base.Res Base.Word Pos.Types Att.Attacks Pos.Position Eval.Eval.
Import ListNotations.
Open Scope Z_scope.

Section EvalZ.
Variable C : econsts.

Definition game_phase_Z (p : position) : res Z :=
  g <- fold_left (fun acc c =>
         g <- acc ;;
         b <- bbr p c BISHOP ;; n <- bbr p c KNIGHT ;; r <- bbr p c ROOK ;; q <- bbr p c QUEEN ;;
         let g := g + ec_phase_bishop C * pc b in
         let g := g + ec_phase_knight C * pc n in
         let g := g + ec_phase_rook C * pc r in
         Ok (g + ec_phase_queen C * pc q))
       [WHITE; BLACK] (Ok 0) ;;
  Ok (if ec_max_phase C <? g then ec_max_phase C else g).
Definition is_endgame_Z (p : position) : res bool :=
  g <- game_phase_Z p ;; Ok (g <? ec_endgame_border C).
Definition contempt_Z (p : position) : res Z :=
  e <- is_endgame_Z p ;; Ok (if e then 0 else ec_contempt C).

Definition eval_pst_Z (p : position) (me : Z * Z) : res (Z * Z) :=
  fold_left (fun acc t =>
    me <- acc ;;
    wb <- bbr p WHITE t ;;
    me <- fold_left (fun acc sq =>
            me <- acc ;; let '(m, e) := me in
            dm <- pst_at (ec_mid_pst C) WHITE t sq ;; de <- pst_at (ec_end_pst C) WHITE t sq ;;
            Ok (m + dm, e + de)) (bits wb) (Ok me) ;;
    bb <- bbr p BLACK t ;;
    fold_left (fun acc sq =>
      me <- acc ;; let '(m, e) := me in
      dm <- pst_at (ec_mid_pst C) BLACK t sq ;; de <- pst_at (ec_end_pst C) BLACK t sq ;;
      Ok (m - dm, e - de)) (bits bb) (Ok me))
    [PAWN; KNIGHT; BISHOP; ROOK; QUEEN; KING] (Ok me).

Definition ranked_pawn_eval_Z (scalar : Z) (selw selb : N) : Z :=
  fst (fold_left (fun (acc : Z * N) rank =>
         let '(r, mask) := acc in
         let wf := rank in let bf := 7 - rank in
         (r + scalar * (wf * pc (N.land selw mask) - bf * pc (N.land selb mask)),
          shl64 mask 8))
       [1; 2; 3; 4; 5; 6] (0, RankMask2)).
Definition eval_pawns_Z (p : position) (meb : Z * Z * Z) : res (Z * Z * Z) :=
  let '(m, e, b) := meb in
  wp <- bbr p WHITE PAWN ;; bp <- bbr p BLACK PAWN ;;
  let diff := pc (isolanis wp) - pc (isolanis bp) in
  im <- nthz (ec_isolani C) 0 ;; ie <- nthz (ec_isolani C) 1 ;;
  let m := m + im * diff in
  let e := e + ie * diff in
  let b := b + ranked_pawn_eval_Z (ec_supported_scalar C) (supported WHITE wp) (supported BLACK bp) in
  let b := b + ranked_pawn_eval_Z (ec_passed_scalar C) (passed WHITE wp bp) (passed BLACK wp bp) in
  Ok (m, e, b).

Definition eval_pairs_Z (p : position) (b : Z) : res Z :=
  wb <- bbr p WHITE BISHOP ;; bb <- bbr p BLACK BISHOP ;;
  wn <- bbr p WHITE KNIGHT ;; bn <- bbr p BLACK KNIGHT ;;
  wr <- bbr p WHITE ROOK ;; br <- bbr p BLACK ROOK ;;
  let b := if (1 <? popcount wb)%N then b + ec_bishop_pair C else b in
  let b := if (1 <? popcount bb)%N then b - ec_bishop_pair C else b in
  let b := if (1 <? popcount wn)%N then b + ec_knight_pair C else b in
  let b := if (1 <? popcount bn)%N then b - ec_knight_pair C else b in
  let b := if (1 <? popcount wr)%N then b + ec_rook_pair C else b in
  let b := if (1 <? popcount br)%N then b - ec_rook_pair C else b in
  Ok b.

Definition eval_material_Z (p : position) (b : Z) : res Z :=
  fold_left (fun acc t =>
    b <- acc ;;
    w <- bbr p WHITE t ;; bl <- bbr p BLACK t ;; v <- nthz (ec_piece_value C) t ;;
    Ok (b + v * (pc w - pc bl)))
    [PAWN; KNIGHT; BISHOP; ROOK; QUEEN; KING] (Ok b).

Definition eval_pawn_adjustment_Z (p : position) (b : Z) : res Z :=
  wp <- bbr p WHITE PAWN ;; bp <- bbr p BLACK PAWN ;;
  wn <- bbr p WHITE KNIGHT ;; bn <- bbr p BLACK KNIGHT ;;
  wr <- bbr p WHITE ROOK ;; br <- bbr p BLACK ROOK ;;
  kw <- nthz (ec_knight_pawn_adj C) (popcount wp) ;;
  kb <- nthz (ec_knight_pawn_adj C) (popcount bp) ;;
  rw <- nthz (ec_rook_pawn_adj C) (popcount wp) ;;
  rb <- nthz (ec_rook_pawn_adj C) (popcount bp) ;;
  let b := b + kw * pc wn in
  let b := b - kb * pc bn in
  let b := b + rw * pc wr in
  let b := b - rb * pc br in
  Ok b.

Definition mobility_by_color_Z (p : position) (we : N) : res Z :=
  let them := switch_color we in
  own <- color_bb p we ;;
  let dest := not64 own in
  tk <- bbr p them KING ;;
  ksq <- lsb tk ;;
  let king_squares := king_attacks ksq in
  pawns <- bbr p we PAWN ;;
  let val := pc (N.land (pawn_pushes we pawns (all_pieces p)) dest) in
  fold_left (fun acc t =>
    v <- acc ;;
    pieces <- bbr p we t ;;
    ka <- nthz (ec_king_att C) t ;;
    Ok (fold_left (fun v sq =>
          let mob := N.land (mobility_of p we t sq) dest in
          let v := v + pc mob in
          v + ka * pc (N.land mob king_squares))
        (bits pieces) v))
    [PAWN; KNIGHT; BISHOP; ROOK; QUEEN; KING] (Ok val).
Definition eval_mobility_Z (p : position) (b : Z) : res Z :=
  w <- mobility_by_color_Z p WHITE ;; bl <- mobility_by_color_Z p BLACK ;;
  Ok (b + (w - bl)).

Definition calculate_score_Z (p : position) (m e b : Z) : res Z :=
  g <- game_phase_Z p ;;
  let s := Z.quot (m * g + e * (ec_max_phase C - g)) (ec_max_phase C) in
  let s := s + b in
  Ok (if (side p =? BLACK)%N then s * (-1) else s).

Definition eval_parts_Z (p : position) : res (Z * Z * Z) :=
  me <- eval_pst_Z p (0, 0) ;;
  meb <- eval_pawns_Z p (fst me, snd me, 0) ;;
  let '(m, e, b) := meb in
  b <- eval_pairs_Z p b ;;
  b <- eval_material_Z p b ;;
  b <- eval_pawn_adjustment_Z p b ;;
  b <- eval_mobility_Z p b ;;
  Ok (m, e, b).
Definition eval_raw_Z (p : position) : res Z :=
  d <- is_draw p ;;
  if d then contempt_Z p else
  meb <- eval_parts_Z p ;;
  let '(m, e, b) := meb in
  calculate_score_Z p m e b.

End EvalZ.
