(* C15 (second half): the material predicate of legal chess positions. Definitions only.
   [material_ok p] reads the square array [board p]: for each colour exactly one king, at most eight
   pawns, and every piece beyond the initial complement (2 knights, 2 bishops, 2 rooks, 1 queen) is paid
   for by a missing pawn.  Hence at most 16 men per side. *)
From Coq Require Import NArith ZArith List Bool.
From Clemens Require Import Base.Res Base.Word Pos.Types Pos.Position.
Import ListNotations.
Open Scope Z_scope.

(* how many squares of the array hold the piece code [pc] *)
Definition count_pc (bd : list N) (pc : N) : Z :=
  Z.of_nat (length (filter (fun x => (x =? pc)%N) bd)).

(* number of men of colour [c] and type [t] on the square array *)
Definition men (p : position) (c t : N) : Z := count_pc (board p) (new_piece c t).

(* the arithmetic condition on the six counts of one side *)
Definition counts_ok (P N B R Q K : Z) : bool :=
  (K =? 1) && (P <=? 8) &&
  (Z.max 0 (N - 2) + Z.max 0 (B - 2) + Z.max 0 (R - 2) + Z.max 0 (Q - 1) <=? 8 - P).

Definition side_material_ok (p : position) (c : N) : bool :=
  counts_ok (men p c PAWN) (men p c KNIGHT) (men p c BISHOP) (men p c ROOK) (men p c QUEEN) (men p c KING).

Definition material_ok (p : position) : bool :=
  side_material_ok p WHITE && side_material_ok p BLACK.
