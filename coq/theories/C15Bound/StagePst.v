(* C15: the piece-square stage. The int16 accumulation equals the unbounded one and both phase
   accumulators are bounded by (number of men) x (per-type extremum of the table). *)
From Coq Require Import NArith ZArith List Bool Lia ZifyBool ZifyN ZifyNat.
From Clemens Require Import Base.Res Base.Word Pos.Types Att.Attacks Pos.Position Pos.Inv
  Pos.CapturesProofs Pos.ZobristProofs Eval.Eval Eval.SeeInst.
From Clemens.C15Bound Require Import Material Counts EvalZ Arith16 Tables.
Import ListNotations.
Open Scope Z_scope.

(* ---- facts used by every stage ---- *)
Lemma nice_bb p : Inv p -> forall c t, (c < 2)%N -> (t < 6)%N -> bbr p c t = Ok (bb_at p c t).
Proof. intros I c t Hc Ht. destruct (inv_parts p I) as (_ & A & _). now apply bb_at_facts. Qed.

Lemma nice_bits p : Inv p -> forall c t sq, (c < 2)%N -> (t < 6)%N -> In sq (bits (bb_at p c t)) -> (sq < 64)%N.
Proof. intros I c t sq Hc Ht. destruct (inv_parts p I) as (_ & A & _). now apply bb_bits_lt. Qed.

Lemma bbc_len p c t : Z.of_nat (length (bits (bb_at p c t))) = bbc p c t.
Proof. unfold bbc. now rewrite pc_bits. Qed.

(* each count is at most ten *)
Lemma side_counts_le10 P N B R Q K : side_lin P N B R Q K ->
  0 <= P <= 10 /\ 0 <= N <= 10 /\ 0 <= B <= 10 /\ 0 <= R <= 10 /\ 0 <= Q <= 10 /\ 0 <= K <= 10.
Proof. unfold side_lin. lia. Qed.

Lemma bbc_le10 p : Inv p -> material_ok p = true -> forall c t, (c < 2)%N -> (t < 6)%N -> 0 <= bbc p c t <= 10.
Proof.
  intros I M c t Hc Ht. destruct (material_lin p I M) as [Hw Hb].
  apply side_counts_le10 in Hw, Hb.
  assert (c = 0 \/ c = 1)%N as [-> | ->] by lia;
  assert (t = 0 \/ t = 1 \/ t = 2 \/ t = 3 \/ t = 4 \/ t = 5)%N as [ -> | [ -> | [ -> | [ -> | [ -> | -> ]]]]] by lia; lia.
Qed.

(* ---- the two inner loops ---- *)
Lemma pst_add_sim (C : econsts) c t lom him loe hie : lom <= 0 <= him -> loe <= 0 <= hie ->
  forall l,
  (forall sq, In sq l -> exists dm de, pst_at (ec_mid_pst C) c t sq = Ok dm /\ pst_at (ec_end_pst C) c t sq = Ok de /\
     lom <= dm <= him /\ loe <= de <= hie) ->
  forall m e,
  -32768 <= m + Z.of_nat (length l) * lom -> m + Z.of_nat (length l) * him <= 32767 ->
  -32768 <= e + Z.of_nat (length l) * loe -> e + Z.of_nat (length l) * hie <= 32767 ->
  exists m' e',
    fold_left (fun acc sq =>
            me <- acc ;; let '(m, e) := me in
            dm <- pst_at (ec_mid_pst C) c t sq ;; de <- pst_at (ec_end_pst C) c t sq ;;
            Ok (add16 m dm, add16 e de)) l (Ok (m, e)) = Ok (m', e') /\
    fold_left (fun acc sq =>
            me <- acc ;; let '(m, e) := me in
            dm <- pst_at (ec_mid_pst C) c t sq ;; de <- pst_at (ec_end_pst C) c t sq ;;
            Ok (m + dm, e + de)) l (Ok (m, e)) = Ok (m', e') /\
    m + Z.of_nat (length l) * lom <= m' <= m + Z.of_nat (length l) * him /\
    e + Z.of_nat (length l) * loe <= e' <= e + Z.of_nat (length l) * hie.
Proof.
  intros Hm He l. induction l as [|a l IH]; intros Hl m e M1 M2 E1 E2.
  - exists m, e. cbn [fold_left length] in *. repeat split; lia.
  - destruct (Hl a (or_introl eq_refl)) as (dm & de & P1 & P2 & B1 & B2).
    cbn [fold_left bind]. rewrite P1, P2. cbn [bind].
    cbn [length] in M1, M2, E1, E2. rewrite Nat2Z.inj_succ in M1, M2, E1, E2.
    set (n := Z.of_nat (length l)) in *. assert (Hn : 0 <= n) by lia.
    assert (n * lom <= 0) by nia. assert (0 <= n * him) by nia.
    assert (n * loe <= 0) by nia. assert (0 <= n * hie) by nia.
    unfold add16. rewrite (wrap16_id (m + dm)) by lia. rewrite (wrap16_id (e + de)) by lia.
    destruct (IH (fun sq H => Hl sq (or_intror H)) (m + dm) (e + de)) as (m' & e' & F1 & F2 & R1 & R2); try (fold n; lia).
    exists m', e'. fold n in R1, R2. cbn [length]. rewrite Nat2Z.inj_succ. fold n.
    repeat split; try assumption; lia.
Qed.

Lemma pst_sub_sim (C : econsts) c t lom him loe hie : lom <= 0 <= him -> loe <= 0 <= hie ->
  forall l,
  (forall sq, In sq l -> exists dm de, pst_at (ec_mid_pst C) c t sq = Ok dm /\ pst_at (ec_end_pst C) c t sq = Ok de /\
     lom <= dm <= him /\ loe <= de <= hie) ->
  forall m e,
  -32768 <= m - Z.of_nat (length l) * him -> m - Z.of_nat (length l) * lom <= 32767 ->
  -32768 <= e - Z.of_nat (length l) * hie -> e - Z.of_nat (length l) * loe <= 32767 ->
  exists m' e',
    fold_left (fun acc sq =>
            me <- acc ;; let '(m, e) := me in
            dm <- pst_at (ec_mid_pst C) c t sq ;; de <- pst_at (ec_end_pst C) c t sq ;;
            Ok (sub16 m dm, sub16 e de)) l (Ok (m, e)) = Ok (m', e') /\
    fold_left (fun acc sq =>
            me <- acc ;; let '(m, e) := me in
            dm <- pst_at (ec_mid_pst C) c t sq ;; de <- pst_at (ec_end_pst C) c t sq ;;
            Ok (m - dm, e - de)) l (Ok (m, e)) = Ok (m', e') /\
    m - Z.of_nat (length l) * him <= m' <= m - Z.of_nat (length l) * lom /\
    e - Z.of_nat (length l) * hie <= e' <= e - Z.of_nat (length l) * loe.
Proof.
  intros Hm He l. induction l as [|a l IH]; intros Hl m e M1 M2 E1 E2.
  - exists m, e. cbn [fold_left length] in *. repeat split; lia.
  - destruct (Hl a (or_introl eq_refl)) as (dm & de & P1 & P2 & B1 & B2).
    cbn [fold_left bind]. rewrite P1, P2. cbn [bind].
    cbn [length] in M1, M2, E1, E2. rewrite Nat2Z.inj_succ in M1, M2, E1, E2.
    set (n := Z.of_nat (length l)) in *. assert (Hn : 0 <= n) by lia.
    assert (n * lom <= 0) by nia. assert (0 <= n * him) by nia.
    assert (n * loe <= 0) by nia. assert (0 <= n * hie) by nia.
    unfold sub16. rewrite (wrap16_id (m - dm)) by lia. rewrite (wrap16_id (e - de)) by lia.
    destruct (IH (fun sq H => Hl sq (or_intror H)) (m - dm) (e - de)) as (m' & e' & F1 & F2 & R1 & R2); try (fold n; lia).
    exists m', e'. fold n in R1, R2. cbn [length]. rewrite Nat2Z.inj_succ. fold n.
    repeat split; try assumption; lia.
Qed.

(* ---- one piece type: white squares added, black squares subtracted ---- *)
Definition pst_step (C : econsts) (p : position) (acc : res (Z * Z)) (t : N) : res (Z * Z) :=
    me <- acc ;;
    wb <- bbr p WHITE t ;;
    me <- fold_left (fun acc sq =>
            me <- acc ;; let '(m, e) := me in
            dm <- pst_at (ec_mid_pst C) WHITE t sq ;; de <- pst_at (ec_end_pst C) WHITE t sq ;;
            Ok (add16 m dm, add16 e de)) (bits wb) (Ok me) ;;
    bb <- bbr p BLACK t ;;
    fold_left (fun acc sq =>
      me <- acc ;; let '(m, e) := me in
      dm <- pst_at (ec_mid_pst C) BLACK t sq ;; de <- pst_at (ec_end_pst C) BLACK t sq ;;
      Ok (sub16 m dm, sub16 e de)) (bits bb) (Ok me).
Definition pst_step_Z (C : econsts) (p : position) (acc : res (Z * Z)) (t : N) : res (Z * Z) :=
    me <- acc ;;
    wb <- bbr p WHITE t ;;
    me <- fold_left (fun acc sq =>
            me <- acc ;; let '(m, e) := me in
            dm <- pst_at (ec_mid_pst C) WHITE t sq ;; de <- pst_at (ec_end_pst C) WHITE t sq ;;
            Ok (m + dm, e + de)) (bits wb) (Ok me) ;;
    bb <- bbr p BLACK t ;;
    fold_left (fun acc sq =>
      me <- acc ;; let '(m, e) := me in
      dm <- pst_at (ec_mid_pst C) BLACK t sq ;; de <- pst_at (ec_end_pst C) BLACK t sq ;;
      Ok (m - dm, e - de)) (bits bb) (Ok me).

Lemma eval_pst_unfold C p me :
  eval_pst C p me = fold_left (pst_step C p) [PAWN; KNIGHT; BISHOP; ROOK; QUEEN; KING] (Ok me).
Proof. reflexivity. Qed.
Lemma eval_pst_Z_unfold C p me :
  eval_pst_Z C p me = fold_left (pst_step_Z C p) [PAWN; KNIGHT; BISHOP; ROOK; QUEEN; KING] (Ok me).
Proof. reflexivity. Qed.

Lemma pst_tbl_range t : (t < 6)%N ->
  -50 <= pst_lo t <= 0 /\ 0 <= pst_hi_mid t <= 50 /\ 0 <= pst_hi_end t <= 50.
Proof.
  intros Ht.
  assert (t = 0 \/ t = 1 \/ t = 2 \/ t = 3 \/ t = 4 \/ t = 5)%N as [ -> | [ -> | [ -> | [ -> | [ -> | -> ]]]]] by lia;
  vm_compute; repeat split; discriminate.
Qed.

Lemma pst_step_sim p t m e : Inv p -> material_ok p = true -> (t < 6)%N ->
  -20000 <= m <= 20000 -> -20000 <= e <= 20000 ->
  exists m' e',
    pst_step go_econsts p (Ok (m, e)) t = Ok (m', e') /\
    pst_step_Z go_econsts p (Ok (m, e)) t = Ok (m', e') /\
    m + bbc p 0 t * pst_lo t - bbc p 1 t * pst_hi_mid t <= m' <= m + bbc p 0 t * pst_hi_mid t - bbc p 1 t * pst_lo t /\
    e + bbc p 0 t * pst_lo t - bbc p 1 t * pst_hi_end t <= e' <= e + bbc p 0 t * pst_hi_end t - bbc p 1 t * pst_lo t.
Proof.
  intros I M Ht Hm He.
  pose proof (bbc_le10 p I M 0%N t eq_refl Ht) as Cw. pose proof (bbc_le10 p I M 1%N t eq_refl Ht) as Cb.
  destruct (pst_tbl_range t Ht) as (Rl & Rm & Re).
  unfold pst_step, pst_step_Z. cbn [bind].
  rewrite !(nice_bb p I) by (auto; reflexivity). cbn [bind].
  set (W := bbc p 0 t) in *. set (B := bbc p 1 t) in *.
  assert (W * pst_lo t <= 0 /\ -500 <= W * pst_lo t) as [? ?] by nia.
  assert (0 <= W * pst_hi_mid t /\ W * pst_hi_mid t <= 500) as [? ?] by nia.
  assert (0 <= W * pst_hi_end t /\ W * pst_hi_end t <= 500) as [? ?] by nia.
  assert (B * pst_lo t <= 0 /\ -500 <= B * pst_lo t) as [? ?] by nia.
  assert (0 <= B * pst_hi_mid t /\ B * pst_hi_mid t <= 500) as [? ?] by nia.
  assert (0 <= B * pst_hi_end t /\ B * pst_hi_end t <= 500) as [? ?] by nia.
  destruct (pst_add_sim go_econsts WHITE t (pst_lo t) (pst_hi_mid t) (pst_lo t) (pst_hi_end t)
              ltac:(lia) ltac:(lia) (bits (bb_at p WHITE t))
              (fun sq H => pst_at_go WHITE t sq eq_refl Ht (nice_bits p I WHITE t sq eq_refl Ht H)) m e)
    as (m1 & e1 & F1 & G1 & M1 & E1); try (change WHITE with 0%N; rewrite bbc_len; fold W; lia).
  rewrite F1, G1. cbn [bind].
  change WHITE with 0%N in M1, E1. rewrite bbc_len in M1, E1. fold W in M1, E1.
  destruct (pst_sub_sim go_econsts BLACK t (pst_lo t) (pst_hi_mid t) (pst_lo t) (pst_hi_end t)
              ltac:(lia) ltac:(lia) (bits (bb_at p BLACK t))
              (fun sq H => pst_at_go BLACK t sq eq_refl Ht (nice_bits p I BLACK t sq eq_refl Ht H)) m1 e1)
    as (m2 & e2 & F2 & G2 & M2 & E2); try (change BLACK with 1%N; rewrite bbc_len; fold B; lia).
  change BLACK with 1%N in M2, E2. rewrite bbc_len in M2, E2. fold B in M2, E2.
  exists m2, e2. repeat split; try assumption; lia.
Qed.

(* ---- the whole stage ---- *)
(* upper bounds of the two accumulators in terms of the twelve counts (by the symmetry of the tables
   the lower bounds are the same expressions with the colours exchanged, negated) *)
Definition pst_up_mid (w0 w1 w2 w3 w4 w5 b0 b1 b2 b3 b4 b5 : Z) : Z :=
  50 * w0 + 20 * w1 + 10 * w2 + 10 * w3 + 5 * w4 + 30 * w5
  + 20 * b0 + 50 * b1 + 20 * b2 + 5 * b3 + 20 * b4 + 50 * b5.
Definition pst_up_end (w0 w1 w2 w3 w4 w5 b0 b1 b2 b3 b4 b5 : Z) : Z :=
  50 * w0 + 20 * w1 + 10 * w2 + 10 * w3 + 5 * w4 + 40 * w5
  + 20 * b0 + 50 * b1 + 20 * b2 + 5 * b3 + 20 * b4 + 50 * b5.

Ltac pst_consts :=
  repeat match goal with
  | H : context [pst_lo ?t] |- _ => let v := eval vm_compute in (pst_lo t) in change (pst_lo t) with v in H
  | H : context [pst_hi_mid ?t] |- _ => let v := eval vm_compute in (pst_hi_mid t) in change (pst_hi_mid t) with v in H
  | H : context [pst_hi_end ?t] |- _ => let v := eval vm_compute in (pst_hi_end t) in change (pst_hi_end t) with v in H
  end.

Lemma eval_pst_sim p : Inv p -> material_ok p = true ->
  exists m e,
    eval_pst go_econsts p (0, 0) = Ok (m, e) /\ eval_pst_Z go_econsts p (0, 0) = Ok (m, e) /\
    - pst_up_mid (bbc p 1 0) (bbc p 1 1) (bbc p 1 2) (bbc p 1 3) (bbc p 1 4) (bbc p 1 5)
                 (bbc p 0 0) (bbc p 0 1) (bbc p 0 2) (bbc p 0 3) (bbc p 0 4) (bbc p 0 5) <= m <=
      pst_up_mid (bbc p 0 0) (bbc p 0 1) (bbc p 0 2) (bbc p 0 3) (bbc p 0 4) (bbc p 0 5)
                 (bbc p 1 0) (bbc p 1 1) (bbc p 1 2) (bbc p 1 3) (bbc p 1 4) (bbc p 1 5) /\
    - pst_up_end (bbc p 1 0) (bbc p 1 1) (bbc p 1 2) (bbc p 1 3) (bbc p 1 4) (bbc p 1 5)
                 (bbc p 0 0) (bbc p 0 1) (bbc p 0 2) (bbc p 0 3) (bbc p 0 4) (bbc p 0 5) <= e <=
      pst_up_end (bbc p 0 0) (bbc p 0 1) (bbc p 0 2) (bbc p 0 3) (bbc p 0 4) (bbc p 0 5)
                 (bbc p 1 0) (bbc p 1 1) (bbc p 1 2) (bbc p 1 3) (bbc p 1 4) (bbc p 1 5).
Proof.
  intros I M. rewrite eval_pst_unfold, eval_pst_Z_unfold. cbn [fold_left].
  unfold PAWN, KNIGHT, BISHOP, ROOK, QUEEN, KING.
  pose proof (bbc_le10 p I M) as L.
  pose proof (L 0%N 0%N eq_refl eq_refl). pose proof (L 0%N 1%N eq_refl eq_refl). pose proof (L 0%N 2%N eq_refl eq_refl).
  pose proof (L 0%N 3%N eq_refl eq_refl). pose proof (L 0%N 4%N eq_refl eq_refl). pose proof (L 0%N 5%N eq_refl eq_refl).
  pose proof (L 1%N 0%N eq_refl eq_refl). pose proof (L 1%N 1%N eq_refl eq_refl). pose proof (L 1%N 2%N eq_refl eq_refl).
  pose proof (L 1%N 3%N eq_refl eq_refl). pose proof (L 1%N 4%N eq_refl eq_refl). pose proof (L 1%N 5%N eq_refl eq_refl).
  clear L.
  destruct (pst_step_sim p 0%N 0 0 I M eq_refl ltac:(lia) ltac:(lia)) as (m0 & e0 & F0 & G0 & M0 & E0).
  rewrite F0, G0. pst_consts.
  destruct (pst_step_sim p 1%N m0 e0 I M eq_refl ltac:(lia) ltac:(lia)) as (m1 & e1 & F1 & G1 & M1 & E1).
  rewrite F1, G1. pst_consts.
  destruct (pst_step_sim p 2%N m1 e1 I M eq_refl ltac:(lia) ltac:(lia)) as (m2 & e2 & F2 & G2 & M2 & E2).
  rewrite F2, G2. pst_consts.
  destruct (pst_step_sim p 3%N m2 e2 I M eq_refl ltac:(lia) ltac:(lia)) as (m3 & e3 & F3 & G3 & M3 & E3).
  rewrite F3, G3. pst_consts.
  destruct (pst_step_sim p 4%N m3 e3 I M eq_refl ltac:(lia) ltac:(lia)) as (m4 & e4 & F4 & G4 & M4 & E4).
  rewrite F4, G4. pst_consts.
  destruct (pst_step_sim p 5%N m4 e4 I M eq_refl ltac:(lia) ltac:(lia)) as (m5 & e5 & F5 & G5 & M5 & E5).
  rewrite F5, G5. pst_consts.
  exists m5, e5. unfold pst_up_mid, pst_up_end. repeat split; lia.
Qed.
