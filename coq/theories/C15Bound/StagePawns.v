(* C15: the pawn-structure stage (isolated pawns into the phase accumulators, supported and passed
   pawns, weighted by rank, into the base score). *)
From Coq Require Import NArith ZArith List Bool Lia ZifyBool ZifyN ZifyNat.
From Clemens Require Import Base.Res Base.Word Pos.Types Att.Attacks Pos.Position Pos.Inv
  Pos.CapturesProofs Pos.ZobristProofs Eval.Eval Eval.SeeInst.
From ClemensGen Require Import GoConsts.
From Clemens.C15Bound Require Import Material Counts EvalZ Arith16 Tables StagePst StageBase.
Import ListNotations.
Open Scope Z_scope.

(* six pairwise disjoint masks select at most as many squares as there are *)
Lemma filter6_le {A} (f1 f2 f3 f4 f5 f6 : A -> bool) (l : list A) :
  (forall s, b2z (f1 s) + b2z (f2 s) + b2z (f3 s) + b2z (f4 s) + b2z (f5 s) + b2z (f6 s) <= 1) ->
  Z.of_nat (length (filter f1 l)) + Z.of_nat (length (filter f2 l)) + Z.of_nat (length (filter f3 l))
  + Z.of_nat (length (filter f4 l)) + Z.of_nat (length (filter f5 l)) + Z.of_nat (length (filter f6 l))
  <= Z.of_nat (length l).
Proof.
  intros H. induction l as [|a l IH]; [cbn; lia|].
  specialize (H a). cbn [filter].
  destruct (f1 a), (f2 a), (f3 a), (f4 a), (f5 a), (f6 a); cbn [b2z length] in *; lia.
Qed.

Lemma disjoint_bits (a b : N) s : N.land a b = 0%N -> b2z (N.testbit a s) + b2z (N.testbit b s) <= 1.
Proof.
  intros H. assert (X : N.testbit (N.land a b) s = false) by (rewrite H; apply N.bits_0).
  rewrite N.land_spec in X. destruct (N.testbit a s), (N.testbit b s); cbn in *; try lia; discriminate.
Qed.

Definition rk1 : N := RankMask2.
Definition rk2 : N := shl64 rk1 8.
Definition rk3 : N := shl64 rk2 8.
Definition rk4 : N := shl64 rk3 8.
Definition rk5 : N := shl64 rk4 8.
Definition rk6 : N := shl64 rk5 8.

Lemma ranks_disjoint s :
  b2z (N.testbit rk1 s) + b2z (N.testbit rk2 s) + b2z (N.testbit rk3 s)
  + b2z (N.testbit rk4 s) + b2z (N.testbit rk5 s) + b2z (N.testbit rk6 s) <= 1.
Proof.
  pose proof (disjoint_bits rk1 rk2 s eq_refl). pose proof (disjoint_bits rk1 rk3 s eq_refl).
  pose proof (disjoint_bits rk1 rk4 s eq_refl). pose proof (disjoint_bits rk1 rk5 s eq_refl).
  pose proof (disjoint_bits rk1 rk6 s eq_refl). pose proof (disjoint_bits rk2 rk3 s eq_refl).
  pose proof (disjoint_bits rk2 rk4 s eq_refl). pose proof (disjoint_bits rk2 rk5 s eq_refl).
  pose proof (disjoint_bits rk2 rk6 s eq_refl). pose proof (disjoint_bits rk3 rk4 s eq_refl).
  pose proof (disjoint_bits rk3 rk5 s eq_refl). pose proof (disjoint_bits rk3 rk6 s eq_refl).
  pose proof (disjoint_bits rk4 rk5 s eq_refl). pose proof (disjoint_bits rk4 rk6 s eq_refl).
  pose proof (disjoint_bits rk5 rk6 s eq_refl).
  destruct (N.testbit rk1 s), (N.testbit rk2 s), (N.testbit rk3 s), (N.testbit rk4 s), (N.testbit rk5 s),
    (N.testbit rk6 s); cbn [b2z] in *; lia.
Qed.

Lemma ranks_sum_le (x : N) :
  pc (N.land x rk1) + pc (N.land x rk2) + pc (N.land x rk3) + pc (N.land x rk4) + pc (N.land x rk5)
  + pc (N.land x rk6) <= pc x.
Proof.
  rewrite !pc_bits, !bits_land. apply filter6_le. apply ranks_disjoint.
Qed.

(* the rank-weighted sum: the selected pawns of a side stand on six disjoint ranks, at most eight in all *)
Lemma ranked_pawn_eval_sim scalar selw selb : (scalar = 3 \/ scalar = 5) ->
  pc selw <= 8 -> pc selb <= 8 ->
  ranked_pawn_eval scalar selw selb = ranked_pawn_eval_Z scalar selw selb /\
  - (48 * scalar) <= ranked_pawn_eval_Z scalar selw selb <= 48 * scalar.
Proof.
  intros Hs Hw Hb. unfold ranked_pawn_eval, ranked_pawn_eval_Z. cbn [fold_left fst].
  fold rk1. fold rk2. fold rk3. fold rk4. fold rk5. fold rk6.
  pose proof (ranks_sum_le selw) as Sw. pose proof (ranks_sum_le selb) as Sb.
  repeat match goal with
  | |- context [pc (N.land selw ?m)] =>
      let a := fresh "a" in
      pose proof (pc_nonneg (N.land selw m));
      set (a := pc (N.land selw m)) in *; clearbody a
  | |- context [pc (N.land selb ?m)] =>
      let a := fresh "b" in
      pose proof (pc_nonneg (N.land selb m));
      set (a := pc (N.land selb m)) in *; clearbody a
  end.
  destruct Hs as [-> | ->]; (split; [unwrap; reflexivity | lia]).
Qed.

Lemma eval_pawns_sim p m e : Inv p -> material_ok p = true ->
  -20000 <= m <= 20000 -> -20000 <= e <= 20000 ->
  eval_pawns go_econsts p (m, e, 0) = eval_pawns_Z go_econsts p (m, e, 0) /\
  exists m' e' b', eval_pawns_Z go_econsts p (m, e, 0) = Ok (m', e', b') /\
    m - 20 * bbc p 0 0 <= m' <= m + 20 * bbc p 1 0 /\
    e - 5 * bbc p 0 0 <= e' <= e + 5 * bbc p 1 0 /\
    -384 <= b' <= 384.
Proof.
  intros I M Hm He. counts p I M.
  destruct isolani_go as (I0 & I1).
  unfold eval_pawns, eval_pawns_Z.
  rewrite !(nice_bb p I) by reflexivity. cbn [bind].
  rewrite I0, I1. cbn [bind].
  cbv [go_econsts ec_supported_scalar ec_passed_scalar ev_supported_scalar ev_passed_scalar].
  names.
  set (wp := bb_at p 0 0) in *. set (bp := bb_at p 1 0) in *.
  assert (Iw : 0 <= pc (isolanis wp) <= pc wp).
  { split; [apply pc_nonneg|]. unfold isolanis. etransitivity; [apply pc_land_le_l|apply pc_land_le_l]. }
  assert (Ib : 0 <= pc (isolanis bp) <= pc bp).
  { split; [apply pc_nonneg|]. unfold isolanis. etransitivity; [apply pc_land_le_l|apply pc_land_le_l]. }
  assert (Sw : pc (supported 0 wp) <= 8). { unfold supported. pose proof (pc_land_le_r (pawn_set 0 wp) wp). lia. }
  assert (Sb : pc (supported 1 bp) <= 8). { unfold supported. pose proof (pc_land_le_r (pawn_set 1 bp) bp). lia. }
  assert (Pw : pc (passed 0 wp bp) <= 8).
  { unfold passed. cbn [N.eqb WHITE]. cbv zeta. match goal with |- pc (N.land wp ?x) <= 8 => pose proof (pc_land_le_l wp x) end. lia. }
  assert (Pb : pc (passed 1 wp bp) <= 8).
  { unfold passed. cbn [N.eqb WHITE Pos.eqb]. cbv zeta. match goal with |- pc (N.land bp ?x) <= 8 => pose proof (pc_land_le_l bp x) end. lia. }
  destruct (ranked_pawn_eval_sim 3 (supported 0 wp) (supported 1 bp) (or_introl eq_refl) Sw Sb) as [ES BS].
  destruct (ranked_pawn_eval_sim 5 (passed 0 wp bp) (passed 1 wp bp) (or_intror eq_refl) Pw Pb) as [EP BP].
  rewrite ES, EP.
  set (rs := ranked_pawn_eval_Z 3 (supported 0 wp) (supported 1 bp)) in *.
  set (rp := ranked_pawn_eval_Z 5 (passed 0 wp bp) (passed 1 wp bp)) in *.
  set (iw := pc (isolanis wp)) in *. set (ib := pc (isolanis bp)) in *.
  split.
  - unwrap. reflexivity.
  - do 3 eexists. split; [reflexivity|]. unfold bbc. fold wp bp. lia.
Qed.
