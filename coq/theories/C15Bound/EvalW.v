(* C15: a check that [EvalZ.v] is what it claims to be. The evaluation of Eval/Eval.v is copied once more
   (mechanically: the text of the model with [add16], [sub16], [mul16], [neg16], [wrap16] replaced), this time
   with the int16 wrap as a parameter [W].  Instantiated with [wrap16] it IS the model, instantiated with the
   identity it IS [eval_raw_Z] -- both by [reflexivity].  So [eval_raw] and [eval_raw_Z] differ in nothing but
   the presence of the wrap at every int16 operation. *)
From Coq Require Import NArith ZArith List Bool.
From Clemens Require Import Base.Res Base.Word Pos.Types Att.Attacks Pos.Position Eval.Eval.
From Clemens.C15Bound Require Import EvalZ.
Import ListNotations.
Open Scope Z_scope.

Section EvalW.
Variable W : Z -> Z.
Definition addW (a b : Z) : Z := W (a + b).
Definition subW (a b : Z) : Z := W (a - b).
Definition mulW (a b : Z) : Z := W (a * b).
Definition negW (a : Z) : Z := W (- a).
Variable C : econsts.


(* evaluation.go: gamePhase (int16 accumulation), IsEndgame, IsPawnEndgame *)
Definition game_phase_W (p : position) : res Z :=
  g <- fold_left (fun acc c =>
         g <- acc ;;
         b <- bbr p c BISHOP ;; n <- bbr p c KNIGHT ;; r <- bbr p c ROOK ;; q <- bbr p c QUEEN ;;
         let g := addW g (W (ec_phase_bishop C * pc b)) in
         let g := addW g (W (ec_phase_knight C * pc n)) in
         let g := addW g (W (ec_phase_rook C * pc r)) in
         Ok (addW g (W (ec_phase_queen C * pc q))))
       [WHITE; BLACK] (Ok 0) ;;
  Ok (if ec_max_phase C <? g then ec_max_phase C else g).
Definition is_endgame_W (p : position) : res bool :=
  g <- game_phase_W p ;; Ok (g <? ec_endgame_border C).

(* contempt.go *)
Definition contempt_W (p : position) : res Z :=
  e <- is_endgame_W p ;; Ok (if e then 0 else ec_contempt C).

(* draw.go: is_draw has no int16 arithmetic; the model's definition is used *)

(* piece_square_tables.go: evalPieceSquareTables *)
Definition eval_pst_W (p : position) (me : Z * Z) : res (Z * Z) :=
  fold_left (fun acc t =>
    me <- acc ;;
    wb <- bbr p WHITE t ;;
    me <- fold_left (fun acc sq =>
            me <- acc ;; let '(m, e) := me in
            dm <- pst_at (ec_mid_pst C) WHITE t sq ;; de <- pst_at (ec_end_pst C) WHITE t sq ;;
            Ok (addW m dm, addW e de)) (bits wb) (Ok me) ;;
    bb <- bbr p BLACK t ;;
    fold_left (fun acc sq =>
      me <- acc ;; let '(m, e) := me in
      dm <- pst_at (ec_mid_pst C) BLACK t sq ;; de <- pst_at (ec_end_pst C) BLACK t sq ;;
      Ok (subW m dm, subW e de)) (bits bb) (Ok me))
    [PAWN; KNIGHT; BISHOP; ROOK; QUEEN; KING] (Ok me).

(* pawn.go: rankedPawnEval, evalPawns *)
Definition ranked_pawn_eval_W (scalar : Z) (selw selb : N) : Z :=
  fst (fold_left (fun (acc : Z * N) rank =>
         let '(r, mask) := acc in
         let wf := rank in let bf := 7 - rank in
         (addW r (mulW scalar (W (wf * pc (N.land selw mask) - bf * pc (N.land selb mask)))),
          shl64 mask 8))
       [1; 2; 3; 4; 5; 6] (0, RankMask2)).
Definition eval_pawns_W (p : position) (meb : Z * Z * Z) : res (Z * Z * Z) :=
  let '(m, e, b) := meb in
  wp <- bbr p WHITE PAWN ;; bp <- bbr p BLACK PAWN ;;
  let diff := W (pc (isolanis wp) - pc (isolanis bp)) in
  im <- nthz (ec_isolani C) 0 ;; ie <- nthz (ec_isolani C) 1 ;;
  let m := addW m (mulW im diff) in
  let e := addW e (mulW ie diff) in
  let b := addW b (ranked_pawn_eval_W (ec_supported_scalar C) (supported WHITE wp) (supported BLACK bp)) in
  let b := addW b (ranked_pawn_eval_W (ec_passed_scalar C) (passed WHITE wp bp) (passed BLACK wp bp)) in
  Ok (m, e, b).

(* pairs.go *)
Definition eval_pairs_W (p : position) (b : Z) : res Z :=
  wb <- bbr p WHITE BISHOP ;; bb <- bbr p BLACK BISHOP ;;
  wn <- bbr p WHITE KNIGHT ;; bn <- bbr p BLACK KNIGHT ;;
  wr <- bbr p WHITE ROOK ;; br <- bbr p BLACK ROOK ;;
  let b := if (1 <? popcount wb)%N then addW b (ec_bishop_pair C) else b in
  let b := if (1 <? popcount bb)%N then subW b (ec_bishop_pair C) else b in
  let b := if (1 <? popcount wn)%N then addW b (ec_knight_pair C) else b in
  let b := if (1 <? popcount bn)%N then subW b (ec_knight_pair C) else b in
  let b := if (1 <? popcount wr)%N then addW b (ec_rook_pair C) else b in
  let b := if (1 <? popcount br)%N then subW b (ec_rook_pair C) else b in
  Ok b.

(* base_material.go *)
Definition eval_material_W (p : position) (b : Z) : res Z :=
  fold_left (fun acc t =>
    b <- acc ;;
    w <- bbr p WHITE t ;; bl <- bbr p BLACK t ;; v <- nthz (ec_piece_value C) t ;;
    Ok (addW b (mulW v (W (pc w - pc bl)))))
    [PAWN; KNIGHT; BISHOP; ROOK; QUEEN; KING] (Ok b).

(* pawn_adjustment.go (indexing with the pawn count: more than 8 pawns panics) *)
Definition eval_pawn_adjustment_W (p : position) (b : Z) : res Z :=
  wp <- bbr p WHITE PAWN ;; bp <- bbr p BLACK PAWN ;;
  wn <- bbr p WHITE KNIGHT ;; bn <- bbr p BLACK KNIGHT ;;
  wr <- bbr p WHITE ROOK ;; br <- bbr p BLACK ROOK ;;
  kw <- nthz (ec_knight_pawn_adj C) (popcount wp) ;;
  kb <- nthz (ec_knight_pawn_adj C) (popcount bp) ;;
  rw <- nthz (ec_rook_pawn_adj C) (popcount wp) ;;
  rb <- nthz (ec_rook_pawn_adj C) (popcount bp) ;;
  let b := addW b (mulW kw (W (pc wn))) in
  let b := subW b (mulW kb (W (pc bn))) in
  let b := addW b (mulW rw (W (pc wr))) in
  let b := subW b (mulW rb (W (pc br))) in
  Ok b.

(* mobility_and_king_attacks.go *)
Definition mobility_by_color_W (p : position) (we : N) : res Z :=
  let them := switch_color we in
  own <- color_bb p we ;;
  let dest := not64 own in
  tk <- bbr p them KING ;;
  ksq <- lsb tk ;;
  let king_squares := king_attacks ksq in
  pawns <- bbr p we PAWN ;;
  let val := W (pc (N.land (pawn_pushes we pawns (all_pieces p)) dest)) in
  fold_left (fun acc t =>
    v <- acc ;;
    pieces <- bbr p we t ;;
    ka <- nthz (ec_king_att C) t ;;
    Ok (fold_left (fun v sq =>
          let mob := N.land (mobility_of p we t sq) dest in
          let v := addW v (W (pc mob)) in
          addW v (W (ka * pc (N.land mob king_squares))))
        (bits pieces) v))
    [PAWN; KNIGHT; BISHOP; ROOK; QUEEN; KING] (Ok val).
Definition eval_mobility_W (p : position) (b : Z) : res Z :=
  w <- mobility_by_color_W p WHITE ;; bl <- mobility_by_color_W p BLACK ;;
  Ok (addW b (subW w bl)).

(* evaluation.go: calculateScore *)
Definition calculate_score_W (p : position) (m e b : Z) : res Z :=
  g <- game_phase_W p ;;
  let s := Z.quot (addW (mulW m g) (mulW e (subW (ec_max_phase C) g))) (ec_max_phase C) in
  let s := W s in
  let s := addW s b in
  Ok (if (side p =? BLACK)%N then mulW s (-1) else s).

(* eval.do: returns the score and the three accumulators (phase scores and base score) *)
Definition eval_parts_W (p : position) : res (Z * Z * Z) :=
  me <- eval_pst_W p (0, 0) ;;
  meb <- eval_pawns_W p (fst me, snd me, 0) ;;
  let '(m, e, b) := meb in
  b <- eval_pairs_W p b ;;
  b <- eval_material_W p b ;;
  b <- eval_pawn_adjustment_W p b ;;
  b <- eval_mobility_W p b ;;
  Ok (m, e, b).
Definition eval_raw_W (p : position) : res Z :=
  d <- is_draw p ;;
  if d then contempt_W p else
  meb <- eval_parts_W p ;;
  let '(m, e, b) := meb in
  calculate_score_W p m e b.


End EvalW.

(* conversion is asked not to unfold the loops and the wrap: the two sides have the same shape *)
Local Strategy opaque [fold_left wrap16 bind Z.quot Z.add Z.mul Z.sub Z.opp pc bits].

(* ---- instantiated with [wrap16]: the model (stage by stage, each by conversion) ---- *)
Lemma game_phase_W_model C : game_phase_W wrap16 C = game_phase C. Proof. reflexivity. Qed.
Lemma contempt_W_model C : contempt_W wrap16 C = contempt C. Proof. reflexivity. Qed.
Lemma eval_pst_W_model C : eval_pst_W wrap16 C = eval_pst C. Proof. reflexivity. Qed.
Lemma ranked_pawn_eval_W_model : ranked_pawn_eval_W wrap16 = ranked_pawn_eval. Proof. reflexivity. Qed.
Lemma eval_pawns_W_model C : eval_pawns_W wrap16 C = eval_pawns C. Proof. reflexivity. Qed.
Lemma eval_pairs_W_model C : eval_pairs_W wrap16 C = eval_pairs C. Proof. reflexivity. Qed.
Lemma eval_material_W_model C : eval_material_W wrap16 C = eval_material C. Proof. reflexivity. Qed.
Lemma eval_pawn_adjustment_W_model C : eval_pawn_adjustment_W wrap16 C = eval_pawn_adjustment C. Proof. reflexivity. Qed.
Lemma mobility_by_color_W_model C : mobility_by_color_W wrap16 C = mobility_by_color C. Proof. reflexivity. Qed.
Lemma eval_mobility_W_model C : eval_mobility_W wrap16 C = eval_mobility C. Proof. reflexivity. Qed.
Lemma calculate_score_W_model C : calculate_score_W wrap16 C = calculate_score C. Proof. reflexivity. Qed.

Theorem eval_parts_W_is_model C p : eval_parts_W wrap16 C p = eval_parts C p.
Proof.
  unfold eval_parts_W, eval_parts.
  rewrite eval_pst_W_model, eval_pawns_W_model, eval_pairs_W_model, eval_material_W_model,
    eval_pawn_adjustment_W_model, eval_mobility_W_model. reflexivity.
Qed.
Theorem eval_raw_W_is_model C p : eval_raw_W wrap16 C p = eval_raw C p.
Proof. reflexivity. Qed.

(* ---- instantiated with the identity: [EvalZ.v] ---- *)
Lemma game_phase_W_Z C : game_phase_W (fun x => x) C = game_phase_Z C. Proof. reflexivity. Qed.
Lemma contempt_W_Z C : contempt_W (fun x => x) C = contempt_Z C. Proof. reflexivity. Qed.
Lemma eval_pst_W_Z C : eval_pst_W (fun x => x) C = eval_pst_Z C. Proof. reflexivity. Qed.
Lemma ranked_pawn_eval_W_Z : ranked_pawn_eval_W (fun x => x) = ranked_pawn_eval_Z. Proof. reflexivity. Qed.
Lemma eval_pawns_W_Z C : eval_pawns_W (fun x => x) C = eval_pawns_Z C. Proof. reflexivity. Qed.
Lemma eval_pairs_W_Z C : eval_pairs_W (fun x => x) C = eval_pairs_Z C. Proof. reflexivity. Qed.
Lemma eval_material_W_Z C : eval_material_W (fun x => x) C = eval_material_Z C. Proof. reflexivity. Qed.
Lemma eval_pawn_adjustment_W_Z C : eval_pawn_adjustment_W (fun x => x) C = eval_pawn_adjustment_Z C. Proof. reflexivity. Qed.
Lemma mobility_by_color_W_Z C : mobility_by_color_W (fun x => x) C = mobility_by_color_Z C. Proof. reflexivity. Qed.
Lemma eval_mobility_W_Z C : eval_mobility_W (fun x => x) C = eval_mobility_Z C. Proof. reflexivity. Qed.
Lemma calculate_score_W_Z C : calculate_score_W (fun x => x) C = calculate_score_Z C. Proof. reflexivity. Qed.

Theorem eval_parts_W_is_Z C p : eval_parts_W (fun x => x) C p = eval_parts_Z C p.
Proof.
  unfold eval_parts_W, eval_parts_Z.
  rewrite eval_pst_W_Z, eval_pawns_W_Z, eval_pairs_W_Z, eval_material_W_Z,
    eval_pawn_adjustment_W_Z, eval_mobility_W_Z. reflexivity.
Qed.
Theorem eval_raw_W_is_Z C p : eval_raw_W (fun x => x) C p = eval_raw_Z C p.
Proof. reflexivity. Qed.
