(* C15 (second half): the static score of a position that satisfies the C10 invariant and the material
   predicate never looks like a mate score, no int16 operation of the evaluation wraps, and the
   evaluation does not panic.  Constants of the current Go build. *)
From Coq Require Import NArith ZArith List Bool Lia ZifyBool ZifyN ZifyNat.
From Clemens Require Import Base.Res Base.Word Pos.Types Att.Attacks Pos.Position Pos.Inv
  Pos.CapturesProofs Pos.ZobristProofs Eval.Eval Eval.SeeInst.
From ClemensGen Require Import GoConsts.
From Clemens.C15Bound Require Import Material Counts EvalZ Arith16 Tables StagePst StageBase StagePawns StageMob.
Import ListNotations.
Open Scope Z_scope.

(* ---- the accumulators ---- *)
Definition phase_acc_bound : Z := 1145.   (* |mid-game| and |end-game| accumulator; 24 * 1145 = 27480 <= 32767 *)
Definition base_acc_bound : Z := 13048.   (* |base| accumulator *)

(* the optimisation over the material, as pure arithmetic *)
Lemma parts_arith1 m0 e0 w0 w1 w2 w3 w4 w5 b0 b1 b2 b3 b4 b5 :
  side_lin w0 w1 w2 w3 w4 w5 -> side_lin b0 b1 b2 b3 b4 b5 ->
  - pst_up_mid b0 b1 b2 b3 b4 b5 w0 w1 w2 w3 w4 w5 <= m0 <= pst_up_mid w0 w1 w2 w3 w4 w5 b0 b1 b2 b3 b4 b5 ->
  - pst_up_end b0 b1 b2 b3 b4 b5 w0 w1 w2 w3 w4 w5 <= e0 <= pst_up_end w0 w1 w2 w3 w4 w5 b0 b1 b2 b3 b4 b5 ->
  -20000 <= m0 <= 20000 /\ -20000 <= e0 <= 20000.
Proof. unfold side_lin, pst_up_mid, pst_up_end. intros Hw Hb Hm He. lia. Qed.

Lemma parts_arith2 m0 e0 m e w0 w1 w2 w3 w4 w5 b0 b1 b2 b3 b4 b5 :
  side_lin w0 w1 w2 w3 w4 w5 -> side_lin b0 b1 b2 b3 b4 b5 ->
  - pst_up_mid b0 b1 b2 b3 b4 b5 w0 w1 w2 w3 w4 w5 <= m0 <= pst_up_mid w0 w1 w2 w3 w4 w5 b0 b1 b2 b3 b4 b5 ->
  - pst_up_end b0 b1 b2 b3 b4 b5 w0 w1 w2 w3 w4 w5 <= e0 <= pst_up_end w0 w1 w2 w3 w4 w5 b0 b1 b2 b3 b4 b5 ->
  m0 - 20 * w0 <= m <= m0 + 20 * b0 -> e0 - 5 * w0 <= e <= e0 + 5 * b0 ->
  - phase_acc_bound <= m <= phase_acc_bound /\ - phase_acc_bound <= e <= phase_acc_bound.
Proof. unfold side_lin, pst_up_mid, pst_up_end, phase_acc_bound. intros Hw Hb Hm0 He0 Hm He. lia. Qed.

Lemma eval_parts_sim p : Inv p -> material_ok p = true ->
  eval_parts go_econsts p = eval_parts_Z go_econsts p /\
  exists m e b, eval_parts_Z go_econsts p = Ok (m, e, b) /\
    - phase_acc_bound <= m <= phase_acc_bound /\ - phase_acc_bound <= e <= phase_acc_bound /\
    - base_acc_bound <= b <= base_acc_bound.
Proof.
  intros I M. unfold eval_parts, eval_parts_Z.
  destruct (eval_pst_sim p I M) as (m0 & e0 & F0 & G0 & Bm0 & Be0).
  destruct (material_lin p I M) as [Hw Hb].
  destruct (parts_arith1 _ _ _ _ _ _ _ _ _ _ _ _ _ _ Hw Hb Bm0 Be0) as [Rm0 Re0].
  rewrite F0, G0. cbn [bind fst snd].
  destruct (eval_pawns_sim p m0 e0 I M Rm0 Re0) as (F1 & m & e & b0 & G1 & Bm & Be & Bb0).
  destruct (parts_arith2 _ _ _ _ _ _ _ _ _ _ _ _ _ _ _ _ Hw Hb Bm0 Be0 Bm Be) as [Rm Re].
  clear Hw Hb Bm0 Be0 Bm Be.
  rewrite F1, G1. cbn [bind].
  destruct (eval_pairs_sim p b0 I M ltac:(lia)) as (F2 & b1 & G2 & Bb1).
  rewrite F2, G2. cbn [bind].
  destruct (eval_material_sim p b1 I M ltac:(lia)) as (F3 & G3).
  pose proof (material_sum_bound p I M) as Bms.
  rewrite F3, G3. cbn [bind].
  set (ms := material_sum p) in *. clearbody ms.
  destruct (eval_pawn_adjustment_sim p (b1 + ms) I M ltac:(lia)) as (F4 & b3 & G4 & Bb3).
  rewrite F4, G4. cbn [bind].
  destruct (eval_mobility_sim p b3 I M ltac:(lia)) as (F5 & b4 & G5 & Bb4).
  rewrite F5, G5. cbn [bind].
  split; [reflexivity|]. exists m, e, b4. split; [reflexivity|].
  split; [exact Rm|]. split; [exact Re|]. unfold base_acc_bound. lia.
Qed.

(* ---- the tapered score ---- *)
Definition score_bound : Z := 14193.      (* phase_acc_bound + base_acc_bound *)

Lemma calculate_score_sim p m e b : Inv p -> material_ok p = true ->
  - phase_acc_bound <= m <= phase_acc_bound -> - phase_acc_bound <= e <= phase_acc_bound ->
  - base_acc_bound <= b <= base_acc_bound ->
  calculate_score go_econsts p m e b = calculate_score_Z go_econsts p m e b /\
  exists v, calculate_score_Z go_econsts p m e b = Ok v /\ - score_bound <= v <= score_bound.
Proof.
  unfold phase_acc_bound, base_acc_bound, score_bound. intros I M Hm He Hb.
  unfold calculate_score, calculate_score_Z.
  destruct (game_phase_sim p I M) as (F & G). rewrite F, G. cbn [bind].
  pose proof (phase_range p (phase_sum_nonneg p)) as Hg.
  set (g := if 24 <? phase_sum p then 24 else phase_sum p) in *.
  cbv [go_econsts ec_max_phase ev_max_phase].
  destruct (taper_bound m e g 24 1145 Hm He Hg) as (T1 & T2 & T3).
  pose proof (quot_bound (m * g + e * (24 - g)) 24 1145 ltac:(lia) T3) as Q.
  set (s := Z.quot (m * g + e * (24 - g)) 24) in *.
  assert (E16 : Z.quot (add16 (mul16 m g) (mul16 e (sub16 24 g))) 24 = s).
  { unfold s. unwrap. reflexivity. }
  rewrite E16.
  destruct (side p =? BLACK)%N.
  - split; [unwrap; reflexivity|]. eexists. split; [reflexivity|lia].
  - split; [unwrap; reflexivity|]. eexists. split; [reflexivity|lia].
Qed.

(* ---- draw test and contempt ---- *)
Lemma is_draw_ok p : Inv p -> exists d, is_draw p = Ok d.
Proof.
  intros I. unfold is_draw.
  destruct (100 <=? hmc p)%N; [eexists; reflexivity|].
  destruct (popcount (all_pieces p) =? 2)%N; [eexists; reflexivity|].
  rewrite !(nice_bb p I) by reflexivity. cbn [bind].
  match goal with |- context [if ?c then _ else _] => destruct c end; [eexists; reflexivity|].
  destruct (color_bb_nice p WHITE I eq_refl) as (w & Ew). destruct (color_bb_nice p BLACK I eq_refl) as (b & Eb).
  rewrite Ew, Eb. cbn [bind].
  repeat (match goal with |- context [if ?c then _ else _] => destruct c end; try (eexists; reflexivity)).
Qed.

Lemma contempt_sim p : Inv p -> material_ok p = true ->
  contempt go_econsts p = contempt_Z go_econsts p /\
  exists v, contempt_Z go_econsts p = Ok v /\ (v = 0 \/ v = 400).
Proof.
  intros I M. unfold contempt, contempt_Z, is_endgame, is_endgame_Z.
  destruct (game_phase_sim p I M) as (F & G). rewrite F, G. cbn [bind].
  split; [reflexivity|].
  match goal with |- context [if ?c then _ else _] => destruct c end; eexists; (split; [reflexivity|]); auto.
Qed.

(* ---- main results ---- *)

(* No int16 operation of the static evaluation wraps (and nothing panics): the engine's value is
   the value of the same formula over the unbounded integers. *)
Theorem eval_no_wrap p : Inv p -> material_ok p = true ->
  eval_raw go_econsts p = eval_raw_Z go_econsts p.
Proof.
  intros I M. unfold eval_raw, eval_raw_Z.
  destruct (is_draw_ok p I) as (d & Ed). rewrite Ed. cbn [bind]. destruct d.
  - apply (contempt_sim p I M).
  - destruct (eval_parts_sim p I M) as (F & m & e & b & G & Bm & Be & Bb). rewrite F, G. cbn [bind].
    apply (calculate_score_sim p m e b I M Bm Be Bb).
Qed.

(* the static score is far away from the mate range: |v| <= 14193 < 32667 = INF - maxPlies *)
Theorem eval_bound_num p : Inv p -> material_ok p = true ->
  exists v, eval_raw go_econsts p = Ok v /\ Z.abs v <= score_bound.
Proof.
  intros I M. rewrite (eval_no_wrap p I M). unfold eval_raw_Z.
  destruct (is_draw_ok p I) as (d & Ed). rewrite Ed. cbn [bind]. destruct d.
  - destruct (contempt_sim p I M) as (_ & v & E & Hv). exists v. split; [exact E|]. unfold score_bound. lia.
  - destruct (eval_parts_sim p I M) as (_ & m & e & b & G & Bm & Be & Bb). rewrite G. cbn [bind].
    destruct (calculate_score_sim p m e b I M Bm Be Bb) as (_ & v & E & Hv). exists v. split; [exact E|]. lia.
Qed.

Lemma mate_range_go v : Z.abs v <= score_bound -> is_checkmate_value go_econsts v = false.
Proof.
  unfold score_bound, is_checkmate_value. cbv [go_econsts ec_inf ec_max_plies ev_inf ev_max_plies]. lia.
Qed.

Theorem eval_bound p : Inv p -> material_ok p = true ->
  exists v, eval_raw go_econsts p = Ok v /\ is_checkmate_value go_econsts v = false.
Proof.
  intros I M. destruct (eval_bound_num p I M) as (v & E & Hv). exists v. split; [exact E|]. now apply mate_range_go.
Qed.

(* everything in one statement, with the numbers written out (INF - maxPlies = 32667) *)
Theorem eval_safe p : Inv p -> material_ok p = true ->
  exists v, eval_raw go_econsts p = Ok v /\ eval_raw_Z go_econsts p = Ok v /\
            Z.abs v <= 14193 /\ is_checkmate_value go_econsts v = false.
Proof.
  intros I M. destruct (eval_bound_num p I M) as (v & E & Hv). exists v.
  split; [exact E|]. split; [rewrite <- (eval_no_wrap p I M); exact E|]. split; [exact Hv|]. now apply mate_range_go.
Qed.

(* in particular the evaluation neither panics nor returns an error *)
Corollary eval_no_panic p : Inv p -> material_ok p = true ->
  eval_raw go_econsts p <> Panic /\ eval_raw go_econsts p <> Err.
Proof. intros I M. destruct (eval_bound_num p I M) as (v & E & _). rewrite E. split; discriminate. Qed.

(* the three accumulators: also equal to their unbounded versions, and within the bounds that make
   calculateScore safe (|mid|, |end| <= 1145 <= 1365 = 32767 / 24) *)
Theorem eval_parts_no_wrap p : Inv p -> material_ok p = true ->
  eval_parts go_econsts p = eval_parts_Z go_econsts p /\
  exists m e b, eval_parts go_econsts p = Ok (m, e, b) /\
    Z.abs m <= phase_acc_bound /\ Z.abs e <= phase_acc_bound /\ Z.abs b <= base_acc_bound.
Proof.
  intros I M. destruct (eval_parts_sim p I M) as (F & m & e & b & G & Bm & Be & Bb).
  split; [exact F|]. exists m, e, b. rewrite F. split; [exact G|]. lia.
Qed.
