(* C15: [material_ok] is an invariant of play. MakeMove of a generated move only removes men, moves
   them, or turns one pawn of the mover into one knight, bishop, rook or queen of the mover; and the start
   position satisfies the predicate. *)
From Coq Require Import NArith ZArith List Bool Lia ZifyBool ZifyN ZifyNat.
From Clemens Require Import Base.Res Base.Word Pos.Types Att.Attacks Pos.Position Pos.Inv
  Pos.CapturesProofs Pos.ZobristProofs Eval.Eval.
From Clemens.C15Bound Require Import Material Counts.
Import ListNotations.
Open Scope Z_scope.

(* ---- counting under an update of the square array ---- *)
Lemma count_pc_cons x l pc : count_pc (x :: l) pc = b2z (x =? pc)%N + count_pc l pc.
Proof. unfold count_pc. cbn [filter]. destruct (x =? pc)%N; cbn [length b2z]; lia. Qed.

Lemma count_pc_nonneg l pc : 0 <= count_pc l pc.
Proof. unfold count_pc. lia. Qed.

Lemma count_pc_upd bd : forall i old v pc, nth_error bd i = Some old ->
  count_pc (upd bd i v) pc = count_pc bd pc - b2z (old =? pc)%N + b2z (v =? pc)%N.
Proof.
  induction bd as [|x bd IH]; intros i old v pc H.
  - destruct i; discriminate.
  - destruct i as [|i]; cbn [nth_error upd] in *.
    + injection H as ->. rewrite !count_pc_cons. lia.
    + rewrite !count_pc_cons, (IH i old v pc H). lia.
Qed.

Lemma nth_error_upd bd i j (v : N) : (i < length bd)%nat ->
  nth_error (upd bd i v) j = if Nat.eq_dec i j then Some v else nth_error bd j.
Proof.
  intros L. destruct (Nat.eq_dec i j) as [<-|n]; [now apply nth_error_upd_same|now apply nth_error_upd_other].
Qed.

(* ---- what the stages of MakeMove do to the square array (no hash involved) ---- *)
Section Stages.
Variable K : zkeys.

Lemma st_ep_board p p1 : st_ep K p = Ok p1 -> board p1 = board p.
Proof.
  unfold st_ep. destruct (negb (ep p =? SQ_NONE)%N); intros H.
  - bind_inv H. injection H as <-. reflexivity.
  - injection H as <-. reflexivity.
Qed.

Lemma revoke_board p sq q : revoke K p sq = Ok q -> board q = board p.
Proof.
  intros R. unfold revoke in R.
  eapply (fold_bind_inv (fun q => board q = board p)) in R; eauto.
  clear. intros a [c i] a' _ Hb S.
  destruct (negb (N.land (N.land (lost_rights sq) c) (castling a) =? 0)%N).
  - bind_inv S. injection S as <-. exact Hb.
  - injection S as <-. exact Hb.
Qed.

Lemma st_pawn_board stm p piece src dst reset q reset' :
  st_pawn K stm p piece src dst reset = Ok (q, reset') -> board q = board p.
Proof.
  unfold st_pawn. destruct (piece_type piece =? PAWN)%N; [|intros [= <- _]; reflexivity].
  destruct (abs_diff src dst =? 16)%N; [|intros [= <- _]; reflexivity].
  intros H. bind_inv H. injection H as <- _. reflexivity.
Qed.

Lemma st_fin_board stm p reset : board (st_fin K stm p reset) = board p.
Proof. reflexivity. Qed.

End Stages.

(* ---- promotions are made by pawns of the side to move ---- *)
Definition castle_kind_chk (s : N) : bool :=
  (mv_kind (castle_mv s (sub8 s 2)) =? CASTLING)%N && (mv_kind (castle_mv s (add8 s 2)) =? CASTLING)%N.
Lemma castle_kind_all : forallb castle_kind_chk sq_list = true.
Proof. vm_compute. reflexivity. Qed.

Lemma gen_moves_promo p ms m :
  bbs_agree p = true -> gen_moves p = Ok ms -> In m ms -> mv_kind m = PROMOTION ->
  piece_at p (mv_src m) = new_piece (side p) PAWN.
Proof.
  intros A G Hin Hk. unfold gen_moves in G.
  bind_inv G. bind_inv G. bind_inv G. bind_inv G. bind_inv G. bind_inv G. bind_inv G. bind_inv G. bind_inv G.
  inversion G; subst ms; clear G.
  assert (HH : forall T X occ own att, get_bb p (side p) T = Ok X ->
             In m (gen_helper X occ (not64 own) att) -> False).
  { intros T X occ own att GB Hm. apply in_gen_helper in Hm. destruct Hm as (s & t & Hs & Ht & ->).
    destruct (get_bb_agree _ _ _ _ A GB) as (_ & _ & HX & _).
    apply bits_testbit in Hs, Ht.
    assert (Ls : (s < 64)%N) by (eapply testbit_bound; eauto).
    assert (Lt : (t < 64)%N) by (eapply bnd_land_r; [apply bnd_not64|eauto]).
    rewrite (mv_kind_mk_move s t Ls Lt) in Hk. discriminate. }
  repeat (apply in_app_or in Hin; destruct Hin as [Hin|Hin]);
    try (exfalso; eapply HH; [|exact Hin]; eassumption).
  - (* pawn moves *)
    apply in_pawn_moves in Hin. destruct Hin as (s & t & Hs & Sh & Ht).
    match goal with GP : get_bb p (side p) PAWN = Ok _ |- _ =>
      destruct (get_bb_agree _ _ _ _ A GP) as (Hc & _ & HX & HP) end.
    apply bits_testbit in Hs. assert (Ls : (s < 64)%N) by (eapply testbit_bound; eauto).
    assert (Lt : (t < 64)%N).
    { destruct Ht as [Ht|[Ht|Ht]]; apply bits_testbit in Ht.
      - eapply bnd_pushes; eauto.
      - eapply bnd_land_l; [apply bnd_pawn_attacks|eauto].
      - eapply bnd_land_l; [apply bnd_pawn_attacks|eauto]. }
    destruct (decode_simple _ s t Ls Lt Sh) as (D1 & _ & _). rewrite D1. now apply HP.
  - (* castling *)
    exfalso.
    match goal with GC : castling_moves p = Ok _ |- _ =>
      destruct (in_castling_moves _ _ _ GC Hin) as (c & kb & s & CC & GK & LK & ->) end.
    apply can_castle_now_spec in CC. destruct CC as (kb' & s' & G' & Ls' & Hs & _).
    assert (s' = s) by congruence. subst s'. clear GK LK.
    pose proof (forall_sq _ castle_kind_all s Hs) as C. cbv beta in C. unfold castle_kind_chk in C.
    apply andb_true_iff in C. destruct C as [C1 C2]. apply N.eqb_eq in C1, C2.
    destruct (castling_is_queen_side c); [rewrite C1 in Hk|rewrite C2 in Hk]; discriminate.
Qed.

(* ---- the counts after MakeMove ---- *)
Lemma promo_range m : (1 <= mv_promo m <= 4)%N.
Proof.
  unfold mv_promo. assert (N.land (N.shiftr m 14) 3 < 4)%N; [|lia].
  change 3%N with (N.ones 2). rewrite N.land_ones. apply N.mod_lt. discriminate.
Qed.

Section Step.
Variable K : zkeys.

(* every count of a non-empty piece code stays or drops, except that a promotion replaces one pawn of the
   mover by one piece of type 1..4 of the mover *)
Theorem make_move_counts p ms m q :
  length (board p) = 64%nat -> bbs_agree p = true -> gen_moves p = Ok ms -> In m ms -> make_move K p m = Ok q ->
  (mv_kind m <> PROMOTION /\ forall pc, pc <> NO_PIECE -> count_pc (board q) pc <= count_pc (board p) pc) \/
  (mv_kind m = PROMOTION /\ forall pc, pc <> NO_PIECE ->
     count_pc (board q) pc <= count_pc (board p) pc - b2z (new_piece (side p) PAWN =? pc)%N
                              + b2z (new_piece (side p) (mv_promo m) =? pc)%N).
Proof.
  intros L A G Hin M. rewrite make_move_stages in M.
  pose proof (mv_src_lt m) as Hsrc. pose proof (mv_dst_lt m) as Hdst.
  set (src := mv_src m) in *. set (dst := mv_dst m) in *.
  bind_inv M. rename a into p1. pose proof (st_ep_board K _ _ E) as B1.
  bind_inv M. rename a into target. bind_inv M. destruct a as [p2 reset].
  assert (B2 : board p2 = upd (board p) (N.to_nat dst) NO_PIECE /\ nth_error (board p) (N.to_nat dst) = Some target).
  { unfold get_piece in E0. apply nth_res_ok in E0. rewrite B1 in E0. split; [|exact E0].
    unfold st_cap in E1. destruct (target =? NO_PIECE)%N eqn:ET; cbn [negb] in E1.
    - injection E1 as <- _. apply N.eqb_eq in ET. subst target. rewrite B1. symmetry. now apply upd_same.
    - bind_inv E1. destruct a as [p2' pc']. injection E1 as <- _. cbn [fst].
      apply delete_piece_spec in E2. destruct E2 as (k & _ & _ & _ & Hb & _). now rewrite Hb, B1. }
  destruct B2 as [B2 T0].
  bind_inv M. rename a into p3. pose proof (revoke_board K _ _ _ E2) as B3.
  bind_inv M. rename a into p4. pose proof (revoke_board K _ _ _ E3) as B4.
  bind_inv M. destruct a as [p5 piece].
  pose proof (move_piece_board K _ _ _ _ _ E4) as (F5 & Hpc & B5 & S5 & _).
  rewrite B4, B3 in F5, B5. fold src dst in F5, B5.
  bind_inv M. destruct a as [p6 reset']. pose proof (st_pawn_board K _ _ _ _ _ _ _ _ E5) as B6.
  bind_inv M. rename a into p7. injection M as <-. rewrite st_fin_board.
  remember (board p2) as b2 eqn:Eb2.
  assert (L2 : length b2 = 64%nat) by (rewrite B2, upd_length; exact L).
  (* after the capture and the move of the piece: no count has grown *)
  assert (N2d : nth_error b2 (N.to_nat dst) = Some NO_PIECE).
  { rewrite B2. apply nth_error_upd_same. lia. }
  assert (C5 : forall pc, pc <> NO_PIECE -> count_pc (board p5) pc <= count_pc (board p) pc).
  { intros pc Hne. rewrite B5.
    assert (X : nth_error (upd b2 (N.to_nat src) NO_PIECE) (N.to_nat dst) = Some NO_PIECE).
    { rewrite nth_error_upd by lia. destruct (Nat.eq_dec (N.to_nat src) (N.to_nat dst)); auto. }
    rewrite (count_pc_upd _ _ _ _ pc X), (count_pc_upd _ _ _ _ pc F5).
    rewrite B2, (count_pc_upd _ _ _ _ pc T0).
    assert (E0' : (NO_PIECE =? pc)%N = false) by (apply N.eqb_neq; congruence). rewrite E0'. cbn [b2z].
    destruct (target =? pc)%N; cbn [b2z]; lia. }
  assert (N5d : nth_error (board p5) (N.to_nat dst) = Some piece).
  { rewrite B5. apply nth_error_upd_same. rewrite upd_length. lia. }
  assert (L5 : length (board p5) = 64%nat) by (rewrite B5, !upd_length; exact L2).
  (* the moved piece stood on src in p *)
  assert (Hne : N.to_nat src <> N.to_nat dst). { intros e. rewrite e in F5. congruence. }
  assert (F0 : nth_error (board p) (N.to_nat src) = Some piece).
  { rewrite B2 in F5. now rewrite nth_error_upd_other in F5 by auto. }
  (* the special kinds *)
  unfold st_kind in E6. fold dst in E6.
  assert (CM : forall rs rd, (r <- move_piece K p6 rs rd ;; Ok (fst r)) = Ok p7 ->
            forall pc, pc <> NO_PIECE -> count_pc (board p7) pc <= count_pc (board p5) pc).
  { intros rs rd S' pc Hn. bind_inv S'. destruct a as [q' pc']. injection S' as <-. cbn [fst].
    pose proof (move_piece_board K _ _ _ _ _ E7) as (Hf & Hpc' & Hb & _). rewrite B6 in Hf, Hb. rewrite Hb.
    assert (Lr : (N.to_nat rs < length (board p5))%nat) by (apply nth_error_Some; congruence).
    destruct (nth_error (upd (board p5) (N.to_nat rs) NO_PIECE) (N.to_nat rd)) as [old|] eqn:Eo.
    - rewrite (count_pc_upd _ _ _ _ pc Eo), (count_pc_upd _ _ _ _ pc Hf).
      assert (E0' : (NO_PIECE =? pc)%N = false) by (apply N.eqb_neq; congruence). rewrite E0'. cbn [b2z].
      destruct (old =? pc)%N; cbn [b2z]; lia.
    - (* rd outside the array: the update does nothing *)
      apply nth_error_None in Eo. rewrite upd_length in Eo.
      assert (U : forall (l : list N) i v, (length l <= i)%nat -> upd l i v = l).
      { induction l as [|h l' IHl]; intros i v Hi; destruct i; cbn in *; try reflexivity; try lia. f_equal. apply IHl. lia. }
      rewrite (U _ _ _ ltac:(rewrite upd_length; exact Eo)), (count_pc_upd _ _ _ _ pc Hf).
      assert (E0' : (NO_PIECE =? pc)%N = false) by (apply N.eqb_neq; congruence). rewrite E0'. cbn [b2z].
      destruct (pc' =? pc)%N; cbn [b2z]; lia. }
  destruct (mv_kind m =? CASTLING)%N eqn:Ek.
  { left. apply N.eqb_eq in Ek. split; [rewrite Ek; discriminate|].
    intros pc Hn. etransitivity; [|apply C5; exact Hn].
    destruct (dst =? C1)%N; [eapply CM; eauto|].
    destruct (dst =? G1)%N; [eapply CM; eauto|].
    destruct (dst =? C8)%N; [eapply CM; eauto|].
    destruct (dst =? G8)%N; [eapply CM; eauto|]. discriminate. }
  clear CM. destruct (mv_kind m =? EN_PASSANT)%N eqn:Ee.
  { left. apply N.eqb_eq in Ee. split; [rewrite Ee; discriminate|].
    intros pc Hn. etransitivity; [|apply C5; exact Hn].
    bind_inv E6. destruct a as [q' pc']. injection E6 as <-. cbn [fst].
    apply delete_piece_spec in E7. destruct E7 as (k & Hv & _ & _ & Hb & _). rewrite B6 in Hv, Hb. rewrite Hb.
    rewrite (count_pc_upd _ _ _ _ pc Hv).
    assert (E0' : (NO_PIECE =? pc)%N = false) by (apply N.eqb_neq; congruence). rewrite E0'. cbn [b2z].
    destruct (pc' =? pc)%N; cbn [b2z]; lia. }
  destruct (mv_kind m =? PROMOTION)%N eqn:Ep.
  2:{ left. apply N.eqb_neq in Ep. split; [exact Ep|]. injection E6 as <-. rewrite B6. exact C5. }
  right. apply N.eqb_eq in Ep. split; [exact Ep|]. intros pc Hn.
  bind_inv E6. destruct a as [q' pc']. cbn [fst] in E6.
  apply delete_piece_spec in E7. destruct E7 as (k & Hv & _ & _ & Hb & _). rewrite B6 in Hv, Hb.
  apply set_piece_spec in E6. destruct E6 as (k' & _ & _ & _ & Hb' & _). rewrite Hb', Hb.
  assert (Hv' : pc' = piece) by congruence. subst pc'.
  assert (X : nth_error (upd (board p5) (N.to_nat dst) NO_PIECE) (N.to_nat dst) = Some NO_PIECE).
  { apply nth_error_upd_same. lia. }
  rewrite (count_pc_upd _ _ _ _ pc X), (count_pc_upd _ _ _ _ pc Hv).
  assert (E0' : (NO_PIECE =? pc)%N = false) by (apply N.eqb_neq; congruence). rewrite E0'. cbn [b2z].
  pose proof (gen_moves_promo p ms m A G Hin Ep) as PP. fold src in PP.
  assert (Hpiece : piece = new_piece (side p) PAWN).
  { unfold piece_at in PP. rewrite <- PP. symmetry. now apply nth_error_nth. }
  rewrite <- Hpiece. specialize (C5 pc Hn). lia.
Qed.

End Step.

(* ---- the arithmetic of the predicate ---- *)
Lemma counts_ok_mono P N B R Q K P' N' B' R' Q' K' : counts_ok P N B R Q K = true ->
  P' <= P -> N' <= N -> B' <= B -> R' <= R -> Q' <= Q -> K' = 1 ->
  counts_ok P' N' B' R' Q' K' = true.
Proof. unfold counts_ok. intros. lia. Qed.

Lemma counts_ok_promo P N B R Q K P' N' B' R' Q' K' (dn db dr dq : Z) : counts_ok P N B R Q K = true ->
  0 <= dn -> 0 <= db -> 0 <= dr -> 0 <= dq -> dn + db + dr + dq = 1 ->
  P' <= P - 1 -> N' <= N + dn -> B' <= B + db -> R' <= R + dr -> Q' <= Q + dq -> K' = 1 ->
  counts_ok P' N' B' R' Q' K' = true.
Proof. unfold counts_ok. intros. lia. Qed.

Lemma new_piece_inj c t c' t' : (c < 2)%N -> (c' < 2)%N -> (t < 6)%N -> (t' < 6)%N ->
  (new_piece c t =? new_piece c' t')%N = ((c =? c') && (t =? t'))%N.
Proof. unfold new_piece. intros. lia. Qed.

Lemma new_piece_nonzero c t : new_piece c t <> NO_PIECE.
Proof. unfold new_piece, NO_PIECE. lia. Qed.

(* one king of each colour on the square array, from the three view clauses of the invariant *)
Lemma men_king q c : board_wf q = true -> bbs_agree q = true -> one_king_each q = true -> (c < 2)%N ->
  men q c KING = 1.
Proof.
  intros W A O Hc. rewrite <- (pc_bb_men q c KING W A Hc eq_refl).
  unfold one_king_each in O. apply andb_true_iff in O. destruct O as [O0 O1].
  apply N.eqb_eq in O0, O1. unfold pc.
  assert (c = 0 \/ c = 1)%N as [-> | ->] by lia; [change (bb_at q 0 KING) with (bb_at q 0 5); rewrite O0
                                                 |change (bb_at q 1 KING) with (bb_at q 1 5); rewrite O1]; reflexivity.
Qed.

Section Main.
Variable K : zkeys.

(* [material_ok] is kept by every generated move, provided the successor still has one king of each colour
   on consistent views -- which C10 proves for every generated move ([inv_nocheck_b q = true]: a king is
   never captured because the side that just moved is not in check). *)
Theorem material_step_views p ms m q :
  material_ok p = true -> Inv p -> gen_moves p = Ok ms -> In m ms -> make_move K p m = Ok q ->
  board_wf q = true -> bbs_agree q = true -> one_king_each q = true ->
  material_ok q = true.
Proof.
  intros MO I G Hin MM Wq Aq Oq.
  destruct (inv_parts p I) as (W & A & _ & _ & _ & _ & _ & SC & _).
  apply scalars_ok_spec in SC. destruct SC as (Hside & _).
  pose proof (board_wf_len p W) as L. unfold len64 in L.
  pose proof (make_move_counts K p ms m q L A G Hin MM) as HC.
  unfold material_ok in *. apply andb_true_iff in MO. destruct MO as [M0 M1].
  unfold side_material_ok in *.
  pose proof (men_king q 0%N Wq Aq Oq eq_refl) as K0. pose proof (men_king q 1%N Wq Aq Oq eq_refl) as K1.
  unfold men in *.
  destruct HC as [[_ HC]|[Ep HC]].
  - apply andb_true_iff. split.
    + eapply counts_ok_mono; [exact M0|..]; try (apply HC, new_piece_nonzero). exact K0.
    + eapply counts_ok_mono; [exact M1|..]; try (apply HC, new_piece_nonzero). exact K1.
  - pose proof (promo_range m) as PR.
    assert (Hs2 : (side p < 2)%N) by (destruct Hside as [-> | ->]; reflexivity).
    assert (HC' : forall c t, (c < 2)%N -> (t < 6)%N ->
       count_pc (board q) (new_piece c t) <= count_pc (board p) (new_piece c t)
         - b2z ((side p =? c) && (PAWN =? t))%N + b2z ((side p =? c) && (mv_promo m =? t))%N).
    { intros c t Hc Ht. specialize (HC (new_piece c t) (new_piece_nonzero c t)).
      rewrite !new_piece_inj in HC by (auto; try reflexivity; lia). exact HC. }
    pose proof (HC' 0%N 0%N eq_refl eq_refl) as W0. pose proof (HC' 0%N 1%N eq_refl eq_refl) as W1.
    pose proof (HC' 0%N 2%N eq_refl eq_refl) as W2. pose proof (HC' 0%N 3%N eq_refl eq_refl) as W3.
    pose proof (HC' 0%N 4%N eq_refl eq_refl) as W4.
    pose proof (HC' 1%N 0%N eq_refl eq_refl) as B0. pose proof (HC' 1%N 1%N eq_refl eq_refl) as B1.
    pose proof (HC' 1%N 2%N eq_refl eq_refl) as B2. pose proof (HC' 1%N 3%N eq_refl eq_refl) as B3.
    pose proof (HC' 1%N 4%N eq_refl eq_refl) as B4.
    clear HC HC'.
    change PAWN with 0%N in *. change KNIGHT with 1%N in *. change BISHOP with 2%N in *.
    change ROOK with 3%N in *. change QUEEN with 4%N in *. change KING with 5%N in *.
    change WHITE with 0%N in *. change BLACK with 1%N in *.
    apply andb_true_iff.
    destruct Hside as [Es | Es]; rewrite Es in *; cbn [N.eqb Pos.eqb andb b2z] in *.
    + split.
      * eapply (counts_ok_promo _ _ _ _ _ _ _ _ _ _ _ _
                  (b2z (mv_promo m =? 1)%N) (b2z (mv_promo m =? 2)%N) (b2z (mv_promo m =? 3)%N) (b2z (mv_promo m =? 4)%N));
          [exact M0|..]; try exact K0; unfold b2z in *;
          destruct (mv_promo m =? 0)%N eqn:Q0; destruct (mv_promo m =? 1)%N eqn:Q1; destruct (mv_promo m =? 2)%N eqn:Q2;
          destruct (mv_promo m =? 3)%N eqn:Q3; destruct (mv_promo m =? 4)%N eqn:Q4; lia.
      * eapply counts_ok_mono; [exact M1|..]; try exact K1; lia.
    + split.
      * eapply counts_ok_mono; [exact M0|..]; try exact K0; lia.
      * eapply (counts_ok_promo _ _ _ _ _ _ _ _ _ _ _ _
                  (b2z (mv_promo m =? 1)%N) (b2z (mv_promo m =? 2)%N) (b2z (mv_promo m =? 3)%N) (b2z (mv_promo m =? 4)%N));
          [exact M1|..]; try exact K1; unfold b2z in *;
          destruct (mv_promo m =? 0)%N eqn:Q0; destruct (mv_promo m =? 1)%N eqn:Q1; destruct (mv_promo m =? 2)%N eqn:Q2;
          destruct (mv_promo m =? 3)%N eqn:Q3; destruct (mv_promo m =? 4)%N eqn:Q4; lia.
Qed.

(* the form in which C10 delivers the side condition *)
Corollary material_step_nocheck p ms m q :
  material_ok p = true -> Inv p -> gen_moves p = Ok ms -> In m ms -> make_move K p m = Ok q ->
  inv_nocheck_b q = true -> material_ok q = true.
Proof.
  intros MO I G Hin MM IQ. unfold inv_nocheck_b in IQ. rewrite !andb_true_iff in IQ.
  destruct IQ as [[[[[[[W A] _] O] _] _] _] _]. eapply material_step_views; eauto.
Qed.

Corollary material_step_inv p ms m q :
  material_ok p = true -> Inv p -> gen_moves p = Ok ms -> In m ms -> make_move K p m = Ok q ->
  Inv q -> material_ok q = true.
Proof.
  intros MO I G Hin MM IQ. destruct (inv_parts q IQ) as (W & A & _ & O & _). eapply material_step_views; eauto.
Qed.

(* legal moves, as search and perft enumerate them *)
Corollary material_step_legal p ls m q :
  material_ok p = true -> Inv p -> legal_moves K p = Ok ls -> In m ls -> make_move K p m = Ok q ->
  Inv q -> material_ok q = true.
Proof.
  intros MO I LM Hin MM IQ. destruct (legal_moves_in K p ls m LM Hin) as (ms & G & Hin').
  eapply material_step_inv; eauto.
Qed.

(* the start position *)
Theorem material_new_position p : new_position K = Ok p -> material_ok p = true.
Proof.
  unfold new_position. rewrite start_bbs_ok. cbn [bind]. unfold init_hash. intros H. bind_inv H. injection H as <-.
  vm_compute. reflexivity.
Qed.

End Main.

(* the statement asked for, without the side condition on the successor: it follows from
   [material_step_nocheck] and C10 ([gen_step_nocheck]: every generated move from a position satisfying the
   invariant leads to a position satisfying [inv_nocheck_b]) *)
Definition material_step_statement : Prop :=
  forall (K : zkeys) p ms m q,
    material_ok p = true -> Inv p -> gen_moves p = Ok ms -> In m ms -> make_move K p m = Ok q ->
    material_ok q = true.

Theorem material_step_from_C10 :
  (forall (K : zkeys) p ms m q, Inv p -> gen_moves p = Ok ms -> In m ms -> make_move K p m = Ok q ->
                                inv_nocheck_b q = true) ->
  material_step_statement.
Proof. intros C10 K p ms m q MO I G Hin MM. eapply material_step_nocheck; eauto. Qed.
