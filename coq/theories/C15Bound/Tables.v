(* C15: the facts about the generated evaluation tables of the current Go build that the bound uses
   (every look-up succeeds; per-type extrema of the piece-square tables; ranges of the small tables). *)
From Coq Require Import NArith ZArith List Bool Lia ZifyBool ZifyN ZifyNat.
From Clemens Require Import Base.Res Base.Word Pos.Types Att.Attacks Pos.Position Pos.Inv
  Pos.ZobristProofs Eval.Eval Eval.SeeInst.
From ClemensGen Require Import GoConsts.
Import ListNotations.
Open Scope Z_scope.

(* per piece type: minimum and maximum of the piece-square tables (the same for both colours, the black
   tables being the mirrored white ones), padded with 0 *)
Definition pst_lo (t : N) : Z := nth (N.to_nat t) [-20; -50; -20; -5; -20; -50] 0.
Definition pst_hi_mid (t : N) : Z := nth (N.to_nat t) [50; 20; 10; 10; 5; 30] 0.
Definition pst_hi_end (t : N) : Z := nth (N.to_nat t) [50; 20; 10; 10; 5; 40] 0.

Definition types6 : list N := [0; 1; 2; 3; 4; 5]%N.
Definition colours2 : list N := [0; 1]%N.

Definition pst_chk (c t sq : N) : bool :=
  match pst_at (ec_mid_pst go_econsts) c t sq, pst_at (ec_end_pst go_econsts) c t sq with
  | Ok dm, Ok de => (pst_lo t <=? dm) && (dm <=? pst_hi_mid t) && (pst_lo t <=? de) && (de <=? pst_hi_end t)
  | _, _ => false
  end.
Lemma pst_chk_all :
  forallb (fun c => forallb (fun t => forallb (fun sq => pst_chk c t sq) sq_list) types6) colours2 = true.
Proof. vm_compute. reflexivity. Qed.

Lemma in_types6 t : (t < 6)%N -> In t types6.
Proof.
  intros Ht. assert (t = 0 \/ t = 1 \/ t = 2 \/ t = 3 \/ t = 4 \/ t = 5)%N
    as [ -> | [ -> | [ -> | [ -> | [ -> | -> ]]]]] by lia; cbn; tauto.
Qed.
Lemma in_colours2 c : (c < 2)%N -> In c colours2.
Proof. intros Hc. assert (c = 0 \/ c = 1)%N as [-> | ->] by lia; cbn; tauto. Qed.

Lemma pst_at_go c t sq : (c < 2)%N -> (t < 6)%N -> (sq < 64)%N ->
  exists dm de, pst_at (ec_mid_pst go_econsts) c t sq = Ok dm /\ pst_at (ec_end_pst go_econsts) c t sq = Ok de /\
    pst_lo t <= dm <= pst_hi_mid t /\ pst_lo t <= de <= pst_hi_end t.
Proof.
  intros Hc Ht Hsq. pose proof pst_chk_all as H.
  rewrite forallb_forall in H. specialize (H c (in_colours2 c Hc)).
  rewrite forallb_forall in H. specialize (H t (in_types6 t Ht)).
  pose proof (forall_sq _ H sq Hsq) as H1. cbv beta in H1. unfold pst_chk in H1.
  destruct (pst_at (ec_mid_pst go_econsts) c t sq) as [dm| |]; try discriminate.
  destruct (pst_at (ec_end_pst go_econsts) c t sq) as [de| |]; try discriminate.
  exists dm, de. repeat split; lia.
Qed.

(* pawn-adjustment tables, indexed by a pawn count 0..8 *)
Definition adj_chk (n : N) : bool :=
  match nthz (ec_knight_pawn_adj go_econsts) n, nthz (ec_rook_pawn_adj go_econsts) n with
  | Ok k, Ok r => (-20 <=? k) && (k <=? 12) && (-9 <=? r) && (r <=? 15)
  | _, _ => false
  end.
Lemma adj_chk_all : forallb adj_chk [0; 1; 2; 3; 4; 5; 6; 7; 8]%N = true.
Proof. vm_compute. reflexivity. Qed.
Lemma adj_go n : (n <= 8)%N ->
  exists k r, nthz (ec_knight_pawn_adj go_econsts) n = Ok k /\ nthz (ec_rook_pawn_adj go_econsts) n = Ok r /\
    -20 <= k <= 12 /\ -9 <= r <= 15.
Proof.
  intros Hn. pose proof adj_chk_all as H. rewrite forallb_forall in H.
  assert (Hin : In n [0; 1; 2; 3; 4; 5; 6; 7; 8]%N).
  { assert (n = 0 \/ n = 1 \/ n = 2 \/ n = 3 \/ n = 4 \/ n = 5 \/ n = 6 \/ n = 7 \/ n = 8)%N
      as [ -> | [ -> | [ -> | [ -> | [ -> | [ -> | [ -> | [ -> | -> ]]]]]]]] by lia; cbn; tauto. }
  specialize (H n Hin). unfold adj_chk in H.
  destruct (nthz (ec_knight_pawn_adj go_econsts) n) as [k| |]; try discriminate.
  destruct (nthz (ec_rook_pawn_adj go_econsts) n) as [r| |]; try discriminate.
  exists k, r. repeat split; lia.
Qed.

(* a king attacks at most eight squares *)
Lemma king_attacks_le8 : forallb (fun sq => (popcount (king_attacks sq) <=? 8)%N) sq_list = true.
Proof. vm_compute. reflexivity. Qed.
Lemma pc_king_attacks sq : (sq < 64)%N -> pc (king_attacks sq) <= 8.
Proof. intros H. pose proof (forall_sq _ king_attacks_le8 sq H) as H1. cbv beta in H1. unfold pc. lia. Qed.

(* the small tables, by position *)
Lemma piece_value_go :
  nthz (ec_piece_value go_econsts) PAWN = Ok 100 /\ nthz (ec_piece_value go_econsts) KNIGHT = Ok 310 /\
  nthz (ec_piece_value go_econsts) BISHOP = Ok 310 /\ nthz (ec_piece_value go_econsts) ROOK = Ok 510 /\
  nthz (ec_piece_value go_econsts) QUEEN = Ok 910 /\ nthz (ec_piece_value go_econsts) KING = Ok 0.
Proof. repeat split; reflexivity. Qed.
Lemma king_att_go :
  nthz (ec_king_att go_econsts) PAWN = Ok 1 /\ nthz (ec_king_att go_econsts) KNIGHT = Ok 2 /\
  nthz (ec_king_att go_econsts) BISHOP = Ok 2 /\ nthz (ec_king_att go_econsts) ROOK = Ok 3 /\
  nthz (ec_king_att go_econsts) QUEEN = Ok 4 /\ nthz (ec_king_att go_econsts) KING = Ok 1.
Proof. repeat split; reflexivity. Qed.
Lemma isolani_go :
  nthz (ec_isolani go_econsts) 0 = Ok (-20) /\ nthz (ec_isolani go_econsts) 1 = Ok (-5).
Proof. split; reflexivity. Qed.
