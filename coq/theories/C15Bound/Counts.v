(* C15: what the invariant and [material_ok] give about the twelve bitboards: every [get_bb] succeeds,
   its popcount is the number of men on the square array, and the counts obey the material inequalities. *)
From Coq Require Import NArith ZArith List Bool Lia ZifyBool ZifyN ZifyNat.
From Clemens Require Import Base.Res Base.Word Pos.Types Att.Attacks Pos.Position Pos.Inv
  Pos.CapturesProofs Pos.ZobristProofs Eval.SeeBits Eval.Eval.
From Clemens.C15Bound Require Import Material.
Import ListNotations.
Open Scope Z_scope.

Definition b2z (b : bool) : Z := if b then 1 else 0.

(* ---- popcount = number of listed squares ---- *)
Lemma pop_pos_bits : forall q i, pop_pos q = N.of_nat (length (bits_pos q i)).
Proof.
  induction q as [q IH|q IH|]; intros i; cbn [pop_pos bits_pos length].
  - rewrite (IH (i + 1)%N). lia.
  - apply IH.
  - reflexivity.
Qed.
Lemma popcount_bits (b : N) : popcount b = N.of_nat (length (bits b)).
Proof. destruct b as [|q]; [reflexivity|]. apply pop_pos_bits. Qed.
Lemma pc_bits (b : N) : pc b = Z.of_nat (length (bits b)).
Proof. unfold pc. rewrite popcount_bits. lia. Qed.
Lemma pc_nonneg (b : N) : 0 <= pc b.
Proof. unfold pc. lia. Qed.

Lemma filter_length_le {A} (f : A -> bool) l : (length (filter f l) <= length l)%nat.
Proof. induction l as [|a l IH]; cbn; [lia|]. destruct (f a); cbn; lia. Qed.

Lemma pc_land_le_l (a b : N) : pc (N.land a b) <= pc a.
Proof. rewrite !pc_bits, bits_land. pose proof (filter_length_le (fun s => N.testbit b s) (bits a)). lia. Qed.
Lemma pc_land_le_r (a b : N) : pc (N.land a b) <= pc b.
Proof. rewrite N.land_comm. apply pc_land_le_l. Qed.

Lemma pc_le_64 (b : N) : (b < two64)%N -> pc b <= 64.
Proof.
  intros Hb. rewrite pc_bits, (bits_filter_squares b Hb).
  pose proof (filter_length_le (N.testbit b) squares64). change (length squares64) with 64%nat in H. lia.
Qed.

(* ---- the square array as a map over the 64 squares ---- *)
Lemma map_nth_seq {A} (d : A) (l : list A) : map (fun i => nth i l d) (seq 0 (length l)) = l.
Proof.
  induction l as [|a l IH]; [reflexivity|].
  cbn [length seq map nth]. f_equal. rewrite <- seq_shift, map_map. exact IH.
Qed.

Lemma board_as_map p : length (board p) = 64%nat -> map (piece_at p) squares64 = board p.
Proof.
  intros L. unfold squares64, piece_at. rewrite map_map.
  etransitivity; [|exact (map_nth_seq 0%N (board p))]. rewrite L.
  apply map_ext. intros i. now rewrite Nat2N.id.
Qed.

Lemma filter_map_length {A B} (f : B -> bool) (g : A -> B) l :
  length (filter (fun x => f (g x)) l) = length (filter f (map g l)).
Proof. induction l as [|a l IH]; [reflexivity|]. cbn. destruct (f (g a)); cbn; now rewrite IH. Qed.

(* ---- the bitboards under the invariant ---- *)
Lemma bb_at_facts p c t : bbs_agree p = true -> (c < 2)%N -> (t < 6)%N ->
  get_bb p c t = Ok (bb_at p c t) /\ (bb_at p c t < two64)%N /\
  forall sq, (sq < 64)%N -> N.testbit (bb_at p c t) sq = (piece_at p sq =? new_piece c t)%N.
Proof.
  intros A Hc Ht. unfold bbs_agree in A. apply andb_true_iff in A. destruct A as [L A].
  apply Nat.eqb_eq in L. rewrite forallb_forall in A. specialize (A _ (in_ct_pairs _ _ Hc Ht)). cbv beta iota in A.
  apply andb_true_iff in A. destruct A as [A1 A2]. apply N.ltb_lt in A1.
  split; [|split; [exact A1|]].
  - unfold get_bb, bb_index. assert (E : ((c <? 2) && (t <? 6))%N = true) by lia. rewrite E. cbn [bind].
    unfold nth_res, bb_at. assert (Hi : (N.to_nat (c * 6 + t) < length (bbs p))%nat) by lia.
    destruct (nth_error (bbs p) (N.to_nat (c * 6 + t))) eqn:En.
    + f_equal. symmetry. now apply nth_error_nth.
    + apply nth_error_None in En. lia.
  - intros sq Hsq. rewrite forallb_forall in A2. specialize (A2 sq). rewrite squares64_in in A2.
    specialize (A2 Hsq). now apply eqb_prop in A2.
Qed.

Lemma pc_bb_men p c t : board_wf p = true -> bbs_agree p = true -> (c < 2)%N -> (t < 6)%N ->
  pc (bb_at p c t) = men p c t.
Proof.
  intros W A Hc Ht. destruct (bb_at_facts p c t A Hc Ht) as (_ & Hlt & Hb).
  apply board_wf_len in W. unfold len64 in W.
  rewrite pc_bits, (bits_filter_squares _ Hlt). unfold men, count_pc. f_equal.
  rewrite <- (board_as_map p W).
  rewrite <- (filter_map_length (fun x => (x =? new_piece c t)%N) (piece_at p)).
  f_equal. apply filter_ext_in. intros sq Hsq. apply squares64_in in Hsq. now apply Hb.
Qed.

Lemma bb_bits_lt p c t sq : bbs_agree p = true -> (c < 2)%N -> (t < 6)%N -> In sq (bits (bb_at p c t)) -> (sq < 64)%N.
Proof.
  intros A Hc Ht Hin. destruct (bb_at_facts p c t A Hc Ht) as (_ & Hlt & _).
  apply bits_in in Hin. eapply high_false; eauto.
Qed.

(* ---- the inequalities on the counts ---- *)
Definition side_counts (P N B R Q K : Z) : Prop :=
  0 <= P <= 8 /\ 0 <= N /\ 0 <= B /\ 0 <= R /\ 0 <= Q /\ K = 1 /\
  Z.max 0 (N - 2) + Z.max 0 (B - 2) + Z.max 0 (R - 2) + Z.max 0 (Q - 1) <= 8 - P.

Lemma counts_ok_spec P N B R Q K : 0 <= P -> 0 <= N -> 0 <= B -> 0 <= R -> 0 <= Q ->
  counts_ok P N B R Q K = true -> side_counts P N B R Q K.
Proof. unfold counts_ok, side_counts. intros. lia. Qed.

Definition bbc (p : position) (c t : N) : Z := pc (bb_at p c t).

Lemma material_counts p : Inv p -> material_ok p = true ->
  side_counts (bbc p 0 0) (bbc p 0 1) (bbc p 0 2) (bbc p 0 3) (bbc p 0 4) (bbc p 0 5) /\
  side_counts (bbc p 1 0) (bbc p 1 1) (bbc p 1 2) (bbc p 1 3) (bbc p 1 4) (bbc p 1 5).
Proof.
  intros I M. destruct (inv_parts p I) as (W & A & _).
  unfold material_ok in M. apply andb_true_iff in M. destruct M as [M0 M1].
  unfold side_material_ok in M0, M1. unfold bbc.
  rewrite !(pc_bb_men p) by (auto; reflexivity).
  split; apply counts_ok_spec; auto; unfold men, count_pc; lia.
Qed.

(* the same without [Z.max]: one linear inequality for every subset of the four promotion targets
   (proof terms of [lia] over [Z.max] are slow to re-check, so the later files use this form) *)
Definition side_lin (P N B R Q K : Z) : Prop :=
  0 <= P <= 8 /\ 0 <= N /\ 0 <= B /\ 0 <= R /\ 0 <= Q /\ K = 1 /\
  (N - 2) <= 8 - P /\ (B - 2) <= 8 - P /\ (R - 2) <= 8 - P /\ (Q - 1) <= 8 - P /\
  (N - 2) + (B - 2) <= 8 - P /\ (N - 2) + (R - 2) <= 8 - P /\ (N - 2) + (Q - 1) <= 8 - P /\
  (B - 2) + (R - 2) <= 8 - P /\ (B - 2) + (Q - 1) <= 8 - P /\ (R - 2) + (Q - 1) <= 8 - P /\
  (N - 2) + (B - 2) + (R - 2) <= 8 - P /\ (N - 2) + (B - 2) + (Q - 1) <= 8 - P /\
  (N - 2) + (R - 2) + (Q - 1) <= 8 - P /\ (B - 2) + (R - 2) + (Q - 1) <= 8 - P /\
  (N - 2) + (B - 2) + (R - 2) + (Q - 1) <= 8 - P.

Lemma side_counts_lin P N B R Q K : side_counts P N B R Q K -> side_lin P N B R Q K.
Proof. unfold side_counts, side_lin. intros H. repeat split; lia. Qed.

Lemma material_lin p : Inv p -> material_ok p = true ->
  side_lin (bbc p 0 0) (bbc p 0 1) (bbc p 0 2) (bbc p 0 3) (bbc p 0 4) (bbc p 0 5) /\
  side_lin (bbc p 1 0) (bbc p 1 1) (bbc p 1 2) (bbc p 1 3) (bbc p 1 4) (bbc p 1 5).
Proof. intros I M. destruct (material_counts p I M) as [Hw Hb]. split; now apply side_counts_lin. Qed.

Ltac names := unfold WHITE, BLACK, PAWN, KNIGHT, BISHOP, ROOK, QUEEN, KING in *.
Ltac counts p I M :=
  let Hw := fresh "Hw" in let Hb := fresh "Hb" in
  destruct (material_lin p I M) as [Hw Hb]; unfold side_lin, bbc in Hw, Hb.

(* the helper bitboards *)
Lemma color_bb_ok p : helpers_agree p = true ->
  exists w b, by_color p = [w; b] /\ w = union6 p 0 /\ b = union6 p 1 /\ all_pieces p = N.lor w b.
Proof.
  unfold helpers_agree. destruct (by_color p) as [|w [|b [|? ?]]]; try discriminate.
  rewrite !andb_true_iff, !N.eqb_eq. intros [[H1 H2] H3]. exists w, b. auto.
Qed.
