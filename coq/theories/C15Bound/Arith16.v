(* C15: int16 operations that do not wrap, product bounds, and the tactic that removes
   [wrap16] from a goal when [lia] can see that the argument is in range. *)
From Coq Require Import NArith ZArith List Bool Lia ZifyBool ZifyN ZifyNat.
From Clemens Require Import Base.Res Base.Word Eval.Eval.
Import ListNotations.
Open Scope Z_scope.

Definition in16 (x : Z) : Prop := -32768 <= x <= 32767.

Lemma wrap16_id x : -32768 <= x <= 32767 -> wrap16 x = x.
Proof. intros H. unfold wrap16. rewrite Z.mod_small by lia. lia. Qed.

Lemma wrap16_range x : -32768 <= wrap16 x <= 32767.
Proof. unfold wrap16. pose proof (Z.mod_pos_bound (x + 32768) 65536). lia. Qed.

(* remove one [wrap16] whose argument lia can bound; try the occurrences until one works *)
Ltac unwrap1 :=
  match goal with
  | |- context [wrap16 ?x] => rewrite (wrap16_id x) by lia
  end.
Ltac unwrap := unfold add16, sub16, mul16, neg16; repeat unwrap1.

(* products *)
Lemma mul_bound a n A N : - A <= a <= A -> 0 <= n <= N -> - (A * N) <= a * n <= A * N.
Proof. intros Ha Hn. nia. Qed.

Lemma mul_bound2 a n lo hi N : lo <= a <= hi -> lo <= 0 <= hi -> 0 <= n <= N -> lo * N <= a * n <= hi * N.
Proof. intros Ha Hz Hn. nia. Qed.

(* the tapered sum is a convex combination *)
Lemma taper_bound m e g G M : - M <= m <= M -> - M <= e <= M -> 0 <= g <= G ->
  - (M * G) <= m * g <= M * G /\ - (M * G) <= e * (G - g) <= M * G /\
  - (M * G) <= m * g + e * (G - g) <= M * G.
Proof. intros Hm He Hg. nia. Qed.

Lemma quot_bound x G M : 0 < G -> - (M * G) <= x <= M * G -> - M <= Z.quot x G <= M.
Proof.
  intros HG Hx. assert (HM : 0 <= M) by nia.
  destruct (Z.le_gt_cases 0 x) as [P|Ng].
  - rewrite Z.quot_div_nonneg by lia. split.
    + pose proof (Z.div_pos x G P HG). lia.
    + apply Z.div_le_upper_bound; lia.
  - replace x with (- (- x)) by lia. rewrite Z.quot_opp_l by lia.
    rewrite Z.quot_div_nonneg by lia. split.
    + assert ((- x) / G <= M) by (apply Z.div_le_upper_bound; lia). lia.
    + assert (0 <= (- x) / G) by (apply Z.div_pos; lia). lia.
Qed.

(* bind helpers *)
Lemma bind_Ok {A B} (a : A) (f : A -> res B) : bind (Ok a) f = f a.
Proof. reflexivity. Qed.
