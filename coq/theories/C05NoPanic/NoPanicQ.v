(* No-panic, part 3: the quiescence search never panics on a legal position (Go constants).
   A walk through the body of [quiescence] (pieces of Search/SearchStruct.v), each call into the
   position / evaluation / ordering layer being discharged by the lemmas of Leaves.v, SeeCaps.v. *)
From Coq Require Import NArith ZArith List Bool FMapPositive Lia.
From Clemens Require Import Base.Res Base.Word Pos.Types Att.Attacks Pos.Position Pos.Inv
     Pos.CapturesProofs Eval.Eval
     Search.TT Search.Ordering Search.OrderingProofs Search.Negamax Search.SearchStruct
     Search.SearchLines Search.GoInst.
From Clemens.C13Mate Require Import MateDefs.
From Clemens.C13Bridge Require Import Bridge.
From Clemens.C05NoPanic Require Import Leaves SeeCaps.
Import ListNotations.
Open Scope Z_scope.

(* the result is a value, the cancellation error or "out of fuel": no Go panic *)
Definition npP {A} (x : sresult A * sst) : Prop := fst x <> RPanic.

Lemma npP_ok : forall A (a : A) s, npP (ROk a, s).
Proof. intros; unfold npP; cbn [fst]; discriminate. Qed.
Lemma npP_cancel : forall A s, @npP A (RCancel, s).
Proof. intros; unfold npP; cbn [fst]; discriminate. Qed.
Lemma npP_fuel : forall A s, @npP A (ROutOfFuel, s).
Proof. intros; unfold npP; cbn [fst]; discriminate. Qed.

(* the scrutinee of the head match is known to be [r] by the equation [E] (used up to conversion) *)
Ltac head_is E :=
  lazymatch type of E with
  | _ = ?r =>
    lazymatch goal with
    | |- npP (match ?d with _ => _ end) => replace d with r by (symmetry; exact E)
    end
  end.

Lemma nth_sorted_some : forall ms k i, (S k + i = length ms)%nat -> exists m, nth_error (sort_index ms i) i = Some m.
Proof.
  intros ms k i H. destruct (nth_error (sort_index ms i) i) as [m|] eqn:E; [eauto|].
  apply nth_error_None in E. rewrite sort_index_length in E. lia.
Qed.

Section WithQRec.
Variable qrec : q_rec.
Variable ply : N.
Hypothesis Hq : forall s q a b, legal_pos q -> npP (qrec s q a b (w8 (ply + 1))).

Lemma qloop_N : forall p sp beta k i ms s alpha,
  legal_pos p -> (forall x, In x ms -> capturable p x) -> (k + i = length ms)%nat ->
  npP (q_loop go_keys go_econsts qrec p sp beta ply k i ms s alpha).
Proof.
  intros p sp beta k; induction k as [|k IH]; intros i ms s alpha HL Hms Hlen.
  - cbn. apply npP_ok.
  - pose proof HL as [HI _].
    unfold q_loop; fold (q_loop go_keys go_econsts qrec p sp beta ply). cbv zeta.
    destruct (nth_sorted_some ms k i Hlen) as (m & En). rewrite En.
    assert (Hms' : forall x, In x (sort_index ms i) -> capturable p x) by (apply capturable_sorted; exact Hms).
    assert (Hlen' : (k + S i = length (sort_index ms i))%nat) by (rewrite sort_index_length; lia).
    assert (Hc : capturable p m) by (apply Hms'; eapply nth_error_In; exact En).
    pose proof (capturable_movable p m Hc) as Hmv.
    destruct (delta_skip_np p m sp alpha HL Hc) as (b1 & E1). head_is E1.
    destruct b1; [apply IH; assumption|].
    destruct (see_skip_np p m HL Hc) as (b2 & E2). head_is E2.
    destruct b2; [apply IH; assumption|].
    destruct (movable_make_np p m HI Hmv) as (q & Eq). rewrite Eq.
    destruct (movable_legal_np p m q HI Hmv Eq) as (lg & El). rewrite El.
    destruct lg; [|apply IH; assumption].
    assert (HLq : legal_pos q) by (eapply (legal_pos_move go_keys); eauto).
    pose proof (Hq s q (neg16 beta) (neg16 alpha) HLq) as Hr.
    destruct (qrec s q (neg16 beta) (neg16 alpha) (w8 (ply + 1))) as [[v| | |] s1]; unfold npP in Hr; cbn [fst] in Hr.
    + destruct (beta <=? neg16 v); [apply npP_ok|apply IH; assumption].
    + apply npP_cancel.
    + contradiction.
    + apply npP_fuel.
Qed.
End WithQRec.

(* whatever the search constants (only the quiescence depth limit is read) *)
Theorem quiescence_N : forall SC f s p alpha beta ply,
  legal_pos p -> npP (quiescence go_keys go_econsts go_oconsts SC f s p alpha beta ply).
Proof.
  intro SC. induction f as [|f IH]; intros s p alpha beta ply HL; [cbn; apply npP_fuel|].
  pose proof HL as [HI _].
  rewrite quiescence_eq. cbv zeta.
  destruct (poll (upd_nodes s (w64 (s_nodes s + 1)))) as [[|] s0]; [apply npP_cancel|].
  destruct (evaluate_np s0 p HL) as (sp & s1 & Ee). rewrite Ee.
  destruct (beta <=? sp); [apply npP_ok|].
  destruct (ply =? sc_q_max_depth SC)%N; [apply npP_ok|].
  destruct (gen_captures_np p HI) as (caps & Ec). rewrite Ec.
  destruct (score_moves_np p (hctx_of s1 p NULL_MOVE NULL_MOVE ply) caps HI (or_intror Ec)) as (ms & Es). rewrite Es.
  apply qloop_N.
  - intros s2 q a b HLq. apply IH. exact HLq.
  - exact HL.
  - eapply capturable_scored; eauto.
  - lia.
Qed.

Theorem go_quiescence_no_panic : forall f s p alpha beta ply,
  legal_pos p -> fst (go_quiescence f s p alpha beta ply) <> RPanic.
Proof. intros. apply quiescence_N. assumption. Qed.

Print Assumptions go_quiescence_no_panic.
