(* No-panic, part 5: the root search, the iterative-deepening loop and [search], for any state of the
   shared tables / heuristics / PV / output and any cancellation oracle; composition with termination
   (C05Term): a legal root always gets an answer. *)
From Coq Require Import NArith ZArith List Bool FMapPositive Lia ZifyBool ZifyN ZifyNat.
From Clemens Require Import Base.Res Base.Word Pos.Types Att.Attacks Pos.Position Pos.Inv
     Pos.CapturesProofs Eval.Eval
     Search.TT Search.Ordering Search.OrderingProofs Search.Negamax Search.SearchStruct
     Search.SearchLines Search.SearchIter Search.SearchGo Search.GoInst.
From Clemens.C13Mate Require Import MateDefs.
From Clemens.C13Bridge Require Import Bridge.
From Clemens.C05Term Require Import NoFuel Rank GoTerm.
From Clemens.C05NoPanic Require Import Leaves SeeCaps NoPanicQ NoPanicN.
Import ListNotations.
Open Scope Z_scope.

(* uint8 depth arithmetic (as in C05Term/Rank.v) *)
Lemma w8_pred' : forall d, d <> 0%N -> (w8 (d + 256 - 1) < d)%N.
Proof.
  intros d Hd. unfold w8.
  Ltac Zify.zify_post_hook ::= Z.to_euclidean_division_equations.
  lia.
Qed.
Lemma w8_ext' : forall d, w8 (d + 1) <> 0%N -> (w8 (w8 (d + 1) + 256 - 1) <= d)%N.
Proof.
  intros d Hd. unfold w8 in *.
  pose proof (N.mod_upper_bound (d + 1) 256 ltac:(discriminate)) as H1.
  pose proof (N.mod_le (d + 1) 256 ltac:(discriminate)) as H2.
  set (r := ((d + 1) mod 256)%N) in *.
  replace (r + 256 - 1)%N with ((r - 1) + 1 * 256)%N by lia.
  rewrite N.mod_add by discriminate. rewrite N.mod_small by lia. lia.
Qed.
Lemma w8_null' : forall d (R : N), (2 < d)%N -> (R = 2 \/ (R = 3 /\ 6 < d))%N -> (w8 (d + 256 - R - 1) < d)%N.
Proof. intros d R Hd HR. unfold w8. lia. Qed.
Ltac Zify.zify_post_hook ::= idtac.

Section Size.
Variable HS : N.
Notation gS := (go_sconsts_h HS).

(* ------------------------------------------------------------------ the loops, given the root searches *)
Lemma iter_N : forall fuel root md h,
  (forall s d a b, s_hist s = h -> (d <= md)%N -> npP (search_root gK gE gO gS fuel s root d a b)) ->
  forall iters rep s d a b, s_hist s = h ->
  npP (search_iterative gK gE gO gS iters fuel rep s root md d a b).
Proof.
  intros fuel root md h Hroot. induction iters as [|it IH]; intros rep s d a b Hs.
  - cbn. apply npP_fuel.
  - cbn [search_iterative].
    destruct (md <? d)%N eqn:Hlt; [apply npP_ok|]. apply N.ltb_ge in Hlt.
    pose proof (Hroot s d a b Hs Hlt) as Hr.
    destruct (search_root gK gE gO gS fuel s root d a b) as [[[score line]| | |] s0] eqn:Hsr;
      unfold npP in Hr; cbn [fst] in Hr;
      [ | apply npP_ok | contradiction | apply npP_fuel ].
    pose proof (search_root_frame gK gE gO gS _ _ _ _ _ _ _ _ Hsr) as [Hh _ _ _ _].
    match goal with |- npP (if ?c then _ else _) => destruct c end; apply IH; projs; congruence.
Qed.

Lemma search_N : forall fuel root req h,
  (forall s d a b, s_hist s = h -> (d <= N.max 1 (req_to_depth go_sconsts req))%N ->
     npP (search_root gK gE gO gS fuel s root d a b)) ->
  forall iters rep s, s_hist s = h -> npP (search gK gE gO gS iters fuel rep s root req).
Proof.
  intros fuel root req h Hroot iters rep s Hs. unfold search.
  change (sc_max_depth gS) with (sc_max_depth go_sconsts). fold (req_to_depth go_sconsts req). cbv zeta.
  assert (H1 : npP (search_iterative gK gE gO gS iters fuel rep s root (req_to_depth go_sconsts req) 1 (- INF gE) (INF gE))).
  { apply (iter_N fuel root (req_to_depth go_sconsts req) h); [intros; apply Hroot; [assumption|lia]|exact Hs]. }
  destruct (search_iterative gK gE gO gS iters fuel rep s root (req_to_depth go_sconsts req) 1 (- INF gE) (INF gE))
    as [[[]| | |] s1] eqn:E1; unfold npP in H1; cbn [fst] in H1;
    [ | apply npP_cancel | contradiction | apply npP_fuel ].
  apply (iter_hist gK gE gO gS) in E1.
  destruct (best_move s1 =? NULL_MOVE)%N; [|apply npP_ok].
  assert (H2 : npP (search_iterative gK gE gO gS iters fuel rep (set_cancel s1 None) root 1 1 (- INF gE) (INF gE))).
  { apply (iter_N fuel root 1%N h); [intros; apply Hroot; [assumption|lia]|projs; congruence]. }
  destruct (search_iterative gK gE gO gS iters fuel rep (set_cancel s1 None) root 1 1 (- INF gE) (INF gE))
    as [[[]| | |] s2]; unfold npP in H2; cbn [fst] in H2;
    [ apply npP_ok | apply npP_cancel | contradiction | apply npP_fuel ].
Qed.

(* ------------------------------------------------------------------ instance 1: stack length + fuel *)
Theorem search_root_N : forall f s root depth alpha beta,
  legal_pos root -> (length (s_hist s) + f <= N.to_nat HS)%nat ->
  npP (search_root gK gE gO gS f s root depth alpha beta).
Proof. intros. unfold search_root. apply negamax_N; [assumption|projs; assumption]. Qed.

Theorem search_iterative_N : forall iters f rep s root md d a b,
  legal_pos root -> (length (s_hist s) + f <= N.to_nat HS)%nat ->
  npP (search_iterative gK gE gO gS iters f rep s root md d a b).
Proof.
  intros iters f rep s root md d a b HL Hf.
  apply (iter_N f root md (s_hist s)); [|reflexivity].
  intros s1 d1 a1 b1 Hs1 _. apply search_root_N; [exact HL|rewrite Hs1; exact Hf].
Qed.

Theorem search_NP : forall iters f rep s root req,
  legal_pos root -> (length (s_hist s) + f <= N.to_nat HS)%nat ->
  npP (search gK gE gO gS iters f rep s root req).
Proof.
  intros iters f rep s root req HL Hf.
  apply (search_N f root req (s_hist s)); [|reflexivity].
  intros s1 d1 a1 b1 Hs1 _. apply search_root_N; [exact HL|rewrite Hs1; exact Hf].
Qed.

(* ------------------------------------------------------------------ instance 2: a ranking for the check extension *)
Section Ranking.
(* as in C05Term/Rank.v *)
Variable U : position -> Prop.
Variable cb : position -> nat.
Hypothesis cb_move : forall p m q, U p -> movable p m -> make_move gK p m = Ok q -> is_legal q = Ok true ->
  U q /\ (cb q <= cb p)%nat /\ (is_in_check p (side p) = Ok true -> (cb q < cb p)%nat).
Hypothesis cb_null : forall p q x, U p -> is_in_check p (side p) = Ok false -> make_null_move gK p = Ok (q, x) ->
  U q /\ (cb q <= cb p)%nat.

(* the nesting of the calls is at most depth + check budget: ANY fuel *)
Theorem negamax_N_ranked : forall f s p alpha beta depth ply cn pm rh,
  legal_pos p -> U p -> (length (s_hist s) + N.to_nat depth + cb p + 1 <= N.to_nat HS)%nat ->
  npP (negamax gK gE gO gS f s p alpha beta depth ply cn pm rh).
Proof.
  intros f s p alpha beta depth ply cn pm rh HL Hu Hf.
  apply (negamax_N_mu HS (fun _ p _ => U p) (fun _ p d => (N.to_nat d + cb p)%nat)).
  - intros h p0 d ic m q Hu0 Hic Hd Hmv Hmk Hl.
    destruct (cb_move p0 m q Hu0 Hmv Hmk Hl) as (Uq & Hle & Hlt). split; [exact Uq|].
    unfold ext_depth in *. destruct ic.
    + specialize (Hlt Hic). pose proof (w8_ext' d Hd). lia.
    + pose proof (w8_pred' d Hd). lia.
  - intros h p0 d q x Hu0 Hic Hd Hn. cbv zeta.
    destruct (cb_null p0 q x Hu0 Hic Hn) as (Uq & Hle). split; [exact Uq|].
    pose proof (w8_null' d (if (6 <? d)%N then 3 else 2)%N Hd
      ltac:(destruct (6 <? d)%N eqn:E6; [right; split; [reflexivity|apply N.ltb_lt; exact E6]|left; reflexivity])).
    lia.
  - exact HL.
  - exact Hu.
  - lia.
Qed.

Theorem search_N_ranked : forall iters f rep s root req,
  legal_pos root -> U root ->
  (length (s_hist s) + N.to_nat (N.max 1 (req_to_depth go_sconsts req)) + cb root + 1 <= N.to_nat HS)%nat ->
  npP (search gK gE gO gS iters f rep s root req).
Proof.
  intros iters f rep s root req HL Hu Hf.
  apply (search_N f root req (s_hist s)); [|reflexivity].
  intros s1 d1 a1 b1 Hs1 Hd. unfold search_root. apply negamax_N_ranked; [exact HL|exact Hu|].
  projs. rewrite Hs1. lia.
Qed.
End Ranking.
End Size.

(* "except by overflowing the repetition stack", literally: give the stack [HS] entries, enough for the
   entries already on it plus the nesting of the calls (bounded by the fuel), and nothing panics *)
Theorem go_search_no_panic_any_stack : forall HS iters f rep s root req,
  legal_pos root -> (length (s_hist s) + f <= N.to_nat HS)%nat ->
  fst (search go_keys go_econsts go_oconsts (go_sconsts_h HS) iters f rep s root req) <> RPanic.
Proof. intros. apply search_NP; assumption. Qed.

Theorem go_negamax_no_panic_any_stack : forall HS f s p alpha beta depth ply cn pm rh,
  legal_pos p -> (length (s_hist s) + f <= N.to_nat HS)%nat ->
  fst (negamax go_keys go_econsts go_oconsts (go_sconsts_h HS) f s p alpha beta depth ply cn pm rh) <> RPanic.
Proof. intros. apply negamax_N; assumption. Qed.

(* ------------------------------------------------------------------ [search] never reports the cancellation *)
Lemma search_not_cancel : forall K EC OC SC iters f rep s root req,
  fst (search K EC OC SC iters f rep s root req) <> RCancel.
Proof.
  intros. unfold search. cbv zeta.
  match goal with |- context [search_iterative K EC OC SC iters f rep s root ?md 1 ?a ?b] =>
    destruct (search_iterative K EC OC SC iters f rep s root md 1 a b) as [[[]| | |] s1] eqn:E1 end;
    cbn [fst]; try discriminate.
  - destruct (best_move s1 =? NULL_MOVE)%N; [|cbn [fst]; discriminate].
    destruct (search_iterative K EC OC SC iters f rep (set_cancel s1 None) root 1 1 (- INF EC) (INF EC))
      as [[[]| | |] s2] eqn:E2; cbn [fst]; try discriminate.
    exfalso. exact (iter_not_cancel K EC OC SC _ _ _ _ _ _ _ _ _ _ E2).
  - exfalso. exact (iter_not_cancel K EC OC SC _ _ _ _ _ _ _ _ _ _ E1).
Qed.

(* ================================================================== the Go build (1024 entries) *)
Theorem go_search_root_no_panic : forall f s root depth alpha beta,
  legal_pos root -> (length (s_hist s) + f <= 1024)%nat ->
  fst (go_search_root f s root depth alpha beta) <> RPanic.
Proof. intros. apply (search_root_N 1024); assumption. Qed.

Theorem go_search_iterative_no_panic : forall iters f rep s root md d a b,
  legal_pos root -> (length (s_hist s) + f <= 1024)%nat ->
  fst (go_search_iterative iters f rep s root md d a b) <> RPanic.
Proof. intros. apply (search_iterative_N 1024); assumption. Qed.

(* the whole search, any state of the shared tables / heuristics / PV, any cancellation oracle,
   repaired or unrepaired window test *)
Theorem go_search_no_panic_gen : forall iters f rep s root req,
  legal_pos root -> (length (s_hist s) + f <= 1024)%nat ->
  fst (go_search iters f rep s root req) <> RPanic.
Proof. intros. apply (search_NP 1024); assumption. Qed.

Theorem go_search_no_panic : forall iters f s root req,
  legal_pos root -> (length (s_hist s) + f <= 1024)%nat ->
  fst (go_search iters f true s root req) <> RPanic.
Proof. intros. apply go_search_no_panic_gen; assumption. Qed.

(* with a ranking (C05Term/Rank.v) the bound is on the stack alone, and the fuel is arbitrary *)
Theorem go_negamax_no_panic_ranked : forall (U : position -> Prop) (cb : position -> nat),
  (forall p m q, U p -> movable p m -> make_move go_keys p m = Ok q -> is_legal q = Ok true ->
     U q /\ (cb q <= cb p)%nat /\ (is_in_check p (side p) = Ok true -> (cb q < cb p)%nat)) ->
  (forall p q x, U p -> is_in_check p (side p) = Ok false -> make_null_move go_keys p = Ok (q, x) ->
     U q /\ (cb q <= cb p)%nat) ->
  forall f s p alpha beta depth ply cn pm rh,
  legal_pos p -> U p -> (length (s_hist s) + N.to_nat depth + cb p + 1 <= 1024)%nat ->
  fst (go_negamax f s p alpha beta depth ply cn pm rh) <> RPanic.
Proof. intros U cb Hm Hn; intros. apply (negamax_N_ranked 1024 U cb Hm Hn); assumption. Qed.

Theorem go_search_no_panic_ranked : forall (U : position -> Prop) (cb : position -> nat),
  (forall p m q, U p -> movable p m -> make_move go_keys p m = Ok q -> is_legal q = Ok true ->
     U q /\ (cb q <= cb p)%nat /\ (is_in_check p (side p) = Ok true -> (cb q < cb p)%nat)) ->
  (forall p q x, U p -> is_in_check p (side p) = Ok false -> make_null_move go_keys p = Ok (q, x) ->
     U q /\ (cb q <= cb p)%nat) ->
  forall iters f rep s root req,
  legal_pos root -> U root ->
  (length (s_hist s) + N.to_nat (N.max 1 (req_to_depth go_sconsts req)) + cb root + 1 <= 1024)%nat ->
  fst (go_search iters f rep s root req) <> RPanic.
Proof. intros U cb Hm Hn; intros. apply (search_N_ranked 1024 U cb Hm Hn); assumption. Qed.

(* ------------------------------------------------------------------ composed with termination: an answer *)
Theorem go_search_answers : forall (U : position -> Prop) (cb : position -> nat),
  (forall p m q, U p -> movable p m -> make_move go_keys p m = Ok q -> is_legal q = Ok true ->
     U q /\ (cb q <= cb p)%nat /\ (is_in_check p (side p) = Ok true -> (cb q < cb p)%nat)) ->
  (forall p q x, U p -> is_in_check p (side p) = Ok false -> make_null_move go_keys p = Ok (q, x) ->
     U q /\ (cb q <= cb p)%nat) ->
  forall iters f s root req,
  legal_pos root -> U root -> (req < 255)%N -> (510 <= iters)%nat ->
  (N.to_nat (N.max 1 (req_to_depth go_sconsts req)) + cb root + 258 <= f)%nat ->
  (length (s_hist s) + f <= 1024)%nat ->
  exists m s', go_search iters f true s root req = (ROk m, s').
Proof.
  intros U cb Hm Hn iters f s root req HL Hu Hreq Hit Hf Hh.
  pose proof (go_search_ranked U cb Hm Hn iters f s root req Hu Hreq Hit Hf) as H1.
  pose proof (go_search_no_panic iters f s root req HL Hh) as H2.
  pose proof (search_not_cancel go_keys go_econsts go_oconsts go_sconsts iters f true s root req) as H3.
  fold (go_search iters f true s root req) in H3.
  destruct (go_search iters f true s root req) as [[m| | |] s']; cbn [fst] in *; try contradiction. eauto.
Qed.

(* the same with the natural bound: the stack must have room for depth + check budget + 1 entries;
   every sufficient fuel gives the answer *)
Theorem go_search_answers_ranked : forall (U : position -> Prop) (cb : position -> nat),
  (forall p m q, U p -> movable p m -> make_move go_keys p m = Ok q -> is_legal q = Ok true ->
     U q /\ (cb q <= cb p)%nat /\ (is_in_check p (side p) = Ok true -> (cb q < cb p)%nat)) ->
  (forall p q x, U p -> is_in_check p (side p) = Ok false -> make_null_move go_keys p = Ok (q, x) ->
     U q /\ (cb q <= cb p)%nat) ->
  forall iters f s root req,
  legal_pos root -> U root -> (req < 255)%N -> (510 <= iters)%nat ->
  (N.to_nat (N.max 1 (req_to_depth go_sconsts req)) + cb root + 258 <= f)%nat ->
  (length (s_hist s) + N.to_nat (N.max 1 (req_to_depth go_sconsts req)) + cb root + 1 <= 1024)%nat ->
  exists m s', go_search iters f true s root req = (ROk m, s').
Proof.
  intros U cb Hm Hn iters f s root req HL Hu Hreq Hit Hf Hh.
  pose proof (go_search_ranked U cb Hm Hn iters f s root req Hu Hreq Hit Hf) as H1.
  pose proof (go_search_no_panic_ranked U cb Hm Hn iters f true s root req HL Hu Hh) as H2.
  pose proof (search_not_cancel go_keys go_econsts go_oconsts go_sconsts iters f true s root req) as H3.
  fold (go_search iters f true s root req) in H3.
  destruct (go_search iters f true s root req) as [[m| | |] s']; cbn [fst] in *; try contradiction. eauto.
Qed.

Print Assumptions go_search_no_panic.
Print Assumptions go_search_no_panic_any_stack.
Print Assumptions go_search_no_panic_ranked.
Print Assumptions go_search_answers.
Print Assumptions go_search_answers_ranked.
