(* No-panic, part 4: [negamax] on a legal position panics only by overflowing the repetition stack.
   A walk through the pieces of the body (Search/SearchStruct.v): [nm_pvs], [nm_nmp], [nm_loop],
   [nm_inner], then induction on fuel.  The repetition stack is as long at the end of every inner call
   as at its start ([specA], Search/SearchStruct.v), so one fact about it serves a whole node.

   The size of the repetition stack is a parameter [HS] ([go_sconsts_h HS]; the Go build has 1024):
   with a stack that has room for the nesting of the calls there is no panic at all, i.e. the ONLY
   panic of the search on a legal position is the index-out-of-range of [searchHistory].
   Two instances of the generic node lemma:
   - [negamax_N]: stack length + fuel <= HS (fuel bounds the nesting);
   - [negamax_N_mu]: any measure [mu] that strictly decreases along every inner call (as in
     C05Term/NoFuel.v), stack length + mu + 1 <= HS, ANY fuel. *)
From Coq Require Import NArith ZArith List Bool FMapPositive Lia.
From Clemens Require Import Base.Res Base.Word Pos.Types Att.Attacks Pos.Position Pos.Inv
     Pos.CapturesProofs Eval.Eval
     Search.TT Search.Ordering Search.OrderingProofs Search.Negamax Search.SearchStruct
     Search.SearchLines Search.GoInst.
From Clemens.C13Mate Require Import MateDefs.
From Clemens.C13Bridge Require Import Bridge.
From Clemens.C05Term Require Import NoFuel.
From Clemens.C05NoPanic Require Import Leaves SeeCaps NoPanicQ.
Import ListNotations.
Open Scope Z_scope.

(* the search constants of the Go build with a repetition stack of [HS] entries *)
Definition go_sconsts_h (HS : N) : sconsts :=
  {| sc_widen := sc_widen go_sconsts; sc_max_depth := sc_max_depth go_sconsts;
     sc_q_max_depth := sc_q_max_depth go_sconsts; sc_fut_depth := sc_fut_depth go_sconsts;
     sc_fut_margin := sc_fut_margin go_sconsts; sc_static_null_margin := sc_static_null_margin go_sconsts;
     sc_tt_buckets := sc_tt_buckets go_sconsts; sc_tt_bucket_size := sc_tt_bucket_size go_sconsts;
     sc_hist_size := HS |}.

Lemma go_sconsts_1024 : go_sconsts = go_sconsts_h 1024.
Proof. reflexivity. Qed.

Notation gK := go_keys.
Notation gE := go_econsts.
Notation gO := go_oconsts.

Lemma evaluate_same : forall s p v s1, evaluate gE s p = ROk (v, s1) -> s_hist s1 = s_hist s.
Proof.
  intros s p v s1 E. pose proof (evaluate_A gE s p) as H. rewrite E in H. destruct H as (H & _). exact H.
Qed.

Section Size.
Variable HS : N.
Notation gS := (go_sconsts_h HS).

Lemma snm_N : forall s p beta depth ic pv, legal_pos p ->
  exists o s1, nm_snm gE gS s p beta depth ic pv = ROk (o, s1) /\ s_hist s1 = s_hist s.
Proof.
  intros s p beta depth ic pv HL. unfold nm_snm.
  destruct (negb ic && negb pv && negb (is_checkmate_value gE beta)).
  - destruct (evaluate_np s p HL) as (v & s1 & E). rewrite E. cbv zeta.
    eexists _, s1. split; [reflexivity|]. eapply evaluate_same; eauto.
  - eauto.
Qed.

Lemma fpr_N : forall s p alpha beta depth ic pv, legal_pos p ->
  exists b s1, nm_fpr gE gS s p alpha beta depth ic pv = ROk (b, s1) /\ s_hist s1 = s_hist s.
Proof.
  intros s p alpha beta depth ic pv HL. unfold nm_fpr.
  change (sc_fut_depth gS) with (sc_fut_depth go_sconsts).
  change (sc_fut_margin gS) with (sc_fut_margin go_sconsts).
  destruct (negb pv) ; cbn [andb]; [|eauto].
  destruct (depth <? sc_fut_depth go_sconsts)%N eqn:Ed; cbn [andb]; [|eauto].
  match goal with |- context [if ?b then _ else _] => destruct b end; [|eauto].
  destruct (evaluate_np s p HL) as (v & s1 & E). rewrite E.
  destruct (fut_margin_np depth Ed) as (mg & ->).
  eexists _, s1. split; [reflexivity|]. eapply evaluate_same; eauto.
Qed.

Lemma fut_skip_np : forall (fp : bool) p m q, Inv p -> Inv q ->
  exists b, (if fp then
               c <- is_capture p m ;;
               if negb c && negb (mv_kind m =? PROMOTION)%N then
                 (chk <- is_in_check q (side q) ;; Ok (negb chk))
               else Ok false
             else Ok false) = Ok b.
Proof.
  intros fp p m q HI HIq. destruct fp; [|eauto].
  rewrite (is_capture_total p m HI). cbn [bind].
  match goal with |- context [if ?b then _ else _] => destruct b end; [|eauto].
  destruct (in_check_np q HIq) as (b & ->). cbn [bind]. eauto.
Qed.

(* ------------------------------------------------------------------ the pieces, given the inner calls *)
Section WithRec.
Variable rec : nm_rec.
(* what is known at the inner calls: a fact about (repetition stack, position, depth) *)
Variable P : list N -> position -> N -> Prop.
Hypothesis Hrec : forall s q a b d pl cn pm rh,
  legal_pos q -> P (s_hist s) q d -> npP (rec s q a b d pl cn pm rh).
Hypothesis Hframe : forall s q a b d pl cn pm rh, specA s (rec s q a b d pl cn pm rh).

(* one inner call: its result is not a panic, and its final stack is the initial one *)
Ltac call_rec HLq HP :=
  lazymatch goal with
  | |- npP (match rec ?s1 ?q ?a ?b ?d ?pl ?cn ?pm ?rh with _ => _ end) =>
      let Hr := fresh "Hr" in let F := fresh "F" in let Fh := fresh "Fh" in
      pose proof (Hrec s1 q a b d pl cn pm rh HLq HP) as Hr;
      pose proof (Hframe s1 q a b d pl cn pm rh) as F;
      destruct (rec s1 q a b d pl cn pm rh) as [[[? ?]| | |] ?];
      unfold npP in Hr; cbn [fst] in Hr;
      destruct F as ([Fh _ _ _ _] & _ & _); cbn [snd] in Fh;
      [ | apply npP_cancel | contradiction | apply npP_fuel ]
  end.

Lemma pvs_N : forall s q alpha beta d1 pl1 pm rh lg,
  legal_pos q -> P (s_hist s) q d1 ->
  npP (nm_pvs rec s q alpha beta d1 pl1 pm rh lg).
Proof.
  intros s q alpha beta d1 pl1 pm rh lg HLq HP. unfold nm_pvs.
  destruct (lg =? 1)%N.
  - call_rec HLq HP. apply npP_ok.
  - call_rec HLq HP. cbv zeta.
    match goal with |- context [if ?b then _ else _] => destruct b end; [|apply npP_ok].
    assert (HP2 : P (s_hist s0) q d1) by (rewrite Fh; exact HP).
    call_rec HLq HP2. apply npP_ok.
Qed.

Lemma nmp_N : forall s p beta depth ply cn ic pv rh,
  legal_pos p -> is_in_check p (side p) = Ok ic ->
  (ic = false -> (2 < depth)%N -> forall q x, make_null_move gK p = Ok (q, x) ->
     P (s_hist s) q (w8 (depth + 256 - (if (6 <? depth)%N then 3 else 2) - 1))) ->
  npP (nm_nmp gK gE rec s p beta depth ply cn ic pv rh).
Proof.
  intros s p beta depth ply cn ic pv rh HL Eic HPn. unfold nm_nmp.
  destruct (2 <? depth)%N eqn:E2; cbn [andb]; [|apply npP_ok].
  destruct cn; cbn [andb]; [|apply npP_ok].
  destruct ic; cbn [negb andb]; [apply npP_ok|].
  apply N.ltb_lt in E2. specialize (HPn eq_refl E2).
  match goal with |- context [if ?b then _ else _] => destruct b end; [|apply npP_ok].
  destruct (evaluate_np s p HL) as (v & s1 & E). rewrite E.
  destruct (beta <? v); [|apply npP_ok].
  destruct (null_np p) as (q & x & En). rewrite En. cbv zeta.
  assert (HLq : legal_pos q) by (eapply (legal_pos_null gK); eauto).
  assert (HP1 : P (s_hist s1) q (w8 (depth + 256 - (if (6 <? depth)%N then 3 else 2) - 1)))
    by (rewrite (evaluate_same _ _ _ _ E); eapply HPn; exact En).
  call_rec HLq HP1.
  match goal with |- context [if ?b then _ else _] => destruct b end; apply npP_ok.
Qed.

Section Loop.
Variable p : position.
Variable h : list N.
Variable d1 : N.
Hypothesis HL : legal_pos p.
Hypothesis HPm : forall m q, movable p m -> make_move gK p m = Ok q -> is_legal q = Ok true -> P h q d1.

Lemma loop_N : forall beta depth ply pm rh fp k i ms s L,
  w8 (depth + 256 - 1) = d1 -> s_hist s = h ->
  (forall x, In x ms -> movable p x) -> (k + i = length ms)%nat ->
  npP (nm_loop gK gO rec p beta depth ply pm rh fp k i ms s L).
Proof.
  intros beta depth ply pm rh fp k; induction k as [|k IH]; intros i ms s L Hd Hh Hms Hlen.
  - cbn. apply npP_ok.
  - pose proof HL as [HI _].
    unfold nm_loop; fold (nm_loop gK gO rec p beta depth ply pm rh fp). cbv zeta. rewrite Hd.
    destruct (nth_sorted_some ms k i Hlen) as (m & En). rewrite En.
    assert (Hms' : forall x, In x (sort_index ms i) -> movable p x) by (apply movable_sorted; exact Hms).
    assert (Hlen' : (k + S i = length (sort_index ms i))%nat) by (rewrite sort_index_length; lia).
    assert (Hmv : movable p m) by (apply Hms'; eapply nth_error_In; exact En).
    destruct (movable_make_np p m HI Hmv) as (q & Eq). rewrite Eq.
    destruct (movable_legal_np p m q HI Hmv Eq) as (lg & El). rewrite El.
    destruct lg; [|apply IH; assumption].
    assert (HLq : legal_pos q) by (eapply (legal_pos_move gK); eauto).
    assert (HPq : P (s_hist s) q d1) by (rewrite Hh; eapply HPm; eauto).
    destruct (fut_skip_np fp p m q HI (proj1 HLq)) as (b1 & E1). head_is E1.
    destruct b1; [apply IH; assumption|].
    cbn [l_alpha l_best_score l_best_move l_legal l_node_type l_pvl].
    match goal with
    | |- npP (match nm_pvs rec ?s1 ?q ?a ?b ?d ?pl ?pm ?rh ?lg with _ => _ end) =>
        pose proof (pvs_N s1 q a b d pl pm rh lg HLq HPq) as Hr;
        pose proof (pvs_A rec Hframe s1 q a b d pl pm rh lg) as F;
        destruct (nm_pvs rec s1 q a b d pl pm rh lg) as [[[score line]| | |] s1'];
        unfold npP in Hr; cbn [fst] in Hr;
        destruct F as ([Fh _ _ _ _] & _ & _); cbn [snd] in Fh;
        [ | apply npP_cancel | contradiction | apply npP_fuel ]
    end.
    assert (Hh1 : s_hist s1' = h) by (rewrite Fh; exact Hh).
    match goal with |- context [if l_best_score L <? score then _ else _] =>
      destruct (if l_best_score L <? score then (score, m) else (l_best_score L, l_best_move L)) as [bs bm] end.
    destruct (beta <=? score).
    + destruct (quiet_np p m HI) as (qt & Eqt). head_is Eqt. apply npP_ok.
    + destruct (l_alpha L <? score); apply IH; assumption.
Qed.
End Loop.

Lemma inner_N : forall s p alpha beta depth ply cn pm rh ic,
  legal_pos p -> is_in_check p (side p) = Ok ic ->
  (forall m q, movable p m -> make_move gK p m = Ok q -> is_legal q = Ok true ->
     P (s_hist s) q (w8 (depth + 256 - 1))) ->
  (ic = false -> (2 < depth)%N -> forall q x, make_null_move gK p = Ok (q, x) ->
     P (s_hist s) q (w8 (depth + 256 - (if (6 <? depth)%N then 3 else 2) - 1))) ->
  npP (nm_inner gK gE gO gS rec s p alpha beta depth ply cn pm rh ic).
Proof.
  intros s p alpha beta depth ply cn pm rh ic HL Eic HPm HPn. pose proof HL as [HI _].
  unfold nm_inner. cbv zeta.
  destruct (tt_get (sc_tt_buckets gS) (INF gE) (s_tt s) (hash p) alpha beta depth ply) as [[tt_score tt_use] tt_move].
  match goal with |- context [if ?b then _ else _] => destruct b end; [apply npP_ok|].
  match goal with |- context [nm_snm gE gS ?s0 ?p0 ?b ?d ?ic0 ?pv] =>
    destruct (snm_N s0 p0 b d ic0 pv HL) as (o & s1 & E1 & H1); rewrite E1 end.
  destruct o as [bv|]; [apply npP_ok|].
  match goal with
  | |- npP (match nm_nmp gK gE rec ?s0 ?p0 ?bb ?d ?pl ?cn0 ?ic0 ?pv ?rh0 with _ => _ end) =>
      assert (Hr : npP (nm_nmp gK gE rec s0 p0 bb d pl cn0 ic0 pv rh0))
        by (apply nmp_N; [exact HL|exact Eic|rewrite H1; exact HPn]);
      pose proof (nmp_A gK gE rec Hframe s0 p0 bb d pl cn0 ic0 pv rh0) as F;
      destruct (nm_nmp gK gE rec s0 p0 bb d pl cn0 ic0 pv rh0) as [[[bv|]| | |] s2];
      unfold npP in Hr; cbn [fst] in Hr;
      destruct F as ([Fh _ _ _ _] & _ & _); cbn [snd] in Fh;
      [ apply npP_ok | | apply npP_cancel | contradiction | apply npP_fuel ]
  end.
  match goal with |- context [nm_fpr gE gS ?s0 ?p0 ?a ?b ?d ?ic0 ?pv] =>
    destruct (fpr_N s0 p0 a b d ic0 pv HL) as (fp & s3 & E3 & H3); rewrite E3 end.
  assert (Hh3 : s_hist s3 = s_hist s) by congruence.
  destruct (gen_moves_np p HI) as (gen & Eg). rewrite Eg.
  match goal with |- context [score_moves gO p ?hc gen] =>
    destruct (score_moves_np p hc gen HI (or_introl Eg)) as (ms & Es); rewrite Es end.
  match goal with
  | |- npP (match nm_loop gK gO rec ?p0 ?b ?d ?pl ?pm0 ?rh0 ?fp0 ?k ?i ?ms0 ?s0 ?L with _ => _ end) =>
      assert (Hrl : npP (nm_loop gK gO rec p0 b d pl pm0 rh0 fp0 k i ms0 s0 L))
        by (apply (loop_N p0 (s_hist s) (w8 (d + 256 - 1)) HL HPm);
            [reflexivity|exact Hh3|eapply movable_scored; [left; exact Eg|exact Es]|lia]);
      destruct (nm_loop gK gO rec p0 b d pl pm0 rh0 fp0 k i ms0 s0 L) as [[[L1 cut]| | |] s4];
      unfold npP in Hrl; cbn [fst] in Hrl;
      [ | apply npP_cancel | contradiction | apply npP_fuel ]
  end.
  destruct (l_legal L1 =? 0)%N.
  - destruct ic; [apply npP_ok|].
    destruct (contempt_np p HL) as (c & ->). cbn [bind of_res]. apply npP_ok.
  - destruct (poll s4) as [[|] s5]; [apply npP_cancel|apply npP_ok].
Qed.
End WithRec.

(* ------------------------------------------------------------------ one node, generic *)
(* a node whose inner calls are fine on the stack one longer, and whose own push has room *)
Lemma node_N : forall f (P : list N -> position -> N -> Prop),
  (forall s q a b d pl cn pm rh, legal_pos q -> P (s_hist s) q d ->
     npP (negamax gK gE gO gS f s q a b d pl cn pm rh)) ->
  forall s p alpha beta depth ply cn pm rh,
  legal_pos p ->
  (forall ic, is_in_check p (side p) = Ok ic -> ext_depth ic depth <> 0%N ->
     (N.of_nat (length (s_hist s)) < HS)%N /\
     (forall m q, movable p m -> make_move gK p m = Ok q -> is_legal q = Ok true ->
        P (hash p :: s_hist s) q (w8 (ext_depth ic depth + 256 - 1))) /\
     (ic = false -> (2 < depth)%N -> forall q x, make_null_move gK p = Ok (q, x) ->
        P (hash p :: s_hist s) q (w8 (depth + 256 - (if (6 <? depth)%N then 3 else 2) - 1)))) ->
  npP (negamax gK gE gO gS (S f) s p alpha beta depth ply cn pm rh).
Proof.
  intros f P IH s p alpha beta depth ply cn pm rh HL Hnode.
  pose proof HL as [HI _].
  rewrite negamax_eq. cbv zeta.
  destruct (poll s) as [[|] s0] eqn:Ep; [apply npP_cancel|].
  pose proof (poll_A s) as Hp. rewrite Ep in Hp. cbn [fst snd] in Hp. destruct Hp as ([Hh0 _ _ _ _] & _).
  destruct (in_check_np p HI) as (ic & Eic). rewrite Eic.
  fold (ext_depth ic depth).
  destruct (ext_depth ic depth =? 0)%N eqn:Ed.
  - pose proof (quiescence_N gS f s0 p alpha beta ply HL) as Hq.
    destruct (quiescence gK gE gO gS f s0 p alpha beta ply) as [[v| | |] s1]; unfold npP in Hq; cbn [fst] in Hq;
      [apply npP_ok|apply npP_cancel|contradiction|apply npP_fuel].
  - apply N.eqb_neq in Ed. destruct (Hnode ic Eic Ed) as (Hroom & HPm & HPn).
    match goal with |- npP (if ?b then _ else _) => destruct b end.
    + destruct (contempt_np p HL) as (c & ->). cbn [bind of_res]. apply npP_ok.
    + unfold push_history. projs. rewrite Hh0.
      change (sc_hist_size gS) with HS.
      assert (El : (N.of_nat (length (s_hist s)) <? HS)%N = true) by (apply N.ltb_lt; exact Hroom).
      rewrite El. unfold npP. cbn [fst].
      apply inner_N with (P := P).
      * exact IH.
      * intros. apply negamax_A.
      * exact HL.
      * exact Eic.
      * projs. exact HPm.
      * projs. intros ->. unfold ext_depth in HPn. exact (HPn eq_refl).
Qed.

(* ------------------------------------------------------------------ instance 1: fuel bounds the nesting *)
Theorem negamax_N : forall f s p alpha beta depth ply cn pm rh,
  legal_pos p -> (length (s_hist s) + f <= N.to_nat HS)%nat ->
  npP (negamax gK gE gO gS f s p alpha beta depth ply cn pm rh).
Proof.
  induction f as [|f IH]; intros s p alpha beta depth ply cn pm rh HL Hf; [cbn; apply npP_fuel|].
  apply node_N with (P := fun h _ _ => (length h + f <= N.to_nat HS)%nat).
  - intros. apply IH; assumption.
  - exact HL.
  - intros ic _ _. split; [lia|]. split; intros; cbn [length]; lia.
Qed.

(* ------------------------------------------------------------------ instance 2: a measure bounds the nesting *)
Section Measure.
Variable G : list N -> position -> N -> Prop.
Variable mu : list N -> position -> N -> nat.
(* the hypotheses of C05Term/NoFuel.v ([negamax_T]), stated there for the engine's stack size; here the
   room premise is dropped (it is a conclusion) *)
Hypothesis step_move : forall h p d ic m q,
  G h p d -> is_in_check p (side p) = Ok ic -> ext_depth ic d <> 0%N ->
  movable p m -> make_move gK p m = Ok q -> is_legal q = Ok true ->
  G (hash p :: h) q (w8 (ext_depth ic d + 256 - 1)) /\
  (mu (hash p :: h) q (w8 (ext_depth ic d + 256 - 1)) < mu h p d)%nat.
Hypothesis step_null : forall h p d q x,
  G h p d -> is_in_check p (side p) = Ok false -> (2 < d)%N ->
  make_null_move gK p = Ok (q, x) ->
  let d' := w8 (d + 256 - (if (6 <? d)%N then 3 else 2) - 1) in
  G (hash p :: h) q d' /\ (mu (hash p :: h) q d' < mu h p d)%nat.

Theorem negamax_N_mu : forall f s p alpha beta depth ply cn pm rh,
  legal_pos p -> G (s_hist s) p depth ->
  (length (s_hist s) + mu (s_hist s) p depth + 1 <= N.to_nat HS)%nat ->
  npP (negamax gK gE gO gS f s p alpha beta depth ply cn pm rh).
Proof.
  induction f as [|f IH]; intros s p alpha beta depth ply cn pm rh HL HG Hm; [cbn; apply npP_fuel|].
  apply node_N with (P := fun h q d => G h q d /\ (length h + mu h q d + 1 <= N.to_nat HS)%nat).
  - intros s1 q a b d pl cn1 pm1 rh1 HLq [H1 H2]. apply IH; assumption.
  - exact HL.
  - intros ic Eic Ed. split; [lia|]. split.
    + intros m q Hmv Hmk Hl.
      destruct (step_move (s_hist s) p depth ic m q HG Eic Ed Hmv Hmk Hl) as [X1 X2].
      split; [exact X1|]. cbn [length]. lia.
    + intros -> H2 q x Hn.
      destruct (step_null (s_hist s) p depth q x HG Eic H2 Hn) as [X1 X2].
      split; [exact X1|]. cbn [length]. lia.
Qed.
End Measure.
End Size.

(* ------------------------------------------------------------------ the Go build: 1024 entries *)
Theorem go_negamax_no_panic : forall f s p alpha beta depth ply cn pm rh,
  legal_pos p -> (length (s_hist s) + f <= 1024)%nat ->
  fst (go_negamax f s p alpha beta depth ply cn pm rh) <> RPanic.
Proof. intros. apply (negamax_N 1024); assumption. Qed.

Print Assumptions go_negamax_no_panic.
Print Assumptions negamax_N_mu.
