(* C18 helpers: facts about the coordinate geometry of Att/Geometry.v (open lines depend only on the
   squares strictly between; removing men keeps lines open; a knight never stands on a line through
   the square it attacks), the leaper tables of Att/Attacks.v against it (finite checks), and the
   attacker sets of the model ([square_attacked_by], [consider_xrays]) read bit by bit.
   The exactness of the slider lookups (property C12) enters as the explicit premise [slider_exact]. *)
From Coq Require Import NArith ZArith List Bool Lia ZifyBool ZifyN ZifyNat.
From Clemens Require Import Base.Res Base.Word Pos.Types Att.Attacks Pos.Position Pos.Inv Pos.CapturesProofs.
From Clemens Require Import Att.Geometry Eval.Eval Eval.SeeRef Eval.SeeBits.
Import ListNotations.
Open Scope Z_scope.

(* ---- list plumbing ---- *)
Lemma existsb_ext_in {A} (f g : A -> bool) (l : list A) :
  (forall a, In a l -> f a = g a) -> existsb f l = existsb g l.
Proof.
  induction l as [|a l IH]; intros H; [reflexivity|]. cbn [existsb].
  rewrite (H a) by (left; reflexivity). rewrite IH; [reflexivity|]. intros b Hb. apply H. right. exact Hb.
Qed.
Lemma forallb_ext_in {A} (f g : A -> bool) (l : list A) :
  (forall a, In a l -> f a = g a) -> forallb f l = forallb g l.
Proof.
  induction l as [|a l IH]; intros H; [reflexivity|]. cbn [forallb].
  rewrite (H a) by (left; reflexivity). rewrite IH; [reflexivity|]. intros b Hb. apply H. right. exact Hb.
Qed.

(* ---- coordinates ---- *)
Lemma on_board_iff c : on_board c = true <-> 0 <= fst c < 8 /\ 0 <= snd c < 8.
Proof. unfold on_board. lia. Qed.
Lemma sq_fr_on_board (s : N) : (s < 64)%N -> on_board (sq_fr s) = true.
Proof. intros H. apply on_board_iff. unfold sq_fr, sq_file, sq_rank. cbn [fst snd]. lia. Qed.
Lemma on_board_sq_fr_lt (s : N) : on_board (sq_fr s) = true -> (s < 64)%N.
Proof. intros H. apply on_board_iff in H. unfold sq_fr, sq_file, sq_rank in H. cbn [fst snd] in H. lia. Qed.
Lemma fr_sq_lt c : on_board c = true -> (fr_sq c < 64)%N.
Proof. intros H. apply on_board_iff in H. unfold fr_sq. lia. Qed.
Lemma fr_sq_sq_fr (s : N) : fr_sq (sq_fr s) = s.
Proof. unfold fr_sq, sq_fr, sq_file, sq_rank. cbn [fst snd]. lia. Qed.
Lemma coord_eqb_eq a b : coord_eqb a b = true <-> a = b.
Proof.
  unfold coord_eqb. destruct a as [a1 a2], b as [b1 b2]. cbn [fst snd]. split.
  - intros H. f_equal; lia.
  - intros [= -> ->]. lia.
Qed.

Lemma queen_dirs_unit d : In d queen_dirs_geo -> (fst d <> 0 \/ snd d <> 0) /\ -1 <= fst d <= 1 /\ -1 <= snd d <= 1.
Proof. cbn. intros [<-|[<-|[<-|[<-|[<-|[<-|[<-|[<-|[]]]]]]]]]; cbn; lia. Qed.
Lemma rook_in_queen d : In d rook_dirs_geo -> In d queen_dirs_geo.
Proof. intros H. unfold queen_dirs_geo. apply in_or_app. left. exact H. Qed.
Lemma bishop_in_queen d : In d bishop_dirs_geo -> In d queen_dirs_geo.
Proof. intros H. unfold queen_dirs_geo. apply in_or_app. right. exact H. Qed.

(* ---- one ray ---- *)
Lemma hit_spec occ d t s k : geo_ray_hit_on occ d t s k = true <->
  (forall j, (1 <= j <= k)%nat -> on_board (step_from t d j) = true) /\
  step_from t d k = sq_fr s /\
  (forall j, (1 <= j < k)%nat -> occ (fr_sq (step_from t d j)) = false).
Proof.
  unfold geo_ray_hit_on. rewrite !andb_true_iff, !forallb_forall, coord_eqb_eq. split.
  - intros [[H1 H2] H3]. split; [|split; [exact H2|]].
    + intros j Hj. apply H1. apply in_seq. lia.
    + intros j Hj. apply negb_true_iff. apply H3. apply in_seq. lia.
  - intros [H1 [H2 H3]]. split; [split; [|exact H2]|].
    + intros j Hj. apply in_seq in Hj. apply H1. lia.
    + intros j Hj. apply in_seq in Hj. apply negb_true_iff. apply H3. lia.
Qed.

Lemma ray_spec occ dirs t s : geo_ray_attacks_on occ dirs t s = true <->
  exists d k, In d dirs /\ (1 <= k <= 7)%nat /\ geo_ray_hit_on occ d t s k = true.
Proof.
  unfold geo_ray_attacks_on. rewrite existsb_exists. split.
  - intros (d & Hd & H). apply existsb_exists in H. destruct H as (k & Hk & H). apply in_seq in Hk.
    exists d, k. split; [exact Hd|]. split; [lia|exact H].
  - intros (d & k & Hd & Hk & H). exists d. split; [exact Hd|]. apply existsb_exists. exists k.
    split; [apply in_seq; lia|exact H].
Qed.

(* an open line depends on the occupancy of on-board squares of the rays only *)
Lemma ray_ext occ occ' dirs t s :
  (forall d j, In d dirs -> (1 <= j <= 7)%nat -> on_board (step_from t d j) = true ->
               occ (fr_sq (step_from t d j)) = occ' (fr_sq (step_from t d j))) ->
  geo_ray_attacks_on occ dirs t s = geo_ray_attacks_on occ' dirs t s.
Proof.
  intros H. unfold geo_ray_attacks_on. apply existsb_ext_in. intros d Hd.
  apply existsb_ext_in. intros k Hk. apply in_seq in Hk. unfold geo_ray_hit_on.
  destruct (forallb (fun j => on_board (step_from t d j)) (seq 1 k)) eqn:E; [|reflexivity].
  rewrite forallb_forall in E. f_equal. apply forallb_ext_in. intros j Hj. f_equal.
  apply in_seq in Hj. apply H; [exact Hd|lia|]. apply E. apply in_seq. lia.
Qed.
Lemma ray_ext_board occ occ' dirs t s :
  (forall x, (x < 64)%N -> occ x = occ' x) ->
  geo_ray_attacks_on occ dirs t s = geo_ray_attacks_on occ' dirs t s.
Proof. intros H. apply ray_ext. intros d j _ _ Hb. apply H. apply fr_sq_lt. exact Hb. Qed.

(* taking men off the board keeps open lines open *)
Lemma ray_mono occ occ' dirs t s :
  (forall x, (x < 64)%N -> occ' x = true -> occ x = true) ->
  geo_ray_attacks_on occ dirs t s = true -> geo_ray_attacks_on occ' dirs t s = true.
Proof.
  intros H. rewrite !ray_spec. intros (d & k & Hd & Hk & Hh). exists d, k. split; [exact Hd|]. split; [exact Hk|].
  apply hit_spec in Hh. apply hit_spec. destruct Hh as [H1 [H2 H3]]. split; [exact H1|]. split; [exact H2|].
  intros j Hj. destruct (occ' (fr_sq (step_from t d j))) eqn:E; [|reflexivity].
  rewrite <- (H3 j Hj). symmetry. apply H; [|exact E]. apply fr_sq_lt. apply H1. lia.
Qed.

Lemma ray_app occ l1 l2 t s :
  geo_ray_attacks_on occ (l1 ++ l2) t s = geo_ray_attacks_on occ l1 t s || geo_ray_attacks_on occ l2 t s.
Proof. unfold geo_ray_attacks_on. apply existsb_app. Qed.

(* the square hit is a square of the board other than the origin *)
Lemma ray_target occ dirs t s : (forall d, In d dirs -> In d queen_dirs_geo) ->
  geo_ray_attacks_on occ dirs t s = true -> (s < 64)%N /\ s <> t.
Proof.
  intros Hq H. apply ray_spec in H. destruct H as (d & k & Hd & Hk & Hh). apply hit_spec in Hh.
  destruct Hh as [H1 [H2 _]]. split.
  - apply on_board_sq_fr_lt. rewrite <- H2. apply H1. lia.
  - intros ->. destruct (queen_dirs_unit d (Hq d Hd)) as [Hnz Hb].
    unfold step_from, sq_fr in H2. injection H2 as E1 E2. nia.
Qed.

(* ---- a piece with code pc standing on x attacks t, lines judged by the occupancy [occ] ---- *)
Definition pc_attacks (occ : N -> bool) (pc x t : N) : bool :=
  match decode pc with
  | None => false
  | Some (c, Pawn) => geo_pawn_attack c x t
  | Some (_, Knight) => geo_knight x t
  | Some (_, Bishop) => geo_ray_attacks_on occ bishop_dirs_geo t x
  | Some (_, Rook) => geo_ray_attacks_on occ rook_dirs_geo t x
  | Some (_, Queen) => geo_ray_attacks_on occ queen_dirs_geo t x
  | Some (_, King) => geo_king x t
  end.
(* what a refresh recomputes: sliders and pawns only *)
Definition xr_attacks (occ : N -> bool) (pc x t : N) : bool :=
  match decode pc with
  | Some (_, Knight) | Some (_, King) | None => false
  | _ => pc_attacks occ pc x t
  end.

Lemma ref_attacks_pc b s t : ref_attacks b s t = pc_attacks (occupied_on b) (at_sq b s) s t.
Proof. reflexivity. Qed.

Lemma geo_knight_self t : geo_knight t t = false.
Proof. unfold geo_knight. rewrite !Z.sub_diag. cbn. apply andb_false_r. Qed.
Lemma geo_king_self t : geo_king t t = false.
Proof. unfold geo_king. rewrite !Z.sub_diag. cbn. apply andb_false_r. Qed.
Lemma geo_pawn_self c t : geo_pawn_attack c t t = false.
Proof. unfold geo_pawn_attack. rewrite !Z.sub_diag. cbn. rewrite andb_false_r. reflexivity. Qed.

Lemma pc_attacks_target occ pc x t : pc_attacks occ pc x t = true -> (t < 64)%N -> x <> t.
Proof.
  unfold pc_attacks. intros H Ht ->. destruct (decode pc) as [[c []]|]; try discriminate.
  - rewrite geo_pawn_self in H. discriminate.
  - rewrite geo_knight_self in H. discriminate.
  - apply ray_target in H; [destruct H; congruence|exact bishop_in_queen].
  - apply ray_target in H; [destruct H; congruence|exact rook_in_queen].
  - apply ray_target in H; [destruct H; congruence|tauto].
  - rewrite geo_king_self in H. discriminate.
Qed.

Lemma pc_attacks_ext occ occ' pc x t :
  (forall y, (y < 64)%N -> occ y = occ' y) -> pc_attacks occ pc x t = pc_attacks occ' pc x t.
Proof.
  intros H. unfold pc_attacks. destruct (decode pc) as [[c []]|]; try reflexivity; apply ray_ext_board; exact H.
Qed.
Lemma pc_attacks_mono occ occ' pc x t :
  (forall y, (y < 64)%N -> occ' y = true -> occ y = true) ->
  pc_attacks occ pc x t = true -> pc_attacks occ' pc x t = true.
Proof.
  intros H. unfold pc_attacks. destruct (decode pc) as [[c []]|]; try (intros E; exact E); apply ray_mono; exact H.
Qed.

(* ---- finite checks: leaper tables of the model against the geometry; knights and lines ---- *)
Definition tbl_ok (f : N -> N) (g : N -> N -> bool) : bool :=
  forallb (fun t => (f t <? two64)%N &&
                    forallb (fun s => Bool.eqb (N.testbit (f t) s) (g s t)) squares64) squares64.
Lemma tbl_ok_spec f g : tbl_ok f g = true ->
  forall t, (t < 64)%N -> (f t < two64)%N /\ forall s, (s < 64)%N -> N.testbit (f t) s = g s t.
Proof.
  unfold tbl_ok. rewrite forallb_forall. intros H t Ht.
  specialize (H t (proj2 (squares64_in t) Ht)). apply andb_true_iff in H. destruct H as [H1 H2].
  split; [apply N.ltb_lt; exact H1|]. rewrite forallb_forall in H2. intros s Hs.
  apply eqb_prop. apply H2. apply squares64_in. exact Hs.
Qed.
Lemma knight_tbl : tbl_ok knight_attacks geo_knight = true. Proof. vm_compute. reflexivity. Qed.
Lemma king_tbl : tbl_ok king_attacks geo_king = true. Proof. vm_compute. reflexivity. Qed.
(* pawn_attacks WHITE t = the squares a white pawn on t attacks = the squares from which a BLACK pawn attacks t *)
Lemma pawn_tbl_w : tbl_ok (pawn_attacks WHITE) (geo_pawn_attack 1) = true. Proof. vm_compute. reflexivity. Qed.
Lemma pawn_tbl_b : tbl_ok (pawn_attacks BLACK) (geo_pawn_attack 0) = true. Proof. vm_compute. reflexivity. Qed.

(* a knight that attacks t stands on no line through t *)
Definition knight_off_rays_ok : bool :=
  forallb (fun t => forallb (fun s => negb (geo_knight s t) ||
    forallb (fun d => forallb (fun j => negb (on_board (step_from t d j) && (fr_sq (step_from t d j) =? s)%N))
                              (seq 1 7)) queen_dirs_geo) squares64) squares64.
Lemma knight_off_rays_check : knight_off_rays_ok = true. Proof. vm_compute. reflexivity. Qed.
Lemma knight_off_rays s t d j : (s < 64)%N -> (t < 64)%N -> geo_knight s t = true ->
  In d queen_dirs_geo -> (1 <= j <= 7)%nat -> on_board (step_from t d j) = true -> fr_sq (step_from t d j) <> s.
Proof.
  intros Hs Ht Hk Hd Hj Hb. assert (H := knight_off_rays_check). unfold knight_off_rays_ok in H.
  rewrite forallb_forall in H. specialize (H t (proj2 (squares64_in t) Ht)).
  rewrite forallb_forall in H. specialize (H s (proj2 (squares64_in s) Hs)).
  rewrite Hk in H. cbn [negb orb] in H.
  rewrite forallb_forall in H. specialize (H d Hd).
  rewrite forallb_forall in H. specialize (H j ltac:(apply in_seq; lia)).
  rewrite Hb in H. cbn [andb] in H. apply negb_true_iff in H. apply N.eqb_neq in H. exact H.
Qed.

(* so taking a knight that attacks t off the board changes no line from t *)
Lemma pc_attacks_knight_removed occ occ' pc x t s :
  (s < 64)%N -> (t < 64)%N -> geo_knight s t = true ->
  (forall y, (y < 64)%N -> y <> s -> occ y = occ' y) ->
  pc_attacks occ pc x t = pc_attacks occ' pc x t.
Proof.
  intros Hs Ht Hk H. unfold pc_attacks.
  assert (R : forall dirs, (forall d, In d dirs -> In d queen_dirs_geo) ->
              geo_ray_attacks_on occ dirs t x = geo_ray_attacks_on occ' dirs t x).
  { intros dirs Hq. apply ray_ext. intros d j Hd Hj Hb. apply H; [apply fr_sq_lt; exact Hb|].
    apply (knight_off_rays s t d j); try assumption. apply Hq. exact Hd. }
  destruct (decode pc) as [[c []]|]; try reflexivity; apply R;
    [exact bishop_in_queen|exact rook_in_queen|tauto].
Qed.

(* ---- piece codes ---- *)
Definition kind_of_type (ty : N) : kind :=
  match ty with 0 => Pawn | 1 => Knight | 2 => Bishop | 3 => Rook | 4 => Queen | _ => King end%N.
Lemma decode_new_piece c ty : (c < 2)%N -> (ty < 6)%N -> decode (new_piece c ty) = Some (c, kind_of_type ty).
Proof.
  intros Hc Hty. assert (c = 0 \/ c = 1)%N as [-> | ->] by lia;
  assert (ty = 0 \/ ty = 1 \/ ty = 2 \/ ty = 3 \/ ty = 4 \/ ty = 5)%N as [->|[->|[->|[->|[->| ->]]]]] by lia;
  reflexivity.
Qed.
Lemma kind_index_of_type ty : (ty < 6)%N -> kind_index (kind_of_type ty) = N.to_nat ty.
Proof.
  intros Hty. assert (ty = 0 \/ ty = 1 \/ ty = 2 \/ ty = 3 \/ ty = 4 \/ ty = 5)%N as [->|[->|[->|[->|[->| ->]]]]] by lia;
  reflexivity.
Qed.
Lemma pc_ok_cases pc : pc_ok pc = true ->
  (pc = 0 \/ pc = 1 \/ pc = 2 \/ pc = 3 \/ pc = 4 \/ pc = 5 \/ pc = 6 \/
   pc = 9 \/ pc = 10 \/ pc = 11 \/ pc = 12 \/ pc = 13 \/ pc = 14)%N.
Proof. unfold pc_ok, valid_piece. lia. Qed.
Lemma decode_some pc c k : decode pc = Some (c, k) ->
  (c < 2)%N /\ pc = new_piece c (N.of_nat (kind_index k)) /\ pc <> 0%N /\ kind_of_type (N.of_nat (kind_index k)) = k.
Proof.
  unfold decode. destruct pc as [|[[[[]|[]|]|[[]|[]|]|]|[[[]|[]|]|[[]|[]|]|]|]]; try discriminate;
    intros [= <- <-]; cbn; repeat split; try lia; discriminate.
Qed.

(* ========================================================================================== *)
(* The attacker sets of the model, bit by bit.                                                *)
(* ========================================================================================== *)
Definition slider_exact : Prop :=
  (forall sq occ, (sq < 64)%N -> forall t, N.testbit (rook_attacks sq occ) t = geo_ray_attacks rook_dirs_geo sq occ t) /\
  (forall sq occ, (sq < 64)%N -> forall t, N.testbit (bishop_attacks sq occ) t = geo_ray_attacks bishop_dirs_geo sq occ t).

Section Attackers.
Hypothesis SE : slider_exact.
Variable p : position.
Hypothesis F : facts p.

Lemma bb_bit c ty x : (c < 2)%N -> (ty < 6)%N -> (x < 64)%N ->
  N.testbit (bb_at p c ty) x = (piece_at p x =? new_piece c ty)%N.
Proof. intros Hc Hty Hx. exact (proj2 (F_bb p F c ty Hc Hty) x Hx). Qed.
Lemma bb_lt c ty : (c < 2)%N -> (ty < 6)%N -> (bb_at p c ty < two64)%N.
Proof. intros Hc Hty. exact (proj1 (F_bb p F c ty Hc Hty)). Qed.

Lemma bbs2_ok ty : (ty < 6)%N -> bbs2 p ty = Ok (N.lor (bb_at p 0 ty) (bb_at p 1 ty)).
Proof.
  intros Hty. unfold bbs2, WHITE, BLACK. rewrite !(get_bb_ok p F) by (try reflexivity; exact Hty). reflexivity.
Qed.

Lemma rook_lt t occ : (t < 64)%N -> (rook_attacks t occ < two64)%N.
Proof.
  intros Ht. apply lt_two64_of_bits. intros s. rewrite (proj1 SE t occ Ht s). unfold geo_ray_attacks.
  intros H. apply ray_target in H; [tauto|exact rook_in_queen].
Qed.
Lemma bishop_lt t occ : (t < 64)%N -> (bishop_attacks t occ < two64)%N.
Proof.
  intros Ht. apply lt_two64_of_bits. intros s. rewrite (proj2 SE t occ Ht s). unfold geo_ray_attacks.
  intros H. apply ray_target in H; [tauto|exact bishop_in_queen].
Qed.

Ltac pc_cases x :=
  let H := fresh in
  assert (H := pc_ok_cases _ (F_valid p F x ltac:(assumption)));
  destruct H as [H|[H|[H|[H|[H|[H|[H|[H|[H|[H|[H|[H|H]]]]]]]]]]]]; rewrite H.

Lemma consider_xrays_bits t occ already : (t < 64)%N ->
  exists r, consider_xrays p t occ already = Ok r /\ (r < two64)%N /\
    forall x, (x < 64)%N ->
      N.testbit r x = negb (N.testbit already x) && xr_attacks (N.testbit occ) (piece_at p x) x t.
Proof.
  intros Ht.
  destruct (tbl_ok_spec _ _ pawn_tbl_w t Ht) as [Lw Bw]. destruct (tbl_ok_spec _ _ pawn_tbl_b t Ht) as [Lb Bb].
  unfold consider_xrays, bbr. unfold WHITE, BLACK, PAWN, BISHOP, ROOK, QUEEN in *.
  rewrite !bbs2_ok by reflexivity. rewrite !(get_bb_ok p F) by reflexivity. cbn [bind].
  eexists. split; [reflexivity|]. split.
  - unfold andnot64. apply ldiff_lt. repeat apply lor_lt; apply land_lt;
      try (apply rook_lt; exact Ht); try (apply bishop_lt; exact Ht); assumption.
  - intros x Hx. unfold andnot64. rewrite N.ldiff_spec, !N.lor_spec, !N.land_spec, !N.lor_spec.
    rewrite !bb_bit by (reflexivity || exact Hx).
    rewrite (proj1 SE t occ Ht x), (proj2 SE t occ Ht x).
    rewrite (Bw x Hx), (Bb x Hx).
    unfold geo_ray_attacks. rewrite andb_comm. f_equal.
    unfold xr_attacks, pc_attacks, queen_dirs_geo. rewrite ray_app.
    pc_cases x; cbn [decode new_piece N.eqb Pos.eqb N.add N.mul Pos.add Pos.mul Pos.succ orb andb];
      rewrite ?andb_false_r, ?orb_false_r, ?andb_true_r, ?orb_false_l; try reflexivity.
    all: try apply orb_comm.
Qed.

Lemma square_attacked_by_bits t : (t < 64)%N ->
  exists a, square_attacked_by p t = Ok a /\ (a < two64)%N /\
    forall x, (x < 64)%N ->
      N.testbit a x = pc_attacks (N.testbit (all_pieces p)) (piece_at p x) x t.
Proof.
  intros Ht.
  destruct (tbl_ok_spec _ _ pawn_tbl_w t Ht) as [Lw Bw]. destruct (tbl_ok_spec _ _ pawn_tbl_b t Ht) as [Lb Bb].
  destruct (tbl_ok_spec _ _ knight_tbl t Ht) as [Ln Bn]. destruct (tbl_ok_spec _ _ king_tbl t Ht) as [Lk Bk].
  unfold square_attacked_by. unfold WHITE, BLACK, PAWN, KNIGHT, BISHOP, ROOK, QUEEN, KING in *.
  replace (t <? 64)%N with true by lia. cbn [negb].
  rewrite !bbs2_ok by reflexivity. rewrite !(get_bb_ok p F) by reflexivity. cbn [bind].
  eexists. split; [reflexivity|]. split.
  - repeat apply lor_lt; apply land_lt;
      try (apply rook_lt; exact Ht); try (apply bishop_lt; exact Ht); assumption.
  - intros x Hx. rewrite !N.lor_spec, !N.land_spec, !N.lor_spec.
    rewrite !bb_bit by (reflexivity || exact Hx).
    rewrite (proj1 SE t _ Ht x), (proj2 SE t _ Ht x).
    rewrite (Bw x Hx), (Bb x Hx), (Bn x Hx), (Bk x Hx).
    unfold geo_ray_attacks, pc_attacks, queen_dirs_geo. rewrite ray_app.
    pc_cases x; cbn [decode new_piece N.eqb Pos.eqb N.add N.mul Pos.add Pos.mul Pos.succ orb andb];
      rewrite ?andb_false_r, ?orb_false_r, ?andb_true_r, ?orb_false_l; try reflexivity.
    all: try apply orb_comm.
Qed.

End Attackers.
