(* The constants of the current Go build as the records the model takes (as coq/extract/Extract.v
   builds them), and concrete positions for the C18 examples. Data and executable helpers only. *)
From Coq Require Import NArith ZArith List Bool String Ascii.
From Clemens Require Import Base.Res Base.Word Base.Bytes Pos.Types Att.Attacks Pos.Position Pos.Fen Pos.Inv.
From Clemens Require Import Eval.Eval Eval.SeeRef Eval.SeeProofs.
From ClemensGen Require Import GoConsts.
Import ListNotations.
Open Scope N_scope.

Definition go_keys : zkeys :=
  {| zk_piece := zk_piece_tbl; zk_side := zk_side_key; zk_castling := zk_castling_tbl; zk_ep := zk_ep_tbl |}.
Definition go_econsts : econsts :=
  {| ec_piece_value := ev_piece_value; ec_mid_pst := ev_mid_pst; ec_end_pst := ev_end_pst;
     ec_isolani := ev_isolani; ec_passed_scalar := ev_passed_scalar; ec_supported_scalar := ev_supported_scalar;
     ec_rook_pair := ev_rook_pair; ec_knight_pair := ev_knight_pair; ec_bishop_pair := ev_bishop_pair;
     ec_knight_pawn_adj := ev_knight_pawn_adj; ec_rook_pawn_adj := ev_rook_pawn_adj; ec_king_att := ev_king_att;
     ec_phase_knight := ev_phase_knight; ec_phase_bishop := ev_phase_bishop; ec_phase_rook := ev_phase_rook;
     ec_phase_queen := ev_phase_queen; ec_max_phase := ev_max_phase; ec_endgame_border := ev_endgame_border;
     ec_contempt := ev_contempt; ec_inf := ev_inf; ec_max_plies := ev_max_plies; ec_cache_size := ev_cache_size |}.

Definition see_fen_bytes (s : string) : bytes := map N_of_ascii (list_ascii_of_string s).
Definition see_parse (s : string) : res position := new_from_fen go_keys unicode_digit_tbl (see_fen_bytes s).
Definition see_pos_or_empty (r : res position) : position := match r with Ok p => p | _ => empty_position end.

(* all legal non-en-passant captures of a position, in generation order *)
Definition legal_captures (p : position) : list N :=
  match legal_moves go_keys p with
  | Ok l => filter (fun m => negb (mv_kind m =? EN_PASSANT) && negb (nth (N.to_nat (mv_dst m)) (board p) 0 =? 0)) l
  | _ => []
  end.

(* (move, engine value, reference value) for every legal non-en-passant capture *)
Definition see_table (p : position) : list (N * res Z * Z) :=
  map (fun m => (m, see go_econsts p m, see_ref go_econsts p m)) (legal_captures p).
Definition signs_agree (p : position) : bool :=
  forallb (fun x => match x with
                    | (_, Ok v, r) => (sign v =? sign r)%Z
                    | _ => false
                    end) (see_table p).

Definition sign_of_res (r : res Z) : option Z := match r with Ok v => Some (sign v) | _ => None end.

(* battery behind the knight, x-rays through queen and bishop: d3xe5 *)
Definition see_fen_1 : string := "1k1r3q/1ppn3p/p4b2/4p3/8/P2N2P1/1PP1R1BP/2K1Q3 w - - 0 1".
(* rook takes a pawn defended once *)
Definition see_fen_2 : string := "1k1r4/1pp4p/p7/4p3/8/P5P1/1PP4P/2K1R3 w - - 0 1".
(* tripled rooks on both sides of a pawn *)
Definition see_fen_3 : string := "3r2k1/3r4/3r4/3p4/8/3R4/3R4/3R2K1 w - - 0 1".
(* the king as last defender: Rd2xd5, Kc6xd5 (onto a square the rook on d1 attacks: no legality), Rd1xd5 *)
Definition see_fen_4 : string := "8/8/2k5/3p4/8/8/3R4/3RK3 w - - 0 1".
(* a king capturing with a rook of its own side behind it on the line, then recaptured by a knight: the
   engine does not refresh x-rays behind a king nor after a knight, the reference sees the rook at once
   (Bg2xd5, Nf6xd5, Kd4xd5, Nb6xd5, [Rd2xd5]) *)
Definition see_fen_5 : string := "6k1/8/1n3n2/3p4/3K4/8/3R2B1/8 w - - 0 1".
(* diagonal battery through pawns *)
Definition see_fen_6 : string := "7k/q7/1b6/2p5/3P4/4B3/5Q2/6K1 w - - 0 1".
(* Kiwipete *)
Definition see_fen_7 : string := "r3k2r/p1ppqpb1/bn2pnp1/3PN3/1p2P3/2N2Q1p/PPPBBPPP/R3K2R w KQkq - 0 1".
(* a capturing promotion (the pawn stays a pawn for SEE) *)
Definition see_fen_8 : string := "rnbqkb1r/pp1p1pPp/8/2p1pP2/1P1P4/3P3P/P1P1P3/RNBQKBNR w KQkq e6 0 1".

Definition see_pos_1 : position := Eval vm_compute in see_pos_or_empty (see_parse see_fen_1).
Definition see_pos_2 : position := Eval vm_compute in see_pos_or_empty (see_parse see_fen_2).
Definition see_pos_3 : position := Eval vm_compute in see_pos_or_empty (see_parse see_fen_3).
Definition see_pos_4 : position := Eval vm_compute in see_pos_or_empty (see_parse see_fen_4).
Definition see_pos_5 : position := Eval vm_compute in see_pos_or_empty (see_parse see_fen_5).
Definition see_pos_6 : position := Eval vm_compute in see_pos_or_empty (see_parse see_fen_6).
Definition see_pos_7 : position := Eval vm_compute in see_pos_or_empty (see_parse see_fen_7).
Definition see_pos_8 : position := Eval vm_compute in see_pos_or_empty (see_parse see_fen_8).

(* d3 = 19, e5 = 36 *)
Definition mv_d3e5 : N := mk_move 19 36.

(* ---- enumeration of the list-level statements (done before proving them): every victim value and
   every attacker sequence of length 1..4 over the engine's five distinct values ---- *)
Open Scope Z_scope.
Fixpoint seqs_upto (alpha : list Z) (n : nat) : list (list Z) :=
  match n with
  | O => [[]]
  | S k => [] :: flat_map (fun s => map (fun a => a :: s) alpha) (seqs_upto alpha k)
  end.
Definition enum_alpha : list Z := [0; 100; 310; 510; 910].
Definition enum_cases : list (Z * list Z) :=
  flat_map (fun v0 => map (fun s => (v0, s)) (filter (fun s => negb (Nat.eqb (List.length s) 0)) (seqs_upto enum_alpha 4)))
           enum_alpha.
Definition enum_sign_ok (x : Z * list Z) : bool :=
  let '(v0, l) := x in
  (sign (zfold (swap_pruned [v0] l)) =? sign (zfold (swap_full [v0] l))) &&
  (zfold (swap_full [v0] l) =? minimax (v0 :: removelast l)).
Definition enum_value_differs (x : Z * list Z) : bool :=
  let '(v0, l) := x in negb (zfold (swap_pruned [v0] l) =? zfold (swap_full [v0] l)).
