(* pkg/evaluation: the static evaluation (int16 arithmetic with its wrap written out), the draw
   test, contempt, game phase, the evaluation cache and the static exchange evaluation.
   Model file: transliteration, no proofs. All tables and constants are parameters ([econsts]),
   instantiated from the Go build (coq/gen/GoConsts.v). *)
From Coq Require Import NArith ZArith List Bool.
From Clemens Require Import Base.Res Base.Word Pos.Types Att.Attacks Pos.Position.
Import ListNotations.
Open Scope Z_scope.

Record econsts := {
  ec_piece_value : list Z;            (* PieceValue[6] *)
  ec_mid_pst : list (list (list Z));  (* midgamePieceSquareTables[colour][type][square] *)
  ec_end_pst : list (list (list Z));
  ec_isolani : list Z;                (* isolanis[midgame, endgame] *)
  ec_passed_scalar : Z;
  ec_supported_scalar : Z;
  ec_rook_pair : Z; ec_knight_pair : Z; ec_bishop_pair : Z;
  ec_knight_pawn_adj : list Z;        (* [9] *)
  ec_rook_pawn_adj : list Z;          (* [9] *)
  ec_king_att : list Z;               (* kingAttValue[6] *)
  ec_phase_knight : Z; ec_phase_bishop : Z; ec_phase_rook : Z; ec_phase_queen : Z;
  ec_max_phase : Z;                   (* maxGamePhase *)
  ec_endgame_border : Z;
  ec_contempt : Z;                    (* 400 *)
  ec_inf : Z;                         (* INF *)
  ec_max_plies : Z;
  ec_cache_size : N                   (* transpositionTableSize (entries) *)
}.

Definition add16 (a b : Z) : Z := wrap16 (a + b).
Definition sub16 (a b : Z) : Z := wrap16 (a - b).
Definition mul16 (a b : Z) : Z := wrap16 (a * b).
Definition neg16 (a : Z) : Z := wrap16 (- a).
Definition pc (b : N) : Z := Z.of_N (popcount b).

Definition nthz (l : list Z) (i : N) : res Z := nth_res l (N.to_nat i).

Section Eval.
Variable C : econsts.

Definition bbr (p : position) (c t : N) : res N := get_bb p c t.

(* evaluation.go: gamePhase (int16 accumulation), IsEndgame, IsPawnEndgame *)
Definition game_phase (p : position) : res Z :=
  g <- fold_left (fun acc c =>
         g <- acc ;;
         b <- bbr p c BISHOP ;; n <- bbr p c KNIGHT ;; r <- bbr p c ROOK ;; q <- bbr p c QUEEN ;;
         let g := add16 g (wrap16 (ec_phase_bishop C * pc b)) in
         let g := add16 g (wrap16 (ec_phase_knight C * pc n)) in
         let g := add16 g (wrap16 (ec_phase_rook C * pc r)) in
         Ok (add16 g (wrap16 (ec_phase_queen C * pc q))))
       [WHITE; BLACK] (Ok 0) ;;
  Ok (if ec_max_phase C <? g then ec_max_phase C else g).
Definition is_endgame (p : position) : res bool :=
  g <- game_phase p ;; Ok (g <? ec_endgame_border C).
Definition is_pawn_endgame (p : position) : bool :=
  forallb (fun b => (b =? 0)%N) (bbs p).

(* contempt.go *)
Definition contempt (p : position) : res Z :=
  e <- is_endgame p ;; Ok (if e then 0 else ec_contempt C).

(* draw.go *)
Definition is_draw (p : position) : res bool :=
  if (100 <=? hmc p)%N then Ok true else
  if (popcount (all_pieces p) =? 2)%N then Ok true else
  wp <- bbr p WHITE PAWN ;; bp <- bbr p BLACK PAWN ;; wr <- bbr p WHITE ROOK ;; br <- bbr p BLACK ROOK ;;
  wq <- bbr p WHITE QUEEN ;; bq <- bbr p BLACK QUEEN ;;
  if (0 <? popcount (N.lor (N.lor (N.lor wp bp) (N.lor wr br)) (N.lor wq bq)))%N then Ok false else
  w <- color_bb p WHITE ;; b <- color_bb p BLACK ;;
  let nw := popcount w in let nb := popcount b in
  if ((nw =? 2) && (nb =? 2))%N then Ok true else
  if ((2 <? nw) && (2 <? nb))%N then Ok false else
  if ((3 <? nw) || (3 <? nb))%N then Ok false else
  wb <- bbr p WHITE BISHOP ;; bb <- bbr p BLACK BISHOP ;;
  if (popcount wb =? 2)%N then Ok (popcount bb =? 1)%N
  else if (popcount bb =? 2)%N then Ok (popcount wb =? 1)%N
  else Ok true.

(* piece_square_tables.go: evalPieceSquareTables *)
Definition pst_at (tbl : list (list (list Z))) (c t sq : N) : res Z :=
  l1 <- nth_res tbl (N.to_nat c) ;; l2 <- nth_res l1 (N.to_nat t) ;; nth_res l2 (N.to_nat sq).
Definition eval_pst (p : position) (me : Z * Z) : res (Z * Z) :=
  fold_left (fun acc t =>
    me <- acc ;;
    wb <- bbr p WHITE t ;;
    me <- fold_left (fun acc sq =>
            me <- acc ;; let '(m, e) := me in
            dm <- pst_at (ec_mid_pst C) WHITE t sq ;; de <- pst_at (ec_end_pst C) WHITE t sq ;;
            Ok (add16 m dm, add16 e de)) (bits wb) (Ok me) ;;
    bb <- bbr p BLACK t ;;
    fold_left (fun acc sq =>
      me <- acc ;; let '(m, e) := me in
      dm <- pst_at (ec_mid_pst C) BLACK t sq ;; de <- pst_at (ec_end_pst C) BLACK t sq ;;
      Ok (sub16 m dm, sub16 e de)) (bits bb) (Ok me))
    [PAWN; KNIGHT; BISHOP; ROOK; QUEEN; KING] (Ok me).

(* pawn.go: rankedPawnEval, evalPawns *)
Definition ranked_pawn_eval (scalar : Z) (selw selb : N) : Z :=
  fst (fold_left (fun (acc : Z * N) rank =>
         let '(r, mask) := acc in
         let wf := rank in let bf := 7 - rank in
         (add16 r (mul16 scalar (wrap16 (wf * pc (N.land selw mask) - bf * pc (N.land selb mask)))),
          shl64 mask 8))
       [1; 2; 3; 4; 5; 6] (0, RankMask2)).
Definition eval_pawns (p : position) (meb : Z * Z * Z) : res (Z * Z * Z) :=
  let '(m, e, b) := meb in
  wp <- bbr p WHITE PAWN ;; bp <- bbr p BLACK PAWN ;;
  let diff := wrap16 (pc (isolanis wp) - pc (isolanis bp)) in
  im <- nthz (ec_isolani C) 0 ;; ie <- nthz (ec_isolani C) 1 ;;
  let m := add16 m (mul16 im diff) in
  let e := add16 e (mul16 ie diff) in
  let b := add16 b (ranked_pawn_eval (ec_supported_scalar C) (supported WHITE wp) (supported BLACK bp)) in
  let b := add16 b (ranked_pawn_eval (ec_passed_scalar C) (passed WHITE wp bp) (passed BLACK wp bp)) in
  Ok (m, e, b).

(* pairs.go *)
Definition eval_pairs (p : position) (b : Z) : res Z :=
  wb <- bbr p WHITE BISHOP ;; bb <- bbr p BLACK BISHOP ;;
  wn <- bbr p WHITE KNIGHT ;; bn <- bbr p BLACK KNIGHT ;;
  wr <- bbr p WHITE ROOK ;; br <- bbr p BLACK ROOK ;;
  let b := if (1 <? popcount wb)%N then add16 b (ec_bishop_pair C) else b in
  let b := if (1 <? popcount bb)%N then sub16 b (ec_bishop_pair C) else b in
  let b := if (1 <? popcount wn)%N then add16 b (ec_knight_pair C) else b in
  let b := if (1 <? popcount bn)%N then sub16 b (ec_knight_pair C) else b in
  let b := if (1 <? popcount wr)%N then add16 b (ec_rook_pair C) else b in
  let b := if (1 <? popcount br)%N then sub16 b (ec_rook_pair C) else b in
  Ok b.

(* base_material.go *)
Definition eval_material (p : position) (b : Z) : res Z :=
  fold_left (fun acc t =>
    b <- acc ;;
    w <- bbr p WHITE t ;; bl <- bbr p BLACK t ;; v <- nthz (ec_piece_value C) t ;;
    Ok (add16 b (mul16 v (wrap16 (pc w - pc bl)))))
    [PAWN; KNIGHT; BISHOP; ROOK; QUEEN; KING] (Ok b).

(* pawn_adjustment.go (indexing with the pawn count: more than 8 pawns panics) *)
Definition eval_pawn_adjustment (p : position) (b : Z) : res Z :=
  wp <- bbr p WHITE PAWN ;; bp <- bbr p BLACK PAWN ;;
  wn <- bbr p WHITE KNIGHT ;; bn <- bbr p BLACK KNIGHT ;;
  wr <- bbr p WHITE ROOK ;; br <- bbr p BLACK ROOK ;;
  kw <- nthz (ec_knight_pawn_adj C) (popcount wp) ;;
  kb <- nthz (ec_knight_pawn_adj C) (popcount bp) ;;
  rw <- nthz (ec_rook_pawn_adj C) (popcount wp) ;;
  rb <- nthz (ec_rook_pawn_adj C) (popcount bp) ;;
  let b := add16 b (mul16 kw (wrap16 (pc wn))) in
  let b := sub16 b (mul16 kb (wrap16 (pc bn))) in
  let b := add16 b (mul16 rw (wrap16 (pc wr))) in
  let b := sub16 b (mul16 rb (wrap16 (pc br))) in
  Ok b.

(* mobility_and_king_attacks.go *)
Definition mobility_of (p : position) (we t sq : N) : N :=
  if (t =? PAWN)%N then pawn_attacks we sq
  else if (t =? BISHOP)%N then bishop_attacks sq (all_pieces p)
  else if (t =? KNIGHT)%N then knight_attacks sq
  else if (t =? ROOK)%N then rook_attacks sq (all_pieces p)
  else if (t =? QUEEN)%N then queen_attacks sq (all_pieces p)
  else king_attacks sq.
Definition mobility_by_color (p : position) (we : N) : res Z :=
  let them := switch_color we in
  own <- color_bb p we ;;
  let dest := not64 own in
  tk <- bbr p them KING ;;
  ksq <- lsb tk ;;
  let king_squares := king_attacks ksq in
  pawns <- bbr p we PAWN ;;
  let val := wrap16 (pc (N.land (pawn_pushes we pawns (all_pieces p)) dest)) in
  fold_left (fun acc t =>
    v <- acc ;;
    pieces <- bbr p we t ;;
    ka <- nthz (ec_king_att C) t ;;
    Ok (fold_left (fun v sq =>
          let mob := N.land (mobility_of p we t sq) dest in
          let v := add16 v (wrap16 (pc mob)) in
          add16 v (wrap16 (ka * pc (N.land mob king_squares))))
        (bits pieces) v))
    [PAWN; KNIGHT; BISHOP; ROOK; QUEEN; KING] (Ok val).
Definition eval_mobility (p : position) (b : Z) : res Z :=
  w <- mobility_by_color p WHITE ;; bl <- mobility_by_color p BLACK ;;
  Ok (add16 b (sub16 w bl)).

(* evaluation.go: calculateScore *)
Definition calculate_score (p : position) (m e b : Z) : res Z :=
  g <- game_phase p ;;
  let s := Z.quot (add16 (mul16 m g) (mul16 e (sub16 (ec_max_phase C) g))) (ec_max_phase C) in
  let s := wrap16 s in
  let s := add16 s b in
  Ok (if (side p =? BLACK)%N then mul16 s (-1) else s).

(* eval.do: returns the score and the three accumulators (phase scores and base score) *)
Definition eval_parts (p : position) : res (Z * Z * Z) :=
  me <- eval_pst p (0, 0) ;;
  meb <- eval_pawns p (fst me, snd me, 0) ;;
  let '(m, e, b) := meb in
  b <- eval_pairs p b ;;
  b <- eval_material p b ;;
  b <- eval_pawn_adjustment p b ;;
  b <- eval_mobility p b ;;
  Ok (m, e, b).
Definition eval_raw (p : position) : res Z :=
  d <- is_draw p ;;
  if d then contempt p else
  meb <- eval_parts p ;;
  let '(m, e, b) := meb in
  calculate_score p m e b.

(* transposition.go: the evaluation cache, a direct-mapped table keyed by hash mod size.
   Model: association list slot -> (hash, score); a missing slot is the zero entry. *)
Definition ecache := list (N * (N * Z)).
Fixpoint cache_lookup (c : ecache) (slot : N) : N * Z :=
  match c with
  | [] => (0%N, 0)
  | (k, v) :: r => if (k =? slot)%N then v else cache_lookup r slot
  end.
Definition cache_get (c : ecache) (h : N) : Z * bool :=
  let '(eh, es) := cache_lookup c (h mod ec_cache_size C)%N in
  (es, (eh =? h)%N).
Definition cache_save (c : ecache) (h : N) (s : Z) : ecache :=
  ((h mod ec_cache_size C)%N, (h, s)) :: c.

(* evalWithCache, with the D9 repair: the fifty-move rule is applied before the cache is consulted *)
Definition eval_cached (c : ecache) (p : position) : res (Z * ecache) :=
  if (100 <=? hmc p)%N then (s <- contempt p ;; Ok (s, c)) else
  let '(s, found) := cache_get c (hash p) in
  if found then Ok (s, c) else
  s <- eval_raw p ;;
  Ok (s, cache_save c (hash p) s).
(* as it stood before the repair *)
Definition eval_cached_unrepaired (c : ecache) (p : position) : res (Z * ecache) :=
  let '(s, found) := cache_get c (hash p) in
  if found then Ok (s, c) else
  s <- eval_raw p ;;
  Ok (s, cache_save c (hash p) s).

(* checkmate.go *)
Definition is_checkmate_value (v : Z) : bool :=
  (v <? - ec_inf C + ec_max_plies C) || (ec_inf C - ec_max_plies C <? v).

(* static_exchange_evaluation.go *)
Definition least_valuable (p : position) (attacks : N) (c : N) : res (N * N) :=
  (* returns (single bit or 0, attacker type; PIECE_TYPE_NUMBER = 6 when none) *)
  fold_left (fun acc t =>
    r <- acc ;;
    let '(bb, ty) := r in
    if negb (bb =? 0)%N then Ok r else
    b <- bbr p c t ;;
    let subset := N.land attacks b in
    if (0 <? subset)%N then Ok (N.land subset (neg64 subset), t) else Ok (0%N, (t + 1)%N))
    [PAWN; KNIGHT; BISHOP; ROOK; QUEEN; KING] (Ok (0%N, 0%N)).

Definition consider_xrays (p : position) (sq occ already : N) : res N :=
  bishops <- bbs2 p BISHOP ;; rooks <- bbs2 p ROOK ;; queens <- bbs2 p QUEEN ;;
  bp <- bbr p BLACK PAWN ;; wp <- bbr p WHITE PAWN ;;
  let a := N.land (bishop_attacks sq occ) (N.lor bishops queens) in
  let a := N.lor a (N.land (rook_attacks sq occ) (N.lor rooks queens)) in
  let a := N.lor a (N.land (pawn_attacks WHITE sq) bp) in
  let a := N.lor a (N.land (pawn_attacks BLACK sq) wp) in
  Ok (andnot64 a already).

(* first loop: builds gain[0..d]; gain is kept as a list with the newest entry first *)
Fixpoint see_swap (fuel : nat) (p : position) (target : N) (max_xray : N)
         (gain : list Z) (d : nat) (att_type : N) (src_bb attacks occ already stm : N) : res (list Z) :=
  match fuel with
  | O => Panic    (* gain[32] would be indexed: index out of range *)
  | S f =>
    let d := S d in
    if (32 <=? d)%nat then Panic else
    v <- nthz (ec_piece_value C) att_type ;;
    match gain with
    | [] => Panic
    | gprev :: _ =>
      let g := sub16 v gprev in
      let gain := g :: gain in
      if Z.max (neg16 gprev) g <? 0 then Ok gain else
      let attacks := N.lxor attacks src_bb in
      let occ := N.lxor occ src_bb in
      let already := N.lor already src_bb in
      attacks <- (if (0 <? N.land src_bb max_xray)%N then
                    (x <- consider_xrays p target occ already ;; Ok (N.lor attacks x))
                  else Ok attacks) ;;
      let stm := switch_color stm in
      r <- least_valuable p attacks stm ;;
      let '(src_bb, att_type) := r in
      if (src_bb =? 0)%N then Ok gain
      else see_swap f p target max_xray gain d att_type src_bb attacks occ already stm
    end
  end.

(* second loop: for { d--; if d == 0 break; gain[d-1] = -max(-gain[d-1], gain[d]) }; return gain[0].
   The first d-- drops the last (speculative) entry; then each entry is folded into the one below. *)
Definition see_fold (gain : list Z) : res Z :=
  match gain with
  | _ :: h :: rest => Ok (fold_left (fun h n => neg16 (Z.max (neg16 n) h)) rest h)
  | _ => Panic
  end.

Definition see (p : position) (m : N) : res Z :=
  let target := mv_dst m in
  let src := mv_src m in
  tp <- get_piece p target ;;
  sp <- get_piece p src ;;
  wp <- bbr p WHITE PAWN ;; bp <- bbr p BLACK PAWN ;;
  bishops <- bbs2 p BISHOP ;; rooks <- bbs2 p ROOK ;; queens <- bbs2 p QUEEN ;;
  let max_xray := N.lor (N.lor (N.lor wp bp) bishops) (N.lor rooks queens) in
  attacks <- square_attacked_by p target ;;
  g0 <- nthz (ec_piece_value C) (piece_type tp) ;;
  gain <- see_swap 40 p target max_xray [g0] 0 (piece_type sp) (bit src) attacks (all_pieces p) (bit src) (side p) ;;
  see_fold gain.

End Eval.
